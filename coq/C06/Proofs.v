(* C06 — lemmas about the commit / rollback loops shared by font.commitCollectionFonts,
   api.commitStagedFontsWithOperations and api.publishCheatSheets. *)
From stdpp Require Import gmap.
From Coq Require Import NArith Lia.
From PV Require Import C01.FS C01.FSFacts C06.Model.

(* ---------- errors ---------- *)
Lemma ejoin_None_l e : ejoin None e = e.
Proof. destruct e; reflexivity. Qed.
Lemma ejoin_None_r e : ejoin e None = e.
Proof. destruct e; reflexivity. Qed.
Lemma ejoin_None a b : ejoin a b = None <-> a = None /\ b = None.
Proof. destruct a, b; cbn; split; try tauto; try (intros [? ?]; congruence); intros ?; discriminate. Qed.
Lemma ejoin_In a b e x : ejoin a b = Some e -> (forall m, b = Some m -> In x m) -> b <> None -> In x e.
Proof.
  destruct a as [ma|], b as [mb|]; cbn; intros He Hb Hn; try congruence.
  - injection He as <-. apply in_or_app. right. apply Hb. reflexivity.
  - injection He as <-. apply Hb. reflexivity.
Qed.

(* ---------- three directories of a tree ---------- *)
Section View.
Variables F G B : dir.
Hypothesis HFS : F <> G.
Hypothesis HFB : F <> B.
Hypothesis HSB : G <> B.
Variable t0 : tree.

Definition tview (t : tree) (cF cS cB : dcontent) : Prop :=
  t !! F = Some cF /\ t !! G = Some cS /\ t !! B = Some cB /\
  (forall x, x <> F -> x <> G -> x <> B -> t !! x = t0 !! x).

Ltac view_solve :=
  repeat split; try (intros x Hx1 Hx2 Hx3);
  repeat (first [ rewrite lookup_insert | rewrite lookup_insert_ne by congruence ]); auto.

Lemma rename_FB t cF cS cB n f :
  tview t cF cS cB -> cF !! n = Some f ->
  exists t', rename_tree F n B n t = Some t' /\ tview t' (delete n cF) cS (<[n := f]> cB).
Proof.
  intros (HF & HS & HB & Hfr) Hn. eexists. split.
  - unfold rename_tree. rewrite HF, Hn. cbv zeta. rewrite lookup_insert_ne by congruence. rewrite HB. reflexivity.
  - view_solve.
Qed.
Lemma rename_SF t cF cS cB n f :
  tview t cF cS cB -> cS !! n = Some f ->
  exists t', rename_tree G n F n t = Some t' /\ tview t' (<[n := f]> cF) (delete n cS) cB.
Proof.
  intros (HF & HS & HB & Hfr) Hn. eexists. split.
  - unfold rename_tree. rewrite HS, Hn. cbv zeta. rewrite lookup_insert_ne by congruence. rewrite HF. reflexivity.
  - view_solve.
Qed.
Lemma rename_BF t cF cS cB n f :
  tview t cF cS cB -> cB !! n = Some f ->
  exists t', rename_tree B n F n t = Some t' /\ tview t' (<[n := f]> cF) cS (delete n cB).
Proof.
  intros (HF & HS & HB & Hfr) Hn. eexists. split.
  - unfold rename_tree. rewrite HB, Hn. cbv zeta. rewrite lookup_insert_ne by congruence. rewrite HF. reflexivity.
  - view_solve.
Qed.
Lemma remove_F t cF cS cB n :
  tview t cF cS cB -> tview (<[F := delete n cF]> t) (delete n cF) cS cB.
Proof. intros (HF & HS & HB & Hfr). view_solve. Qed.
End View.

(* ---------- the primitives under a plan ---------- *)
Section Prims.
Variable pl : plan.

Lemma sync_dir_spec d w :
  wt (dworld_of (sync_dir pl d w)) = wt w /\ dcnt (dworld_of (sync_dir pl d w)) = S (dcnt w) /\
  (is_Some (wt w !! d) -> pl (dcnt w) = false -> out_err (sync_dir pl d w) = None) /\
  (out_err (sync_dir pl d w) <> None -> is_Some (wt w !! d) -> pl (dcnt w) = true) /\
  (forall m, out_err (sync_dir pl d w) = Some m -> In (PDir d) m).
Proof.
  unfold sync_dir, dcall, dcallm, dcalld. destruct (pl (dcnt w)) eqn:Hp; cbn.
  - split; [reflexivity|]. split; [reflexivity|]. split; [congruence|]. split; [reflexivity|].
    intros m [= <-]. left. reflexivity.
  - destruct (wt w !! d) eqn:Hd; cbn.
    + split; [reflexivity|]. split; [reflexivity|]. split; [reflexivity|]. split; [congruence|].
      intros m Hm. discriminate.
    + split; [reflexivity|]. split; [reflexivity|]. split; [|split].
      * intros Hs. destruct Hs as [x Hx]. discriminate.
      * intros _ Hs. destruct Hs as [x Hx]. discriminate.
      * intros m [= <-]. left. reflexivity.
Qed.

(* syncCollectionDirectories: the tree is untouched; an error needs a fault (the directories exist) and
   names a directory of the list *)
Lemma sync_dirs_spec ds : forall seen w,
  (forall d, In d ds -> is_Some (wt w !! d)) ->
  wt (snd (sync_dirs pl seen ds w)) = wt w /\
  dcnt w <= dcnt (snd (sync_dirs pl seen ds w)) /\
  (quiet pl (dcnt w) -> fst (sync_dirs pl seen ds w) = None) /\
  (fst (sync_dirs pl seen ds w) <> None ->
     exists j, dcnt w <= j < dcnt (snd (sync_dirs pl seen ds w)) /\ pl j = true).
Proof.
  induction ds as [|d ds IH]; intros seen w Hex; cbn [sync_dirs].
  - cbn. repeat split; try lia; try congruence.
  - destruct (bool_decide (d ∈ seen)).
    + apply IH. intros d' Hd'. apply Hex. right. exact Hd'.
    + destruct (sync_dir_spec d w) as (Ht & Hc & Hq & Hf & _).
      specialize (IH (d :: seen) (dworld_of (sync_dir pl d w))).
      destruct (sync_dirs pl (d :: seen) ds (dworld_of (sync_dir pl d w))) as [e w'] eqn:E.
      cbn [fst snd] in *. destruct IH as (I1 & I2 & I3 & I4).
      { intros d' Hd'. rewrite Ht. apply Hex. right. exact Hd'. }
      rewrite Ht in I1. rewrite Hc in I2, I3, I4.
      split; [exact I1|]. split; [lia|]. split.
      * intros Hq'. rewrite Hq; [|apply Hex; left; reflexivity|apply quiet_here; exact Hq'].
        cbn. apply I3. eapply quiet_mono; [exact Hq'|lia].
      * intros Hne. destruct (out_err (sync_dir pl d w)) eqn:Eo.
        -- exists (dcnt w). split; [lia|]. apply Hf; [congruence|apply Hex; left; reflexivity].
        -- cbn in Hne. destruct (I4 Hne) as (j & Hj & Hpj). exists j. split; [lia|exact Hpj].
Qed.
End Prims.

(* ---------- the commit loop and its rollback ---------- *)
Section Commit.
Variable pl : plan.
Variables F G B : list positive.
Hypothesis HFS : F <> G.
Hypothesis HFB : F <> B.
Hypothesis HSB : G <> B.
Variable t0 : gmap (list positive) (gmap positive file).
(* the contents of the target and of the staging directory when the commit starts *)
Variables cF0 cS0 : gmap positive file.

Notation tv := (tview F G B t0).

(* what a record says about its name, in terms of the three directories *)
Definition rec_ok (cF cS cB : gmap positive file) (r : crec) : Prop :=
  cB !! r_name r = (if r_had r then cF0 !! r_name r else None) /\
  (r_had r = true -> is_Some (cF0 !! r_name r)) /\
  cF !! r_name r = (if r_comm r then cS0 !! r_name r else if r_had r then None else cF0 !! r_name r) /\
  (r_comm r = true -> r_had r = false -> cF0 !! r_name r = None) /\
  (r_comm r = true -> is_Some (cS0 !! r_name r)) /\
  cS !! r_name r = (if r_comm r then None else cS0 !! r_name r).

Definition untouched (cF cS cB : gmap positive file) (n : positive) : Prop :=
  cF !! n = cF0 !! n /\ cB !! n = None /\ cS !! n = cS0 !! n.

Definition inv (recs : list crec) (cF cS cB : gmap positive file) : Prop :=
  NoDup (map r_name recs) /\ Forall (rec_ok cF cS cB) recs /\
  (forall n, ~ In n (map r_name recs) -> untouched cF cS cB n).

Definition agree_except (n : positive) (a b : gmap positive file) : Prop := forall k, k <> n -> a !! k = b !! k.

Lemma agree_refl n a : agree_except n a a.
Proof. intros k _. reflexivity. Qed.
Lemma agree_delete n a : agree_except n (delete n a) a.
Proof. intros k Hk. apply lookup_delete_ne. congruence. Qed.
Lemma agree_insert n a f : agree_except n (<[n := f]> a) a.
Proof. intros k Hk. apply lookup_insert_ne. congruence. Qed.
Lemma agree_trans n a b c : agree_except n a b -> agree_except n b c -> agree_except n a c.
Proof. intros H1 H2 k Hk. rewrite H1, H2 by exact Hk. reflexivity. Qed.

Lemma rec_ok_frame n cF cS cB cF' cS' cB' r :
  r_name r <> n -> agree_except n cF' cF -> agree_except n cS' cS -> agree_except n cB' cB ->
  rec_ok cF cS cB r -> rec_ok cF' cS' cB' r.
Proof.
  intros Hn HF' HS' HB' (H1 & H2 & H3 & H4 & H5 & H6). unfold rec_ok.
  rewrite HF', HS', HB' by exact Hn. repeat split; assumption.
Qed.

Lemma push_inv recs cF cS cB cF' cS' cB' n h c :
  inv recs cF cS cB -> ~ In n (map r_name recs) ->
  agree_except n cF' cF -> agree_except n cS' cS -> agree_except n cB' cB ->
  rec_ok cF' cS' cB' (CRec n h c) ->
  inv (CRec n h c :: recs) cF' cS' cB'.
Proof.
  intros (Hnd & Hall & Hun) Hn HF' HS' HB' Hok. split; [|split].
  - cbn. apply NoDup_cons. split; [rewrite elem_of_list_In; exact Hn|exact Hnd].
  - constructor; [exact Hok|]. rewrite Forall_forall in Hall |- *. intros r Hr.
    eapply rec_ok_frame; [|exact HF'|exact HS'|exact HB'|apply Hall; exact Hr].
    intros <-. apply Hn. apply elem_of_list_In. apply elem_of_list_fmap_1. exact Hr.
  - intros k Hk. cbn in Hk. assert (k <> n) by (intros ->; apply Hk; left; reflexivity).
    destruct (Hun k) as (U1 & U2 & U3); [intros Hin; apply Hk; right; exact Hin|].
    unfold untouched. rewrite HF', HS', HB' by assumption. repeat split; assumption.
Qed.

(* one primitive, no fault / fault *)
Lemma rename_ok d1 n1 d2 n2 w t' :
  pl (dcnt w) = false -> rename_tree d1 n1 d2 n2 (wt w) = Some t' ->
  exists tr, rename pl d1 n1 d2 n2 w = DDone tt (DW t' (S (dcnt w)) tr).
Proof. intros Hp Hr. unfold rename, dcall, dcallm, dcalld. rewrite Hp, Hr. eexists. reflexivity. Qed.
Lemma rename_fault d1 n1 d2 n2 w :
  pl (dcnt w) = true ->
  exists tr, rename pl d1 n1 d2 n2 w = DFail EIO [PFile d1 n1; PFile d2 n2] (DW (wt w) (S (dcnt w)) tr).
Proof. intros Hp. unfold rename, dcall, dcallm, dcalld. rewrite Hp. eexists. reflexivity. Qed.

Lemma lookup_file_view t cF cS cB n : tv t cF cS cB -> lookup_file t F n = cF !! n.
Proof. intros (HF & _). unfold lookup_file. rewrite HF. reflexivity. Qed.

Lemma view_exists t cF cS cB d : tv t cF cS cB -> In d [F; G; B] -> is_Some (t !! d).
Proof.
  intros (HF & HS & HB & _) [<-|[<-|[<-|[]]]]; eauto.
Qed.

(* syncs of two of the three directories: tree unchanged *)
Lemma sync2_spec d1 d2 w cF cS cB :
  tv (wt w) cF cS cB -> In d1 [F; G; B] -> In d2 [F; G; B] ->
  wt (snd (sync_dirs pl [] [d1; d2] w)) = wt w /\
  dcnt w <= dcnt (snd (sync_dirs pl [] [d1; d2] w)) /\
  (quiet pl (dcnt w) -> fst (sync_dirs pl [] [d1; d2] w) = None) /\
  (fst (sync_dirs pl [] [d1; d2] w) <> None ->
     exists j, dcnt w <= j < dcnt (snd (sync_dirs pl [] [d1; d2] w)) /\ pl j = true).
Proof.
  intros Hv H1 H2. apply sync_dirs_spec. intros d [<-|[<-|[]]]; eapply view_exists; eauto.
Qed.

Lemma commit_core_spec names : forall recs w cF cS cB,
  tv (wt w) cF cS cB -> inv recs cF cS cB -> NoDup names ->
  (forall n, In n names -> ~ In n (map r_name recs)) ->
  (forall n, In n names -> is_Some (cS0 !! n)) ->
  exists cF' cS' cB',
    tv (wt (snd (commit_core pl F G B names recs w))) cF' cS' cB' /\
    inv (snd (fst (commit_core pl F G B names recs w))) cF' cS' cB' /\
    dcnt w <= dcnt (snd (commit_core pl F G B names recs w)) /\
    (fst (fst (commit_core pl F G B names recs w)) <> None ->
       exists j, dcnt w <= j < dcnt (snd (commit_core pl F G B names recs w)) /\ pl j = true) /\
    (fst (fst (commit_core pl F G B names recs w)) = None ->
       (forall n, In n names -> cF' !! n = cS0 !! n) /\ (forall n, ~ In n names -> cF' !! n = cF !! n)).
Proof.
  induction names as [|n ns IH]; intros recs w cF cS cB Hv Hinv Hnd Hfresh Hst.
  - cbn. exists cF, cS, cB. split; [exact Hv|]. split; [exact Hinv|]. split; [lia|]. split; [congruence|].
    intros _. split; [intros n []|reflexivity].
  - assert (Hn : ~ In n (map r_name recs)) by (apply Hfresh; left; reflexivity).
    destruct Hinv as (Hrnd & Hall & Hun). pose proof (Hun n Hn) as (U1 & U2 & U3).
    assert (Hinv : inv recs cF cS cB) by (split; [exact Hrnd|split; [exact Hall|exact Hun]]).
    apply NoDup_cons in Hnd. destruct Hnd as (Hnns & Hnd). rewrite elem_of_list_In in Hnns.
    destruct (Hst n) as [g Hg]; [left; reflexivity|].
    (* the tail of the loop body, shared by both lstat outcomes *)
    assert (Hstep : forall (had : bool) (w1 : dworld) (cF1 cB1 : gmap positive file),
      tv (wt w1) cF1 cS cB1 -> dcnt w <= dcnt w1 ->
      agree_except n cF1 cF -> agree_except n cB1 cB ->
      (forall c : bool, rec_ok (if c then <[n := g]> cF1 else cF1) (if c then delete n cS else cS) cB1 (CRec n had c)) ->
      forall step : oerr * list crec * dworld,
      step = (match rename pl G n F n w1 with
              | DFail _ m w2 => (Some m, CRec n had false :: recs, w2)
              | DDone _ w2 =>
                match sync_dirs pl [] [G; F] w2 with
                | (Some m, w3) => (Some m, CRec n had true :: recs, w3)
                | (None, w3) => commit_core pl F G B ns (CRec n had true :: recs) w3
                end
              end) ->
      exists cF' cS' cB',
        tv (wt (snd step)) cF' cS' cB' /\ inv (snd (fst step)) cF' cS' cB' /\ dcnt w <= dcnt (snd step) /\
        (fst (fst step) <> None -> exists j, dcnt w <= j < dcnt (snd step) /\ pl j = true) /\
        (fst (fst step) = None ->
           (forall k, In k (n :: ns) -> cF' !! k = cS0 !! k) /\ (forall k, ~ In k (n :: ns) -> cF' !! k = cF !! k))).
    { intros had w1 cF1 cB1 Hv1 Hle HaF HaB Hrec step ->.
      destruct (pl (dcnt w1)) eqn:Hp1.
      - destruct (rename_fault G n F n w1 Hp1) as (tr & ->). cbn [fst snd wt dcnt].
        exists cF1, cS, cB1. split; [exact Hv1|]. split.
        { eapply push_inv; [exact Hinv|exact Hn|exact HaF|apply agree_refl|exact HaB|apply (Hrec false)]. }
        split; [lia|]. split; [|congruence]. intros _. exists (dcnt w1). split; [lia|exact Hp1].
      - assert (HcS : cS !! n = Some g) by (rewrite U3; exact Hg).
        destruct (rename_SF F G B HFS HFB HSB t0 (wt w1) cF1 cS cB1 n g Hv1 HcS) as (t2 & Hr2 & Hv2).
        destruct (rename_ok G n F n w1 t2 Hp1 Hr2) as (tr & ->).
        set (w2 := DW t2 (S (dcnt w1)) tr).
        destruct (sync2_spec G F w2 _ _ _ Hv2) as (Ht3 & Hc3 & _ & Hf3); [right; left; reflexivity|left; reflexivity|].
        destruct (sync_dirs pl [] [G; F] w2) as [[m|] w3] eqn:Es; cbn [fst snd] in *.
        + exists (<[n := g]> cF1), (delete n cS), cB1. rewrite Ht3. split; [exact Hv2|]. split.
          { eapply push_inv; [exact Hinv|exact Hn| | |exact HaB|apply (Hrec true)].
            - eapply agree_trans; [apply agree_insert|exact HaF].
            - apply agree_delete. }
          split; [unfold w2 in Hc3; cbn in Hc3; lia|]. split; [|congruence]. intros _.
          destruct Hf3 as (j & Hj & Hpj); [congruence|]. exists j. split; [unfold w2 in Hj; cbn in Hj; lia|exact Hpj].
        + assert (Hinv2 : inv (CRec n had true :: recs) (<[n := g]> cF1) (delete n cS) cB1).
          { eapply push_inv; [exact Hinv|exact Hn| | |exact HaB|apply (Hrec true)].
            - eapply agree_trans; [apply agree_insert|exact HaF].
            - apply agree_delete. }
          destruct (IH (CRec n had true :: recs) w3 (<[n := g]> cF1) (delete n cS) cB1) as (cF' & cS' & cB' & I1 & I2 & I3 & I4 & I5).
          { rewrite Ht3. exact Hv2. }
          { exact Hinv2. }
          { exact Hnd. }
          { intros k Hk [Hk'|Hk']; [cbn in Hk'; subst k; exact (Hnns Hk)|]. apply (Hfresh k); [right; exact Hk|exact Hk']. }
          { intros k Hk. apply Hst. right. exact Hk. }
          exists cF', cS', cB'. split; [exact I1|]. split; [exact I2|].
          split; [unfold w2 in Hc3; cbn in Hc3; lia|]. split.
          * intros Hne. destruct (I4 Hne) as (j & Hj & Hpj). exists j. split; [unfold w2 in Hc3; cbn in Hc3; lia|exact Hpj].
          * intros He. destruct (I5 He) as (J1 & J2). split.
            -- intros k [<-|Hk]; [|apply J1; exact Hk]. rewrite J2 by exact Hnns. rewrite lookup_insert. symmetry. exact Hg.
            -- intros k Hk. rewrite J2 by (intros Hk'; apply Hk; right; exact Hk').
               rewrite lookup_insert_ne by (intros ->; apply Hk; left; reflexivity).
               apply HaF. intros ->. apply Hk. left. reflexivity. }
    cbn [commit_core]. unfold lstat, dcall, dcallm, dcalld. destruct (pl (dcnt w)) eqn:Hp0.
    + (* lstat faulted *)
      cbn [fst snd wt dcnt]. exists cF, cS, cB. split; [exact Hv|]. split.
      { eapply push_inv; [exact Hinv|exact Hn|apply agree_refl|apply agree_refl|apply agree_refl|].
        unfold rec_ok; cbn. repeat split; try congruence. }
      split; [lia|]. split; [|congruence]. intros _. exists (dcnt w). split; [lia|exact Hp0].
    + rewrite (lookup_file_view _ _ _ _ _ Hv). destruct (cF !! n) as [f|] eqn:HcF.
      * (* the target exists: back it up *)
        set (w1 := DW (wt w) (S (dcnt w)) _).
        assert (Hc1 : dcnt w1 = S (dcnt w)) by reflexivity.
        assert (Hv1 : tv (wt w1) cF cS cB) by exact Hv.
        destruct (pl (dcnt w1)) eqn:Hp1.
        -- destruct (rename_fault F n B n w1 Hp1) as (tr & ->). cbn [fst snd wt dcnt].
           exists cF, cS, cB. split; [exact Hv|]. split.
           { eapply push_inv; [exact Hinv|exact Hn|apply agree_refl|apply agree_refl|apply agree_refl|].
             unfold rec_ok; cbn. repeat split; try congruence. }
           split; [lia|]. split; [|congruence]. intros _. exists (S (dcnt w)). split; [lia|exact Hp1].
        -- destruct (rename_FB F G B HFS HFB HSB t0 (wt w1) cF cS cB n f Hv1 HcF) as (t2 & Hr2 & Hv2).
           destruct (rename_ok F n B n w1 t2 Hp1 Hr2) as (tr & ->).
           set (w2 := DW t2 (S (dcnt w1)) tr).
           destruct (sync2_spec F B w2 _ _ _ Hv2) as (Ht3 & Hc3 & _ & Hf3); [left; reflexivity|right; right; left; reflexivity|].
           assert (Hf0 : cF0 !! n = Some f) by congruence.
           destruct (sync_dirs pl [] [F; B] w2) as [[m|] w3] eqn:Es; cbn [fst snd] in *.
           ++ exists (delete n cF), cS, (<[n := f]> cB). rewrite Ht3. split; [exact Hv2|]. split.
              { eapply push_inv; [exact Hinv|exact Hn|apply agree_delete|apply agree_refl|apply agree_insert|].
                unfold rec_ok; cbn. rewrite lookup_insert, lookup_delete, Hf0.
                repeat split; try congruence; eauto. }
              split; [unfold w2, w1 in Hc3; cbn in Hc3; lia|]. split; [|congruence]. intros _.
              destruct Hf3 as (j & Hj & Hpj); [congruence|]. exists j. split; [unfold w2, w1 in Hj; cbn in Hj; lia|exact Hpj].
           ++ eapply (Hstep true w3 (delete n cF) (<[n := f]> cB)).
              ** rewrite Ht3. exact Hv2.
              ** unfold w2, w1 in Hc3; cbn in Hc3; lia.
              ** apply agree_delete.
              ** apply agree_insert.
              ** intros c. unfold rec_ok; cbn. rewrite !lookup_insert, Hf0.
                 destruct c; [rewrite lookup_insert, lookup_delete|rewrite lookup_delete];
                   repeat split; try congruence; eauto.
              ** reflexivity.
      * (* no such target *)
        set (w1 := DW (wt w) (S (dcnt w)) _).
        assert (Hc1 : dcnt w1 = S (dcnt w)) by reflexivity.
        assert (Hf0 : cF0 !! n = None) by congruence.
        eapply (Hstep false w1 cF cB).
        -- exact Hv.
        -- unfold w1; cbn; lia.
        -- apply agree_refl.
        -- apply agree_refl.
        -- intros c. unfold rec_ok; cbn. rewrite U2, Hf0.
           destruct c; [rewrite lookup_insert, lookup_delete|rewrite HcF, U3];
             repeat split; try congruence; eauto.
        -- reflexivity.
Qed.
End Commit.

(* ---------- os.RemoveAll ---------- *)
Lemma under_refl (d : list positive) : under d d = true.
Proof. unfold under. apply bool_decide_eq_true. reflexivity. Qed.
Lemma remove_all_lookup (d : list positive) (t : gmap (list positive) (gmap positive file)) (x : list positive) :
  remove_all_tree d t !! x = if under d x then None else t !! x.
Proof.
  unfold remove_all_tree. destruct (under d x) eqn:E.
  - apply map_filter_lookup_None. right. intros c _ Hc. cbn in Hc. congruence.
  - destruct (t !! x) as [c|] eqn:Hx.
    + apply map_filter_lookup_Some. split; [exact Hx|exact E].
    + apply map_filter_lookup_None. left. exact Hx.
Qed.

Section Rollback.
Variable pl : plan.
Variables F G B : list positive.
Hypothesis HFS : F <> G.
Hypothesis HFB : F <> B.
Hypothesis HSB : G <> B.
Variable t0 : gmap (list positive) (gmap positive file).
Variables cF0 cS0 : gmap positive file.
Notation tv := (tview F G B t0).
Notation rok := (rec_ok cF0 cS0).

Lemma sync_dirs_wt ds : forall seen w, wt (snd (sync_dirs pl seen ds w)) = wt w.
Proof.
  induction ds as [|d ds IH]; intros seen w; cbn [sync_dirs]; [reflexivity|].
  destruct (bool_decide (d ∈ seen)); [apply IH|].
  specialize (IH (d :: seen) (dworld_of (sync_dir pl d w))).
  destruct (sync_dirs pl (d :: seen) ds (dworld_of (sync_dir pl d w))) as [e w'] eqn:E. cbn [snd] in *.
  rewrite IH. apply sync_dir_spec.
Qed.

Lemma rollback_loop_quiet recs : forall w cF cS cB,
  tv (wt w) cF cS cB -> NoDup (map r_name recs) -> Forall (rok cF cS cB) recs -> quiet pl (dcnt w) ->
  exists cF' cB',
    fst (rollback_loop pl F B recs w) = None /\
    tv (wt (snd (rollback_loop pl F B recs w))) cF' cS cB' /\
    dcnt w <= dcnt (snd (rollback_loop pl F B recs w)) /\
    (forall n, In n (map r_name recs) -> cF' !! n = cF0 !! n /\ cB' !! n = None) /\
    (forall n, ~ In n (map r_name recs) -> cF' !! n = cF !! n /\ cB' !! n = cB !! n).
Proof.
  induction recs as [|r rs IH]; intros w cF cS cB Hv Hnd Hall Hq.
  - cbn. exists cF, cB. split; [reflexivity|]. split; [exact Hv|]. split; [lia|]. split; [intros n []|].
    intros n _. split; reflexivity.
  - cbn [rollback_loop]. cbn [map] in Hnd. apply NoDup_cons in Hnd. destruct Hnd as (Hr & Hnd).
    rewrite elem_of_list_In in Hr.
    inversion Hall as [|r' rs' Hok Hall']; subst r' rs'.
    destruct Hok as (K1 & K2 & K3 & K4 & K5 & K6). set (n := r_name r) in *.
    (* step 1: remove the committed file *)
    assert (H1 : exists w1 cF1,
      (if r_comm r then (remove_err (remove pl F n w), dworld_of (remove pl F n w)) else (None, w)) = (None, w1) /\
      tv (wt w1) cF1 cS cB /\ dcnt w <= dcnt w1 <= S (dcnt w) /\ agree_except n cF1 cF /\
      cF1 !! n = (if r_comm r then None else cF !! n)).
    { destruct (r_comm r) eqn:Ec.
      - unfold remove, dcall, dcallm, dcalld. rewrite (quiet_here _ _ Hq). destruct Hv as (HF & HS & HB & Hfr). rewrite HF.
        destruct (K5 eq_refl) as [g Hg]. rewrite K3, Hg. cbn.
        eexists _, (delete n cF). split; [reflexivity|]. cbn [wt dcnt]. split.
        + apply remove_F; assumption || (repeat split; assumption).
        + split; [lia|]. split; [apply agree_delete|apply lookup_delete].
      - exists w, cF. split; [reflexivity|]. split; [exact Hv|]. split; [lia|]. split; [apply agree_refl|reflexivity]. }
    destruct H1 as (w1 & cF1 & -> & Hv1 & Hc1 & Ha1 & Hn1).
    assert (Hq1 : quiet pl (dcnt w1)) by (eapply quiet_mono; [exact Hq|lia]).
    (* step 2: restore the original *)
    assert (H2 : exists w2 cF2 cB2,
      (if r_had r then (out_err (rename pl B n F n w1), dworld_of (rename pl B n F n w1)) else (None, w1)) = (None, w2) /\
      tv (wt w2) cF2 cS cB2 /\ dcnt w1 <= dcnt w2 /\ agree_except n cF2 cF /\ agree_except n cB2 cB /\
      cF2 !! n = cF0 !! n /\ cB2 !! n = None).
    { destruct (r_had r) eqn:Eh.
      - destruct (K2 eq_refl) as [f Hf]. rewrite Hf in K1.
        destruct (rename_BF F G B HFS HFB HSB t0 (wt w1) cF1 cS cB n f Hv1 K1) as (t2 & Hr2 & Hv2).
        destruct (rename_ok pl B n F n w1 t2 (quiet_here _ _ Hq1) Hr2) as (tr & ->). cbn.
        eexists _, _, _. split; [reflexivity|]. cbn [wt dcnt]. split; [exact Hv2|]. split; [lia|].
        split; [eapply agree_trans; [apply agree_insert|exact Ha1]|]. split; [apply agree_delete|].
        split; [rewrite lookup_insert; symmetry; exact Hf|apply lookup_delete].
      - exists w1, cF1, cB. split; [reflexivity|]. split; [exact Hv1|]. split; [lia|]. split; [exact Ha1|].
        split; [apply agree_refl|]. split; [|exact K1].
        rewrite Hn1. destruct (r_comm r) eqn:Ec; [symmetry; apply K4; reflexivity|exact K3]. }
    destruct H2 as (w2 & cF2 & cB2 & -> & Hv2 & Hc2 & Ha2 & Hb2 & Hn2 & Hm2).
    destruct (IH w2 cF2 cS cB2) as (cF' & cB' & I1 & I2 & I3 & I4 & I5).
    { exact Hv2. } { exact Hnd. }
    { rewrite Forall_forall in Hall' |- *. intros r' Hr'.
      eapply rec_ok_frame; [|exact Ha2|apply agree_refl|exact Hb2|apply Hall'; exact Hr'].
      intros E. apply Hr. fold n. rewrite <- E. apply elem_of_list_In. apply elem_of_list_fmap_1. exact Hr'. }
    { eapply quiet_mono; [exact Hq1|lia]. }
    destruct (rollback_loop pl F B rs w2) as [e3 w3] eqn:E3. cbn [fst snd] in *. subst e3.
    exists cF', cB'. split; [reflexivity|]. split; [exact I2|]. split; [lia|]. split.
    + intros k [<-|Hk]; [|apply I4; exact Hk]. fold n. destruct (I5 n Hr) as (-> & ->). split; assumption.
    + intros k Hk. cbn in Hk. assert (k <> n) by (intros ->; apply Hk; left; reflexivity).
      destruct (I5 k) as (-> & ->); [intros Hk'; apply Hk; right; exact Hk'|].
      split; [apply Ha2|apply Hb2]; assumption.
Qed.

(* no fault left: the rollback restores the target directory and removes the backup directory *)
Lemma rollback_quiet recs w cF cS cB :
  tv (wt w) cF cS cB -> inv cF0 cS0 recs cF cS cB -> quiet pl (dcnt w) ->
  under B F = false -> under B G = false -> (forall x, x <> B -> under B x = true -> t0 !! x = None) ->
  fst (rollback pl F B recs w) = None /\
  wt (snd (rollback pl F B recs w)) !! F = Some cF0 /\
  wt (snd (rollback pl F B recs w)) !! G = Some cS /\
  (forall x, x <> F -> x <> G -> wt (snd (rollback pl F B recs w)) !! x = if under B x then None else t0 !! x).
Proof.
  intros Hv (Hnd & Hall & Hun) Hq HuF HuG Hu0. unfold rollback.
  destruct (rollback_loop_quiet recs w cF cS cB Hv Hnd Hall Hq) as (cF' & cB' & L1 & L2 & L3 & L4 & L5).
  destruct (rollback_loop pl F B recs w) as [e w1] eqn:E1. cbn [fst snd] in *. subst e.
  destruct (sync2_spec pl F G B t0 F B w1 cF' cS cB' L2) as (S1 & S2 & S3 & _);
    [left; reflexivity|right; right; left; reflexivity|].
  destruct (sync_dirs pl [] [F; B] w1) as [es w2] eqn:E2. cbn [fst snd] in *.
  rewrite S3 by (eapply quiet_mono; [exact Hq|lia]). cbn [ejoin].
  unfold remove_all, dcall, dcallm, dcalld. rewrite (quiet_here pl (dcnt w2)) by (eapply quiet_mono; [exact Hq|lia]).
  set (w3 := DW _ _ _). pose proof (sync_dirs_wt [F] [] w3) as S4.
  assert (Hcf : cF' = cF0).
  { apply map_eq. intros k. destruct (in_dec Pos.eq_dec k (map r_name recs)) as [Hk|Hk].
    - apply L4. exact Hk.
    - destruct (L5 k Hk) as (-> & _). apply Hun. exact Hk. }
  assert (Q : quiet pl (dcnt w3)) by (unfold w3; cbn; eapply quiet_mono; [exact Hq|lia]).
  destruct (sync_dirs_spec pl [F] [] w3) as (_ & _ & S5 & _).
  { intros d [<-|[]]. unfold w3; cbn. rewrite remove_all_lookup, HuF, S1. destruct L2 as (-> & _). eauto. }
  destruct (sync_dirs pl [] [F] w3) as [e4 w4] eqn:E4. cbn [fst snd] in *.
  split; [apply S5; exact Q|]. rewrite S4. unfold w3; cbn [wt]. rewrite S1.
  destruct L2 as (VF & VS & VB & Vfr).
  split; [rewrite remove_all_lookup, HuF, VF, Hcf; reflexivity|].
  split; [rewrite remove_all_lookup, HuG; exact VS|].
  intros x HxF HxG. rewrite remove_all_lookup. destruct (under B x) eqn:Eu; [reflexivity|].
  apply Vfr; [exact HxF|exact HxG|]. intros ->. rewrite under_refl in Eu. discriminate.
Qed.

(* whatever fails: if the rollback returns an error and the backup directory is still there, the error names it;
   if it returns nil the backup directory is gone *)
Lemma rollback_names_backup recs w :
  wt (snd (rollback pl F B recs w)) !! B <> None ->
  exists m, fst (rollback pl F B recs w) = Some m /\ In (PDir B) m.
Proof.
  unfold rollback. destruct (rollback_loop pl F B recs w) as [e w1].
  pose proof (sync_dirs_wt [F; B] [] w1) as S1.
  destruct (sync_dirs pl [] [F; B] w1) as [es w2]. cbn [snd] in S1.
  destruct (ejoin e es) as [m|].
  - cbn. intros _. exists (m ++ [PDir B]). split; [reflexivity|]. apply in_or_app. right. left. reflexivity.
  - unfold remove_all, dcall, dcallm, dcalld. destruct (pl (dcnt w2)).
    + cbn. intros _. eexists. split; [reflexivity|]. left. reflexivity.
    + set (w3 := DW _ _ _). pose proof (sync_dirs_wt [F] [] w3) as S4.
      destruct (sync_dirs pl [] [F] w3) as [e4 w4]. cbn [fst snd] in *. rewrite S4. unfold w3; cbn [wt].
      rewrite remove_all_lookup, under_refl. congruence.
Qed.
End Rollback.

(* ---------- commitCollectionFonts / publishCheatSheets as a whole ---------- *)
(* os.MkdirTemp returns a directory that did not exist (nor anything below it) *)
Definition fresh_ok (freshd : gmap (list positive) (gmap positive file) -> list positive -> positive) : Prop :=
  forall t p x, under (p ++ [freshd t p]) x = true -> t !! x = None.

Section Batch.
Variable pl : plan.
Variable freshd : gmap (list positive) (gmap positive file) -> list positive -> positive.
Hypothesis Hfresh : fresh_ok freshd.
Variables F G : list positive.
Variable names : list positive.
Variable w : dworld.
Variables cF0 cS0 : gmap positive file.
Hypothesis HF : wt w !! F = Some cF0.
Hypothesis HG : wt w !! G = Some cS0.
Hypothesis HFG : F <> G.
Hypothesis Hnd : NoDup names.
Hypothesis Hstaged : forall n, In n names -> is_Some (cS0 !! n).

Let B := F ++ [freshd (wt w) F].

Lemma B_fresh x : under B x = true -> wt w !! x = None.
Proof. apply Hfresh. Qed.
Lemma B_none : wt w !! B = None.
Proof. apply B_fresh. apply under_refl. Qed.
Lemma B_ne_F : F <> B.
Proof. intros E. pose proof B_none as H. rewrite <- E, HF in H. discriminate. Qed.
Lemma B_ne_G : G <> B.
Proof. intros E. pose proof B_none as H. rewrite <- E, HG in H. discriminate. Qed.
Lemma B_not_over_F : under B F = false.
Proof. destruct (under B F) eqn:E; [|reflexivity]. rewrite (B_fresh _ E) in HF. discriminate. Qed.
Lemma B_not_over_G : under B G = false.
Proof. destruct (under B G) eqn:E; [|reflexivity]. rewrite (B_fresh _ E) in HG. discriminate. Qed.

Let w1 : dworld := DW (<[B := ∅]> (wt w)) (S (dcnt w)) (DEv DMkdirTemp (PDir B) (PDir F) None [] :: dtr w).

Lemma view1 : tview F G B (wt w) (wt w1) cF0 cS0 ∅.
Proof.
  pose proof B_ne_F. pose proof B_ne_G. unfold w1; cbn [wt]. split; [|split; [|split]].
  - rewrite lookup_insert_ne by congruence. exact HF.
  - rewrite lookup_insert_ne by congruence. exact HG.
  - apply lookup_insert.
  - intros x _ _ Hx. apply lookup_insert_ne. congruence.
Qed.
Lemma inv1 : inv cF0 cS0 [] cF0 cS0 ∅.
Proof.
  split; [constructor|]. split; [constructor|]. intros n _. split; [reflexivity|]. split; [apply lookup_empty|reflexivity].
Qed.

Lemma mkdir_cases :
  (pl (dcnt w) = true /\ exists tr, mkdir_temp pl freshd F w = DFail EIO [] (DW (wt w) (S (dcnt w)) tr)) \/
  (pl (dcnt w) = false /\ mkdir_temp pl freshd F w = DDone B w1).
Proof.
  unfold mkdir_temp, dcallm, dcalld. destruct (pl (dcnt w)); [left|right].
  - split; [reflexivity|]. eexists. reflexivity.
  - split; [reflexivity|]. rewrite HF. reflexivity.
Qed.

Lemma core_spec :
  exists cF' cS' cB',
    tview F G B (wt w) (wt (snd (commit_core pl F G B names [] w1))) cF' cS' cB' /\
    inv cF0 cS0 (snd (fst (commit_core pl F G B names [] w1))) cF' cS' cB' /\
    dcnt w1 <= dcnt (snd (commit_core pl F G B names [] w1)) /\
    (fst (fst (commit_core pl F G B names [] w1)) <> None ->
       exists j, dcnt w1 <= j < dcnt (snd (commit_core pl F G B names [] w1)) /\ pl j = true) /\
    (fst (fst (commit_core pl F G B names [] w1)) = None ->
       (forall n, In n names -> cF' !! n = cS0 !! n) /\ (forall n, ~ In n names -> cF' !! n = cF0 !! n)).
Proof.
  apply (commit_core_spec pl F G B HFG B_ne_F B_ne_G (wt w) cF0 cS0 names [] w1 cF0 cS0 ∅).
  - exact view1.
  - exact inv1.
  - exact Hnd.
  - intros n _ [].
  - exact Hstaged.
Qed.

(* finalize leaves the target directory alone *)
Lemma finalize_F w2 cF cS cB :
  tview F G B (wt w) (wt w2) cF cS cB ->
  wt (snd (finalize pl F B w2)) !! F = Some cF /\
  (fst (finalize pl F B w2) = None ->
     wt (snd (finalize pl F B w2)) !! G = Some cS /\
     forall x, x <> F -> x <> G -> wt (snd (finalize pl F B w2)) !! x = wt w !! x) /\
  (wt (snd (finalize pl F B w2)) !! B <> None ->
     exists m, fst (finalize pl F B w2) = Some m /\ In (PDir B) m).
Proof.
  intros (VF & VS & VB & Vfr). unfold finalize, remove_all, dcall, dcallm, dcalld. destruct (pl (dcnt w2)).
  - cbn. split; [exact VF|]. split; [discriminate|]. intros _. eexists. split; [reflexivity|left; reflexivity].
  - set (w3 := DW _ _ _). pose proof (sync_dirs_wt pl [F] [] w3) as S4.
    destruct (sync_dirs pl [] [F] w3) as [e4 w4]. cbn [fst snd] in *. rewrite S4. unfold w3; cbn [wt].
    split; [rewrite remove_all_lookup, B_not_over_F; exact VF|]. split.
    + intros _. split; [rewrite remove_all_lookup, B_not_over_G; exact VS|].
      intros x HxF HxG. rewrite remove_all_lookup. destruct (under B x) eqn:Eu.
      * symmetry. apply B_fresh. exact Eu.
      * apply Vfr; [exact HxF|exact HxG|]. intros ->. rewrite under_refl in Eu. discriminate.
    + rewrite remove_all_lookup, under_refl. congruence.
Qed.

(* 1. every target is published whenever the operation says so; nil error means published *)
Lemma commit_batch_publishes v r w' :
  commit_batch pl freshd v F G names w = (r, w') ->
  (r_err r = None -> r_pub r = true) /\
  (r_pub r = true ->
     exists cF', wt w' !! F = Some cF' /\
       (forall n, In n names -> cF' !! n = cS0 !! n) /\ (forall n, ~ In n names -> cF' !! n = cF0 !! n)) /\
  (r_pub r = true -> r_err r = None -> r_warn r = [] ->
     forall x, x <> F -> x <> G -> wt w' !! x = wt w !! x).
Proof.
  unfold commit_batch. destruct mkdir_cases as [(Hp & tr & ->)|(Hp & ->)].
  - intros [= <- <-]. cbn. repeat split; discriminate.
  - destruct core_spec as (cF' & cS' & cB' & C1 & C2 & C3 & C4 & C5).
    destruct (commit_core pl F G B names [] w1) as [[ce recs] w2] eqn:Ec. cbn [fst snd] in *.
    destruct ce as [m|].
    + destruct (rollback pl F B recs w2) as [re w3]. intros [= <- <-]. cbn.
      split; [destruct re; discriminate|]. split; discriminate.
    + destruct (C5 eq_refl) as (P1 & P2).
      destruct (finalize_F w2 cF' cS' cB' C1) as (Z1 & Z2 & _).
      destruct (finalize pl F B w2) as [fe w3]. cbn [fst snd] in *.
      assert (Hpub : exists cF'0, wt w3 !! F = Some cF'0 /\
                (forall n, In n names -> cF'0 !! n = cS0 !! n) /\ (forall n, ~ In n names -> cF'0 !! n = cF0 !! n))
        by (exists cF'; split; [exact Z1|split; assumption]).
      destruct v, fe as [m|]; intros [= <- <-]; cbn; (split; [reflexivity || discriminate|]); (split; [intros _; exact Hpub|]);
        try discriminate; intros _ _ _; apply Z2; reflexivity.
Qed.

(* 2. at most one injected failure: not published => everything is as before, except that files have left
   the staging directory (the callers remove it) *)
Lemma commit_batch_restores v r w' :
  amo pl -> commit_batch pl freshd v F G names w = (r, w') -> r_pub r = false ->
  r_err r <> None /\ forall x, x <> G -> wt w' !! x = wt w !! x.
Proof.
  intros Hamo. unfold commit_batch. destruct mkdir_cases as [(Hp & tr & ->)|(Hp & ->)].
  - intros [= <- <-] _. cbn. split; [discriminate|reflexivity].
  - destruct core_spec as (cF' & cS' & cB' & C1 & C2 & C3 & C4 & C5).
    destruct (commit_core pl F G B names [] w1) as [[ce recs] w2] eqn:Ec. cbn [fst snd] in *.
    destruct ce as [m|].
    + destruct C4 as (j & Hj & Hpj); [discriminate|].
      assert (Hq : quiet pl (dcnt w2)) by (eapply amo_quiet_lt; [exact Hamo|exact Hpj|lia]).
      destruct (rollback_quiet pl F G B HFG B_ne_F B_ne_G (wt w) cF0 cS0 recs w2 cF' cS' cB' C1 C2 Hq
                  B_not_over_F B_not_over_G) as (R1 & R2 & R3 & R4).
      { intros x _ Hx. apply B_fresh. exact Hx. }
      destruct (rollback pl F B recs w2) as [re w3]. cbn [fst snd] in *. intros [= <- <-] _. cbn.
      split; [destruct re; discriminate|]. intros x HxG.
      destruct (decide (x = F)) as [->|HxF]; [rewrite R2, HF; reflexivity|].
      rewrite R4 by assumption. destruct (under B x) eqn:Eu; [symmetry; apply B_fresh; exact Eu|reflexivity].
    + destruct (finalize pl F B w2) as [fe w3]. destruct v, fe; intros [= <- <-]; cbn; discriminate.
Qed.

(* 3. whatever fails: a backup directory that is still there is named by the error or by a warning *)
Lemma commit_batch_names_backup v r w' :
  commit_batch pl freshd v F G names w = (r, w') -> wt w' !! B <> None ->
  (exists m, r_err r = Some m /\ In (PDir B) m) \/ (exists m, In m (r_warn r) /\ In (PDir B) m).
Proof.
  unfold commit_batch. destruct mkdir_cases as [(Hp & tr & ->)|(Hp & ->)].
  - intros [= <- <-]. cbn. intros Hn. exfalso. apply Hn. exact B_none.
  - destruct core_spec as (cF' & cS' & cB' & C1 & C2 & C3 & C4 & C5).
    destruct (commit_core pl F G B names [] w1) as [[ce recs] w2] eqn:Ec. cbn [fst snd] in *.
    destruct ce as [m|].
    + pose proof (rollback_names_backup pl F B recs w2) as Hr.
      destruct (rollback pl F B recs w2) as [re w3]. cbn [fst snd] in *. intros [= <- <-] Hn. cbn.
      destruct (Hr Hn) as (m' & -> & Hin). left. eexists. split; [reflexivity|]. apply in_or_app. right. exact Hin.
    + destruct (finalize_F w2 cF' cS' cB' C1) as (_ & _ & Z3).
      destruct (finalize pl F B w2) as [fe w3]. cbn [fst snd] in *.
      destruct v, fe as [m|]; intros [= <- <-] Hn; cbn; destruct (Z3 Hn) as (m' & Hm' & Hin); try discriminate;
        injection Hm' as <-.
      * right. exists m. split; [left; reflexivity|exact Hin].
      * left. exists m. split; [reflexivity|exact Hin].
Qed.
End Batch.

(* the concrete directory-name supply used by the extracted model is fresh *)
Lemma fresh_child_ok : fresh_ok fresh_child.
Proof.
  intros t p x Hu. unfold under in Hu. apply bool_decide_eq_true in Hu. destruct Hu as [k ->].
  destruct (t !! ((p ++ [fresh_child t p]) ++ k)) as [c|] eqn:E; [|reflexivity]. exfalso.
  apply elem_of_map_to_list in E. apply elem_of_list_In in E.
  apply (in_map (fun kv => pmax_dir (fst kv))) in E. cbn [fst] in E.
  apply pmax_list_ge in E.
  assert (Hc : (fresh_child t p <= pmax_dir ((p ++ [fresh_child t p]) ++ k))%positive).
  { apply (pmax_list_ge ((p ++ [fresh_child t p]) ++ k)). apply in_or_app. left. apply in_or_app. right. left. reflexivity. }
  unfold fresh_child in Hc at 1. unfold pmax_list in E. lia.
Qed.

(* ---------- the staging phase establishes "targets pairwise distinct" ---------- *)
(* installTrueTypeCollectionMembers reserves the SANITISED name (the file name the member is staged and committed
   under) before writing it: whatever fails, a staging phase that returns nil hands commitCollectionFonts a list
   of pairwise distinct names, one per member, and that happens exactly when stage_decide accepts *)
Lemma stage_members_distinct pl freshn kp (G : list positive) ms : forall seen w names w',
  NoDup seen ->
  stage_members pl freshn kp G ms seen w = (None, names, w') ->
  NoDup names /\ names = rev seen ++ flat_map member_target ms /\ forall k, stage_decide ms seen k = Accept.
Proof.
  induction ms as [|m ms IH]; intros seen w names w' Hnd H; cbn [stage_members] in H.
  - injection H as <- <-. split; [apply NoDup_ListNoDup, List.NoDup_rev, NoDup_ListNoDup; exact Hnd|]. split; [cbn; rewrite app_nil_r; reflexivity|reflexivity].
  - destruct m as [raw n data|]; [|discriminate].
    destruct (bool_decide (n ∈ seen)) eqn:Eb; [discriminate|]. apply bool_decide_eq_false in Eb.
    destruct (write_gob pl freshn kp G n data w) as [[[e|] pub] w1]; [discriminate|].
    destruct (IH (n :: seen) w1 names w') as (I1 & I2 & I3).
    + apply NoDup_cons. split; assumption.
    + exact H.
    + split; [exact I1|]. split.
      * rewrite I2. cbn. rewrite <- app_assoc. reflexivity.
      * intros k. cbn [stage_decide]. rewrite bool_decide_eq_false_2 by exact Eb. apply I3.
Qed.

(* a rejected collection never reaches the commit: stage_decide <> Accept => the staging phase returns an error *)
Lemma stage_reject_is_error pl freshn kp (G : list positive) ms w :
  stage_decide ms [] 0 <> Accept -> fst (fst (stage_members pl freshn kp G ms [] w)) <> None.
Proof.
  intros Hd He. destruct (stage_members pl freshn kp G ms [] w) as [[e names] w'] eqn:E. cbn in He. subst e.
  destruct (stage_members_distinct pl freshn kp G ms [] w names w' (NoDup_nil_2) E) as (_ & _ & Ha). exact (Hd (Ha 0)).
Qed.
