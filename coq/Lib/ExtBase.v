(* Symbols every extraction includes so that the OCaml driver's common code
   (ocaml/common.ml) finds the same base types in every per-property model. *)
From Coq Require Import ZArith NArith List.
From PV Require Import Lib.GoInt.
Definition ext_base_z : Z -> Z -> Z := Z.add.
Definition ext_base_n : N -> N -> N := N.add.
Definition ext_base_nat : nat -> nat := S.
Definition ext_base_res : Z -> res Z := Ok.
Definition ext_base_list : list N -> list N := @rev N.
