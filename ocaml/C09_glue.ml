open Model
open Common
let pairs_of s = if s = "" then [] else
  List.map (fun p -> match String.split_on_char ':' p with
    | [a; b] -> (z_of_hex a, z_of_hex b) | _ -> failwith "pair") (String.split_on_char ',' s)
let lim moc mxe mosc mosf mip mib =
  { maxObjectCount = moc; maxXRefEntries = mxe; maxObjectStreamCount = mosc;
    maxObjectStreamFirst = mosf; maxImagePixels = mip; maxImageBytes = mib }
let z0 = z_of_int 0
let dispatch fn args = match fn, args with
  | "copyDecoded", [mdb; avail; maxlen] ->
    (match copyDecoded (z_of_hex mdb) (z_of_hex avail) (z_of_hex maxlen) with
     | DOk n -> "ok:" ^ hex_of_z n | DErrLimit -> "limit" | DErrEOF n -> "eof:" ^ hex_of_z n)
  | "decodeLimit", [mdb; maxlen] -> hex_of_z (decodeLimit (z_of_hex mdb) (z_of_hex maxlen))
  | "streamAlloc", [len; maxb] -> res_z (streamAlloc (z_of_hex len) (z_of_hex maxb))
  | "xrefObjects", [size; idx; moc; mxe; relaxed] ->
    let ix = if idx = "-" then None else Some (pairs_of idx) in
    (match xrefObjects (z_of_hex size) ix (lim (z_of_hex moc) (z_of_hex mxe) z0 z0 z0 z0) (bool_of_str relaxed) with
     | Ok ((t, c), s) -> Printf.sprintf "ok:%s:%s:%s" (hex_of_z t) (hex_of_z c) (hex_of_z s)
     | Err -> "err")
  | "objStreamOK", [n; first; mosc; mosf] ->
    str_of_bool (objStreamOK (z_of_hex n) (z_of_hex first) (lim z0 z0 (z_of_hex mosc) (z_of_hex mosf) z0 z0))
  | "objStreamLimit", [n; first; mosc; mosf; mdb] ->
    (match objectStreamDictWithLimits (z_of_hex n) (z_of_hex first) (lim z0 z0 (z_of_hex mosc) (z_of_hex mosf) z0 z0) (z_of_hex mdb) with
     | Ok o -> "ok:" ^ hex_of_z o.o_mdb | Err -> "err")
  | "osdFullDecode", [n; first; mosc; mosf; mdb; avail] ->
    (match objectStreamDictWithLimits (z_of_hex n) (z_of_hex first) (lim z0 z0 (z_of_hex mosc) (z_of_hex mosf) z0 z0) (z_of_hex mdb) with
     | Err -> "err"
     | Ok o -> (match osdFullDecode o (z_of_hex avail) with
                | DOk k -> "ok:" ^ hex_of_z k | DErrLimit -> "limit" | DErrEOF k -> "eof:" ^ hex_of_z k))
  | "rowGuard", [mdb; pred; colors; bpc; columns; maxlen] ->
    let opt x = if x = "-" then None else Some (z_of_hex x) in
    (match rowGuard (z_of_hex mdb) (opt pred) (opt colors) (opt bpc) (opt columns) (z_of_hex maxlen) with
     | RPassThru -> "passthru" | RErr -> "err" | RErrLimit -> "limit"
     | RAlloc (rs, rl) -> Printf.sprintf "alloc:%s:%s" (hex_of_z rs) (hex_of_z rl))
  | "rlDecode", [mdb; maxlen; src] ->
    (match rlDecode (z_of_hex mdb) (z_of_hex maxlen) (bytes_of_hex src) with
     | RLOk o -> "ok:" ^ hex_of_bytes o | RLErrLimit o -> "limit:" ^ hex_of_bytes o
     | RLErrEOF o -> "eof:" ^ hex_of_bytes o | RLFuel -> "fuel")
  | "ahxGate", [mdb; digits; maxlen] ->
    (match ahxGate (z_of_hex mdb) (z_of_hex digits) (z_of_hex maxlen) with
     | AHAlloc n -> "alloc:" ^ hex_of_z n | AHErrLimit -> "limit" | AHErrEOF -> "eof" | AHErrOverflow -> "overflow")
  | "imageOK", [w; h; mip; mib] ->
    (match imageOK (z_of_hex w) (z_of_hex h) (lim z0 z0 z0 z0 (z_of_hex mip) (z_of_hex mib)) with
     | Ok (px, rb) -> Printf.sprintf "ok:%s:%s" (hex_of_z px) (hex_of_z rb)
     | Err -> "err")
  | _ -> failwith ("unknown function " ^ fn)
let () = main dispatch
