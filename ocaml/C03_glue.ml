(* C03 glue.  Requests from go/cmd/c03 (all numbers hex):
     api     <umask> <rd> <inF> <outF> <dir> <inos>      rd/inF/outF = "<entry>.<spelling>" or "-"
     copy    <umask> <src> <dst> <dir> <inos>
     wr      <umask> <path> <dir> <inos>
     image   <umask> <in1,in2,…> <out> <dir> <inos>   image mode of grid / n-up / booklet (alias check over all inputs)
     import  <umask> <in1,in2,…> <out> <dir> <inos>   import images
     incr    <umask> <in> <out|-> <dir> <inos>        AddAnnotationsFile(..., incr = true): writes 02 (the output / the increment)
     aliases <in> <out> <dir> <inos>              -> true | false
   dir  = "<entry>:f:<inode>;<entry>:l:<target entry>;…"     inos = "<inode>:<mode>:<hex bytes>;…"
   The body of api is  read, write 02, read;  wr writes 02.
   Reply: <ok|err>|<directory>|<reads ok?>, directory = entries sorted by number:
     <entry>:f:<mode>:<bytes>:<rank of the inode among the entries>   |   <entry>:l:<target>   |   T (entry >= 0x40) *)
open Model
open Common

let pos_of_hex_exn s = match pos_of_hex s with Some p -> p | None -> failwith ("bad number " ^ s)
let sp_of s = if s = "-" then None else
  match String.split_on_char '.' s with
  | [e; v] -> Some { sp_ent = pos_of_hex_exn e; sp_var = n_of_hex v }
  | _ -> failwith ("bad path " ^ s)
let sp_exn s = match sp_of s with Some x -> x | None -> failwith "path required"
let split c s = if s = "" || s = "-" then [] else String.split_on_char c s
let dir_of s = List.map (fun e -> match String.split_on_char ':' e with
  | [p; "f"; i] -> (pos_of_hex_exn p, DFile (pos_of_hex_exn i))
  | [p; "l"; t] -> (pos_of_hex_exn p, DLink (pos_of_hex_exn t))
  | _ -> failwith ("bad dir entry " ^ e)) (split ';' s)
let inos_of s = List.map (fun e -> match String.split_on_char ':' e with
  | [i; md; d] -> (pos_of_hex_exn i, { fdata = bytes_of_hex d; fmode = n_of_hex md })
  | _ -> failwith ("bad inode " ^ e)) (split ';' s)

let render_dir s =
  let d = List.sort (fun (a, _) (b, _) -> compare (int_of_pos a) (int_of_pos b)) (dir_to_list s) in
  let inodes = inos_to_list s in
  let ranks = ref [] in
  let rank i = match List.assoc_opt i !ranks with
    | Some r -> r
    | None -> let r = List.length !ranks in ranks := (i, r) :: !ranks; r in
  String.concat ";" (List.map (fun (e, de) ->
    if int_of_pos e >= 64 then "T" else
    match de with
    | DLink t -> hex_of_pos e ^ ":l:" ^ hex_of_pos t
    | DFile i -> (match List.assoc_opt i inodes with
        | Some f -> Printf.sprintf "%s:f:%s:%s:%d" (hex_of_pos e) (hex_of_n f.fmode) (hex_of_bytes f.fdata) (rank i)
        | None -> hex_of_pos e ^ ":f:dangling")) d)

let render s0 rd r = match r with
  | RErr (_, s) -> "err|" ^ render_dir s ^ "|-"
  | ROk (_, s) ->
    let want = match rd with
      | None -> None
      | Some x -> (match resolve s0.idir x.sp_ent with
          | Some i -> (match List.assoc_opt i (inos_to_list s0) with Some f -> Some f.fdata | None -> None)
          | None -> None) in
    let ok = List.for_all (fun x -> x = want) s.reads in
    "ok|" ^ render_dir s ^ "|" ^ (if ok then "reads-ok" else "reads-corrupted")

let body = [BRead; BWrite [n_of_int 2]; BRead]

let dispatch fn args = match fn, args with
  | "api", [um; rd; inF; outF; d; i] ->
    let s0 = mk_state (dir_of d) (inos_of i) in
    render s0 (sp_of rd) (run_api_i (n_of_hex um) (sp_of rd) (sp_of inF) (sp_of outF) body s0)
  | "copy", [um; src; dst; d; i] ->
    let s0 = mk_state (dir_of d) (inos_of i) in
    render s0 (Some (sp_exn src)) (run_copy_i (n_of_hex um) (sp_exn src) (sp_exn dst) s0)
  | "wr", [um; path; d; i] ->
    let s0 = mk_state (dir_of d) (inos_of i) in
    render s0 None (run_write_reader_i (n_of_hex um) (sp_exn path) [BWrite [n_of_int 2]] s0)
  | "image", [um; ins; out; d; i] ->
    let s0 = mk_state (dir_of d) (inos_of i) in
    render s0 None (run_multi_image_i (n_of_hex um) (List.map sp_exn (split ',' ins)) (sp_exn out) [BWrite [n_of_int 2]] s0)
  | "import", [um; ins; out; d; i] ->
    let s0 = mk_state (dir_of d) (inos_of i) in
    render s0 None (run_import_images_i (n_of_hex um) (List.map sp_exn (split ',' ins)) (sp_exn out) [BWrite [n_of_int 2]] s0)
  | "incr", [um; x; out; d; i] ->
    let s0 = mk_state (dir_of d) (inos_of i) in
    render s0 None (run_incr_api_i (n_of_hex um) (sp_exn x) (sp_of out) [BWrite [n_of_int 2]] s0)
  | "aliases", [a; b; d; i] ->
    str_of_bool (run_aliases (sp_exn a) (sp_exn b) (mk_state (dir_of d) (inos_of i)))
  | _ -> failwith ("unknown function " ^ fn)
let () = main dispatch
