(* C32 — per-operation statements on the observable page list. *)
From Coq Require Import ZArith List Bool Lia ZifyBool ZifyNat.
From PV Require Import Lib.GoInt C33.Pages C33.ProofsSplit C33.ProofsMerge C32.Model C32.Proofs.
Import ListNotations.
Open Scope Z_scope.

Definition wview (w : wpage) : vpage := view (eff w).

(* page k+1 after a per-page operation: specified change if selected, untouched otherwise *)
Lemma upd_op_nth sel pf t k :
  nth_error (pages_of (upd_op sel pf t)) k =
  option_map (fun w => if selb sel (Z.of_nat k + 1)
                       then wview (pf (fst w) (snd (eff w)), snd w) else wview w)
             (nth_error (wpages t) k).
Proof.
  rewrite pages_walk. destruct (upd_op_spec sel pf t) as [H _]. rewrite H.
  rewrite nth_error_map, upd_list_nth. destruct (nth_error (wpages t) k) as [w|]; [|reflexivity].
  cbn [option_map]. replace (0 + Z.of_nat k + 1) with (Z.of_nat k + 1) by lia. destruct (selb sel (Z.of_nat k + 1)); reflexivity.
Qed.

Lemma upd_op_unselected sel pf t k : selb sel (Z.of_nat k + 1) = false ->
  nth_error (pages_of (upd_op sel pf t)) k = nth_error (pages_of t) k.
Proof.
  intros H. rewrite upd_op_nth, H, (pages_walk t), nth_error_map. reflexivity.
Qed.

Lemma upd_op_length sel pf t : length (pages_of (upd_op sel pf t)) = length (pages_of t).
Proof.
  rewrite !pages_walk, !map_length. destruct (upd_op_spec sel pf t) as [H _]. rewrite H.
  pose proof (upd_list_length (selb sel) pf (wpages t) 0) as Hl. unfold lenZ in Hl. lia.
Qed.

(* what the page functions do to the observable page *)
Lemma rotate_view delta d i :
  wview (pf_rotate delta d (snd (eff (d, i))), i) = vf_rotate delta (wview (d, i)).
Proof. reflexivity. Qed.

Lemma orelse_assoc {A} (a b c : option A) : orelse (orelse a b) c = orelse a (orelse b c).
Proof. destruct a; reflexivity. Qed.

Lemma opt_def_orelse o m (own inh : option rect) :
  orelse (opt_def o m own) inh = opt_def o m (orelse own inh).
Proof. destruct o; reflexivity. Qed.

(* add boxes: the parent-box rule of applyBoxDefinitions on the observable page *)
Lemma addbox_view b d i :
  wview (pf_addbox b d (snd (eff (d, i))), i) = vf_addbox b (wview (d, i)).
Proof.
  unfold wview, view, eff, pf_addbox, vf_addbox, media_parent. simpl.
  rewrite !opt_def_orelse. reflexivity.
Qed.

Lemma rmbox_view q d i :
  wview (pf_rmbox q d (snd (eff (d, i))), i) =
  let v := wview (d, i) in
  mkV (v_id v) (v_rot v) (v_media v)
      (if r_crop q then match a_crop (pg_attrs d) with
                        | Some _ => a_crop i               (* own entry deleted: the inherited one shows *)
                        | None => orelse (v_media v) (a_crop i)
                        end
       else v_crop v)
      (if r_trim q then None else v_trim v) (if r_bleed q then None else v_bleed v)
      (if r_art q then None else v_art v).
Proof.
  unfold wview, view, eff, pf_rmbox. simpl. destruct (r_crop q); [|reflexivity].
  destruct (a_crop (pg_attrs d)); reflexivity.
Qed.

(* RemoveBoxes(crop): with no CropBox inherited from the ancestors the crop box is gone or equals the media box *)
Lemma rmbox_crop_no_inherited q d i : r_crop q = true -> a_crop i = None ->
  let v' := wview (pf_rmbox q d (snd (eff (d, i))), i) in v_crop v' = None \/ v_crop v' = v_media v'.
Proof.
  intros Hq Hi. rewrite rmbox_view. simpl. rewrite Hq, Hi.
  destruct (a_crop (pg_attrs d)); [left; reflexivity|].
  destruct (orelse (a_media (pg_attrs d)) (a_media i)); [right|left]; reflexivity.
Qed.

Lemma rmbox_crop_refuted : exists q d i, r_crop q = true /\
  let v' := wview (pf_rmbox q d (snd (eff (d, i))), i) in v_crop v' <> None /\ v_crop v' <> v_media v'.
Proof.
  exists (mkRmReq true false false false),
         (mkPage 1 (mkAttrs None (Some (0, 0, 300, 400)) (Some (5, 5, 100, 100)) true) None None None),
         (mkAttrs None None (Some (10, 10, 200, 300)) false).
  split; [reflexivity|]. vm_compute. split; congruence.
Qed.

(* ---------- remove / trim / collect ---------- *)
Definition op_pages (o : op) (t : tree) : option (list Z) :=
  match o with
  | ORemove sel => Some (filter (fun k => negb (selb sel k)) (all_pages t))
  | OTrim sel => Some (filter (selb sel) (all_pages t))
  | OCollect l => Some l
  | _ => None
  end.

Definition vdflt : vpage := view dflt.

Lemma extract_op_spec o t t' nrs : wf_count t = true -> op_pages o t = Some nrs -> apply_op o t = Ok t' ->
  nrs <> [] /\ in_range (count_of t) nrs = true /\
  ids_of t' = pick_ids (ids_of t) nrs /\
  pages_of t' = map (fun k => xview (nth (Z.to_nat (k - 1)) (rpages t) dflt)) nrs /\
  (Forall xsafe (rpages t) ->
     npages_of t' = map (fun k => norm_view (nth (Z.to_nat (k - 1)) (pages_of t) vdflt)) nrs) /\
  wf_count t' = true.
Proof.
  intros Hwf Hp Ha.
  assert (He : extract_pages t nrs = Ok t').
  { destruct o; simpl in Hp; try discriminate; inversion Hp; subst; exact Ha. }
  destruct (extract_spec t nrs t' Hwf He) as [H1 [H2 [H3 [H4 [H5 _]]]]].
  repeat split; try assumption.
  intros Hs. unfold npages_of. rewrite H3, map_map. apply map_ext_in. intros k Hk.
  pose proof (in_range_Forall _ _ H2) as Hr. rewrite Forall_forall in Hr. specialize (Hr k Hk).
  assert (Hlt : (Z.to_nat (k - 1) < length (rpages t))%nat).
  { pose proof (wf_count_len t Hwf no_attrs) as Hl. unfold lenZ, rpages in *. lia. }
  unfold pages_of, vdflt. rewrite map_nth.
  apply xview_safe.
  - pose proof (resolve_own t no_attrs) as Ho. rewrite Forall_forall in Ho. apply Ho. apply nth_In. exact Hlt.
  - rewrite Forall_forall in Hs. apply Hs. apply nth_In. exact Hlt.
Qed.

(* ---------- insert ---------- *)
Lemma insert_spec sel before dim t t' : apply_op (OInsert sel before dim) t = Ok t' ->
  ins_rel (selb sel) before 0 (wpages t) (wpages t') /\
  ids_of t' = ins_ids (selb sel) before 0 (ids_of t) /\
  wf_count t' = true.
Proof.
  simpl. destruct t as [d|a c kids]; [discriminate|]. intros He.
  assert (Ht' : t' = fst (fst (ins_tree (selb sel) before dim (Node a c kids) no_attrs 0))) by congruence.
  subst t'. clear He.
  destruct (ins_tree_ok (selb sel) before dim (Node a c kids) eq_refl no_attrs 0 no_attrs) as [H1 [_ [H3 _]]].
  split; [exact H1|]. split; [|exact H3].
  rewrite !ids_walk. unfold wpages. apply (ins_rel_ids _ _ _ _ _ H1).
Qed.

(* the original pages are all still there, unchanged and in order: dropping exactly the inserted entries
   (those at the positions the relation marks) gives back the original list *)
Lemma ins_rel_sublist sel before : forall p l l', ins_rel sel before p l l' ->
  exists keep : list bool, length keep = length l' /\
    map snd (filter fst (combine keep l')) = l /\
    Forall (fun kw => fst kw = false -> exists mb, fst (snd kw) = blank_page mb) (combine keep l').
Proof.
  induction 1 as [p|p w l l' Hs _ IH|p d i mb l l' Hs _ IH].
  - exists []. repeat split; constructor.
  - destruct IH as [keep [H1 [H2 H3]]]. exists (true :: keep). simpl. rewrite H1, H2. repeat split.
    constructor; [intros; discriminate|exact H3].
  - destruct IH as [keep [H1 [H2 H3]]]. destruct before.
    + exists (false :: true :: keep). simpl. rewrite H1, H2. repeat split.
      constructor; [intros _; exists mb; reflexivity|]. constructor; [intros; discriminate|exact H3].
    + exists (true :: false :: keep). simpl. rewrite H1, H2. repeat split.
      constructor; [intros; discriminate|]. constructor; [intros _; exists mb; reflexivity|exact H3].
Qed.

(* ---------- sequences of per-page operations ---------- *)
Definition uop := (list Z * (pageD -> attrs -> pageD))%type.
Definition run_upd (us : list uop) (t : tree) : tree := fold_left (fun t u => upd_op (fst u) (snd u) t) us t.
Definition spec_upd (us : list uop) (l : list wpage) : list wpage :=
  fold_left (fun l u => upd_list (selb (fst u)) (snd u) 0 l) us l.

Lemma run_upd_spec : forall us t,
  wpages (run_upd us t) = spec_upd us (wpages t) /\
  count_of (run_upd us t) = count_of t /\
  (wf_count t = true -> wf_count (run_upd us t) = true).
Proof.
  induction us as [|[sel pf] us IH]; intros t; [repeat split; auto|].
  unfold run_upd, spec_upd in *. simpl.
  destruct (upd_op_spec sel pf t) as [H1 [H2 [H3 _]]].
  destruct (IH (upd_op sel pf t)) as [I1 [I2 I3]]. rewrite I1, I2, H1, H2. repeat split; auto.
Qed.

Lemma upd_list_view sel pf vf : (forall d i, wview (pf d (snd (eff (d, i))), i) = vf (wview (d, i))) ->
  forall l p, map wview (upd_list sel pf p l) = vupd_list sel vf p (map wview l).
Proof.
  intros H. induction l as [|[d i] l IH]; intros p; simpl; [reflexivity|].
  rewrite IH. f_equal. destruct (sel (p + 1)); [apply H|reflexivity].
Qed.

Lemma op_vf_apply o sel vf t : op_vf o = Some (sel, vf) ->
  exists t', apply_op o t = Ok t' /\ pages_of t' = vupd_list (selb sel) vf 0 (pages_of t) /\
             (wf_count t = true -> wf_count t' = true).
Proof.
  destruct o as [? ? ?|?|?|?|s delta|s b|s q|s bd]; simpl; try discriminate.
  - destruct (Z.rem delta 90 =? 0); [|discriminate]. intros [= <- <-].
    eexists. split; [reflexivity|]. destruct (upd_op_spec s (pf_rotate delta) t) as [H1 [_ [H3 _]]].
    split; [|exact H3]. rewrite !pages_walk, H1. apply upd_list_view. intros; apply rotate_view.
  - intros [= <- <-]. eexists. split; [reflexivity|].
    destruct (upd_op_spec s (pf_addbox b) t) as [H1 [_ [H3 _]]].
    split; [|exact H3]. rewrite !pages_walk, H1. apply upd_list_view. intros; apply addbox_view.
  - intros [= <- <-]. eexists. split; [reflexivity|].
    destruct (upd_op_spec s (pf_addbox (mkBoxReq None (Some bd) None None None)) t) as [H1 [_ [H3 _]]].
    split; [|exact H3]. rewrite !pages_walk, H1. apply upd_list_view. intros; apply addbox_view.
Qed.

(* any history of rotate / add boxes / crop steps: the observable page list of the result is the
   view-level specification folded over the history *)
Lemma vspec_run_ok : forall ops t l', vspec_run ops (pages_of t) = Some l' ->
  exists t', run ops t = Ok t' /\ pages_of t' = l' /\ (wf_count t = true -> wf_count t' = true).
Proof.
  induction ops as [|o r IH]; intros t l'; simpl.
  - intros [= <-]. exists t. auto.
  - destruct (op_vf o) as [[sel vf]|] eqn:Eo; [|discriminate]. intros Hr.
    destruct (op_vf_apply o sel vf t Eo) as [t1 [Ha [Hp Hw]]]. rewrite Ha, <- Hp in *.
    destruct (IH t1 l' Hr) as [t' [H1 [H2 H3]]]. exists t'. repeat split; auto.
Qed.
