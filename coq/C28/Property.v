(* C28 — A signature is reported as covering the document only if it covers every byte.
   Property theorems only; each is closed by an exact lemma and followed by Print Assumptions.

   Reading guide.  docModified verdict fsize f arr contents increment dts sf is the transcription of
   validateSignature's DocModified result (pkg/pdfcpu/sign.go) for a signature whose dictionary has
   /ByteRange arr and /Contents value contents, found in xref increment [increment], in the file f
   (fsize = ctx.Read.FileSize); dts = the field was classified as document time stamp by /Type
   /DocTimeStamp; sf = the /SubFilter (an input the revision logic does not consult).  TFalse = "document not modified".  verdict is the external crypto
   (arbitrary).  int64s arr: the array elements are Go ints.  0 <= increment: increment numbers
   are counts. *)
From Coq Require Import ZArith NArith List Bool.
From PV Require Import Lib.GoInt C28.Generated C28.Model C28.Proofs.
Import ListNotations.
Open Scope Z_scope.

(* "unmodified" ⇒ ByteRange = [0 l1 o2 l2] with the second range ending exactly at the end of the
   file, the excluded gap f[l1,o2) is exactly '<' inner '>' where inner (white space dropped, a-f
   upper-cased) is the /Contents value, the signature is in the current revision (or is a
   document time stamp), and EVERY byte offset of f lies in a signed range or in that gap. *)
Theorem C28_unmodified_implies_full_cover :
  forall verdict f arr contents increment dts sf,
  int64s arr -> 0 <= increment ->
  docModified verdict (lenZ f) f arr contents increment dts sf = TFalse ->
  exists l1 o2 l2 c inner,
    arr = [0; l1; o2; l2] /\ contents = Some c /\
    0 <= l1 /\ l1 + 2 <= o2 /\ 0 <= l2 /\ o2 + l2 = lenZ f /\
    (increment = 0 \/ dts = true) /\
    slice f l1 (o2 - l1) = 60%N :: inner ++ [62%N] /\ hexnorm inner = map toUpperHex c /\
    (forall i, 0 <= i < lenZ f -> covered l1 o2 l2 i).
Proof. exact unmodified_implies_full_cover. Qed.
Print Assumptions C28_unmodified_implies_full_cover.

(* appended bytes: the file is longer than the end of the second range *)
Theorem C28_appended_bytes_not_unmodified :
  forall verdict f contents increment dts sf, 0 <= increment -> forall o1 l1 o2 l2,
  int64s [o1; l1; o2; l2] -> o2 + l2 < lenZ f ->
  docModified verdict (lenZ f) f [o1; l1; o2; l2] contents increment dts sf <> TFalse.
Proof. exact appended_bytes_not_unmodified. Qed.
Print Assumptions C28_appended_bytes_not_unmodified.

Theorem C28_truncated_file_not_unmodified :
  forall verdict f contents increment dts sf, 0 <= increment -> forall o1 l1 o2 l2,
  int64s [o1; l1; o2; l2] -> lenZ f < o2 + l2 ->
  docModified verdict (lenZ f) f [o1; l1; o2; l2] contents increment dts sf <> TFalse.
Proof. exact truncated_file_not_unmodified. Qed.
Print Assumptions C28_truncated_file_not_unmodified.

(* a later incremental update exists: the signature sits in an older increment *)
Theorem C28_later_increment_not_unmodified :
  forall verdict f contents increment dts sf, 0 <= increment -> forall arr,
  int64s arr -> 0 < increment -> dts = false ->
  docModified verdict (lenZ f) f arr contents increment dts sf <> TFalse.
Proof. exact later_increment_not_unmodified. Qed.
Print Assumptions C28_later_increment_not_unmodified.

(* a time-stamp /SubFilter alone gives no exemption: without /Type /DocTimeStamp a signature in an
   older increment is never reported unmodified, whatever its SubFilter *)
Theorem C28_timestamp_subfilter_without_type_not_unmodified :
  forall verdict f contents increment arr,
  int64s arr -> 0 < increment ->
  docModified verdict (lenZ f) f arr contents increment false SF_RFC3161 <> TFalse.
Proof.
  intros verdict f contents increment arr HI Hlt.
  apply later_increment_not_unmodified; try assumption; try reflexivity.
  apply Z.lt_le_incl. exact Hlt.
Qed.
Print Assumptions C28_timestamp_subfilter_without_type_not_unmodified.

Theorem C28_shifted_start_not_unmodified :
  forall verdict f contents increment dts sf, 0 <= increment -> forall o1 l1 o2 l2,
  int64s [o1; l1; o2; l2] -> o1 <> 0 ->
  docModified verdict (lenZ f) f [o1; l1; o2; l2] contents increment dts sf <> TFalse.
Proof. exact shifted_start_not_unmodified. Qed.
Print Assumptions C28_shifted_start_not_unmodified.

(* overlapping / out-of-order / swapped ranges *)
Theorem C28_overlapping_ranges_not_unmodified :
  forall verdict f contents increment dts sf, 0 <= increment -> forall o1 l1 o2 l2,
  int64s [o1; l1; o2; l2] -> o2 < o1 + l1 + 2 ->
  docModified verdict (lenZ f) f [o1; l1; o2; l2] contents increment dts sf <> TFalse.
Proof. exact overlapping_ranges_not_unmodified. Qed.
Print Assumptions C28_overlapping_ranges_not_unmodified.

Theorem C28_negative_value_not_unmodified :
  forall verdict f contents increment dts sf, 0 <= increment -> forall arr,
  int64s arr -> Exists (fun z => z < 0) arr ->
  docModified verdict (lenZ f) f arr contents increment dts sf <> TFalse.
Proof. exact negative_value_not_unmodified. Qed.
Print Assumptions C28_negative_value_not_unmodified.

Theorem C28_wrong_arity_not_unmodified :
  forall verdict f contents increment dts sf, 0 <= increment -> forall arr,
  int64s arr -> length arr <> 4%nat ->
  docModified verdict (lenZ f) f arr contents increment dts sf <> TFalse.
Proof. exact wrong_arity_not_unmodified. Qed.
Print Assumptions C28_wrong_arity_not_unmodified.

(* the excluded gap is not exactly the /Contents token *)
Theorem C28_gap_mismatch_not_unmodified :
  forall verdict f contents increment dts sf, 0 <= increment -> forall o1 l1 o2 l2 c,
  int64s [o1; l1; o2; l2] -> contents = Some c ->
  contentsGapMatches (slice f (o1 + l1) (o2 - (o1 + l1))) c = false ->
  docModified verdict (lenZ f) f [o1; l1; o2; l2] contents increment dts sf <> TFalse.
Proof. exact gap_mismatch_not_unmodified. Qed.
Print Assumptions C28_gap_mismatch_not_unmodified.

(* exact characterisation of a matching gap *)
Theorem C28_contentsGapMatches_spec :
  forall gap c, contentsGapMatches gap c = true <->
  exists inner, gap = 60%N :: inner ++ [62%N] /\ hexnorm inner = map toUpperHex c.
Proof. exact contentsGapMatches_spec. Qed.
Print Assumptions C28_contentsGapMatches_spec.

(* a gap widened or narrowed by one byte on either side never matches a hex /Contents value *)
Theorem C28_widened_or_narrowed_gap_never_matches :
  forall g c b, forallb isHexDigit c = true ->
  (contentsGapMatches g c = true -> contentsGapMatches (b :: g) c = false) /\
  (contentsGapMatches g c = true -> contentsGapMatches (g ++ [b]) c = false) /\
  (contentsGapMatches (b :: g) c = true -> contentsGapMatches g c = false) /\
  (contentsGapMatches (g ++ [b]) c = true -> contentsGapMatches g c = false).
Proof.
  intros g c b Hc. repeat split.
  - now apply widened_left_never_matches.
  - now apply widened_right_never_matches.
  - now apply narrowed_left_never_matches.
  - now apply narrowed_right_never_matches.
Qed.
Print Assumptions C28_widened_or_narrowed_gap_never_matches.

(* the translated overflow guard is exact on non-negative Go ints *)
Theorem C28_byteRangeEnd_exact :
  forall a b, 0 <= a -> 0 <= b -> i64 a -> i64 b ->
  (a + b <= maxS 64 -> byteRangeEnd IW a b = Ok (a + b)) /\
  (forall e, byteRangeEnd IW a b = Ok e -> e = a + b /\ a + b <= maxS 64).
Proof.
  intros a b Ha Hb Ia Ib. split.
  - now apply byteRangeEnd_complete.
  - intros e. now apply byteRangeEnd_ok.
Qed.
Print Assumptions C28_byteRangeEnd_exact.

(* non-vacuity: "AB<4a>CD" with /ByteRange [0 2 6 2], /Contents <4A> is reported unmodified in
   the current revision; one appended byte, an older increment, or a gap widened by one are not *)
Example C28_nonvacuous :
  let f := [65; 66; 60; 52; 97; 62; 67; 68]%N in
  let c := Some [52; 65]%N in
  let ok := fun _ : list N => TFalse in
  int64s [0; 2; 6; 2] /\
  docModified ok (lenZ f) f [0; 2; 6; 2] c 0 false SF_PKCS7Detached = TFalse /\
  docModified ok (lenZ (f ++ [10%N])) (f ++ [10%N]) [0; 2; 6; 2] c 0 false SF_PKCS7Detached = TUnknown /\
  docModified ok (lenZ f) f [0; 2; 6; 2] c 1 false SF_PKCS7Detached = TUnknown /\
  docModified ok (lenZ f) f [0; 1; 6; 2] c 0 false SF_PKCS7Detached = TUnknown /\
  docModified ok (lenZ f) f [0; 2; 7; 1] c 0 false SF_PKCS7Detached = TUnknown /\
  signedData f [0; 2; 6; 2] c = Ok [65; 66; 67; 68]%N.
Proof.
  split.
  - repeat (constructor; [unfold i64, inS; vm_compute; split; discriminate|]). constructor.
  - vm_compute. repeat split; reflexivity.
Qed.
