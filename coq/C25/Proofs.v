(* C25 — lemmas.  See Property.v for the statements that count. *)
From Coq Require Import NArith ZArith List Bool Lia.
Import ListNotations.
From PV Require Import C25.Model.
Open Scope N_scope.
Arguments pad32 : simpl never.
Arguments trunc127 : simpl never.

Lemma beq_eq a b : beq a b = true <-> a = b.
Proof.
  revert b. induction a as [|x a IH]; intros [|y b]; cbn; split; intros H; try congruence; try reflexivity.
  - apply andb_true_iff in H. destruct H as [Hx Hab]. apply N.eqb_eq in Hx. apply IH in Hab. congruence.
  - inversion H; subst. apply andb_true_iff. split; [apply N.eqb_refl | apply IH; reflexivity].
Qed.

Lemma beq_refl a : beq a a = true.
Proof. apply beq_eq. reflexivity. Qed.

Lemma is_empty_nil a : is_empty a = true <-> a = [].
Proof. destruct a; cbn; split; congruence. Qed.

Lemma eff_owner_nonempty a b : a <> [] -> eff_owner a b = a.
Proof. destruct a; cbn; congruence. Qed.

Lemma eff_owner_self a : eff_owner a [] = a.
Proof. destruct a; reflexivity. Qed.

Section P.
Variable prep : bytes -> option bytes.

(* the prepared form of a password: what the writer derives the O/U entries from and what the reader compares
   (R<=4: padded / truncated to 32 bytes; R>=5: processInput, truncated to 127 bytes, None when it is rejected) *)
Definition rprep (r : N) (x : bytes) : option bytes :=
  if aes256 r then prepared127 prep x else Some (pad32 x).

(* candidate x is accepted for a document whose password is c: same prepared form *)
Definition accepts (r : N) (c x : bytes) : Prop := rprep r x = rprep r c.

Lemma validate_user_ok e x : validate_user prep e x = VOk <-> rprep (eR e) x = Some (eU e).
Proof.
  unfold validate_user, rprep. destruct (aes256 (eR e)).
  - destruct (prepared127 prep x) as [p|]; [|split; congruence].
    destruct (beq p (eU e)) eqn:E.
    + apply beq_eq in E. split; congruence.
    + split; [congruence|]. intros H. inversion H as [H1]. rewrite H1, beq_refl in E. congruence.
  - destruct (beq (pad32 x) (eU e)) eqn:E.
    + apply beq_eq in E. split; congruence.
    + split; [congruence|]. intros H. inversion H as [H1]. rewrite H1, beq_refl in E. congruence.
Qed.

Definition owner_ok (e : enc) (a b : bytes) : Prop :=
  if aes256 (eR e) then a <> [] /\ rprep (eR e) a = Some (eO e)
  else rprep (eR e) (eff_owner a b) = Some (eO e).

Lemma validate_owner_ok e a b : validate_owner prep e a b = VOk <-> owner_ok e a b.
Proof.
  unfold validate_owner, owner_ok, rprep. destruct (aes256 (eR e)).
  - destruct a as [|a0 a']; cbn [is_empty].
    + split; [congruence|]. intros [H _]. congruence.
    + destruct (prepared127 prep (a0 :: a')) as [p|]; [|split; [congruence|intros [_ H]; congruence]].
      destruct (beq p (eO e)) eqn:E.
      * apply beq_eq in E. split; [intros _; split; congruence|reflexivity].
      * split; [congruence|]. intros [_ H]. inversion H as [H1]. rewrite H1, beq_refl in E. congruence.
  - destruct (beq (pad32 (eff_owner a b)) (eO e)) eqn:E.
    + apply beq_eq in E. split; congruence.
    + split; [congruence|]. intros H. inversion H as [H1]. rewrite H1, beq_refl in E. congruence.
Qed.

(* the owner slot holds a password the reader's preparation rejects: setupEncryptionKey stops with that error *)
Definition slot_err (r : N) (a : bytes) : Prop := aes256 r = true /\ a <> [] /\ prep a = None.

Lemma prepared127_none x : prepared127 prep x = None <-> prep x = None.
Proof. unfold prepared127. destruct (prep x); cbn; split; congruence. Qed.

Lemma validate_owner_err e a b : validate_owner prep e a b = VErr <-> slot_err (eR e) a.
Proof.
  unfold validate_owner, slot_err. destruct (aes256 (eR e)).
  - destruct a as [|a0 a']; cbn [is_empty].
    + split; [congruence|]. intros (_ & H & _). congruence.
    + destruct (prepared127 prep (a0 :: a')) as [p|] eqn:Ep.
      * destruct (beq p (eO e)); split; try congruence; intros (_ & _ & H);
          apply prepared127_none in H; congruence.
      * apply prepared127_none in Ep. split; [intros _; repeat split; congruence|reflexivity].
  - destruct (beq (pad32 (eff_owner a b)) (eO e)); split; try congruence; intros (H & _); congruence.
Qed.

(* ---- the decision function ---- *)

Lemma setup_key_neither nb ow us pk be hp :
  ow <> VOk -> us <> VOk -> opened (setup_key nb ow us pk be hp) = false.
Proof. destruct ow, us, nb, pk, be, hp; cbn; congruence. Qed.

Lemma access_opened_iff nb e a b :
  opened (access prep nb e a b) = true <->
  if nb then validate_owner prep e a b = VOk /\ validate_user prep e b = VOk
  else validate_owner prep e a b = VOk \/ (validate_owner prep e a b <> VErr /\ validate_user prep e b = VOk).
Proof.
  unfold access. destruct (validate_owner prep e a b), (validate_user prep e b), nb,
    (is_empty a && is_empty b); cbn; intuition congruence.
Qed.

Lemma access_not_opened_class e a b :
  validate_owner prep e a b <> VOk -> validate_user prep e b <> VOk ->
  access prep false e a b = EWrongPassword \/ access prep false e a b = EValidate.
Proof.
  unfold access. destruct (validate_owner prep e a b), (validate_user prep e b); cbn; intros; try congruence; auto.
Qed.

(* ---- errors write nothing ---- *)

Lemma rewrite_with_err d w x d' : rewrite_with d w = (RErr x, d') -> d' = d.
Proof. destruct w; cbn; intros H; inversion H; reflexivity. Qed.

Lemma rewrite_with_ok d w d' : rewrite_with d w = (ROk, d') -> exists e', w = Some e' /\ d' = Encrypted e'.
Proof. destruct w as [e'|]; cbn; intros H; inversion H. exists e'. split; reflexivity. Qed.

Lemma step_err_unchanged d o x d' : step prep d o = (RErr x, d') -> d' = d.
Proof.
  destruct o as [r opw upw p|opw upw|opw uo un|upw oo on|opw upw p]; cbn.
  - destruct d; [destruct (is_empty opw)|]; try (intros H; inversion H; reflexivity). apply rewrite_with_err.
  - destruct d as [|e]; [intros H; inversion H; reflexivity|].
    destruct (opened (access prep false e opw upw)); intros H; inversion H; reflexivity.
  - destruct d as [|e]; [intros H; inversion H; reflexivity|].
    destruct (opened (access prep true e opw uo)); [apply rewrite_with_err|intros H; inversion H; reflexivity].
  - destruct (is_empty on); [intros H; inversion H; reflexivity|].
    destruct d as [|e]; [intros H; inversion H; reflexivity|].
    destruct (opened (access prep true e oo upw)); [apply rewrite_with_err|intros H; inversion H; reflexivity].
  - destruct d as [|e]; [intros H; inversion H; reflexivity|].
    destruct (opened (access prep true e opw upw)); [apply rewrite_with_err|intros H; inversion H; reflexivity].
Qed.

(* ---- changes need the owner password (and the user password) ---- *)

Definition is_change (o : op) : bool :=
  match o with OpChangeUser _ _ _ | OpChangeOwner _ _ _ | OpSetPerms _ _ _ => true | _ => false end.
(* the credentials an operation presents: (owner slot, user slot) *)
Definition slots (o : op) : bytes * bytes :=
  match o with
  | OpEncrypt _ opw upw _ => (opw, upw)
  | OpDecrypt opw upw => (opw, upw)
  | OpChangeUser opw uo _ => (opw, uo)
  | OpChangeOwner upw oo _ => (oo, upw)
  | OpSetPerms opw upw _ => (opw, upw)
  end.

Lemma change_requires_owner d o d' :
  is_change o = true -> step prep d o = (ROk, d') ->
  exists e, d = Encrypted e /\ validate_owner prep e (fst (slots o)) (snd (slots o)) = VOk
            /\ validate_user prep e (snd (slots o)) = VOk.
Proof.
  destruct o as [r opw upw p|opw upw|opw uo un|upw oo on|opw upw p]; cbn; try congruence; intros _.
  - destruct d as [|e]; [congruence|]. destruct (opened (access prep true e opw uo)) eqn:E; [|congruence].
    intros _. exists e. split; [reflexivity|]. apply (access_opened_iff true) in E. exact E.
  - destruct (is_empty on); [congruence|].
    destruct d as [|e]; [congruence|]. destruct (opened (access prep true e oo upw)) eqn:E; [|congruence].
    intros _. exists e. split; [reflexivity|]. apply (access_opened_iff true) in E. exact E.
  - destruct d as [|e]; [congruence|]. destruct (opened (access prep true e opw upw)) eqn:E; [|congruence].
    intros _. exists e. split; [reflexivity|]. apply (access_opened_iff true) in E. exact E.
Qed.

Lemma change_without_owner_refused d o e :
  is_change o = true -> d = Encrypted e ->
  validate_owner prep e (fst (slots o)) (snd (slots o)) <> VOk ->
  exists x, step prep d o = (RErr x, d) /\ x <> OpenOwner /\ x <> OpenUser.
Proof.
  intros Hc -> Hno. destruct (step prep (Encrypted e) o) as [r d'] eqn:E. destruct r as [|x].
  - destruct (change_requires_owner _ _ _ Hc E) as [e' [He [Ho _]]]. inversion He; subst. contradiction.
  - pose proof (step_err_unchanged _ _ _ _ E) as ->. exists x. split; [reflexivity|].
    destruct o as [r opw upw p|opw upw|opw uo un|upw oo on|opw upw p]; cbn in Hc, E, Hno; try congruence.
    + destruct (opened (access prep true e opw uo)) eqn:Eo.
      * apply (access_opened_iff true) in Eo. destruct Eo; contradiction.
      * inversion E; subst. split; intros Hx; rewrite Hx in Eo; cbn in Eo; congruence.
    + destruct (is_empty on); [inversion E; split; congruence|].
      destruct (opened (access prep true e oo upw)) eqn:Eo.
      * apply (access_opened_iff true) in Eo. destruct Eo; contradiction.
      * inversion E; subst. split; intros Hx; rewrite Hx in Eo; cbn in Eo; congruence.
    + destruct (opened (access prep true e opw upw)) eqn:Eo.
      * apply (access_opened_iff true) in Eo. destruct Eo; contradiction.
      * inversion E; subst. split; intros Hx; rewrite Hx in Eo; cbn in Eo; congruence.
Qed.

(* ---- histories: the current passwords, as the person who ran the operations understands them ---- *)

Record creds := mkCreds { cR : N; cO : bytes; cU : bytes }.

(* effect of a SUCCESSFUL operation on the current passwords *)
Definition cur_step (g : option creds) (o : op) : option creds :=
  match o with
  | OpEncrypt r opw upw _ => Some (mkCreds r opw upw)
  | OpDecrypt _ _ => None
  | OpChangeUser opw _ un =>
    (* the user password becomes un; when the owner slot was left empty (possible only for R<=4 and
       owner password = user password, see key()), the owner password follows the user password *)
    option_map (fun c => mkCreds (cR c) (if is_empty opw then un else cO c) un) g
  | OpChangeOwner _ _ on => option_map (fun c => mkCreds (cR c) on (cU c)) g
  | OpSetPerms _ _ _ => g
  end.

Definition is_ok (r : result) : bool := match r with ROk => true | _ => false end.

Fixpoint cur (g : option creds) (d : doc) (h : list op) : option creds :=
  match h with
  | [] => g
  | o :: h' =>
    let '(r, d') := step prep d o in
    cur (if is_ok r then cur_step g o else g) d' h'
  end.

(* the document stores exactly the prepared forms of the current passwords *)
Definition rel (d : doc) (g : option creds) : Prop :=
  match d, g with
  | Plain, None => True
  | Encrypted e, Some c =>
    eR e = cR c /\ rprep (cR c) (cO c) = Some (eO e) /\ rprep (cR c) (cU c) = Some (eU e)
    /\ (aes256 (cR c) = true -> cO c <> [])
  | _, _ => False
  end.

Lemma write_enc_some r o u p e' : write_enc prep r o u p = Some e' ->
  eR e' = r /\ rprep r (if aes256 r then o else eff_owner o u) = Some (eO e') /\ rprep r u = Some (eU e').
Proof.
  unfold write_enc, rprep. destruct (aes256 r).
  - destruct (prepared127 prep u) as [pu|]; [|congruence].
    destruct (prepared127 prep o) as [po|]; [|congruence].
    intros [= <-]. cbn. repeat split; reflexivity.
  - intros [= <-]. cbn. repeat split; reflexivity.
Qed.

Lemma step_rel d g o r d' :
  rel d g -> step prep d o = (r, d') -> rel d' (if is_ok r then cur_step g o else g).
Proof.
  intros Hrel Hstep.
  destruct r as [|x]; cbn [is_ok].
  2:{ apply step_err_unchanged in Hstep. subst. exact Hrel. }
  destruct o as [r opw upw p|opw upw|opw uo un|upw oo on|opw upw p]; cbn in Hstep.
  - (* encrypt *)
    destruct d as [|e]; [|congruence]. destruct (is_empty opw) eqn:Eo; [congruence|].
    assert (Hne : opw <> []) by (intros ->; cbn in Eo; congruence).
    apply rewrite_with_ok in Hstep. destruct Hstep as (e' & Hw & ->).
    apply write_enc_some in Hw. destruct Hw as (HR & HO & HU).
    rewrite eff_owner_nonempty in HO by assumption.
    cbn [cur_step]. unfold rel. cbn [cR cO cU].
    refine (conj HR (conj _ (conj HU (fun _ => Hne)))). destruct (aes256 r); exact HO.
  - (* decrypt *)
    destruct d as [|e]; [congruence|]. destruct (opened (access prep false e opw upw)); [|congruence].
    inversion Hstep; subst. destruct g; cbn; exact I.
  - (* change user *)
    destruct d as [|e]; [congruence|]. destruct (opened (access prep true e opw uo)) eqn:Eacc; [|congruence].
    apply rewrite_with_ok in Hstep. destruct Hstep as (e' & Hw & ->).
    destruct g as [c|]; [|contradiction]. destruct Hrel as (HR & HO & HU & HA).
    apply (access_opened_iff true) in Eacc. destruct Eacc as [Hown Husr].
    apply validate_owner_ok in Hown. unfold owner_ok in Hown.
    apply write_enc_some in Hw. destruct Hw as (HR' & HO' & HU').
    cbn [cur_step option_map]. unfold rel. cbn [cR cO cU]. rewrite HR in *.
    refine (conj HR' (conj _ (conj HU' _))).
    + destruct (aes256 (cR c)) eqn:Ea.
      * destruct Hown as [Hne Hacc].
        assert (Hie : is_empty opw = false) by (destruct opw; cbn; congruence). rewrite Hie. congruence.
      * destruct (is_empty opw) eqn:Hie.
        -- apply is_empty_nil in Hie. subst opw. exact HO'.
        -- assert (Hne : opw <> []) by (intros ->; cbn in Hie; congruence).
           rewrite eff_owner_nonempty in * by assumption. congruence.
    + intros Ha. rewrite Ha in Hown. destruct Hown as [Hne _].
      assert (Hie : is_empty opw = false) by (destruct opw; cbn; congruence). rewrite Hie. exact (HA Ha).
  - (* change owner *)
    destruct (is_empty on) eqn:Eon; [congruence|].
    destruct d as [|e]; [congruence|]. destruct (opened (access prep true e oo upw)) eqn:Eacc; [|congruence].
    apply rewrite_with_ok in Hstep. destruct Hstep as (e' & Hw & ->).
    destruct g as [c|]; [|contradiction]. destruct Hrel as (HR & HO & HU & HA).
    apply (access_opened_iff true) in Eacc. destruct Eacc as [Hown Husr].
    apply validate_user_ok in Husr.
    assert (Hne : on <> []) by (intros ->; cbn in Eon; congruence).
    apply write_enc_some in Hw. destruct Hw as (HR' & HO' & HU').
    rewrite eff_owner_nonempty in HO' by assumption.
    cbn [cur_step option_map]. unfold rel. cbn [cR cO cU]. rewrite HR in *.
    refine (conj HR' (conj _ (conj _ (fun _ => Hne)))).
    + destruct (aes256 (cR c)); exact HO'.
    + congruence.
  - (* set permissions *)
    destruct d as [|e]; [congruence|]. destruct (opened (access prep true e opw upw)) eqn:Eacc; [|congruence].
    apply rewrite_with_ok in Hstep. destruct Hstep as (e' & Hw & ->).
    destruct g as [c|]; [|contradiction]. destruct Hrel as (HR & HO & HU & HA).
    apply (access_opened_iff true) in Eacc. destruct Eacc as [Hown Husr].
    apply validate_owner_ok in Hown. unfold owner_ok in Hown. apply validate_user_ok in Husr.
    apply write_enc_some in Hw. destruct Hw as (HR' & HO' & HU').
    cbn [cur_step]. unfold rel. rewrite HR in *.
    refine (conj HR' (conj _ (conj _ HA))).
    + destruct (aes256 (cR c)); [destruct Hown as [_ Hacc]|]; congruence.
    + congruence.
Qed.

Lemma history_rel h : forall d g, rel d g -> rel (run prep d h) (cur g d h).
Proof.
  induction h as [|o h IH]; intros d g Hrel; cbn in *; [exact Hrel|].
  destruct (step prep d o) as [r d'] eqn:E. cbn [snd].
  apply IH. eapply step_rel; eassumption.
Qed.

(* which credentials open a document whose current passwords are c *)
Definition owner_accepts (c : creds) (a b : bytes) : Prop :=
  if aes256 (cR c) then a <> [] /\ accepts (cR c) (cO c) a
  else accepts (cR c) (cO c) (eff_owner a b).

Lemma opens_iff e c a b :
  rel (Encrypted e) (Some c) ->
  (opens prep e a b = true <-> owner_accepts c a b \/ (~ slot_err (cR c) a /\ accepts (cR c) (cU c) b)).
Proof.
  intros (HR & HO & HU & _). unfold opens. rewrite (access_opened_iff false).
  rewrite validate_owner_ok, validate_user_ok, validate_owner_err. unfold owner_ok, owner_accepts, accepts.
  rewrite HR, HO, HU. reflexivity.
Qed.

Lemma current_open e c :
  rel (Encrypted e) (Some c) ->
  opens prep e (cO c) [] = true /\ opens prep e [] (cU c) = true
  /\ (cO c <> [] -> opened (access prep true e (cO c) (cU c)) = true).
Proof.
  intros Hrel. pose proof Hrel as (HR & HO & HU & HA).
  split; [|split].
  - apply (opens_iff _ _ _ _ Hrel). left. unfold owner_accepts, accepts. destruct (aes256 (cR c)) eqn:Ea.
    + split; [apply (HA eq_refl)|reflexivity].
    + rewrite eff_owner_self. reflexivity.
  - apply (opens_iff _ _ _ _ Hrel). right. split; [|reflexivity]. intros (_ & H & _). congruence.
  - intros Hne. apply (access_opened_iff true). rewrite validate_owner_ok, validate_user_ok. unfold owner_ok.
    rewrite HR. split; [|exact HU].
    destruct (aes256 (cR c)) eqn:Ea.
    + split; [exact Hne|exact HO].
    + rewrite eff_owner_nonempty by exact Hne. exact HO.
Qed.

(* a candidate that is accepted neither for the current owner nor for the current user password *)
Lemma stale_rejected e c x :
  rel (Encrypted e) (Some c) ->
  ~ accepts (cR c) (cO c) x -> ~ accepts (cR c) (cU c) x ->
  opens prep e [] x = false /\ (~ accepts (cR c) (cU c) [] -> opens prep e x [] = false).
Proof.
  intros Hrel HnO HnU. split.
  - destruct (opens prep e [] x) eqn:E; [|reflexivity]. exfalso.
    apply (opens_iff _ _ _ _ Hrel) in E. destruct E as [E|[_ E]]; [|contradiction].
    unfold owner_accepts in E. destruct (aes256 (cR c)); [destruct E as [E _]; congruence|].
    cbn in E. contradiction.
  - intros HnE. destruct (opens prep e x []) eqn:E; [|reflexivity]. exfalso.
    apply (opens_iff _ _ _ _ Hrel) in E. destruct E as [E|[_ E]]; [|contradiction].
    unfold owner_accepts in E. destruct (aes256 (cR c)); [destruct E as [_ E]; contradiction|].
    rewrite eff_owner_self in E. contradiction.
Qed.

End P.

(* ---- assembled statements ---- *)

Lemma neither_password_rejected prep e a b :
  validate_owner prep e a b <> VOk -> validate_user prep e b <> VOk ->
  opens prep e a b = false
  /\ (access prep false e a b = EWrongPassword \/ access prep false e a b = EValidate)
  /\ (validate_owner prep e a b = VNo -> validate_user prep e b = VNo -> access prep false e a b = EWrongPassword)
  /\ (exists x, step prep (Encrypted e) (OpDecrypt a b) = (RErr x, Encrypted e))
  /\ forall nb pk be hp, opened (setup_key nb (validate_owner prep e a b) (validate_user prep e b) pk be hp) = false.
Proof.
  intros Ho Hu.
  assert (Hop : opens prep e a b = false).
  { unfold opens, access. apply setup_key_neither; assumption. }
  split; [exact Hop|]. split; [apply access_not_opened_class; assumption|].
  split; [intros H1 H2; unfold access; rewrite H1, H2; reflexivity|].
  split.
  - cbn. unfold opens in Hop. rewrite Hop. eexists; reflexivity.
  - intros. apply setup_key_neither; assumption.
Qed.

Lemma history_current prep h :
  match run prep Plain h, cur prep None Plain h with
  | Plain, None => True
  | Encrypted e, Some c =>
    (forall a b, opens prep e a b = true <->
       owner_accepts prep c a b \/ (~ slot_err prep (cR c) a /\ accepts prep (cR c) (cU c) b))
    /\ opens prep e (cO c) [] = true /\ opens prep e [] (cU c) = true
    /\ (forall x, ~ accepts prep (cR c) (cO c) x -> ~ accepts prep (cR c) (cU c) x ->
          opens prep e [] x = false /\ (~ accepts prep (cR c) (cU c) [] -> opens prep e x [] = false))
    /\ rprep prep (cR c) (cO c) <> None /\ rprep prep (cR c) (cU c) <> None
  | _, _ => False
  end.
Proof.
  pose proof (history_rel prep h Plain None I) as Hrel.
  destruct (run prep Plain h) as [|e]; destruct (cur prep None Plain h) as [c|]; try exact Hrel; try exact I.
  split; [intros a b; apply opens_iff; exact Hrel|].
  destruct (current_open prep e c Hrel) as (H1 & H2 & _).
  split; [exact H1|]. split; [exact H2|].
  split; [intros x; apply stale_rejected; exact Hrel|].
  destruct Hrel as (_ & HO & HU & _). rewrite HO, HU. split; congruence.
Qed.

(* ---- a wrong password - one whose prepared form differs from those of the current passwords - is refused by every
   operation.  "Wrong" is stated through the preparation (rprep x <> rprep c): whether two spellings (letter case,
   width, normalisation form) are the same password is decided by prep alone, which is outside this model. ---- *)
Lemma wrong_password_refused prep h e c x :
  run prep Plain h = Encrypted e -> cur prep None Plain h = Some c ->
  x <> [] ->
  rprep prep (cR c) x <> rprep prep (cR c) (cO c) ->
  rprep prep (cR c) x <> rprep prep (cR c) (cU c) ->
  rprep prep (cR c) [] <> rprep prep (cR c) (cU c) ->
  (* opening and decrypting with x in either slot *)
  opens prep e x [] = false /\ opens prep e [] x = false
  /\ (exists err, step prep (Encrypted e) (OpDecrypt x []) = (RErr err, Encrypted e))
  /\ (exists err, step prep (Encrypted e) (OpDecrypt [] x) = (RErr err, Encrypted e))
  (* every change with x as the owner credential, whatever the other slot holds *)
  /\ (forall o, is_change o = true -> fst (slots o) = x ->
        exists err, step prep (Encrypted e) o = (RErr err, Encrypted e))
  (* every change with the owner slot right and x as the user credential *)
  /\ (forall o, is_change o = true -> snd (slots o) = x -> fst (slots o) <> [] ->
        exists err, step prep (Encrypted e) o = (RErr err, Encrypted e)).
Proof.
  intros Hrun Hcur Hne HnO HnU HnE.
  pose proof (history_rel prep h Plain None I) as Hrel. rewrite Hrun, Hcur in Hrel.
  assert (HnO' : ~ accepts prep (cR c) (cO c) x) by (unfold accepts; exact HnO).
  assert (HnU' : ~ accepts prep (cR c) (cU c) x) by (unfold accepts; exact HnU).
  assert (HnE' : ~ accepts prep (cR c) (cU c) []) by (unfold accepts; exact HnE).
  destruct (stale_rejected prep e c x Hrel HnO' HnU') as [Hu Ho]. specialize (Ho HnE').
  split; [exact Ho|]. split; [exact Hu|].
  split; [cbn; unfold opens in Ho; rewrite Ho; eexists; reflexivity|].
  split; [cbn; unfold opens in Hu; rewrite Hu; eexists; reflexivity|].
  pose proof Hrel as (HR & HO & HU & _).
  split.
  - intros o Hc Hs.
    destruct (change_without_owner_refused prep (Encrypted e) o e Hc eq_refl) as [err [Hst _]]; [|eexists; exact Hst].
    rewrite Hs. intros Hv. apply validate_owner_ok in Hv. unfold owner_ok in Hv. rewrite HR in Hv.
    destruct (aes256 (cR c)).
    + destruct Hv as [_ Hv]. congruence.
    + rewrite eff_owner_nonempty in Hv by exact Hne. congruence.
  - intros o Hc Hs Hos.
    destruct (step prep (Encrypted e) o) as [r d'] eqn:E. destruct r as [|err].
    + destruct (change_requires_owner prep _ _ _ Hc E) as [e' [He [_ Hv]]]. inversion He; subst e'.
      rewrite Hs in Hv. apply validate_user_ok in Hv. rewrite HR in Hv. congruence.
    + apply step_err_unchanged in E as E'. subst d'. eexists; reflexivity.
Qed.
