From Coq Require Import Extraction ExtrOcamlBasic.
From PV Require Import Lib.ExtBase C35.Model.
Extraction "model.ml" ext_base_z ext_base_n ext_base_nat ext_base_res ext_base_list
  run_from_empty last_ok_from_empty init_doc init_doc_att att_find extract_many att_probes a_fname a_desc a_data run last_ok init_store observe extract arun empty_store wf_op fresh_adds
  kw_of_text join trim encode_name decode_name blank_b.
