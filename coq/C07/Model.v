(* C07 — installed fonts survive power loss.
   The durable layer: a second, power-loss aware interpretation of the operation traces (C06.Model.devent)
   that the font installers produce.  Executable definitions only.

   Power-loss model (this IS the assumption of the property):
     - a file is an inode; its bytes are appended by encode calls; fsync(file) makes all bytes written so far
       durable; after a power loss the inode holds SOME prefix of its bytes that contains the durable ones
       (unflushed data may be lost, in order);
     - a directory has durable entries and a list of pending entry operations (link / unlink), in the order
       they were issued; fsync(directory) makes all of them durable; after a power loss ANY prefix of the
       pending operations of each directory has reached the disk, independently for each directory and
       independently of the file data (a rename across directories is an unlink in one and a link in the other,
       which may be lost separately; a rename inside one directory is link-new + unlink-old);
     - failed calls change nothing, except a failed encode, which may have written a prefix.
   F is the font directory.  Names for which `isfont` is true are font names (the others are the temporary
   names of os.CreateTemp, which the font loader never reads). *)
From stdpp Require Import gmap.
From Coq Require Import NArith.
From PV Require Import C01.FS C06.Model.

Record inode := Ino { i_vol : bytes; i_dur : nat }.
Inductive eop := ELink (n i : positive) | EUnlink (n : positive).
Record ddir := DD { d_dur : gmap positive positive; d_pend : list eop }.
Record dst := DS { s_ino : gmap positive inode; s_dir : gmap (list positive) ddir; s_next : positive }.

Definition apply_eop (m : gmap positive positive) (o : eop) : gmap positive positive :=
  match o with ELink n i => <[n := i]> m | EUnlink n => delete n m end.
Definition apply_eops (m : gmap positive positive) (l : list eop) : gmap positive positive := fold_left apply_eop l m.
(* what a running process sees *)
Definition vol_entries (d : ddir) : gmap positive positive := apply_eops (d_dur d) (d_pend d).

Definition resolve (st : dst) (d : list positive) (n : positive) : option positive :=
  match s_dir st !! d with Some dd => vol_entries dd !! n | None => None end.

Definition pend (st : dst) (d : list positive) (ops : list eop) : dst :=
  match s_dir st !! d with
  | Some dd => DS (s_ino st) (<[d := DD (d_dur dd) (d_pend dd ++ ops)]> (s_dir st)) (s_next st)
  | None => st
  end.

Definition ok_ev (e : devent) : bool := match de_res e with None => true | Some _ => false end.

(* one event *)
Definition dstep (st : dst) (e : devent) : dst :=
  match de_op e, de_p e, de_q e with
  | DMkdirTemp, PDir d, _ =>
    if ok_ev e then DS (s_ino st) (<[d := DD ∅ []]> (s_dir st)) (s_next st) else st
  | DCreateTemp, PFile d n, _ =>
    if ok_ev e then
      let st1 := DS (<[s_next st := Ino [] 0]> (s_ino st)) (s_dir st) (Pos.succ (s_next st)) in
      pend st1 d [ELink n (s_next st)]
    else st
  | DEncode, PFile d n, _ =>
    (* also when it failed: de_data is what was written *)
    match resolve st d n with
    | Some i => match s_ino st !! i with
                | Some ino => DS (<[i := Ino (i_vol ino ++ de_data e) (i_dur ino)]> (s_ino st)) (s_dir st) (s_next st)
                | None => st
                end
    | None => st
    end
  | DSync, PFile d n, _ =>
    if ok_ev e then
      match resolve st d n with
      | Some i => match s_ino st !! i with
                  | Some ino => DS (<[i := Ino (i_vol ino) (length (i_vol ino))]> (s_ino st)) (s_dir st) (s_next st)
                  | None => st
                  end
      | None => st
      end
    else st
  | DRename, PFile d1 n1, PFile d2 n2 =>
    if ok_ev e then
      match resolve st d1 n1 with
      | Some i => if bool_decide (d1 = d2) then pend st d1 [ELink n2 i; EUnlink n1]
                  else pend (pend st d2 [ELink n2 i]) d1 [EUnlink n1]
      | None => st
      end
    else st
  | DRemove, PFile d n, _ => if ok_ev e then pend st d [EUnlink n] else st
  | DRemoveAll, PDir d, _ =>
    if ok_ev e then DS (s_ino st) (filter (fun kv => under d (fst kv) = false) (s_dir st)) (s_next st) else st
  | DSyncDir, PDir d, _ =>
    if ok_ev e then
      match s_dir st !! d with
      | Some dd => DS (s_ino st) (<[d := DD (vol_entries dd) []]> (s_dir st)) (s_next st)
      | None => st
      end
    else st
  | _, _, _ => st
  end.

Definition dexec (st : dst) (tr : list devent) : dst := fold_left dstep tr st.

Section Check.
Variable F : list positive.
Variable isfont : positive -> bool.
(* the complete previous / the complete new representation of a font name *)
Variables old new : positive -> option bytes.

Definition bytes_eqb (a b : bytes) : bool := bool_decide (a = b).
Definition is_rep (n : positive) (b : bytes) : bool :=
  match old n with Some o => bytes_eqb b o | None => false end ||
  match new n with Some o => bytes_eqb b o | None => false end.

(* inode i is completely on disk and is the previous or the new representation of n *)
Definition good (st : dst) (n i : positive) : bool :=
  match s_ino st !! i with
  | Some ino => Nat.eqb (i_dur ino) (length (i_vol ino)) && is_rep n (i_vol ino)
  | None => false
  end.

Definition links_of (dd : ddir) : list (positive * positive) :=
  map_to_list (d_dur dd) ++ flat_map (fun o => match o with ELink n i => [(n, i)] | EUnlink _ => [] end) (d_pend dd).
(* is inode i reachable from the font directory under a font name, now or after any power loss? *)
Definition in_F (st : dst) (i : positive) : bool :=
  match s_dir st !! F with
  | Some dd => existsb (fun l => isfont (fst l) && Pos.eqb (snd l) i) (links_of dd)
  | None => false
  end.

(* the side conditions under which an event keeps the font directory safe *)
Definition ev_safe (st : dst) (e : devent) : bool :=
  match de_op e, de_p e, de_q e with
  | DMkdirTemp, PDir d, _ => negb (ok_ev e) || negb (bool_decide (d = F))
  | DCreateTemp, PFile d n, _ => negb (ok_ev e) || negb (bool_decide (d = F)) || negb (isfont n)
  | DEncode, PFile d n, _ => match resolve st d n with Some i => negb (in_F st i) | None => true end
  | DRename, PFile d1 n1, PFile d2 n2 =>
    negb (ok_ev e) || negb (bool_decide (d2 = F)) || negb (isfont n2) ||
    match resolve st d1 n1 with Some i => good st n2 i | None => true end
  | _, _, _ => true
  end.

Fixpoint accepts (st : dst) (tr : list devent) : bool :=
  match tr with
  | [] => true
  | e :: tr' => ev_safe st e && accepts (dstep st e) tr'
  end.

(* ---- power loss ---- *)
(* what the font directory may contain after a power loss: k pending operations reached the disk *)
Definition crash_entries (st : dst) (k : nat) : gmap positive positive :=
  match s_dir st !! F with
  | Some dd => apply_eops (d_dur dd) (firstn k (d_pend dd))
  | None => ∅
  end.
(* the bytes of inode i after a power loss: j bytes reached the disk, at least the durable ones *)
Definition crash_bytes (st : dst) (i : positive) (j : nat) : option bytes :=
  match s_ino st !! i with
  | Some ino => if Nat.leb (i_dur ino) j then Some (firstn j (i_vol ino)) else None
  | None => None
  end.

(* n is durably bound to data: entry durable and no pending operation on n, data completely on disk *)
Definition durable_now (st : dst) (n : positive) (data : bytes) : bool :=
  match s_dir st !! F with
  | Some dd =>
    forallb (fun o => match o with ELink m _ | EUnlink m => negb (Pos.eqb m n) end) (d_pend dd) &&
    match d_dur dd !! n with
    | Some i => match s_ino st !! i with
                | Some ino => Nat.eqb (i_dur ino) (length (i_vol ino)) && bytes_eqb (i_vol ino) data
                | None => false
                end
    | None => false
    end
  | None => false
  end.
End Check.

(* the canonical trace of writeGobWithOperations without failure:  createTemp ; write* ; chmod ; fsync ; close ;
   (verify) ; rename ; fsync_dir *)
Definition gob_trace (d : list positive) (t n : positive) (data : bytes) : list devent :=
  [ DEv DCreateTemp (PFile d t) (PFile d t) None [];
    DEv DEncode (PFile d t) (PFile d t) None data;
    DEv DChmod (PFile d t) (PFile d t) None [];
    DEv DSync (PFile d t) (PFile d t) None [];
    DEv DClose (PFile d t) (PFile d t) None [];
    DEv DVerify (PFile d t) (PFile d t) None [];
    DEv DRename (PFile d t) (PFile d n) None [];
    DEv DSyncDir (PDir d) (PDir d) None [] ].

(* the commit step of one staged font: rename staged -> target ; fsync(staging) ; fsync(font dir) *)
Definition commit_trace (S F : list positive) (n : positive) : list devent :=
  [ DEv DRename (PFile S n) (PFile F n) None [];
    DEv DSyncDir (PDir S) (PDir S) None [];
    DEv DSyncDir (PDir F) (PDir F) None [] ].

(* a collection / batch: every member (temporary name, font name, representation) is first written into the
   staging directory S by writeGobWithOperations, then every member is committed S -> F *)
Definition cmember := (positive * positive * bytes)%type.
Definition cm_tmp (m : cmember) : positive := fst (fst m).
Definition cm_name (m : cmember) : positive := snd (fst m).
Definition cm_data (m : cmember) : bytes := snd m.
Definition stage_trace (S : list positive) (ms : list cmember) : list devent :=
  flat_map (fun m => gob_trace S (cm_tmp m) (cm_name m) (cm_data m)) ms.
Definition commit_all_trace (S F : list positive) (ms : list cmember) : list devent :=
  flat_map (fun m => commit_trace S F (cm_name m)) ms.
Definition collection_trace (S F : list positive) (ms : list cmember) : list devent :=
  stage_trace S ms ++ commit_all_trace S F ms.

(* ---- entry points for extraction ---- *)
(* initial durable state from a tree: every file its own inode, everything flushed *)
Definition dst_of_lists (l : list (list positive * list (positive * bytes))) : dst :=
  fold_left (fun st e =>
    fold_left (fun st' f =>
      let i := s_next st' in
      let dd := match s_dir st' !! fst e with Some x => x | None => DD ∅ [] end in
      DS (<[i := Ino (snd f) (length (snd f))]> (s_ino st'))
         (<[fst e := DD (<[fst f := i]> (d_dur dd)) []]> (s_dir st')) (Pos.succ i))
      (snd e)
      (DS (s_ino st) (<[fst e := match s_dir st !! fst e with Some x => x | None => DD ∅ [] end]> (s_dir st)) (s_next st)))
    l (DS ∅ ∅ 1%positive).

Definition opt_list (l : list (positive * bytes)) (n : positive) : option bytes :=
  match find (fun e => Pos.eqb (fst e) n) l with Some e => Some (snd e) | None => None end.

(* run the acceptance check of a recorded trace; returns the index of the first unsafe event *)
Fixpoint first_unsafe (F : list positive) (isfont : positive -> bool) (old new : positive -> option bytes)
    (st : dst) (tr : list devent) (k : nat) : option nat :=
  match tr with
  | [] => None
  | e :: tr' => if ev_safe F isfont old new st e then first_unsafe F isfont old new (dstep st e) tr' (S k) else Some k
  end.

Definition check_trace (F : list positive) (bound : positive) (oldl newl : list (positive * bytes))
    (init : list (list positive * list (positive * bytes))) (tr : list devent) : option nat :=
  first_unsafe F (fun n => Pos.leb n bound) (opt_list oldl) (opt_list newl) (dst_of_lists init) tr 0.

Definition durable_after (F : list positive) (init : list (list positive * list (positive * bytes)))
    (tr : list devent) (n : positive) (data : bytes) : bool :=
  durable_now F (dexec (dst_of_lists init) tr) n data.
