(* C40 — Concurrent use of the API is race-free and deterministic  (PARTIAL, see below).
   Property theorems only; each is closed by an exact lemma and followed by Print Assumptions.

   Full statement of the property: with the configuration directory disabled, any number of
   goroutines may run operations on independent inputs concurrently, including font lookups and
   user-font reloads, WITHOUT DATA RACES, and each produces the same result it would produce
   when run alone.

   What is proved here: the second half, over the model of the shared package-level state in
   which every critical section is atomic (Model.step), for EVERY schedule, any number of
   threads, any operations; and the syntactic lock discipline (every access of the tracked
   variables inside its lock's extent, one critical section per accessor and lock, every font
   reader preceded by LoadUserFonts) over the table regenerated from the source on every run.
   What is NOT proved: that the Go memory model turns "lock held at every access" into
   "critical sections are atomic" (trusted: sync.Mutex/RWMutex/Once), and freedom from data
   races on memory that is not in the table (per-operation contexts are not shared; the race
   detector run of the harness searches for counter-examples).  Hence `_partial`. *)
From Coq Require Import NArith List Bool.
From Coq Require Import String.
From PV Require Import C40.Model C40.Generated C40.Audit C40.Proofs C40.ProofsTable.
Import ListNotations.
Open Scope N_scope.

(* For every environment, every coherent initial state (config dir disabled, caches agree with
   the disk where loaded), every set of threads of well-formed operations and EVERY schedule:
   an operation that completes belongs to the thread that reports it and returns exactly what
   it returns when run alone from the initial state.  k1/k2 = true covers "loading has
   happened-before" (then bare lookups / pool reads are allowed as operations). *)
Theorem C40_deterministic_partial :
  forall (e : env) (k1 k2 : bool) (st0 : state) (ths : list (list op)) (sched : list nat),
    coherent e st0 ->
    (k1 = true -> fonts_loaded e st0) -> (k2 = true -> pool_loaded e st0) ->
    wf_threads k1 k2 ths ->
    forall t o r, In (t, o, r) (snd (run e sched (map init_prog ths) st0)) ->
      In o (nth t ths []) /\ r = run_op e st0 o.
Proof. exact deterministic. Qed.
Print Assumptions C40_deterministic_partial.

(* the same, as independence from the schedule *)
Theorem C40_schedule_independent_partial :
  forall e k1 k2 st0 ths sched1 sched2,
    coherent e st0 ->
    (k1 = true -> fonts_loaded e st0) -> (k2 = true -> pool_loaded e st0) ->
    wf_threads k1 k2 ths ->
    forall t o r1 r2,
      In (t, o, r1) (snd (run e sched1 (map init_prog ths) st0)) ->
      In (t, o, r2) (snd (run e sched2 (map init_prog ths) st0)) -> r1 = r2.
Proof. exact schedule_independent. Qed.
Print Assumptions C40_schedule_independent_partial.

(* coherence survives every concurrent phase (so phases compose), and holds at start-up *)
Theorem C40_coherence_invariant :
  forall e k1 k2 st0 ths sched,
    coherent e st0 ->
    (k1 = true -> fonts_loaded e st0) -> (k2 = true -> pool_loaded e st0) ->
    wf_threads k1 k2 ths ->
    coherent e (fst (run e sched (map init_prog ths) st0)).
Proof. exact run_coherent. Qed.
Print Assumptions C40_coherence_invariant.

(* idempotent initialisation: whatever was loaded before the concurrent phase is, in the final
   state of EVERY schedule, still exactly what is on disk (reloads / invalidations / redundant
   loads by other threads cannot leave a different table or pool behind) *)
Theorem C40_final_state_schedule_independent :
  forall e k1 k2 st0 ths sched,
    coherent e st0 ->
    (k1 = true -> fonts_loaded e st0) -> (k2 = true -> pool_loaded e st0) ->
    wf_threads k1 k2 ths ->
    let stf := fst (run e sched (map init_prog ths) st0) in
    (fonts_loaded e st0 -> s_once stf = true /\ e_fonts e = Some (s_fonts stf)) /\
    (pool_loaded e st0 -> s_pool stf = e_pool e /\ e_pool e <> None) /\
    s_cfg stf = true.
Proof. exact final_state. Qed.
Print Assumptions C40_final_state_schedule_independent.

Theorem C40_startup_coherent : forall e, coherent e (fst (step e SDisable init_state)).
Proof. exact init_coherent. Qed.
Print Assumptions C40_startup_coherent.

(* Lock discipline over the regenerated table (T layer). *)
Theorem C40_lock_discipline :
  forall a, In a accesses -> a_var a <> V_model_ConfigPath -> guarded a = true.
Proof. exact lock_discipline. Qed.
Print Assumptions C40_lock_discipline.

Theorem C40_one_section_per_function : forall f l n, In (f, l, n) lock_extents -> n = 1.
Proof. exact one_section_per_function. Qed.
Print Assumptions C40_one_section_per_function.

Theorem C40_font_readers_load_first : forall f b, In (f, b) font_readers -> b = true.
Proof. exact font_readers_load_first. Qed.
Print Assumptions C40_font_readers_load_first.

(* All shared state is audited: every package-level variable under pkg/ whose type is not immutable is
   in the audited inventory, and every one that is written, address-taken or has methods called on it
   outside init() is in the audited list of mutable state (guarded-by-lock-table / atomic / set-up only /
   read-only-by-inspection, see Audit.v).  A new `var objKeyHash = md5.New()` closes neither. *)
Theorem C40_shared_state_audited :
  forall n im wr mc, In (n, (im, (wr, mc))) pkg_vars ->
    (im = false -> In n audited_all) /\
    (wr = true \/ (mc = true /\ im = false) -> In n audited_mutable).
Proof. exact shared_state_audited. Qed.
Print Assumptions C40_shared_state_audited.

(* Address-escaping package variables (model.zero, pdfcpu.zero, the colours): the set of them, the places their
   addresses flow to, and EVERY explicit write through a dereference that could reach them (`*x.Offset = ..`,
   `*e.Generation++`, `*offset += ..`) are exactly the audited ones of Audit.v, each audited site carrying
   the reason why its pointee is never one of these variables.  A new write through such a pointer (e.g.
   `*head.Offset = objNr` in handleDanglingFree) is not in the audited list.  Approximation: syntactic,
   explicit dereferences only; the harness's sentinel oracle (shared-sentinel-modified:<var>) covers the rest. *)
Theorem C40_escaping_pointees_audited :
  (forall v, In v addr_escaping <-> In v audited_escaping) /\
  (forall f, In f addr_flows <-> In f audited_addr_flows) /\
  (forall w, In w deref_writes <-> In w audited_deref_writes).
Proof. exact escaping_pointees_audited. Qed.
Print Assumptions C40_escaping_pointees_audited.

(* model.ConfigPath: writes are guarded (partial) but the discipline as a whole is refuted by
   the unguarded read in model.NewDefaultConfiguration. *)
Theorem C40_configpath_writes_guarded_partial :
  forall a, In a accesses -> a_var a = V_model_ConfigPath -> a_kind a = AWrite -> guarded a = true.
Proof. exact configpath_writes_guarded. Qed.
Print Assumptions C40_configpath_writes_guarded_partial.

Theorem C40_configpath_discipline_refuted :
  exists a, In a accesses /\ a_var a = V_model_ConfigPath /\ a_kind a = ARead /\ a_lock a = LNone /\ guarded a = false.
Proof. exact configpath_read_unguarded. Qed.
Print Assumptions C40_configpath_discipline_refuted.

(* non-vacuity: a coherent start state exists, the operations of the code are well-formed, a
   concrete schedule of two threads completes operations, and an ill-formed operation (a bare
   lookup with nothing loaded before) really is schedule-dependent in the model. *)
Example C40_nonvacuous :
  let e := mkEnv (Some [(1, 10); (2, 20)]) 7 3 (Some 5) in
  let st0 := fst (step e SDisable init_state) in
  let ths := [[[SLoad; SLookup 2]; [SLoadCerts; SGetPool]]; [[SReload]; [SLoad; SNames]; [SInvalidate]]] in
  wf_threads false false ths /\
  snd (run e [0;1;0;1;1;0;0;1]%nat (map init_prog ths) st0) =
    [(1%nat, [SReload], RUnit); (0%nat, [SLoad; SLookup 2], RFont (Some 20)); (1%nat, [SLoad; SNames], RNames [1; 2]);
     (0%nat, [SLoadCerts; SGetPool], RPool (Some 5)); (1%nat, [SInvalidate], RUnit)] /\
  snd (run e [0;1]%nat (map init_prog [[[SLookup 2]]; [[SLoad]]]) st0) = [(0%nat, [SLookup 2], RFont None); (1%nat, [SLoad], RUnit)] /\
  snd (run e [1;0]%nat (map init_prog [[[SLookup 2]]; [[SLoad]]]) st0) = [(1%nat, [SLoad], RUnit); (0%nat, [SLookup 2], RFont (Some 20))] /\
  wf_op [SLookup 2] = false.
Proof. vm_compute. repeat split; repeat constructor. Qed.
