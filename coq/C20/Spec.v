(* C20 — specification vocabulary: the observable meaning of an object in an object graph
   (its unfolding along references, to every finite depth), well-formedness, and the
   "some references were replaced" relation.  Definitions only. *)
From Coq Require Import List ZArith NArith Bool.
From PV Require Import C20.Model.
Import ListNotations.
Open Scope Z_scope.

(* two dicts agree entry by entry (Go map semantics: lookup by key), font-name entries of
   font dicts being read without their subset tag *)
Definition simdict (R : obj -> obj -> Prop) (g1 g2 : graph) (d1 d2 : dict) : Prop :=
  forall k, match lookup k d1, lookup k d2 with
            | None, None => True
            | Some v1, Some v2 => R (norm g1 d1 k v1) (norm g2 d2 k v2)
            | _, _ => False
            end.

(* one level: same kind of object, same atoms / bytes, children related by R *)
Definition simhead (R : obj -> obj -> Prop) (g1 g2 : graph) (a b : obj) : Prop :=
  match a, b with
  | ONull, ONull => True
  | OBool x, OBool y => x = y
  | OInt x, OInt y => x = y
  | OFloat x, OFloat y => x = y
  | OName x, OName y => x = y
  | OStr x, OStr y => x = y
  | OHex x, OHex y => x = y
  | ORef x gx, ORef y gy => R (ORef x gx) (ORef y gy)
  | OArr x, OArr y => Forall2 R x y
  | ODict x, ODict y => simdict R g1 g2 x y
  | OStream x rx, OStream y ry => simdict R g1 g2 x y /\ rawbytes rx = rawbytes ry
  | _, _ => False
  end.

(* sim n g1 o1 g2 o2: o1 read in graph g1 and o2 read in graph g2 cannot be told apart by
   a reader that follows references and looks at most n levels deep.  An object and a
   reference to it are the same thing for the reader. `forall n, sim n ...` is
   bisimilarity of the two (possibly cyclic) unfoldings. *)
Fixpoint sim (n : nat) (g1 : graph) (o1 : obj) (g2 : graph) (o2 : obj) : Prop :=
  match n with
  | O => True
  | S m => simhead (fun x y => sim m g1 x g2 y) g1 g2 (deref g1 o1) (deref g2 o2)
  end.

Definition same_unfolding (g1 : graph) (o1 : obj) (g2 : graph) (o2 : obj) : Prop :=
  forall n, sim n g1 o1 g2 o2.

(* well-formedness: a Dict is a Go map, so a key occurs once *)
Fixpoint nodupb (l : list bytes) : bool :=
  match l with
  | [] => true
  | k :: t => negb (existsb (beqb k) t) && nodupb t
  end.
Fixpoint wfo (o : obj) : bool :=
  match o with
  | OArr l => forallb wfo l
  | ODict d => nodupb (map fst d) && forallb (fun kv => wfo (snd kv)) d
  | OStream d _ => nodupb (map fst d) && forallb (fun kv => wfo (snd kv)) d
  | _ => true
  end.
Definition wfg (g : graph) : Prop := forall nr, wfo (g nr) = true.

Definition isref (o : obj) : bool := match o with ORef _ _ => true | _ => false end.

(* o' is o with some references b replaced by references a where R a b *)
Section RW.
  Variable rw : obj -> obj -> Prop.
  Fixpoint rewr_list (l' l : list obj) : Prop :=
    match l', l with
    | [], [] => True
    | x' :: t', x :: t => rw x' x /\ rewr_list t' t
    | _, _ => False
    end.
  Fixpoint rewr_dict (d' d : dict) : Prop :=
    match d', d with
    | [], [] => True
    | kv' :: t', kv :: t => fst kv' = fst kv /\ rw (snd kv') (snd kv) /\ rewr_dict t' t
    | _, _ => False
    end.
End RW.
Fixpoint rewr (R : Z -> Z -> Prop) (o' o : obj) {struct o'} : Prop :=
  match o', o with
  | ORef a _, ORef b _ => R a b
  | OArr l', OArr l => rewr_list (rewr R) l' l
  | ODict d', ODict d => rewr_dict (rewr R) d' d
  | OStream d' r', OStream d r => rewr_dict (rewr R) d' d /\ r' = r
  | _, _ => o' = o
  end.
