(* C31 — lemmas.  Part 4: the syntax: tokenisation, the regular expression accepts the syntax,
   the recogniser in_syntax is exactly the syntax. *)
From Coq Require Import ZArith NArith Bool List Lia ZifyBool ZifyNat ZifyN.
From PV Require Import Lib.GoInt C31.Model C31.Spec C31.Proofs C31.ProofsHandlers.
Import ListNotations.
Open Scope Z_scope.

(* ------------------------------------------------------------ split / join *)
Lemma nochar_app c a b : nochar c (a ++ b) = nochar c a && nochar c b.
Proof. apply forallb_app. Qed.

Lemma nochar_cons c x a : nochar c (x :: a) = negb (N.eqb x c) && nochar c a.
Proof. reflexivity. Qed.

Lemma num_nocomma a : is_num a = true -> nochar cComma a = true.
Proof. intros H. apply num_nochar; [apply is_num_digits, H|reflexivity]. Qed.

Lemma render_term_nocomma t : wf t = true -> nochar cComma (render_term t) = true.
Proof.
  intros Hwf. destruct t as [| |k r]; [reflexivity|reflexivity|]. cbn [wf] in Hwf.
  assert (H : nochar cComma (render_r r) = true).
  { destruct r; cbn [wf_r] in Hwf; cbn [render_r];
      try (apply andb_true_iff in Hwf as [Hwf Hb]);
      rewrite ?nochar_app, ?nochar_cons, ?nochar_app, ?nochar_cons;
      rewrite ?(num_nocomma _ Hwf); try rewrite (num_nocomma _ Hb); reflexivity. }
  destruct k; cbn [render_term]; try assumption; rewrite nochar_cons, H; reflexivity.
Qed.

Lemma split_join c l : l <> [] -> forallb (nochar c) l = true -> split_on c (join c l) = l.
Proof.
  induction l as [|x l IH]; intros Hne H; [contradiction|].
  cbn [forallb] in H. apply andb_true_iff in H as [Hx Hl].
  destruct l as [|y l].
  - cbn [join]. apply split_on_none, Hx.
  - cbn [join]. rewrite split_on_app by assumption. f_equal. apply IH; [discriminate|assumption].
Qed.

Lemma join_split c s : join c (split_on c s) = s.
Proof.
  induction s as [|x s IH]; [reflexivity|]. cbn [split_on].
  destruct (N.eqb x c) eqn:E.
  - apply N.eqb_eq in E. subst x. pose proof (split_on_nonempty c s) as Hne.
    destruct (split_on c s) as [|h t] eqn:Es; [contradiction|].
    cbn [join app]. cbn [join] in IH. rewrite IH. reflexivity.
  - pose proof (split_on_nonempty c s) as Hne.
    destruct (split_on c s) as [|h t] eqn:Es; [contradiction|].
    destruct t as [|h' t]; cbn [join] in *; rewrite <- IH; reflexivity.
Qed.

Lemma split_render e : e <> [] -> forallb wf e = true -> split_on cComma (render e) = map render_term e.
Proof.
  intros Hne Hwf. unfold render. apply split_join.
  - destruct e; [contradiction|discriminate].
  - rewrite forallb_forall in *. intros x Hx. apply in_map_iff in Hx as (t & <- & Ht).
    apply render_term_nocomma, Hwf, Ht.
Qed.

(* ------------------------------------------------------------ matcher combinators *)
Lemma m_cat_intro (a b : matcher) s mid r : In mid (a s) -> In r (b mid) -> In r (m_cat a b s).
Proof. intros H1 H2. unfold m_cat. apply in_flat_map. eauto. Qed.
Lemma m_alt_l (a b : matcher) s r : In r (a s) -> In r (m_alt a b s).
Proof. intros H. unfold m_alt. apply in_or_app. auto. Qed.
Lemma m_alt_r (a b : matcher) s r : In r (b s) -> In r (m_alt a b s).
Proof. intros H. unfold m_alt. apply in_or_app. auto. Qed.
Lemma m_opt_skip (m : matcher) s : In s (m_opt m s).
Proof. left. reflexivity. Qed.
Lemma m_opt_take (m : matcher) s r : In r (m s) -> In r (m_opt m s).
Proof. intros H. right. assumption. Qed.
Lemma m_lit_1 c x : In x (m_lit [c] (c :: x)).
Proof. unfold m_lit. cbn [has_prefix]. rewrite N.eqb_refl. left. reflexivity. Qed.
Lemma m_lit_2 c1 c2 x : In x (m_lit [c1; c2] (c1 :: c2 :: x)).
Proof. unfold m_lit. cbn [has_prefix]. rewrite !N.eqb_refl. left. reflexivity. Qed.
Lemma m_digits1_complete a rest : is_num a = true -> In rest (m_digits1 (a ++ rest)).
Proof.
  intros H. destruct (is_num_cons a H) as (d & a' & -> & Hd & Ha'). clear H.
  revert d Hd. induction a' as [|e a' IH]; intros d Hd; cbn [app m_digits1]; rewrite Hd.
  - left. reflexivity.
  - right. cbn [forallb] in Ha'. apply andb_true_iff in Ha' as [He Ha']. apply IH; assumption.
Qed.

Ltac mm :=
  multimatch goal with
  | |- In _ (m_alt _ _ _) => (apply m_alt_l; mm) + (apply m_alt_r; mm)
  | |- In _ (m_cat _ _ _) => eapply m_cat_intro; [mm|mm]
  | |- In _ (m_opt _ _) => (apply m_opt_take; mm) + (apply m_opt_skip)
  | |- In _ (m_lit sMinus _) => apply m_lit_1
  | |- In _ (m_lit sL _) => apply m_lit_1
  | |- In _ (m_lit sMinusL _) => apply m_lit_2
  | |- In _ (m_digits1 _) => apply m_digits1_complete; assumption
  end.

Lemma reT_complete r rest : wf_r r = true -> In rest (reT (render_r r ++ rest)).
Proof.
  intros Hwf. unfold reT.
  destruct r as [a|a|a|a b| |a|a| |a|a|a b]; cbn [wf_r] in Hwf; cbn [render_r];
    try (apply andb_true_iff in Hwf as [Hwf Hb]);
    cbn [app]; rewrite <- ?app_assoc; cbn [app]; mm.
Qed.

Lemma reNT_complete k r rest : wf_r r = true -> In rest (reNT (render_term (TR k r) ++ rest)).
Proof.
  intros Hwf. unfold reNT. destruct k; cbn [render_term].
  - eapply m_cat_intro; [apply m_opt_skip|apply reT_complete, Hwf].
  - eapply m_cat_intro; [apply m_opt_take; left; reflexivity|apply reT_complete, Hwf].
  - eapply m_cat_intro; [apply m_opt_take; left; reflexivity|apply reT_complete, Hwf].
Qed.

(* ------------------------------------------------------------ the star table and the search *)
Lemma star_tab_app g y : forall r, exists pre, length pre = length y /\ star_tab g (y ++ r) = pre ++ star_tab g r.
Proof.
  induction y as [|c y IH]; intros r.
  - exists []. split; reflexivity.
  - destruct (IH r) as (pre & Hl & Hp). cbn [app star_tab]. rewrite Hp.
    eexists (_ :: pre). split; [cbn [length]; rewrite Hl; reflexivity|reflexivity].
Qed.

Lemma star_tab_nth g y r : nth (length (y ++ r) - length r) (star_tab g (y ++ r)) false = hd false (star_tab g r).
Proof.
  destruct (star_tab_app g y r) as (pre & Hl & Hp). rewrite Hp, app_length.
  replace (length y + length r - length r)%nat with (length pre) by lia.
  rewrite app_nth2 by lia. rewrite Nat.sub_diag. destruct (star_tab g r); reflexivity.
Qed.

(* text of the terms after the first one: ",t1,t2..." *)
Definition crep (e : list term) : str := flat_map (fun t => cComma :: render_term t) e.

Lemma render_crep t e : render (t :: e) = render_term t ++ crep e.
Proof.
  revert t. induction e as [|t' e IH]; intros t.
  - unfold render. cbn. rewrite app_nil_r. reflexivity.
  - change (render (t :: t' :: e)) with (render_term t ++ cComma :: render (t' :: e)).
    rewrite IH. reflexivity.
Qed.

Lemma m_lit_complete l rest : In rest (m_lit l (l ++ rest)).
Proof.
  unfold m_lit.
  assert (H : has_prefix l (l ++ rest) = true /\ skipn (length l) (l ++ rest) = rest).
  { induction l as [|c l IH]; [split; reflexivity|]. destruct IH as [IH1 IH2].
    cbn [app has_prefix length skipn]. rewrite N.eqb_refl, IH1, IH2. split; reflexivity. }
  destruct H as [H1 H2]. rewrite H1, H2. left. reflexivity.
Qed.

Lemma reE_complete t rest : wf t = true -> In rest (reE (render_term t ++ rest)).
Proof.
  intros Hwf. unfold reE. destruct t as [| |k r].
  - apply m_alt_l. apply m_lit_complete.
  - apply m_alt_r, m_alt_l. apply m_lit_complete.
  - apply m_alt_r, m_alt_r. apply reNT_complete, Hwf.
Qed.

Lemma reG_complete t rest : wf t = true -> In rest (reG (cComma :: render_term t ++ rest)).
Proof.
  intros Hwf. unfold reG. eapply m_cat_intro; [apply m_lit_1|apply reE_complete, Hwf].
Qed.

Lemma star_crep e : forallb wf e = true -> hd false (star_tab reG (crep e)) = true.
Proof.
  induction e as [|t e IH]; intros Hwf; [reflexivity|].
  cbn [forallb] in Hwf. apply andb_true_iff in Hwf as [Ht He].
  change (crep (t :: e)) with (cComma :: (render_term t ++ crep e)). cbn [star_tab hd].
  apply existsb_exists. exists (crep e). split; [apply reG_complete, Ht|].
  apply andb_true_iff. split.
  - rewrite app_length. apply Nat.leb_le. lia.
  - rewrite star_tab_nth. apply IH, He.
Qed.

Lemma re_match_complete e : e <> [] -> forallb wf e = true -> re_match (render e) = true.
Proof.
  intros Hne Hwf. destruct e as [|t e]; [contradiction|].
  cbn [forallb] in Hwf. apply andb_true_iff in Hwf as [Ht He].
  unfold re_match. rewrite render_crep. apply existsb_exists. exists (crep e). split.
  - apply reE_complete, Ht.
  - rewrite star_tab_nth. apply star_crep, He.
Qed.

(* ------------------------------------------------------------ soundness of the matchers *)
Lemma m_lit_sound l s r : In r (m_lit l s) -> s = l ++ r.
Proof.
  unfold m_lit. revert s. induction l as [|c l IH]; intros s.
  - cbn. intros [H|[]]. exact H.
  - destruct s as [|x s]; cbn [has_prefix]; [intros []|].
    destruct (N.eqb c x) eqn:E; cbn [andb]; [|intros []].
    apply N.eqb_eq in E. subst x. cbn [length skipn app]. intros H. f_equal. apply IH. exact H.
Qed.

Lemma m_digits1_sound s : forall r, In r (m_digits1 s) -> exists a, is_num a = true /\ s = a ++ r.
Proof.
  induction s as [|c s IH]; intros r; cbn [m_digits1]; [intros []|].
  destruct (is_digit c) eqn:Hc; [|intros []].
  intros [H|H].
  - subst r. exists [c]. split; [cbn; rewrite Hc; reflexivity|reflexivity].
  - destruct (IH r H) as (a & Ha & ->). exists (c :: a). split; [|reflexivity].
    cbn [is_num forallb]. rewrite Hc. cbn [andb]. apply is_num_digits, Ha.
Qed.

Lemma m_class_sound c1 c2 s r : In r (m_class [c1; c2] s) -> s = c1 :: r \/ s = c2 :: r.
Proof.
  unfold m_class. destruct s as [|c s]; [intros []|]. cbn [existsb].
  destruct (N.eqb c c1) eqn:E1.
  - apply N.eqb_eq in E1. subst c. intros [H|[]]. subst. left. reflexivity.
  - destruct (N.eqb c c2) eqn:E2; cbn [orb]; [|intros []].
    apply N.eqb_eq in E2. subst c. intros [H|[]]. subst. right. reflexivity.
Qed.

Lemma m_alt_inv (a b : matcher) s r : In r (m_alt a b s) -> In r (a s) \/ In r (b s).
Proof. unfold m_alt. apply in_app_or. Qed.
Lemma m_cat_inv (a b : matcher) s r : In r (m_cat a b s) -> exists mid, In mid (a s) /\ In r (b mid).
Proof. unfold m_cat. intros H. apply in_flat_map in H. exact H. Qed.

Ltac inv :=
  repeat match goal with
    | H : In _ (m_alt _ _ _) |- _ => apply m_alt_inv in H; destruct H as [H|H]
    | H : In _ (m_cat _ _ _) |- _ => apply m_cat_inv in H; destruct H as (? & ? & H)
    | H : In _ (m_opt _ _) |- _ => destruct H as [H|H]; [subst|]
    | H : In _ (m_lit _ _) |- _ => apply m_lit_sound in H; subst
    | H : In _ (m_digits1 _) |- _ => apply m_digits1_sound in H; destruct H as (? & ? & H); subst
    end.

Ltac wit rt :=
  exists rt; split;
  [ cbn [render_r]; unfold sMinus, sL, sMinusL; cbn [app]; rewrite <- ?app_assoc; cbn [app]; reflexivity
  | cbn [wf_r]; repeat match goal with H : is_num _ = true |- _ => rewrite H; clear H end; reflexivity ].

Lemma reT_sound s r : In r (reT s) -> exists rt, s = render_r rt ++ r /\ wf_r rt = true.
Proof.
  unfold reT. intros H. inv;
  lazymatch goal with
  | |- exists rt, sL ++ sMinus ++ ?a ++ sMinus ++ _ = @?f rt /\ @?g rt => wit (RLmTo a)
  | |- exists rt, sL ++ sMinus ++ ?a ++ _ = @?f rt /\ @?g rt => wit (RLm a)
  | |- exists rt, sL ++ _ = @?f rt /\ @?g rt => wit RL
  | |- exists rt, sMinusL ++ sMinus ++ ?a ++ _ = @?f rt /\ @?g rt => wit (RUpToLm a)
  | |- exists rt, sMinusL ++ _ = @?f rt /\ @?g rt => wit RUpToL
  | |- exists rt, sMinus ++ ?a ++ _ = @?f rt /\ @?g rt => wit (RUpTo a)
  | |- exists rt, ?a ++ sMinusL ++ sMinus ++ ?b ++ _ = @?f rt /\ @?g rt => wit (RFromLm a b)
  | |- exists rt, ?a ++ sMinusL ++ _ = @?f rt /\ @?g rt => wit (RFromL a)
  | |- exists rt, ?a ++ sMinus ++ ?b ++ _ = @?f rt /\ @?g rt => wit (RRange a b)
  | |- exists rt, ?a ++ sMinus ++ _ = @?f rt /\ @?g rt => wit (RFrom a)
  | |- exists rt, ?a ++ _ = @?f rt /\ @?g rt => wit (RNum a)
  end.
Qed.

Lemma reNT_sound s r : In r (reNT s) -> exists k rt, s = render_term (TR k rt) ++ r /\ wf_r rt = true.
Proof.
  unfold reNT, m_cat. intros H. apply in_flat_map in H as (mid & H1 & H2).
  apply reT_sound in H2 as (rt & -> & Hw). destruct H1 as [H1|H1].
  - subst s. exists NoNeg, rt. split; [reflexivity|exact Hw].
  - apply m_class_sound in H1 as [->| ->]; [exists Bang, rt|exists En, rt]; (split; [reflexivity|exact Hw]).
Qed.

Lemma reE_sound s r : In r (reE s) -> exists t, s = render_term t ++ r /\ wf t = true.
Proof.
  unfold reE, m_alt. intros H. apply in_app_or in H as [H|H]; [|apply in_app_or in H as [H|H]].
  - apply m_lit_sound in H. exists TEven. split; [exact H|reflexivity].
  - apply m_lit_sound in H. exists TOdd. split; [exact H|reflexivity].
  - apply reNT_sound in H as (k & rt & -> & Hw). exists (TR k rt). split; [reflexivity|exact Hw].
Qed.

Lemma reG_sound s r : In r (reG s) -> exists t, s = cComma :: render_term t ++ r /\ wf t = true.
Proof.
  unfold reG, m_cat. intros H. apply in_flat_map in H as (mid & H1 & H2).
  apply m_lit_sound in H1. subst s. apply reE_sound in H2 as (t & -> & Hw).
  exists t. split; [reflexivity|exact Hw].
Qed.

Lemma star_sound k : forall s, (length s <= k)%nat -> hd false (star_tab reG s) = true ->
  exists e, forallb wf e = true /\ s = crep e.
Proof.
  induction k as [|k IH]; intros s Hl H.
  - destruct s; [|cbn in Hl; lia]. exists []. split; reflexivity.
  - destruct s as [|c r1]; [exists []; split; reflexivity|].
    cbn [star_tab hd] in H. apply existsb_exists in H as (rem & Hin & Hc).
    apply andb_true_iff in Hc as [_ Hn].
    apply reG_sound in Hin as (t & Heq & Hw). inversion Heq. subst c r1.
    rewrite star_tab_nth in Hn.
    destruct (IH rem) as (e & He & ->); [cbn [length] in Hl; rewrite app_length in Hl; lia|exact Hn|].
    exists (t :: e). split; [cbn [forallb]; rewrite Hw, He; reflexivity|reflexivity].
Qed.

Lemma re_match_sound s : re_match s = true ->
  exists e, e <> [] /\ forallb wf e = true /\ s = render e.
Proof.
  unfold re_match. intros H. apply existsb_exists in H as (r & Hin & Hn).
  apply reE_sound in Hin as (t & -> & Hw). rewrite star_tab_nth in Hn.
  destruct (star_sound (length r) r (le_n _) Hn) as (e & He & ->).
  exists (t :: e). split; [discriminate|]. split; [cbn [forallb]; rewrite Hw, He; reflexivity|].
  symmetry. apply render_crep.
Qed.

Lemma render_nonempty e : e <> [] -> forallb wf e = true -> render e <> [].
Proof.
  intros Hne Hwf E. pose proof (split_render e Hne Hwf) as Hs. rewrite E in Hs.
  destruct e as [|t e]; [contradiction|]. cbn in Hs. destruct e; [|discriminate].
  cbn [forallb] in Hwf. apply andb_true_iff in Hwf as [Ht _].
  inversion Hs as [Hs']. destruct t as [| |k r]; try discriminate.
  cbn [wf] in Ht. destruct (render_r_head r Ht) as (c & w & Hr & _).
  destruct k; cbn [render_term] in Hs'; [rewrite Hr in Hs'|..]; discriminate.
Qed.

Lemma parse_complete e : e <> [] -> forallb wf e = true ->
  ParsePageSelection (render e) = Some (map render_term e).
Proof.
  intros Hne Hwf. unfold ParsePageSelection.
  pose proof (render_nonempty e Hne Hwf) as Hn.
  destruct (render e) eqn:E; [contradiction|]. rewrite <- E.
  rewrite (re_match_complete e Hne Hwf), (split_render e Hne Hwf). reflexivity.
Qed.

(* ------------------------------------------------------------ the recogniser is exactly the syntax *)
Lemma is_nil_true (a : str) : is_nil a = true -> a = [].
Proof. destruct a; [reflexivity|discriminate]. Qed.
Lemma num_not_nil a : is_num a = true -> is_nil a = false.
Proof. destruct a; [discriminate|reflexivity]. Qed.
Lemma is_num_sL : is_num sL = false. Proof. reflexivity. Qed.
Lemma is_nil_sL : is_nil sL = false. Proof. reflexivity. Qed.
Lemma is_num_nil : is_num [] = false. Proof. reflexivity. Qed.
Lemma is_nil_nil : is_nil (@nil N) = true. Proof. reflexivity. Qed.
Lemma str_eqb_sL : str_eqb sL sL = true. Proof. reflexivity. Qed.
Lemma str_eqb_nil_sL : str_eqb [] sL = false. Proof. reflexivity. Qed.

Lemma split1 a : is_num a = true -> split_on cMinus a = [a].
Proof. intros H. apply split_on_none, num_nodash, H. Qed.
Lemma split_nil_dash w : split_on cMinus (cMinus :: w) = [] :: split_on cMinus w.
Proof. apply (split_on_app cMinus [] w eq_refl). Qed.
Lemma split_l_dash w : split_on cMinus (cL :: cMinus :: w) = sL :: split_on cMinus w.
Proof. apply (split_on_app cMinus [cL] w eq_refl). Qed.
Lemma split_num_dash a w : is_num a = true -> split_on cMinus (a ++ cMinus :: w) = a :: split_on cMinus w.
Proof. intros H. apply split_on_app, num_nodash, H. Qed.
Lemma split_l : split_on cMinus [cL] = [sL]. Proof. reflexivity. Qed.
Lemma split_nil : split_on cMinus [] = [[]]. Proof. reflexivity. Qed.

Ltac facts :=
  repeat first
    [ rewrite is_num_sL | rewrite is_nil_sL | rewrite is_num_nil | rewrite is_nil_nil
    | rewrite str_eqb_sL | rewrite str_eqb_nil_sL
    | match goal with H : is_num ?a = true |- _ => first [rewrite H | rewrite (num_not_nil a H) | rewrite (num_not_l a H)] end
    | progress cbv iota | progress cbn [andb] ].

Lemma parse_rterm_complete r : wf_r r = true -> parse_rterm (render_r r) = Some r.
Proof.
  intros Hwf. unfold parse_rterm.
  destruct r as [a|a|a|a b| |a|a| |a|a|a b]; cbn [wf_r] in Hwf; cbn [render_r];
    try (apply andb_true_iff in Hwf as [Hwf Hb]).
  - rewrite (split1 a Hwf). facts. reflexivity.
  - rewrite split_nil_dash, (split1 a Hwf). facts. reflexivity.
  - rewrite (split_num_dash a [] Hwf), split_nil. facts. reflexivity.
  - rewrite (split_num_dash a b Hwf), (split1 b Hb). facts. reflexivity.
  - rewrite split_l. facts. reflexivity.
  - rewrite split_l_dash, (split1 a Hwf). facts. reflexivity.
  - rewrite split_l_dash, (split_num_dash a [] Hwf), split_nil. facts. reflexivity.
  - rewrite split_nil_dash, split_l. facts. reflexivity.
  - rewrite split_nil_dash, split_l_dash, (split1 a Hwf). facts. reflexivity.
  - change (a ++ [cMinus; cL]) with (a ++ cMinus :: [cL]).
    rewrite (split_num_dash a [cL] Hwf), split_l. facts. reflexivity.
  - rewrite (split_num_dash a _ Hwf), split_l_dash, (split1 b Hb). facts. reflexivity.
Qed.

Lemma parse_term_complete t : wf t = true -> parse_term (render_term t) = Some t.
Proof.
  intros Hwf. destruct t as [| |k r]; [reflexivity|reflexivity|]. cbn [wf] in Hwf.
  destruct (render_r_head r Hwf) as (c & w & Hr & H1 & H2 & H3).
  unfold negation in H3. apply orb_false_iff in H3 as [H3 H4].
  pose proof (parse_rterm_complete r Hwf) as Hp.
  unfold parse_term. destruct k; cbn [render_term].
  - rewrite Hr in *. cbn [str_eqb sEven sOdd]. rewrite H1, H2, H3, H4. cbn [andb]. rewrite Hp. reflexivity.
  - change (str_eqb (cBang :: render_r r) sEven) with false.
    change (str_eqb (cBang :: render_r r) sOdd) with false. cbv iota.
    rewrite N.eqb_refl, Hp. reflexivity.
  - change (str_eqb (cN :: render_r r) sEven) with false.
    change (str_eqb (cN :: render_r r) sOdd) with false. cbv iota.
    change (N.eqb cN cBang) with false. rewrite N.eqb_refl, Hp. reflexivity.
Qed.

Lemma in_syntax_complete e : e <> [] -> forallb wf e = true -> in_syntax (render e) = true.
Proof.
  intros Hne Hwf. unfold in_syntax. pose proof (render_nonempty e Hne Hwf) as Hn.
  destruct (render e) eqn:E; [contradiction|]. rewrite <- E. rewrite (split_render e Hne Hwf).
  rewrite forallb_forall in *. intros x Hx. apply in_map_iff in Hx as (t & <- & Ht).
  rewrite (parse_term_complete t (Hwf t Ht)). reflexivity.
Qed.

Ltac cleanup :=
  repeat match goal with
    | H : is_nil ?a = true |- _ => apply is_nil_true in H; subst a
    | H : str_eqb ?a sL = true |- _ => apply str_eqb_eq in H; subst a
    | H : (_ && _) = true |- _ => apply andb_true_iff in H as [? ?]
    end.

Lemma parse_rterm_sound v r : parse_rterm v = Some r -> wf_r r = true /\ render_r r = v.
Proof.
  unfold parse_rterm. pose proof (join_split cMinus v) as J.
  destruct (split_on cMinus v) as [|a [|b [|c [|d l]]]]; try discriminate; cbn [join] in J; subst v;
    repeat match goal with |- context [if ?c then _ else _] => destruct c eqn:? end; try discriminate;
    intros H; inversion H; subst r; clear H; cleanup; cbn [wf_r];
    (split; [repeat match goal with H : is_num _ = true |- _ => rewrite H; clear H end; reflexivity
            | rewrite ?app_nil_r; reflexivity]).
Qed.

Lemma parse_term_sound tok t : parse_term tok = Some t -> wf t = true /\ render_term t = tok.
Proof.
  unfold parse_term.
  destruct (str_eqb tok sEven) eqn:E1.
  { intros H. inversion H. apply str_eqb_eq in E1. subst. split; reflexivity. }
  destruct (str_eqb tok sOdd) eqn:E2.
  { intros H. inversion H. apply str_eqb_eq in E2. subst. split; reflexivity. }
  destruct tok as [|c rest]; [discriminate|].
  destruct (N.eqb c cBang) eqn:E3.
  { apply N.eqb_eq in E3. subst c. destruct (parse_rterm rest) eqn:Ep; [|discriminate].
    intros H. inversion H. subst t. destruct (parse_rterm_sound rest r Ep) as [Hw Hr].
    split; [exact Hw|]. cbn [render_term]. rewrite Hr. reflexivity. }
  destruct (N.eqb c cN) eqn:E4.
  { apply N.eqb_eq in E4. subst c. destruct (parse_rterm rest) eqn:Ep; [|discriminate].
    intros H. inversion H. subst t. destruct (parse_rterm_sound rest r Ep) as [Hw Hr].
    split; [exact Hw|]. cbn [render_term]. rewrite Hr. reflexivity. }
  destruct (parse_rterm (c :: rest)) eqn:Ep; [|discriminate].
  intros H. inversion H. subst t. destruct (parse_rterm_sound (c :: rest) r Ep) as [Hw Hr].
  split; [exact Hw|]. exact Hr.
Qed.

Lemma parse_all_sound l : forallb (fun t => is_some (parse_term t)) l = true ->
  exists e, forallb wf e = true /\ map render_term e = l.
Proof.
  induction l as [|x l IH]; intros H.
  - exists []. split; reflexivity.
  - cbn [forallb] in H. apply andb_true_iff in H as [Hx Hl].
    destruct (IH Hl) as (e & He & Hm).
    destruct (parse_term x) as [t|] eqn:Ep; [|discriminate].
    destruct (parse_term_sound x t Ep) as [Hw Hr].
    exists (t :: e). split; [cbn [forallb]; rewrite Hw, He; reflexivity|].
    cbn [map]. rewrite Hr, Hm. reflexivity.
Qed.

Lemma in_syntax_sound s : in_syntax s = true ->
  exists e, e <> [] /\ forallb wf e = true /\ render e = s.
Proof.
  unfold in_syntax. destruct s as [|c s]; [discriminate|]. intros H.
  destruct (parse_all_sound _ H) as (e & He & Hm).
  exists e. split; [|split; [exact He|]].
  - intros ->. cbn [map] in Hm. symmetry in Hm. exact (split_on_nonempty cComma (c :: s) Hm).
  - unfold render. rewrite Hm. apply join_split.
Qed.

Lemma in_syntax_exact s :
  in_syntax s = true <-> exists e, e <> [] /\ forallb wf e = true /\ render e = s.
Proof.
  split; [apply in_syntax_sound|]. intros (e & Hne & Hwf & <-). apply in_syntax_complete; assumption.
Qed.
