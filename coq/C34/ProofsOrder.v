(* C34: getBookletPageOrdering / getBookletOrdering (plain and multi-folio) and the n-up slot sequence. *)
From PV Require Import Lib.GoInt Lib.GoIntFacts C34.Generated C34.Model C34.ProofsBase C34.ProofsPos C34.ProofsPos2.
From Coq Require Import Lia ZifyBool Permutation.
Open Scope Z_scope.
Ltac Zify.zify_post_hook ::= Z.to_euclidean_division_equations.

(* the configurations api.Booklet accepts (validateBookletLayout): N in {2,4,6,8}, a defined booklet type;
   binding, page orientation and fold are unconstrained *)
Definition accepted (N bt : Z) : Prop := (N = 2 \/ N = 4 \/ N = 6 \/ N = 8) /\ (bt = 0 \/ bt = 1 \/ bt = 2).

Definition idxFn (N bt bd : Z) (ls tf : bool) : Z -> Z -> Z :=
  if bt =? 2 then pPB N ls
  else if N =? 2 then p2 else if N =? 4 then p4 bt ls tf else if N =? 6 then pLRTB 6
  else if bd =? 1 then pLRTB 8 else p8.

Lemma select_ok IW N bt bd ls tf : accepted N bt ->
  exists f, selectFn IW N bt bd ls tf = Some f /\
    forall n i pages, fits IW n -> n mod (2 * N) = 0 -> 0 <= i < n ->
      fst (f i n pages) = getPage pages (idxFn N bt bd ls tf n i).
Proof.
  intros (HN & Hbt). unfold selectFn, idxFn.
  destruct Hbt as [-> | [-> | ->]]; cbn [Z.eqb Pos.eqb orb];
  destruct HN as [-> | [-> | [-> | ->]]]; cbn [Z.eqb Pos.eqb orb];
  try (destruct (Z.eqb_spec bd 1) as [Ebd|Ebd]);
  eexists; (split; [reflexivity|]); intros n i pages Hf Hn Hi; cbv beta;
  first [ apply nup2_idx; assumption
        | apply nup4_idx; (assumption || lia)
        | apply nupLRTB_idx; (assumption || lia)
        | apply nup8_idx; (assumption || lia)
        | apply nupPB_idx; (assumption || lia) ].
Qed.

Lemma idxFn_range N bt bd ls tf n i : accepted N bt -> n mod (2 * N) = 0 -> 0 <= i < n ->
  0 <= idxFn N bt bd ls tf n i < n.
Proof.
  intros (HN & Hbt) Hn Hi. unfold idxFn.
  destruct (Z.eqb_spec bt 2); [apply pPB_range; assumption|].
  destruct HN as [-> | [-> | [-> | ->]]]; cbn [Z.eqb Pos.eqb]; try (destruct (Z.eqb_spec bd 1) as [Ebd|Ebd]);
  first [apply p8_range | apply p2_range | apply p4_range | apply pLRTB6_range | apply pLRTB8_range]; (assumption || lia).
Qed.

Lemma idxFn_inj N bt bd ls tf n i j : accepted N bt -> n mod (2 * N) = 0 -> 0 <= i < n -> 0 <= j < n ->
  idxFn N bt bd ls tf n i = idxFn N bt bd ls tf n j -> i = j.
Proof.
  intros (HN & Hbt) Hn Hi Hj. unfold idxFn.
  destruct (Z.eqb_spec bt 2); [apply pPB_inj; assumption|].
  destruct HN as [-> | [-> | [-> | ->]]]; cbn [Z.eqb Pos.eqb]; try (destruct (Z.eqb_spec bd 1) as [Ebd|Ebd]);
  first [apply p8_inj | apply p2_inj | apply p4_inj | apply pLRTB6_inj | apply pLRTB8_inj]; (assumption || lia).
Qed.

(* one signature: n slots, n a whole number of sheets, at most n pages *)
Lemma pageOrdering_ok IW N bt bd ls tf pages n : accepted N bt -> fits IW n -> n mod (2 * N) = 0 ->
  slice_len pages <= n ->
  exists slots, getBookletPageOrdering IW N bt bd ls tf pages n = Ok slots /\
    Z.of_nat (length slots) = n /\
    Permutation (map fst slots) (pages ++ repeat 0 (Z.to_nat (n - slice_len pages))).
Proof.
  intros Hacc Hf Hn Hlen. destruct (select_ok IW N bt bd ls tf Hacc) as (f & Hsel & Hidx).
  unfold getBookletPageOrdering. rewrite Hsel.
  assert (H0 : 0 <= n) by (destruct Hf as (_ & H & _); exact H).
  destruct (Z.ltb_spec n 0); [lia|].
  eexists. split; [reflexivity|]. split.
  - rewrite map_length, zrange_length. lia.
  - rewrite map_map.
    rewrite (map_ext_in _ (fun i => getPage pages (idxFn N bt bd ls tf n i))).
    + apply placed_perm; [assumption| |].
      * intros i Hi. apply idxFn_range; assumption.
      * intros i j Hi Hj. apply idxFn_inj; assumption.
    + intros i Hi. apply zrange_in in Hi. apply Hidx; assumption.
Qed.

(* ---- padding *)
Lemma padTo_spec k m : 0 <= k -> 0 < m -> padTo k m mod m = 0 /\ k <= padTo k m < k + m.
Proof.
  intros Hk Hm. unfold padTo. rewrite Z.rem_mod_nonneg by lia.
  pose proof (Z.mod_pos_bound k m Hm) as Hr. pose proof (Z.div_mod k m ltac:(lia)) as Hd.
  destruct (Z.eqb_spec (k mod m) 0) as [E|E]; [split; [exact E|lia]|].
  split; [|lia].
  replace (k + (m - k mod m)) with ((k / m + 1) * m) by lia. apply Z.mod_mul. lia.
Qed.

Lemma slice_len_nonneg l : 0 <= slice_len l.
Proof. unfold slice_len. lia. Qed.

(* ---- plain booklet *)
Lemma ordering_plain IW N bt bd ls tf folio pages : accepted N bt -> fits IW (slice_len pages + 2 * N) ->
  exists slots, getBookletOrdering IW N bt bd ls tf false folio pages = Ok slots /\
    Z.of_nat (length slots) = padTo (slice_len pages) (2 * N) /\
    Permutation (map fst slots) (pages ++ repeat 0 (Z.to_nat (padTo (slice_len pages) (2 * N) - slice_len pages))).
Proof.
  intros Hacc Hf. pose proof Hacc as (HN & _). pose proof (slice_len_nonneg pages) as Hk.
  assert (H2N : 0 < 2 * N) by lia.
  destruct (padTo_spec (slice_len pages) (2 * N) Hk H2N) as (Hmod & Hrange).
  unfold getBookletOrdering. destruct (Z.leb_spec (2 * N) 0); [lia|].
  apply pageOrdering_ok; try assumption; [|lia].
  destruct Hf as (Hw & Hn & Hb). unfold fits. lia.
Qed.

(* ---- multi-folio, signatures that are whole sheets: (4 * folio) mod (2 * N) = 0 *)
Lemma firstn_skipn_add (A : Type) (a b : nat) (l : list A) : firstn a l ++ firstn b (skipn a l) = firstn (a + b) l.
Proof.
  revert l. induction a as [|a IH]; intros l; [reflexivity|].
  destruct l as [|x l]; cbn [firstn skipn plus app]; [destruct b; reflexivity|]. f_equal. apply IH.
Qed.

Lemma slice_len_firstn_skipn pages (a b : Z) : 0 <= a -> 0 <= b -> a + b <= slice_len pages ->
  slice_len (firstn (Z.to_nat b) (skipn (Z.to_nat a) pages)) = b.
Proof.
  intros Ha Hb Hab. unfold slice_len in *. rewrite firstn_length, skipn_length. lia.
Qed.

Section MultiFolio.
  Variables (IW N bt bd : Z) (ls tf : bool) (pages : list Z) (P : Z).
  Hypothesis Hacc : accepted N bt.
  Let k := slice_len pages.
  Let step := folioStep IW N bt bd ls tf pages P.

  (* a full signature of m slots holding the m pages j*m .. (j+1)*m-1 *)
  Lemma step_full m acc j : fits IW m -> m mod (2 * N) = 0 -> 0 < m -> 0 <= j -> (j + 1) * m <= k ->
    exists bp, step (Ok (m, acc)) j = Ok (m, acc ++ bp) /\ Z.of_nat (length bp) = m /\
      Permutation (map fst bp) (firstn (Z.to_nat m) (skipn (Z.to_nat (j * m)) pages)).
  Proof.
    intros Hf Hm Hpos Hj Hstop. unfold step, folioStep. fold k.
    destruct (Z.gtb_spec ((j + 1) * m) k) as [Hgt|Hle]; [lia|].
    unfold sliceOf. fold k.
    assert (Hjm : 0 <= j * m) by nia.
    destruct (Z.leb_spec 0 (j * m)); [|lia].
    destruct (Z.leb_spec (j * m) ((j + 1) * m)); [|nia].
    destruct (Z.leb_spec ((j + 1) * m) k); [|lia]. cbn [andb].
    replace ((j + 1) * m - j * m) with m by nia.
    set (sl := firstn (Z.to_nat m) (skipn (Z.to_nat (j * m)) pages)).
    assert (Hsl : slice_len sl = m) by (apply slice_len_firstn_skipn; fold k; nia).
    destruct (pageOrdering_ok IW N bt bd ls tf sl m Hacc Hf Hm ltac:(lia)) as (bp & Hbp & Hlen & Hperm).
    rewrite Hbp. exists bp. split; [reflexivity|]. split; [assumption|].
    rewrite Hsl, Z.sub_diag in Hperm. cbn [Z.to_nat repeat] in Hperm. rewrite app_nil_r in Hperm. exact Hperm.
  Qed.

  (* the last, short signature: the remaining pages on P - j*m slots *)
  Lemma step_last m acc j : fits IW (P - j * m) -> (P - j * m) mod (2 * N) = 0 -> 0 <= j -> 0 < m ->
    j * m <= k -> k < (j + 1) * m -> k <= P ->
    exists bp, step (Ok (m, acc)) j = Ok (P - j * m, acc ++ bp) /\ Z.of_nat (length bp) = P - j * m /\
      Permutation (map fst bp) (skipn (Z.to_nat (j * m)) pages ++ repeat 0 (Z.to_nat (P - k))).
  Proof.
    intros Hf Hm Hj Hpos Hstart Hstop HkP. unfold step, folioStep. fold k.
    destruct (Z.gtb_spec ((j + 1) * m) k) as [Hgt|Hle]; [|lia].
    unfold sliceOf. fold k.
    assert (Hjm : 0 <= j * m) by nia.
    destruct (Z.leb_spec 0 (j * m)); [|lia].
    destruct (Z.leb_spec (j * m) k); [|lia].
    destruct (Z.leb_spec k k); [|lia]. cbn [andb].
    set (sl := firstn (Z.to_nat (k - j * m)) (skipn (Z.to_nat (j * m)) pages)).
    assert (Hsl : slice_len sl = k - j * m) by (apply slice_len_firstn_skipn; fold k; lia).
    assert (Hsl2 : sl = skipn (Z.to_nat (j * m)) pages).
    { unfold sl. apply firstn_all2. rewrite skipn_length. unfold k, slice_len. lia. }
    destruct (pageOrdering_ok IW N bt bd ls tf sl (P - j * m) Hacc Hf Hm ltac:(lia)) as (bp & Hbp & Hlen & Hperm).
    rewrite Hbp. exists bp. split; [reflexivity|]. split; [assumption|].
    rewrite Hsl in Hperm. replace (P - j * m - (k - j * m)) with (P - k) in Hperm by lia.
    rewrite Hsl2 in Hperm. exact Hperm.
  Qed.

  (* t full signatures *)
  Lemma loop_full m (t : nat) : fits IW m -> m mod (2 * N) = 0 -> 0 < m -> Z.of_nat t * m <= k ->
    exists acc, fold_left step (zrange (Z.of_nat t)) (Ok (m, [])) = Ok (m, acc) /\
      Z.of_nat (length acc) = Z.of_nat t * m /\
      Permutation (map fst acc) (firstn (Z.to_nat (Z.of_nat t * m)) pages).
  Proof.
    intros Hf Hm Hpos. induction t as [|t IH]; intros Hk.
    - exists []. split; [reflexivity|]. split; [reflexivity|]. cbn. constructor.
    - destruct IH as (acc & Hfold & Hlen & Hperm); [nia|].
      rewrite Nat2Z.inj_succ. unfold Z.succ. rewrite zrange_app by lia.
      change (zrange 1) with [0]. cbn [map]. rewrite Z.add_0_r.
      rewrite fold_left_app, Hfold. cbn [fold_left].
      destruct (step_full m acc (Z.of_nat t) Hf Hm Hpos ltac:(lia) ltac:(nia)) as (bp & Hstep & Hlb & Hpb).
      rewrite Hstep. exists (acc ++ bp). split; [reflexivity|]. split.
      + rewrite app_length, Nat2Z.inj_add. nia.
      + rewrite map_app.
        replace (Z.to_nat ((Z.of_nat t + 1) * m)) with (Z.to_nat (Z.of_nat t * m) + Z.to_nat m)%nat by nia.
        rewrite <- firstn_skipn_add. apply Permutation_app; assumption.
  Qed.
End MultiFolio.

Lemma ceilDiv_spec a b : 0 < a -> 0 < b -> 1 <= ceilDiv a b /\ (ceilDiv a b - 1) * b < a <= ceilDiv a b * b.
Proof. intros Ha Hb. unfold ceilDiv. nia. Qed.

Lemma ordering_multifolio IW N bt bd ls tf folio pages : accepted N bt -> 1 <= folio ->
  (4 * folio) mod (2 * N) = 0 -> 1 <= slice_len pages -> fits IW (slice_len pages + 2 * N) ->
  exists slots, getBookletOrdering IW N bt bd ls tf true folio pages = Ok slots /\
    Z.of_nat (length slots) = padTo (slice_len pages) (2 * N) /\
    Permutation (map fst slots) (pages ++ repeat 0 (Z.to_nat (padTo (slice_len pages) (2 * N) - slice_len pages))).
Proof.
  intros Hacc Hfo Hgood Hk1 Hf. pose proof Hacc as (HN & _).
  set (k := slice_len pages) in *. assert (H2N : 0 < 2 * N) by lia.
  destruct (padTo_spec k (2 * N) ltac:(lia) H2N) as (Hmod & Hrange).
  unfold getBookletOrdering. fold k. destruct (Z.leb_spec (2 * N) 0); [lia|].
  set (P := padTo k (2 * N)) in *. replace (folio * 4) with (4 * folio) by lia.
  set (m := 4 * folio) in *. destruct (Z.leb_spec m 0); [lia|].
  destruct (ceilDiv_spec P m ltac:(lia) ltac:(lia)) as (Hs1 & Hs2 & Hs3).
  set (nSig := ceilDiv P m) in *.
  set (t := nSig - 1) in *.
  (* t*m is a multiple of the sheet, below P, hence below k *)
  assert (Htm : (t * m) mod (2 * N) = 0).
  { apply Z.mod_divide in Hgood; [|lia]. destruct Hgood as (c & Hc). rewrite Hc.
    replace (t * (c * (2 * N))) with ((t * c) * (2 * N)) by lia. apply Z.mod_mul. lia. }
  assert (Htk : t * m < k) by lia.
  destruct Hf as (Hw & Hn & Hb).
  assert (Hfm : forall x, 0 <= x <= P -> fits IW x) by (intros x Hx; unfold fits; lia).
  replace nSig with (t + 1) by (unfold t; lia).
  rewrite zrange_app by lia. change (zrange 1) with [0]. cbn [map]. rewrite Z.add_0_r.
  rewrite fold_left_app. cbn [fold_left].
  destruct (Z.le_gt_cases m k) as [Hmk|Hmk].
  - (* at least one full signature may exist *)
    destruct (loop_full IW N bt bd ls tf pages P Hacc m (Z.to_nat t) (Hfm m ltac:(lia)) Hgood ltac:(lia) ltac:(fold k; lia))
      as (acc & Hfold & Hlen & Hperm).
    rewrite Z2Nat.id in Hfold, Hlen, Hperm by lia. rewrite Hfold.
    destruct (Z.le_gt_cases ((t + 1) * m) k) as [Hfull|Hshort].
    + (* the last signature is full: k = P = nSig * m *)
      assert (HkP : k = (t + 1) * m) by (unfold t in *; lia).
      destruct (step_full IW N bt bd ls tf pages P Hacc m acc t (Hfm m ltac:(lia)) Hgood ltac:(lia) ltac:(lia) ltac:(fold k; lia))
        as (bp & Hstep & Hlb & Hpb).
      rewrite Hstep. exists (acc ++ bp). split; [reflexivity|]. split.
      * rewrite app_length, Nat2Z.inj_add. unfold t in *. lia.
      * replace (P - k) with 0 by (unfold t in *; lia). cbn [Z.to_nat repeat]. rewrite app_nil_r.
        rewrite map_app, Hperm, Hpb.
        rewrite (firstn_all2 (n := Z.to_nat m)) by (rewrite skipn_length; unfold k, slice_len in *; nia).
        rewrite firstn_skipn. reflexivity.
    + destruct (step_last IW N bt bd ls tf pages P Hacc m acc t (Hfm (P - t * m) ltac:(nia)) ltac:(lia) ltac:(lia) ltac:(lia)
                  ltac:(fold k; lia) ltac:(fold k; lia) ltac:(fold k; lia)) as (bp & Hstep & Hlb & Hpb).
      rewrite Hstep. exists (acc ++ bp). split; [reflexivity|]. split.
      * rewrite app_length, Nat2Z.inj_add. lia.
      * rewrite map_app, Hperm, Hpb. rewrite app_assoc, firstn_skipn. reflexivity.
  - (* a single, short signature *)
    assert (Ht0 : t = 0) by nia. rewrite Ht0 in *. change (zrange 0) with (@nil Z). cbn [fold_left].
    destruct (step_last IW N bt bd ls tf pages P Hacc m [] 0 (Hfm (P - 0 * m) ltac:(lia)) ltac:(rewrite Z.mul_0_l, Z.sub_0_r; assumption)
                ltac:(lia) ltac:(lia) ltac:(fold k; lia) ltac:(fold k; lia) ltac:(fold k; lia)) as (bp & Hstep & Hlb & Hpb).
    rewrite Hstep. exists bp. split; [reflexivity|]. split; [lia|].
    fold k in Hpb. cbn [Z.mul Z.to_nat skipn] in Hpb. exact Hpb.
Qed.
