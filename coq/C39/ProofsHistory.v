(* C39 — root handling, histories, rename mode, panics, sub-nodes. *)
From Coq Require Import List NArith Bool Lia PeanoNat FinFun.
From PV Require Import C39.Model C39.ProofsOrder C39.Proofs C39.ProofsRemove.
Import ListNotations.

(* The invariant of a whole tree: well-formed, or an empty root leaf (whose limits are stale). *)
Definition Inv (t : node) : Prop := wf t \/ exists a b, t = Leaf [] a b.

Lemma inv_empty : Inv empty_tree.
Proof. right. exists [], []. reflexivity. Qed.

Lemma add_inv t k v : Inv t ->
  Inv (tadd false t k v) /\ entries (tadd false t k v) = m_add k v (entries t).
Proof.
  intros [Hw|(a & b & ->)].
  - destruct (add_ok t k v Hw) as (H1 & H2 & _). split; [left; exact H1|exact H2].
  - cbn. split; [|reflexivity]. left. cbn. unfold leaf_wf. cbn. repeat split; auto. discriminate.
Qed.

(* Remove on an empty root leaf (len(n.Names) == 0) is a no-op that reports (false, false) *)
Lemma remove_empty_leaf a b k : tremove (Leaf [] a b) k = R (Leaf [] a b) false false.
Proof. reflexivity. Qed.

(* Remove never panics, on ANY tree (well-formed or not) *)
Lemma remove_leaf_total ns a b k : remove_leaf ns a b k <> RPanic.
Proof.
  unfold remove_leaf. destruct ns as [|e1 r0]; [discriminate|].
  unfold remove_leaf_names. destruct (kltb k a || kltb b k); [discriminate|].
  destruct r0 as [|e2 r]; [discriminate|].
  destruct (keqb k a); [destruct e2; discriminate|].
  destruct (keqb k b).
  - cbv zeta. change (removelast (e1 :: e2 :: r)) with (e1 :: removelast (e2 :: r)). discriminate.
  - destruct (rm_names (e1 :: e2 :: r) k); discriminate.
Qed.

Lemma remove_kids_total k l : Forall (fun c => forall k, tremove c k <> RPanic) l -> remove_kids k l <> KPanic.
Proof.
  induction l as [|c r IH]; intros HF; [discriminate|]. inversion HF as [|? ? Hc HFr]; subst.
  change (remove_kids k (c :: r)) with
    (if within c k then
        match tremove c k with
        | RPanic => KPanic
        | R c' e ok => if ok then (if e then KDropped r else KKept (c' :: r)) else KFail (c' :: r)
        end
      else match remove_kids k r with
           | KNone => KNone
           | KPanic => KPanic
           | KFail l' => KFail (c :: l')
           | KKept l' => KKept (c :: l')
           | KDropped l' => KDropped (c :: l')
           end).
  destruct (within c k).
  - specialize (Hc k). destruct (tremove c k) as [|c' e ok]; [congruence|]. destruct ok; [destruct e|]; discriminate.
  - specialize (IH HFr). destruct (remove_kids k r); try discriminate. congruence.
Qed.

Lemma remove_total n : forall k, tremove n k <> RPanic.
Proof.
  induction n as [ns a b|kids a b IH] using node_ind'; intros k.
  - apply remove_leaf_total.
  - rewrite tremove_inner. pose proof (remove_kids_total k kids IH) as Hk.
    destruct (remove_kids k kids) as [| |l'|l'|l']; try discriminate; [congruence|].
    destruct l' as [|c1 [|c2 r]]; discriminate.
Qed.

Lemma remove_inv t k t' e ok : Inv t -> tremove t k = R t' e ok ->
  Inv t' /\ entries t' = m_remove k (entries t) /\ (ok = true <-> In k (keys t)) /\
  (ok = true -> (e = true <-> entries t' = [])).
Proof.
  intros [Hw|(a & b & ->)] E.
  - destruct (remove_ok t k Hw) as (n' & e' & ok' & E' & Hok & He & Hno & Hemp & Hwf).
    rewrite E in E'. inversion E'; subst n' e' ok'. clear E'.
    split; [|split; [exact He|split; [exact Hok|]]].
    + destruct e; [right; apply Hemp; reflexivity|left; apply Hwf; reflexivity].
    + intros _. destruct e.
      * destruct (Hemp eq_refl) as (a & b & ->). cbn. tauto.
      * split; [discriminate|]. intros En. destruct (wf_good t' (Hwf eq_refl)) as (Hne & _). contradiction.
  - rewrite remove_empty_leaf in E.
    inversion E; subst. split; [right; eauto|]. split; [reflexivity|]. split; [|discriminate].
    cbn. split; [discriminate|tauto].
Qed.

Lemma inv_sorted t : Inv t -> lsorted (keys t).
Proof. intros [Hw|(a & b & ->)]; [destruct (wf_good t Hw) as (_ & H & _); exact H|exact I]. Qed.

Lemma inv_value t k : Inv t -> tvalue t k = m_lookup k (entries t).
Proof.
  intros [Hw|(a & b & ->)]; [apply value_ok; exact Hw|].
  cbn. destruct (negb (within (Leaf [] a b) k)); reflexivity.
Qed.

(* ---- rename mode with a fresh key is the plain Add ---- *)
Lemma add_kids_rn_fresh k v l :
  Forall (fun c => m_lookup k (entries c) = None -> tadd true c k v = tadd false c k v) l ->
  m_lookup k (entries_kids l) = None -> add_kids true k v l = add_kids false k v l.
Proof.
  induction l as [|c r IH]; intros HF Hn; [reflexivity|].
  inversion HF as [|? ? Hc HFr]; subst. rewrite entries_kids_cons, m_lookup_app in Hn.
  destruct (m_lookup k (entries c)) eqn:Ec; [discriminate|].
  specialize (Hc eq_refl). specialize (IH HFr Hn).
  destruct r as [|c2 r'].
  - cbn. rewrite Hc. reflexivity.
  - change (add_kids true k v (c :: c2 :: r')) with
      (if kltb k (nmin c) || within c k then tadd true c k v :: c2 :: r' else c :: add_kids true k v (c2 :: r')).
    change (add_kids false k v (c :: c2 :: r')) with
      (if kltb k (nmin c) || within c k then tadd false c k v :: c2 :: r' else c :: add_kids false k v (c2 :: r')).
    rewrite Hc, IH. reflexivity.
Qed.

Lemma add_rn_fresh t k v : m_lookup k (entries t) = None -> tadd true t k v = tadd false t k v.
Proof.
  induction t as [ns a b|kids a b IH] using node_ind'; intros Hn.
  - cbn [tadd entries] in *. destruct ns as [|e ns']; [reflexivity|].
    rewrite !handle_leaf_ne by discriminate. cbn [ins_unique].
    pose proof (ins_spec (e :: ns') k v) as Hi. destruct (ins (e :: ns') k v) as [[l at_end]|]; [reflexivity|].
    destruct Hi as [_ Hin]. apply m_lookup_none in Hn. contradiction.
  - rewrite !tadd_inner. rewrite entries_inner in Hn. rewrite (add_kids_rn_fresh k v kids IH Hn). reflexivity.
Qed.

(* ---- histories ---- *)
Fixpoint rn_fresh (m : list entry) (ops : list op) : Prop :=
  match ops with
  | [] => True
  | o :: r => match o with OAddRn k _ => m_lookup k m = None | _ => True end /\ rn_fresh (spec_step m o) r
  end.

Lemma history_inv ops : forall t, Inv t -> rn_fresh (entries t) ops ->
  exists t', run ops t = Some t' /\ Inv t' /\ entries t' = spec_run ops (entries t).
Proof.
  induction ops as [|o r IH]; intros t Hi Hf.
  - exists t. split; [reflexivity|]. split; [exact Hi|reflexivity].
  - cbn [run]. destruct Hf as [Ho Hf]. unfold spec_run. cbn [fold_left]. fold (spec_run r (spec_step (entries t) o)).
    destruct o as [k v|k v|k]; cbn [step].
    + destruct (add_inv t k v Hi) as [Hi' He']. cbn [spec_step] in *. rewrite <- He' in *. exact (IH _ Hi' Hf).
    + rewrite (add_rn_fresh t k v Ho).
      destruct (add_inv t k v Hi) as [Hi' He']. cbn [spec_step] in *. rewrite <- He' in *. exact (IH _ Hi' Hf).
    + destruct (tremove t k) as [|t1 e ok] eqn:E; [exfalso; exact (remove_total t k E)|].
      destruct (remove_inv t k t1 e ok Hi E) as (Hi' & He' & _). cbn [spec_step] in *. rewrite <- He' in *.
      exact (IH _ Hi' Hf).
Qed.

(* the specification side keeps its list sorted, so m_lookup on it is a finite map (ProofsOrder) *)
Lemma spec_run_sorted ops : forall m, lsorted (ekeys m) -> lsorted (ekeys (spec_run ops m)).
Proof.
  induction ops as [|o r IH]; intros m Hs; [exact Hs|].
  unfold spec_run. cbn [fold_left]. apply IH. destruct o; cbn; [apply m_add_sorted|apply m_add_sorted|apply m_remove_sorted]; exact Hs.
Qed.

(* ---- every node of a well-formed tree is well-formed: limits are exact everywhere ---- *)
Inductive subnode : node -> node -> Prop :=
| sub_refl n : subnode n n
| sub_kid s c kids a b : In c kids -> subnode s c -> subnode s (Inner kids a b).

Lemma wf_kids_in l c : wf_kids l -> In c l -> wf c.
Proof. induction l as [|d l IH]; intros Hk Hin; [destruct Hin|]. destruct Hk as [Hd Hl]. destruct Hin as [->|Hin]; auto. Qed.

Lemma wf_subnode s n : subnode s n -> wf n -> wf s.
Proof.
  induction 1 as [n|s c kids a b Hin Hs IH]; intros Hw; [exact Hw|].
  apply IH. apply wf_inner in Hw. destruct Hw as (_ & Hk & _). exact (wf_kids_in kids c Hk Hin).
Qed.

Lemma limits_exact t s : Inv t -> subnode s t -> entries s <> [] ->
  lsorted (keys s) /\ nmin s = khd (keys s) /\ nmax s = klast (keys s).
Proof.
  intros [Hw|(a & b & ->)] Hs Hne.
  - destruct (wf_good s (wf_subnode s t Hs Hw)) as (_ & H1 & H2 & H3). auto.
  - inversion Hs; subst. cbn in Hne. congruence.
Qed.

(* ---- the unbounded Go loop in insertUniqueIntoLeaf: the model's fuel always suffices ---- *)
Fixpoint kpad (k : key) (j : nat) : key := match j with O => k | S j' => kpad (k ++ [1%N]) j' end.
Lemma kpad_length k j : length (kpad k j) = length k + j.
Proof. revert k. induction j as [|j IH]; intros k; cbn; [lia|]. rewrite IH, app_length. cbn. lia. Qed.

Lemma ins_unique_fuel f : forall rn ns k v, ins_unique f rn ns k v = IFuel ->
  forall j, j <= f -> In (kpad k j) (ekeys ns).
Proof.
  induction f as [|f IH]; intros rn ns k v H j Hj; cbn [ins_unique] in H;
    pose proof (ins_spec ns k v) as Hi; destruct (ins ns k v) as [[l e]|]; try discriminate;
    destruct Hi as [_ Hin]; destruct (negb rn); try discriminate.
  - assert (j = 0) by lia. subst j. exact Hin.
  - destruct j as [|j]; [exact Hin|]. cbn [kpad]. apply (IH _ _ _ _ H). lia.
Qed.

Lemma ins_unique_never_out_of_fuel rn ns k v : ins_unique (S (length ns)) rn ns k v <> IFuel.
Proof.
  assert (Hn : length (ekeys ns) = length ns) by apply map_length.
  remember (length ns) as n eqn:En. clear En.
  intros H. pose proof (ins_unique_fuel _ _ _ _ _ H) as Hin.
  set (l := map (kpad k) (seq 0 (S (S n)))).
  assert (Hnd : NoDup l).
  { unfold l. apply Injective_map_NoDup; [|apply seq_NoDup].
    intros x y E. apply (f_equal (@length N)) in E. rewrite !kpad_length in E. lia. }
  assert (Hincl : incl l (ekeys ns)).
  { intros x Hx. unfold l in Hx. apply in_map_iff in Hx. destruct Hx as (j & <- & Hj).
    apply in_seq in Hj. apply Hin. lia. }
  pose proof (NoDup_incl_length Hnd Hincl) as Hlen.
  unfold l in Hlen. rewrite map_length, seq_length, Hn in Hlen. lia.
Qed.

(* ---- witnesses (concrete runs of the model; the same inputs fail on the Go code) ---- *)
Definition kA : key := [97%N].
Definition kB : key := [98%N].
Definition kC : key := [99%N].

(* regression examples for the fixed defect: Remove("") on the empty tree is a no-op *)
Lemma remove_empty_key_on_empty_tree_ok : run [ORemove []] empty_tree = Some empty_tree.
Proof. reflexivity. Qed.
Lemma remove_after_last_key_ok : run [OAdd kA 1%N; ORemove kA; ORemove []] empty_tree = Some empty_tree.
Proof. vm_compute. reflexivity. Qed.

(* Add in rename mode: a,b,b,c,b leaves the key b\x01 twice in the tree *)
Definition rename_witness : list op :=
  [OAddRn kA 1%N; OAddRn kB 2%N; OAddRn kB 3%N; OAddRn kC 4%N; OAddRn kB 5%N].
Lemma rename_breaks_uniqueness :
  exists t, run rename_witness empty_tree = Some t /\ ~ NoDup (keys t) /\ ~ lsorted (keys t).
Proof.
  eexists. split; [vm_compute; reflexivity|]. split.
  - intros H. cbn in H. inversion H as [|? ? _ H1]; subst. inversion H1 as [|? ? _ H2]; subst.
    inversion H2 as [|? ? Hn _]; subst. apply Hn. left; reflexivity.
  - cbn. intros (_ & _ & H & _). vm_compute in H. discriminate.
Qed.

Lemma lsorted_NoDup l : lsorted l -> NoDup l.
Proof.
  induction l as [|a l IH]; intros Hs; constructor.
  - intros Hin. pose proof (lsorted_lb a l Hs a Hin). order.
  - apply IH. exact (lsorted_tail _ _ Hs).
Qed.

Lemma history_full ops t : Inv t -> rn_fresh (entries t) ops ->
  exists t', run ops t = Some t' /\ Inv t' /\ entries t' = spec_run ops (entries t) /\
             lsorted (keys t') /\ NoDup (keys t') /\
             (forall k, tvalue t' k = m_lookup k (spec_run ops (entries t))).
Proof.
  intros Hi Hf. destruct (history_inv ops t Hi Hf) as (t' & Hr & Hi' & He). exists t'.
  split; [exact Hr|]. split; [exact Hi'|]. split; [exact He|]. split; [apply inv_sorted; exact Hi'|].
  split; [apply lsorted_NoDup; apply inv_sorted; exact Hi'|].
  intros k. rewrite <- He. apply inv_value. exact Hi'.
Qed.

Lemma spec_is_map k v m k' : lsorted (ekeys m) ->
  lsorted (ekeys (m_add k v m)) /\ lsorted (ekeys (m_remove k m)) /\
  m_lookup k' (m_add k v m) =
    (if keqb k k' then match m_lookup k m with Some x => Some x | None => Some v end else m_lookup k' m) /\
  m_lookup k' (m_remove k m) = (if keqb k k' then None else m_lookup k' m).
Proof.
  intros Hs. split; [apply m_add_sorted; exact Hs|]. split; [apply m_remove_sorted; exact Hs|].
  split; [apply m_lookup_add; exact Hs|apply m_lookup_remove; exact Hs].
Qed.
