(* C16 glue: filter models (decode limits, bounded decoding, pipelines). *)
open Model
open Common

let errs = function
  | ELimit -> "limit" | EEOF -> "eof" | EUnexpEOF -> "unexpeof" | EOther -> "other" | EFuel -> "fuel"
let dres_s = function DOk l -> "ok:" ^ hex_of_bytes l | DErr e -> "err:" ^ errs e
let opt_bytes = function Some l -> "ok:" ^ hex_of_bytes l | None -> "err"
let status = function "eof" -> REof | "unexp" -> RUnexp | "err" -> RErr | s -> failwith ("status " ^ s)
let optz s = if s = "" then None else Some (z_of_hex s)
let parms_of pred colors bpc cols early =
  { p_pred = optz pred; p_colors = optz colors; p_bpc = optz bpc; p_cols = optz cols; p_early = optz early }
let stage_of = function
  | "AHx" -> ahx_stage | "RL" -> rl_stage | s -> failwith ("stage " ^ s)
let stages s = if s = "" then [] else List.map stage_of (String.split_on_char ',' s)

let dispatch fn args = match fn, args with
  | "decode_limit", [ml; mdb] -> hex_of_z (decode_limit (z_of_hex ml) (z_of_hex mdb))
  | "copy_decoded", [data; st; ml; mdb] ->
    (match copy_decoded (bytes_of_hex data, status st) (z_of_hex ml) (z_of_hex mdb) with
     | (b, None) -> "ok:" ^ hex_of_bytes b
     | (b, Some e) -> "err:" ^ errs e)
  | "ahx_decode", [bb; ml; mdb] -> dres_s (ahx_decode_length (bytes_of_hex bb) (z_of_hex ml) (z_of_hex mdb))
  | "ahx_encode", [bb] -> "ok:" ^ hex_of_bytes (ahx_encode (bytes_of_hex bb))
  | "rl_decode", [bb; ml; mdb] -> dres_s (rl_decode_length (bytes_of_hex bb) (z_of_hex ml) (z_of_hex mdb))
  | "rl_encode", [bb] -> opt_bytes (rl_encode (bytes_of_hex bb))
  | "detect", [b; l; cnt] -> string_of_int (int_of_nat (detect (n_of_hex b) (bytes_of_hex l) (nat_of_int (int_of_string cnt))))
  | "row_params", [p; c; b; cols] ->
    (match predictor_row_params (z_of_hex p) (z_of_hex c) (z_of_hex b) (z_of_hex cols) with
     | Some ((rs, rl), bpp) -> "ok:" ^ hex_of_z rs ^ "," ^ hex_of_z rl ^ "," ^ hex_of_z bpp
     | None -> "err")
  | "process_row", [p; colors; bpp; pdat; cr] ->
    opt_bytes (process_row (z_of_hex p) (nat_of_int (int_of_string colors)) (nat_of_int (int_of_string bpp))
                 (bytes_of_hex pdat) (bytes_of_hex cr))
  | "flate_post", [raw; st; pred; colors; bpc; cols; ml; mdb] ->
    dres_s (flate_post (parms_of pred colors bpc cols "") (bytes_of_hex raw, status st) (z_of_hex ml) (z_of_hex mdb))
  | "pipe_decode", [sts; raw; ml; mdb] ->
    dres_s (pipe_decode (stages sts) (bytes_of_hex raw) (z_of_hex ml) (z_of_hex mdb))
  | "pipe_encode", [sts; content] -> opt_bytes (pipe_encode (stages sts) (bytes_of_hex content))
  | "a85_frame", [bb] ->
    (* framing only: the base-85 decoder is external; the stub decoder returns its input *)
    (match a85_decode_length (fun x -> (x, REof)) (bytes_of_hex bb) (z_of_hex "-1") (z_of_hex "-1") with
     | DOk _ -> "ok" | DErr e -> "err:" ^ errs e)
  | _ -> failwith ("unknown function " ^ fn)
let () = main dispatch
