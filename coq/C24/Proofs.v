(* C24 — lemmas: the code model (Model.v) computes what the specification model (Spec.v) prescribes. *)
From Coq Require Import NArith ZArith List Bool Lia ZifyBool ZifyNat ZifyN.
Import ListNotations.
From PV Require Import C24.Prims C24.Model C24.Spec.
Open Scope N_scope.

(* ---- test vectors for the concrete primitives (RFC 1321 A.5, and the usual RC4 vector) ---- *)
Example md5_empty : md5 [] = [0xd4;0x1d;0x8c;0xd9;0x8f;0x00;0xb2;0x04;0xe9;0x80;0x09;0x98;0xec;0xf8;0x42;0x7e].
Proof. vm_compute. reflexivity. Qed.
Example md5_abc : md5 [97;98;99] = [0x90;0x01;0x50;0x98;0x3c;0xd2;0x4f;0xb0;0xd6;0x96;0x3f;0x7d;0x28;0xe1;0x7f;0x72].
Proof. vm_compute. reflexivity. Qed.
Example md5_80 : md5 (concat (repeat [49;50;51;52;53;54;55;56;57;48] 8))
  = [0x57;0xed;0xf4;0xa2;0x2b;0xe3;0xc9;0x55;0xac;0x49;0xda;0x2e;0x21;0x07;0xb6;0x7a].
Proof. vm_compute. reflexivity. Qed.
Example rc4_key_plaintext : rc4 [75;101;121] [80;108;97;105;110;116;101;120;116] = [0xBB;0xF3;0x16;0xE8;0xD9;0x40;0xAF;0x0A;0xD3].
Proof. vm_compute. reflexivity. Qed.

(* ---- generic ---- *)
Lemma beq_eq a b : beq a b = true <-> a = b.
Proof.
  revert b. induction a as [|x a IH]; intros [|y b]; cbn; split; intros H; try congruence; try reflexivity.
  - apply andb_true_iff in H. destruct H as [Hx Hab]. apply N.eqb_eq in Hx. apply IH in Hab. congruence.
  - inversion H; subst. apply andb_true_iff. split; [apply N.eqb_refl | apply IH; reflexivity].
Qed.

Lemma beq_sym a b : beq a b = beq b a.
Proof.
  revert b. induction a as [|x a IH]; intros [|y b]; cbn; try reflexivity.
  rewrite IH, N.eqb_sym. reflexivity.
Qed.

Lemma beq_length a b : length a <> length b -> beq a b = false.
Proof.
  intros H. destruct (beq a b) eqn:E; [|reflexivity]. apply beq_eq in E. subst. congruence.
Qed.

Lemma pad_same : pad = padding_string.
Proof. reflexivity. Qed.

Lemma length_pad : length padding_string = 32%nat.
Proof. reflexivity. Qed.

Lemma pad_pw_eq pw : c_pad_pw pw = pad_or_truncate pw.
Proof.
  unfold c_pad_pw, pad_or_truncate, take, len. rewrite pad_same, firstn_app.
  change (N.to_nat 32) with 32%nat.
  assert (Hc : 32 <= N.of_nat (length pw) \/ N.of_nat (length pw) < 32) by lia.
  destruct Hc as [E|E].
  - rewrite (proj2 (N.leb_le _ _) E).
    replace (32 - length pw)%nat with 0%nat by lia. cbn [firstn]. rewrite app_nil_r. reflexivity.
  - rewrite (proj2 (N.leb_gt _ _) E). rewrite (firstn_all2 (n:=32) pw) by lia. f_equal. f_equal. lia.
Qed.

Lemma length_pad_or_truncate pw : length (pad_or_truncate pw) = 32%nat.
Proof.
  unfold pad_or_truncate. rewrite firstn_length, app_length, length_pad. lia.
Qed.

Lemma p_bytes_eq p : c_p_bytes p = p_low_order_first p.
Proof.
  unfold c_p_bytes, p_low_order_first. change (2 ^ 32)%Z with 4294967296%Z.
  set (q := Z.to_N (p mod 4294967296)).
  change 255 with (N.ones 8). rewrite !N.land_ones, !N.shiftr_div_pow2.
  change (2 ^ 8) with 256. change (2 ^ 16) with 65536. change (2 ^ 24) with 16777216. reflexivity.
Qed.

Lemma rehash_times c n k : c_rehash c n k = times c (fun h => md5 (firstn (N.to_nat n) h)) k.
Proof. revert k. induction c as [|c IH]; intros k; cbn; [reflexivity|]. apply IH. Qed.

Lemma length_bytes_le32 w : length (bytes_le32 w) = 4%nat.
Proof. reflexivity. Qed.

Lemma length_md5 m : length (md5 m) = 16%nat.
Proof.
  unfold md5. destruct (md5_feed md5_init [] 0 (m ++ md5_padding (len m))) as [[st buf] n].
  destruct st as [[[a b] c] d]. rewrite !app_length, !length_bytes_le32. reflexivity.
Qed.

Lemma rehash16_times c k : length k = 16%nat -> c_rehash c 16 k = times c md5 k.
Proof.
  revert k. induction c as [|c IH]; intros k Hk; cbn; [reflexivity|].
  unfold take. change (N.to_nat 16) with 16%nat. rewrite firstn_all2 by lia.
  apply IH. apply length_md5.
Qed.

Lemma length_rc4_prga data : forall s i j, length (rc4_prga s i j data) = length data.
Proof. induction data as [|x r IH]; intros s i j; cbn; [reflexivity|]. rewrite IH. reflexivity. Qed.

Lemma length_rc4 key data : length (rc4 key data) = length data.
Proof. apply length_rc4_prga. Qed.

Lemma xor_key_eq key i : c_xor_key key i = key_xor key i.
Proof. unfold c_xor_key, key_xor. apply map_ext. intros b. apply N.lxor_comm. Qed.

Lemma fold_counters key cs : forall d,
  fold_left (fun acc i => rc4 (c_xor_key key i) acc) cs d = rc4_counters key cs d.
Proof. induction cs as [|c cs IH]; intros d; cbn; [reflexivity|]. rewrite IH, xor_key_eq. reflexivity. Qed.

Lemma rc4_19_eq key d : c_rc4_19 key d = rc4_counters key counters_1_19 d.
Proof. unfold c_rc4_19. change (map N.of_nat (seq 1 19)) with counters_1_19. apply fold_counters. Qed.

Lemma rc4_19_down_eq key d : c_rc4_19_down key d = rc4_counters key counters_19_0 d.
Proof. unfold c_rc4_19_down. change (rev (map N.of_nat (seq 0 20))) with counters_19_0. apply fold_counters. Qed.

Lemma length_rc4_counters key cs : forall d, length (rc4_counters key cs d) = length d.
Proof. induction cs as [|c cs IH]; intros d; cbn; [reflexivity|]. rewrite IH. apply length_rc4. Qed.

Definition rev234 (r : N) : Prop := r = 2 \/ r = 3 \/ r = 4.

(* ---- Algorithm 2 ---- *)
Lemma encKey_eq userpw e : rev234 (eR e) ->
  c_encKey userpw e = alg2 userpw (eO e) (eP e) (eID e) (eR e) (eL e) (eEmd e).
Proof.
  intros HR. unfold c_encKey, alg2, key_bytes. rewrite pad_pw_eq, p_bytes_eq, rehash_times.
  destruct HR as [-> | [-> | ->]]; cbn [N.eqb N.leb N.compare Pos.compare Pos.compare_cont Pos.eqb andb negb].
  - rewrite !app_nil_r. reflexivity.
  - rewrite !app_nil_r. reflexivity.
  - destruct (eEmd e); cbn [negb].
    + rewrite !app_nil_r. reflexivity.
    + rewrite <- !app_assoc. reflexivity.
Qed.

(* ---- Algorithm 3 ---- *)
Lemma key_eq ownerpw userpw r l : 2 <= r -> c_key ownerpw userpw r l = alg3_key ownerpw userpw r l.
Proof.
  intros Hr. unfold c_key, alg3_key, key_bytes, take.
  assert (Hpw : (if len ownerpw =? 0 then userpw else ownerpw)
                = match ownerpw with [] => userpw | _ :: _ => ownerpw end).
  { destruct ownerpw; reflexivity. }
  rewrite Hpw, pad_pw_eq. rewrite rehash16_times by apply length_md5.
  destruct (N.leb_spec 3 r) as [H3|H3].
  - destruct (N.eqb_spec r 2); [lia|]. reflexivity.
  - destruct (N.eqb_spec r 2); [|lia]. reflexivity.
Qed.

Lemma o_eq ownerpw userpw r l : 2 <= r -> c_o ownerpw userpw r l = alg3 ownerpw userpw r l.
Proof.
  intros Hr. unfold c_o, alg3. rewrite key_eq by assumption. rewrite pad_pw_eq, rc4_19_eq. reflexivity.
Qed.

(* ---- Algorithms 4 and 5 ---- *)
Lemma u_eq_r2 userpw e : eR e = 2 ->
  c_u userpw e = (alg4 (alg2 userpw (eO e) (eP e) (eID e) 2 (eL e) (eEmd e)), alg2 userpw (eO e) (eP e) (eID e) 2 (eL e) (eEmd e)).
Proof.
  intros HR. unfold c_u. rewrite encKey_eq by (left; assumption). rewrite HR.
  cbn [N.eqb Pos.eqb]. unfold alg4. rewrite pad_same.
  set (k := alg2 _ _ _ _ _ _ _).
  assert (Hl : len (rc4 k padding_string) = 32) by (unfold len; rewrite length_rc4; reflexivity).
  rewrite Hl. reflexivity.
Qed.

Lemma length_alg5_16 key id0 : length (alg5_16 key id0) = 16%nat.
Proof. unfold alg5_16. rewrite length_rc4_counters, length_rc4. apply length_md5. Qed.

Lemma u_eq_r34 userpw e : eR e = 3 \/ eR e = 4 ->
  let key := alg2 userpw (eO e) (eP e) (eID e) (eR e) (eL e) (eEmd e) in
  c_u userpw e = (alg5_16 key (eID e) ++ zeros 16, key).
Proof.
  intros HR key. unfold c_u. rewrite encKey_eq by (right; exact HR). fold key.
  assert (H2 : (eR e =? 2) = false) by (destruct HR as [-> | ->]; reflexivity).
  assert (H34 : ((eR e =? 3) || (eR e =? 4)) = true) by (destruct HR as [-> | ->]; reflexivity).
  rewrite H2, H34, rc4_19_eq, pad_same. fold (alg5_16 key (eID e)).
  assert (Hl : len (alg5_16 key (eID e)) = 16) by (unfold len; rewrite length_alg5_16; reflexivity).
  rewrite Hl. reflexivity.
Qed.

(* ---- Algorithm 6 ---- *)
Lemma validate_user_eq userpw e : rev234 (eR e) ->
  c_validate_user_rc4 userpw e = alg6 userpw (eO e) (eU e) (eP e) (eID e) (eR e) (eL e) (eEmd e).
Proof.
  intros HR. unfold c_validate_user_rc4, alg6. destruct HR as [H2 | H34].
  - rewrite (u_eq_r2 _ _ H2). rewrite H2. cbn [N.eqb Pos.eqb]. unfold c_hash_equal. rewrite beq_sym. reflexivity.
  - pose proof (u_eq_r34 userpw e H34) as Hu. cbv zeta in Hu. rewrite Hu.
    assert (H2 : (eR e =? 2) = false) by (destruct H34 as [-> | ->]; reflexivity).
    assert (H34b : ((eR e =? 3) || (eR e =? 4)) = true) by (destruct H34 as [-> | ->]; reflexivity).
    rewrite H2, H34b. f_equal.
    set (key := alg2 _ _ _ _ _ _ _).
    assert (Ht : take 16 (alg5_16 key (eID e) ++ zeros 16) = alg5_16 key (eID e)).
    { unfold take. change (N.to_nat 16) with 16%nat. rewrite firstn_app, length_alg5_16.
      replace (16 - 16)%nat with 0%nat by lia. rewrite firstn_O, app_nil_r.
      apply firstn_all2. rewrite length_alg5_16. lia. }
    rewrite Ht. unfold c_hash_prefix_equal, c_hash_equal, len, take. rewrite length_alg5_16.
    change (N.to_nat (N.of_nat 16)) with 16%nat.
    destruct (N.ltb_spec (N.of_nat (length (eU e))) (N.of_nat 16)) as [Hlt|Hge].
    + symmetry. apply beq_length. rewrite length_alg5_16, firstn_length. lia.
    + apply beq_sym.
Qed.

(* ---- Algorithm 7 ---- *)
Lemma validate_owner_eq ownerpw userpw e : rev234 (eR e) ->
  c_validate_owner_rc4 ownerpw userpw e
  = alg7 ownerpw userpw (eO e) (eU e) (eP e) (eID e) (eR e) (eL e) (eEmd e).
Proof.
  intros HR. unfold c_validate_owner_rc4, alg7.
  rewrite key_eq by (destruct HR as [-> | [-> | ->]]; lia).
  rewrite rc4_19_down_eq. rewrite validate_user_eq by assumption.
  destruct HR as [-> | [-> | ->]]; reflexivity.
Qed.
