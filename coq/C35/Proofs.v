(* C35 — histories, extraction of attachments, independence of the kinds, idempotence. *)
From Coq Require Import NArith List Bool Lia.
From PV Require Import C35.Model C35.ProofsStr C35.ProofsKw C35.ProofsName C35.ProofsSim.
Import ListNotations.
Open Scope N_scope.

Lemma fresh_adds_cons : forall o h s, fresh_adds (o :: h) s = true -> fresh_op s o /\ fresh_adds h (astep s o) = true.
Proof.
  intros o h s H. simpl in H. apply andb_true_iff in H as [H1 H2]. split; [|assumption].
  destruct o; simpl; auto. now apply negb_true_iff in H1.
Qed.

Lemma run_rel : forall h d s, Rel d s -> Forall (fun o => wf_op o = true) h ->
  fresh_adds h s = true -> Rel (run d h) (arun s h).
Proof.
  induction h as [|o r IH]; intros d s R W F; [assumption|].
  inversion W as [|? ? Wo Wr]; subst. apply fresh_adds_cons in F as [Fo Fr].
  simpl. apply IH; [|assumption|assumption]. now apply step_rel.
Qed.

Lemma history_refines : forall h d s, Rel d s -> Forall (fun o => wf_op o = true) h ->
  fresh_adds h s = true -> observe (run d h) = Some (arun s h).
Proof. intros h d s R W F. eapply observe_rel. eapply run_rel; eauto. Qed.

Lemma history_from_empty : forall h, Forall (fun o => wf_op o = true) h ->
  fresh_adds h (empty_store 17) = true ->
  observe (run (empty_doc 17) h) = Some (arun (empty_store 17) h).
Proof. intros h W F. eapply history_refines; eauto. apply rel_empty. Qed.

(* ------------------------------------------------------------- attachments *)
Definition att_op (o : op) : bool := match o with AAdd _ _ | ARemove _ => true | _ => false end.
Definition kw_op (o : op) : bool := match o with KAdd _ | KRemove _ => true | _ => false end.
Definition pr_op (o : op) : bool := match o with PAdd _ | PRemove _ => true | _ => false end.
Definition pl_op (o : op) : bool := match o with LSet _ | LReset => true | _ => false end.
Definition pm_op (o : op) : bool := match o with MSet _ | MReset => true | _ => false end.
Definition vp_op (o : op) : bool := match o with VSet _ | VReset => true | _ => false end.

Lemma astep_independent : forall s o,
  (kw_op o = false -> s_kw (astep s o) = s_kw s) /\
  (pr_op o = false -> s_pr (astep s o) = s_pr s) /\
  (pl_op o = false -> s_pl (astep s o) = s_pl s) /\
  (pm_op o = false -> s_pm (astep s o) = s_pm s) /\
  (vp_op o = false -> s_vp (astep s o) = s_vp s) /\
  (att_op o = false -> s_att (astep s o) = s_att s).
Proof.
  intros [ver kw pr pl pm vp att] o.
  destruct o as [ks|ks|kvs|ks|v| |v| |new| |id data|ids]; simpl;
    repeat split; intros H; try discriminate; try reflexivity;
    repeat match goal with
           | |- context [match ?l with [] => _ | _ :: _ => _ end] => destruct l
           | |- context [if ?c then _ else _] => destruct c
           end; reflexivity.
Qed.

Lemma arun_att_unchanged : forall h s, forallb (fun o => negb (att_op o)) h = true -> s_att (arun s h) = s_att s.
Proof.
  induction h as [|o r IH]; simpl; intros s H; [reflexivity|].
  apply andb_true_iff in H as [Ho Hr]. apply negb_true_iff in Ho.
  unfold arun in *. rewrite IH by assumption.
  now apply (astep_independent s o).
Qed.

Lemma fresh_adds_no_att : forall h s, forallb (fun o => negb (att_op o)) h = true -> fresh_adds h s = true.
Proof.
  induction h as [|o r IH]; simpl; intros s H; [reflexivity|].
  apply andb_true_iff in H as [Ho Hr]. rewrite IH by assumption.
  destruct o; simpl in *; try reflexivity; discriminate.
Qed.

Lemma extract_rel : forall d s id, Rel d s -> extract d id = m_get id (s_att s).
Proof. intros d s id R. unfold extract. now rewrite (readable_rel _ _ R), (r_att _ _ R). Qed.

Lemma extract_returns_added : forall d s id data h,
  Rel d s -> m_mem id (s_att s) = false ->
  Forall (fun o => wf_op o = true) h -> forallb (fun o => negb (att_op o)) h = true ->
  extract (run d (AAdd id data :: h)) id = Some data.
Proof.
  intros d s id data h R Fr W NA.
  assert (R' : Rel (run d (AAdd id data :: h)) (arun s (AAdd id data :: h))).
  { apply run_rel; [assumption|constructor; [reflexivity|assumption]|].
    simpl. rewrite Fr. simpl. now apply fresh_adds_no_att. }
  rewrite (extract_rel _ _ _ R'). simpl. unfold arun in *. fold (arun (astep s (AAdd id data)) h).
  rewrite arun_att_unchanged by assumption.
  destruct s; simpl. apply m_get_set_same.
Qed.

(* ------------------------------------------------------------- idempotence, removal *)
Lemma set_ins_idem : forall k l, ssorted l -> In k l -> set_ins k l = l.
Proof.
  intros k l. induction l as [|x r IH]; simpl; intros Hs Hin; [contradiction|].
  destruct Hs as [Hx Hr]. destruct (seqb k x) eqn:E; [reflexivity|].
  destruct Hin as [->|Hin]; [rewrite seqb_refl in E; discriminate|].
  rewrite Forall_forall in Hx. rewrite (sltb_asym _ _ (Hx _ Hin)). now rewrite IH.
Qed.

Lemma fold_ins_In : forall ks acc x, In x (fold_left (fun a k => set_ins k a) ks acc) <-> In x ks \/ In x acc.
Proof.
  induction ks as [|k r IH]; simpl; intros acc x; [intuition|].
  rewrite IH, set_ins_In. intuition (subst; auto).
Qed.

Lemma fold_ins_absorb : forall ks acc, ssorted acc -> (forall k, In k ks -> In k acc) ->
  fold_left (fun a k => set_ins k a) ks acc = acc.
Proof.
  induction ks as [|k r IH]; simpl; intros acc Hs Hin; [reflexivity|].
  rewrite set_ins_idem; [|assumption|apply Hin; now left]. apply IH; [assumption|]. intros k' Hk'. apply Hin. now right.
Qed.

Lemma kadd_idempotent : forall s ks, ssorted (s_kw s) -> astep (astep s (KAdd ks)) (KAdd ks) = astep s (KAdd ks).
Proof.
  intros [ver kw pr pl pm vp att] ks Hs. simpl in *. destruct (no_blank ks) eqn:B; simpl; rewrite B; [|reflexivity].
  f_equal. apply fold_ins_absorb; [now apply fold_ins_sorted|].
  intros k Hk. apply fold_ins_In. now left.
Qed.

Lemma kremove_absent : forall s ks k, ks <> [] -> no_blank ks = true -> In k ks -> ~ In k (s_kw (astep s (KRemove ks))).
Proof.
  intros [ver kw pr pl pm vp att] ks k Hne B Hin. destruct ks as [|k0 r]; [congruence|].
  cbn [astep]. rewrite B. simpl s_kw. intros H. apply filter_In in H as [_ H].
  apply negb_true_iff in H. assert (smem k (k0 :: r) = true) by now apply smem_In. congruence.
Qed.

Lemma kremove_all_empty : forall s, s_kw (astep s (KRemove [])) = [].
Proof. intros [ver kw pr pl pm vp att]. reflexivity. Qed.

Lemma m_del_get : forall (V : Type) k (m : list (str * V)), m_get k (m_del k m) = None.
Proof.
  intros V k m. unfold m_del. induction m as [|[y w] r IH]; simpl; [reflexivity|].
  destruct (seqb k y) eqn:E; simpl; [assumption|]. now rewrite E.
Qed.

Lemma premove_absent : forall s k, prem_valid [k] = true -> m_get k (s_pr (astep s (PRemove [k]))) = None.
Proof.
  intros [ver kw pr pl pm vp att] k V. cbn [astep]. rewrite V. simpl. apply m_del_get.
Qed.

(* ------------------------------------------------------------- witness of the open defect (i) *)
Lemma kw_history_refuted :
  observe (run (empty_doc 17) [KAdd [[97; 44; 98]]]) = Some (Store 17 [[97]; [98]] [] None None None []).
Proof. vm_compute. reflexivity. Qed.

(* regressions of the three repaired defects, on the model: a name with '#', "remove all
   properties" with a name that needs a #xx escape, NFSPageModeUseOC (= PageModeUseOC = 4) *)
Lemma repaired_regressions :
  observe (run (empty_doc 17) [PAdd [([65; 35; 66], [118])]])
  = Some (Store 17 [] [([65; 35; 66], [118])] None None None [])
  /\ observe (run (empty_doc 17) [PAdd [([97; 32; 98], [118])]; PRemove []])
     = Some (Store 17 [] [] None None None [])
  /\ observe (run (empty_doc 17) [VSet [None;None;None;None;None;None;Some 4;None;None;None;None;None;None;None;None;None]])
     = Some (Store 17 [] [] None None (Some [None;None;None;None;None;None;Some 4;None;None;None;None;None;None;None;None;None]) []).
Proof. vm_compute. repeat split; reflexivity. Qed.
