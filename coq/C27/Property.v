(* C27 — Tampering with signed bytes is never reported as a valid signature.
   Property theorems only.  Level: partial — the message digest and the PKCS#7/RSA
   verification are external crypto: [digest] is an arbitrary function and collision
   resistance appears only as the conclusion "... or the digest collides".

   FULL STATEMENT (not provable without modelling the crypto): for every signed document and
   every modification of a signed byte or of the signature value, validation never reports the
   signature valid / the document unmodified.
   PROVED: (1) every modification inside the signed ranges changes the byte string handed to
   the digest (all files, all ranges, no size bound); (2) hence acceptance of both files against
   the same protected digest is a digest collision; (3) the hex digits of an accepted gap are
   exactly the /Contents value, so an edit of the signature value either fails the gap check or
   changes the CMS blob.  MISSING: that the CMS/RSA layer rejects a changed blob or digest
   (trusted crypto; exercised by the harness on synthesised signed documents). *)
From Coq Require Import ZArith NArith List Bool.
From PV Require Import Lib.GoInt C28.Generated C28.Model C28.Proofs C27.Model C27.Proofs.
Import ListNotations.
Open Scope Z_scope.

Theorem C27_covered_byte_changes_signed_data :
  forall f f' arr d d' i,
  int64s arr -> lenZ f = lenZ f' ->
  bytesForByteRange f arr = Ok d -> bytesForByteRange f' arr = Ok d' ->
  inSigned arr i -> byteAt f i <> byteAt f' i -> d <> d'.
Proof. exact covered_byte_changes_signed_data. Qed.
Print Assumptions C27_covered_byte_changes_signed_data.

Theorem C27_valid_after_tamper_implies_collision_partial :
  forall (digest : list N -> list N) f f' arr c c' sd i,
  int64s arr -> lenZ f = lenZ f' ->
  inSigned arr i -> byteAt f i <> byteAt f' i ->
  accepts digest f arr c sd -> accepts digest f' arr c' sd ->
  exists x y, x <> y /\ digest x = digest y.
Proof. exact valid_after_tamper_implies_collision. Qed.
Print Assumptions C27_valid_after_tamper_implies_collision_partial.

Theorem C27_tampered_not_accepted_without_collision_partial :
  forall (digest : list N -> list N) f f' arr c c' sd i,
  (forall x y, digest x = digest y -> x = y) ->
  int64s arr -> lenZ f = lenZ f' ->
  inSigned arr i -> byteAt f i <> byteAt f' i ->
  accepts digest f arr c sd -> ~ accepts digest f' arr c' sd.
Proof. exact tampered_not_accepted_without_collision. Qed.
Print Assumptions C27_tampered_not_accepted_without_collision_partial.

Theorem C27_gap_edit_breaks_match_or_changes_blob :
  forall g g' c c',
  hexnorm (interior g) <> hexnorm (interior g') ->
  contentsGapMatches g c = true ->
  contentsGapMatches g' c' = false \/ map toUpperHex c <> map toUpperHex c'.
Proof. exact gap_edit_breaks_match_or_changes_blob. Qed.
Print Assumptions C27_gap_edit_breaks_match_or_changes_blob.

Theorem C27_gap_match_determines_hex :
  forall g c, contentsGapMatches g c = true -> hexnorm (interior g) = map toUpperHex c.
Proof. exact gap_match_determines_hex. Qed.
Print Assumptions C27_gap_match_determines_hex.

(* ---- which data is verified (detached vs encapsulated CMS content) ---- *)
(* whatever the CMS carries (and whatever the SubFilter says), the digest comparison hashes the
   /ByteRange bytes *)
Theorem C27_hashed_data_is_byte_range_data :
  forall cmsContent data, hashedData (dataToVerify cmsContent data) = data.
Proof. exact hashed_data_is_byte_range_data. Qed.
Print Assumptions C27_hashed_data_is_byte_range_data.

(* "unmodified" ==> a digest of the /ByteRange bytes was compared, for all four combinations of
   (CMS content encapsulated?, signed attributes present?) *)
Theorem C27_p7_unmodified_hashes_byte_range :
  forall attrOK sha1eq hasAttrs sigAttrsOK sigContentOK cmsContent data,
  p7Verdict attrOK sha1eq hasAttrs sigAttrsOK sigContentOK cmsContent data = TFalse ->
  (cmsContent = [] /\ hasAttrs = true /\ sigAttrsOK = true /\ attrOK data = true) \/
  (cmsContent <> [] /\ hasAttrs = true /\ sigAttrsOK = true /\
     sha1eq data cmsContent = true /\ attrOK cmsContent = true) \/
  (cmsContent <> [] /\ hasAttrs = false /\ sigContentOK cmsContent = true /\
     sha1eq data cmsContent = true).
Proof. exact p7_unmodified_hashes_byte_range. Qed.
Print Assumptions C27_p7_unmodified_hashes_byte_range.

Theorem C27_p7_document_unmodified_digest_compared :
  forall attrOK sha1eq hasAttrs sigAttrsOK sigContentOK cmsContent fsize f arr contents increment dts sf,
  docModified (p7Verdict attrOK sha1eq hasAttrs sigAttrsOK sigContentOK cmsContent)
              fsize f arr contents increment dts sf = TFalse ->
  exists data, signedData f arr contents = Ok data /\
               (attrOK data = true \/ sha1eq data cmsContent = true).
Proof. exact p7_document_unmodified_digest_compared. Qed.
Print Assumptions C27_p7_document_unmodified_digest_compared.

Theorem C27_p7_detached_without_attributes_never_unmodified :
  forall attrOK sha1eq sigAttrsOK sigContentOK data,
  p7Verdict attrOK sha1eq false sigAttrsOK sigContentOK [] data <> TFalse.
Proof. exact p7_detached_without_attributes_never_unmodified. Qed.
Print Assumptions C27_p7_detached_without_attributes_never_unmodified.

(* adbe.x509.rsa_sha1 *)
Theorem C27_p1_document_unmodified_signature_over_byte_range :
  forall sigMatches fsize f arr contents increment dts sf,
  docModified (p1Verdict sigMatches) fsize f arr contents increment dts sf = TFalse ->
  exists data, signedData f arr contents = Ok data /\ sigMatches data = true.
Proof. exact p1_document_unmodified_signature_over_byte_range. Qed.
Print Assumptions C27_p1_document_unmodified_signature_over_byte_range.

(* no eContent: unmodified ==> the digest of signedData(file, ByteRange) is the signed digest *)
Theorem C27_detached_unmodified_hashes_signed_data :
  forall attrOK sha1eq hasAttrs sigAttrsOK sigContentOK fsize f arr contents increment dts sf,
  docModified (p7Verdict attrOK sha1eq hasAttrs sigAttrsOK sigContentOK []) fsize f arr contents increment dts sf = TFalse ->
  exists data, signedData f arr contents = Ok data /\ attrOK data = true.
Proof. exact detached_unmodified_hashes_signed_data. Qed.
Print Assumptions C27_detached_unmodified_hashes_signed_data.

(* forged eContent: the originally signed bytes D injected as CMS content never yield
   "unmodified", for any file, ranges, signature outcome and any 20-byte-valued SHA1 *)
Theorem C27_forged_econtent_document_not_unmodified :
  forall (sha1 : list N -> list N) attrOK hasAttrs sigAttrsOK sigContentOK D fsize f arr contents increment dts sf,
  (forall x, length (sha1 x) = 20%nat) -> length D <> 20%nat -> D <> [] ->
  docModified (p7Verdict attrOK (fun d c => eqbList (sha1 d) c) hasAttrs sigAttrsOK sigContentOK D)
              fsize f arr contents increment dts sf <> TFalse.
Proof. exact forged_econtent_document_not_unmodified. Qed.
Print Assumptions C27_forged_econtent_document_not_unmodified.

(* ---- several signers in one CMS ---- *)
(* validateAll: "valid" iff there is a signer and EVERY signer of the CMS was verified completely *)
Theorem C27_all_valid_iff_every_signer_verified :
  forall auth signers,
  p7StatusOf auth true signers = StValid <->
  signers <> [] /\ forall s, In s signers -> signerComplete s = true.
Proof. exact all_valid_iff_every_signer_verified. Qed.
Print Assumptions C27_all_valid_iff_every_signer_verified.

(* validateAll: a signer at ANY position whose signature or digest fails makes the result invalid *)
Theorem C27_all_tampered_signer_invalid :
  forall auth signers s,
  In s signers -> signerFails s = true -> p7StatusOf auth true signers = StInvalid.
Proof. exact all_tampered_signer_invalid. Qed.
Print Assumptions C27_all_tampered_signer_invalid.

(* non-vacuity: "AB<4a>CD" vs "AX<4a>CD", /ByteRange [0 2 6 2]: both pass signedData, offset 1 is
   signed, the signed data differ; with the identity as digest the second is not accepted *)
Example C27_nonvacuous :
  let f  := [65; 66; 60; 52; 97; 62; 67; 68]%N in
  let f' := [65; 88; 60; 52; 97; 62; 67; 68]%N in
  let c := Some [52; 65]%N in
  signedData f [0; 2; 6; 2] c = Ok [65; 66; 67; 68]%N /\
  signedData f' [0; 2; 6; 2] c = Ok [65; 88; 67; 68]%N /\
  inSigned [0; 2; 6; 2] 1 /\ byteAt f 1 <> byteAt f' 1 /\
  accepts (fun x => x) f [0; 2; 6; 2] c [65; 66; 67; 68]%N.
Proof.
  repeat split; try (vm_compute; reflexivity).
  - vm_compute. left. split; [discriminate|reflexivity].
  - vm_compute. discriminate.
  - exists [65; 66; 67; 68]%N. split; reflexivity.
Qed.
