(* C26 — hand-written model of the decision logic around the permission table (no proofs).
   The table, maskExtract, maskModify, needsOwnerAndUserPassword and rejectsEncrypted come from
   Generated.v (regenerated from the Go source on every run).  Transcribed line by line from
   pkg/pdfcpu/crypto.go (hasNeededPermissions) and pkg/pdfcpu/read.go (handlePermissions,
   setupEncryptionKey, handleUnencryptedFile, checkForEncryption).

   Go `int` values (P, R, masks) are Z.  `enc.P & m` on Go's two's-complement ints is Z.land
   (Z.land is the two's-complement AND on arbitrary integers).  Password matching itself
   (validateOwnerPassword / validateUserPassword) and the AES-256 /Perms check (validatePermissions)
   are outside this model: their boolean results are inputs.  The passwords themselves (ctx.OwnerPW,
   ctx.UserPW) are inputs as RAW byte strings (list N): the only thing the access path does with them
   besides matching is comparing them with "" -- Generated.noCredentialsSupplied (extracted from
   handlePermissions) and handleUnencryptedFile. *)
From Coq Require Import ZArith NArith List Bool.
From PV Require Import C26.Generated.
Import ListNotations.
Open Scope Z_scope.

(* crypto.go: hasNeededPermissions(mode, enc) with enc.P = P, enc.R = R
     m := maskExtract(mode, enc.R); if m > 0 { if enc.P&m == 0 { return false } }
     m = maskModify(mode, enc.R);   if m > 0 { if enc.P&m == 0 { return false } }
     return true *)
Definition hasNeededPermissions (mode P R : Z) : bool :=
  let m := maskExtract mode R in
  if (m >? 0) && (Z.land P m =? 0) then false
  else
    let m := maskModify mode R in
    if (m >? 0) && (Z.land P m =? 0) then false
    else true.

Inductive outcome :=
| Proceed              (* nil *)
| Denied               (* ErrPermissionDenied *)
| InvalidPerms         (* errInvalidPermissions *)
| OwnerRequired        (* ErrOwnerPasswordRequired *)
| WrongPassword        (* ErrWrongPassword *)
| EncryptedUnsupported (* ErrEncrypted *)
| NotEncrypted.        (* ErrNotEncrypted *)

(* read.go: handlePermissions(ctx)
     ok, err := validatePermissions(ctx)   -- permsOK (true for R outside {5,6}); err is outside the model
     if !ok { return errInvalidPermissions }
     if ctx.OwnerPW == "" && ctx.UserPW == "" { return nil }     -- Generated.noCredentialsSupplied (the
                                                                    generator checks the other five statements)
     if !hasNeededPermissions(ctx.Cmd, ctx.E) { return ErrPermissionDenied }
     return nil *)
Definition handlePermissions (permsOK : bool) (opw upw : list N) (mode P R : Z) : outcome :=
  if negb permsOK then InvalidPerms
  else if noCredentialsSupplied opw upw then Proceed
  else if negb (hasNeededPermissions mode P R) then Denied
  else Proceed.

(* crypto.go: validateOwnerPassword(ctx)
     if e.R == 5 { return validateOwnerPasswordAES256(ctx) }
     if e.R == 6 { return validateOwnerPasswordAES256Rev6(ctx) }
     ... (R 2,3,4: Algorithm 7)
   ownerMatches is the cryptographic part (the supplied string, prepared, hashes to /O resp. decrypts /O to
   the user password): an input of the model.  What is modelled is the guard the two AES-256 functions
   start with (Generated.*_noOwnerPW, extracted from the source): when NO owner password is supplied the
   owner is not authenticated even if the document's owner password is the empty string. *)
Definition validateOwnerPassword (R : Z) (opw : list N) (ownerMatches : bool) : bool :=
  if R =? 5 then (if validateOwnerPasswordAES256_noOwnerPW opw then false else ownerMatches)
  else if R =? 6 then (if validateOwnerPasswordAES256Rev6_noOwnerPW opw then false else ownerMatches)
  else ownerMatches.

(* read.go: setupEncryptionKey(ctx, d), after the encryption dictionary has been parsed.
     ownerOK = validateOwnerPassword(ctx), userOK = validateUserPassword(ctx)
     if !ownerOK && needsOwnerAndUserPassword(cmd) { return ErrOwnerPasswordRequired }
     if ownerOK && !needsOwnerAndUserPassword(cmd) { validatePermissions ...; return nil }
     if !userOK { return ErrWrongPassword }
     return handlePermissions(ctx) *)
Definition setupAccess (ownerMatches userOK permsOK : bool) (opw upw : list N) (mode P R : Z) : outcome :=
  let ownerOK := validateOwnerPassword R opw ownerMatches in
  if negb ownerOK && needsOwnerAndUserPassword mode then OwnerRequired
  else if ownerOK && negb (needsOwnerAndUserPassword mode) then
    (if permsOK then Proceed else InvalidPerms)
  else if negb userOK then WrongPassword
  else handlePermissions permsOK opw upw mode P R.

(* read.go: handleUnencryptedFile(ctx); `ctx.OwnerPW == ""` on the raw string *)
Definition handleUnencryptedFile (opw : list N) (mode : Z) : outcome :=
  if (mode =? CM_DECRYPT) || (mode =? CM_SETPERMISSIONS) then NotEncrypted
  else if negb (mode =? CM_ENCRYPT) then Proceed
  else if pw_empty opw then OwnerRequired
  else Proceed.

(* read.go: checkForEncryption(c, ctx); encrypted = (ctx.Encrypt != nil) *)
Definition checkForEncryption (encrypted ownerMatches userOK permsOK : bool) (opw upw : list N) (mode P R : Z) : outcome :=
  if negb encrypted then handleUnencryptedFile opw mode
  else if rejectsEncrypted mode then EncryptedUnsupported
  else setupAccess ownerMatches userOK permsOK opw upw mode P R.

(* The situation the property talks about: an encrypted document, opened with its non-empty user
   password only (the owner password is not supplied or wrong), /Perms consistent.  The witness user
   password is a single space (0x20): non-empty, although blank. *)
Definition userOnlyAccess (mode P R : Z) : outcome :=
  checkForEncryption true false true true [] [32%N] mode P R.
