(* C13 — Unicode text stored in a PDF reads back unchanged.
   Property theorems only; each is closed by an exact lemma and followed by Print Assumptions.
   Model: C13/Model.v (pdfcpu types/utf16.go, types/string.go + Go unicode/utf16, unicode/utf8,
   encoding/hex).  Go strings / byte slices are lists of N, runes and UTF-16 units are N.
   [scalar r]          : r is a Unicode scalar value (0..0x10FFFF minus D800..DFFF)
   [utf8_of_runes cps] : the Go string holding the text cps;  [utf8_valid s] : utf8.ValidString(s)
   [wf_utf16be b cps]  : b = FE FF followed by a well-formed UTF-16 unit sequence (big endian)
                         denoting the scalar values cps (definition independent of the decoder). *)
From Coq Require Import NArith List.
From PV Require Import Lib.GoInt C13.Model C13.ProofsUtf16 C13.ProofsUtf8 C13.ProofsPaths.
Import ListNotations.
Open Scope N_scope.

(* Every list of Unicode scalar values, of any length: encode then decode gives it back. *)
Theorem C13_utf16_roundtrip : forall cps, Forall scalar cps ->
  decodeUTF16Runes (EncodeUTF16Runes cps) = Ok cps.
Proof. exact utf16_roundtrip. Qed.
Print Assumptions C13_utf16_roundtrip.

(* The same at the level of Go strings: every text is a valid Go string, []rune of it is the text,
   and DecodeUTF16String (EncodeUTF16String s) = s. *)
Theorem C13_text_roundtrip : forall cps, Forall scalar cps ->
  utf8_valid (utf8_of_runes cps) = true
  /\ runes_of_string (utf8_of_runes cps) = cps
  /\ decodeUTF16String (EncodeUTF16String (utf8_of_runes cps)) = Ok (utf8_of_runes cps).
Proof.
  intros cps H. destruct (text_roundtrip cps H) as [Hv Hd]. destruct (runes_of_text cps H) as [Hr _].
  split; [exact Hv | split; [exact Hr | exact Hd]].
Qed.
Print Assumptions C13_text_roundtrip.

(* Every Go string that is valid UTF-8 (exactly those EscapedUTF16String accepts) reads back. *)
Theorem C13_string_roundtrip : forall s, utf8_valid s = true ->
  decodeUTF16String (EncodeUTF16String s) = Ok s.
Proof. exact string_roundtrip. Qed.
Print Assumptions C13_string_roundtrip.

(* Literal string path: EscapedUTF16String succeeds and StringLiteralToString reads s back. *)
Theorem C13_literal_roundtrip : forall s, utf8_valid s = true ->
  exists e, EscapedUTF16String s = Ok e /\ StringLiteralToString e = Ok s.
Proof. exact literal_roundtrip. Qed.
Print Assumptions C13_literal_roundtrip.

(* Hex literal path. *)
Theorem C13_hex_roundtrip : forall s, utf8_valid s = true ->
  HexLiteralToString (NewHexLiteral (EncodeUTF16String s)) = Ok s.
Proof. exact hex_roundtrip. Qed.
Print Assumptions C13_hex_roundtrip.

(* Unescape is a left inverse of Escape on every byte string (used by the literal path). *)
Theorem C13_unescape_escape : forall s, Unescape (Escape s) = Ok s.
Proof. exact Unescape_Escape. Qed.
Print Assumptions C13_unescape_escape.

(* Decoding a well-formed UTF-16BE text string never fails, and yields the denoted text. *)
Theorem C13_decode_wellformed_total : forall b cps, wf_utf16be b cps ->
  decodeUTF16Runes b = Ok cps /\ decodeUTF16String b = Ok (utf8_of_runes cps).
Proof.
  intros b cps H. split; [exact (decode_wellformed b cps H) | exact (decode_wellformed_string b cps H)].
Qed.
Print Assumptions C13_decode_wellformed_total.

(* ... and nothing else is accepted: lone or swapped surrogates, odd length, missing BOM. *)
Theorem C13_decode_accepts_only_wellformed : forall b rr, bytes_ok b = true ->
  decodeUTF16Runes b = Ok rr -> wf_utf16be b rr /\ Forall scalar rr.
Proof.
  intros b rr Hb H. pose proof (decode_accepts_only_wellformed b rr Hb H) as Hwf. split; [exact Hwf |].
  destruct Hwf as [us [Hu _]]. exact (wf_units_scalar us rr Hu).
Qed.
Print Assumptions C13_decode_accepts_only_wellformed.

Theorem C13_decode_rejects_malformed :
  (forall pre cps u x, wf_units pre cps -> 0xDC00 <= u -> u < 0xE000 ->
     decodeUTF16Runes ([0xFE; 0xFF] ++ flat_map be_bytes pre ++ be_bytes u ++ x) = Err)
  /\ (forall pre cps h, wf_units pre cps -> 0xD800 <= h -> h < 0xDC00 ->
     decodeUTF16Runes ([0xFE; 0xFF] ++ flat_map be_bytes pre ++ be_bytes h) = Err)
  /\ (forall pre cps h v x, wf_units pre cps -> 0xD800 <= h -> h < 0xDC00 -> v < 65536 ->
     (v < 0xDC00 \/ 0xE000 <= v) ->
     decodeUTF16Runes ([0xFE; 0xFF] ++ flat_map be_bytes pre ++ be_bytes h ++ be_bytes v ++ x) = Err)
  /\ (forall b, Nat.even (length b) = false -> decodeUTF16Runes b = Err)
  /\ (forall b0 b1 rest, b0 <> 0xFE \/ b1 <> 0xFF -> decodeUTF16Runes (b0 :: b1 :: rest) = Err)
  /\ (forall b, (length b < 2)%nat -> decodeUTF16Runes b = Err).
Proof.
  exact (conj decode_rejects_lone_low (conj decode_rejects_high_at_end (conj decode_rejects_high_unpaired
        (conj decode_rejects_odd_length (conj decode_rejects_missing_bom decode_rejects_short))))).
Qed.
Print Assumptions C13_decode_rejects_malformed.

(* Why Escape is necessary.  pkg/pdfcpu/primitives/dateField.go used to store its tooltip as
   StringLiteral(EncodeUTF16String(df.Tip)), without Escape (found by this check, fixed in /repo by
   "fix: escape the tooltip of date fields ..."; the harness keeps an end-to-end oracle for it, class
   c13-datefield-tooltip-unescaped).  The statement "forall valid s, StringLiteralToString
   (EncodeUTF16String s) = Ok s" is false; it holds exactly when the UTF-16BE bytes contain no
   backslash (in a written file the PDF parser additionally needs balanced parentheses, which is
   outside this model). *)
Theorem C13_unescaped_literal_refuted :
  exists s, utf8_valid s = true /\ StringLiteralToString (EncodeUTF16String s) <> Ok s.
Proof. exact unescaped_literal_refuted. Qed.
Print Assumptions C13_unescaped_literal_refuted.

Theorem C13_unescaped_literal_partial : forall s, utf8_valid s = true ->
  no_backslash (EncodeUTF16String s) = true ->
  StringLiteralToString (EncodeUTF16String s) = Ok s.
Proof. exact unescaped_literal_partial. Qed.
Print Assumptions C13_unescaped_literal_partial.

(* non-vacuity: the hypotheses are satisfiable, boundary characters round-trip, errors occur *)
Example C13_nonvacuous :
  Forall scalar [0x41; 0xD7FF; 0xE000; 0xFFFF; 0x10000; 0x10FFFF]
  /\ EncodeUTF16Runes [0xE000; 0x1F600] = [0xFE; 0xFF; 0xE0; 0x00; 0xD8; 0x3D; 0xDE; 0x00]
  /\ decodeUTF16String [0xFE; 0xFF; 0xE0; 0x00] = Ok [0xEE; 0x80; 0x80]
  /\ wf_utf16be [0xFE; 0xFF; 0xD8; 0x3D; 0xDE; 0x00] [0x1F600]
  /\ decodeUTF16String [0xFE; 0xFF; 0xDE; 0x00; 0xD8; 0x3D] = Err
  /\ utf8_valid [0xF0; 0x9F; 0x98; 0x80] = true /\ utf8_valid [0xED; 0xA0; 0x80] = false
  /\ EscapedUTF16String [0x28] = Ok [0xFE; 0xFF; 0x00; 0x5C; 0x28]
  /\ StringLiteralToString [0xFE; 0xFF; 0x00; 0x5C; 0x28] = Ok [0x28].
Proof.
  split; [repeat constructor; unfold scalar; vm_compute; intuition congruence |].
  split; [vm_compute; reflexivity |]. split; [vm_compute; reflexivity |].
  split; [exists [0xD83D; 0xDE00]; split; [| vm_compute; reflexivity];
          apply (wf_pair 0xD83D 0xDE00 [] []); try (vm_compute; congruence); constructor |].
  repeat split; vm_compute; reflexivity.
Qed.
