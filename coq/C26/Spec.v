(* C26 — independent specification (hand-written; no proofs).

   ISO 32000-1:2008, 7.6.3.2 Table 22 "User access permissions" (1-based bit positions of P):
     bit 3  print                      bit 9  fill in form fields            (R >= 3)
     bit 4  modify contents            bit 10 extract for accessibility      (R >= 3)
     bit 5  copy / extract             bit 11 assemble the document          (R >= 3)
     bit 6  annotate                   bit 12 print high quality             (R >= 3)

   The property is stated for pdfcpu's two bit layouts:
     revision 2      : "denies extraction" = bit 5 clear,  "denies modification" = bit 4 clear
     revision >= 3   : "denies extraction" = bit 10 clear, "denies modification" = bit 11 clear
   (pdfcpu reads bit 10 as the rev>=3 extract right and bit 11 as the rev>=3 modify right, see
   model.PermissionExtractRev3 / PermissionAssembleRev3 and crypto.go:perms). *)
From Coq Require Import ZArith List Bool.
From PV Require Import C26.Generated.
Import ListNotations.
Open Scope Z_scope.

Definition bit_print : Z := 3.
Definition bit_modify : Z := 4.
Definition bit_extract : Z := 5.
Definition bit_annotate : Z := 6.
Definition bit_fill_forms : Z := 9.
Definition bit_extract_accessibility : Z := 10.
Definition bit_assemble : Z := 11.
Definition bit_print_high_quality : Z := 12.

(* bit `pos` (1-based, as in Table 22) of the integer P; P is any integer: a negative P is read in
   two's complement, which is how the signed 32-bit /P entry is defined. *)
Definition has_bit (P pos : Z) : bool := Z.testbit P (pos - 1).

Definition extract_pos (R : Z) : Z := if R >=? 3 then bit_extract_accessibility else bit_extract.
Definition modify_pos (R : Z) : Z := if R >=? 3 then bit_assemble else bit_modify.

Definition denies_extract (P R : Z) : bool := negb (has_bit P (extract_pos R)).
Definition denies_modify (P R : Z) : bool := negb (has_bit P (modify_pos R)).

(* ---- which rights a command needs, judged from what the command does (independent of crypto.go) ----
   KFree    : inspects / lists / validates, manages passwords (governed by the owner-password rule, not by
              permission bits), or has no input document
   KExtract : copies page content, images, fonts, pages or embedded files out of the document
   KModify  : writes a changed version of the document
   KEither  : derives new documents from the page content, or exports data; either right is accepted
   KRow     : a command mode this specification does not know (added later): it must at least have an
              explicit row in the table *)
Inductive kind := KFree | KExtract | KModify | KEither | KRow.

Definition spec_table : list (Z * kind) :=
  [(CM_VALIDATE, KFree); (CM_LISTINFO, KFree); (CM_OPTIMIZE, KFree);
   (CM_SPLIT, KExtract); (CM_SPLITBYPAGENR, KExtract);
   (CM_MERGECREATE, KModify); (CM_MERGECREATEZIP, KModify); (CM_MERGEAPPEND, KModify);
   (CM_EXTRACTIMAGES, KExtract); (CM_EXTRACTFONTS, KExtract); (CM_EXTRACTPAGES, KExtract);
   (CM_EXTRACTCONTENT, KExtract); (CM_EXTRACTMETADATA, KExtract);
   (CM_TRIM, KModify);
   (CM_LISTATTACHMENTS, KFree); (CM_EXTRACTATTACHMENTS, KExtract);
   (CM_ADDATTACHMENTS, KModify); (CM_ADDATTACHMENTSPORTFOLIO, KModify); (CM_REMOVEATTACHMENTS, KModify);
   (CM_LISTPERMISSIONS, KFree); (CM_SETPERMISSIONS, KFree);
   (CM_ADDWATERMARKS, KModify); (CM_REMOVEWATERMARKS, KModify);
   (CM_IMPORTIMAGES, KModify);
   (CM_INSERTPAGESBEFORE, KModify); (CM_INSERTPAGESAFTER, KModify); (CM_REMOVEPAGES, KModify);
   (CM_LISTKEYWORDS, KFree); (CM_ADDKEYWORDS, KModify); (CM_REMOVEKEYWORDS, KModify);
   (CM_LISTPROPERTIES, KFree); (CM_ADDPROPERTIES, KModify); (CM_REMOVEPROPERTIES, KModify);
   (CM_COLLECT, KExtract);
   (CM_CROP, KModify);
   (CM_LISTBOXES, KFree); (CM_ADDBOXES, KModify); (CM_REMOVEBOXES, KModify);
   (CM_LISTANNOTATIONS, KFree); (CM_ADDANNOTATIONS, KModify); (CM_REMOVEANNOTATIONS, KModify);
   (CM_ROTATE, KModify);
   (CM_NUP, KEither); (CM_GRID, KEither); (CM_BOOKLET, KEither);
   (CM_LISTBOOKMARKS, KFree); (CM_ADDBOOKMARKS, KModify); (CM_REMOVEBOOKMARKS, KModify);
   (CM_IMPORTBOOKMARKS, KModify); (CM_EXPORTBOOKMARKS, KEither);
   (CM_LISTIMAGES, KFree); (CM_UPDATEIMAGES, KModify);
   (CM_CREATE, KModify);          (* api.Create with an input PDF appends pages / content to it *)
   (CM_DUMP, KFree);
   (CM_LISTFORMFIELDS, KFree); (CM_REMOVEFORMFIELDS, KModify); (CM_LOCKFORMFIELDS, KModify);
   (CM_UNLOCKFORMFIELDS, KModify); (CM_RESETFORMFIELDS, KModify); (CM_EXPORTFORMFIELDS, KEither);
   (CM_FILLFORMFIELDS, KModify); (CM_MULTIFILLFORMFIELDS, KModify);
   (CM_ENCRYPT, KFree); (CM_DECRYPT, KFree); (CM_CHANGEUPW, KFree); (CM_CHANGEOPW, KFree);
   (CM_CHEATSHEETSFONTS, KFree); (CM_INSTALLFONTS, KFree); (CM_LISTFONTS, KFree);
   (CM_RESIZE, KModify);
   (CM_POSTER, KEither); (CM_NDOWN, KEither); (CM_CUT, KEither);
   (CM_LISTPAGELAYOUT, KFree); (CM_SETPAGELAYOUT, KModify); (CM_RESETPAGELAYOUT, KModify);
   (CM_LISTPAGEMODE, KFree); (CM_SETPAGEMODE, KModify); (CM_RESETPAGEMODE, KModify);
   (CM_LISTVIEWERPREFERENCES, KFree); (CM_SETVIEWERPREFERENCES, KModify); (CM_RESETVIEWERPREFERENCES, KModify);
   (CM_ZOOM, KModify);
   (CM_LISTCERTIFICATES, KFree); (CM_INSPECTCERTIFICATES, KFree); (CM_IMPORTCERTIFICATES, KFree);
   (CM_VALIDATESIGNATURES, KFree);
   (CM_REMOVESIGNATURES, KModify); (CM_ADDSIGNATURE, KModify)].

Fixpoint spec_lookup (l : list (Z * kind)) (m : Z) : kind :=
  match l with
  | [] => KRow
  | (k, v) :: tl => if (k =? m) then v else spec_lookup tl m
  end.

Definition spec_kind (m : Z) : kind := spec_lookup spec_table m.

(* What the specification asks of a command of kind k on a document (P, R) that is opened with the user
   password only: must it be refused? *)
Definition spec_must_refuse (k : kind) (P R : Z) : bool :=
  match k with
  | KFree | KRow => false
  | KExtract => denies_extract P R
  | KModify => denies_modify P R
  | KEither => denies_extract P R && denies_modify P R
  end.

(* Is the table row (Some (extract, modify)) / its absence (None) an acceptable classification of a
   command of kind k?  pdfcpu may be stricter than the specification, never laxer. *)
Definition row_satisfies (k : kind) (row : option (Z * Z)) : bool :=
  match k, row with
  | KFree, _ => true
  | KRow, Some _ => true
  | KExtract, Some (e, _) => negb (e =? 0)
  | KModify, Some (_, m) => negb (m =? 0)
  | KEither, Some (e, m) => negb (e =? 0) || negb (m =? 0)
  | _, None => false
  end.

(* Commands that the real code leaves unclassified although they change the document or derive new
   documents from its content (found on the tree of 2026-09; see C26_every_mode_classified_refuted).
   every_mode_classified is proved for all other command modes. *)
Definition known_unclassified : list Z :=
  [CM_CREATE; CM_MULTIFILLFORMFIELDS; CM_RESIZE; CM_POSTER; CM_NDOWN; CM_CUT; CM_REMOVESIGNATURES].
