(* C40 glue.  Wire format (all numbers hex):
     env      = <fonts>;<certdir>;<rev>;<pool>     fonts: "-" (error) | "" | name:val,name:val   pool: "-" | n
     section  = L | R | K<name> | N | D | C | T | I | P
     result   = u | e | f- | f<val> | n<name>.<name>... | c0 | c1 | p- | p<n>
   seq    st0 item item ...      item = "env:<env>" | "secs:<s>,<s>,..." | "obs:"   -> results joined by ","
          ("obs:" prints the observable state: s<loaded>.<dir>.<rev>.n<font names>)
          (st0 = "init": state of a fresh process)
   sched  <env> <threads> <schedule>   threads = thread/thread/..., thread = op;op;..., op = s.s.s
          schedule = t,t,t (decimal-free: hex)  -> events "t:op=result" joined by " "
          (start state: init_state after DisableConfigDir) *)
open Model
open Common

let split c s = if s = "" then [] else String.split_on_char c s

let parse_env (s : string) : env =
  match String.split_on_char ';' s with
  | [f; d; r; p] ->
    let fonts = if f = "-" then None else
        Some (List.map (fun kv -> match String.split_on_char ':' kv with
            | [k; v] -> (n_of_hex k, n_of_hex v) | _ -> failwith "bad font entry") (split ',' f)) in
    { e_fonts = fonts; e_certdir = n_of_hex d; e_rev = n_of_hex r;
      e_pool = (if p = "-" then None else Some (n_of_hex p)) }
  | _ -> failwith "bad env"

let parse_sec (s : string) : sec =
  if s = "" then failwith "empty section" else
  let rest = String.sub s 1 (String.length s - 1) in
  match s.[0] with
  | 'L' -> SLoad | 'R' -> SReload | 'K' -> SLookup (n_of_hex rest) | 'N' -> SNames
  | 'D' -> SDisable | 'C' -> SReadCfg | 'T' -> SLoadCerts | 'I' -> SInvalidate | 'P' -> SGetPool
  | _ -> failwith "bad section"

let str_sec = function
  | SLoad -> "L" | SReload -> "R" | SLookup n -> "K" ^ hex_of_n n | SNames -> "N"
  | SDisable -> "D" | SReadCfg -> "C" | SLoadCerts -> "T" | SInvalidate -> "I" | SGetPool -> "P"

let str_result = function
  | RUnit -> "u" | RErr -> "e"
  | RFont None -> "f-" | RFont (Some v) -> "f" ^ hex_of_n v
  | RNames l -> "n" ^ String.concat "." (List.map hex_of_n l)
  | RCfg b -> if b then "c1" else "c0"
  | RPool None -> "p-" | RPool (Some v) -> "p" ^ hex_of_n v

let dispatch fn args = match fn, args with
  | "seq", st0 :: items ->
    if st0 <> "init" then failwith "bad st0";
    let st = ref init_state and e = ref (parse_env ";0;0;-") and out = ref [] in
    List.iter (fun it ->
        match String.index_opt it ':' with
        | None -> failwith "bad item"
        | Some i ->
          let k = String.sub it 0 i and v = String.sub it (i + 1) (String.length it - i - 1) in
          if k = "env" then e := parse_env v
          else if k = "secs" then begin
            let (st', rs) = run_secs !e !st (List.map parse_sec (split ',' v)) in
            st := st'; out := !out @ List.map str_result rs end
          else if k = "obs" then begin
            let s = !st in
            out := !out @ [Printf.sprintf "s%d.%s.%s.n%s" (if s.s_loaded then 1 else 0) (hex_of_n s.s_dir) (hex_of_n s.s_rev)
                             (String.concat "." (List.map (fun (k, _) -> hex_of_n k) s.s_fonts))] end
          else failwith "bad item kind") items;
    String.concat "," !out
  | "sched", [env; threads; schedule] ->
    let e = parse_env env in
    let ths = List.map (fun th -> List.map (fun o -> List.map parse_sec (split '.' o)) (split ';' th)) (split '/' threads) in
    let sched = List.map (fun t -> nat_of_int (int_of_n (n_of_hex t))) (split ',' schedule) in
    let (st0, _) = step e SDisable init_state in
    let (_, evs) = run e sched (List.map init_prog ths) st0 in
    String.concat " " (List.map (fun ((t, o), r) ->
        Printf.sprintf "%d:%s=%s" (int_of_nat t) (String.concat "." (List.map str_sec o)) (str_result r)) evs)
  | "wf", [o] -> str_of_bool (wf_op (List.map parse_sec (split '.' o)))
  | _ -> failwith ("unknown function " ^ fn)
let () = main dispatch
