(* C39 — invariant and refinement proofs for the name-tree model. *)
From Coq Require Import List NArith Bool Lia PeanoNat.
From PV Require Import C39.Model C39.ProofsOrder.
Import ListNotations.

(* ---- induction over nodes ---- *)
Lemma node_ind' (P : node -> Prop) :
  (forall ns a b, P (Leaf ns a b)) ->
  (forall kids a b, Forall P kids -> P (Inner kids a b)) -> forall n, P n.
Proof.
  intros HL HI. fix IH 1. intros [ns a b|kids a b]; [apply HL|]. apply HI.
  revert kids. fix IHk 1. intros [|c r]; constructor; [apply IH|apply IHk].
Qed.

(* ---- the nested loops as top-level functions ---- *)
Fixpoint entries_kids (l : list node) : list entry :=
  match l with [] => [] | c :: r => entries c ++ entries_kids r end.
Lemma entries_inner kids a b : entries (Inner kids a b) = entries_kids kids.
Proof. reflexivity. Qed.
Lemma entries_kids_cons c r : entries_kids (c :: r) = entries c ++ entries_kids r.
Proof. reflexivity. Qed.

Definition add_kids (rn : bool) (k : key) (v : val) : list node -> list node :=
  fix go (l : list node) : list node :=
  match l with
  | [] => []
  | c :: r => match r with
              | [] => [tadd rn c k v]
              | _ => if kltb k (nmin c) || within c k then tadd rn c k v :: r else c :: go r
              end
  end.
Lemma tadd_inner rn kids a b k v :
  tadd rn (Inner kids a b) k v =
  Inner (add_kids rn k v kids) (nmin (hd (Inner kids a b) (add_kids rn k v kids)))
        (nmax (last (add_kids rn k v kids) (Inner kids a b))).
Proof. reflexivity. Qed.

Definition value_kids (k : key) : list node -> option val :=
  fix go (l : list node) : option val :=
  match l with [] => None | c :: r => if within c k then tvalue c k else go r end.
Lemma tvalue_inner kids a b k :
  tvalue (Inner kids a b) k = if negb (within (Inner kids a b) k) then None else value_kids k kids.
Proof. reflexivity. Qed.

Definition remove_kids (k : key) : list node -> kres :=
  fix go (l : list node) : kres :=
  match l with
  | [] => KNone
  | c :: r =>
      if within c k then
        match tremove c k with
        | RPanic => KPanic
        | R c' e ok => if ok then (if e then KDropped r else KKept (c' :: r)) else KFail (c' :: r)
        end
      else match go r with
           | KNone => KNone
           | KPanic => KPanic
           | KFail l' => KFail (c :: l')
           | KKept l' => KKept (c :: l')
           | KDropped l' => KDropped (c :: l')
           end
  end.
Lemma tremove_inner kids a b k :
  tremove (Inner kids a b) k =
  match remove_kids k kids with
  | KNone => R (Inner kids a b) false false
  | KPanic => RPanic
  | KFail kids' => R (Inner kids' a b) false false
  | KKept kids' => R (Inner kids' (nmin (hd (Inner kids a b) kids')) (nmax (last kids' (Inner kids a b)))) false true
  | KDropped kids' =>
      match kids' with
      | [] => R (Leaf [] a b) true true
      | [only] => R only (is_empty_leaf only) true
      | _ => R (Inner kids' (nmin (hd (Inner kids a b) kids')) (nmax (last kids' (Inner kids a b)))) false true
      end
  end.
Proof. reflexivity. Qed.

(* ---- the invariant ---- *)
Fixpoint chain (l : list node) : Prop :=
  match l with
  | c1 :: ((c2 :: _) as r) => klt (nmax c1) (nmin c2) /\ chain r
  | _ => True
  end.
Definition leaf_wf (ns : list entry) (a b : key) : Prop :=
  ns <> [] /\ lsorted (ekeys ns) /\ a = khd (ekeys ns) /\ b = klast (ekeys ns).

(* wf n: n is a non-empty well-formed (sub)tree: leaves hold strictly sorted keys and their
   limits are their first/last key; an intermediate node has kids, all well-formed, the
   kids' ranges are strictly increasing, and its limits are first kid's Kmin / last kid's Kmax. *)
Fixpoint wf (n : node) : Prop :=
  match n with
  | Leaf ns a b => leaf_wf ns a b
  | Inner kids a b =>
      kids <> [] /\
      (fix all (l : list node) : Prop := match l with [] => True | c :: r => wf c /\ all r end) kids /\
      chain kids /\ a = nmin (hd empty_tree kids) /\ b = nmax (last kids empty_tree)
  end.
Fixpoint wf_kids (l : list node) : Prop := match l with [] => True | c :: r => wf c /\ wf_kids r end.
Lemma wf_inner kids a b :
  wf (Inner kids a b) <->
  kids <> [] /\ wf_kids kids /\ chain kids /\ a = nmin (hd empty_tree kids) /\ b = nmax (last kids empty_tree).
Proof. reflexivity. Qed.

Definition lbk (lo : key) (l : list node) : Prop := match l with [] => True | c :: _ => klt lo (nmin c) end.
Lemma chain_cons c r : chain (c :: r) <-> lbk (nmax c) r /\ chain r.
Proof. destruct r; cbn; tauto. Qed.

(* what wf gives about the in-order key list *)
Definition good (n : node) : Prop :=
  entries n <> [] /\ lsorted (keys n) /\ nmin n = khd (keys n) /\ nmax n = klast (keys n).

Definition kids_good (l : list node) : Prop :=
  entries_kids l <> [] /\ lsorted (ekeys (entries_kids l)) /\
  khd (ekeys (entries_kids l)) = nmin (hd empty_tree l) /\
  klast (ekeys (entries_kids l)) = nmax (last l empty_tree).

Lemma map_ne {A B} (f : A -> B) l : l <> [] -> map f l <> [].
Proof. destruct l; [congruence|discriminate]. Qed.

Lemma kids_good_of l : l <> [] -> Forall (fun c => wf c -> good c) l -> wf_kids l -> chain l -> kids_good l.
Proof.
  induction l as [|c r IH]; [congruence|]. intros _ HF [Hc Hr] Hch.
  inversion HF as [|? ? Hgc HFr]; subst. destruct (Hgc Hc) as (Hne & Hs & Hmin & Hmax). unfold keys in *.
  destruct r as [|c2 r'].
  - unfold kids_good. cbn [entries_kids hd last]. rewrite app_nil_r. auto.
  - assert (Hne2 : c2 :: r' <> []) by discriminate.
    apply chain_cons in Hch. destruct Hch as [Hlb Hch].
    destruct (IH Hne2 HFr Hr Hch) as (Rne & Rs & Rhd & Rlast).
    unfold kids_good. rewrite entries_kids_cons. rewrite map_app.
    split; [intros E; apply app_eq_nil in E; tauto|].
    split; [|split].
    + apply lsorted_app; [exact Hs|exact Rs|]. intros x y Hx Hy.
      pose proof (lsorted_ub _ Hs x Hx) as H1.
      pose proof (lsorted_hd_lb _ Rs y Hy) as H2.
      rewrite Rhd in H2. rewrite <- Hmax in H1. cbn [lbk hd] in *. order.
    + rewrite khd_app by (apply map_ne; exact Hne). cbn [hd]. auto.
    + rewrite klast_app by (apply map_ne; exact Rne). exact Rlast.
Qed.

Lemma wf_good n : wf n -> good n.
Proof.
  induction n as [ns a b|kids a b IH] using node_ind'.
  - intros (Hne & Hs & Ha & Hb). unfold good, keys. cbn. auto.
  - intros Hw. apply wf_inner in Hw. destruct Hw as (Hne & Hk & Hch & Ha & Hb).
    destruct (kids_good_of kids Hne IH Hk Hch) as (Rne & Rs & Rhd & Rlast).
    unfold good, keys. rewrite entries_inner. cbn [nmin nmax]. subst a b. auto.
Qed.

Lemma wf_kids_good l : l <> [] -> wf_kids l -> chain l -> kids_good l.
Proof.
  intros Hne Hk Hch. apply kids_good_of; auto. apply Forall_forall. intros c _. apply wf_good.
Qed.

(* consequences used everywhere *)
Lemma good_within n x : good n -> In x (keys n) -> kle (nmin n) x /\ kle x (nmax n).
Proof.
  intros (Hne & Hs & Hmin & Hmax) Hin. rewrite Hmin, Hmax. split.
  - apply lsorted_hd_lb; assumption.
  - apply lsorted_ub; assumption.
Qed.
Lemma good_min_in n : good n -> In (nmin n) (keys n).
Proof. intros (Hne & Hs & Hmin & Hmax). rewrite Hmin. apply khd_in. apply map_ne. exact Hne. Qed.
Lemma good_max_in n : good n -> In (nmax n) (keys n).
Proof. intros (Hne & Hs & Hmin & Hmax). rewrite Hmax. apply klast_in. apply map_ne. exact Hne. Qed.
Lemma good_min_le_max n : good n -> kle (nmin n) (nmax n).
Proof. intros Hg. apply (good_within n (nmax n) Hg). apply good_max_in. exact Hg. Qed.

Lemma not_within_notin n k : good n -> within n k = false -> ~ In k (keys n).
Proof.
  intros Hg Hw Hin. destruct (good_within n k Hg Hin) as [H1 H2].
  unfold within in Hw. destruct (within_lim_spec (nmin n) (nmax n) k) as [_|[H|H]]; [discriminate| |]; order.
Qed.

(* all keys right of a kid are above its Kmax *)
Lemma kids_above lo r : wf_kids r -> chain r -> lbk lo r -> forall y, In y (ekeys (entries_kids r)) -> klt lo y.
Proof.
  intros Hk Hch Hlb y Hy. destruct r as [|c r']; [destruct Hy|].
  destruct (wf_kids_good (c :: r') ltac:(discriminate) Hk Hch) as (Rne & Rs & Rhd & Rlast).
  pose proof (lsorted_hd_lb _ Rs y Hy) as H. rewrite Rhd in H. cbn in Hlb, H. order.
Qed.

Lemma kids_hd_le_last l : l <> [] -> wf_kids l -> chain l -> kle (nmin (hd empty_tree l)) (nmax (last l empty_tree)).
Proof.
  intros Hne Hk Hch. destruct (wf_kids_good l Hne Hk Hch) as (Rne & Rs & Rhd & Rlast).
  rewrite <- Rhd, <- Rlast. apply lsorted_ub; [exact Rs|]. apply khd_in. apply map_ne. exact Rne.
Qed.

(* ================= Value ================= *)
Lemma leaf_value_spec ns k : lsorted (ekeys ns) -> leaf_value ns k = m_lookup k ns.
Proof.
  induction ns as [|[k' v] ns IH]; intros Hs; cbn; [reflexivity|].
  destruct (kltb_spec k' k) as [Hlt|Hge].
  - destruct (keqb_spec k' k); [order|]. apply IH. exact (lsorted_tail _ _ Hs).
  - destruct (keqb_spec k' k) as [->|Hne]; [reflexivity|].
    symmetry. apply m_lookup_none. intros Hin. pose proof (lsorted_lb k' _ Hs k Hin). order.
Qed.

Lemma value_kids_ok k l :
  Forall (fun c => wf c -> tvalue c k = m_lookup k (entries c)) l -> wf_kids l -> chain l ->
  value_kids k l = m_lookup k (entries_kids l).
Proof.
  induction l as [|c r IH]; intros HF Hk Hch; [reflexivity|].
  inversion HF as [|? ? Hc HFr]; subst. destruct Hk as [Hwc Hwr]. apply chain_cons in Hch. destruct Hch as [Hlb Hch].
  change (value_kids k (c :: r)) with (if within c k then tvalue c k else value_kids k r).
  rewrite entries_kids_cons. rewrite m_lookup_app.
  destruct (within c k) eqn:Hw.
  - rewrite (Hc Hwc). destruct (m_lookup k (entries c)) eqn:E; [reflexivity|].
    symmetry. apply m_lookup_none. intros Hin.
    pose proof (kids_above _ r Hwr Hch Hlb k Hin) as H1.
    unfold within in Hw. destruct (within_lim_spec (nmin c) (nmax c) k) as [[_ H2]|]; [|discriminate]. order.
  - pose proof (not_within_notin c k (wf_good c Hwc) Hw) as Hn. apply m_lookup_none in Hn.
    unfold keys in Hn. rewrite Hn. apply IH; assumption.
Qed.

Lemma value_ok n k : wf n -> tvalue n k = m_lookup k (entries n).
Proof.
  induction n as [ns a b|kids a b IH] using node_ind'; intros Hw.
  - pose proof (wf_good _ Hw) as Hg. destruct Hw as (Hne & Hs & Ha & Hb).
    cbn [tvalue entries]. destruct (within (Leaf ns a b) k) eqn:Hwi; cbn [negb].
    + apply leaf_value_spec. exact Hs.
    + symmetry. apply m_lookup_none. exact (not_within_notin _ k Hg Hwi).
  - pose proof (wf_good _ Hw) as Hg. apply wf_inner in Hw. destruct Hw as (Hne & Hk & Hch & Ha & Hb).
    rewrite tvalue_inner, entries_inner. destruct (within (Inner kids a b) k) eqn:Hwi; cbn [negb].
    + apply value_kids_ok; assumption.
    + symmetry. apply m_lookup_none. exact (not_within_notin _ k Hg Hwi).
Qed.

(* ================= Add ================= *)
Definition kmin2 (k a : key) : key := if kltb k a then k else a.
Definition kmax2 (k b : key) : key := if kltb b k then k else b.

Lemma m_add_hd k v m : m <> [] -> khd (ekeys (m_add k v m)) = kmin2 k (khd (ekeys m)).
Proof.
  destruct m as [|[k' v'] m]; [congruence|]. intros _. cbn. unfold kmin2.
  destruct (kltb_spec k' k); cbn.
  - destruct (kltb_spec k k'); [order|reflexivity].
  - destruct (keqb_spec k' k) as [->|Hne]; cbn.
    + rewrite kltb_irrefl. reflexivity.
    + destruct (kltb_spec k k'); [reflexivity|order].
Qed.

Lemma m_add_cons_lt k v k' v' m : klt k' k -> m_add k v ((k', v') :: m) = (k', v') :: m_add k v m.
Proof. intros H. cbn. destruct (kltb_spec k' k); [reflexivity|order]. Qed.
Lemma m_add_cons_ge k v k' v' m : kle k k' ->
  m_add k v ((k', v') :: m) = if keqb k' k then (k', v') :: m else (k, v) :: (k', v') :: m.
Proof. intros H. cbn. destruct (kltb_spec k' k); [order|reflexivity]. Qed.

Lemma m_add_last k v m : m <> [] -> lsorted (ekeys m) -> klast (ekeys (m_add k v m)) = kmax2 k (klast (ekeys m)).
Proof.
  induction m as [|[k1 v1] m IH]; [congruence|]. intros _ Hs.
  destruct m as [|[k2 v2] m'].
  - cbn. unfold kmax2. destruct (kltb_spec k1 k); cbn; [reflexivity|].
    destruct (keqb_spec k1 k); reflexivity.
  - assert (Hne : (k2, v2) :: m' <> []) by discriminate.
    specialize (IH Hne (lsorted_tail _ _ Hs)).
    assert (Hk1 : klt k1 (klast (ekeys ((k2, v2) :: m')))).
    { apply (lsorted_lb k1 _ Hs). apply klast_in. discriminate. }
    change (klast (ekeys ((k1, v1) :: (k2, v2) :: m'))) with (klast (ekeys ((k2, v2) :: m'))).
    destruct (kltb_spec k1 k) as [Hlt|Hge].
    + rewrite m_add_cons_lt by exact Hlt. cbn [map fst]. rewrite klast_cons by (apply map_ne; apply m_add_ne). exact IH.
    + rewrite m_add_cons_ge by exact Hge.
      unfold kmax2. destruct (kltb_spec (klast (ekeys ((k2, v2) :: m'))) k); [order|].
      destruct (keqb k1 k); reflexivity.
Qed.

Lemma m_add_length k v m : length (m_add k v m) <= S (length m).
Proof.
  induction m as [|[k' v'] m IH]; cbn; [lia|].
  destruct (kltb k' k); cbn; [lia|]. destruct (keqb k' k); cbn; lia.
Qed.

Lemma leaf_wf_add ns a b k v : leaf_wf ns a b -> leaf_wf (m_add k v ns) (kmin2 k a) (kmax2 k b).
Proof.
  intros (Hne & Hs & Ha & Hb). subst a b. split; [apply m_add_ne|]. split; [apply m_add_sorted; exact Hs|].
  split; [symmetry; apply m_add_hd; exact Hne|symmetry; apply m_add_last; assumption].
Qed.

Lemma ins_spec ns k v :
  match ins ns k v with
  | None => m_add k v ns = ns /\ In k (ekeys ns)
  | Some (l, e) => l = m_add k v ns /\ (e = true -> forall x, In x (ekeys ns) -> klt x k)
  end.
Proof.
  induction ns as [|[k' v'] ns IH]; cbn.
  - split; [reflexivity|]. intros _ x [].
  - destruct (kltb_spec k' k) as [Hlt|Hge].
    + destruct (ins ns k v) as [[l e]|].
      * destruct IH as [-> He]. split; [reflexivity|]. intros E x [<-|Hin]; [exact Hlt|auto].
      * destruct IH as [-> Hin]. split; [reflexivity|right; exact Hin].
    + destruct (keqb_spec k' k) as [->|Hne].
      * split; [reflexivity|left; reflexivity].
      * split; [reflexivity|discriminate].
Qed.

(* wf / contents / limits of a node produced by split_check *)
Lemma split_check_ok ns a b : leaf_wf ns a b ->
  wf (split_check ns a b) /\ entries (split_check ns a b) = ns /\
  nmin (split_check ns a b) = a /\ nmax (split_check ns a b) = b.
Proof.
  intros Hw. unfold split_check. destruct (Nat.eqb (length ns) (S maxEntries)) eqn:E.
  - apply Nat.eqb_eq in E. destruct Hw as (Hne & Hs & Ha & Hb).
    destruct ns as [|[k1 v1] [|[k2 v2] [|[k3 v3] [|[k4 v4] [|? ?]]]]]; try discriminate E.
    cbn in Hs. destruct Hs as (H12 & H23 & H34 & _).
    cbn. unfold leaf_wf, khd, klast. cbn. subst a b.
    repeat split; auto; try discriminate.
  - cbn. auto.
Qed.

Definition add_post (n : node) (k : key) (v : val) (n' : node) : Prop :=
  wf n' /\ entries n' = m_add k v (entries n) /\ nmin n' = kmin2 k (nmin n) /\ nmax n' = kmax2 k (nmax n).

Lemma handle_leaf_ne rn ns a b k v : ns <> [] ->
  handle_leaf rn ns a b k v =
  if kltb k a then split_check ((k, v) :: ns) k b
  else if kltb b k then split_check (ns ++ [(k, v)]) a k
  else match ins_unique (S (length ns)) rn ns k v with
       | IUnchanged => Leaf ns a b
       | IFuel => Leaf ns a b
       | IDone ns' atend k' => split_check ns' a (if atend then k' else b)
       end.
Proof. destruct ns; [congruence|reflexivity]. Qed.

Lemma handle_leaf_ok ns a b k v : leaf_wf ns a b -> add_post (Leaf ns a b) k v (handle_leaf false ns a b k v).
Proof.
  intros Hw. pose proof (leaf_wf_add ns a b k v Hw) as Hw'.
  assert (Hgen : forall ns' a' b', ns' = m_add k v ns -> a' = kmin2 k a -> b' = kmax2 k b ->
                 add_post (Leaf ns a b) k v (split_check ns' a' b')).
  { intros ns' a' b' -> -> ->. destruct (split_check_ok _ _ _ Hw') as (H1 & H2 & H3 & H4).
    unfold add_post. cbn [entries nmin nmax]. auto. }
  destruct Hw as (Hne & Hs & Ha & Hb).
  rewrite handle_leaf_ne by exact Hne.
  assert (Hain : In a (ekeys ns)) by (rewrite Ha; apply khd_in; apply map_ne; exact Hne).
  assert (Hbin : In b (ekeys ns)) by (rewrite Hb; apply klast_in; apply map_ne; exact Hne).
  assert (Hab : kle a b) by (rewrite Hb; apply lsorted_ub; assumption).
  destruct (kltb_spec k a) as [Hka|Hka].
  - apply Hgen.
    + destruct ns as [|[k1 v1] ns1]; [congruence|]. cbn in Ha. subst a. rewrite m_add_cons_ge by order.
      destruct (keqb_spec k1 k); [order|reflexivity].
    + unfold kmin2. destruct (kltb_spec k a); [reflexivity|order].
    + unfold kmax2. destruct (kltb_spec b k); [order|reflexivity].
  - destruct (kltb_spec b k) as [Hbk|Hbk].
    + apply Hgen.
      * assert (E : m_add k v (ns ++ []) = ns ++ m_add k v []).
        { apply m_add_app_right. intros x Hx. pose proof (lsorted_ub _ Hs x Hx). rewrite <- Hb in *. order. }
        rewrite app_nil_r in E. symmetry. exact E.
      * unfold kmin2. destruct (kltb_spec k a); [order|reflexivity].
      * unfold kmax2. destruct (kltb_spec b k); [reflexivity|order].
    + cbn [ins_unique]. pose proof (ins_spec ns k v) as Hi.
      destruct (ins ns k v) as [[l e]|]; cbn [negb].
      * destruct Hi as [-> He]. destruct e.
        { specialize (He eq_refl b Hbin). order. }
        apply Hgen; [reflexivity| |].
        -- unfold kmin2. destruct (kltb_spec k a); [order|reflexivity].
        -- unfold kmax2. destruct (kltb_spec b k); [order|reflexivity].
      * destruct Hi as [Hi _]. unfold add_post. cbn [entries nmin nmax]. rewrite Hi.
        split; [repeat split; auto|]. split; [reflexivity|].
        unfold kmin2, kmax2. destruct (kltb_spec k a); [order|]. destruct (kltb_spec b k); [order|]. auto.
Qed.

Lemma hd_ne {A} (d d' : A) l : l <> [] -> hd d l = hd d' l.
Proof. destruct l; [congruence|reflexivity]. Qed.
Lemma last_ne {A} (d d' : A) l : l <> [] -> last l d = last l d'.
Proof. induction l as [|x l IH]; [congruence|]. intros _. destruct l; [reflexivity|]. cbn in *. apply IH. discriminate. Qed.
Lemma last_cons_ne {A} (d : A) x l : l <> [] -> last (x :: l) d = last l d.
Proof. destruct l; [congruence|reflexivity]. Qed.

Lemma add_kids_ok k v l :
  l <> [] ->
  Forall (fun c => forall k v, wf c -> add_post c k v (tadd false c k v)) l ->
  wf_kids l -> chain l ->
  let l' := add_kids false k v l in
  l' <> [] /\ wf_kids l' /\ chain l' /\ entries_kids l' = m_add k v (entries_kids l) /\
  nmin (hd empty_tree l') = kmin2 k (nmin (hd empty_tree l)) /\
  nmax (last l' empty_tree) = kmax2 k (nmax (last l empty_tree)).
Proof.
  induction l as [|c r IH]; [congruence|]. intros _ HF [Hwc Hwr] Hch.
  inversion HF as [|? ? Hc HFr]; subst.
  destruct (Hc k v Hwc) as (Hw' & He' & Hmin' & Hmax').
  pose proof (wf_good c Hwc) as Hgc.
  destruct r as [|c2 r'].
  - cbn [add_kids]. cbv zeta. cbn [hd last entries_kids]. rewrite !app_nil_r.
    repeat split; auto. discriminate.
  - set (r := c2 :: r') in *. assert (Hner : r <> []) by discriminate.
    apply chain_cons in Hch. destruct Hch as [Hlb Hch].
    cbv zeta.
    change (add_kids false k v (c :: r)) with
      (if kltb k (nmin c) || within c k then tadd false c k v :: r else c :: add_kids false k v r).
    pose proof (good_min_le_max c Hgc) as Hcc.
    pose proof (kids_hd_le_last r Hner Hwr Hch) as Hrr.
    assert (Hlbr : klt (nmax c) (nmin (hd empty_tree r))) by exact Hlb.
    destruct (kltb k (nmin c) || within c k) eqn:T.
    + assert (Hk : kle k (nmax c)).
      { apply orb_true_iff in T. destruct T as [T|T].
        - change (klt k (nmin c)) in T. order.
        - unfold within in T. destruct (within_lim_spec (nmin c) (nmax c) k) as [[_ H2]|]; [exact H2|discriminate]. }
      assert (Hmax2 : nmax (tadd false c k v) = nmax c).
      { rewrite Hmax'. unfold kmax2. destruct (kltb_spec (nmax c) k); [order|reflexivity]. }
      split; [discriminate|]. split; [split; assumption|]. split; [|split; [|split]].
      * apply chain_cons. split; [|exact Hch]. unfold r. cbn [lbk]. rewrite Hmax2. exact Hlb.
      * rewrite !entries_kids_cons. rewrite He'. symmetry. apply m_add_app_left.
        -- exists (nmax c). split; [apply good_max_in; exact Hgc|exact Hk].
        -- destruct Hgc as (_ & Hs & _). exact Hs.
      * cbn [hd]. exact Hmin'.
      * rewrite !last_cons_ne by exact Hner. unfold kmax2.
        destruct (kltb_spec (nmax (last r empty_tree)) k); [order|reflexivity].
    + apply orb_false_iff in T. destruct T as [T1 T2].
      assert (Hk : klt (nmax c) k).
      { unfold within in T2. destruct (within_lim_spec (nmin c) (nmax c) k) as [|[H|H]]; [discriminate| |exact H].
        destruct (kltb_spec k (nmin c)); [discriminate|order]. }
      destruct (IH Hner HFr Hwr Hch) as (Ine & Iw & Ich & Ie & Imin & Imax).
      split; [discriminate|]. split; [split; assumption|]. split; [|split; [|split]].
      * apply chain_cons. split; [|exact Ich].
        destruct (add_kids false k v r) as [|d l'']; [congruence|]. cbn [lbk]. cbn [hd] in Imin. rewrite Imin.
        unfold kmin2. destruct (kltb_spec k (nmin (hd empty_tree r))); [exact Hk|exact Hlbr].
      * rewrite !entries_kids_cons. rewrite Ie. symmetry. apply m_add_app_right.
        intros x Hx. destruct (good_within c x Hgc Hx) as [_ H2]. order.
      * cbn [hd]. unfold kmin2. destruct (kltb_spec k (nmin c)); [discriminate|reflexivity].
      * rewrite last_cons_ne by exact Ine. rewrite last_cons_ne by exact Hner. exact Imax.
Qed.

Lemma add_ok n : forall k v, wf n -> add_post n k v (tadd false n k v).
Proof.
  induction n as [ns a b|kids a b IH] using node_ind'; intros k v Hw.
  - apply handle_leaf_ok. exact Hw.
  - apply wf_inner in Hw. destruct Hw as (Hne & Hk & Hch & Ha & Hb).
    destruct (add_kids_ok k v kids Hne IH Hk Hch) as (Ine & Iw & Ich & Ie & Imin & Imax).
    rewrite tadd_inner. unfold add_post. rewrite !entries_inner. cbn [nmin nmax].
    rewrite (hd_ne _ empty_tree _ Ine), (last_ne _ empty_tree _ Ine).
    split; [apply wf_inner; auto|]. split; [exact Ie|]. subst a b. auto.
Qed.
