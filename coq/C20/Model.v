(* C20 — executable model of pdfcpu's object-graph equality (pkg/pdfcpu/model/equal.go)
   and of the reference substitution the optimizer performs (pkg/pdfcpu/optimize.go).
   Hand-transcribed, function by function; NO proofs in this file.

   Objects (types.Object): Go nil, Boolean, Integer, Float (canonical text, opaque),
   Name, StringLiteral, HexLiteral (byte lists), IndirectRef (object number, generation),
   Array, Dict (association list: one entry per Go map key), StreamDict (dict + Raw,
   None = Raw == nil).  The xRefTable is a total function object number -> object;
   a missing or free entry is ONull (model.indRefToObject returns nil for those). *)
From Coq Require Import List ZArith NArith Bool.
Import ListNotations.
Open Scope Z_scope.

Definition bytes := list N.

Inductive obj :=
| ONull
| OBool (b : bool)
| OInt (z : Z)
| OFloat (t : bytes)
| OName (s : bytes)
| OStr (s : bytes)
| OHex (s : bytes)
| ORef (nr gen : Z)
| OArr (l : list obj)
| ODict (d : list (bytes * obj))
| OStream (d : list (bytes * obj)) (raw : option bytes).

Definition dict := list (bytes * obj).
Definition graph := Z -> obj.

(* result of EqualObjects: (true,nil) / (false,nil) / (_,err) / "false or err, depending on
   Go's map iteration order" / model fuel exhausted *)
Inductive cmp := CT | CF | CE | CFE | CFuel.

Fixpoint beqb (a b : bytes) : bool :=
  match a, b with
  | [], [] => true
  | x :: a', y :: b' => N.eqb x y && beqb a' b'
  | _, _ => false
  end.

(* Go map lookup d[key] *)
Fixpoint lookup (k : bytes) (d : dict) : option obj :=
  match d with
  | [] => None
  | (k', v) :: r => if beqb k' k then Some v else lookup k r
  end.

(* xRefTable.Dereference: one step, never an error for in-memory objects *)
Definition deref (g : graph) (o : obj) : obj :=
  match o with ORef nr _ => g nr | _ => o end.

(* appendPair / containsPair: pairs is the flat []int exactly as in Go *)
Definition appendPair (pairs : list Z) (a b : Z) : list Z :=
  if b <? a then pairs ++ [b; a] else pairs ++ [a; b].
Fixpoint containsPairF (pairs : list Z) (a b : Z) : bool :=
  match pairs with
  | x :: y :: t => ((x =? a) && (y =? b)) || containsPairF t a b
  | _ => false
  end.
Definition containsPair (pairs : list Z) (a b : Z) : bool :=
  if b <? a then containsPairF pairs b a else containsPairF pairs a b.

(* "Font", "Type", "BaseFont", "FontName", "Name", "+" as bytes *)
Definition kType : bytes := [84;121;112;101]%N.
Definition kFont : bytes := [70;111;110;116]%N.
Definition kBaseFont : bytes := [66;97;115;101;70;111;110;116]%N.
Definition kFontName : bytes := [70;111;110;116;78;97;109;101]%N.
Definition kName : bytes := [78;97;109;101]%N.
Definition special (k : bytes) : bool := beqb k kBaseFont || beqb k kFontName || beqb k kName.

(* strings.Index(s, "+") : position of the first '+' or None *)
Fixpoint index_plus (s : bytes) : option nat :=
  match s with
  | [] => None
  | c :: r => if N.eqb c 43 then Some O else
              match index_plus r with Some i => Some (S i) | None => None end
  end.
(* i := strings.Index(bf, "+"); if i > 0 { bf = bf[i+1:] } *)
Definition strip (s : bytes) : bytes :=
  match index_plus s with
  | Some (S i) => skipn (S (S i)) s
  | _ => s
  end.

(* Dict.Type(): NameEntry("Type"), a direct Name only *)
Definition typeIsFontDirect (d : dict) : bool :=
  match lookup kType d with Some (OName s) => beqb s kFont | _ => false end.

(* equalFontNames *)
Definition equalFontNames (g : graph) (v1 v2 : obj) : cmp :=
  match deref g v1 with
  | OName s1 =>
      match deref g v2 with
      | OName s2 => if beqb (strip s1) (strip s2) then CT else CF
      | _ => CE
      end
  | _ => CE
  end.

(* outcome of visiting the entries of a Go map in an unspecified order, returning at the
   first entry that is not (true,nil) *)
Definition join (a b : cmp) : cmp :=
  match a, b with
  | CFuel, _ | _, CFuel => CFuel
  | CT, x | x, CT => x
  | CF, CF => CF
  | CE, CE => CE
  | _, _ => CFE
  end.

Section Rec.
  Variable g : graph.
  Variable rec : obj -> obj -> list Z -> cmp.   (* equalObjectsD at depth+1, one unit of fuel less *)

  (* equalArrays: in order, returns at the first element that is not (true,nil) *)
  Fixpoint equalArrayElems (a1 a2 : list obj) (pairs : list Z) : cmp :=
    match a1, a2 with
    | x :: t1, y :: t2 =>
        match rec x y pairs with CT => equalArrayElems t1 t2 pairs | r => r end
    | _, _ => CT
    end.
  Definition equalArrays (a1 a2 : list obj) (pairs : list Z) : cmp :=
    if negb (Nat.eqb (length a1) (length a2)) then CF else equalArrayElems a1 a2 pairs.

  (* the body of `for key, v1 := range d1` in equalDicts *)
  Definition dictEntry (fontDicts : bool) (d2 : dict) (pairs : list Z) (kv : bytes * obj) : cmp :=
    match lookup (fst kv) d2 with
    | None => CF
    | Some v2 =>
        if fontDicts && special (fst kv) then equalFontNames g (snd kv) v2
        else rec (snd kv) v2 pairs
    end.
  Definition equalDicts (d1 d2 : dict) (pairs : list Z) : cmp :=
    if negb (Nat.eqb (length d1) (length d2)) then CF else
    let fontDicts := typeIsFontDirect d1 && typeIsFontDirect d2 in
    fold_right (fun kv acc => join (dictEntry fontDicts d2 pairs kv) acc) CT d1.

  (* bytes.Equal(sd1.Raw, sd2.Raw): a nil slice equals an empty one *)
  Definition rawbytes (r : option bytes) : bytes := match r with Some b => b | None => [] end.
  (* equalStreamDicts *)
  Definition equalStreamDicts (d1 : dict) (r1 : option bytes) (d2 : dict) (r2 : option bytes)
                              (pairs : list Z) : cmp :=
    match equalDicts d1 d2 pairs with
    | CT => match r1 with
            | None => CE                             (* "stream dict not loaded" *)
            | Some b1 => if beqb b1 (rawbytes r2) then CT else CF
            end
    | r => r
    end.

  (* EqualObjects after the IndirectRef prologue: dereference both, compare *)
  Definition compareDeref (o1 o2 : obj) (pairs : list Z) : cmp :=
    match deref g o1, deref g o2 with
    | ONull, ONull => CT
    | ONull, _ => CF
    | OBool a, OBool b => if Bool.eqb a b then CT else CF
    | OInt a, OInt b => if a =? b then CT else CF
    | OFloat a, OFloat b => if beqb a b then CT else CF
    | OName a, OName b => if beqb a b then CT else CF
    | OStr a, OStr b => if beqb a b then CT else CF
    | OHex a, OHex b => if beqb a b then CT else CF
    | ODict a, ODict b => equalDicts a b pairs
    | OStream a ra, OStream b rb => equalStreamDicts a ra b rb pairs
    | OArr a, OArr b => equalArrays a b pairs
    | ORef _ _, ORef _ _ => CE                      (* "unhandled compare for type" *)
    | _, _ => CF                                    (* o1Type != o2Type *)
    end.
End Rec.

(* Go: equalObjects(o1, o2, xRefTable, pairs, depth).  limit = xRefTable.MaxRecursionDepth()
   (the configured limit, or the default when it is <= 0): CheckRecursionDepth fails when
   depth > limit.  equalArrays and equalDicts compare their elements at depth+1;
   equalStreamDicts -> equalDicts and the dispatch below keep depth. *)
Fixpoint equalObjectsD (fuel : nat) (limit : Z) (g : graph) (o1 o2 : obj) (pairs : list Z)
                      (depth : Z) : cmp :=
  match fuel with
  | O => CFuel
  | S f =>
      if limit <? depth then CE                       (* ErrMaxRecursionDepthExceeded *)
      else
      let rec := fun x y p => equalObjectsD f limit g x y p (depth + 1) in
      match o1, o2 with
      | ORef n1 g1, ORef n2 g2 =>
          if (n1 =? n2) && (g1 =? g2) then CT
          else if containsPair pairs n1 n2 then CT
          else compareDeref g rec o1 o2 (appendPair pairs n1 n2)
      | _, _ => compareDeref g rec o1 o2 pairs
      end
  end.

(* EqualObjects(o1, o2, xRefTable, pairs) = equalObjects(o1, o2, xRefTable, pairs, 0) in Go *)
Definition EqualObjects (fuel : nat) (limit : Z) (g : graph) (o1 o2 : obj) (pairs : list Z) : cmp :=
  equalObjectsD fuel limit g o1 o2 pairs 0.

(* fuel that always suffices: one unit per nesting level up to the limit, one for the call
   that reports the excess *)
Definition enoughFuel (limit : Z) : nat := Z.to_nat (limit + 1) + 1.

(* ------------------------------------------------------------------ *)
(* the observable meaning: what a reader that follows references sees  *)

(* a dict is a font dict for a reader when its (dereferenced) Type is /Font *)
Definition isfont (g : graph) (d : dict) : bool :=
  match lookup kType d with
  | Some v => match deref g v with OName s => beqb s kFont | _ => false end
  | None => false
  end.
(* the subset tag of a font name is not part of the font's content *)
Definition fontval (g : graph) (v : obj) : obj :=
  match deref g v with OName s => OName (strip s) | _ => v end.
Definition norm (g : graph) (d : dict) (k : bytes) (v : obj) : obj :=
  if isfont g d && special k then fontval g v else v.

(* ------------------------------------------------------------------ *)
(* executable form of the n-level unfolding comparison, for the harness *)
Section Simb.
  Variables g1 g2 : graph.
  Variable rec : obj -> obj -> bool.
  Fixpoint simb_list (l1 l2 : list obj) : bool :=
    match l1, l2 with
    | [], [] => true
    | x :: t1, y :: t2 => rec x y && simb_list t1 t2
    | _, _ => false
    end.
  Definition simb_entry (d1 d2 : dict) (k : bytes) : bool :=
    match lookup k d1, lookup k d2 with
    | None, None => true
    | Some v1, Some v2 => rec (norm g1 d1 k v1) (norm g2 d2 k v2)
    | _, _ => false
    end.
  Definition simb_dict (d1 d2 : dict) : bool :=
    forallb (fun kv => simb_entry d1 d2 (fst kv)) d1 && forallb (fun kv => simb_entry d1 d2 (fst kv)) d2.
End Simb.

Fixpoint simb (n : nat) (g1 : graph) (o1 : obj) (g2 : graph) (o2 : obj) : bool :=
  match n with
  | O => true
  | S m =>
      match deref g1 o1, deref g2 o2 with
      | ONull, ONull => true
      | OBool a, OBool b => Bool.eqb a b
      | OInt a, OInt b => a =? b
      | OFloat a, OFloat b => beqb a b
      | OName a, OName b => beqb a b
      | OStr a, OStr b => beqb a b
      | OHex a, OHex b => beqb a b
      | ORef a ga, ORef b gb => simb m g1 (ORef a ga) g2 (ORef b gb)
      | OArr a, OArr b => simb_list (fun x y => simb m g1 x g2 y) a b
      | ODict a, ODict b => simb_dict g1 g2 (fun x y => simb m g1 x g2 y) a b
      | OStream a ra, OStream b rb =>
          simb_dict g1 g2 (fun x y => simb m g1 x g2 y) a b && beqb (rawbytes ra) (rawbytes rb)
      | _, _ => false
      end
  end.

(* ------------------------------------------------------------------ *)
(* optimizeContentStreamUsage (optimize.go): the duplicate test for page content streams,
   used when Configuration.OptimizeDuplicateContentStreams is set: a cached stream sd1 with
   the same StreamLength as the new stream sd is a duplicate when
   model.EqualObjects(sd, sd1, xRefTable, nil) (both dereferenced) says (true, nil); an error is returned. *)
Definition contentStreamDup (fuel : nat) (limit : Z) (g : graph) (cached new : obj) : cmp :=
  match cached, new with
  | OStream _ r1, OStream _ r2 =>
      if Nat.eqb (length (rawbytes r1)) (length (rawbytes r2))
      then EqualObjects fuel limit g new cached [] else CF
  | _, _ => CF
  end.

(* ------------------------------------------------------------------ *)
(* the optimizer's action on the graph: some references are replaced by others
   (optimizeFontResourcesDict: rDict[rName] = *ir, optimizeXObjectImage, optimizeForm,
   optimizePageContent: pageDict["Contents"] = *ir) *)
Fixpoint substo (sigma : Z -> Z) (o : obj) : obj :=
  match o with
  | ORef nr gen => if sigma nr =? nr then ORef nr gen else ORef (sigma nr) 0
  | OArr l => OArr (map (substo sigma) l)
  | ODict d => ODict (map (fun kv => (fst kv, substo sigma (snd kv))) d)
  | OStream d raw => OStream (map (fun kv => (fst kv, substo sigma (snd kv))) d) raw
  | _ => o
  end.
Definition substg (sigma : Z -> Z) (g : graph) : graph := fun nr => substo sigma (g nr).

(* ------------------------------------------------------------------ *)
(* resource consolidation (pkg/pdfcpu/model/xreftable.go: ConsolidatePageResources ->
   consolidatePageResourcesForNode -> consolidateResources / consolidateResourceSubDict).
   One resource category (Font, XObject, ExtGState, ColorSpace, Pattern, Shading, Properties)
   at a time.  A category dict maps resource names to objects (here: object ids); it may be
   an indirect object SHARED by several pages (through per-page Resources, one shared
   Resources dict, or inherited Resources): sharing is explicit, pages refer to a dict id. *)
Definition rdict := list (bytes * Z).
Definition rstore := Z -> rdict.
Definition rpage := (Z * list bytes)%type.     (* (shared category dict id, names the content uses) *)

Fixpoint lookupR (k : bytes) (d : rdict) : option Z :=
  match d with
  | [] => None
  | (k', v) :: r => if beqb k' k then Some v else lookupR k r
  end.
Definition memb (k : bytes) (l : list bytes) : bool := existsb (beqb k) l.

(* consolidateResourceSubDict: `for k := range d1 { if !res[k] { d1.Delete(k) } }` *)
Definition pruneR (used : list bytes) (d : rdict) : rdict :=
  filter (fun kv => memb (fst kv) used) d.

Definition updR (st : rstore) (id : Z) (d : rdict) : rstore :=
  fun i => if i =? id then d else st i.

(* the pass as written: consolidateResources puts o.Clone() / d1.Clone() of the dereferenced
   category dict into pAttrs.Resources; pruning works on the clone, the page gets it as its
   own direct dict, the shared object is untouched *)
Fixpoint consolidateCloned (st : rstore) (pages : list rpage) : rstore * list rdict :=
  match pages with
  | [] => (st, [])
  | p :: r =>
      let d := pruneR (snd p) (st (fst p)) in
      let (st', ds) := consolidateCloned st r in
      (st', d :: ds)
  end.

(* the same pass without the clone: pruning deletes from the shared object *)
Fixpoint consolidateInPlace (st : rstore) (pages : list rpage) : rstore * list rdict :=
  match pages with
  | [] => (st, [])
  | p :: r =>
      let d := pruneR (snd p) (st (fst p)) in
      let (st', ds) := consolidateInPlace (updR st (fst p) d) r in
      (st', d :: ds)
  end.

(* ------------------------------------------------------------------ *)
(* duplicate form XObjects (optimize.go: optimizeXObjectResource -> optimizeForm ->
   optimizeXObjectForm).  For every form, in processing order:
     1. ctx.DeleteDictEntry(sd.Dict, "PieceInfo")            (normalise FIRST)
     2. compare with every cached form (EqualObjects(sd, cached)); equal: the reference is
        replaced by the cached form, else the (normalised) form is cached.
   dedupAcc returns the cache = the surviving forms in order. *)
Section Dedup.
  Variable A : Type.
  Variable norm : A -> A.
  Variable eqf : A -> A -> bool.          (* eqf new cached *)

  Fixpoint dedupAcc (cache : list A) (l : list A) : list A :=
    match l with
    | [] => cache
    | x :: r =>
        let y := norm x in
        if existsb (eqf y) cache then dedupAcc cache r else dedupAcc (cache ++ [y]) r
    end.
  Definition dedup (l : list A) : list A := dedupAcc [] l.

  (* the other order: compare the form as it is, strip it afterwards *)
  Fixpoint dedupLateAcc (cache : list A) (l : list A) : list A :=
    match l with
    | [] => cache
    | x :: r =>
        if existsb (eqf x) cache then dedupLateAcc cache r else dedupLateAcc (cache ++ [norm x]) r
    end.
  Definition dedupLate (l : list A) : list A := dedupLateAcc [] l.
End Dedup.

Definition kPieceInfo : bytes := [80;105;101;99;101;73;110;102;111]%N.
(* Dict.Delete(key) *)
Definition delKey (k : bytes) (d : dict) : dict := filter (fun kv => negb (beqb (fst kv) k)) d.
Definition normForm (o : obj) : obj :=
  match o with OStream d r => OStream (delKey kPieceInfo d) r | _ => o end.
Definition eqForm (limit : Z) (g : graph) (x c : obj) : bool :=
  match EqualObjects (enoughFuel limit) limit g x c [] with CT => true | _ => false end.

(* number of distinct forms after one pass and after a second pass over its result *)
Definition formDedupCounts (limit : Z) (g : graph) (forms : list Z) : nat * nat :=
  let s1 := dedup obj normForm (eqForm limit g) (map g forms) in
  (length s1, length (dedup obj normForm (eqForm limit g) s1)).
Definition formDedupLateCounts (limit : Z) (g : graph) (forms : list Z) : nat * nat :=
  let s1 := dedupLate obj normForm (eqForm limit g) (map g forms) in
  (length s1, length (dedupLate obj normForm (eqForm limit g) s1)).

(* ------------------------------------------------------------------ *)
(* removeEmptyContentStreams (optimize.go, only when OptimizeDuplicateContentStreams is set):
   a page's /Contents array keeps exactly the elements whose DECODED content is not empty
   (`if len(contentStreamDict.Content) > 0 { newContentArr = append(newContentArr, c) }`);
   the page content is the concatenation of the decoded elements (XRefTable.PageContent). *)
Definition removeEmpty (l : list bytes) : list bytes :=
  filter (fun c => negb (Nat.eqb (length c) 0)) l.
Definition pageContent (l : list bytes) : bytes := concat l.
