(* C30 — proofs, part 2: answer-set validation, dial loop, allow-list normalisation, URL/redirect rules. *)
From Coq Require Import ZArith NArith List Bool Lia ZifyBool ZifyNat ZifyN.
From PV Require Import C30.Model C30.Spec C30.ProofsIP.
Import ListNotations.
Open Scope N_scope.

(* ---- dial loop: the targets are a prefix of the (string-normalised) resolver answer, in order *)
Lemma dialLoop_prefix ips : forall script,
  exists n, fst (dialLoop ips script) = firstn n (map dialTarget ips).
Proof.
  induction ips as [|a rest IH]; intros script; cbn [dialLoop].
  - exists 0%nat. reflexivity.
  - destruct (hd false script).
    + exists 1%nat. reflexivity.
    + destruct (IH (tl script)) as [n Hn].
      destruct (dialLoop rest (tl script)) as [ts c]. cbn [fst] in *.
      exists (S n). cbn [map firstn]. rewrite Hn. reflexivity.
Qed.

Lemma firstn_In {A} n (l : list A) x : In x (firstn n l) -> In x l.
Proof.
  revert l. induction n as [|n IH]; intros [|y l] H; cbn in *; try contradiction.
  destruct H as [H|H]; [left; exact H|right; apply IH; exact H].
Qed.

Lemma dialLoop_In ips script t :
  In t (fst (dialLoop ips script)) -> exists a, In a ips /\ t = dialTarget a.
Proof.
  destruct (dialLoop_prefix ips script) as [n Hn]. rewrite Hn. intros H.
  apply firstn_In in H. apply in_map_iff in H. destruct H as (a & E & Ha).
  exists a. split; [exact Ha|symmetry; exact E].
Qed.

(* the loop stops right after the first successful dial; it tries everything if none succeeds *)
Lemma dialLoop_connected ips : forall script ts,
  dialLoop ips script = (ts, true) ->
  exists k, nth k script false = true /\ (forall j, (j < k)%nat -> nth j script false = false)
            /\ ts = firstn (S k) (map dialTarget ips) /\ (k < length ips)%nat.
Proof.
  induction ips as [|a rest IH]; intros script ts H; cbn [dialLoop] in H.
  - discriminate.
  - destruct script as [|s script']; cbn [hd tl] in H.
    + destruct (dialLoop rest []) as [ts' c] eqn:E. injection H as <- ->.
      destruct (IH [] ts' E) as (k & Hk & _). destruct k; discriminate.
    + destruct s.
      * injection H as <-. exists 0%nat. cbn. repeat split; try lia. 
      * destruct (dialLoop rest script') as [ts' c] eqn:E. injection H as <- ->.
        destruct (IH script' ts' E) as (k & Hk & Hlt & Hts & Hlen).
        exists (S k). cbn [nth length]. repeat split; try lia.
        -- exact Hk.
        -- intros [|j] Hj; [reflexivity|]. apply Hlt. lia.
        -- cbn [map firstn]. rewrite Hts. reflexivity.
Qed.

Lemma dialLoop_all_fail ips : forall script ts,
  dialLoop ips script = (ts, false) -> ts = map dialTarget ips.
Proof.
  induction ips as [|a rest IH]; intros script ts H; cbn [dialLoop] in H.
  - injection H as <-. reflexivity.
  - destruct (hd false script); [discriminate|].
    destruct (dialLoop rest (tl script)) as [ts' c] eqn:E. injection H as <- ->.
    cbn [map]. rewrite (IH _ _ E). reflexivity.
Qed.

(* ---- validation of an answer set *)
Lemma forallb_not_blocked ips :
  Forall bytes ips ->
  forallb (fun a => negb (revocationBlockedIP a)) ips = true <->
  (forall a, In a ips -> private_or_local a = false).
Proof.
  intros HB. rewrite forallb_forall. rewrite Forall_forall in HB.
  split; intros H a Ha; specialize (H a Ha); rewrite blocked_iff_spec in * by (apply HB; exact Ha);
    destruct (private_or_local a); cbn in *; congruence.
Qed.

Lemma revocationDial_sound allowed host ips script ts c :
  Forall bytes ips ->
  revocationDial allowed host (Some ips) script = DDialled ts c ->
  ips <> [] /\
  (exists n, ts = firstn n (map dialTarget ips)) /\
  (forall t, In t ts -> exists a, In a ips /\ t = dialTarget a) /\
  (allowedLookup allowed (normalizeRevocationHost host) = false ->
     (forall a, In a ips -> private_or_local a = false) /\
     (forall t, In t ts -> private_or_local t = false)).
Proof.
  intros HB H. unfold revocationDial in H.
  destruct (validateRevocationIPs host ips allowed) eqn:V; [|discriminate].
  destruct (dialLoop ips script) as [ts' c'] eqn:L. injection H as <- <-.
  assert (NE : ips <> []) by (intros ->; discriminate V).
  split; [exact NE|].
  split; [destruct (dialLoop_prefix ips script) as [n Hn]; rewrite L in Hn; exists n; exact Hn|].
  assert (IN : forall t, In t ts' -> exists a, In a ips /\ t = dialTarget a).
  { intros t Ht. apply (dialLoop_In ips script). rewrite L. exact Ht. }
  split; [exact IN|].
  intros NA. unfold validateRevocationIPs in V. destruct ips as [|i0 ir]; [congruence|].
  rewrite NA in V. pose proof (proj1 (forallb_not_blocked _ HB) V) as V'; clear V; rename V' into V.
  split; [exact V|].
  intros t Ht. destruct (IN t Ht) as (a & Ha & ->).
  rewrite spec_dialTarget; [apply V; exact Ha|].
  rewrite Forall_forall in HB. apply HB. exact Ha.
Qed.

Lemma revocationDial_all_or_nothing allowed host ips script :
  Forall bytes ips ->
  allowedLookup allowed (normalizeRevocationHost host) = false ->
  (exists a, In a ips /\ private_or_local a = true) ->
  revocationDial allowed host (Some ips) script = DRejected.
Proof.
  intros HB NA (a & Ha & Pa). unfold revocationDial.
  destruct (validateRevocationIPs host ips allowed) eqn:V; [|reflexivity].
  unfold validateRevocationIPs in V. destruct ips as [|i0 ir]; [discriminate|].
  rewrite NA in V. pose proof (proj1 (forallb_not_blocked _ HB) V) as V'; clear V; rename V' into V. rewrite (V a Ha) in Pa. discriminate.
Qed.

Lemma revocationDial_nothing allowed host script :
  revocationDial allowed host None script = DResolveErr /\
  revocationDial allowed host (Some []) script = DRejected.
Proof. split; reflexivity. Qed.

(* allow-listed host: every answer is dialled unchecked (the exception the property grants) *)
Lemma revocationDial_allowlisted allowed host ips script :
  ips <> [] -> allowedLookup allowed (normalizeRevocationHost host) = true ->
  revocationDial allowed host (Some ips) script =
  DDialled (fst (dialLoop ips script)) (snd (dialLoop ips script)).
Proof.
  intros NE A. unfold revocationDial, validateRevocationIPs. destruct ips as [|i0 ir]; [congruence|].
  rewrite A. destruct (dialLoop (i0 :: ir) script); reflexivity.
Qed.

(* ---- image box twin: all answers validated, exactly ips[0] dialled, no allow-list *)
Lemma imageBoxDial_sound ips script ts c :
  Forall bytes ips ->
  imageBoxDial (Some ips) script = DDialled ts c ->
  exists a0 rest, ips = a0 :: rest /\ ts = [dialTarget a0] /\
  (forall a, In a ips -> private_or_local a = false) /\
  (forall t, In t ts -> private_or_local t = false).
Proof.
  intros HB H. unfold imageBoxDial in H.
  destruct (rejectImageBoxIPs ips) eqn:V; [|discriminate]. injection H as <- <-.
  unfold rejectImageBoxIPs in V. destruct ips as [|a0 rest]; [discriminate|].
  exists a0, rest. split; [reflexivity|]. split; [reflexivity|].
  assert (V' : forall a, In a (a0 :: rest) -> private_or_local a = false).
  { apply (proj1 (forallb_not_blocked _ HB)). exact V. }
  split; [exact V'|].
  intros t [<-|[]]. cbn [hd]. rewrite spec_dialTarget; [apply V'; left; reflexivity|].
  inversion HB; assumption.
Qed.

Lemma imageBoxDial_all_or_nothing ips script :
  Forall bytes ips ->
  (exists a, In a ips /\ private_or_local a = true) ->
  imageBoxDial (Some ips) script = DRejected.
Proof.
  intros HB (a & Ha & Pa). unfold imageBoxDial.
  destruct (rejectImageBoxIPs ips) eqn:V; [|reflexivity].
  unfold rejectImageBoxIPs in V. destruct ips as [|i0 ir]; [discriminate|].
  pose proof (proj1 (forallb_not_blocked _ HB) V) as V'; clear V; rename V' into V. rewrite (V a Ha) in Pa. discriminate.
Qed.

(* ---- allow-list: membership is equality of normalised names; the empty name is never allowed *)
Lemma allowed_iff hosts host :
  allowedLookup (allowedRevocationHostSet hosts) (normalizeRevocationHost host) = true <->
  normalizeRevocationHost host <> [] /\
  exists h, In h hosts /\ normalizeRevocationHost h = normalizeRevocationHost host.
Proof.
  unfold allowedLookup, allowedRevocationHostSet. rewrite existsb_exists. split.
  - intros (x & Hx & E). apply filter_In in Hx. destruct Hx as [Hx NE].
    apply list_eqb_eq in E. subst x. apply in_map_iff in Hx. destruct Hx as (h & Eh & Hh).
    split; [destruct (normalizeRevocationHost host); [discriminate|congruence]|].
    exists h. split; [exact Hh|exact Eh].
  - intros (NE & h & Hh & Eh). exists (normalizeRevocationHost host). split; [|apply list_eqb_refl].
    apply filter_In. split; [rewrite <- Eh; apply in_map; exact Hh|].
    destruct (normalizeRevocationHost host); [congruence|reflexivity].
Qed.

(* normalisation only lowers ASCII case, strips surrounding ASCII white space and at most one
   trailing dot: two names with the same normal form differ by nothing else *)
Definition spaces (l : bstr) : Prop := Forall (fun b => isSpaceAscii b = true) l.

Lemma trimLeft_shape l : exists pre, l = pre ++ trimLeft l /\ spaces pre.
Proof.
  induction l as [|b r IH]; cbn [trimLeft].
  - exists []. split; [reflexivity|constructor].
  - destruct (isSpaceAscii b) eqn:E.
    + destruct IH as (pre & E1 & S1). exists (b :: pre). split; [cbn; f_equal; exact E1|constructor; assumption].
    + exists []. split; [reflexivity|constructor].
Qed.

Lemma trimRight_shape l : exists post, l = trimRight l ++ post /\ spaces post.
Proof.
  unfold trimRight. destruct (trimLeft_shape (rev l)) as (pre & E & S).
  exists (rev pre). split.
  - rewrite <- rev_app_distr, <- E, rev_involutive. reflexivity.
  - unfold spaces in *. rewrite Forall_forall in *. intros x Hx. apply S. apply in_rev. exact Hx.
Qed.

Lemma TrimSuffixDot_shape l : exists dot, l = TrimSuffixDot l ++ dot /\ (dot = [] \/ dot = [46]).
Proof.
  unfold TrimSuffixDot. destruct (rev l) as [|x r] eqn:E.
  - exists []. rewrite app_nil_r. auto.
  - assert (L : l = rev r ++ [x]) by (rewrite <- (rev_involutive l), E; reflexivity).
    destruct (N.eq_dec x 46) as [->|NE].
    + exists [46]. auto.
    + exists []. rewrite app_nil_r. split; [|auto].
      destruct x as [|p]; [reflexivity|].
      do 6 (destruct p as [p|p|]; try reflexivity). congruence.
Qed.

Lemma normalize_shape h : exists pre dot post,
  map toLowerAscii h = pre ++ normalizeRevocationHost h ++ dot ++ post /\
  spaces pre /\ spaces post /\ (dot = [] \/ dot = [46]).
Proof.
  unfold normalizeRevocationHost, TrimSpace.
  destruct (trimLeft_shape (map toLowerAscii h)) as (pre & E1 & S1).
  destruct (trimRight_shape (trimLeft (map toLowerAscii h))) as (post & E2 & S2).
  destruct (TrimSuffixDot_shape (trimRight (trimLeft (map toLowerAscii h)))) as (dot & E3 & D).
  exists pre, dot, post. repeat split; try assumption.
  rewrite E1 at 1. rewrite E2 at 1. rewrite E3 at 1. rewrite <- !app_assoc. reflexivity.
Qed.

(* ---- URL and redirect rules *)
Lemma validateRevocationURL_sound u :
  validateRevocationURL u = true ->
  exists p, u = Some p /\ (uScheme p = s_http \/ uScheme p = s_https) /\ uHasUser p = false
            /\ uHostname p <> [].
Proof.
  destruct u as [p|]; [|discriminate]. cbn [validateRevocationURL]. intros H. exists p.
  destruct (list_eqb (uScheme p) s_http) eqn:E1; destruct (list_eqb (uScheme p) s_https) eqn:E2;
    cbn [negb andb] in H; try discriminate;
    (destruct (uHasUser p); [discriminate|]);
    (destruct (uHostname p); [discriminate|]);
    (split; [reflexivity|split; [|split; [reflexivity|discriminate]]]);
    rewrite ?list_eqb_eq in *; auto.
Qed.

Lemma revocationRedirect_sound n u :
  revocationRedirect n u = true -> n < maxRevocationRedirects /\ validateRevocationURL u = true.
Proof.
  unfold revocationRedirect. destruct (maxRevocationRedirects <=? n) eqn:E; [discriminate|].
  intros H. split; [lia|exact H].
Qed.

Lemma validateImageBoxRemoteURL_sound p :
  validateImageBoxRemoteURL p = true ->
  uHasUser p = false /\ uHostname p <> [] /\
  (forall a, uHostIP p = Some a -> bytes a -> private_or_local a = false).
Proof.
  unfold validateImageBoxRemoteURL. destruct (uHasUser p); [discriminate|].
  destruct (uHostname p); [discriminate|]. intros H.
  split; [reflexivity|]. split; [discriminate|].
  intros a Ea Ba. rewrite Ea in H. cbn in H. rewrite imageBox_is_revocation, blocked_iff_spec in H by exact Ba.
  destruct (private_or_local a); [discriminate|reflexivity].
Qed.

Lemma imageBoxRemoteURL_sound u :
  imageBoxRemoteURL u = (true, true) ->
  exists p, u = Some p /\ (uScheme p = s_http \/ uScheme p = s_https) /\ validateImageBoxRemoteURL p = true.
Proof.
  destruct u as [p|]; [|discriminate]. cbn [imageBoxRemoteURL]. intros H. exists p.
  destruct (isEmpty (uScheme p)); [discriminate|].
  destruct (list_eqb (uScheme p) s_http) eqn:E1; destruct (list_eqb (uScheme p) s_https) eqn:E2;
    cbn [negb andb] in H; try discriminate;
    (destruct (validateImageBoxRemoteURL p); [|discriminate]);
    (split; [reflexivity|split; [|reflexivity]]); rewrite ?list_eqb_eq in *; auto.
Qed.

(* ---- histories: every request of a client's lifetime gets the per-dial guarantee *)
Lemma In_combine_map {A B} (f : A -> B) (l : list A) q o :
  In (q, o) (combine l (map f l)) -> In q l /\ o = f q.
Proof.
  induction l as [|x xs IH]; cbn [map combine In]; [contradiction|].
  intros [E|H]; [injection E as <- <-; auto|]. destruct (IH H) as [H1 H2]. auto.
Qed.

Definition answer_bytes (q : dialReq) : Prop :=
  match rqAnswer q with Some ips => Forall bytes ips | None => True end.

Definition per_dial_guarantee (allowedHost : bool) (q : dialReq) (o : dialOutcome) : Prop :=
  match o with
  | DDialled ts c =>
    exists ips, rqAnswer q = Some ips /\ ips <> [] /\
      (exists n, ts = firstn n (map dialTarget ips)) /\
      (forall t, In t ts -> exists a, In a ips /\ t = dialTarget a) /\
      (allowedHost = false ->
         (forall a, In a ips -> private_or_local a = false) /\
         (forall t, In t ts -> private_or_local t = false))
  | _ => True
  end /\
  (allowedHost = false ->
   (exists ips a, rqAnswer q = Some ips /\ In a ips /\ private_or_local a = true) -> o = DRejected).

Lemma revocationDial_guarantee allowed q :
  answer_bytes q ->
  per_dial_guarantee (allowedLookup allowed (normalizeRevocationHost (rqHost q))) q
    (revocationDial allowed (rqHost q) (rqAnswer q) (rqScript q)).
Proof.
  intros HB. unfold answer_bytes in HB. split.
  - destruct (rqAnswer q) as [ips|] eqn:EA; [|exact I].
    destruct (revocationDial allowed (rqHost q) (Some ips) (rqScript q)) as [| |ts c] eqn:ED; try exact I.
    exists ips. split; [reflexivity|]. apply (revocationDial_sound _ _ _ _ _ _ HB ED).
  - intros NA (ips & a & EA & Ha & Pa). rewrite EA in *.
    apply revocationDial_all_or_nothing; [exact HB|exact NA|exists a; auto].
Qed.

Lemma revocationDialHistory_sound allowed reqs :
  Forall answer_bytes reqs ->
  forall q o, In (q, o) (combine reqs (revocationDialHistory allowed reqs)) ->
  per_dial_guarantee (allowedLookup allowed (normalizeRevocationHost (rqHost q))) q o.
Proof.
  intros HB q o H. unfold revocationDialHistory in H.
  apply In_combine_map in H. destruct H as [Hq ->].
  apply revocationDial_guarantee. rewrite Forall_forall in HB. apply HB. exact Hq.
Qed.

Lemma imageBoxDial_guarantee q :
  answer_bytes q -> per_dial_guarantee false q (imageBoxDial (rqAnswer q) (rqScript q)).
Proof.
  intros HB. unfold answer_bytes in HB. split.
  - destruct (rqAnswer q) as [ips|] eqn:EA; [|exact I].
    destruct (imageBoxDial (Some ips) (rqScript q)) as [| |ts c] eqn:ED; try exact I.
    destruct (imageBoxDial_sound _ _ _ _ HB ED) as (a0 & rest & -> & -> & V & VT).
    exists (a0 :: rest). split; [reflexivity|]. split; [discriminate|].
    split; [exists 1%nat; reflexivity|].
    split; [intros t [<-|[]]; exists a0; split; [left; reflexivity|reflexivity]|].
    intros _. split; assumption.
  - intros _ (ips & a & EA & Ha & Pa). rewrite EA in *.
    apply imageBoxDial_all_or_nothing; [exact HB|exists a; auto].
Qed.

Lemma imageBoxDialHistory_sound reqs :
  Forall answer_bytes reqs ->
  forall q o, In (q, o) (combine reqs (imageBoxDialHistory reqs)) -> per_dial_guarantee false q o.
Proof.
  intros HB q o H. unfold imageBoxDialHistory in H.
  apply In_combine_map in H. destruct H as [Hq ->].
  apply imageBoxDial_guarantee. rewrite Forall_forall in HB. apply HB. exact Hq.
Qed.

(* ---- check-then-use: the dial decision is a member of the vetted answer and passes the policy *)
Lemma imageBoxDialDecision_sound answer a :
  imageBoxDialDecision answer = Some a ->
  exists ips, answer = Some ips /\ In a ips /\ rejectImageBoxIPs ips = true /\
              imageBoxBlockedIP a = false /\
              (Forall bytes ips -> private_or_local a = false /\
                                   forall b, In b ips -> private_or_local b = false).
Proof.
  unfold imageBoxDialDecision. destruct answer as [ips|]; [|discriminate].
  destruct (rejectImageBoxIPs ips) eqn:V; [|discriminate]. intros E. injection E as <-.
  exists ips. split; [reflexivity|].
  unfold rejectImageBoxIPs in V. destruct ips as [|a0 rest]; [discriminate|]. cbn [hd].
  split; [left; reflexivity|]. split; [exact V|].
  assert (NB : imageBoxBlockedIP a0 = false).
  { cbn [forallb] in V. apply andb_true_iff in V. destruct V as [V _].
    destruct (imageBoxBlockedIP a0); [discriminate|reflexivity]. }
  split; [exact NB|]. intros HB.
  pose proof (proj1 (forallb_not_blocked _ HB) V) as V'.
  split; [apply V'; left; reflexivity|exact V'].
Qed.

Lemma imageBoxDial_decision answer script :
  imageBoxDial answer script =
  match answer with
  | None => DResolveErr
  | Some _ => match imageBoxDialDecision answer with
              | Some a => DDialled [dialTarget a] (hd false script)
              | None => DRejected
              end
  end.
Proof.
  unfold imageBoxDial, imageBoxDialDecision. destruct answer as [ips|]; [|reflexivity].
  destruct (rejectImageBoxIPs ips); reflexivity.
Qed.

Lemma revocationDialCandidates_sound allowed host answer a :
  In a (revocationDialCandidates allowed host answer) ->
  exists ips, answer = Some ips /\ In a ips /\ validateRevocationIPs host ips allowed = true /\
    (allowedLookup allowed (normalizeRevocationHost host) = false ->
       revocationBlockedIP a = false /\
       (Forall bytes ips -> private_or_local a = false /\
                            forall b, In b ips -> private_or_local b = false)).
Proof.
  unfold revocationDialCandidates. destruct answer as [ips|]; [|intros []].
  destruct (validateRevocationIPs host ips allowed) eqn:V; [|intros []]. intros Ha.
  exists ips. split; [reflexivity|]. split; [exact Ha|]. split; [exact V|].
  intros NA. unfold validateRevocationIPs in V. destruct ips as [|i0 ir]; [destruct Ha|].
  rewrite NA in V. split.
  - rewrite forallb_forall in V. specialize (V a Ha). destruct (revocationBlockedIP a); [discriminate|reflexivity].
  - intros HB. pose proof (proj1 (forallb_not_blocked _ HB) V) as V'. split; [apply V'; exact Ha|exact V'].
Qed.

Lemma revocationDial_candidates allowed host answer script :
  revocationDial allowed host answer script =
  match answer with
  | None => DResolveErr
  | Some ips => if validateRevocationIPs host ips allowed
                then let (ts, c) := dialLoop (revocationDialCandidates allowed host answer) script in DDialled ts c
                else DRejected
  end.
Proof.
  unfold revocationDial, revocationDialCandidates. destruct answer as [ips|]; [|reflexivity].
  destruct (validateRevocationIPs host ips allowed); reflexivity.
Qed.

(* a rebinding resolver: whatever it would answer to a 2nd, 3rd ... lookup is never consulted *)
Lemma connect_first_answer_only allowed host first later later' script :
  fst (fst (imageBoxConnect (first :: later) script)) = fst (fst (imageBoxConnect (first :: later') script)) /\
  fst (fst (revocationConnect allowed host (first :: later) script)) =
  fst (fst (revocationConnect allowed host (first :: later') script)) /\
  snd (fst (imageBoxConnect (first :: later) script)) = 1 /\
  snd (fst (revocationConnect allowed host (first :: later) script)) = 1 /\
  snd (imageBoxConnect (first :: later) script) = later /\
  snd (revocationConnect allowed host (first :: later) script) = later.
Proof. repeat split. Qed.

(* ---- redirect chains: every URL that is requested passed the same validation as an initial URL *)
Lemma revocationFollow_valid targets : forall nvia u,
  In u (revocationFollow nvia targets) -> validateRevocationURL u = true.
Proof.
  induction targets as [|t rest IH]; intros nvia u H; cbn [revocationFollow] in H; [destruct H|].
  destruct (revocationRedirect nvia t) eqn:R; [|destruct H].
  destruct H as [<-|H]; [apply (revocationRedirect_sound nvia t R)|apply (IH _ _ H)].
Qed.

Lemma revocationFollow_length targets : forall nvia,
  N.of_nat (length (revocationFollow nvia targets)) + nvia <= N.max nvia maxRevocationRedirects.
Proof.
  induction targets as [|t rest IH]; intros nvia; cbn [revocationFollow length]; [lia|].
  destruct (revocationRedirect nvia t) eqn:R; cbn [length]; [|lia].
  destruct (revocationRedirect_sound nvia t R) as [Hn _]. specialize (IH (nvia + 1)).
  unfold maxRevocationRedirects in *. lia.
Qed.

Lemma revocationFollow_prefix targets : forall nvia,
  exists k, revocationFollow nvia targets = firstn k targets.
Proof.
  induction targets as [|t rest IH]; intros nvia; cbn [revocationFollow]; [exists 0%nat; reflexivity|].
  destruct (revocationRedirect nvia t); [|exists 0%nat; reflexivity].
  destruct (IH (nvia + 1)) as [k Hk]. exists (S k). cbn [firstn]. rewrite Hk. reflexivity.
Qed.

Lemma revocationFetchChain_valid first targets u :
  In u (revocationFetchChain first targets) -> validateRevocationURL u = true.
Proof.
  unfold revocationFetchChain. destruct (validateRevocationURL first) eqn:V; [|intros []].
  intros [<-|H]; [exact V|apply (revocationFollow_valid _ _ _ H)].
Qed.

Lemma revocationFetchChain_length first targets :
  (length (revocationFetchChain first targets) <= 10)%nat.
Proof.
  unfold revocationFetchChain. destruct (validateRevocationURL first); cbn [length]; [|lia].
  pose proof (revocationFollow_length targets 1) as H. unfold maxRevocationRedirects in H. lia.
Qed.

Lemma imageBoxFollow_valid targets u :
  In u (imageBoxFollow targets) -> validateImageBoxRemoteURL u = true.
Proof.
  induction targets as [|t rest IH]; cbn [imageBoxFollow]; [intros []|].
  destruct (imageBoxRedirect t) eqn:R; [|intros []].
  intros [<-|H]; [exact R|apply IH; exact H].
Qed.

Lemma imageBoxFetchChain_valid first targets u :
  In u (imageBoxFetchChain first targets) -> validateImageBoxRemoteURL u = true.
Proof.
  unfold imageBoxFetchChain. destruct (imageBoxRemoteURL (Some first)) as [[|] [|]] eqn:E; try (intros F; solve [destruct F]).
  intros [<-|H]; [|apply (imageBoxFollow_valid _ _ H)].
  destruct (imageBoxRemoteURL_sound _ E) as (p & Ep & _ & V). injection Ep as <-. exact V.
Qed.
