open Model
open Common
let fields (t : civil) : string =
  String.concat "," (List.map hex_of_z [t.cy; t.cmo; t.cd; t.ch; t.cmi; t.cs; t.coff])
let dispatch fn args = match fn, args with
  | "DateString", [y; mo; d; h; mi; s; off] ->
    hex_of_bytes (dateString { cy = z_of_hex y; cmo = z_of_hex mo; cd = z_of_hex d; ch = z_of_hex h;
                               cmi = z_of_hex mi; cs = z_of_hex s; coff = z_of_hex off })
  | "DateTime", [s] ->
    (match dateTime (bytes_of_hex s) with
     | DUtf16 -> "utf16"
     | DErr -> "err"
     | DOk t -> "ok:" ^ hex_of_z (unix_of t) ^ "," ^ hex_of_z t.coff)
  | "DateTimeFields", [s] ->
    (match dateTime (bytes_of_hex s) with
     | DUtf16 -> "utf16"
     | DErr -> "err"
     | DOk t -> "ok:" ^ fields t)
  | "IsoFull", [s] -> str_of_bool (iso_full_b (bytes_of_hex s))
  | _ -> failwith ("unknown function " ^ fn)
let () = main dispatch
