// genc04 regenerates coq/C04/Generated.v (and a JSON copy of the same table for
// the harness) from the cobra command definitions in <repo>/cmd/pdfcpu (go/ast
// only, no pdfcpu import). It FAILS (exit 1, after writing what it has) on any
// shape it does not understand.
//
//	genc04 -repo <repo root> -out <Generated.v> [-json <table.json>]
//
// What it understands
//
//  1. The command tree. `func commands() []*cobra.Command { return []*cobra.Command{ aCmd(), ... } }`
//     and `rootCmd.AddCommand(commands()...)`. Every function returning
//     *cobra.Command ("constructor") may only contain: assignments
//     `x := &cobra.Command{...}` / `x := otherCmd()` / anything that contains no
//     cobra.Command literal; expression statements that are calls (flag set-up,
//     `x.AddCommand(a, &cobra.Command{...}, otherCmd())`); one final
//     `return x` / `return &cobra.Command{...}`. A literal must have a string
//     literal `Use:`; the only accepted run hook is `RunE:`. Every cobra.Command
//     literal, every AddCommand call and every constructor of the package must be
//     accounted for by this walk (so a command attached in some other way is an
//     error, not a silently missing row).
//
//  2. Output-taking commands. The `Use:` string is tokenised (brackets, parens,
//     angle brackets, commas and "..." removed; `|` marks the next token as an
//     alternative; bracket depth marks a token optional). A command is
//     output-taking iff it has a placeholder whose name starts with "out". Kinds:
//     file (one out*File* placeholder), dir (outDir), dirfile (outDir + outFile).
//     Anything else is an error.
//
//  3. The handler walk (for every command that has RunE): an abstract
//     interpretation of the RunE expression over the package's own functions.
//     Events: a call of ensureOutputFileAvailable / ensureOutputDirEmpty /
//     ensureOutputDirOrFileAvailable = guard site (the three functions are not
//     entered); a call of runCommand / runCommandWithOutput, of any function of
//     package cli, of an api function whose name ends in "File", or of
//     os.Create/WriteFile/OpenFile/Rename/Remove/RemoveAll/Mkdir/MkdirAll =
//     dispatch. The state is the set of guards that MAY have been called on some
//     path reaching the current point (if/switch branches are joined by union,
//     a branch ending in return/continue/break does not flow on, loops may run
//     zero times, function literals are entered where they appear, package
//     functions are entered at their call sites and where they are passed as
//     values, recursion is cut). A dispatch reached with the empty state is
//     "uncovered". For every guard site the printed argument list and the chain
//     of enclosing conditions (through the call chain) are recorded.
//     A command WITHOUT an out* placeholder that reaches a guard site, or that
//     passes an identifier whose name starts with "out" to a cli function, is an
//     error (its Use string hides an output).
//
//  4. The printed source (go/printer) of the three guard functions, emitted as
//     Coq strings so that the proof can compare them with the text the hand
//     model was transcribed from.
package main

import (
	"bytes"
	"encoding/json"
	"flag"
	"fmt"
	"go/ast"
	"go/parser"
	"go/printer"
	"go/token"
	"os"
	"path/filepath"
	"sort"
	"strconv"
	"strings"
)

var fset = token.NewFileSet()
var problems []string

func problem(format string, a ...any) {
	problems = append(problems, fmt.Sprintf(format, a...))
}

func pos(n ast.Node) string {
	p := fset.Position(n.Pos())
	return fmt.Sprintf("%s:%d", filepath.Base(p.Filename), p.Line)
}

func show(n any) string {
	var b bytes.Buffer
	printer.Fprint(&b, fset, n)
	return b.String()
}

// ---------------------------------------------------------------- package

var funcs = map[string]*ast.FuncDecl{}
var imports = map[string]bool{} // local package names that are imports

const (
	gFile      = "ensureOutputFileAvailable"
	gDir       = "ensureOutputDirEmpty"
	gDirOrFile = "ensureOutputDirOrFileAvailable"
)

var guardBit = map[string]uint8{gFile: 1, gDir: 2, gDirOrFile: 4}
var guardCoq = map[string]string{gFile: "GFile", gDir: "GDir", gDirOrFile: "GDirOrFile"}

func isCobraCommandType(e ast.Expr) bool {
	if s, ok := e.(*ast.StarExpr); ok {
		e = s.X
	}
	sel, ok := e.(*ast.SelectorExpr)
	if !ok {
		return false
	}
	x, ok := sel.X.(*ast.Ident)
	return ok && x.Name == "cobra" && sel.Sel.Name == "Command"
}

func cobraLit(e ast.Expr) *ast.CompositeLit {
	if u, ok := e.(*ast.UnaryExpr); ok && u.Op == token.AND {
		e = u.X
	}
	cl, ok := e.(*ast.CompositeLit)
	if !ok || cl.Type == nil || !isCobraCommandType(cl.Type) {
		return nil
	}
	return cl
}

func countCobraLits(n ast.Node) int {
	c := 0
	ast.Inspect(n, func(x ast.Node) bool {
		if cl, ok := x.(*ast.CompositeLit); ok && cl.Type != nil && isCobraCommandType(cl.Type) {
			c++
		}
		return true
	})
	return c
}

func isConstructor(fd *ast.FuncDecl) bool {
	if fd.Recv != nil || fd.Type.Results == nil || len(fd.Type.Results.List) != 1 {
		return false
	}
	return isCobraCommandType(fd.Type.Results.List[0].Type) && len(fd.Type.Results.List[0].Names) <= 1
}

// ---------------------------------------------------------------- command tree

type token_ struct {
	Name     string `json:"name"`
	Optional bool   `json:"optional"`
	Alt      bool   `json:"alt"`
	Variadic bool   `json:"variadic"`
}

type cmdNode struct {
	name     string
	use      string
	runE     ast.Expr
	children []*cmdNode
	where    string
	attached bool
}

var litsSeen, addCommandSeen int
var constructorsSeen = map[string]bool{}

func parseLit(cl *ast.CompositeLit) *cmdNode {
	litsSeen++
	n := &cmdNode{where: pos(cl)}
	for _, el := range cl.Elts {
		kv, ok := el.(*ast.KeyValueExpr)
		if !ok {
			problem("%s: positional element in cobra.Command literal", pos(el))
			continue
		}
		k, ok := kv.Key.(*ast.Ident)
		if !ok {
			problem("%s: odd key in cobra.Command literal", pos(el))
			continue
		}
		switch {
		case k.Name == "Use":
			bl, ok := kv.Value.(*ast.BasicLit)
			if !ok || bl.Kind != token.STRING {
				problem("%s: Use is not a string literal", pos(kv))
				continue
			}
			s, err := strconv.Unquote(bl.Value)
			if err != nil {
				problem("%s: cannot unquote Use", pos(kv))
			}
			n.use = s
		case k.Name == "RunE":
			n.runE = kv.Value
		case strings.Contains(k.Name, "Run"):
			problem("%s: run hook %s is not understood (only RunE)", pos(kv), k.Name)
		}
	}
	if n.use == "" {
		problem("%s: cobra.Command literal without Use", n.where)
		n.use = "?"
	}
	n.name = strings.Fields(n.use)[0]
	return n
}

func constructorCall(e ast.Expr) (string, bool) {
	c, ok := e.(*ast.CallExpr)
	if !ok || len(c.Args) != 0 {
		return "", false
	}
	id, ok := c.Fun.(*ast.Ident)
	if !ok {
		return "", false
	}
	fd, ok := funcs[id.Name]
	if !ok || !isConstructor(fd) {
		return "", false
	}
	return id.Name, true
}

func analyzeConstructor(name string) *cmdNode {
	fd := funcs[name]
	if constructorsSeen[name] {
		problem("constructor %s used twice", name)
	}
	constructorsSeen[name] = true
	if fd.Type.Params != nil && len(fd.Type.Params.List) != 0 {
		problem("%s: constructor %s has parameters", pos(fd), name)
	}
	env := map[string]*cmdNode{}
	var all []*cmdNode
	var root *cmdNode
	operand := func(e ast.Expr) *cmdNode {
		if cl := cobraLit(e); cl != nil {
			n := parseLit(cl)
			all = append(all, n)
			return n
		}
		if cn, ok := constructorCall(e); ok {
			n := analyzeConstructor(cn)
			all = append(all, n)
			return n
		}
		if id, ok := e.(*ast.Ident); ok {
			if n, ok := env[id.Name]; ok {
				return n
			}
		}
		return nil
	}
	for i, st := range fd.Body.List {
		switch s := st.(type) {
		case *ast.AssignStmt:
			if len(s.Lhs) == 1 && len(s.Rhs) == 1 {
				if id, ok := s.Lhs[0].(*ast.Ident); ok {
					if cobraLit(s.Rhs[0]) != nil {
						env[id.Name] = operand(s.Rhs[0])
						continue
					}
					if _, ok := constructorCall(s.Rhs[0]); ok {
						env[id.Name] = operand(s.Rhs[0])
						continue
					}
				}
			}
			if countCobraLits(s) != 0 {
				problem("%s: cobra.Command literal in an assignment of unsupported shape", pos(s))
			}
		case *ast.ExprStmt:
			call, ok := s.X.(*ast.CallExpr)
			if !ok {
				problem("%s: unsupported expression statement in constructor %s", pos(s), name)
				continue
			}
			if sel, ok := call.Fun.(*ast.SelectorExpr); ok && sel.Sel.Name == "AddCommand" {
				addCommandSeen++
				x, ok := sel.X.(*ast.Ident)
				var parent *cmdNode
				if ok {
					parent = env[x.Name]
				}
				if parent == nil {
					problem("%s: AddCommand on something that is not a local command", pos(s))
					continue
				}
				if call.Ellipsis != token.NoPos {
					problem("%s: AddCommand(xs...) not understood", pos(s))
					continue
				}
				for _, a := range call.Args {
					ch := operand(a)
					if ch == nil {
						problem("%s: AddCommand argument %s not understood", pos(a), show(a))
						continue
					}
					if ch.attached {
						problem("%s: command attached twice", pos(a))
					}
					ch.attached = true
					parent.children = append(parent.children, ch)
				}
				continue
			}
			if countCobraLits(s) != 0 {
				problem("%s: cobra.Command literal inside a call of unsupported shape", pos(s))
			}
		case *ast.ReturnStmt:
			if i != len(fd.Body.List)-1 || len(s.Results) != 1 {
				problem("%s: unsupported return in constructor %s", pos(s), name)
				continue
			}
			root = operand(s.Results[0])
			if root == nil {
				problem("%s: constructor %s returns something not understood", pos(s), name)
			}
		default:
			problem("%s: unsupported statement (%T) in constructor %s", pos(st), st, name)
		}
	}
	if root == nil {
		problem("%s: constructor %s has no understood return", pos(fd), name)
		root = &cmdNode{name: "?", use: "?", where: pos(fd)}
	}
	for _, n := range all {
		if n != root && !n.attached {
			problem("%s: command %q built in %s is never attached", n.where, n.use, name)
		}
	}
	if root.attached {
		problem("%s: constructor %s returns a command that it also attached", pos(fd), name)
	}
	return root
}

func tokenizeUse(use string) []token_ {
	// first field is the command name
	rest := strings.TrimSpace(use)
	if i := strings.IndexAny(rest, " \t"); i >= 0 {
		rest = rest[i:]
	} else {
		rest = ""
	}
	var toks []token_
	depth := 0
	alt := false
	cur := ""
	flush := func() {
		if cur == "" {
			return
		}
		v := false
		for strings.HasSuffix(cur, "...") {
			cur = strings.TrimSuffix(cur, "...")
			v = true
		}
		if cur != "" {
			toks = append(toks, token_{Name: cur, Optional: depth > 0, Alt: alt, Variadic: v})
			alt = false
		} else if v && len(toks) > 0 {
			toks[len(toks)-1].Variadic = true
		}
		cur = ""
	}
	for _, r := range rest {
		switch r {
		case '[':
			flush()
			depth++
		case ']':
			flush()
			depth--
		case '(', ')', '<', '>', ',':
			flush()
		case '|':
			flush()
			alt = true
		case ' ', '\t', '\n':
			flush()
		default:
			cur += string(r)
		}
	}
	flush()
	if depth != 0 {
		problem("unbalanced brackets in Use %q", use)
	}
	return toks
}

// ---------------------------------------------------------------- handler walk

type site struct {
	Guard string   `json:"guard"`
	Args  string   `json:"args"`
	Conds []string `json:"conds"`
	Pos   string   `json:"pos"`
}

type walker struct {
	sites       []site
	dispatches  int
	uncovered   []string
	outArgs     []string // identifiers named out* passed to cli functions
	conds       []string
	stack       []string
	retAcc      []*uint8
	loopAcc     []*uint8
	unsupported []string
}

func (w *walker) dispatch(n ast.Node, st uint8) {
	w.dispatches++
	if st == 0 {
		w.uncovered = append(w.uncovered, pos(n))
	}
}

func (w *walker) stmts(list []ast.Stmt, st uint8) (uint8, bool) {
	for _, s := range list {
		var term bool
		st, term = w.stmt(s, st)
		if term {
			return st, true
		}
	}
	return st, false
}

func (w *walker) stmt(s ast.Stmt, st uint8) (uint8, bool) {
	switch s := s.(type) {
	case nil:
		return st, false
	case *ast.ExprStmt:
		return w.expr(s.X, st), false
	case *ast.AssignStmt:
		for _, e := range s.Rhs {
			st = w.expr(e, st)
		}
		for _, e := range s.Lhs {
			if _, ok := e.(*ast.Ident); !ok {
				st = w.expr(e, st)
			}
		}
		return st, false
	case *ast.DeclStmt:
		if gd, ok := s.Decl.(*ast.GenDecl); ok {
			for _, sp := range gd.Specs {
				if vs, ok := sp.(*ast.ValueSpec); ok {
					for _, e := range vs.Values {
						st = w.expr(e, st)
					}
				}
			}
		}
		return st, false
	case *ast.IncDecStmt, *ast.EmptyStmt:
		return st, false
	case *ast.BlockStmt:
		return w.stmts(s.List, st)
	case *ast.LabeledStmt:
		return w.stmt(s.Stmt, st)
	case *ast.DeferStmt:
		return w.expr(s.Call, st), false
	case *ast.GoStmt:
		return w.expr(s.Call, st), false
	case *ast.ReturnStmt:
		for _, e := range s.Results {
			st = w.expr(e, st)
		}
		if len(w.retAcc) > 0 {
			*w.retAcc[len(w.retAcc)-1] |= st
		}
		return st, true
	case *ast.BranchStmt:
		if s.Tok == token.GOTO || s.Tok == token.FALLTHROUGH {
			w.unsupported = append(w.unsupported, pos(s)+": "+s.Tok.String())
			return st, false
		}
		if len(w.loopAcc) > 0 {
			*w.loopAcc[len(w.loopAcc)-1] |= st
		}
		return st, true
	case *ast.IfStmt:
		st, _ = w.stmt(s.Init, st)
		st = w.expr(s.Cond, st)
		c := show(s.Cond)
		w.conds = append(w.conds, c)
		a, at := w.stmts(s.Body.List, st)
		w.conds[len(w.conds)-1] = "!(" + c + ")"
		b, bt := st, false
		if s.Else != nil {
			b, bt = w.stmt(s.Else, st)
		}
		w.conds = w.conds[:len(w.conds)-1]
		switch {
		case at && bt:
			return a | b, true
		case at:
			return b, false
		case bt:
			return a, false
		}
		return a | b, false
	case *ast.ForStmt:
		st, _ = w.stmt(s.Init, st)
		if s.Cond != nil {
			st = w.expr(s.Cond, st)
		}
		return w.loop("for "+show(s.Cond), s.Body, st), false
	case *ast.RangeStmt:
		st = w.expr(s.X, st)
		return w.loop("range "+show(s.X), s.Body, st), false
	case *ast.SwitchStmt:
		st, _ = w.stmt(s.Init, st)
		tag := ""
		if s.Tag != nil {
			st = w.expr(s.Tag, st)
			tag = show(s.Tag)
		}
		return w.cases(tag, s.Body, st)
	case *ast.TypeSwitchStmt:
		st, _ = w.stmt(s.Init, st)
		return w.cases("type", s.Body, st)
	}
	w.unsupported = append(w.unsupported, fmt.Sprintf("%s: statement %T", pos(s), s))
	return st, false
}

func (w *walker) loop(label string, body *ast.BlockStmt, st uint8) uint8 {
	acc := st
	w.loopAcc = append(w.loopAcc, &acc)
	w.conds = append(w.conds, label)
	// two rounds: a guard seen late in one iteration may precede a dispatch early in the next
	out, _ := w.stmts(body.List, st)
	acc |= out
	nd, nu, ns := w.dispatches, len(w.uncovered), len(w.sites)
	out, _ = w.stmts(body.List, acc)
	acc |= out
	// the second round re-reports the same events; keep the first round's counts
	w.dispatches, w.uncovered, w.sites = nd, w.uncovered[:nu], w.sites[:ns]
	w.conds = w.conds[:len(w.conds)-1]
	w.loopAcc = w.loopAcc[:len(w.loopAcc)-1]
	return acc
}

func (w *walker) cases(tag string, body *ast.BlockStmt, st uint8) (uint8, bool) {
	// break inside a switch leaves the switch: collect like a loop
	acc := uint8(0)
	w.loopAcc = append(w.loopAcc, &acc)
	out := uint8(0)
	allTerm := true
	hasDefault := false
	flowed := false
	for _, c := range body.List {
		cc, ok := c.(*ast.CaseClause)
		if !ok {
			w.unsupported = append(w.unsupported, pos(c)+": non-case clause")
			continue
		}
		s := st
		label := "default"
		if cc.List == nil {
			hasDefault = true
		} else {
			var parts []string
			for _, e := range cc.List {
				s = w.expr(e, s)
				parts = append(parts, show(e))
			}
			label = "case " + strings.Join(parts, ", ")
		}
		w.conds = append(w.conds, "switch "+tag+": "+label)
		o, t := w.stmts(cc.Body, s)
		w.conds = w.conds[:len(w.conds)-1]
		if !t {
			out |= o
			allTerm = false
			flowed = true
		}
	}
	w.loopAcc = w.loopAcc[:len(w.loopAcc)-1]
	if acc != 0 || !hasDefault {
		// a break, or no case matching
		flowed = true
		allTerm = false
		if !hasDefault {
			out |= st
		}
		out |= acc
	}
	_ = flowed
	if allTerm && hasDefault {
		return out, true
	}
	return out, false
}

func (w *walker) enter(name string, st uint8) uint8 {
	for _, s := range w.stack {
		if s == name {
			return st
		}
	}
	fd := funcs[name]
	if fd.Body == nil {
		return st
	}
	acc := uint8(0)
	w.stack = append(w.stack, name)
	w.retAcc = append(w.retAcc, &acc)
	savedLoops := w.loopAcc
	w.loopAcc = nil
	out, term := w.stmts(fd.Body.List, st)
	w.loopAcc = savedLoops
	w.retAcc = w.retAcc[:len(w.retAcc)-1]
	w.stack = w.stack[:len(w.stack)-1]
	if !term {
		acc |= out
	}
	return acc
}

var osWrites = map[string]bool{"Create": true, "WriteFile": true, "OpenFile": true, "Rename": true, "Remove": true,
	"RemoveAll": true, "Mkdir": true, "MkdirAll": true, "CreateTemp": true, "Truncate": true}

func (w *walker) expr(e ast.Expr, st uint8) uint8 {
	switch e := e.(type) {
	case nil:
		return st
	case *ast.CallExpr:
		switch f := e.Fun.(type) {
		case *ast.Ident, *ast.SelectorExpr:
			if s, ok := f.(*ast.SelectorExpr); ok {
				if _, isId := s.X.(*ast.Ident); !isId {
					st = w.expr(s.X, st)
				}
			}
		default:
			st = w.expr(e.Fun, st)
		}
		for _, a := range e.Args {
			st = w.expr(a, st)
		}
		switch f := e.Fun.(type) {
		case *ast.Ident:
			if _, ok := guardBit[f.Name]; ok {
				var as []string
				for _, a := range e.Args {
					as = append(as, show(a))
				}
				w.sites = append(w.sites, site{Guard: f.Name, Args: strings.Join(as, ", "),
					Conds: append([]string{}, w.conds...), Pos: pos(e)})
				return st | guardBit[f.Name]
			}
			if f.Name == "runCommand" || f.Name == "runCommandWithOutput" {
				w.dispatch(e, st)
				return st
			}
			if _, ok := funcs[f.Name]; ok {
				return w.enter(f.Name, st)
			}
		case *ast.SelectorExpr:
			if x, ok := f.X.(*ast.Ident); ok && imports[x.Name] {
				switch {
				case x.Name == "cli":
					w.dispatch(e, st)
					for _, a := range e.Args {
						if id, ok := a.(*ast.Ident); ok && strings.HasPrefix(strings.ToLower(id.Name), "out") {
							w.outArgs = append(w.outArgs, id.Name)
						}
					}
				case x.Name == "api" && strings.HasSuffix(f.Sel.Name, "File"):
					w.dispatch(e, st)
				case x.Name == "os" && osWrites[f.Sel.Name]:
					w.dispatch(e, st)
				}
			}
		}
		return st
	case *ast.Ident:
		if _, ok := guardBit[e.Name]; ok {
			w.sites = append(w.sites, site{Guard: e.Name, Args: "<function value>", Conds: append([]string{}, w.conds...), Pos: pos(e)})
			return st | guardBit[e.Name]
		}
		if _, ok := funcs[e.Name]; ok {
			return w.enter(e.Name, st)
		}
		return st
	case *ast.FuncLit:
		acc := uint8(0)
		w.retAcc = append(w.retAcc, &acc)
		savedLoops := w.loopAcc
		w.loopAcc = nil
		out, term := w.stmts(e.Body.List, st)
		w.loopAcc = savedLoops
		w.retAcc = w.retAcc[:len(w.retAcc)-1]
		if !term {
			acc |= out
		}
		return acc | st
	case *ast.ParenExpr:
		return w.expr(e.X, st)
	case *ast.SelectorExpr:
		if _, ok := e.X.(*ast.Ident); ok {
			return st
		}
		return w.expr(e.X, st)
	case *ast.StarExpr:
		return w.expr(e.X, st)
	case *ast.UnaryExpr:
		return w.expr(e.X, st)
	case *ast.BinaryExpr:
		st = w.expr(e.X, st)
		return w.expr(e.Y, st)
	case *ast.IndexExpr:
		st = w.expr(e.X, st)
		return w.expr(e.Index, st)
	case *ast.SliceExpr:
		st = w.expr(e.X, st)
		st = w.expr(e.Low, st)
		st = w.expr(e.High, st)
		return w.expr(e.Max, st)
	case *ast.TypeAssertExpr:
		return w.expr(e.X, st)
	case *ast.KeyValueExpr:
		return w.expr(e.Value, st)
	case *ast.CompositeLit:
		for _, el := range e.Elts {
			st = w.expr(el, st)
		}
		return st
	case *ast.BasicLit, *ast.ArrayType, *ast.MapType, *ast.FuncType, *ast.InterfaceType, *ast.StructType, *ast.ChanType, *ast.Ellipsis:
		return st
	}
	w.unsupported = append(w.unsupported, fmt.Sprintf("%s: expression %T", pos(e), e))
	return st
}

// ---------------------------------------------------------------- rows

type row struct {
	ID         int      `json:"id"`
	Path       string   `json:"path"`
	Use        string   `json:"use"`
	Tokens     []token_ `json:"tokens"`
	Kind       string   `json:"kind"` // file | dir | dirfile
	OutFileTok int      `json:"out_file_tok"`
	OutDirTok  int      `json:"out_dir_tok"`
	Guards     []string `json:"guards"`
	Sites      []site   `json:"sites"`
	Dispatches int      `json:"dispatches"`
	Uncovered  []string `json:"uncovered"`
	Conds      []string `json:"conds"`
	GArgs      []string `json:"gargs"`
	Where      string   `json:"where"`
}

var rows []row
var nCommands, nRunnable int

type cmdInfo struct {
	Path     string `json:"path"`
	Use      string `json:"use"`
	Runnable bool   `json:"runnable"`
}

var allCmds []cmdInfo

func dedupe(l []string) []string {
	seen := map[string]bool{}
	var o []string
	for _, s := range l {
		if !seen[s] {
			seen[s] = true
			o = append(o, s)
		}
	}
	return o
}

func visit(n *cmdNode, prefix []string) {
	nCommands++
	path := append(append([]string{}, prefix...), n.name)
	ps := strings.Join(path, " ")
	toks := tokenizeUse(n.use)
	allCmds = append(allCmds, cmdInfo{Path: ps, Use: n.use, Runnable: n.runE != nil})
	outFile, outDir := -1, -1
	var outs []string
	for i, t := range toks {
		if !strings.HasPrefix(t.Name, "out") {
			continue
		}
		outs = append(outs, t.Name)
		switch {
		case t.Name == "outDir":
			if outDir >= 0 {
				problem("%s: command %q has two outDir placeholders", n.where, ps)
			}
			outDir = i
		case strings.HasPrefix(t.Name, "outFile"):
			if outFile >= 0 {
				problem("%s: command %q has two outFile placeholders", n.where, ps)
			}
			outFile = i
		default:
			problem("%s: command %q: output placeholder %q not understood", n.where, ps, t.Name)
		}
	}
	if n.runE == nil {
		if len(n.children) == 0 {
			problem("%s: command %q has neither RunE nor sub-commands", n.where, ps)
		}
		if len(outs) > 0 {
			problem("%s: group command %q names outputs", n.where, ps)
		}
	} else {
		nRunnable++
		w := &walker{}
		w.expr(n.runE, 0)
		for _, u := range w.unsupported {
			problem("command %q: handler walk: unsupported %s", ps, u)
		}
		if len(outs) == 0 {
			if len(w.sites) > 0 {
				problem("%s: command %q reaches output guard %s (%s) but its Use string %q names no out* placeholder",
					n.where, ps, w.sites[0].Guard, w.sites[0].Pos, n.use)
			}
			if len(w.outArgs) > 0 {
				problem("%s: command %q passes %v to package cli but its Use string %q names no out* placeholder",
					n.where, ps, dedupe(w.outArgs), n.use)
			}
		} else {
			r := row{ID: len(rows), Path: ps, Use: n.use, Tokens: toks, OutFileTok: outFile, OutDirTok: outDir,
				Sites: w.sites, Dispatches: w.dispatches, Uncovered: dedupe(w.uncovered), Where: n.where}
			switch {
			case outDir >= 0 && outFile >= 0:
				r.Kind = "dirfile"
			case outDir >= 0:
				r.Kind = "dir"
			default:
				r.Kind = "file"
			}
			for _, s := range w.sites {
				r.Guards = append(r.Guards, s.Guard)
				r.Conds = append(r.Conds, s.Conds...)
				r.GArgs = append(r.GArgs, s.Args)
			}
			r.Guards, r.Conds, r.GArgs = dedupe(r.Guards), dedupe(r.Conds), dedupe(r.GArgs)
			if r.Sites == nil {
				r.Sites = []site{}
			}
			rows = append(rows, r)
		}
	}
	for _, c := range n.children {
		visit(c, path)
	}
}

// ---------------------------------------------------------------- output

func coqString(s string) string {
	for _, r := range s {
		if r > 126 || (r < 32 && r != '\n' && r != '\t') {
			problem("non-ASCII character %q in a string to be emitted", r)
		}
	}
	return "\"" + strings.ReplaceAll(s, "\"", "\"\"") + "\""
}

func commentSafe(s string) string {
	s = strings.ReplaceAll(s, "\"", "'")
	s = strings.ReplaceAll(s, "(*", "( *")
	return strings.ReplaceAll(s, "*)", "* )")
}

func coqList(l []string, f func(string) string) string {
	if len(l) == 0 {
		return "[]"
	}
	o := make([]string, len(l))
	for i, s := range l {
		o[i] = f(s)
	}
	return "[" + strings.Join(o, "; ") + "]"
}

func main() {
	repo := flag.String("repo", "/repo", "pdfcpu source tree")
	out := flag.String("out", "", "Generated.v")
	jsonOut := flag.String("json", "", "table.json")
	flag.Parse()
	if *out == "" {
		fmt.Fprintln(os.Stderr, "genc04: -out required")
		os.Exit(2)
	}
	dir := filepath.Join(*repo, "cmd", "pdfcpu")
	ents, err := os.ReadDir(dir)
	if err != nil {
		fmt.Fprintln(os.Stderr, "genc04:", err)
		os.Exit(1)
	}
	var files []*ast.File
	for _, e := range ents {
		nm := e.Name()
		if e.IsDir() || !strings.HasSuffix(nm, ".go") || strings.HasSuffix(nm, "_test.go") {
			continue
		}
		f, err := parser.ParseFile(fset, filepath.Join(dir, nm), nil, 0)
		if err != nil {
			fmt.Fprintln(os.Stderr, "genc04: parse:", err)
			os.Exit(1)
		}
		if f.Name.Name != "main" {
			continue
		}
		files = append(files, f)
	}
	totalLits, totalAdd := 0, 0
	rootAdds := 0
	for _, f := range files {
		for _, im := range f.Imports {
			p, _ := strconv.Unquote(im.Path.Value)
			nm := filepath.Base(p)
			if im.Name != nil {
				nm = im.Name.Name
			}
			imports[nm] = true
		}
		for _, d := range f.Decls {
			if fd, ok := d.(*ast.FuncDecl); ok && fd.Recv == nil {
				if _, dup := funcs[fd.Name.Name]; dup && fd.Name.Name != "init" {
					problem("function %s declared twice", fd.Name.Name)
				}
				funcs[fd.Name.Name] = fd
			}
		}
		totalLits += countCobraLits(f)
		ast.Inspect(f, func(x ast.Node) bool {
			c, ok := x.(*ast.CallExpr)
			if !ok {
				return true
			}
			if sel, ok := c.Fun.(*ast.SelectorExpr); ok && sel.Sel.Name == "AddCommand" {
				totalAdd++
				if id, ok := sel.X.(*ast.Ident); ok && id.Name == "rootCmd" {
					rootAdds++
					ok := len(c.Args) == 1 && c.Ellipsis != token.NoPos
					if ok {
						cc, isCall := c.Args[0].(*ast.CallExpr)
						var id2 *ast.Ident
						isId := false
						if isCall {
							id2, isId = cc.Fun.(*ast.Ident)
						}
						ok = isCall && isId && id2.Name == "commands" && len(cc.Args) == 0
					}
					if !ok {
						problem("%s: rootCmd.AddCommand call is not rootCmd.AddCommand(commands()...)", pos(c))
					}
				}
			}
			return true
		})
	}
	// the --force flag: exactly one binding, rootCmd.PersistentFlags().BoolVar(&force, "force", false, ...),
	// and `force` is never assigned or has its address taken anywhere else
	forceBindings, forceOther := 0, 0
	for _, f := range files {
		ast.Inspect(f, func(x ast.Node) bool {
			switch n := x.(type) {
			case *ast.CallExpr:
				sel, ok := n.Fun.(*ast.SelectorExpr)
				if ok && sel.Sel.Name == "BoolVar" && len(n.Args) == 4 && show(n.Args[0]) == "&force" {
					if show(sel.X) == "rootCmd.PersistentFlags()" && show(n.Args[1]) == "\"force\"" && show(n.Args[2]) == "false" {
						forceBindings++
					} else {
						forceOther++
						problem("%s: unexpected binding of the force variable: %s", pos(n), show(n))
					}
					return false
				}
			case *ast.UnaryExpr:
				if n.Op == token.AND && show(n.X) == "force" {
					forceOther++
					problem("%s: address of force taken", pos(n))
				}
			case *ast.AssignStmt:
				for _, l := range n.Lhs {
					if show(l) == "force" {
						forceOther++
						problem("%s: assignment to force", pos(n))
					}
				}
			case *ast.IncDecStmt:
				if show(n.X) == "force" {
					forceOther++
				}
			}
			return true
		})
	}
	forceOK := forceBindings == 1 && forceOther == 0
	if forceBindings != 1 {
		problem("expected exactly one rootCmd.PersistentFlags().BoolVar(&force, \"force\", false, ...), found %d", forceBindings)
	}
	for _, g := range []string{gFile, gDir, gDirOrFile, "runCommand", "commands"} {
		if funcs[g] == nil {
			problem("function %s not found in %s", g, dir)
		}
	}
	if rootAdds != 1 {
		problem("expected exactly one rootCmd.AddCommand call, found %d", rootAdds)
	}
	var top []*cmdNode
	if cf := funcs["commands"]; cf != nil {
		okShape := false
		if len(cf.Body.List) == 1 {
			if rs, ok := cf.Body.List[0].(*ast.ReturnStmt); ok && len(rs.Results) == 1 {
				if cl, ok := rs.Results[0].(*ast.CompositeLit); ok {
					okShape = true
					for _, el := range cl.Elts {
						cn, ok := constructorCall(el)
						if !ok {
							problem("%s: element of commands() is not a constructor call: %s", pos(el), show(el))
							continue
						}
						top = append(top, analyzeConstructor(cn))
					}
				}
			}
		}
		if !okShape {
			problem("%s: commands() is not a single return of a literal slice", pos(cf))
		}
	}
	// rootCmd literal is the one literal outside constructors
	if litsSeen+1 != totalLits {
		problem("cobra.Command literals: %d in the package, %d reached from commands() (+1 for rootCmd)", totalLits, litsSeen)
	}
	if addCommandSeen+1 != totalAdd {
		problem("AddCommand calls: %d in the package, %d understood (+1 for rootCmd)", totalAdd, addCommandSeen)
	}
	var ctorNames []string
	for nm, fd := range funcs {
		if isConstructor(fd) {
			ctorNames = append(ctorNames, nm)
		}
	}
	sort.Strings(ctorNames)
	for _, nm := range ctorNames {
		if !constructorsSeen[nm] {
			problem("constructor %s is never reached from commands()", nm)
		}
	}
	for _, n := range top {
		visit(n, nil)
	}
	seenPath := map[string]bool{}
	for _, r := range rows {
		if seenPath[r.Path] {
			problem("duplicate command path %q", r.Path)
		}
		seenPath[r.Path] = true
	}

	// ---- Generated.v
	var b strings.Builder
	b.WriteString("(* GENERATED by /verif/go/cmd/genc04 from cmd/pdfcpu/*.go -- do not edit.\n")
	b.WriteString("   One row per cobra command whose Use string names an out* placeholder. *)\n")
	b.WriteString("From Coq Require Import String List NArith.\nFrom PV Require Import C04.Model.\nImport ListNotations.\nOpen Scope string_scope.\nOpen Scope N_scope.\n\n")
	fmt.Fprintf(&b, "Definition n_commands : N := %d.\nDefinition n_runnable : N := %d.\n\n", nCommands, nRunnable)
	fmt.Fprintf(&b, "(* root.go: rootCmd.PersistentFlags().BoolVar(&force, \"force\", false, ...) is the only binding of / assignment to `force` *)\nDefinition force_flag_ok : bool := %v.\n\n", forceOK)
	b.WriteString("Definition table : list row := [\n")
	for i, r := range rows {
		kind := map[string]string{"file": "OFile", "dir": "ODir", "dirfile": "ODirFile"}[r.Kind]
		fmt.Fprintf(&b, "  (* %d  %s  [%s] *)\n", r.ID, commentSafe(r.Use), r.Where)
		fmt.Fprintf(&b, "  mkRow %s %s %s %d %d\n    %s\n    %s",
			coqString(r.Path), kind, coqList(r.Guards, func(s string) string { return guardCoq[s] }),
			r.Dispatches, len(r.Uncovered), coqList(r.Conds, coqString), coqList(r.GArgs, coqString))
		if i != len(rows)-1 {
			b.WriteString(";")
		}
		b.WriteString("\n")
	}
	b.WriteString("].\n\n")
	for _, g := range []string{gFile, gDir, gDirOrFile} {
		src := "<missing>"
		if fd := funcs[g]; fd != nil {
			src = show(fd)
		}
		fmt.Fprintf(&b, "Definition src_%s : string :=\n%s.\n\n", g, coqString(src))
	}
	var exitCode int
	if len(problems) > 0 {
		exitCode = 1
	}
	if err := os.WriteFile(*out+".tmp", []byte(b.String()), 0o644); err != nil {
		fmt.Fprintln(os.Stderr, "genc04:", err)
		os.Exit(1)
	}
	// keep the file's mtime stable when nothing changed (avoids needless recompilation)
	old, _ := os.ReadFile(*out)
	if string(old) != b.String() {
		if err := os.Rename(*out+".tmp", *out); err != nil {
			fmt.Fprintln(os.Stderr, "genc04:", err)
			os.Exit(1)
		}
	} else {
		os.Remove(*out + ".tmp")
	}
	if *jsonOut != "" {
		os.MkdirAll(filepath.Dir(*jsonOut), 0o755)
		js, _ := json.MarshalIndent(map[string]any{"repo": *repo, "commands": nCommands, "runnable": nRunnable,
			"rows": rows, "all": allCmds, "problems": problems}, "", " ")
		if err := os.WriteFile(*jsonOut, js, 0o644); err != nil {
			fmt.Fprintln(os.Stderr, "genc04:", err)
			os.Exit(1)
		}
	}
	for _, p := range problems {
		fmt.Fprintln(os.Stderr, "genc04: "+p)
	}
	os.Exit(exitCode)
}
