(* C35 — property names: DecodeName (EncodeName k) = k, and what the second DecodeName of
   validate/info.go handleProperties does to it. *)
From Coq Require Import NArith List Bool Lia.
From PV Require Import C35.Model C35.ProofsStr.
Import ListNotations.
Open Scope N_scope.

Lemma unhex_hexd : forall n, n < 16 -> unhex (hexd n) = Some n.
Proof.
  intros n H.
  assert (E : n = 0 \/ n = 1 \/ n = 2 \/ n = 3 \/ n = 4 \/ n = 5 \/ n = 6 \/ n = 7 \/ n = 8 \/ n = 9
              \/ n = 10 \/ n = 11 \/ n = 12 \/ n = 13 \/ n = 14 \/ n = 15) by lia.
  repeat (destruct E as [->|E]; [reflexivity|]). subst. reflexivity.
Qed.

Definition byte_nz (c : N) : Prop := c < 256 /\ c <> 0.

Lemma decode_encode_name : forall s, Forall byte_nz s -> decode_name (encode_name s) = Some s.
Proof.
  induction s as [|c r IH]; intros H; [reflexivity|].
  inversion H as [|? ? [Hc Hz] Hr]; subst. specialize (IH Hr). simpl.
  destruct (needs_hex c) eqn:NH.
  - cbn [decode_name]. change (35 =? 0) with false. change (35 =? 35) with true. cbv iota.
    assert (H1 : c / 16 < 16) by (apply N.div_lt_upper_bound; lia).
    assert (H2 : c mod 16 < 16) by (apply N.mod_lt; lia).
    rewrite (unhex_hexd _ H1), (unhex_hexd _ H2).
    assert (E : 16 * (c / 16) + c mod 16 = c) by (symmetry; apply N.div_mod; lia).
    rewrite E. apply N.eqb_neq in Hz. rewrite Hz. now rewrite IH.
  - cbn [decode_name]. apply N.eqb_neq in Hz. rewrite Hz.
    unfold needs_hex in NH. repeat (apply orb_false_iff in NH as [NH ?]).
    match goal with Hh : (c =? 35) = false |- _ => rewrite Hh end. now rewrite IH.
Qed.

Lemma no_hash_nul_spec : forall k, no_hash_nul k = true ->
  Forall byte_nz k /\ Forall (fun c => (c =? 35) = false) k.
Proof.
  unfold no_hash_nul. induction k as [|c r IH]; simpl; intros H; [split; constructor|].
  apply andb_true_iff in H as [Hc Hr]. destruct (IH Hr) as [I1 I2].
  apply andb_true_iff in Hc as [Hc H3]. apply andb_true_iff in Hc as [H1 H2].
  apply negb_true_iff in H1, H2. apply N.ltb_lt in H3. apply N.eqb_neq in H2.
  split; constructor; try assumption. now split.
Qed.

Lemma decode_plain : forall k, no_hash_nul k = true -> decode_name k = Some k.
Proof.
  intros k H. destruct (no_hash_nul_spec _ H) as [H1 H2]. clear H.
  induction k as [|c r IH]; [reflexivity|].
  inversion H1 as [|? ? [_ Hz] Hr1]; inversion H2 as [|? ? Hh Hr2]; subst.
  cbn [decode_name]. apply N.eqb_neq in Hz. rewrite Hz, Hh. now rewrite IH.
Qed.

Lemma encode_regular : forall k, regular_name k = true -> encode_name k = k.
Proof.
  unfold regular_name. induction k as [|c r IH]; simpl; intros H; [reflexivity|].
  apply andb_true_iff in H as [Hc Hr]. apply negb_true_iff in Hc. rewrite Hc. now rewrite IH.
Qed.

(* invariant of the Info entries kept by the refinement *)
Definition good_entry (strict : bool) (e : str * str) : Prop := wfname strict (fst e) = true /\ snd e <> [].

Lemma wfname_spec : forall strict k, wfname strict k = true ->
  no_hash_nul k = true /\ std_key k = false /\ (strict = true -> regular_name k = true).
Proof.
  intros strict k H. unfold wfname in H. apply andb_true_iff in H as [H H3]. apply andb_true_iff in H as [H1 H2].
  apply negb_true_iff in H2. repeat split; try assumption. intros ->. assumption.
Qed.

Lemma persist_info_id : forall strict i, msorted i -> Forall (good_entry strict) i -> persist_info i = i.
Proof.
  intros strict. induction i as [|[k v] r IH]; intros Hs Hg; [reflexivity|].
  inversion Hg as [|? ? [Hk _] Hr]; subst. destruct Hs as [Hlt Hs]. simpl in Hk.
  destruct (wfname_spec _ _ Hk) as [Hn _]. destruct (no_hash_nul_spec _ Hn) as [Hb _].
  simpl. rewrite (decode_encode_name _ Hb). rewrite (IH Hs Hr). now apply m_set_head.
Qed.

Lemma props_read_id : forall strict i, msorted i -> Forall (good_entry strict) i -> props_read i = Some i.
Proof.
  intros strict. induction i as [|[k v] r IH]; intros Hs Hg; [reflexivity|].
  inversion Hg as [|? ? [Hk Hv] Hr]; subst. destruct Hs as [Hlt Hs]. simpl in Hk, Hv.
  destruct (wfname_spec _ _ Hk) as [Hn [Hstd _]].
  simpl. rewrite (IH Hs Hr), Hstd. destruct v as [|c v]; [congruence|].
  rewrite (decode_plain _ Hn). now rewrite m_set_head.
Qed.

(* removeAllProperties: delete(d, EncodeName(k)) for every listed k *)
Lemma fold_del_enc : forall (ps m : info), Forall (fun e => regular_name (fst e) = true) ps ->
  fold_left (fun a kv => m_del (encode_name (fst kv)) a) ps m
  = filter (fun e => negb (existsb (fun kv => seqb (fst kv) (fst e)) ps)) m.
Proof.
  induction ps as [|p r IH]; simpl; intros m H.
  - symmetry. now apply filter_all_true.
  - inversion H as [|? ? Hp Hr]; subst. rewrite IH by assumption. rewrite (encode_regular _ Hp).
    unfold m_del. clear. induction m as [|e m IHm]; simpl; [reflexivity|].
    destruct (seqb (fst p) (fst e)); simpl; [apply IHm|].
    destruct (existsb (fun kv => seqb (fst kv) (fst e)) r); simpl; [apply IHm|]. f_equal. apply IHm.
Qed.

Lemma remove_all_regular : forall (i : info), Forall (fun e => regular_name (fst e) = true) i ->
  fold_left (fun a kv => m_del (encode_name (fst kv)) a) i i = [].
Proof.
  intros i H. rewrite fold_del_enc by assumption.
  assert (G : forall l : info, (forall e, In e l -> In e i) ->
              filter (fun e => negb (existsb (fun kv => seqb (fst kv) (fst e)) i)) l = []).
  { induction l as [|e l IHl]; simpl; intros Hin; [reflexivity|].
    assert (X : existsb (fun kv => seqb (fst kv) (fst e)) i = true).
    { apply existsb_exists. exists e. split; [apply Hin; now left|apply seqb_refl]. }
    rewrite X. simpl. apply IHl. intros e' He'. apply Hin. now right. }
  apply G. auto.
Qed.

(* defects (ii) and (iii) on the model: the hypotheses cannot be dropped *)
Lemma name_hash_refuted :
  (* "A#B" -> the document no longer validates *)
  props_read (persist_info [([65; 35; 66], [118])]) = None
  (* "A#41" lists as "AA" *)
  /\ props_read (persist_info [([65; 35; 52; 49], [118])]) = Some [([65; 65], [118])].
Proof. vm_compute. split; reflexivity. Qed.
