(* C19 — the traversal invariant of the writer: every reference the writer FOLLOWED when it
   emitted a record is answered by an emitted record (or points to a page dict it refuses to
   write because it was never validated).  Proved for all graphs (cycles, sharing, missing
   objects), all fuel. *)
From Coq Require Import List ZArith NArith Bool Lia.
From PV Require Import C19.Generated C19.Model.
Import ListNotations.

(* ---------- induction principle for nested objects ---------- *)
Section ObjInd.
  Variable P : obj -> Prop.
  Hypothesis Hnull : P ONull.
  Hypothesis Hatom : forall t v, P (OAtom t v).
  Hypothesis Hint : forall z, P (OInt z).
  Hypothesis Hname : forall s, P (OName s).
  Hypothesis Href : forall n, P (ORef n).
  Hypothesis Harr : forall l, Forall P l -> P (OArr l).
  Hypothesis Hdict : forall d, Forall (fun kv => P (snd kv)) d -> P (ODict d).
  Hypothesis Hstream : forall d x, Forall (fun kv => P (snd kv)) d -> P (OStream d x).
  Fixpoint obj_ind' (o : obj) : P o :=
    match o with
    | ONull => Hnull
    | OAtom t v => Hatom t v
    | OInt z => Hint z
    | OName s => Hname s
    | ORef n => Href n
    | OArr l => Harr l ((fix go (l : list obj) : Forall P l :=
                           match l with [] => Forall_nil _ | x :: r => Forall_cons _ (obj_ind' x) (go r) end) l)
    | ODict d => Hdict d ((fix go (d : list (bytes * obj)) : Forall (fun kv => P (snd kv)) d :=
                           match d with [] => Forall_nil _ | x :: r => Forall_cons _ (obj_ind' (snd x)) (go r) end) d)
    | OStream d x => Hstream d x ((fix go (d : list (bytes * obj)) : Forall (fun kv => P (snd kv)) d :=
                           match d with [] => Forall_nil _ | y :: r => Forall_cons _ (obj_ind' (snd y)) (go r) end) d)
    end.
End ObjInd.

Definition dom (s : st) : list N := map fst s.

Lemma written_iff : forall s n, written s n = true <-> In n (dom s).
Proof.
  induction s as [|[m r] s IH]; intros n; simpl.
  - split; [discriminate|tauto].
  - rewrite orb_true_iff, N.eqb_eq, IH. tauto.
Qed.

Lemma written_false : forall s n, written s n = false <-> ~ In n (dom s).
Proof.
  intros s n. rewrite <- written_iff. destruct (written s n); split; intros H; try discriminate; try congruence.
Qed.

Section Closed.
  Variable g : graph.

  (* a page dict the generic writer refuses: entry present, not marked Valid *)
  Definition refused (m : N) : Prop :=
    exists d, lookup g m = Some (FInvalid, ODict d) /\ is_page d = true.

  Definition okref (s : st) (m : N) : Prop := In m (dom s) \/ refused m.

  Definition closed_new (new s' : st) : Prop :=
    forall n r, In (n, r) new -> forall m, In m (followed r) -> okref s' m.

  Definition ext (s s' : st) : Prop := exists new, s' = new ++ s /\ closed_new new s'.

  Lemma okref_mono : forall s s' m, incl (dom s) (dom s') -> okref s m -> okref s' m.
  Proof. intros s s' m Hi [H|H]; [left; apply Hi, H | right; exact H]. Qed.

  Lemma ext_refl : forall s, ext s s.
  Proof. intros s. exists []. split; [reflexivity|]. intros n r []. Qed.

  Lemma ext_incl : forall s s', ext s s' -> incl (dom s) (dom s').
  Proof.
    intros s s' [new [-> _]] x Hx. unfold dom. rewrite map_app. apply in_or_app. right. exact Hx.
  Qed.

  Lemma ext_trans : forall s s1 s2, ext s s1 -> ext s1 s2 -> ext s s2.
  Proof.
    intros s s1 s2 [n1 [E1 C1]] [n2 [E2 C2]]. exists (n2 ++ n1). split.
    - rewrite E2, E1, app_assoc. reflexivity.
    - intros n r Hin m Hm. apply in_app_or in Hin. destruct Hin as [Hin|Hin].
      + exact (C2 n r Hin m Hm).
      + apply okref_mono with (s := s1).
        * apply ext_incl. exists n2. split; [exact E2|exact C2].
        * exact (C1 n r Hin m Hm).
  Qed.

  Lemma ext_cons : forall s s' n r,
    ext ((n, r) :: s) s' -> (forall m, In m (followed r) -> okref s' m) -> ext s s'.
  Proof.
    intros s s' n r [new [E C]] Hr. exists (new ++ [(n, r)]). split.
    - rewrite E, <- app_assoc. reflexivity.
    - intros n' r' Hin m Hm. apply in_app_or in Hin. destruct Hin as [Hin|[Hin|[]]].
      + exact (C n' r' Hin m Hm).
      + inversion Hin; subst. exact (Hr m Hm).
  Qed.

  Lemma ext_in : forall s s' n, ext s s' -> In n (dom s) -> In n (dom s').
  Proof. intros s s' n H. apply ext_incl, H. Qed.

  (* ---------- seqm ---------- *)
  Lemma seqm_ext : forall (A : Type) (f : A -> st -> wres) (R : A -> list N) (l : list A),
    (forall x s s', In x l -> f x s = WOk s' -> ext s s' /\ forall m, In m (R x) -> okref s' m) ->
    forall s s', seqm f l s = WOk s' ->
    ext s s' /\ forall m, In m (flat_map R l) -> okref s' m.
  Proof.
    intros A f R l. induction l as [|x l IH]; intros Hf s s' H; simpl in *.
    - inversion H; subst. split; [apply ext_refl|]. intros m [].
    - destruct (f x s) as [s1| |] eqn:E; try discriminate.
      destruct (Hf x s s1 (or_introl eq_refl) E) as [E1 R1].
      destruct (IH (fun y a b Hy => Hf y a b (or_intror Hy)) s1 s' H) as [E2 R2].
      split; [eapply ext_trans; eauto|].
      intros m Hm. apply in_app_or in Hm. destruct Hm as [Hm|Hm].
      + eapply okref_mono; [apply ext_incl; exact E2 | exact (R1 m Hm)].
      + exact (R2 m Hm).
  Qed.

  (* ---------- deep ---------- *)
  Section DeepClosed.
    Variable visit : bool -> bool -> N -> st -> wres.
    Hypothesis Hvisit : forall wp dest n s s', visit wp dest n s = WOk s' -> ext s s' /\ okref s' n.

    Lemma deep_ext : forall o wp dest s s', deep visit wp dest o s = WOk s' ->
      ext s s' /\ forall m, In m (wrefs wp dest o) -> okref s' m.
    Proof.
      induction o as [|t v|z|nm|n|l IH|d IH|d x IH] using obj_ind'; intros wp dest s s' H; simpl in *;
        try (inversion H; subst; split; [apply ext_refl|intros m []]).
      - destruct (Hvisit _ _ _ _ _ H) as [E O]. split; [exact E|]. intros m [<-|[]]. exact O.
      - destruct l as [|x r].
        + inversion H; subst. split; [apply ext_refl|intros m []].
        + destruct dest.
          * inversion IH as [|? ? _ IHr]; subst.
            apply (seqm_ext _ (deep visit wp true) (wrefs wp true) r); [|exact H].
            intros y a b Hy Hd. rewrite Forall_forall in IHr. exact (IHr y Hy wp true a b Hd).
          * apply (seqm_ext _ (deep visit wp false) (wrefs wp false) (x :: r)); [|exact H].
            intros y a b Hy Hd. rewrite Forall_forall in IH. exact (IH y Hy wp false a b Hd).
      - apply (seqm_ext _ (fun kv => deep visit wp (wp && is_dest_key (fst kv)) (snd kv))
                 (fun kv => wrefs wp (wp && is_dest_key (fst kv)) (snd kv)) d); [|exact H].
        intros y a b Hy Hd. rewrite Forall_forall in IH. exact (IH y Hy _ _ a b Hd).
    Qed.

    Lemma deep_values_ext : forall o wp dest s s', deep_values visit wp dest o s = WOk s' ->
      ext s s' /\ forall m, In m (wrefs_values wp dest o) -> okref s' m.
    Proof.
      intros o wp dest s s' H. destruct o as [|t v|z|nm|n|l|d|d x]; simpl in *;
        try (inversion H; subst; split; [apply ext_refl|intros m []]).
      - exact (deep_ext (OArr l) wp dest s s' H).
      - exact (deep_ext (ODict d) wp dest s s' H).
      - apply (seqm_ext _ (fun kv => deep visit wp dest (snd kv)) (fun kv => wrefs wp dest (snd kv)) d); [|exact H].
        intros y a b _ Hd. exact (deep_ext (snd y) wp dest a b Hd).
    Qed.
  End DeepClosed.

  (* ---------- visit ---------- *)
  Local Opaque deep_values.
  Lemma visit_ext : forall fuel wp dest n s s', visit g fuel wp dest n s = WOk s' ->
    ext s s' /\ okref s' n.
  Proof.
    induction fuel as [|f IH]; intros wp dest n s s' H; simpl in H.
    - destruct (written s n) eqn:W; [|discriminate]. inversion H; subst.
      split; [apply ext_refl|left; apply written_iff, W].
    - destruct (written s n) eqn:W.
      { inversion H; subst. split; [apply ext_refl|left; apply written_iff, W]. }
      assert (Hgen : forall o, deep_values (visit g f) wp dest o ((n, (MGen wp dest, o)) :: s) = WOk s' ->
                               ext s s' /\ okref s' n).
      { intros o Hd. destruct (deep_values_ext (visit g f) (IH) o wp dest _ _ Hd) as [E R].
        split.
        - eapply ext_cons; [exact E|]. intros m Hm. simpl in Hm. exact (R m Hm).
        - left. eapply ext_in; [exact E|]. simpl. left. reflexivity. }
      destruct (lookup g n) as [[fl o]|] eqn:L.
      + destruct fl.
        * destruct o; try (exact (Hgen _ H)); try discriminate.
          destruct (is_page d && false) eqn:Pg; [rewrite andb_false_r in Pg; discriminate|].
          exact (Hgen _ H).
        * destruct o; try (exact (Hgen _ H)); try discriminate.
          destruct (is_page d) eqn:Pg; simpl in H.
          -- inversion H; subst. split; [apply ext_refl|]. right. exists d. split; [exact L|exact Pg].
          -- exact (Hgen _ H).
      + inversion H; subst. split.
        * exists [(n, (MGen wp dest, ONull))]. split; [reflexivity|]. intros n' r' [Hin|[]] m Hm.
          inversion Hin; subst. simpl in Hm. destruct Hm.
        * left. simpl. left. reflexivity.
  Qed.

  Local Transparent deep_values.

  (* ---------- entries ---------- *)
  Lemma entries_ext : forall fuel wp d keys s s', entries g fuel wp d keys s = WOk s' ->
    ext s s' /\ forall m, In m (wrefs_entries wp d keys) -> okref s' m.
  Proof.
    intros fuel wp d keys s s' H. unfold entries in H. unfold wrefs_entries.
    apply (seqm_ext _ _ (fun k => match dfind k d with Some o => wrefs wp false o | None => [] end) keys) in H.
    - exact H.
    - intros k a b _ Hk. destruct (dfind k d) as [o|] eqn:F.
      + destruct o; try (exact (deep_ext (visit g fuel) (visit_ext fuel) _ wp false a b Hk)).
        inversion Hk; subst. split; [apply ext_refl|intros m []].
      + inversion Hk; subst. split; [apply ext_refl|intros m []].
  Qed.

  (* ---------- page_dict ---------- *)
  Lemma page_dict_ext : forall fuel n d s s', page_dict g fuel n d s = WOk s' ->
    ext s s' /\ In n (dom s').
  Proof.
    intros fuel n d s s' H. unfold page_dict in H. destruct (written s n) eqn:W.
    - inversion H; subst. split; [apply ext_refl|apply written_iff, W].
    - destruct (dfind kParent d) as [[]|]; try discriminate.
      destruct (entries_ext _ _ _ _ _ _ H) as [E R]. split.
      + eapply ext_cons; [exact E|]. intros m Hm. simpl in Hm. exact (R m Hm).
      + eapply ext_in; [exact E|]. simpl. left. reflexivity.
  Qed.

  (* ---------- page tree ---------- *)
  Definition kid_ok (s : st) (o : obj) : Prop := exists k, o = ORef k /\ In k (dom s).

  Lemma kid_ok_mono : forall s s' o, ext s s' -> kid_ok s o -> kid_ok s' o.
  Proof. intros s s' o E [k [-> Hk]]. exists k. split; [reflexivity|eapply ext_in; eauto]. Qed.

  Section KidsClosed.
    Variable node : N -> st -> list N -> pres.
    Variable fuel : nat.
    Hypothesis Hnode : forall k s seen s' seen' c, node k s seen = POk s' seen' c -> ext s s' /\ In k (dom s').

    Lemma wkids_ext : forall a s seen acc cnt s' seen' kids' cnt',
      wkids g node fuel a s seen acc cnt = KOk s' seen' kids' cnt' ->
      Forall (kid_ok s) acc ->
      ext s s' /\ Forall (kid_ok s') kids'.
    Proof.
      induction a as [|o a IH]; intros s seen acc cnt s' seen' kids' cnt' H Hacc; simpl in H.
      - inversion H; subst. split; [apply ext_refl|]. apply Forall_rev. exact Hacc.
      - destruct o; try discriminate.
        + exact (IH _ _ _ _ _ _ _ _ H Hacc).
        + destruct (lookup g nr) as [[fl [| | | | | |kd|]]|]; try discriminate.
          destruct (dtype kd) as [t|]; try discriminate.
          destruct (beqb t kPages).
          * destruct (node nr s seen) as [s1 seen1 c| |] eqn:En; try discriminate.
            destruct (Hnode _ _ _ _ _ _ En) as [E1 In1].
            assert (Hacc1 : Forall (kid_ok s1) (ORef nr :: acc)).
            { constructor; [exists nr; split; [reflexivity|exact In1]|].
              eapply Forall_impl; [|exact Hacc]. intros x. apply kid_ok_mono, E1. }
            destruct (IH _ _ _ _ _ _ _ _ H Hacc1) as [E2 K2]. split; [eapply ext_trans; eauto|exact K2].
          * destruct (beqb t kPage); try discriminate.
            destruct (page_dict g fuel nr kd s) as [s1| |] eqn:Ep; try discriminate.
            destruct (page_dict_ext _ _ _ _ _ Ep) as [E1 In1].
            assert (Hacc1 : Forall (kid_ok s1) (ORef nr :: acc)).
            { constructor; [exists nr; split; [reflexivity|exact In1]|].
              eapply Forall_impl; [|exact Hacc]. intros x. apply kid_ok_mono, E1. }
            destruct (IH _ _ _ _ _ _ _ _ H Hacc1) as [E2 K2]. split; [eapply ext_trans; eauto|exact K2].
    Qed.
  End KidsClosed.

  Lemma beqb_refl : forall a, beqb a a = true.
  Proof. induction a as [|x a IH]; simpl; [reflexivity|]. rewrite N.eqb_refl, IH. reflexivity. Qed.

  Lemma beqb_eq : forall a b, beqb a b = true -> a = b.
  Proof.
    induction a as [|x a IH]; destruct b as [|y b]; simpl; intros H; try discriminate; [reflexivity|].
    apply andb_true_iff in H. destruct H as [H1 H2]. apply N.eqb_eq in H1. rewrite H1, (IH b H2). reflexivity.
  Qed.

  Lemma dfind_dset_same : forall k v d, dfind k (dset k v d) = Some v.
  Proof.
    intros k v d. induction d as [|[k' v'] d IH]; simpl.
    - rewrite beqb_refl. reflexivity.
    - destruct (beqb k' k) eqn:E; simpl; rewrite E; [reflexivity|exact IH].
  Qed.

  Lemma dfind_dset_other : forall k k' v d, beqb k' k = false -> beqb k k' = false ->
    dfind k (dset k' v d) = dfind k d.
  Proof.
    intros k k' v d H1 H2. induction d as [|[k2 v2] d IH]; simpl.
    - rewrite H1. reflexivity.
    - destruct (beqb k2 k') eqn:E; simpl.
      + apply beqb_eq in E. subst k2. rewrite H1. reflexivity.
      + destruct (beqb k2 k); [reflexivity|exact IH].
  Qed.

  Local Opaque entries.
  Lemma pages_node_ext : forall depth fuel n s seen s' seen' c,
    pages_node g depth fuel n s seen = POk s' seen' c -> ext s s' /\ In n (dom s').
  Proof.
    induction depth as [|dp IH]; intros fuel n s seen s' seen' c H; simpl in H; [discriminate|].
    destruct (memn n seen); [discriminate|].
    destruct (lookup g n) as [[fl [| | | | | |d|]]|]; try discriminate.
    destruct (wkids g (pages_node g dp fuel) fuel (kids_of d) s (n :: seen) [] 0%Z) as [s1 seen1 kidsNew cnt| |] eqn:Ek;
      try discriminate.
    destruct (wkids_ext (pages_node g dp fuel) fuel (IH fuel) _ _ _ _ _ _ _ _ _ Ek (Forall_nil _)) as [E1 K1].
    set (d' := dset kCount (OInt cnt) (dset kKids (OArr kidsNew) d)) in *.
    destruct (entries g fuel false d' pages_keys ((n, (MPages, ODict d')) :: s1)) as [s2| |] eqn:Ee; try discriminate.
    injection H as Hs Hseen Hc. subst s' seen' c.
    destruct (entries_ext _ _ _ _ _ _ Ee) as [E2 R2].
    assert (E2' : ext s1 s2).
    { eapply ext_cons; [exact E2|]. intros m Hm. simpl in Hm. apply in_app_or in Hm. destruct Hm as [Hm|Hm].
      - unfold kids_refs in Hm. unfold d' in Hm.
        rewrite dfind_dset_other, dfind_dset_same in Hm by reflexivity.
        apply in_flat_map in Hm. destruct Hm as [o [Ho Hm]].
        rewrite Forall_forall in K1. destruct (K1 o Ho) as [k [-> Hk]]. simpl in Hm. destruct Hm as [<-|[]].
        left. eapply ext_in; [exact E2|]. simpl. right. exact Hk.
      - exact (R2 m Hm). }
    split; [eapply ext_trans; eauto|].
    eapply ext_in; [exact E2|]. simpl. left. reflexivity.
  Qed.

  (* ---------- whole document ---------- *)
  Definition all_followed_ok (s : st) : Prop :=
    forall n r, In (n, r) s -> forall m, In m (followed r) -> okref s m.

  Lemma ext_nil_closed : forall s, ext [] s -> all_followed_ok s.
  Proof. intros s [new [E C]]. rewrite app_nil_r in E. subst new. exact C. Qed.

  Lemma write_root_closed : forall maxd fuel delv root s,
    write_root g maxd fuel delv root = WOk s -> ext [] s.
  Proof.
    intros maxd fuel delv root s H. unfold write_root in H.
    destruct (lookup g root) as [[fl [| | | | | |d0|]]|]; try discriminate.
    set (d := if delv then ddel kVersion d0 else d0) in *.
    destruct (entries g fuel false d root_keys_pre [(root, (MRoot, ODict d))]) as [s1| |] eqn:E1; try discriminate.
    destruct (dfind kPages d) as [[| | | |p| | |]|] eqn:Fp; try discriminate.
    destruct (pages_node g maxd fuel p s1 []) as [s2 seen2 c2| |] eqn:E2; try discriminate.
    destruct (entries_ext _ _ _ _ _ _ E1) as [X1 R1].
    destruct (pages_node_ext _ _ _ _ _ _ _ _ E2) as [X2 In2].
    destruct (entries_ext _ _ _ _ _ _ H) as [X3 R3].
    assert (X : ext [(root, (MRoot, ODict d))] s) by (eapply ext_trans; [exact X1|eapply ext_trans; eauto]).
    eapply ext_cons; [exact X|].
    intros m Hm. simpl in Hm. apply in_app_or in Hm. destruct Hm as [Hm|Hm].
    - eapply okref_mono; [|exact (R1 m Hm)]. apply ext_incl. eapply ext_trans; eauto.
    - apply in_app_or in Hm. destruct Hm as [Hm|Hm].
      + unfold pages_ref in Hm. rewrite Fp in Hm. destruct Hm as [<-|[]].
        left. eapply ext_in; [exact X3|exact In2].
      + exact (R3 m Hm).
  Qed.

  Lemma write_info_ext : forall fuel info s s', write_info g fuel info s = WOk s' -> ext s s'.
  Proof.
    intros fuel info s s' H. unfold write_info in H. destruct info as [i|]; [|inversion H; subst; apply ext_refl].
    destruct (lookup g i) as [[fl o]|]; [|inversion H; subst; apply ext_refl].
    destruct o; try discriminate; try (inversion H; subst; apply ext_refl).
    destruct (written s i); [inversion H; subst; apply ext_refl|].
    destruct (is_page d && _); [inversion H; subst; apply ext_refl|].
    destruct (deep_values_ext (visit g fuel) (visit_ext fuel) _ _ _ _ _ H) as [E R].
    eapply ext_cons; [exact E|]. intros m Hm. simpl in Hm. exact (R m Hm).
  Qed.

  Theorem write_model_closed : forall maxd fuel delv root info s,
    write_model g maxd fuel delv root info = WOk s -> all_followed_ok s.
  Proof.
    intros maxd fuel delv root info s H. unfold write_model in H.
    destruct (write_root g maxd fuel delv root) as [s1| |] eqn:E1; try discriminate.
    apply ext_nil_closed. eapply ext_trans; [exact (write_root_closed _ _ _ _ _ E1)|exact (write_info_ext _ _ _ _ H)].
  Qed.
End Closed.

(* ---------- outside page writing nothing is skipped ---------- *)
Lemma flat_map_ext_in : forall (A B : Type) (f g : A -> list B) l,
  (forall x, In x l -> f x = g x) -> flat_map f l = flat_map g l.
Proof.
  intros A B f g l. induction l as [|x l IH]; intros H; simpl; [reflexivity|].
  rewrite (H x (or_introl eq_refl)), IH; [reflexivity|]. intros y Hy. apply H. right. exact Hy.
Qed.

(* streams are always indirect objects: no stream nested inside an object *)
Fixpoint nonest (o : obj) : bool :=
  match o with
  | OArr l => forallb nonest l
  | ODict d => forallb (fun kv => nonest (snd kv)) d
  | OStream _ _ => false
  | _ => true
  end.
Definition wfobj (o : obj) : bool :=
  match o with
  | OStream d _ => forallb (fun kv => nonest (snd kv)) d
  | ORef _ => false          (* entry.Object is never a bare reference *)
  | _ => nonest o
  end.

Lemma wrefs_nopages_all : forall o, nonest o = true -> wrefs false false o = refs o.
Proof.
  induction o as [|t v|z|nm|n|l IH|d IH|d x IH] using obj_ind'; simpl; intros Hn; try reflexivity; try discriminate.
  - destruct l as [|x r]; [reflexivity|]. apply flat_map_ext_in. rewrite Forall_forall in IH.
    rewrite forallb_forall in Hn. intros y Hy. exact (IH y Hy (Hn y Hy)).
  - apply flat_map_ext_in. rewrite Forall_forall in IH. rewrite forallb_forall in Hn.
    intros kv Hkv. exact (IH kv Hkv (Hn kv Hkv)).
Qed.

Lemma wrefs_values_nopages_all : forall o, wfobj o = true -> wrefs_values false false o = refs o.
Proof.
  intros o H. destruct o as [|t v|z|nm|n|l|d|d x]; simpl in *; try reflexivity; try discriminate.
  - exact (wrefs_nopages_all (OArr l) H).
  - exact (wrefs_nopages_all (ODict d) H).
  - apply flat_map_ext_in. rewrite forallb_forall in H. intros kv Hkv. exact (wrefs_nopages_all _ (H kv Hkv)).
Qed.
