(* C31 — Page selections mean exactly what the selection syntax says.
   Property theorems only.  Model: C31/Model.v (pkg/api/selectPages.go), syntax and meaning: C31/Spec.v.

   e ranges over the expressions of the syntax: non-empty lists of well-formed terms (even, odd, or
   an optionally '!'/'n'-negated range term #, -#, #-, #-#, l, l-#, l-#-, -l, -l-#, #-l, #-l-# over
   non-empty digit strings); render e is its text, map render_term e its comma separated tokens.
   n is the page count.  expr_fails n e: a number that has to be read does not fit an int.
   The empty string is accepted by ParsePageSelection as "no selection" (no tokens). *)
From Coq Require Import ZArith NArith Bool List.
From PV Require Import Lib.GoInt C31.Model C31.Spec C31.ProofsMain C31.ProofsSyntax.
Import ListNotations.
Open Scope Z_scope.

(* Every expression of the syntax is accepted by ParsePageSelection and split into its terms. *)
Theorem C31_parse_accepts_syntax : forall e, e <> [] -> forallb wf e = true ->
  ParsePageSelection (render e) = Some (map render_term e).
Proof. exact parse_complete. Qed.
Print Assumptions C31_parse_accepts_syntax.

(* Expressions outside the syntax are rejected: whatever ParsePageSelection accepts is the empty
   string (no tokens) or the text of an expression of the syntax, split into exactly its terms. *)
Theorem C31_rejects_outside_syntax : forall s toks, ParsePageSelection s = Some toks ->
  (s = [] /\ toks = []) \/
  (exists e, e <> [] /\ forallb wf e = true /\ s = render e /\ toks = map render_term e).
Proof. exact rejects_outside_syntax. Qed.
Print Assumptions C31_rejects_outside_syntax.

(* The recogniser the harness' oracle is tied to accepts exactly the syntax. *)
Theorem C31_syntax_recogniser_exact : forall s,
  in_syntax s = true <-> exists e, e <> [] /\ forallb wf e = true /\ render e = s.
Proof. exact in_syntax_exact. Qed.
Print Assumptions C31_syntax_recogniser_exact.

(* Selections: the returned map decides page p exactly as the left-to-right fold of the term
   meanings does (a range term sets its pages to selected / deselected, even and odd select their
   pages that are still undecided); the evaluation fails iff a number does not fit. *)
Theorem C31_selection_is_fold : forall n e ens, 0 <= n -> e <> [] -> forallb wf e = true ->
  match PagesForPageSelection n (map render_term e) ens with
  | Err => expr_fails n e = true
  | Ok None => False
  | Ok (Some m) => expr_fails n e = false /\ forall p, mfind p m = sel_den n e p
  end.
Proof. exact selection_is_fold. Qed.
Print Assumptions C31_selection_is_fold.

(* For every string ParsePageSelection accepts and every page count, every key of the returned map
   (selected or deselected) is a page of the document. *)
Theorem C31_selection_in_range : forall s toks n ens m, 0 <= n ->
  ParsePageSelection s = Some toks -> PagesForPageSelection n toks ens = Ok (Some m) ->
  forall p b, In (p, b) m -> 1 <= p <= n.
Proof. exact selection_in_range_full. Qed.
Print Assumptions C31_selection_in_range.

(* Collections: the list is the concatenation of the term ranges in term order, with repetitions;
   a negated term deletes all occurrences of its pages collected so far; an empty result and a
   number that does not fit are the two errors. *)
Theorem C31_collection_is_fold : forall n e, 0 <= n -> forallb wf e = true ->
  PagesForPageCollection n (map render_term e) =
  if expr_fails n e then CErrToken
  else match col_den n e with [] => CErrNoPage | p :: l => COk (p :: l) end.
Proof. exact collection_is_fold. Qed.
Print Assumptions C31_collection_is_fold.

Theorem C31_collection_in_range : forall s toks n l, 0 <= n ->
  ParsePageSelection s = Some toks -> PagesForPageCollection n toks = COk l -> Forall (in_pages n) l.
Proof. exact collection_in_range_full. Qed.
Print Assumptions C31_collection_in_range.

(* non-vacuity: "1-3,!2,even,l-1-" on 6 pages; a failing expression; an empty collection; and the
   strings the regular expression accepted before its alternatives were grouped are rejected *)
Definition ex_e : list term :=
  [TR NoNeg (RRange [49%N] [51%N]); TR Bang (RNum [50%N]); TEven; TR NoNeg (RLmTo [49%N])].
Example C31_nonvacuous :
  forallb wf ex_e = true /\ ex_e <> []
  /\ ParsePageSelection (render ex_e) = Some (map render_term ex_e)
  /\ PagesForPageSelection 6 (map render_term ex_e) false
     = Ok (Some [(1, true); (2, false); (3, true); (4, true); (5, true); (6, true)])
  /\ PagesForPageCollection 6 (map render_term ex_e) = COk [1; 3; 2; 4; 6; 5; 6]
  /\ expr_fails 6 [TR NoNeg (RNum (repeat 57%N 20))] = true
  /\ PagesForPageCollection 6 (map render_term [TR En RL]) = CErrNoPage
  /\ ParsePageSelection w_123 = None /\ ParsePageSelection w_plus5 = None
  /\ ParsePageSelection w_lmm5 = None /\ ParsePageSelection w_foo1 = None
  /\ ParsePageSelection w_xoddx = None.
Proof. vm_compute. repeat split; congruence. Qed.
