// Independent, strict, NON-REPAIRING reader of pdfcpu output used by the C18 harness.
// Nothing in this file calls into pdfcpu. The only "trusted unpacker" is compress/zlib.
package main

import (
	"bytes"
	"compress/zlib"
	"fmt"
	"io"
	"sort"
	"strconv"
	"strings"
)

// ---------------------------------------------------------------- tiny PDF value parser

type pref struct{ nr, gen int }
type pname string
type pstr []byte

type parser struct {
	b []byte
	p int
}

func isWS(c byte) bool { return c == 0 || c == 9 || c == 10 || c == 12 || c == 13 || c == 32 }
func isDelim(c byte) bool {
	switch c {
	case '(', ')', '<', '>', '[', ']', '{', '}', '/', '%':
		return true
	}
	return false
}

func (ps *parser) skipWS() {
	for ps.p < len(ps.b) {
		c := ps.b[ps.p]
		if isWS(c) {
			ps.p++
		} else if c == '%' {
			for ps.p < len(ps.b) && ps.b[ps.p] != 10 && ps.b[ps.p] != 13 {
				ps.p++
			}
		} else {
			return
		}
	}
}

func (ps *parser) literal() (pstr, error) {
	depth := 0
	start := ps.p
	for ps.p < len(ps.b) {
		c := ps.b[ps.p]
		switch c {
		case '\\':
			ps.p += 2
			continue
		case '(':
			depth++
		case ')':
			depth--
			if depth == 0 {
				ps.p++
				return pstr(ps.b[start:ps.p]), nil
			}
		}
		ps.p++
	}
	return nil, fmt.Errorf("unterminated string at %d", start)
}

func (ps *parser) token() string {
	start := ps.p
	for ps.p < len(ps.b) && !isWS(ps.b[ps.p]) && !isDelim(ps.b[ps.p]) {
		ps.p++
	}
	return string(ps.b[start:ps.p])
}

// value parses one PDF object (references "n g R" included).
func (ps *parser) value() (any, error) {
	ps.skipWS()
	if ps.p >= len(ps.b) {
		return nil, fmt.Errorf("eof")
	}
	c := ps.b[ps.p]
	switch {
	case c == '(':
		return ps.literal()
	case c == '<' && ps.p+1 < len(ps.b) && ps.b[ps.p+1] == '<':
		ps.p += 2
		d := map[string]any{}
		for {
			ps.skipWS()
			if ps.p+1 < len(ps.b) && ps.b[ps.p] == '>' && ps.b[ps.p+1] == '>' {
				ps.p += 2
				return d, nil
			}
			if ps.p >= len(ps.b) || ps.b[ps.p] != '/' {
				return nil, fmt.Errorf("dict key expected at %d", ps.p)
			}
			ps.p++
			k := ps.token()
			v, err := ps.value()
			if err != nil {
				return nil, err
			}
			d[k] = v
		}
	case c == '<':
		i := bytes.IndexByte(ps.b[ps.p:], '>')
		if i < 0 {
			return nil, fmt.Errorf("unterminated hex string")
		}
		s := pstr(ps.b[ps.p : ps.p+i+1])
		ps.p += i + 1
		return s, nil
	case c == '[':
		ps.p++
		var a []any
		for {
			ps.skipWS()
			if ps.p < len(ps.b) && ps.b[ps.p] == ']' {
				ps.p++
				return a, nil
			}
			v, err := ps.value()
			if err != nil {
				return nil, err
			}
			a = append(a, v)
		}
	case c == '/':
		ps.p++
		return pname(ps.token()), nil
	default:
		t := ps.token()
		if t == "" {
			return nil, fmt.Errorf("unexpected %q at %d", c, ps.p)
		}
		if n, err := strconv.Atoi(t); err == nil && t[0] != '+' {
			// maybe "n g R"
			save := ps.p
			ps.skipWS()
			t2 := ps.token()
			if g, err2 := strconv.Atoi(t2); err2 == nil && t2 != "" && n >= 0 && g >= 0 {
				ps.skipWS()
				if ps.p < len(ps.b) && ps.b[ps.p] == 'R' && (ps.p+1 == len(ps.b) || isWS(ps.b[ps.p+1]) || isDelim(ps.b[ps.p+1])) {
					ps.p++
					return pref{n, g}, nil
				}
			}
			ps.p = save
			return n, nil
		}
		return t, nil // real, true, false, null, ...
	}
}

// ---------------------------------------------------------------- sequential scan (no xref use)

type scanObj struct {
	nr, gen  int
	off      int    // position of "n g obj"
	body     []byte // bytes between the object header line and EOL "endobj" EOL
	isStream bool
	dict     map[string]any
	data     []byte // raw stream bytes
}

type scanResult struct {
	vmaj, vmin int
	objs       []scanObj
	end        int // position where the sequence of objects stops
}

func hasAt(b []byte, p int, s string) bool {
	return p >= 0 && p+len(s) <= len(b) && string(b[p:p+len(s)]) == s
}

func digitsAt(b []byte, p int) (int, int, bool) {
	q := p
	for q < len(b) && b[q] >= '0' && b[q] <= '9' {
		q++
	}
	if q == p || q-p > 18 {
		return 0, p, false
	}
	// strict: no leading zeros except "0"
	if b[p] == '0' && q-p > 1 {
		return 0, p, false
	}
	v, _ := strconv.Atoi(string(b[p:q]))
	return v, q, true
}

// objHeaderAt parses "<nr> <gen> obj<eol>" exactly.
func objHeaderAt(b []byte, p int, eol string) (nr, gen, next int, ok bool) {
	nr, q, ok1 := digitsAt(b, p)
	if !ok1 || !hasAt(b, q, " ") {
		return 0, 0, p, false
	}
	gen, q, ok1 = digitsAt(b, q+1)
	if !ok1 || !hasAt(b, q, " obj"+eol) {
		return 0, 0, p, false
	}
	return nr, gen, q + 4 + len(eol), true
}

// streamEol: what follows the keyword "stream". With CR line endings pdfcpu writes CRLF there
// (ISO 32000: the keyword is followed by CRLF or LF, never by CR alone); LF and CRLF files use their EOL.
func streamEol(eol string) string {
	if eol == "\r" {
		return "\r\n"
	}
	return eol
}

// bodyEnd finds, from p, the first position outside strings and at nesting depth 0 where
// EOL "endobj" EOL or EOL "stream" streamEol begins.
func bodyEnd(b []byte, p int, eol string) (int, bool, error) {
	depth := 0
	endobj := eol + "endobj" + eol
	stream := eol + "stream" + streamEol(eol)
	for p < len(b) {
		if depth == 0 {
			if hasAt(b, p, endobj) {
				return p, false, nil
			}
			if hasAt(b, p, stream) {
				return p, true, nil
			}
		}
		c := b[p]
		switch {
		case c == '(':
			ps := &parser{b: b, p: p}
			if _, err := ps.literal(); err != nil {
				return 0, false, err
			}
			p = ps.p
		case c == '<' && hasAt(b, p, "<<"):
			depth++
			p += 2
		case c == '<':
			i := bytes.IndexByte(b[p:], '>')
			if i < 0 {
				return 0, false, fmt.Errorf("unterminated hex string at %d", p)
			}
			p += i + 1
		case c == '>' && hasAt(b, p, ">>"):
			depth--
			p += 2
		case c == '[':
			depth++
			p++
		case c == ']':
			depth--
			p++
		default:
			p++
		}
	}
	return 0, false, fmt.Errorf("no endobj")
}

// scanSequential reads the header and then object after object, strictly, until something that is
// not "<nr> <gen> obj" follows. Stream data is delimited by the direct /Length when there is one,
// otherwise by the first EOL "endstream" EOL "endobj" EOL.
func scanSequential(b []byte, start int, eol string, withHeader bool) (*scanResult, error) {
	r := &scanResult{}
	p := start
	if withHeader {
		if !hasAt(b, 0, "%PDF-") || len(b) < 9 || b[5] < '0' || b[5] > '9' || b[6] != '.' || b[7] < '0' || b[7] > '9' || !hasAt(b, 8, eol) {
			return nil, fmt.Errorf("header: first line")
		}
		r.vmaj, r.vmin = int(b[5]-'0'), int(b[7]-'0')
		p = 8 + len(eol)
		if !hasAt(b, p, "%\xe2\xe3\xcf\xd3"+eol) {
			return nil, fmt.Errorf("header: binary comment line")
		}
		p += 5 + len(eol)
	}
	for {
		nr, gen, q, ok := objHeaderAt(b, p, eol)
		if !ok {
			break
		}
		o := scanObj{nr: nr, gen: gen, off: p}
		e, isStream, err := bodyEnd(b, q, eol)
		if err != nil {
			return nil, fmt.Errorf("obj %d at %d: %v", nr, p, err)
		}
		if !isStream {
			o.body = b[q:e]
			p = e + len(eol) + 6 + len(eol)
		} else {
			o.isStream = true
			ps := &parser{b: b[q:e]}
			v, err := ps.value()
			d, isDict := v.(map[string]any)
			if err != nil || !isDict || ps.p != e-q {
				return nil, fmt.Errorf("obj %d at %d: stream dictionary does not parse", nr, p)
			}
			o.dict = d
			ds := e + len(eol) + 6 + len(streamEol(eol))
			tail := eol + "endstream" + eol + "endobj" + eol
			var de int
			if l, ok := d["Length"].(int); ok {
				de = ds + l
				if l < 0 || !hasAt(b, de, tail) {
					return nil, fmt.Errorf("stream-length: obj %d at %d: /Length %d is not followed by EOL endstream EOL endobj", nr, p, l)
				}
			} else {
				i := bytes.Index(b[ds:], []byte(tail))
				if i < 0 {
					return nil, fmt.Errorf("obj %d at %d: no endstream", nr, p)
				}
				de = ds + i
			}
			o.data = b[ds:de]
			o.body = b[q : de+len(eol)+9]
			p = de + len(tail)
		}
		r.objs = append(r.objs, o)
	}
	r.end = p
	return r, nil
}

// ---------------------------------------------------------------- xref section

type xent struct {
	nr   int
	typ  int // 0 free, 1 in use, 2 compressed
	a, b int // offset|next|objstm ; gen|gen|index
}

type xsection struct {
	off     int
	stream  bool
	ents    []xent
	size    int
	prev    int // -1 if none
	trailer map[string]any
	tdict   []byte // raw trailer dictionary text (table form)
	end     int    // position right after the section's dictionary/obj
	// cross-reference streams only
	w     [3]int
	index []int  // start, count pairs
	data  []byte // inflated rows
}

func fixedDigits(b []byte, p, n int) (int, bool) {
	if p+n > len(b) {
		return 0, false
	}
	v := 0
	for i := 0; i < n; i++ {
		c := b[p+i]
		if c < '0' || c > '9' {
			return 0, false
		}
		v = v*10 + int(c-'0')
	}
	return v, true
}

// parseTail reads the last lines: startxref EOL <n> EOL %%EOF EOL.
func parseTail(b []byte, eol string) (xoff int, startxrefPos int, err error) {
	t := "%%EOF" + eol
	if !bytes.HasSuffix(b, []byte(t)) {
		return 0, 0, fmt.Errorf("file does not end with %%%%EOF EOL")
	}
	p := len(b) - len(t)
	if !hasAt(b, p-len(eol), eol) {
		return 0, 0, fmt.Errorf("no EOL before %%%%EOF")
	}
	q := p - len(eol)
	s := q
	for s > 0 && b[s-1] >= '0' && b[s-1] <= '9' {
		s--
	}
	v, e, ok := digitsAt(b, s)
	if !ok || e != q {
		return 0, 0, fmt.Errorf("startxref value")
	}
	k := "startxref" + eol
	if !hasAt(b, s-len(k), k) {
		return 0, 0, fmt.Errorf("startxref keyword")
	}
	return v, s - len(k), nil
}

func parseTableAt(b []byte, x int, eol string) (*xsection, error) {
	s := &xsection{off: x, prev: -1}
	if !hasAt(b, x, "xref"+eol) {
		return nil, fmt.Errorf("startxref-target: no xref keyword at %d", x)
	}
	p := x + 4 + len(eol)
	e2 := " " + eol
	if len(eol) == 2 {
		e2 = eol
	}
	for !hasAt(b, p, "trailer"+eol) {
		start, q, ok := digitsAt(b, p)
		if !ok || !hasAt(b, q, " ") {
			return nil, fmt.Errorf("xref-syntax: subsection header at %d", p)
		}
		cnt, q, ok := digitsAt(b, q+1)
		if !ok || !hasAt(b, q, eol) || cnt == 0 {
			return nil, fmt.Errorf("xref-syntax: subsection header at %d", p)
		}
		p = q + len(eol)
		for i := 0; i < cnt; i++ {
			a, ok1 := fixedDigits(b, p, 10)
			g, ok2 := fixedDigits(b, p+11, 5)
			if !ok1 || !ok2 || p+20 > len(b) || b[p+10] != ' ' || b[p+16] != ' ' || (b[p+17] != 'n' && b[p+17] != 'f') || !hasAt(b, p+18, e2) {
				return nil, fmt.Errorf("xref-syntax: entry for obj %d at %d is not a 20-byte entry", start+i, p)
			}
			t := 1
			if b[p+17] == 'f' {
				t = 0
			}
			s.ents = append(s.ents, xent{nr: start + i, typ: t, a: a, b: g})
			p += 20
		}
	}
	p += 7 + len(eol)
	ps := &parser{b: b, p: p}
	v, err := ps.value()
	d, isDict := v.(map[string]any)
	if err != nil || !isDict || !hasAt(b, p, "<<") {
		return nil, fmt.Errorf("xref-syntax: trailer dictionary")
	}
	s.trailer = d
	s.tdict = b[p:ps.p]
	s.end = ps.p
	sz, ok := d["Size"].(int)
	if !ok {
		return nil, fmt.Errorf("size: trailer has no integer /Size")
	}
	s.size = sz
	if pv, ok := d["Prev"].(int); ok {
		s.prev = pv
	}
	return s, nil
}

func inflate(b []byte) ([]byte, error) {
	zr, err := zlib.NewReader(bytes.NewReader(b))
	if err != nil {
		return nil, err
	}
	return io.ReadAll(zr)
}

func parseXRefStreamAt(b []byte, x int, eol string) (*xsection, error) {
	s := &xsection{off: x, prev: -1, stream: true}
	r, err := scanSequential(b, x, eol, false)
	if err != nil {
		return nil, fmt.Errorf("startxref-target: %v", err)
	}
	if len(r.objs) != 1 || !r.objs[0].isStream {
		return nil, fmt.Errorf("startxref-target: expected exactly one stream object at %d, found %d objects", x, len(r.objs))
	}
	o := r.objs[0]
	s.end = r.end
	d := o.dict
	if t, _ := d["Type"].(pname); t != "XRef" {
		return nil, fmt.Errorf("startxref-target: object at %d is not /Type/XRef", x)
	}
	s.trailer = d
	sz, ok := d["Size"].(int)
	if !ok {
		return nil, fmt.Errorf("size: xref stream has no integer /Size")
	}
	s.size = sz
	if pv, ok := d["Prev"].(int); ok {
		s.prev = pv
	}
	wa, _ := d["W"].([]any)
	if len(wa) != 3 {
		return nil, fmt.Errorf("xref-syntax: /W")
	}
	var w [3]int
	for i := range w {
		v, ok := wa[i].(int)
		if !ok || v < 0 || v > 8 {
			return nil, fmt.Errorf("xref-syntax: /W")
		}
		w[i] = v
	}
	idx := []int{0, sz}
	if ia, ok := d["Index"].([]any); ok {
		idx = nil
		for _, v := range ia {
			n, ok := v.(int)
			if !ok {
				return nil, fmt.Errorf("xref-syntax: /Index")
			}
			idx = append(idx, n)
		}
		if len(idx)%2 != 0 {
			return nil, fmt.Errorf("xref-syntax: /Index")
		}
	}
	data := o.data
	if f, ok := d["Filter"].(pname); ok {
		if f != "FlateDecode" {
			return nil, fmt.Errorf("xref-syntax: filter %s", f)
		}
		if data, err = inflate(data); err != nil {
			return nil, fmt.Errorf("xref-syntax: inflate: %v", err)
		}
	} else if _, has := d["Filter"]; has {
		return nil, fmt.Errorf("xref-syntax: filter")
	}
	s.w, s.index, s.data = w, idx, data
	rowLen := w[0] + w[1] + w[2]
	total := 0
	for i := 0; i < len(idx); i += 2 {
		total += idx[i+1]
	}
	if rowLen == 0 || len(data) != total*rowLen {
		return nil, fmt.Errorf("xref-stream-width: decoded cross-reference stream has %d bytes, /Index announces %d rows of /W %v = %d bytes (a field wider than /W declares misaligns all following rows)", len(data), total, w, total*rowLen)
	}
	p := 0
	field := func(n int, def int) int {
		if n == 0 {
			return def
		}
		v := 0
		for i := 0; i < n; i++ {
			v = v<<8 | int(data[p+i])
		}
		p += n
		return v
	}
	for i := 0; i < len(idx); i += 2 {
		for k := 0; k < idx[i+1]; k++ {
			t := field(w[0], 1)
			a := field(w[1], 0)
			g := field(w[2], 0)
			if t > 2 {
				return nil, fmt.Errorf("xref-syntax: row type %d", t)
			}
			s.ents = append(s.ents, xent{nr: idx[i] + k, typ: t, a: a, b: g})
		}
	}
	return s, nil
}

func parseSectionAt(b []byte, x int, eol string) (*xsection, error) {
	if x < 0 || x >= len(b) {
		return nil, fmt.Errorf("startxref-target: offset %d outside the file", x)
	}
	if hasAt(b, x, "xref") {
		return parseTableAt(b, x, eol)
	}
	return parseXRefStreamAt(b, x, eol)
}

// ---------------------------------------------------------------- the strict check

type finding struct{ class, detail string }

type checked struct {
	sec      *xsection // newest section
	scan     *scanResult
	merged   map[int]xent
	findings []finding
	nInUse   int
	nComp    int
	nFree    int
	nStreams int
	maxComp  int
	byOff    map[int]scanObj
}

func classOf(err error) string {
	s := err.Error()
	for i := 0; i < len(s); i++ {
		if s[i] == ':' {
			switch s[:i] {
			case "header", "stream-length", "startxref-target", "xref-syntax", "xref-stream-width", "size":
				return s[:i]
			}
			break
		}
	}
	return "scan"
}

// checkFile verifies the C18 facts on b. encrypted: object stream contents cannot be inflated.
func checkFile(b []byte, eol string, encrypted bool) *checked {
	c := &checked{merged: map[int]xent{}}
	fail := func(class, f string, a ...any) { c.findings = append(c.findings, finding{class, fmt.Sprintf(f, a...)}) }

	x, sxPos, err := parseTail(b, eol)
	if err != nil {
		fail("tail-syntax", "%v", err)
		return c
	}
	sec, err := parseSectionAt(b, x, eol)
	if err != nil {
		fail(classOf(err), "%v", err)
		return c
	}
	c.sec = sec
	// the section must end exactly where EOL startxref begins (table: trailer dict EOL startxref)
	if !sec.stream {
		if sec.end+len(eol) != sxPos || !hasAt(b, sec.end, eol) {
			fail("tail-syntax", "trailer dictionary ends at %d, startxref keyword at %d", sec.end, sxPos)
		}
	} else if sec.end != sxPos {
		fail("tail-syntax", "xref stream object ends at %d, startxref keyword at %d", sec.end, sxPos)
	}

	// revisions: follow /Prev (incremental updates); newest entry wins
	type rev struct {
		sec        *xsection
		start, end int // byte range of the revision's objects
	}
	var revs []rev
	cur := sec
	seenOff := map[int]bool{}
	for cur != nil {
		if seenOff[cur.off] {
			fail("xref-syntax", "/Prev loop at %d", cur.off)
			break
		}
		seenOff[cur.off] = true
		for _, e := range cur.ents {
			if _, ok := c.merged[e.nr]; !ok {
				c.merged[e.nr] = e
			}
		}
		revs = append(revs, rev{sec: cur})
		if cur.prev < 0 {
			break
		}
		nx, err := parseSectionAt(b, cur.prev, eol)
		if err != nil {
			// an older revision not written by pdfcpu with this EOL: cannot be checked strictly
			fail("prev-section", "%v", err)
			return c
		}
		cur = nx
	}

	// sequential scan of the newest revision's objects (single revision: from the header)
	var sc *scanResult
	if len(revs) == 1 {
		sc, err = scanSequential(b, 0, eol, true)
		if err != nil {
			fail(classOf(err), "%v", err)
			return c
		}
		wantEnd := sec.off
		if sec.stream {
			wantEnd = sec.end // the xref stream is itself the last object
		}
		if sc.end != wantEnd {
			fail("scan-garbage", "sequential objects end at %d but the xref section starts at %d", sc.end, wantEnd)
		}
	} else {
		// the increment starts after the previous revision's %%EOF line
		prevEnd := -1
		older := revs[1].sec
		i := bytes.Index(b[older.end:], []byte("%%EOF"+eol))
		if i >= 0 {
			prevEnd = older.end + i + 5 + len(eol)
		}
		if prevEnd < 0 {
			fail("scan-garbage", "previous revision has no %%%%EOF")
			return c
		}
		sc, err = scanSequential(b, prevEnd, eol, false)
		if err != nil {
			fail(classOf(err), "%v", err)
			return c
		}
		wantEnd := sec.off
		if sec.stream {
			wantEnd = sec.end
		}
		if sc.end != wantEnd {
			fail("scan-garbage", "increment objects end at %d but the xref section starts at %d", sc.end, sec.off)
		}
		if !hasAt(b, 0, "%PDF-") {
			fail("header", "no %%PDF- header")
		}
	}
	c.scan = sc

	// /Size
	maxNr := -1
	for nr := range c.merged {
		if nr > maxNr {
			maxNr = nr
		}
	}
	if sec.size > maxNr+1 {
		fail("size-too-large", "/Size %d but the highest object number in the cross-reference is %d (objects %d..%d have no entry at all)", sec.size, maxNr, maxNr+1, sec.size-1)
	} else if sec.size < maxNr+1 {
		fail("size-too-small", "/Size %d but the cross-reference has an entry for object %d", sec.size, maxNr)
	}
	// newest section: strictly increasing object numbers
	for i := 1; i < len(sec.ents); i++ {
		if sec.ents[i].nr <= sec.ents[i-1].nr {
			fail("xref-syntax", "object numbers not strictly increasing at obj %d", sec.ents[i].nr)
			break
		}
	}

	// in-use entries locate their object exactly
	byOff := map[int]scanObj{}
	for _, o := range sc.objs {
		byOff[o.off] = o
	}
	c.byOff = byOff
	located := map[int]bool{}
	for _, e := range sec.ents {
		switch e.typ {
		case 1:
			c.nInUse++
			nr, gen, _, ok := objHeaderAt(b, e.a, eol)
			if !ok || nr != e.nr || gen != e.b {
				got := ""
				if e.a >= 0 && e.a < len(b) {
					end := e.a + 24
					if end > len(b) {
						end = len(b)
					}
					got = string(b[e.a:end])
				}
				if ok && nr == e.nr {
					// right object, wrong generation: the entry and the object header disagree
					fail("inuse-generation", "entry obj %d has generation %d but the object header at offset %d says %q", e.nr, e.b, e.a, got)
					located[e.a] = true
					continue
				}
				fail("inuse-offset", "entry obj %d gen %d says offset %d, found %q there", e.nr, e.b, e.a, got)
				continue
			}
			if _, ok := byOff[e.a]; ok {
				located[e.a] = true
			} else if len(revs) == 1 {
				fail("inuse-offset", "entry obj %d points at %d which is inside another object", e.nr, e.a)
			}
		case 2:
			c.nComp++
			if e.nr > c.maxComp {
				c.maxComp = e.nr
			}
		case 0:
			c.nFree++
		}
	}
	for _, o := range sc.objs {
		if !located[o.off] {
			fail("scan-xref-mismatch", "object %d %d at offset %d has no cross-reference entry pointing at it", o.nr, o.gen, o.off)
		}
	}

	// older revisions of an incrementally updated file: every in-use entry of every section still finds
	// exactly its "<nr> <gen> obj" header (superseded objects stay in the file)
	for ri := 1; ri < len(revs); ri++ {
		for _, e := range revs[ri].sec.ents {
			if e.typ != 1 {
				continue
			}
			nr, gen, _, ok := objHeaderAt(b, e.a, eol)
			if ok && nr == e.nr && gen == e.b {
				continue
			}
			got := ""
			if e.a >= 0 && e.a < len(b) {
				end := e.a + 24
				if end > len(b) {
					end = len(b)
				}
				got = string(b[e.a:end])
			}
			if ok && nr == e.nr {
				fail("inuse-generation", "revision -%d: entry obj %d has generation %d but the object header at offset %d says %q", ri, e.nr, e.b, e.a, got)
			} else {
				fail("inuse-offset", "revision -%d: entry obj %d gen %d says offset %d, found %q there", ri, e.nr, e.b, e.a, got)
			}
		}
	}

	// compressed entries: stated index of a valid object stream
	type ostm struct {
		nrs []int
		err string
	}
	ostms := map[int]*ostm{}
	for _, e := range sec.ents {
		if e.typ != 2 {
			continue
		}
		os, ok := ostms[e.a]
		if !ok {
			os = &ostm{}
			ostms[e.a] = os
			ce, found := c.merged[e.a]
			var so scanObj
			have := false
			if found && ce.typ == 1 {
				so, have = byOff[ce.a]
			}
			switch {
			case !found || ce.typ != 1:
				os.err = "object stream is not an in-use uncompressed object"
			case !have || !so.isStream:
				os.err = "object stream object not found as a stream at its offset"
			default:
				if t, _ := so.dict["Type"].(pname); t != "ObjStm" {
					os.err = "not /Type/ObjStm"
					break
				}
				n, ok1 := so.dict["N"].(int)
				first, ok2 := so.dict["First"].(int)
				if !ok1 || !ok2 {
					os.err = "/N or /First missing"
					break
				}
				if encrypted {
					os.nrs = nil
					os.err = "encrypted"
					break
				}
				data := so.data
				if _, has := so.dict["Filter"]; has {
					var err error
					if data, err = inflate(data); err != nil {
						os.err = "inflate: " + err.Error()
						break
					}
				}
				if first > len(data) {
					os.err = "/First beyond the data"
					break
				}
				ps := &parser{b: data[:first]}
				lastOff := -1
				for i := 0; i < n; i++ {
					v1, e1 := ps.value()
					v2, e2 := ps.value()
					a, okA := v1.(int)
					o2, okB := v2.(int)
					if e1 != nil || e2 != nil || !okA || !okB || o2 <= lastOff || first+o2 > len(data) {
						os.err = fmt.Sprintf("prolog pair %d", i)
						break
					}
					lastOff = o2
					os.nrs = append(os.nrs, a)
				}
				if os.err == "" {
					ps.skipWS()
					if ps.p != first && ps.p != len(ps.b) {
						os.err = "/First does not follow the prolog"
					}
				}
				if os.err == "" {
					// every stated offset is the start of exactly one object that ends where the next begins
					ps2 := &parser{b: data[:first]}
					var offs []int
					for i := 0; i < n; i++ {
						ps2.value()
						v, _ := ps2.value()
						offs = append(offs, v.(int))
					}
					for i := range offs {
						end := len(data)
						if i+1 < len(offs) {
							end = first + offs[i+1]
						}
						po := &parser{b: data[first+offs[i] : end]}
						if len(po.b) == 0 || isWS(po.b[0]) {
							os.err = fmt.Sprintf("offset of object %d (index %d) does not point at an object", os.nrs[i], i)
							break
						}
						if _, err := po.value(); err != nil {
							os.err = fmt.Sprintf("object %d (index %d) does not parse at its offset", os.nrs[i], i)
							break
						}
						po.skipWS()
						if po.p != len(po.b) {
							os.err = fmt.Sprintf("object %d (index %d) does not end where the next offset begins", os.nrs[i], i)
							break
						}
					}
				}
			}
		}
		if os.err == "encrypted" {
			continue
		}
		if os.err != "" {
			fail("objstm-index", "obj %d: object stream %d: %s", e.nr, e.a, os.err)
			continue
		}
		if e.b >= len(os.nrs) || os.nrs[e.b] != e.nr {
			fail("objstm-index", "obj %d is not at index %d of object stream %d", e.nr, e.b, e.a)
		}
	}

	// stream lengths given as indirect references
	for _, o := range sc.objs {
		if !o.isStream {
			continue
		}
		c.nStreams++
		if _, direct := o.dict["Length"].(int); direct {
			continue // verified while scanning
		}
		ref, ok := o.dict["Length"].(pref)
		if !ok {
			fail("stream-length", "obj %d: /Length is neither an integer nor a reference", o.nr)
			continue
		}
		e, found := c.merged[ref.nr]
		val := -1
		if found && e.typ == 1 {
			if lo, ok := byOff[e.a]; ok {
				if v, err := strconv.Atoi(string(bytes.TrimSpace(lo.body))); err == nil {
					val = v
				}
			}
		}
		if val != len(o.data) {
			fail("stream-length", "obj %d: indirect /Length %d %d R = %d, stream has %d bytes", o.nr, ref.nr, ref.gen, val, len(o.data))
		}
	}

	// free list (full files only: an increment lists no free entries)
	if len(revs) == 1 {
		for _, f := range freeListFindings(sec.ents) {
			cl := "free-list-broken"
			if strings.HasSuffix(f, "is not on the free list") {
				cl = "free-list-unlinked"
			}
			fail(cl, "%s", f)
		}
	}
	return c
}

// freeListFindings: object 0 is free with generation 65535 and heads a chain through free entries
// that ends with link 0 and visits no entry twice; every other free entry is on the chain or is a
// dead entry (generation 65535, link 0).
func freeListFindings(ents []xent) []string {
	var out []string
	free := map[int]xent{}
	for _, e := range ents {
		if e.typ == 0 {
			free[e.nr] = e
		}
	}
	h, ok := free[0]
	if !ok {
		return []string{"object 0 is not a free entry"}
	}
	if h.b != 65535 {
		out = append(out, fmt.Sprintf("object 0 has generation %d", h.b))
	}
	seen := map[int]bool{}
	cur := h.a
	for cur != 0 {
		e, ok := free[cur]
		if !ok {
			out = append(out, fmt.Sprintf("free list links to object %d which is not a free entry", cur))
			return out
		}
		if seen[cur] {
			out = append(out, fmt.Sprintf("free list visits object %d twice", cur))
			return out
		}
		seen[cur] = true
		cur = e.a
	}
	var nrs []int
	for nr := range free {
		nrs = append(nrs, nr)
	}
	sort.Ints(nrs)
	for _, nr := range nrs {
		e := free[nr]
		if nr != 0 && !seen[nr] && !(e.b == 65535 && e.a == 0) {
			out = append(out, fmt.Sprintf("free entry %d (next %d, gen %d) is not on the free list", nr, e.a, e.b))
		}
	}
	return out
}

// ---------------------------------------------------------------- page contents through the strict structures

// object resolves object nr through the (non-repaired) cross-reference: value, raw stream data (streams).
func (c *checked) object(nr int) (any, []byte, map[string]any, bool) {
	e, ok := c.merged[nr]
	if !ok {
		return nil, nil, nil, false
	}
	switch e.typ {
	case 1:
		so, ok := c.byOff[e.a]
		if !ok || so.nr != nr {
			return nil, nil, nil, false
		}
		if so.isStream {
			return so.dict, so.data, so.dict, true
		}
		ps := &parser{b: so.body}
		v, err := ps.value()
		return v, nil, nil, err == nil
	case 2:
		_, data, d, ok := c.object(e.a)
		if !ok || d == nil {
			return nil, nil, nil, false
		}
		if _, has := d["Filter"]; has {
			var err error
			if data, err = inflate(data); err != nil {
				return nil, nil, nil, false
			}
		}
		n, _ := d["N"].(int)
		first, _ := d["First"].(int)
		if first > len(data) || e.b >= n {
			return nil, nil, nil, false
		}
		ps := &parser{b: data[:first]}
		var offs []int
		for i := 0; i < n; i++ {
			ps.value()
			v, _ := ps.value()
			o, ok := v.(int)
			if !ok {
				return nil, nil, nil, false
			}
			offs = append(offs, o)
		}
		end := len(data)
		if e.b+1 < n {
			end = first + offs[e.b+1]
		}
		if first+offs[e.b] > end || end > len(data) {
			return nil, nil, nil, false
		}
		po := &parser{b: data[first+offs[e.b] : end]}
		v, err := po.value()
		return v, nil, nil, err == nil
	}
	return nil, nil, nil, false
}

// pageContents walks /Root /Pages /Kids and returns the decoded content of every page, in order.
func (c *checked) pageContents() ([]string, error) {
	if c.sec == nil {
		return nil, fmt.Errorf("no cross-reference")
	}
	deref := func(v any) (any, []byte, map[string]any, bool) {
		if r, ok := v.(pref); ok {
			return c.object(r.nr)
		}
		return v, nil, nil, true
	}
	root, _, _, ok := deref(c.sec.trailer["Root"])
	rd, isDict := root.(map[string]any)
	if !ok || !isDict {
		return nil, fmt.Errorf("catalog does not resolve")
	}
	var out []string
	var walk func(v any, depth int) error
	walk = func(v any, depth int) error {
		n, _, _, ok := deref(v)
		d, isDict := n.(map[string]any)
		if !ok || !isDict || depth > 20 {
			return fmt.Errorf("page tree node %v does not resolve to a dictionary", v)
		}
		switch t, _ := d["Type"].(pname); t {
		case "Pages":
			kids, _, _, ok := deref(d["Kids"])
			ka, isArr := kids.([]any)
			if !ok || !isArr {
				return fmt.Errorf("/Kids does not resolve")
			}
			for _, k := range ka {
				if err := walk(k, depth+1); err != nil {
					return err
				}
			}
		case "Page":
			var parts []any
			if cr, isRef := d["Contents"].(pref); isRef {
				v, data, sd, ok := c.object(cr.nr)
				if ok && sd == nil {
					if arr, isArr := v.([]any); isArr {
						parts = arr
					}
				}
				if ok && sd != nil {
					_ = data
					parts = []any{cr}
				}
				if !ok {
					return fmt.Errorf("/Contents %d does not resolve", cr.nr)
				}
			} else if arr, isArr := d["Contents"].([]any); isArr {
				parts = arr
			}
			var sb []byte
			for _, p := range parts {
				r, isRef := p.(pref)
				if !isRef {
					return fmt.Errorf("content array element is not a reference")
				}
				_, data, sd, ok := c.object(r.nr)
				if !ok || sd == nil {
					return fmt.Errorf("content stream %d does not resolve to a stream", r.nr)
				}
				if _, has := sd["Filter"]; has {
					var err error
					if data, err = inflate(data); err != nil {
						return fmt.Errorf("content stream %d: %v", r.nr, err)
					}
				}
				sb = append(sb, data...)
			}
			out = append(out, string(sb))
		default:
			return fmt.Errorf("page tree node of type %q", t)
		}
		return nil
	}
	if err := walk(rd["Pages"], 0); err != nil {
		return nil, err
	}
	return out, nil
}
