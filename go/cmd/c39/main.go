package main

import (
	"fmt"

	"github.com/pdfcpu/pdfcpu/pkg/pdfcpu/model"
	"github.com/pdfcpu/pdfcpu/pkg/pdfcpu/types"
)

func try(f func()) {
	defer func() {
		if e := recover(); e != nil {
			fmt.Println("PANIC:", e)
		}
	}()
	f()
}

func main() {
	t := &model.Node{}
	try(func() { e, ok, err := t.Remove(nil, ""); fmt.Println("remove '' on fresh:", e, ok, err) })
	t = &model.Node{}
	t.Add(nil, "a", types.Integer(1), nil, nil)
	try(func() { e, ok, err := t.Remove(nil, "a"); fmt.Println(e, ok, err, t.String()) })
	try(func() { e, ok, err := t.Remove(nil, ""); fmt.Println("remove '' on emptied:", e, ok, err) })

	t = &model.Node{}
	for i, k := range []string{"a", "b", "b", "c", "b"} {
		m := model.NameMap{k: nil}
		err := t.Add(nil, k, types.Integer(i), m, []string{"F"})
		fmt.Printf("add %q: %v -> %q\n", k, err, t.String())
	}
	l, _ := t.KeyList()
	fmt.Printf("%q\n", l)
}
