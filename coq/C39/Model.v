(* C39 — executable model of pdfcpu's name tree (pkg/pdfcpu/model/nameTree.go).
   Hand-transcribed, function by function; NO proofs in this file.

   Keys are Go strings = byte lists (list N); Go's `<` / `==` on strings is the
   lexicographic order on bytes.  Values (types.Object) are opaque: N.
   A Go Node with len(Kids)==0 is a Leaf (Node.leaf()), otherwise an Inner node;
   Names of an intermediate node are always empty in pdfcpu (validateNameTree
   fills Names only for nodes without Kids; HandleLeaf sets Names=nil on split). *)
From Coq Require Import List NArith Bool.
Import ListNotations.

Definition key := list N.
Definition val := N.
Definition entry := (key * val)%type.

(* Go: k < s on strings *)
Fixpoint kltb (a b : key) : bool :=
  match a, b with
  | [], [] => false
  | [], _ :: _ => true
  | _ :: _, [] => false
  | x :: a', y :: b' => if N.ltb x y then true else if N.ltb y x then false else kltb a' b'
  end.
(* Go: k == s *)
Fixpoint keqb (a b : key) : bool :=
  match a, b with
  | [], [] => true
  | x :: a', y :: b' => N.eqb x y && keqb a' b'
  | _, _ => false
  end.
(* keyLessOrEqual *)
Definition kleb (k s : key) : bool := keqb k s || kltb k s.

Inductive node :=
| Leaf (names : list entry) (kmin kmax : key)
| Inner (kids : list node) (kmin kmax : key).

Definition nmin n := match n with Leaf _ a _ | Inner _ a _ => a end.
Definition nmax n := match n with Leaf _ _ b | Inner _ _ b => b end.

(* Node.withinLimits *)
Definition within_lim (a b k : key) : bool := kleb a k && kleb k b.
Definition within (n : node) (k : key) : bool := within_lim (nmin n) (nmax n) k.

(* Node.emptyLeaf *)
Definition is_empty_leaf (n : node) : bool :=
  match n with Leaf [] _ _ => true | _ => false end.

(* the empty tree: &Node{} (LocateNameTree) *)
Definition empty_tree : node := Leaf [] [] [].

(* ---- Node.Value ---- *)
Fixpoint leaf_value (ns : list entry) (k : key) : option val :=
  match ns with
  | [] => None
  | (k', v) :: r => if kltb k' k then leaf_value r k else if keqb k' k then Some v else None
  end.

Fixpoint tvalue (n : node) (k : key) {struct n} : option val :=
  if negb (within n k) then None else
  match n with
  | Leaf ns _ _ => leaf_value ns k
  | Inner kids _ _ =>
      (fix go (l : list node) : option val :=
         match l with
         | [] => None
         | c :: r => if within c k then tvalue c k else go r
         end) kids
  end.

(* ---- Node.Process order / KeyList: in-order entries ---- *)
Fixpoint entries (n : node) : list entry :=
  match n with
  | Leaf ns _ _ => ns
  | Inner kids _ _ =>
      (fix go (l : list node) : list entry :=
         match l with [] => [] | c :: r => entries c ++ go r end) kids
  end.
Definition keys (n : node) : list key := map fst (entries n).

(* ---- insertIntoLeaf: None = errNameTreeDuplicateKey;
        Some (names', atEnd): atEnd = "Insert k at end" branch (sets Kmax = k) ---- *)
Fixpoint ins (ns : list entry) (k : key) (v : val) : option (list entry * bool) :=
  match ns with
  | [] => Some ([(k, v)], true)
  | (k', v') :: r =>
      if kltb k' k then
        match ins r k v with
        | Some (l, e) => Some ((k', v') :: l, e)
        | None => None
        end
      else if keqb k' k then None
      else Some ((k, v) :: (k', v') :: r, false)
  end.

(* ---- insertUniqueIntoLeaf.  rn = "kOrig is a key of the NameMap m" (rename mode,
   the referring dicts accept the rename); rn=false covers m == nil / kOrig not in m.
   The Go loop has no bound; the model uses fuel S(length ns) and reports exhaustion
   explicitly (IFuel); ProofsHistory.v (ins_unique_never_out_of_fuel) shows IFuel never happens. ---- *)
Inductive ires :=
| IUnchanged                                   (* (true, nil): duplicate kept as is *)
| IDone (ns : list entry) (atend : bool) (k : key)
| IFuel.
Fixpoint ins_unique (fuel : nat) (rn : bool) (ns : list entry) (k : key) (v : val) : ires :=
  match ins ns k v with
  | Some (l, e) => IDone l e k
  | None =>
      if negb rn then IUnchanged else
      match fuel with
      | O => IFuel
      | S f => ins_unique f rn ns (k ++ [1%N]) v
      end
  end.

Definition maxEntries : nat := 3.

Definition key_at (ns : list entry) (i : nat) : key := fst (nth i ns ([], 0%N)).

(* tail of HandleLeaf: split exactly when len == maxEntries+1 *)
Definition split_check (ns : list entry) (a b : key) : node :=
  if Nat.eqb (length ns) (S maxEntries) then
    let c := S maxEntries in
    let h := Nat.div c 2 in
    Inner [Leaf (firstn h ns) (key_at ns 0) (key_at ns (h - 1));
           Leaf (skipn h ns) (key_at ns h) (key_at ns (c - 1))] a b
  else Leaf ns a b.

(* ---- Node.HandleLeaf ---- *)
Definition handle_leaf (rn : bool) (ns : list entry) (a b : key) (k : key) (v : val) : node :=
  match ns with
  | [] => Leaf [(k, v)] k k
  | _ =>
      if kltb k a then split_check ((k, v) :: ns) k b
      else if kltb b k then split_check (ns ++ [(k, v)]) a k
      else match ins_unique (S (length ns)) rn ns k v with
           | IUnchanged => Leaf ns a b
           | IFuel => Leaf ns a b
           | IDone ns' atend k' => split_check ns' a (if atend then k' else b)
           end
  end.

(* ---- Node.Add + updateNameTreeLimits: descend into the first kid a with
   k < a.Kmin || a.withinLimits(k), else the last kid; afterwards every node on the
   path takes Kmin of its first kid and Kmax of its last kid (bottom-up). ---- *)
Fixpoint tadd (rn : bool) (n : node) (k : key) (v : val) {struct n} : node :=
  match n with
  | Leaf ns a b => handle_leaf rn ns a b k v
  | Inner kids a b =>
      let kids' :=
        (fix go (l : list node) : list node :=
           match l with
           | [] => []
           | c :: r =>
               match r with
               | [] => [tadd rn c k v]
               | _ => if kltb k (nmin c) || within c k then tadd rn c k v :: r else c :: go r
               end
           end) kids in
      Inner kids' (nmin (hd n kids')) (nmax (last kids' n))
  end.

(* ---- removeFromNames: removes the first entry whose key equals k ---- *)
Fixpoint rm_names (ns : list entry) (k : key) : option (list entry) :=
  match ns with
  | [] => None
  | (k', v) :: r =>
      if kltb k' k then option_map (cons (k', v)) (rm_names r k)
      else if keqb k' k then Some r
      else option_map (cons (k', v)) (rm_names r k)
  end.

(* result of Node.Remove: the node after the call, (empty, ok); RPanic = Go run-time panic
   (never produced: Proofs show tremove n k <> RPanic for every tree) *)
Inductive rres := RPanic | R (n : node) (empty ok : bool).

(* ---- removeFromLeaf (+ removeSingleFromParent), the part after the len(n.Names) == 0 test.
   The RPanic results (index into an empty slice) are unreachable once Names is non-empty. ---- *)
Definition remove_leaf_names (ns : list entry) (a b : key) (k : key) : rres :=
  if kltb k a || kltb b k then R (Leaf ns a b) false false
  else match ns with
  | [_] => R (Leaf [] [] []) true true
  | _ =>
    if keqb k a then
      match ns with
      | [] => RPanic                               (* n.Names[0] on an empty slice *)
      | _ :: r => match r with
                  | [] => RPanic
                  | (k2, _) :: _ => R (Leaf r k2 b) false true
                  end
      end
    else if keqb k b then
      match ns with
      | [] => RPanic                               (* n.Names[len-1] on an empty slice *)
      | _ => let r := removelast ns in
             match r with
             | [] => RPanic
             | _ => R (Leaf r a (fst (last r ([], 0%N)))) false true
             end
      end
    else match rm_names ns k with
         | Some l => R (Leaf l a b) false true
         | None => R (Leaf ns a b) false false
         end
  end.

(* removeFromLeaf: if len(n.Names) == 0 || keyLess(k, n.Kmin) || keyLess(n.Kmax, k) { return false, false, nil } *)
Definition remove_leaf (ns : list entry) (a b : key) (k : key) : rres :=
  match ns with
  | [] => R (Leaf [] a b) false false
  | _ => remove_leaf_names ns a b k
  end.

(* outcome of the loop in removeFromKids *)
Inductive kres :=
| KNone                              (* no kid within limits: return false *)
| KPanic
| KFail (kids : list node)           (* kid.Remove said !ok *)
| KKept (kids : list node)           (* removed, kid not empty *)
| KDropped (kids : list node).       (* removed, kid became empty and was dropped (removeKid) *)

(* ---- Node.Remove / removeFromKids / removeKid ---- *)
Fixpoint tremove (n : node) (k : key) {struct n} : rres :=
  match n with
  | Leaf ns a b => remove_leaf ns a b k
  | Inner kids a b =>
      let kr :=
        (fix go (l : list node) : kres :=
           match l with
           | [] => KNone
           | c :: r =>
               if within c k then
                 match tremove c k with
                 | RPanic => KPanic
                 | R c' e ok =>
                     if ok then (if e then KDropped r else KKept (c' :: r))
                     else KFail (c' :: r)
                 end
               else match go r with
                    | KNone => KNone
                    | KPanic => KPanic
                    | KFail l' => KFail (c :: l')
                    | KKept l' => KKept (c :: l')
                    | KDropped l' => KDropped (c :: l')
                    end
           end) kids in
      match kr with
      | KNone => R (Inner kids a b) false false
      | KPanic => RPanic
      | KFail kids' => R (Inner kids' a b) false false
      | KKept kids' => R (Inner kids' (nmin (hd n kids')) (nmax (last kids' n))) false true
      | KDropped kids' =>
          match kids' with
          | [] => R (Leaf [] a b) true true          (* no kids left: n is an empty leaf, limits stale *)
          | [only] => R only (is_empty_leaf only) true     (* *n = *n.Kids[0] *)
          | _ => R (Inner kids' (nmin (hd n kids')) (nmax (last kids' n))) false true
          end
      end
  end.

(* ---- histories ---- *)
Inductive op :=
| OAdd (k : key) (v : val)        (* Add with m == nil *)
| OAddRn (k : key) (v : val)      (* Add with m = {k: ...} (attachments, bookmarks) *)
| ORemove (k : key).

Definition step (t : node) (o : op) : option node :=
  match o with
  | OAdd k v => Some (tadd false t k v)
  | OAddRn k v => Some (tadd true t k v)
  | ORemove k => match tremove t k with RPanic => None | R t' _ _ => Some t' end
  end.

Fixpoint run (ops : list op) (t : node) : option node :=
  match ops with
  | [] => Some t
  | o :: r => match step t o with None => None | Some t' => run r t' end
  end.

(* ---- specification: a sorted association list ---- *)
Fixpoint m_lookup (k : key) (m : list entry) : option val :=
  match m with
  | [] => None
  | (k', v) :: r => if keqb k' k then Some v else m_lookup k r
  end.
(* insert keeping an existing binding *)
Fixpoint m_add (k : key) (v : val) (m : list entry) : list entry :=
  match m with
  | [] => [(k, v)]
  | (k', v') :: r =>
      if kltb k' k then (k', v') :: m_add k v r
      else if keqb k' k then m
      else (k, v) :: m
  end.
Fixpoint m_remove (k : key) (m : list entry) : list entry :=
  match m with
  | [] => []
  | (k', v') :: r => if keqb k' k then r else (k', v') :: m_remove k r
  end.
Definition spec_step (m : list entry) (o : op) : list entry :=
  match o with
  | OAdd k v | OAddRn k v => m_add k v m
  | ORemove k => m_remove k m
  end.
Definition spec_run (ops : list op) (m : list entry) : list entry := fold_left spec_step ops m.
