// Harness for C10: cancellation of pdfcpu.ReadWithContext.
//
// A counting context (Err() returns nil k times, then context.Canceled for ever) is handed to
// the real reader.  For every input document and every tested flip point k:
//
//	O (oracle, on the implementation): once a poll has seen the cancellation the read must return
//	  an error matching context.Canceled and a nil *model.Context; if no poll saw it the read must
//	  finish like the uncancelled read; the number of polls at/after the flip ("late polls") must
//	  stay within the model's stage bound (class cancel-swallowed-by-xref-repair when the excess comes from
//	  the xref repair path: the defect fixed in pdfcpu commit 1364969e; cancel-late-polls otherwise).
//	K (correspondence): the poll trace of the uncancelled read (call stacks of every Err() call)
//	  is parsed into the model's `shape`; the extracted Coq model then has to predict, for every
//	  k, the class of the result, the exact number of late polls and the total number of polls.
//	  K runs with the stats logger set (dereferenceObjectsSorted: deterministic order); the
//	  default dereferenceObjectsRaw order (Go map iteration) is covered by O.
package main

import (
	"bytes"
	"context"
	"errors"
	"fmt"
	"io"
	stdlog "log"
	"os"
	"path/filepath"
	"runtime"
	"sort"
	"strings"
	"time"

	"github.com/pdfcpu/pdfcpu/pkg/api"
	"github.com/pdfcpu/pdfcpu/pkg/log"
	"github.com/pdfcpu/pdfcpu/pkg/pdfcpu"
	"github.com/pdfcpu/pdfcpu/pkg/pdfcpu/model"
	"verif/vh"
)

const stageBound = 6 // = Model.stage_bound (checked against the model at run time)

type event struct {
	frames []string // innermost first, function base names
	line   int      // line of the innermost frame
	t      time.Time
}

type cctx struct {
	context.Context
	k       int // flip index, -1 = never
	n       int
	recAll  bool
	events  []event // recAll: every poll; else: the first polls at/after the flip
	flipT   time.Time
	lastT   time.Time
	maxGap  time.Duration
	timeGap bool
}

func (c *cctx) capture() event {
	pcs := make([]uintptr, 48)
	m := runtime.Callers(3, pcs)
	fr := runtime.CallersFrames(pcs[:m])
	var ev event
	for {
		f, more := fr.Next()
		fn := f.Function
		if j := strings.LastIndex(fn, "."); j >= 0 {
			fn = fn[j+1:]
		}
		if fn == "ReadWithContext" || fn == "main" {
			break
		}
		if len(ev.frames) == 0 {
			ev.line = f.Line
		}
		ev.frames = append(ev.frames, fn)
		if !more {
			break
		}
	}
	return ev
}

func (c *cctx) Err() error {
	i := c.n
	c.n++
	if c.timeGap {
		now := time.Now()
		if !c.lastT.IsZero() && now.Sub(c.lastT) > c.maxGap {
			c.maxGap = now.Sub(c.lastT)
		}
		c.lastT = now
	}
	if c.recAll {
		ev := c.capture()
		ev.t = time.Now()
		c.events = append(c.events, ev)
	}
	if c.k >= 0 && i >= c.k {
		if i == c.k {
			c.flipT = time.Now()
		}
		if !c.recAll && len(c.events) < 12 {
			c.events = append(c.events, c.capture())
		}
		return context.Canceled
	}
	return nil
}

func has(ev event, fn string) bool {
	for _, f := range ev.frames {
		if f == fn {
			return true
		}
	}
	return false
}

// ---- shape reconstruction from the uncancelled trace ----

// passes: one entry per pass of buffer()'s loop = number of DetectKeywordsWithContext polls in that pass
type fobj struct {
	passes []int
	k, p   int
}

func (o fobj) String() string {
	ps := make([]string, len(o.passes))
	for i, d := range o.passes {
		ps[i] = fmt.Sprint(d)
	}
	return fmt.Sprintf("%s.%d.%d", strings.Join(ps, "+"), o.k, o.p)
}

type section struct {
	stream bool
	keys   int
	o      fobj
}
type ostream struct {
	o fobj
	n int
}
type entry struct {
	parse bool
	o     fobj
}
type shape struct {
	sections []section
	enc      int
	ostreams []ostream
	entries  []entry
	loop2    int
	repoff   bool
	firstXk  int // poll index of the first buffer poll of the first xref-stream section, -1 if none
}

// addObjPoll adds one poll seen inside an object read to o; phase order must be buffer, keys, post.
func addObjPoll(o *fobj, ev event, post bool) error {
	top := ev.frames[0]
	switch {
	case post:
		o.p++
	case top == "buffer" || top == "DetectKeywordsWithContext":
		if o.k > 0 || o.p > 0 {
			return errors.New("buffer poll after key/post poll")
		}
		if top == "buffer" {
			o.passes = append(o.passes, 0)
		} else {
			if len(o.passes) == 0 || len(ev.frames) < 2 || ev.frames[1] != "buffer" {
				return errors.New("keyword scan outside buffer()")
			}
			o.passes[len(o.passes)-1]++
		}
	case top == "processDictKeys":
		if o.p > 0 {
			return errors.New("key poll after post poll")
		}
		o.k++
	default:
		return fmt.Errorf("unknown poll site %s", top)
	}
	return nil
}

func buildShape(evs []event) (*shape, error) {
	sh := &shape{firstXk: -1}
	// the two poll lines of dereferenceObjectsSorted
	lines := map[int]bool{}
	for _, ev := range evs {
		if ev.frames[0] == "dereferenceObjectsSorted" {
			lines[ev.line] = true
		}
	}
	var ls []int
	for l := range lines {
		ls = append(ls, l)
	}
	sort.Ints(ls)
	if len(ls) != 2 {
		return nil, fmt.Errorf("dereferenceObjectsSorted polls at %d distinct lines, want 2", len(ls))
	}
	stage := 0
	for i, ev := range evs {
		top := ev.frames[0]
		switch {
		case has(ev, "bypassXrefSection"):
			return nil, errors.New("repair path in the uncancelled read")
		case has(ev, "buildXRefTableStartingAt"):
			if stage > 0 {
				return nil, errors.New("xref poll after later stage")
			}
			if top == "buildXRefTableStartingAt" {
				sh.sections = append(sh.sections, section{})
				continue
			}
			if len(sh.sections) == 0 {
				return nil, errors.New("xref poll before loop head")
			}
			cur := &sh.sections[len(sh.sections)-1]
			switch {
			case has(ev, "tryXRefSection") && has(ev, "processTrailer") && top == "processDictKeys" && !has(ev, "parseTrailerDict"):
				if cur.stream {
					return nil, errors.New("mixed section")
				}
				cur.keys++
			case has(ev, "parseXRefStream") && !has(ev, "tryXRefSection"):
				if cur.keys > 0 {
					return nil, errors.New("mixed section")
				}
				if !cur.stream && sh.firstXk < 0 {
					sh.firstXk = i
				}
				cur.stream = true
				if err := addObjPoll(&cur.o, ev, has(ev, "xRefStreamDict")); err != nil {
					return nil, err
				}
			default:
				return nil, fmt.Errorf("unsupported xref poll site %v", ev.frames)
			}
		case has(ev, "checkForEncryption"):
			return nil, errors.New("encrypted")
		case has(ev, "decodeObjectStreams"):
			if stage > 1 {
				return nil, errors.New("object stream poll after deref stage")
			}
			stage = 1
			if top == "decodeObjectStreams" {
				sh.ostreams = append(sh.ostreams, ostream{})
				continue
			}
			if len(sh.ostreams) == 0 {
				return nil, errors.New("object stream poll before loop head")
			}
			cur := &sh.ostreams[len(sh.ostreams)-1]
			if top == "buildObjectArrayForObjectStream" {
				cur.n++
				continue
			}
			if cur.n > 0 {
				return nil, errors.New("object poll after object array")
			}
			if err := addObjPoll(&cur.o, ev, has(ev, "loadEncodedStreamContent")); err != nil {
				return nil, err
			}
		case has(ev, "dereferenceObjects"):
			stage = 2
			if top == "dereferenceObjectsSorted" {
				if ev.line == ls[0] {
					if sh.loop2 > 0 {
						return nil, errors.New("loop1 poll after loop2")
					}
					sh.entries = append(sh.entries, entry{})
				} else {
					sh.loop2++
				}
				continue
			}
			if len(sh.entries) == 0 || sh.loop2 > 0 {
				return nil, errors.New("entry poll outside loop1")
			}
			cur := &sh.entries[len(sh.entries)-1]
			cur.parse = true
			if err := addObjPoll(&cur.o, ev, has(ev, "loadStreamDict")); err != nil {
				return nil, err
			}
		default:
			return nil, fmt.Errorf("unsupported poll site %v", ev.frames)
		}
	}
	for _, s := range sh.sections {
		if s.stream && len(s.o.passes) < 1 {
			return nil, errors.New("xref stream without buffer poll")
		}
	}
	for _, s := range sh.ostreams {
		if len(s.o.passes) < 1 {
			return nil, errors.New("object stream without buffer poll")
		}
	}
	np := 0
	for _, e := range sh.entries {
		if e.parse {
			np++
			if len(e.o.passes) < 1 {
				return nil, errors.New("entry without buffer poll")
			}
		}
	}
	if sh.loop2 < np || sh.loop2 > len(sh.entries) {
		return nil, errors.New("loop2 count out of range")
	}
	return sh, nil
}

func (sh *shape) args(relaxed bool, nfile int, k int) []string {
	var secs, oss, ents []string
	for _, s := range sh.sections {
		if s.stream {
			secs = append(secs, "X"+s.o.String())
		} else {
			secs = append(secs, fmt.Sprintf("T%d", s.keys))
		}
	}
	for _, s := range sh.ostreams {
		oss = append(oss, fmt.Sprintf("%s.%d", s.o.String(), s.n))
	}
	np := 0
	for _, e := range sh.entries {
		if e.parse {
			np++
		}
	}
	cached := sh.loop2 - np
	run, runKind := 0, ""
	flush := func() {
		if run > 0 {
			ents = append(ents, fmt.Sprintf("%s*%d", runKind, run))
		}
		run = 0
	}
	for _, e := range sh.entries {
		if e.parse {
			flush()
			ents = append(ents, "P"+e.o.String())
			continue
		}
		kind := "F"
		if cached > 0 {
			kind = "C"
			cached--
		}
		if kind != runKind {
			flush()
			runKind = kind
		}
		run++
	}
	flush()
	ks := "-"
	if k >= 0 {
		ks = fmt.Sprint(k)
	}
	return []string{vh.Bool(relaxed), vh.Bool(sh.repoff), "false", strings.Join(secs, ","), fmt.Sprint(nfile), fmt.Sprint(sh.enc),
		strings.Join(oss, ","), strings.Join(ents, ","), ks}
}

// ---- running the reader ----

type result struct {
	class  string // ok | ctx | other
	late   int
	polls  int
	docNil bool
	err    error
	after  time.Duration
	events []event
	panic  string
	repoff bool
}

func newConf(relaxed bool) *model.Configuration {
	conf := model.NewDefaultConfiguration()
	if relaxed {
		conf.ValidationMode = model.ValidationRelaxed
	} else {
		conf.ValidationMode = model.ValidationStrict
	}
	return conf
}

func readWith(b []byte, relaxed bool, c *cctx) (res result) {
	defer func() {
		if p := recover(); p != nil {
			res.class = "panic"
			res.panic = fmt.Sprint(p)
			res.polls = c.n
		}
	}()
	ctx, err := pdfcpu.ReadWithContext(c, bytes.NewReader(b), newConf(relaxed))
	res.polls = c.n
	res.err = err
	res.docNil = ctx == nil
	if ctx != nil && ctx.Read != nil {
		res.repoff = ctx.Read.RepairOffset > 0
	}
	res.events = c.events
	if c.k >= 0 && c.n > c.k {
		res.late = c.n - c.k
		res.after = time.Since(c.flipT)
	}
	switch {
	case err == nil:
		res.class = "ok"
	case errors.Is(err, context.Canceled):
		res.class = "ctx"
	default:
		res.class = "other"
	}
	return res
}

func setSorted(on bool) {
	if on {
		log.SetStatsLogger(stdlog.New(io.Discard, "", 0))
	} else {
		log.SetStatsLogger(nil)
	}
}

type doc struct {
	name  string
	b     []byte
	iters int // scan documents: string literals / comments the keyword scanner has to step over in the big object
}

func main() {
	r := vh.Start("C10")
	defer r.Finish()
	api.DisableConfigDir()
	log.DisableLoggers()

	r.Case("stage_bound", nil, fmt.Sprint(stageBound))

	repo := os.Getenv("VERIF_REPO")
	if repo == "" {
		repo = "/repo"
	}
	emptied := map[string]bool{}
	if eb, err := os.ReadFile("/root/.vp/EMPTIED_FILES.txt"); err == nil {
		for _, l := range strings.Split(string(eb), "\n") {
			emptied[filepath.Base(strings.TrimSpace(l))] = true
		}
	}
	var docs []doc
	docs = append(docs,
		doc{name: "gen:xrefstream-40", b: genDoc(40, true)},
		doc{name: "gen:xreftable-40", b: genDoc(40, false)},
		doc{name: "gen:xrefstream-1200", b: genDoc(1200, true)},
		doc{name: "gen:xreftable-1200", b: genDoc(1200, false)},
		doc{name: "gen:repaired-xref-25", b: genRepaired(25)},
	)
	if r.Thorough() {
		docs = append(docs, doc{name: "gen:xrefstream-100000", b: genDoc(100000, true)})
	}
	// one large object: long single scans of model.DetectKeywordsWithContext
	for _, k := range []string{"literals", "comments", "lookalikes", "hex"} {
		n := r.Pick(20000, 40000)
		b, iters := genScanDoc(k, n)
		docs = append(docs, doc{fmt.Sprintf("gen:scan-%s-%d", k, n), b, iters})
	}
	if r.Thorough() {
		bl, il := genScanDoc("literals", 200000) // 1 MiB object
		docs = append(docs, doc{"gen:scan-literals-200000", bl, il})
		b, iters := genScanDoc("hex", 1<<20) // 16 MiB of hex strings, few scanner iterations
		docs = append(docs, doc{"gen:scan-hex-16MiB", b, iters})
	}
	var files []string
	for _, pat := range []string{"pkg/testdata/*.pdf", "pkg/testdata/*.PDF", "pkg/testdata/pdf20/*.pdf", "pkg/samples/basic/*.pdf"} {
		m, _ := filepath.Glob(filepath.Join(repo, pat))
		files = append(files, m...)
	}
	sort.Strings(files)
	for _, f := range files {
		if emptied[filepath.Base(f)] {
			continue
		}
		b, err := os.ReadFile(f)
		if err != nil || len(b) == 0 {
			continue
		}
		docs = append(docs, doc{name: strings.TrimPrefix(f, repo+"/"), b: b})
	}

	budget := time.Duration(r.Pick(24, 420)) * time.Second
	start := time.Now()
	perDoc := budget / time.Duration(len(docs))
	var maxLate, maxLateOutside int
	reported := map[string]bool{}
	nShapeOK, nShapeBad := 0, 0
	var maxAfter, maxGap time.Duration
	var maxAfterDoc, maxGapDoc string

	for _, d := range docs {
		docStart := time.Now()
		for _, relaxed := range []bool{true, false} {
			mode := "strict"
			if relaxed {
				mode = "relaxed"
			}
			// uncancelled, default (Raw) order, with gap timing
			setSorted(false)
			c0 := &cctx{Context: context.Background(), k: -1, timeGap: true}
			t0 := time.Now()
			base := readWith(d.b, relaxed, c0)
			full := time.Since(t0)
			if base.class == "panic" {
				r.OracleFail("panic-in-read", map[string]any{"doc": d.name, "mode": mode}, base.panic)
				continue
			}
			if base.class != "ok" {
				r.Count("doc:" + mode + ":not-readable")
				continue
			}
			r.Count("doc:" + mode + ":readable")
			if c0.maxGap > maxGap {
				maxGap, maxGapDoc = c0.maxGap, d.name+"/"+mode
			}
			total := base.polls

			// shape from the Sorted trace
			setSorted(true)
			cs := &cctx{Context: context.Background(), k: -1, recAll: true}
			bs := readWith(d.b, relaxed, cs)
			var sh *shape
			var shErr error
			if bs.class != "ok" {
				shErr = errors.New("sorted read failed")
			} else {
				sh, shErr = buildShape(cs.events)
				if shErr == nil {
					sh.repoff = bs.repoff
				}
			}
			totalS := bs.polls
			if d.iters > 0 && bs.class == "ok" {
				// poll density of the keyword scanner, independent of machine speed: one poll per literal/comment
				scanPolls, maxPass := 0, 0
				for _, ev := range cs.events {
					if ev.frames[0] == "DetectKeywordsWithContext" {
						scanPolls++
					}
				}
				if shErr == nil {
					for _, e := range sh.entries {
						for _, p := range e.o.passes {
							if p > maxPass {
								maxPass = p
							}
						}
					}
				}
				in := map[string]any{"doc": d.name, "mode": mode, "bytes": len(d.b), "literals_or_comments": d.iters,
					"polls_in_DetectKeywordsWithContext": scanPolls, "polls_in_longest_scan": maxPass, "polls_total": totalS}
				if scanPolls < d.iters || maxPass < d.iters {
					r.OracleFail("scan-without-polls", in, fmt.Sprintf("the keyword scanner stepped over %d string literals/comments of one %d-byte object but polled the context only %d times (longest single scan: %d polls): a cancellation during that scan is not seen until it ends", d.iters, len(d.b), scanPolls, maxPass))
				} else {
					r.OracleOK()
				}
				r.Sample(in)
			}
			nfile := 0
			if os.Getenv("C10_DEBUG") != "" && shErr == nil {
				fmt.Fprintln(os.Stderr, "SHAPE", d.name, mode, strings.Join(sh.args(relaxed, nfile, -1), " "))
			}
			if os.Getenv("C10_DEBUG") == "shapes" {
				continue
			}
			if shErr != nil {
				r.Count("shape:unsupported:" + shErr.Error())
				nShapeBad++
			} else {
				r.Count("shape:ok")
				nShapeOK++
			}

			// flip points
			ks := map[int]bool{0: true, 1: true, total: true, total + 1: true, total - 1: true}
			dense := r.Pick(60, 400)
			if total <= dense {
				for k := 0; k <= total; k++ {
					ks[k] = true
				}
			} else {
				for k := 0; k < dense/3; k++ {
					ks[k] = true
					ks[total-k] = true
				}
				for i := 0; i < dense/3; i++ {
					ks[r.Rand.Intn(total)] = true
				}
			}
			var kl []int
			for k := range ks {
				if k >= 0 {
					kl = append(kl, k)
				}
			}
			sort.Ints(kl)
			slow := full > 60*time.Millisecond
			for idx, k := range kl {
				if time.Since(docStart) > perDoc && idx > 3 && !(k >= total-1) {
					r.Count("budget:skipped-flip-points")
					continue
				}
				for _, sorted := range []bool{false, true} {
					if sorted && (shErr != nil || (slow && idx > 8 && k < total-1)) {
						continue
					}
					setSorted(sorted)
					tot := total
					if sorted {
						tot = totalS
					}
					c := &cctx{Context: context.Background(), k: k}
					res := readWith(d.b, relaxed, c)
					in := map[string]any{"doc": d.name, "mode": mode, "k": k, "sorted": sorted, "polls_uncancelled": tot}
					r.Count("run:" + mode)
					// ---- oracle ----
					switch {
					case res.class == "panic":
						r.OracleFail("panic-in-read", in, res.panic)
					case res.polls <= k: // the flip was never observed
						if res.class != "ok" || res.docNil {
							r.OracleFail("unobserved-cancel-changes-result", in, fmt.Sprintf("class=%s err=%v", res.class, res.err))
						} else {
							r.OracleOK()
						}
						r.Count("flip:not-observed")
					case res.class == "ok":
						r.OracleFail("cancel-ignored", in, fmt.Sprintf("read finished although %d polls saw the cancelled context", res.late))
					case res.class != "ctx":
						class, site := "cancel-error-not-context", ""
						if len(res.events) > 0 {
							site = res.events[0].frames[0]
						}
						if res.late == 1 && (site == "parseXRefStreamOrRepair" || site == "processObject" || site == "ParseObjectContext") {
							// the only poll that saw the cancellation is a probe after an input error: the probe
							// stops the repair and the input error is returned instead of the context's
							class = "cancel-at-probe-returns-input-error"
						}
						r.OracleFail(class, in, fmt.Sprintf("err=%q does not match context.Canceled (poll that saw the cancellation: %s)", res.err, site))
					case !res.docNil:
						r.OracleFail("cancel-returned-document", in, "non-nil *model.Context returned with the context error")
					case k == 0 && res.late != 1:
						r.OracleFail("precancelled-not-immediate", in, fmt.Sprintf("%d polls on an already cancelled context", res.late))
					case res.late > stageBound:
						class := "cancel-late-polls"
						for _, ev := range res.events {
							if has(ev, "bypassXrefSection") && has(ev, "parseXRefStreamOrRepair") && relaxed {
								class = "cancel-swallowed-by-xref-repair"
							}
						}
						if reported[d.name+mode+class] {
							r.Count("flip:late>bound:" + class)
							break
						}
						reported[d.name+mode+class] = true
						in["late_polls"] = res.late
						in["after_us"] = res.after.Microseconds()
						in["full_read_us"] = full.Microseconds()
						r.OracleFail(class, in, fmt.Sprintf("%d polls saw the cancelled context before the read returned (stage bound %d); %v after the flip, full read %v",
							res.late, stageBound, res.after, full))
						r.Count("flip:late>bound:" + class)
					default:
						r.OracleOK()
						r.Count("flip:observed")
					}
					if res.late > maxLate {
						maxLate = res.late
					}
					if res.late <= stageBound && res.late > maxLateOutside {
						maxLateOutside = res.late
					}
					if res.after > maxAfter {
						maxAfter, maxAfterDoc = res.after, fmt.Sprintf("%s/%s k=%d", d.name, mode, k)
					}
					// ---- correspondence ----
					if sorted {
						kk := k
						cls := res.class
						if cls == "other" {
							cls = "other:" + vh.Hex([]byte(fmt.Sprint(res.err)))
						}
						r.Case("read", sh.args(relaxed, nfile, kk), fmt.Sprintf("%s:%d:%d", cls, res.late, res.polls))
					}
				}
			}
		}
		if time.Since(start) > budget+20*time.Second {
			r.Count("budget:docs-cut")
			break
		}
	}
	setSorted(false)
	gapSurvey(r)
	// the trace parser must still understand the reader: otherwise K silently covers nothing
	if nShapeOK >= 4*nShapeBad && nShapeOK > 0 {
		r.Case("shapes", nil, "ok")
	} else {
		r.Case("shapes", nil, fmt.Sprintf("degraded:%d/%d", nShapeOK, nShapeOK+nShapeBad))
	}
	r.Sample(map[string]any{"max_late_polls": maxLate, "max_late_polls_within_bound": maxLateOutside,
		"max_time_after_flip_us": maxAfter.Microseconds(), "max_time_after_flip_at": maxAfterDoc,
		"max_gap_between_polls_us": maxGap.Microseconds(), "max_gap_doc": maxGapDoc})
}

// genDoc builds a PDF with n filler objects and either an (uncompressed) xref stream or a classic xref table.
func genDoc(n int, xrefStream bool) []byte {
	var w bytes.Buffer
	w.WriteString("%PDF-1.7\n%\xe2\xe3\xcf\xd3\n")
	offs := []int{0}
	obj := func(body string) {
		offs = append(offs, w.Len())
		fmt.Fprintf(&w, "%d 0 obj\n%s\nendobj\n", len(offs)-1, body)
	}
	obj("<</Type/Catalog/Pages 2 0 R>>")
	obj("<</Type/Pages/Kids[3 0 R]/Count 1>>")
	obj("<</Type/Page/Parent 2 0 R/MediaBox[0 0 200 200]>>")
	for i := 0; i < n; i++ {
		if i%7 == 3 {
			s := fmt.Sprintf("BT (%d) Tj ET", i)
			obj(fmt.Sprintf("<</Length %d>>\nstream\n%s\nendstream", len(s), s))
		} else {
			obj(fmt.Sprintf("<</K %d/V(filler)/D<</A 1/B[1 2 3]>>>>", i))
		}
	}
	xoff := w.Len()
	nr := len(offs)
	if xrefStream {
		var data bytes.Buffer
		data.Write([]byte{0, 0, 0, 0, 0, 0xff, 0xff})
		for i := 1; i < nr; i++ {
			o := offs[i]
			data.Write([]byte{1, byte(o >> 24), byte(o >> 16), byte(o >> 8), byte(o), 0, 0})
		}
		data.Write([]byte{1, byte(xoff >> 24), byte(xoff >> 16), byte(xoff >> 8), byte(xoff), 0, 0})
		fmt.Fprintf(&w, "%d 0 obj\n<</Type/XRef/Size %d/W[1 4 2]/Root 1 0 R/Length %d>>\nstream\n", nr, nr+1, data.Len())
		w.Write(data.Bytes())
		w.WriteString("\nendstream\nendobj\n")
	} else {
		fmt.Fprintf(&w, "xref\n0 %d\n0000000000 65535 f \n", nr)
		for i := 1; i < nr; i++ {
			fmt.Fprintf(&w, "%010d 00000 n \n", offs[i])
		}
		fmt.Fprintf(&w, "trailer\n<</Size %d/Root 1 0 R>>\n", nr)
	}
	fmt.Fprintf(&w, "startxref\n%d\n%%%%EOF\n", xoff)
	return w.Bytes()
}

// genRepaired: a classic-table document whose startxref points into the middle of the file,
// so that the relaxed reader rebuilds the xref table (bypassXrefSection) even when not cancelled.
func genRepaired(n int) []byte {
	b := genDoc(n, false)
	i := bytes.LastIndex(b, []byte("startxref\n"))
	return append(append([]byte{}, b[:i]...), []byte("startxref\n77\n%%EOF\n")...)
}

// genScanDoc builds a classic-xref document whose object 4 is ONE large array:
//
//	literals:   n short string literals            [(ab) (ab) ...]
//	comments:   n comments                          [1 %c\n 1 %c\n ...]
//	lookalikes: n literals that contain "endobj"    [(endobj) (stream) ...]
//	hex:        n/64 long hex strings, 8 literals   [<4142...> ...]
//
// iters = number of literals/comments the keyword scanner has to step over before it can decide on endobj.
func genScanDoc(kind string, n int) ([]byte, int) {
	var big bytes.Buffer
	iters := n
	big.WriteString("[")
	switch kind {
	case "literals":
		for i := 0; i < n; i++ {
			big.WriteString("(ab) ")
		}
	case "comments":
		for i := 0; i < n; i++ {
			big.WriteString("1 %c\n")
		}
	case "lookalikes":
		for i := 0; i < n; i++ {
			if i%2 == 0 {
				big.WriteString("(endobj) ")
			} else {
				big.WriteString("(stream) ")
			}
		}
	case "hex":
		hx := strings.Repeat("41", 512)
		for i := 0; i < n/64; i++ {
			big.WriteString("<" + hx + ">\n")
		}
		big.WriteString("(a)(b)(c)(d)(e)(f)(g)(h)")
		iters = 8
	}
	big.WriteString("]")
	var w bytes.Buffer
	w.WriteString("%PDF-1.7\n")
	var offs []int
	obj := func(s string) {
		offs = append(offs, w.Len())
		fmt.Fprintf(&w, "%d 0 obj\n%s\nendobj\n", len(offs), s)
	}
	obj("<</Type/Catalog/Pages 2 0 R>>")
	obj("<</Type/Pages/Kids[3 0 R]/Count 1>>")
	obj("<</Type/Page/Parent 2 0 R/MediaBox[0 0 200 200]/PieceInfo<</X 4 0 R>>>>")
	obj(big.String())
	x := w.Len()
	fmt.Fprintf(&w, "xref\n0 %d\n0000000000 65535 f \n", len(offs)+1)
	for _, o := range offs {
		fmt.Fprintf(&w, "%010d 00000 n \n", o)
	}
	fmt.Fprintf(&w, "trailer\n<</Size %d/Root 1 0 R>>\nstartxref\n%d\n%%%%EOF\n", len(offs)+1, x)
	return w.Bytes(), iters
}

// gapSurvey: observations only (no assertion): the longest stretch of an uncancelled read between two
// consecutive polls, and between which poll sites it lies, on documents built to stress loops of the read
// path that iterate over input-sized data without polling.
func gapSurvey(r *vh.Run) {
	type sd struct {
		name string
		b    []byte
	}
	n := r.Pick(60000, 200000)
	lit, _ := genScanDoc("literals", n)                // parseArray over n elements (no poll in parseArray)
	hexd, _ := genScanDoc("hex", r.Pick(1<<18, 1<<20)) // 4 / 16 MiB of hex strings
	docs := []sd{
		{fmt.Sprintf("array-of-%d-literals", n), lit},
		{"hex-strings", hexd},
		{fmt.Sprintf("xref-table-%d-free-entries", 10*n), genXrefHeavy(10 * n)},                     // parseXRefTableSubSection loop
		{"stream-length-" + fmt.Sprint(r.Pick(16, 64)) + "MiB", genBigStream(r.Pick(16, 64) << 20)}, // readStreamContent
	}
	for _, d := range docs {
		c := &cctx{Context: context.Background(), k: -1, recAll: true}
		t0 := time.Now()
		res := readWith(d.b, true, c)
		full := time.Since(t0)
		var gap time.Duration
		from, to := "", ""
		prevT, prevS := t0, "ReadWithContext:start"
		for _, ev := range c.events {
			if g := ev.t.Sub(prevT); g > gap {
				gap, from, to = g, prevS, ev.frames[0]
			}
			prevT, prevS = ev.t, ev.frames[0]
		}
		if g := time.Since(prevT) - 0; len(c.events) > 0 && t0.Add(full).Sub(prevT) > gap {
			_ = g
			gap, from, to = t0.Add(full).Sub(prevT), prevS, "ReadWithContext:return"
		}
		r.Sample(map[string]any{"gap_survey": d.name, "bytes": len(d.b), "class": res.class, "polls": res.polls,
			"full_read_us": full.Microseconds(), "max_gap_us": gap.Microseconds(), "gap_after_poll_in": from, "gap_before_poll_in": to})
	}
}

// genXrefHeavy: a valid small document whose classic xref table has n additional free entries.
func genXrefHeavy(n int) []byte {
	var w bytes.Buffer
	w.WriteString("%PDF-1.7\n")
	var offs []int
	obj := func(s string) {
		offs = append(offs, w.Len())
		fmt.Fprintf(&w, "%d 0 obj\n%s\nendobj\n", len(offs), s)
	}
	obj("<</Type/Catalog/Pages 2 0 R>>")
	obj("<</Type/Pages/Kids[3 0 R]/Count 1>>")
	obj("<</Type/Page/Parent 2 0 R/MediaBox[0 0 200 200]>>")
	x := w.Len()
	fmt.Fprintf(&w, "xref\n0 %d\n0000000000 65535 f \n", len(offs)+1+n)
	for _, o := range offs {
		fmt.Fprintf(&w, "%010d 00000 n \n", o)
	}
	for i := 0; i < n; i++ {
		w.WriteString("0000000000 00001 f \n")
	}
	fmt.Fprintf(&w, "trailer\n<</Size %d/Root 1 0 R>>\nstartxref\n%d\n%%%%EOF\n", len(offs)+1+n, x)
	return w.Bytes()
}

// genBigStream: a valid small document with one uncompressed stream of n bytes.
func genBigStream(n int) []byte {
	var w bytes.Buffer
	w.WriteString("%PDF-1.7\n")
	var offs []int
	obj := func(s string) {
		offs = append(offs, w.Len())
		fmt.Fprintf(&w, "%d 0 obj\n%s\nendobj\n", len(offs), s)
	}
	obj("<</Type/Catalog/Pages 2 0 R>>")
	obj("<</Type/Pages/Kids[3 0 R]/Count 1>>")
	obj("<</Type/Page/Parent 2 0 R/MediaBox[0 0 200 200]/PieceInfo<</X 4 0 R>>>>")
	offs = append(offs, w.Len())
	fmt.Fprintf(&w, "4 0 obj\n<</Length %d>>\nstream\n", n)
	w.Write(bytes.Repeat([]byte{'x'}, n))
	w.WriteString("\nendstream\nendobj\n")
	x := w.Len()
	fmt.Fprintf(&w, "xref\n0 %d\n0000000000 65535 f \n", len(offs)+1)
	for _, o := range offs {
		fmt.Fprintf(&w, "%010d 00000 n \n", o)
	}
	fmt.Fprintf(&w, "trailer\n<</Size %d/Root 1 0 R>>\nstartxref\n%d\n%%%%EOF\n", len(offs)+1, x)
	return w.Bytes()
}
