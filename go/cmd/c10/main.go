package main

import (
	"bytes"
	"context"
	"errors"
	"fmt"
	"os"
	"runtime"
	"strings"
	"time"

	"github.com/pdfcpu/pdfcpu/pkg/api"
	"github.com/pdfcpu/pdfcpu/pkg/pdfcpu"
	"github.com/pdfcpu/pdfcpu/pkg/pdfcpu/model"
)

type cctx struct {
	context.Context
	k     int
	n     int
	sites []string
	rec   bool
	flipT time.Time
}

func (c *cctx) Err() error {
	i := c.n
	c.n++
	if c.rec {
		pcs := make([]uintptr, 24)
		m := runtime.Callers(2, pcs)
		fr := runtime.CallersFrames(pcs[:m])
		var st []string
		for {
			f, more := fr.Next()
			fn := f.Function
			if j := strings.LastIndex(fn, "."); j >= 0 {
				fn = fn[j+1:]
			}
			if fn == "main" || fn == "ReadWithContext" {
				break
			}
			st = append(st, fmt.Sprintf("%s:%d", fn, f.Line))
			if !more {
				break
			}
		}
		c.sites = append(c.sites, strings.Join(st, "<"))
	}
	if c.k >= 0 && i >= c.k {
		if i == c.k {
			c.flipT = time.Now()
		}
		return context.Canceled
	}
	return nil
}

func main() {
	api.DisableConfigDir()
	f := os.Args[1]
	b, _ := os.ReadFile(f)
	conf := model.NewDefaultConfiguration()
	if len(os.Args) > 2 && os.Args[2] == "strict" {
		conf.ValidationMode = model.ValidationStrict
	}
	c := &cctx{Context: context.Background(), k: -1}
	_, err := pdfcpu.ReadWithContext(c, bytes.NewReader(b), conf)
	total := c.n
	fmt.Println("total", total, err)
	maxExtra := 0
	for k := 0; k <= total; k++ {
		c := &cctx{Context: context.Background(), k: k, rec: true}
		ctx, err := pdfcpu.ReadWithContext(c, bytes.NewReader(b), conf)
		el := time.Since(c.flipT)
		extra := c.n - k - 1
		if extra > maxExtra {
			maxExtra = extra
		}
		if extra > 0 || !errors.Is(err, context.Canceled) || ctx != nil {
			fmt.Println("k", k, "extra", extra, "err", err, ctx != nil, el)
			if k < len(c.sites) {
				for _, s := range c.sites[k:min(len(c.sites), k+6)] {
					fmt.Println("    ", s)
				}
			}
		}
	}
	fmt.Println("maxExtra", maxExtra)
}
