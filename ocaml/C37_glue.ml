(* C37 glue: wire format <-> extracted model (coq/C37/Model.v).
   str      = code points in hex joined by '.'            ("" = empty string)
   list     = "<n>:" ^ items joined by ','
   option   = "~" (None) | "=" ^ str
   lbv      = "~" | "=" ^ str | "@" ^ list
   cbas     = "~" | "!" | "=" ^ str
   pfield   = tag ';' fields…     pform / jform = fields joined by '|'
   datefmt  = "s=f,s=f,…"  (strings not listed have no date format) *)
open Model
open Common

let split c s = if s = "" then [] else String.split_on_char c s

let str_of_w (s : string) : n list = List.map n_of_hex (split '.' s)
let w_of_str (s : n list) : string = String.concat "." (List.map hex_of_n s)

let list_of_w (f : string -> 'a) (s : string) : 'a list =
  match String.index_opt s ':' with
  | None -> failwith "list: no count"
  | Some i ->
    let n = int_of_string (String.sub s 0 i) in
    let body = String.sub s (i + 1) (String.length s - i - 1) in
    if n = 0 then [] else
      let items = String.split_on_char ',' body in
      if List.length items <> n then failwith "list: count mismatch" else List.map f items
let w_of_list (f : 'a -> string) (l : 'a list) : string =
  string_of_int (List.length l) ^ ":" ^ String.concat "," (List.map f l)

let opt_of_w s = if s = "~" then None else if String.length s > 0 && s.[0] = '=' then Some (str_of_w (String.sub s 1 (String.length s - 1))) else failwith "opt"
let w_of_opt = function None -> "~" | Some s -> "=" ^ w_of_str s

let lbv_of_w s =
  if s = "~" then LNone
  else if s.[0] = '=' then LStr (str_of_w (String.sub s 1 (String.length s - 1)))
  else if s.[0] = '@' then LArr (list_of_w str_of_w (String.sub s 1 (String.length s - 1)))
  else failwith "lbv"
let w_of_lbv = function LNone -> "~" | LStr s -> "=" ^ w_of_str s | LArr l -> "@" ^ w_of_list w_of_str l

let cbas_of_w s = if s = "~" then ASNone else if s = "!" then ASErr else ASYes (str_of_w (String.sub s 1 (String.length s - 1)))
let w_of_cbas = function ASNone -> "~" | ASErr -> "!" | ASYes y -> "=" ^ w_of_str y

let b_of_w s = (s = "1")
let w_of_b b = if b then "1" else "0"

let pfield_of_w (s : string) : pfield =
  match String.split_on_char ';' s with
  | ["T"; id; name; locked; ml; maxlen; jsfmt; v; dv] ->
    PTx (str_of_w id, str_of_w name, b_of_w locked, b_of_w ml, z_of_hex maxlen, opt_of_w jsfmt, opt_of_w v, opt_of_w dv)
  | ["C"; id; name; locked; v; dv; asn] ->
    PCb (str_of_w id, str_of_w name, b_of_w locked, opt_of_w v, opt_of_w dv, cbas_of_w asn)
  | ["R"; id; name; locked; raw; kids; v; dv] ->
    PRb (str_of_w id, str_of_w name, b_of_w locked, list_of_w str_of_w raw, list_of_w opt_of_w kids, opt_of_w v, opt_of_w dv)
  | ["O"; id; name; locked; raw; v; dv] ->
    PCo (str_of_w id, str_of_w name, b_of_w locked, list_of_w str_of_w raw, opt_of_w v, opt_of_w dv)
  | ["L"; id; name; locked; multi; raw; v; dv] ->
    PLb (str_of_w id, str_of_w name, b_of_w locked, b_of_w multi, list_of_w str_of_w raw, lbv_of_w v, lbv_of_w dv)
  | _ -> failwith ("pfield: " ^ s)

let w_of_pfield (f : pfield) : string =
  String.concat ";" (match f with
  | PTx (id, name, locked, ml, maxlen, jsfmt, v, dv) ->
    ["T"; w_of_str id; w_of_str name; w_of_b locked; w_of_b ml; hex_of_z maxlen; w_of_opt jsfmt; w_of_opt v; w_of_opt dv]
  | PCb (id, name, locked, v, dv, asn) ->
    ["C"; w_of_str id; w_of_str name; w_of_b locked; w_of_opt v; w_of_opt dv; w_of_cbas asn]
  | PRb (id, name, locked, raw, kids, v, dv) ->
    ["R"; w_of_str id; w_of_str name; w_of_b locked; w_of_list w_of_str raw; w_of_list w_of_opt kids; w_of_opt v; w_of_opt dv]
  | PCo (id, name, locked, raw, v, dv) ->
    ["O"; w_of_str id; w_of_str name; w_of_b locked; w_of_list w_of_str raw; w_of_opt v; w_of_opt dv]
  | PLb (id, name, locked, multi, raw, v, dv) ->
    ["L"; w_of_str id; w_of_str name; w_of_b locked; w_of_b multi; w_of_list w_of_str raw; w_of_lbv v; w_of_lbv dv])

let jfield_of_w (s : string) : jfield =
  match String.split_on_char ';' s with
  | ["T"; id; name; dflt; value; maxlen; ml; locked] ->
    JTx (str_of_w id, str_of_w name, str_of_w dflt, str_of_w value, z_of_hex maxlen, b_of_w ml, b_of_w locked)
  | ["D"; id; name; fmt; dflt; value; locked] ->
    JDt (str_of_w id, str_of_w name, str_of_w fmt, str_of_w dflt, str_of_w value, b_of_w locked)
  | ["C"; id; name; dflt; value; locked] ->
    JCb (str_of_w id, str_of_w name, b_of_w dflt, b_of_w value, b_of_w locked)
  | ["R"; id; name; opts; dflt; value; locked] ->
    JRb (str_of_w id, str_of_w name, list_of_w str_of_w opts, str_of_w dflt, str_of_w value, b_of_w locked)
  | ["O"; id; name; ed; opts; dflt; value; locked] ->
    JCo (str_of_w id, str_of_w name, b_of_w ed, list_of_w str_of_w opts, str_of_w dflt, str_of_w value, b_of_w locked)
  | ["L"; id; name; multi; opts; dflts; values; locked] ->
    JLb (str_of_w id, str_of_w name, b_of_w multi, list_of_w str_of_w opts, list_of_w str_of_w dflts, list_of_w str_of_w values, b_of_w locked)
  | _ -> failwith ("jfield: " ^ s)

let w_of_jfield (e : jfield) : string =
  String.concat ";" (match e with
  | JTx (id, name, dflt, value, maxlen, ml, locked) ->
    ["T"; w_of_str id; w_of_str name; w_of_str dflt; w_of_str value; hex_of_z maxlen; w_of_b ml; w_of_b locked]
  | JDt (id, name, fmt, dflt, value, locked) ->
    ["D"; w_of_str id; w_of_str name; w_of_str fmt; w_of_str dflt; w_of_str value; w_of_b locked]
  | JCb (id, name, dflt, value, locked) ->
    ["C"; w_of_str id; w_of_str name; w_of_b dflt; w_of_b value; w_of_b locked]
  | JRb (id, name, opts, dflt, value, locked) ->
    ["R"; w_of_str id; w_of_str name; w_of_list w_of_str opts; w_of_str dflt; w_of_str value; w_of_b locked]
  | JCo (id, name, ed, opts, dflt, value, locked) ->
    ["O"; w_of_str id; w_of_str name; w_of_b ed; w_of_list w_of_str opts; w_of_str dflt; w_of_str value; w_of_b locked]
  | JLb (id, name, multi, opts, dflts, values, locked) ->
    ["L"; w_of_str id; w_of_str name; w_of_b multi; w_of_list w_of_str opts; w_of_list w_of_str dflts; w_of_list w_of_str values; w_of_b locked])

let pform_of_w s = List.map pfield_of_w (split '|' s)
let w_of_pform l = String.concat "|" (List.map w_of_pfield l)
let jform_of_w s = List.map jfield_of_w (split '|' s)
let w_of_jform l = String.concat "|" (List.map w_of_jfield l)

let datefmt_of_w (s : string) : n list -> n list option =
  let tbl = List.map (fun kv ->
    match String.index_opt kv '=' with
    | Some i -> (str_of_w (String.sub kv 0 i), str_of_w (String.sub kv (i + 1) (String.length kv - i - 1)))
    | None -> failwith "datefmt entry") (split ',' s) in
  fun k -> List.assoc_opt k tbl

let res_jform = function Err -> "err" | Ok j -> "ok:" ^ w_of_jform j

let dispatch fn args = match fn, args with
  | "export", [tbl; pf] -> res_jform (export_form (datefmt_of_w tbl) (pform_of_w pf))
  | "fill", [tbl; pf; jf] ->
    (match api_fill (datefmt_of_w tbl) (pform_of_w pf) (jform_of_w jf) with
     | Err -> "err"
     | Ok (false, _) -> "noop"
     | Ok (true, fs) -> "ok:" ^ w_of_pform fs)
  | "fillexport", [tbl; pf; jf] ->
    let d = datefmt_of_w tbl in
    (match api_fill d (pform_of_w pf) (jform_of_w jf) with
     | Err -> "err"
     | Ok (_, fs) -> res_jform (export_form d fs))
  | "trim", [s] -> w_of_str (trim_space (str_of_w s))
  | "atoi", [s] -> (match atoi (str_of_w s) with None -> "err" | Some z -> "ok:" ^ hex_of_z z)
  | "itoa", [n] -> w_of_str (itoa (n_of_hex n))
  | _ -> failwith ("unknown function " ^ fn)
let () = main dispatch
