package main

// (copy of go/cmd/c19/docgen.go; every page carries /VerifId <page number>)
// Generator of raw PDF files: random page trees with inheritance, shared resources,
// strings/names with special characters, streams with and without filters, destinations,
// outlines, name trees, document information, unknown keys, unreferenced and free objects.

import (
	"bytes"
	"compress/zlib"
	"encoding/ascii85"
	"encoding/hex"
	"fmt"
	"math/rand"
	"sort"
	"strings"
)

type pdfb struct {
	objs map[int]string
	next int
	ver  string
}

func newPdfb() *pdfb { return &pdfb{objs: map[int]string{}, next: 1, ver: "1.7"} }

func (b *pdfb) alloc() int { n := b.next; b.next++; return n }
func (b *pdfb) add(body string) int {
	n := b.alloc()
	b.objs[n] = body
	return n
}
func (b *pdfb) set(nr int, body string) { b.objs[nr] = body }

func encodeStream(r *rand.Rand, data []byte, kind int) (string, []byte) {
	switch kind {
	case 1: // ASCIIHex
		return "/Filter /ASCIIHexDecode", []byte(hex.EncodeToString(data) + ">")
	case 2: // Flate
		var w bytes.Buffer
		z := zlib.NewWriter(&w)
		z.Write(data)
		z.Close()
		return "/Filter /FlateDecode", w.Bytes()
	case 3: // ASCII85 of Flate
		var w bytes.Buffer
		z := zlib.NewWriter(&w)
		z.Write(data)
		z.Close()
		var a bytes.Buffer
		e := ascii85.NewEncoder(&a)
		e.Write(w.Bytes())
		e.Close()
		a.WriteString("~>")
		return "/Filter [/ASCII85Decode /FlateDecode]", a.Bytes()
	}
	return "", data
}

func (b *pdfb) stream(r *rand.Rand, dict string, data []byte, kind int) int {
	f, enc := encodeStream(r, data, kind)
	return b.add(fmt.Sprintf("<< %s %s /Length %d >>\nstream\n%s\nendstream", dict, f, len(enc), enc))
}

// stream whose /Length is an indirect reference
func (b *pdfb) streamIndLen(dict string, data []byte) int {
	l := b.add(fmt.Sprintf("%d", len(data)))
	return b.add(fmt.Sprintf("<< %s /Length %d 0 R >>\nstream\n%s\nendstream", dict, l, data))
}

func (b *pdfb) bytes(root, info int, free []int) []byte {
	var w bytes.Buffer
	fmt.Fprintf(&w, "%%PDF-%s\n%%\xe2\xe3\xcf\xd3\n", b.ver)
	max := b.next - 1
	offs := map[int]int{}
	nrs := make([]int, 0, len(b.objs))
	for n := range b.objs {
		nrs = append(nrs, n)
	}
	sort.Ints(nrs)
	for _, n := range nrs {
		offs[n] = w.Len()
		fmt.Fprintf(&w, "%d 0 obj\n%s\nendobj\n", n, b.objs[n])
	}
	x := w.Len()
	fmt.Fprintf(&w, "xref\n0 %d\n", max+1)
	// free list: 0 -> free objects ascending -> 0
	var fl []int
	for n := 1; n <= max; n++ {
		if _, ok := offs[n]; !ok {
			fl = append(fl, n)
		}
	}
	nextFree := func(i int) int {
		if i+1 < len(fl) {
			return fl[i+1]
		}
		return 0
	}
	first := 0
	if len(fl) > 0 {
		first = fl[0]
	}
	fmt.Fprintf(&w, "%010d 65535 f \n", first)
	fi := 0
	for n := 1; n <= max; n++ {
		if o, ok := offs[n]; ok {
			fmt.Fprintf(&w, "%010d 00000 n \n", o)
		} else {
			fmt.Fprintf(&w, "%010d 00001 f \n", nextFree(fi))
			fi++
		}
	}
	tr := fmt.Sprintf("/Size %d /Root %d 0 R", max+1, root)
	if info > 0 {
		tr += fmt.Sprintf(" /Info %d 0 R", info)
	}
	fmt.Fprintf(&w, "trailer\n<< %s >>\nstartxref\n%d\n%%%%EOF\n", tr, x)
	return w.Bytes()
}

func pick(r *rand.Rand, l ...string) string { return l[r.Intn(len(l))] }

// PDF literal string with escapes for arbitrary bytes
func pdfString(s []byte) string {
	var b strings.Builder
	b.WriteByte('(')
	for _, c := range s {
		switch c {
		case '(', ')', '\\':
			b.WriteByte('\\')
			b.WriteByte(c)
		case '\n':
			b.WriteString("\\n")
		case '\r':
			b.WriteString("\\r")
		default:
			if c < 32 || c > 126 {
				fmt.Fprintf(&b, "\\%03o", c)
			} else {
				b.WriteByte(c)
			}
		}
	}
	b.WriteByte(')')
	return b.String()
}

var specialStrings = []string{
	"plain", "", "with (balanced) parens", "unbalanced ) paren (", "back\\slash", "tab\there", "line\nfeed",
	"cr\rhere", "caf\xe9 latin1", "\xfe\xff\x00U\x00T\x00F\x001\x006", "percent % and #hash", "trailing backslash\\",
	"\\n literal", "a\x00nul", "\xef\xbb\xbfutf8 bom", "D:20200101120000+01'00'", "<angle> [bracket] {brace} /slash",
	"\\051", "oct\\0518",
}

func randString(r *rand.Rand) string {
	if r.Intn(3) == 0 {
		n := r.Intn(12)
		b := make([]byte, n)
		for i := range b {
			b[i] = byte(r.Intn(256))
		}
		return pdfString(b)
	}
	s := specialStrings[r.Intn(len(specialStrings))]
	if r.Intn(5) == 0 {
		return "<" + hex.EncodeToString([]byte(s)) + ">"
	}
	return pdfString([]byte(s))
}

var specialNames = []string{
	"/Plain", "/With#20Space", "/Hash#23Sign", "/Paren#28#29", "/Slash#2FInside", "/A.B-C_D", "/#41BC", "/Caf#E9",
	"/Perc#25ent", "/1.2", "/$$", "/@pattern", "/Lime#20Green", "/The_Key_of_F#23_Minor",
}

func randName(r *rand.Rand) string { return specialNames[r.Intn(len(specialNames))] }

type docInfo struct {
	desc    []string
	hazards []string // features for which the writer is known / suspected to lose objects
	pages   int
}

func (d *docInfo) note(s string)   { d.desc = append(d.desc, s) }
func (d *docInfo) hazard(s string) { d.hazards = append(d.hazards, s); d.desc = append(d.desc, "hazard:"+s) }

type genOpts struct {
	allowHazards bool
	// page-tree matrix (C21): forcePages > 0 fixes the number of pages; depth 1..3 makes the inner
	// nodes a chain of that length below the root with the pages spread over it; inherit places
	// MediaBox / CropBox / Rotate / Resources: "node" = on every page tree node (root and
	// intermediate, different values), none on the pages; "nodemixed" = on every node, and on
	// about half of the pages too; "" = the random placement of the general generator
	forcePages int
	depth      int
	inherit    string
	// strict: keep the document acceptable to strict validation (PDF 1.4 so that the standard
	// fonts need no FirstChar/Widths, dates with an explicit UT offset)
	strict bool
	// version matrix: header = "1.0" .. "1.7" fixes the header version; rootVer = "-" no catalog
	// /Version, otherwise its value ("1.0" .. "1.7", "2.0"); both empty: random as before
	header, rootVer string
}

func randValue(r *rand.Rand, b *pdfb, depth int) string {
	switch r.Intn(9) {
	case 0:
		return fmt.Sprintf("%d", r.Intn(2000)-1000)
	case 1:
		return pick(r, "0.5", "-1.25", "3.0", "100.125", ".5", "-.002", "12345.678")
	case 2:
		return randString(r)
	case 3:
		return randName(r)
	case 4:
		return pick(r, "true", "false", "null")
	case 5:
		if depth > 0 {
			n := r.Intn(4)
			p := make([]string, n)
			for i := range p {
				p[i] = randValue(r, b, depth-1)
			}
			return "[" + strings.Join(p, " ") + "]"
		}
		return "[]"
	case 6:
		if depth > 0 {
			n := r.Intn(4)
			var p []string
			used := map[string]bool{}
			for i := 0; i < n; i++ {
				k := randName(r)
				if used[k] {
					continue
				}
				used[k] = true
				p = append(p, k+" "+randValue(r, b, depth-1))
			}
			return "<< " + strings.Join(p, " ") + " >>"
		}
		return "<< >>"
	case 7:
		// indirect object with a random value
		if depth > 0 {
			return fmt.Sprintf("%d 0 R", b.add(randValue(r, b, depth-1)))
		}
		return "7"
	default:
		if depth > 0 {
			data := []byte("private data " + fmt.Sprint(r.Intn(1000)))
			return fmt.Sprintf("%d 0 R", b.stream(r, "/Private true", data, r.Intn(4)))
		}
		return "(x)"
	}
}

func genDoc(r *rand.Rand, opt genOpts) ([]byte, *docInfo) {
	b := newPdfb()
	di := &docInfo{}
	if r.Intn(6) == 0 {
		b.ver = pick(r, "1.4", "1.5", "1.6")
	}
	// leave some numbers free
	if r.Intn(3) == 0 {
		b.alloc()
		di.note("free-entry")
	}
	catalog := b.alloc()
	pagesRoot := b.alloc()

	// shared resources
	nFonts := 1 + r.Intn(3)
	fonts := make([]int, nFonts)
	for i := range fonts {
		fonts[i] = b.add(fmt.Sprintf("<< /Type /Font /Subtype /Type1 /BaseFont /%s /Encoding /WinAnsiEncoding >>",
			pick(r, "Helvetica", "Courier", "Times-Roman", "Helvetica-Bold")))
	}
	var image int
	if r.Intn(2) == 0 {
		image = b.stream(r, "/Type /XObject /Subtype /Image /Width 2 /Height 2 /ColorSpace /DeviceGray /BitsPerComponent 8",
			[]byte{0, 85, 170, 255}, r.Intn(3))
		di.note("image")
	}
	var form int
	if r.Intn(2) == 0 {
		res := fmt.Sprintf("<< /Font << /F0 %d 0 R >> >>", fonts[0])
		extra := ""
		if r.Intn(2) == 0 {
			extra = " /PieceInfo << /App << /LastModified (D:20200101000000Z) /Private " + randValue(r, b, 1) + " >> >>  /LastModified (D:20200101000000Z)"
			di.note("form-pieceinfo")
		}
		form = b.stream(r, "/Type /XObject /Subtype /Form /BBox [0 0 50 50] /Resources "+res+extra,
			[]byte("BT /F0 8 Tf (form) Tj ET"), r.Intn(4))
		di.note("form")
	}
	resDict := func() string {
		var fs []string
		for i, f := range fonts {
			if i == 0 || r.Intn(2) == 0 {
				fs = append(fs, fmt.Sprintf("/F%d %d 0 R", i, f))
			}
		}
		s := "<< /Font << " + strings.Join(fs, " ") + " >>"
		var xo []string
		if image > 0 && r.Intn(2) == 0 {
			xo = append(xo, fmt.Sprintf("/Im0 %d 0 R", image))
		}
		if form > 0 && r.Intn(2) == 0 {
			xo = append(xo, fmt.Sprintf("/Fm0 %d 0 R", form))
		}
		if len(xo) > 0 {
			s += " /XObject << " + strings.Join(xo, " ") + " >>"
		}
		if r.Intn(3) == 0 {
			s += " /ProcSet [/PDF /Text]"
		}
		return s + " >>"
	}
	var sharedRes int
	if r.Intn(2) == 0 {
		sharedRes = b.add(resDict())
		di.note("shared-resources-object")
	}
	resValue := func() string {
		if sharedRes > 0 && r.Intn(2) == 0 {
			return fmt.Sprintf("%d 0 R", sharedRes)
		}
		if r.Intn(3) == 0 {
			return fmt.Sprintf("%d 0 R", b.add(resDict()))
		}
		return resDict()
	}
	mediaBox := func() string {
		return pick(r, "[0 0 595 842]", "[0 0 612 792]", "[0 0 200.5 300.25]", "[10 10 300 400]", "[0 0 842 595]")
	}

	// page tree
	type node struct {
		nr     int
		isPage bool
		kids   []*node
		parent *node
	}
	var pageNodes []*node
	nPages := 1 + r.Intn(5)
	if r.Intn(10) == 0 {
		nPages += r.Intn(12)
	}
	if opt.forcePages > 0 {
		nPages = opt.forcePages
	}
	rootNode := &node{nr: pagesRoot}
	inner := []*node{rootNode}
	nInner := r.Intn(3)
	if opt.depth > 0 {
		nInner = opt.depth
	}
	for i := 0; i < nInner; i++ {
		p := inner[r.Intn(len(inner))]
		if opt.depth > 0 {
			p = inner[len(inner)-1] // a chain: depth = number of intermediate nodes
		}
		n := &node{nr: b.alloc(), parent: p}
		p.kids = append(p.kids, n)
		inner = append(inner, n)
	}
	for i := 0; i < nPages; i++ {
		p := inner[r.Intn(len(inner))]
		if opt.depth > 0 && i == 0 {
			p = inner[len(inner)-1] // the deepest node is never empty
		}
		n := &node{nr: b.alloc(), isPage: true, parent: p}
		p.kids = append(p.kids, n)
	}
	if opt.forcePages > 0 {
		// no page may be added below: drop inner nodes that stayed empty
		var prune func(n *node)
		prune = func(n *node) {
			var ks []*node
			for _, k := range n.kids {
				if !k.isPage {
					prune(k)
					if len(k.kids) == 0 {
						continue
					}
				}
				ks = append(ks, k)
			}
			n.kids = ks
		}
		prune(rootNode)
		var live []*node
		var walk func(n *node)
		walk = func(n *node) {
			if !n.isPage {
				live = append(live, n)
				for _, k := range n.kids {
					walk(k)
				}
			}
		}
		walk(rootNode)
		inner = live
	}
	// every inner node needs at least one page below it, otherwise give it one
	for _, n := range inner {
		if len(n.kids) == 0 {
			k := &node{nr: b.alloc(), isPage: true, parent: n}
			n.kids = append(n.kids, k)
		}
	}
	var count func(n *node) int
	count = func(n *node) int {
		if n.isPage {
			return 1
		}
		c := 0
		for _, k := range n.kids {
			c += count(k)
		}
		return c
	}
	var collect func(n *node)
	collect = func(n *node) {
		if n.isPage {
			pageNodes = append(pageNodes, n)
			return
		}
		for _, k := range n.kids {
			collect(k)
		}
	}
	collect(rootNode)
	di.pages = len(pageNodes)
	di.note(fmt.Sprintf("pages=%d inner=%d", len(pageNodes), len(inner)))

	// which inheritable attributes sit where: "node" / "page"
	mediaAt := pick(r, "root", "page", "mixed")
	resAt := pick(r, "root", "page", "mixed")
	rotAt := pick(r, "none", "root", "page", "mixed")
	cropAt := pick(r, "none", "none", "root", "page")
	if opt.inherit != "" {
		mediaAt, resAt, rotAt, cropAt = opt.inherit, opt.inherit, opt.inherit, opt.inherit
	}
	onNode := func(at string) bool { return at == "node" || at == "nodemixed" }
	onPage := func(at string) bool { return at == "nodemixed" && r.Intn(2) == 0 }
	di.note("media@" + mediaAt + " res@" + resAt + " rot@" + rotAt + " crop@" + cropAt)

	var hazardObjs []int
	var emit func(n *node)
	emit = func(n *node) {
		if n.isPage {
			return
		}
		var kids []string
		for _, k := range n.kids {
			kids = append(kids, fmt.Sprintf("%d 0 R", k.nr))
		}
		if r.Intn(12) == 0 {
			kids = append(kids, "null")
			di.note("null-kid")
		}
		kidsVal := "[" + strings.Join(kids, " ") + "]"
		if opt.allowHazards && r.Intn(25) == 0 {
			kidsVal = fmt.Sprintf("%d 0 R", b.add(kidsVal))
			di.hazard("kids-indirect")
		}
		s := fmt.Sprintf("<< /Type /Pages /Kids %s /Count %d", kidsVal, count(n))
		if n.parent != nil {
			s += fmt.Sprintf(" /Parent %d 0 R", n.parent.nr)
		}
		isRoot := n.parent == nil
		if mediaAt == "root" && isRoot || mediaAt == "mixed" && r.Intn(2) == 0 || onNode(mediaAt) {
			s += " /MediaBox " + mediaBox()
		}
		// every page gets effective Resources with font F0 (its content uses it)
		if (resAt == "root" || resAt == "mixed") && isRoot || resAt == "mixed" && r.Intn(2) == 0 || onNode(resAt) {
			s += " /Resources " + resValue()
		}
		if rotAt == "root" && isRoot || rotAt == "mixed" && r.Intn(3) == 0 || onNode(rotAt) {
			s += " /Rotate " + pick(r, "0", "90", "180", "270")
		}
		if cropAt == "root" && isRoot {
			s += " /CropBox [20 20 180 280]"
		} else if onNode(cropAt) {
			s += " /CropBox " + pick(r, "[20 20 180 280]", "[10 10 150 200]", "[0 0 100 100]")
		}
		if opt.allowHazards && r.Intn(25) == 0 {
			o := b.add("<< /Note (referenced from an entry of a page tree node the writer does not list) >>")
			hazardObjs = append(hazardObjs, o)
			s += fmt.Sprintf(" /Foo %d 0 R", o)
			di.hazard("pages-unlisted-key-ref")
		}
		if r.Intn(10) == 0 {
			s += " /Bar " + randString(r)
			di.note("pages-unknown-direct")
		}
		s += " >>"
		b.set(n.nr, s)
		for _, k := range n.kids {
			emit(k)
		}
	}
	emit(rootNode)

	// pages
	for i, n := range pageNodes {
		s := fmt.Sprintf("<< /Type /Page /Parent %d 0 R /VerifId %d", n.parent.nr, i+1)
		// effective MediaBox must exist: if none is inherited for sure, put one on the page
		if mediaAt == "page" || mediaAt == "mixed" || onPage(mediaAt) {
			s += " /MediaBox " + mediaBox()
		} else if !onNode(mediaAt) && r.Intn(4) == 0 {
			s += " /MediaBox " + mediaBox()
		}
		if resAt == "page" || resAt == "mixed" && r.Intn(2) == 0 || onPage(resAt) {
			s += " /Resources " + resValue()
		}
		if rotAt == "page" || rotAt == "mixed" && r.Intn(3) == 0 || onPage(rotAt) {
			s += " /Rotate " + pick(r, "0", "90", "180", "270")
		}
		if cropAt == "page" || onPage(cropAt) {
			s += " /CropBox [5 5 150 250]"
		}
		// contents
		text := []byte(fmt.Sprintf("BT /F0 12 Tf 20 %d Td (page %d %s) Tj ET", 100+r.Intn(100), i+1, pick(r, "a", "b \\( c", "d\\\\e")))
		switch r.Intn(6) {
		case 0:
			lead := "q "
			if r.Intn(4) == 0 {
				lead = "\nq " // raw data starting with LF (filter kind 0 only keeps it raw)
				di.note("stream-starts-with-lf")
			}
			c1 := b.stream(r, "", []byte(lead), r.Intn(4))
			c2 := b.stream(r, "", text, r.Intn(4))
			c3 := b.stream(r, "", []byte(" Q"), r.Intn(4))
			s += fmt.Sprintf(" /Contents [%d 0 R %d 0 R %d 0 R]", c1, c2, c3)
			di.note("contents-array")
		case 1:
			di.note("no-contents")
		case 2:
			s += fmt.Sprintf(" /Contents %d 0 R", b.streamIndLen("", text))
			di.note("indirect-length")
		default:
			s += fmt.Sprintf(" /Contents %d 0 R", b.stream(r, "", text, r.Intn(4)))
		}
		// annotations
		if r.Intn(3) == 0 {
			var an []string
			target := pageNodes[r.Intn(len(pageNodes))].nr
			switch r.Intn(4) {
			case 0:
				an = append(an, fmt.Sprintf("<< /Type /Annot /Subtype /Link /Rect [10 10 50 50] /Border [0 0 0] /Dest [%d 0 R /Fit] >>", target))
				di.note("link-dest-direct")
			case 1:
				a := b.add(fmt.Sprintf("<< /Type /Annot /Subtype /Link /Rect [10 10 50 50] /A << /S /GoTo /D [%d 0 R /XYZ 0 100 null] >> >>", target))
				an = append(an, fmt.Sprintf("%d 0 R", a))
				di.note("link-action-goto")
			case 2:
				a := b.add(fmt.Sprintf("<< /Type /Annot /Subtype /Text /Rect [10 60 30 80] /Contents %s /T %s /P %d 0 R >>", randString(r), randString(r), n.nr))
				an = append(an, fmt.Sprintf("%d 0 R", a))
				di.note("text-annot")
			case 3:
				dest := b.add(fmt.Sprintf("[%d 0 R /FitH 100]", target))
				a := b.add(fmt.Sprintf("<< /Type /Annot /Subtype /Link /Rect [10 10 50 50] /Dest %d 0 R >>", dest))
				an = append(an, fmt.Sprintf("%d 0 R", a))
				di.note("link-dest-indirect-array")
			}
			if r.Intn(2) == 0 {
				s += " /Annots [" + strings.Join(an, " ") + "]"
			} else {
				s += fmt.Sprintf(" /Annots %d 0 R", b.add("["+strings.Join(an, " ")+"]"))
			}
		}
		if r.Intn(6) == 0 {
			s += " /PieceInfo << /MyApp << /LastModified (D:20200101000000Z) /Private " + randValue(r, b, 2) + " >> >> /LastModified (D:20200101000000Z)"
			di.note("page-pieceinfo")
		}
		if r.Intn(8) == 0 {
			s += " /UserUnit 2.0"
			b.ver = "1.7"
		}
		if r.Intn(8) == 0 {
			s += " /Tabs /S"
		}
		if r.Intn(8) == 0 {
			m := b.stream(r, "/Type /Metadata /Subtype /XML", []byte("<?xpacket begin='' id='W5M0MpCehiHzreSzNTczkc9d'?><x:xmpmeta xmlns:x='adobe:ns:meta/'></x:xmpmeta><?xpacket end='w'?>"), 0)
			s += fmt.Sprintf(" /Metadata %d 0 R", m)
			di.note("page-metadata")
		}
		if r.Intn(8) == 0 {
			s += " /Foo " + randValue(r, b, 0)
			di.note("page-unknown-direct")
		}
		if opt.allowHazards && r.Intn(20) == 0 {
			o := b.add("<< /Note (referenced from a page entry the writer does not list) /V " + randString(r) + " >>")
			hazardObjs = append(hazardObjs, o)
			s += fmt.Sprintf(" /Foo %d 0 R", o)
			di.hazard("page-unlisted-key-ref")
		}
		s += " >>"
		b.set(n.nr, s)
	}

	// catalog
	cat := fmt.Sprintf("<< /Type /Catalog /Pages %d 0 R", pagesRoot)
	if opt.rootVer != "" {
		if opt.rootVer != "-" {
			cat += " /Version /" + opt.rootVer
		}
		di.note("root-version=" + opt.rootVer)
	} else if r.Intn(4) == 0 {
		cat += " /Version /" + pick(r, "1.5", "1.6", "1.7")
		di.note("root-version")
	}
	if r.Intn(4) == 0 {
		cat += " /PageMode " + pick(r, "/UseOutlines", "/UseNone", "/UseThumbs")
	}
	if r.Intn(4) == 0 {
		cat += " /PageLayout " + pick(r, "/SinglePage", "/OneColumn", "/TwoColumnLeft")
	}
	if r.Intn(4) == 0 {
		v := "<< /HideToolbar true /Direction /L2R >>"
		if r.Intn(2) == 0 {
			v = fmt.Sprintf("%d 0 R", b.add(v))
		}
		cat += " /ViewerPreferences " + v
		di.note("viewerprefs")
	}
	if r.Intn(4) == 0 {
		cat += " /Lang " + pick(r, "(en-US)", "(de)", "(fr-CA)")
	}
	if r.Intn(5) == 0 {
		cat += " /MarkInfo << /Marked false >>"
	}
	if r.Intn(4) == 0 {
		cat += fmt.Sprintf(" /OpenAction [%d 0 R /Fit]", pageNodes[r.Intn(len(pageNodes))].nr)
		di.note("openaction")
	}
	if r.Intn(4) == 0 {
		m := b.stream(r, "/Type /Metadata /Subtype /XML", []byte("<?xpacket begin='' id='W5M0MpCehiHzreSzNTczkc9d'?><x:xmpmeta xmlns:x='adobe:ns:meta/'><rdf:RDF xmlns:rdf='http://www.w3.org/1999/02/22-rdf-syntax-ns#'></rdf:RDF></x:xmpmeta><?xpacket end='w'?>"), 0)
		cat += fmt.Sprintf(" /Metadata %d 0 R", m)
		di.note("root-metadata")
	}
	if r.Intn(3) == 0 {
		// outlines: 1-3 items in a chain
		ol := b.alloc()
		n := 1 + r.Intn(3)
		items := make([]int, n)
		for i := range items {
			items[i] = b.alloc()
		}
		for i, it := range items {
			s := fmt.Sprintf("<< /Title %s /Parent %d 0 R", randString(r), ol)
			if i > 0 {
				s += fmt.Sprintf(" /Prev %d 0 R", items[i-1])
			}
			if i < n-1 {
				s += fmt.Sprintf(" /Next %d 0 R", items[i+1])
			}
			tp := pageNodes[r.Intn(len(pageNodes))].nr
			if r.Intn(2) == 0 {
				s += fmt.Sprintf(" /Dest [%d 0 R /XYZ 0 %d 0]", tp, r.Intn(500))
			} else {
				s += fmt.Sprintf(" /A << /S /GoTo /D [%d 0 R /Fit] >>", tp)
			}
			s += " >>"
			b.set(it, s)
		}
		b.set(ol, fmt.Sprintf("<< /Type /Outlines /First %d 0 R /Last %d 0 R /Count %d >>", items[0], items[n-1], n))
		cat += fmt.Sprintf(" /Outlines %d 0 R", ol)
		di.note("outlines")
	}
	if r.Intn(4) == 0 {
		// named destinations in a name tree
		names := []string{"(Alpha)", "(Beta)", "(Gamma)"}
		var p []string
		for _, nm := range names[:1+r.Intn(3)] {
			p = append(p, nm, fmt.Sprintf("[%d 0 R /Fit]", pageNodes[r.Intn(len(pageNodes))].nr))
		}
		leaf := b.add("<< /Names [" + strings.Join(p, " ") + "] >>")
		cat += fmt.Sprintf(" /Names << /Dests %d 0 R >>", leaf)
		di.note("names-dests")
	}
	if r.Intn(5) == 0 {
		cat += fmt.Sprintf(" /PageLabels << /Nums [0 << /S /D >> ] >>")
		di.note("pagelabels")
	}
	if r.Intn(6) == 0 {
		cat += " /PieceInfo << /MyApp << /LastModified (D:20200101000000Z) /Private " + randValue(r, b, 2) + " >> >>"
		di.note("root-pieceinfo")
	}
	if r.Intn(8) == 0 {
		cat += " /Foo " + randValue(r, b, 0)
		di.note("root-unknown-direct")
	}
	if opt.allowHazards && r.Intn(12) == 0 {
		o := b.add("<< /Note (referenced from a catalog entry the writer does not list) /V " + randString(r) + " >>")
		hazardObjs = append(hazardObjs, o)
		cat += fmt.Sprintf(" /%s %d 0 R", pick(r, "Foo", "AF", "DSS"), o)
		di.hazard("root-unlisted-key-ref")
	}
	cat += " >>"
	b.set(catalog, cat)

	// info
	info := 0
	if r.Intn(5) != 0 {
		s := "<<"
		for _, k := range []string{"Title", "Author", "Subject", "Keywords", "Creator"} {
			if r.Intn(2) == 0 {
				s += " /" + k + " " + randString(r)
			}
		}
		if r.Intn(2) == 0 {
			s += " /Producer (some producer)"
		}
		if r.Intn(6) == 0 {
			s += fmt.Sprintf(" /Producer %d 0 R", b.add("(indirect producer)"))
			di.note("info-producer-indirect")
		}
		if r.Intn(2) == 0 {
			s += " /CreationDate (D:20190203040506+01'00')"
		}
		if r.Intn(2) == 0 {
			s += " /ModDate (D:20200203040506Z)"
		}
		if r.Intn(4) == 0 {
			s += " /Trapped " + pick(r, "/True", "/False", "/Unknown")
		}
		if r.Intn(4) == 0 {
			s += " " + pick(r, "/Custom", "/My#20Key", "/Company") + " " + randString(r)
			di.note("info-custom")
		}
		if r.Intn(8) == 0 {
			s += fmt.Sprintf(" /Title %d 0 R", b.add(randString(r)))
			di.note("info-title-indirect")
		}
		s += " >>"
		// avoid duplicate keys: keep it simple by rebuilding when duplicates were generated
		if strings.Count(s, "/Producer") > 1 || strings.Count(s, "/Title") > 1 {
			s = "<< /Title (dup avoided) >>"
		}
		info = b.add(s)
	} else {
		di.note("no-info")
	}

	// unreferenced objects
	for i := r.Intn(3); i > 0; i-- {
		b.add(randValue(r, b, 1))
		di.note("unreferenced")
	}
	if opt.header != "" {
		b.ver = opt.header
		di.note("header=" + opt.header)
		// entries newer than the oldest versions are left out so that low versions stay valid
		for n, body := range b.objs {
			body = strings.ReplaceAll(body, " /UserUnit 2.0", "")
			body = strings.ReplaceAll(body, " /Tabs /S", "")
			b.objs[n] = body
		}
	}
	if opt.strict {
		b.ver = "1.4"
		for n, body := range b.objs {
			body = strings.ReplaceAll(body, "00Z)", "00+00'00')")
			body = strings.ReplaceAll(body, "06Z)", "06+00'00')")
			body = strings.ReplaceAll(body, " /UserUnit 2.0", "")
			body = strings.ReplaceAll(body, " /Tabs /S", "")
			b.objs[n] = body
		}
	}
	return b.bytes(catalog, info, nil), di
}
