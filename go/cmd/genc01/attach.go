package main

import (
	"go/ast"
	"go/token"
)

// Attachment extraction (pkg/api/attach.go): a multi-output operation with output reservations.
//
//	func reserveAttachmentOutputs(paths, aa) ([]attachmentOutputReservation, error) {
//	    token, err := …; if err != nil { return nil, err }          // before any reservation
//	    rr := make(…)
//	    for i, path := range paths {
//	        f, err := os.OpenFile(reservationPath, O_WRONLY|O_CREATE|O_EXCL, 0o600)
//	        if errors.Is(err, os.ErrExist) { …; return rr, … }
//	        if err != nil { return rr, … }
//	        rr = append(rr, …)
//	    }
//	    return rr, nil
//	}
//	func writeAttachments(outDir, aa) (err error) {
//	    rr, err := reserveAttachmentOutputs(paths, aa)
//	    if err != nil { return errors.Join(err, releaseAttachmentOutputReservations(rr)) }
//	    defer func() { err = errors.Join(err, releaseAttachmentOutputReservations(rr)) }()
//	    for … { if err := writeAttachmentToPath(…); err != nil { return err } }
//	    return nil
//	}
//
// Row `FRow "api" "writeAttachments" HMultiReserve DReleaseAlways ""` iff
//   - in reserveAttachmentOutputs the list `rr` is declared by a top-level `rr := make(...)`, assigned only
//     by `rr = append(rr, ...)` inside the single top-level range loop, and EVERY return statement that
//     comes after the declaration of rr (inside the loop or after it) returns the identifier rr as its
//     first result, or is preceded in its block by a statement that calls
//     releaseAttachmentOutputReservations(rr);
//   - writeAttachments assigns the result of reserveAttachmentOutputs to rr, its error branch returns an
//     expression that calls releaseAttachmentOutputReservations(rr), the deferred release is a top-level
//     `defer func() { err = errors.Join(err, releaseAttachmentOutputReservations(rr)) }()` (unconditional)
//     placed before the write loop and after the error branch, and err is the unshadowed named result;
//   - releaseAttachmentOutputReservations ranges over its parameter, calls closeFile and removeFile for
//     every element and has no return / break / continue inside the loop;
//   - reserveAttachmentOutputs and releaseAttachmentOutputReservations are called nowhere else.
//
// The per-attachment writer writeAttachmentToPath gets an ordinary single-output row.
func (g *gen) attachRows() []row {
	g.checkReserve()
	g.checkRelease()
	g.checkWriteAttachments()
	for n, fn := range g.api {
		if n != "writeAttachments" && hasCall(fn.Body, callsIdent("reserveAttachmentOutputs")) {
			fail(n, "calls reserveAttachmentOutputs; only writeAttachments is understood")
		}
		if n != "writeAttachments" && n != "reserveAttachmentOutputs" && hasCall(fn.Body, callsIdent("releaseAttachmentOutputReservations")) {
			fail(n, "calls releaseAttachmentOutputReservations; only writeAttachments / reserveAttachmentOutputs are understood")
		}
	}
	w := g.api["writeAttachmentToPath"]
	if w == nil {
		fail("writeAttachmentToPath", "not declared in pkg/api")
	}
	c := g.classifyDirect(w)
	if c == nil {
		fail("writeAttachmentToPath", "does not call openStagedOutput")
	}
	return []row{
		{"api", "writeAttachments", "HMultiReserve", "DReleaseAlways", ""},
		{"api", "writeAttachmentToPath", c.helper, c.key, c.via},
	}
}

func isReleaseOf(name string) func(*ast.CallExpr) bool {
	return func(c *ast.CallExpr) bool {
		return identCall(c) == "releaseAttachmentOutputReservations" && len(c.Args) == 1 && isIdent(c.Args[0], name)
	}
}

func (g *gen) checkReserve() {
	name := "reserveAttachmentOutputs"
	fn := g.api[name]
	if fn == nil {
		fail(name, "not declared in pkg/api")
	}
	if fn.Type.Results == nil || len(fn.Type.Results.List) != 2 {
		fail(name, "expected two results (reservations, error)")
	}
	declIdx, loopIdx := -1, -1
	for i, s := range fn.Body.List {
		switch s := s.(type) {
		case *ast.AssignStmt:
			if s.Tok == token.DEFINE && len(s.Lhs) == 1 && isIdent(s.Lhs[0], "rr") {
				if declIdx >= 0 {
					fail(name, "rr is declared twice")
				}
				if c, ok := s.Rhs[0].(*ast.CallExpr); !ok || identCall(c) != "make" {
					fail(name, "rr is not declared by `rr := make(...)` at %s", g.at(s))
				}
				declIdx = i
			}
		case *ast.RangeStmt, *ast.ForStmt:
			if loopIdx >= 0 {
				fail(name, "more than one top-level loop")
			}
			loopIdx = i
		}
	}
	if declIdx < 0 || loopIdx < 0 || declIdx > loopIdx {
		fail(name, "expected `rr := make(...)` followed by one top-level reservation loop")
	}
	// rr is assigned only by append inside the loop
	for i, s := range fn.Body.List {
		ast.Inspect(s, func(n ast.Node) bool {
			as, ok := n.(*ast.AssignStmt)
			if !ok {
				return true
			}
			for _, l := range as.Lhs {
				if !isIdent(l, "rr") {
					continue
				}
				if i == declIdx && as.Tok == token.DEFINE {
					continue
				}
				c, ok := as.Rhs[0].(*ast.CallExpr)
				if i != loopIdx || as.Tok != token.ASSIGN || !ok || identCall(c) != "append" || len(c.Args) < 2 || !isIdent(c.Args[0], "rr") {
					fail(name, "rr is assigned at %s by something else than `rr = append(rr, ...)` inside the reservation loop", g.at(as))
				}
			}
			return true
		})
	}
	// every return after the declaration of rr hands the reservations to the caller (or releases them)
	var checkBlock func(list []ast.Stmt)
	checkBlock = func(list []ast.Stmt) {
		released := false
		for _, s := range list {
			if hasCall(s, isReleaseOf("rr")) {
				if _, isRet := s.(*ast.ReturnStmt); !isRet {
					released = true
				}
			}
			switch s := s.(type) {
			case *ast.ReturnStmt:
				if len(s.Results) != 2 {
					fail(name, "return at %s does not have two results", g.at(s))
				}
				if !isIdent(s.Results[0], "rr") && !released && !hasCall(s, isReleaseOf("rr")) {
					fail(name, "the return at %s comes after reservations may have been made but returns `%s` instead of rr (and does not release them): the caller cannot release the reservations made so far",
						g.at(s), exprString(g.fset, s.Results[0]))
				}
			case *ast.IfStmt:
				checkBlock(s.Body.List)
				if s.Else != nil {
					if b, ok := s.Else.(*ast.BlockStmt); ok {
						checkBlock(b.List)
					} else {
						checkBlock([]ast.Stmt{s.Else})
					}
				}
			case *ast.RangeStmt:
				checkBlock(s.Body.List)
			case *ast.ForStmt:
				checkBlock(s.Body.List)
			case *ast.BlockStmt:
				checkBlock(s.List)
			case *ast.SwitchStmt, *ast.TypeSwitchStmt, *ast.SelectStmt, *ast.LabeledStmt:
				fail(name, "statement at %s is not understood inside the reservation function", g.at(s))
			default:
				ast.Inspect(s, func(n ast.Node) bool {
					if fl, ok := n.(*ast.FuncLit); ok {
						fail(name, "function literal at %s is not understood inside the reservation function", g.at(fl))
					}
					return true
				})
			}
		}
	}
	checkBlock(fn.Body.List[declIdx+1:])
	last, ok := fn.Body.List[len(fn.Body.List)-1].(*ast.ReturnStmt)
	if !ok || len(last.Results) != 2 || !isIdent(last.Results[0], "rr") || !isIdent(last.Results[1], "nil") {
		fail(name, "does not end with `return rr, nil`")
	}
}

func (g *gen) checkRelease() {
	name := "releaseAttachmentOutputReservations"
	fn := g.api[name]
	if fn == nil {
		fail(name, "not declared in pkg/api")
	}
	if fn.Type.Params == nil || len(fn.Type.Params.List) != 1 || len(fn.Type.Params.List[0].Names) != 1 {
		fail(name, "expected exactly one parameter")
	}
	param := fn.Type.Params.List[0].Names[0].Name
	nloops := 0
	for _, s := range fn.Body.List {
		rs, ok := s.(*ast.RangeStmt)
		if !ok {
			if _, isFor := s.(*ast.ForStmt); isFor {
				fail(name, "unexpected for loop at %s", g.at(s))
			}
			continue
		}
		nloops++
		if !isIdent(rs.X, param) {
			fail(name, "the loop at %s does not range over the parameter %s", g.at(rs), param)
		}
		if !hasCall(rs.Body, callsIdent("closeFile")) || !hasCall(rs.Body, callsIdent("removeFile")) {
			fail(name, "the loop at %s does not call closeFile and removeFile for every reservation", g.at(rs))
		}
		ast.Inspect(rs.Body, func(n ast.Node) bool {
			switch n := n.(type) {
			case *ast.ReturnStmt:
				fail(name, "return inside the release loop at %s", g.at(n))
			case *ast.BranchStmt:
				fail(name, "%s inside the release loop at %s", n.Tok, g.at(n))
			case *ast.IfStmt:
				fail(name, "conditional inside the release loop at %s", g.at(n))
			}
			return true
		})
	}
	if nloops != 1 {
		fail(name, "expected exactly one range loop over the reservations, found %d", nloops)
	}
}

func (g *gen) checkWriteAttachments() {
	name := "writeAttachments"
	fn := g.api[name]
	if fn == nil {
		fail(name, "not declared in pkg/api")
	}
	if !hasNamedErrResult(fn) {
		fail(name, "has no named result `err error`")
	}
	reserveIdx, errIdx, deferIdx, loopIdx := -1, -1, -1, -1
	for i, s := range fn.Body.List {
		switch s := s.(type) {
		case *ast.AssignStmt:
			if hasCall(s, callsIdent("reserveAttachmentOutputs")) {
				if reserveIdx >= 0 || len(s.Lhs) != 2 || !isIdent(s.Lhs[0], "rr") || !isIdent(s.Lhs[1], "err") || len(s.Rhs) != 1 {
					fail(name, "expected exactly one `rr, err := reserveAttachmentOutputs(...)` (at %s)", g.at(s))
				}
				reserveIdx = i
			}
		case *ast.IfStmt:
			if reserveIdx >= 0 && errIdx < 0 && errNotNil(s.Cond) && s.Init == nil && s.Else == nil {
				if len(s.Body.List) != 1 {
					fail(name, "the error branch at %s is not a single return", g.at(s))
				}
				ret, ok := s.Body.List[0].(*ast.ReturnStmt)
				if !ok || !hasCall(ret, isReleaseOf("rr")) {
					fail(name, "the error branch at %s does not return an expression that calls releaseAttachmentOutputReservations(rr): the reservations made before the failing one are not released", g.at(s))
				}
				errIdx = i
			}
		case *ast.DeferStmt:
			if !hasCall(s, isReleaseOf("rr")) {
				continue
			}
			lit := plainDeferredFuncLit(s)
			if lit == nil || len(lit.Body.List) != 1 {
				fail(name, "the deferred release at %s is not `defer func() { err = errors.Join(err, releaseAttachmentOutputReservations(rr)) }()`", g.at(s))
			}
			as, ok := lit.Body.List[0].(*ast.AssignStmt)
			if !ok || as.Tok != token.ASSIGN || len(as.Lhs) != 1 || !isIdent(as.Lhs[0], "err") {
				fail(name, "the deferred release at %s is not `defer func() { err = errors.Join(err, releaseAttachmentOutputReservations(rr)) }()`", g.at(s))
			}
			if g.requireResultErr(fn, s) != "DErr" {
				fail(name, "the deferred release at %s assigns a shadowed err", g.at(s))
			}
			if deferIdx >= 0 {
				fail(name, "two deferred releases")
			}
			deferIdx = i
		case *ast.RangeStmt, *ast.ForStmt:
			if hasCall(s, callsIdent("writeAttachmentToPath")) {
				if loopIdx >= 0 {
					fail(name, "two write loops")
				}
				loopIdx = i
			}
		}
	}
	if reserveIdx < 0 || errIdx != reserveIdx+1 {
		fail(name, "`rr, err := reserveAttachmentOutputs(...)` is not immediately followed by `if err != nil { return errors.Join(err, releaseAttachmentOutputReservations(rr)) }`")
	}
	if deferIdx < 0 {
		fail(name, "no top-level deferred releaseAttachmentOutputReservations(rr)")
	}
	if loopIdx < 0 {
		fail(name, "no top-level loop calling writeAttachmentToPath")
	}
	if !(errIdx < deferIdx && deferIdx < loopIdx) {
		fail(name, "the deferred release must come after the reservation's error branch and BEFORE the write loop")
	}
	// rr is not reassigned
	for i, s := range fn.Body.List {
		if i == reserveIdx {
			continue
		}
		ast.Inspect(s, func(n ast.Node) bool {
			if as, ok := n.(*ast.AssignStmt); ok {
				for _, l := range as.Lhs {
					if isIdent(l, "rr") {
						fail(name, "rr is assigned at %s", g.at(as))
					}
				}
			}
			return true
		})
	}
}
