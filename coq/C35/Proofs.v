(* C35 — histories, extraction of attachments, independence of the kinds, idempotence. *)
From Coq Require Import NArith List Bool Lia.
From PV Require Import C35.Model C35.ProofsStr C35.ProofsKw C35.ProofsName C35.ProofsSim.
Import ListNotations.
Open Scope N_scope.

Lemma fresh_adds_cons : forall o h s, fresh_adds (o :: h) s = true -> fresh_op s o /\ fresh_adds h (astep s o) = true.
Proof.
  intros o h s H. simpl in H. apply andb_true_iff in H as [H1 H2]. split; [|assumption].
  destruct o; simpl; auto. now apply negb_true_iff in H1.
Qed.

(* ------------------------------------------------------------- catalog XMP *)
Definition is_prall (o : op) : bool := match o with PRemove [] => true | _ => false end.

(* either the XMP packet contributes no keyword, or the history never uses "remove all
   properties" (which drops the packet and with it the keywords only it carries) *)
Definition xmp_ok (d : doc) (h : list op) : Prop :=
  xmp_text3 (d_ver d) (d_xmp d) = [] \/ forallb (fun o => negb (is_prall o)) h = true.

Lemma step_xmp_cases : forall d o,
  d_xmp (fst (step d o)) = d_xmp d \/ d_xmp (fst (step d o)) = fst (xmp_scrub (d_xmp d))
  \/ d_xmp (fst (step d o)) = None.
Proof.
  intros d o. unfold step. destruct (negb (readable d)); [now left|].
  destruct o as [ks|ks|kvs|ks|v| |v| |new| |id desc data|ids];
    repeat first
      [ match goal with |- context [match d_xmp d with None => _ | Some _ => _ end] => destruct (d_xmp d) eqn:?X end
      | match goal with |- context [match d_kw d with None => _ | Some _ => _ end] => destruct (d_kw d) eqn:?K end
      | match goal with |- context [match ?x with [] => _ | _ :: _ => _ end] => destruct x end
      | match goal with |- context [remove_seq ?a ?b] => destruct (remove_seq a b) end
      | match goal with |- context [if ?c then _ else _] => destruct c eqn:?C end ];
    simpl; auto; try (left; assumption); try congruence.
Qed.

Lemma step_clean : forall d o, xmp_text3 17 (d_xmp d) = [] -> xmp_text3 17 (d_xmp (fst (step d o))) = [].
Proof.
  intros d o H. destruct (step_xmp_cases d o) as [E|[E|E]]; rewrite E; [assumption|apply xmp_text3_scrub|reflexivity].
Qed.

Lemma xmp_ok_step : forall d s o h, Rel d s -> xmp_ok d (o :: h) ->
  safe_op d o /\ (Rel (fst (step d o)) (astep s o) -> xmp_ok (fst (step d o)) h).
Proof.
  intros d s o h R [C|N].
  - split.
    + destruct o as [ | | |[|k ks]| | | | | | | | ]; simpl; auto.
    + intros R'. left. destruct (r_ver _ _ R) as [V _]. destruct (r_ver _ _ R') as [V' _].
      rewrite V in C. rewrite V'. now apply step_clean.
  - simpl in N. apply andb_true_iff in N as [No Nh]. split.
    + destruct o as [ | | |[|k ks]| | | | | | | | ]; simpl; auto. discriminate.
    + intros _. now right.
Qed.

Lemma run_rel : forall h d s, Rel d s -> Forall (fun o => wf_op o = true) h ->
  fresh_adds h s = true -> xmp_ok d h -> Rel (run d h) (arun s h).
Proof.
  induction h as [|o r IH]; intros d s R W F X; [assumption|].
  inversion W as [|? ? Wo Wr]; subst. apply fresh_adds_cons in F as [Fo Fr].
  destruct (xmp_ok_step _ _ _ _ R X) as [SF XN].
  assert (R' : Rel (fst (step d o)) (astep s o)) by now apply step_rel.
  simpl. apply IH; auto.
Qed.

Lemma history_refines : forall h d s, Rel d s -> Forall (fun o => wf_op o = true) h ->
  fresh_adds h s = true -> xmp_ok d h -> observe (run d h) = Some (arun s h).
Proof. intros h d s R W F X. eapply observe_rel. eapply run_rel; eauto. Qed.

Lemma history_from_empty : forall h, Forall (fun o => wf_op o = true) h ->
  fresh_adds h (empty_store 17) = true ->
  observe (run (empty_doc 17) h) = Some (arun (empty_store 17) h).
Proof. intros h W F. eapply history_refines; eauto; [apply rel_empty|now left]. Qed.

(* from a document that carries keywords in its Info dictionary and in its catalog XMP
   packet: the store starts with their union *)
Lemma history_from_xmp : forall kw x h, let d := init_doc 17 true kw x in
  Forall (fun k => wfk k = true) (kw_read d) ->
  Forall (fun o => wf_op o = true) h -> fresh_adds h (init_store d) = true -> xmp_ok d h ->
  observe (run d h) = Some (arun (init_store d) h).
Proof. intros kw x h d Wk W F X. eapply history_refines; eauto. now apply rel_init. Qed.

(* ------------------------------------------------------------- attachments *)
Definition att_op (o : op) : bool := match o with AAdd _ _ _ | ARemove _ => true | _ => false end.
Definition kw_op (o : op) : bool := match o with KAdd _ | KRemove _ => true | _ => false end.
Definition pr_op (o : op) : bool := match o with PAdd _ | PRemove _ => true | _ => false end.
Definition pl_op (o : op) : bool := match o with LSet _ | LReset => true | _ => false end.
Definition pm_op (o : op) : bool := match o with MSet _ | MReset => true | _ => false end.
Definition vp_op (o : op) : bool := match o with VSet _ | VReset => true | _ => false end.

Lemma astep_independent : forall s o,
  (kw_op o = false -> s_kw (astep s o) = s_kw s) /\
  (pr_op o = false -> s_pr (astep s o) = s_pr s) /\
  (pl_op o = false -> s_pl (astep s o) = s_pl s) /\
  (pm_op o = false -> s_pm (astep s o) = s_pm s) /\
  (vp_op o = false -> s_vp (astep s o) = s_vp s) /\
  (att_op o = false -> s_att (astep s o) = s_att s).
Proof.
  intros [ver kw pr pl pm vp att] o.
  destruct o as [ks|ks|kvs|ks|v| |v| |new| |id desc data|ids]; simpl;
    repeat split; intros H; try discriminate; try reflexivity;
    repeat match goal with
           | |- context [match ?l with [] => _ | _ :: _ => _ end] => destruct l
           | |- context [remove_seq ?a ?b] => destruct (remove_seq a b)
           | |- context [if ?c then _ else _] => destruct c
           end; reflexivity.
Qed.

Lemma arun_att_unchanged : forall h s, forallb (fun o => negb (att_op o)) h = true -> s_att (arun s h) = s_att s.
Proof.
  induction h as [|o r IH]; simpl; intros s H; [reflexivity|].
  apply andb_true_iff in H as [Ho Hr]. apply negb_true_iff in Ho.
  unfold arun in *. rewrite IH by assumption.
  now apply (astep_independent s o).
Qed.

Lemma fresh_adds_no_att : forall h s, forallb (fun o => negb (att_op o)) h = true -> fresh_adds h s = true.
Proof.
  induction h as [|o r IH]; simpl; intros s H; [reflexivity|].
  apply andb_true_iff in H as [Ho Hr]. rewrite IH by assumption.
  destruct o; simpl in *; try reflexivity; discriminate.
Qed.

(* the lookup: the exact key wins, whatever file names and descriptions the other entries have *)
Lemma att_find_key_first : forall k v (m : atts), m_get k m = Some v -> att_find k m = Some (k, v).
Proof. intros k v m H. unfold att_find. now rewrite H. Qed.

Lemma att_find_after_set : forall k v (m : atts), att_find k (m_set k v m) = Some (k, v).
Proof. intros k v m. apply att_find_key_first. apply m_get_set_same. Qed.

(* the content search is used only when no key matches, and then returns an entry whose
   file name or description is the name asked for *)
Lemma att_search_sound : forall p (m : atts) k v, att_search p m = Some (k, v) ->
  In (k, v) m /\ (a_fname v = p \/ a_desc v = p).
Proof.
  intros p m. induction m as [|[k0 v0] r IH]; simpl; intros k v H; [discriminate|].
  destruct (seqb p (a_fname v0) || seqb p (a_desc v0)) eqn:E.
  - inversion H; subst. split; [now left|]. apply orb_true_iff in E as [E|E]; apply seqb_eq in E; auto.
  - destruct (IH _ _ H) as [I1 I2]. split; [now right|assumption].
Qed.

Lemma att_find_fallback : forall p (m : atts) k v, att_find p m = Some (k, v) -> k <> p ->
  m_get p m = None /\ (a_fname v = p \/ a_desc v = p).
Proof.
  intros p m k v H N. unfold att_find in H. destruct (m_get p m) eqn:G.
  - inversion H; subst. congruence.
  - split; [reflexivity|]. now apply (att_search_sound _ _ _ _ H).
Qed.

Lemma extract_rel : forall d s id, Rel d s ->
  extract d id = match att_find id (s_att s) with Some (_, v) => Some (a_data v) | None => None end.
Proof. intros d s id R. unfold extract. now rewrite (readable_rel _ _ R), (r_att _ _ R). Qed.

Lemma extract_returns_added : forall d s id desc data h,
  Rel d s -> m_mem id (s_att s) = false ->
  Forall (fun o => wf_op o = true) h -> forallb (fun o => negb (att_op o)) h = true ->
  xmp_ok d (AAdd id desc data :: h) ->
  extract (run d (AAdd id desc data :: h)) id = Some data.
Proof.
  intros d s id desc data h R Fr W NA X.
  assert (R' : Rel (run d (AAdd id desc data :: h)) (arun s (AAdd id desc data :: h))).
  { apply run_rel; [assumption|constructor; [reflexivity|assumption]| |].
    - simpl. rewrite Fr. simpl. now apply fresh_adds_no_att.
    - assumption. }
  rewrite (extract_rel _ _ _ R'). simpl. unfold arun in *. fold (arun (astep s (AAdd id desc data)) h).
  rewrite arun_att_unchanged by assumption.
  destruct s; simpl. now rewrite att_find_after_set.
Qed.

(* after add(k, v), extract k = v regardless of every other entry's file name and description *)
Lemma extract_after_add : forall d s k desc v,
  Rel d s -> m_mem k (s_att s) = false -> extract (fst (step d (AAdd k desc v))) k = Some v.
Proof.
  intros d s k desc v R Fr.
  assert (X : xmp_ok d [AAdd k desc v]) by (right; reflexivity).
  apply (extract_returns_added d s k desc v [] R Fr (Forall_nil _) eq_refl X).
Qed.

(* ... and of whatever is added later under other names *)
Lemma extract_key_wins : forall d s k v, Rel d s -> m_get k (s_att s) = Some v -> extract d k = Some (a_data v).
Proof. intros d s k v R G. rewrite (extract_rel _ _ _ R). now rewrite (att_find_key_first _ _ _ G). Qed.

(* ------------------------------------------------------------- idempotence, removal *)
Lemma set_ins_idem : forall k l, ssorted l -> In k l -> set_ins k l = l.
Proof.
  intros k l. induction l as [|x r IH]; simpl; intros Hs Hin; [contradiction|].
  destruct Hs as [Hx Hr]. destruct (seqb k x) eqn:E; [reflexivity|].
  destruct Hin as [->|Hin]; [rewrite seqb_refl in E; discriminate|].
  rewrite Forall_forall in Hx. rewrite (sltb_asym _ _ (Hx _ Hin)). now rewrite IH.
Qed.

Lemma fold_ins_In : forall ks acc x, In x (fold_left (fun a k => set_ins k a) ks acc) <-> In x ks \/ In x acc.
Proof.
  induction ks as [|k r IH]; simpl; intros acc x; [intuition|].
  rewrite IH, set_ins_In. intuition (subst; auto).
Qed.

Lemma fold_ins_absorb : forall ks acc, ssorted acc -> (forall k, In k ks -> In k acc) ->
  fold_left (fun a k => set_ins k a) ks acc = acc.
Proof.
  induction ks as [|k r IH]; simpl; intros acc Hs Hin; [reflexivity|].
  rewrite set_ins_idem; [|assumption|apply Hin; now left]. apply IH; [assumption|]. intros k' Hk'. apply Hin. now right.
Qed.

Lemma kadd_idempotent : forall s ks, ssorted (s_kw s) -> astep (astep s (KAdd ks)) (KAdd ks) = astep s (KAdd ks).
Proof.
  intros [ver kw pr pl pm vp att] ks Hs. simpl in *. destruct (no_blank ks) eqn:B; simpl; rewrite B; [|reflexivity].
  f_equal. apply fold_ins_absorb; [now apply fold_ins_sorted|].
  intros k Hk. apply fold_ins_In. now left.
Qed.

Lemma kremove_absent : forall s ks k, ks <> [] -> no_blank ks = true -> In k ks -> ~ In k (s_kw (astep s (KRemove ks))).
Proof.
  intros [ver kw pr pl pm vp att] ks k Hne B Hin. destruct ks as [|k0 r]; [congruence|].
  cbn [astep]. rewrite B. simpl s_kw. intros H. apply filter_In in H as [_ H].
  apply negb_true_iff in H. assert (smem k (k0 :: r) = true) by now apply smem_In. congruence.
Qed.

Lemma kremove_all_empty : forall s, s_kw (astep s (KRemove [])) = [].
Proof. intros [ver kw pr pl pm vp att]. reflexivity. Qed.

Lemma m_del_get : forall (V : Type) k (m : list (str * V)), m_get k (m_del k m) = None.
Proof.
  intros V k m. unfold m_del. induction m as [|[y w] r IH]; simpl; [reflexivity|].
  destruct (seqb k y) eqn:E; simpl; [assumption|]. now rewrite E.
Qed.

Lemma premove_absent : forall s k, prem_valid [k] = true -> m_get k (s_pr (astep s (PRemove [k]))) = None.
Proof.
  intros [ver kw pr pl pm vp att] k V. cbn [astep]. rewrite V. simpl. apply m_del_get.
Qed.

(* ------------------------------------------------------------- witness of the open defect (i) *)
Lemma kw_history_refuted :
  observe (run (empty_doc 17) [KAdd [[97; 44; 98]]]) = Some (Store 17 [[97]; [98]] [] None None None []).
Proof. vm_compute. reflexivity. Qed.

(* regressions of the three repaired defects, on the model: a name with '#', "remove all
   properties" with a name that needs a #xx escape, NFSPageModeUseOC (= PageModeUseOC = 4) *)
Lemma repaired_regressions :
  observe (run (empty_doc 17) [PAdd [([65; 35; 66], [118])]])
  = Some (Store 17 [] [([65; 35; 66], [118])] None None None [])
  /\ observe (run (empty_doc 17) [PAdd [([97; 32; 98], [118])]; PRemove []])
     = Some (Store 17 [] [] None None None [])
  /\ observe (run (empty_doc 17) [VSet [None;None;None;None;None;None;Some 4;None;None;None;None;None;None;None;None;None]])
     = Some (Store 17 [] [] None None (Some [None;None;None;None;None;None;Some 4;None;None;None;None;None;None;None;None;None]) []).
Proof. vm_compute. repeat split; reflexivity. Qed.

(* by-name removal of a keyword that the catalog XMP packet carries: it must stay removed *)
Lemma xmp_remove_by_name :
  let d := init_doc 17 true (Some [105; 49]) (Some (Some [120; 49; 59; 32; 120; 50])) in  (* Info "i1", XMP "x1; x2" *)
  kw_read d = [[105; 49]; [120; 49]; [120; 50]]
  /\ observe (run d [KRemove [[120; 49]]]) = Some (Store 17 [[105; 49]; [120; 50]] [] None None None [])
  /\ d_xmp (run d [KRemove [[120; 49]]]) = Some None.
Proof. vm_compute. repeat split; reflexivity. Qed.

(* the XMP hypothesis cannot be dropped: "remove all properties" drops the packet *)
Lemma prall_drops_xmp_keywords :
  let d := init_doc 17 true None (Some (Some [120; 49])) in
  kw_read d = [[120; 49]]
  /\ observe (run d [PRemove []]) = Some (Store 17 [] [] None None None []).
Proof. vm_compute. split; reflexivity. Qed.

(* without an Info dictionary KeywordsRemove gives up although the keyword is listed *)
Lemma no_info_remove_refused :
  let d := init_doc 17 false None (Some (Some [120; 49])) in
  kw_read d = [[120; 49]]
  /\ last_ok d [KRemove [[120; 49]]] = false
  /\ observe (run d [KRemove [[120; 49]]]) = Some (Store 17 [[120; 49]] [] None None None []).
Proof. vm_compute. repeat split; reflexivity. Qed.

(* the attachment whose DESCRIPTION is "b.txt" sorts before the attachment whose KEY is "b.txt":
   extracting "b.txt" returns the bytes stored under the key *)
Lemma extract_key_before_description :
  let h := [AAdd [97; 46; 116; 120; 116] [98; 46; 116; 120; 116] [1; 1]; AAdd [98; 46; 116; 120; 116] [] [2; 2]] in
  extract (run (empty_doc 17) h) [98; 46; 116; 120; 116] = Some [2; 2]
  /\ extract (run (empty_doc 17) (h ++ [ARemove [[98; 46; 116; 120; 116]]])) [98; 46; 116; 120; 116] = Some [1; 1].
Proof. vm_compute. split; reflexivity. Qed.
