(* C17 — row parameters, the row loop and decodePostProcess for the PNG predictors. *)
From Coq Require Import ZArith NArith List Bool Lia ZifyBool ZifyNat ZifyN Arith.
From PV Require Import Lib.GoInt C17.Model C17.Spec C17.ProofsBase C17.ProofsPng.
Import ListNotations.
Open Scope Z_scope.

(* ---------- safemath / predictorRowParams ---------- *)
Lemma mulInt_ok a b : 0 <= a -> 0 <= b -> a * b <= maxInt -> mulInt a b = Ok (a * b).
Proof.
  intros Ha Hb Hab. unfold mulInt.
  replace (a <? 0) with false by lia. replace (b <? 0) with false by lia. simpl.
  destruct (a =? 0) eqn:E; simpl; [reflexivity|].
  apply Z.eqb_neq in E.
  assert (Hq : b <= maxInt / a) by (apply Z.div_le_lower_bound; lia).
  replace (b >? maxInt / a) with false by lia. reflexivity.
Qed.

Lemma addInt_ok a b : 0 <= a -> 0 <= b -> a + b <= maxInt -> addInt a b = Ok (a + b).
Proof.
  intros Ha Hb Hab. unfold addInt.
  replace (a <? 0) with false by lia. replace (b <? 0) with false by lia.
  replace (a >? maxInt - b) with false by lia. reflexivity.
Qed.

Lemma ceil8_eq bits : 0 <= bits -> ceil8 bits = (bits + 7) / 8.
Proof.
  intros Hb. unfold ceil8.
  pose proof (Z.div_mod bits 8 ltac:(lia)) as H1. pose proof (Z.mod_pos_bound bits 8 ltac:(lia)) as H2.
  destruct (bits mod 8 =? 0) eqn:E.
  - apply Z.eqb_eq in E. apply (Z.div_unique (bits + 7) 8 (bits / 8) 7); lia.
  - apply Z.eqb_neq in E. apply (Z.div_unique (bits + 7) 8 (bits / 8 + 1) (bits mod 8 - 1)); lia.
Qed.

(* ceil8 is what the comment in Spec.v says: the least k with 8k >= bits *)
Lemma ceil8_least bits : 0 <= bits -> bits <= 8 * ceil8 bits /\ forall k, bits <= 8 * k -> ceil8 bits <= k.
Proof.
  intros Hb. unfold ceil8.
  pose proof (Z.div_mod bits 8 ltac:(lia)) as H1. pose proof (Z.mod_pos_bound bits 8 ltac:(lia)) as H2.
  destruct (bits mod 8 =? 0) eqn:E.
  - apply Z.eqb_eq in E. split; [lia|]. intros k Hk. lia.
  - apply Z.eqb_neq in E. split; [lia|]. intros k Hk. lia.
Qed.

Lemma rowparams_ok predictor colors bpc columns :
  1 <= colors -> 1 <= bpc -> 1 <= columns -> colors * bpc * columns + 8 <= maxInt ->
  predictorRowParams predictor colors bpc columns =
  Some (spec_rowbytes colors bpc columns,
        (if predictor =? 2 then spec_rowbytes colors bpc columns else spec_rowbytes colors bpc columns + 1),
        spec_bpp colors bpc).
Proof.
  intros Hc Hb Hn Hmax. unfold predictorRowParams, spec_rowbytes, spec_bpp.
  assert (H1 : 1 <= bpc * colors) by nia.
  assert (H2 : bpc * colors <= bpc * colors * columns) by nia.
  assert (H3 : colors * bpc * columns = bpc * colors * columns) by ring.
  assert (H4 : colors * bpc = bpc * colors) by ring.
  rewrite H3, H4 in *.
  rewrite mulInt_ok by lia. rewrite addInt_ok by lia.
  rewrite mulInt_ok by lia. rewrite addInt_ok by lia.
  rewrite !ceil8_eq by lia.
  assert (H5 : (bpc * colors * columns + 7) / 8 <= bpc * colors * columns + 7).
  { apply Z.div_le_upper_bound; lia. }
  assert (H6 : 0 <= (bpc * colors * columns + 7) / 8) by (apply Z.div_pos; lia).
  destruct (predictor =? 2); simpl; [reflexivity|].
  rewrite addInt_ok by lia. reflexivity.
Qed.

(* every index the row loops use is in range: 1 <= bytesPerPixel <= rowSize *)
Lemma row_params_facts colors bpc columns :
  1 <= colors -> 1 <= bpc -> 1 <= columns ->
  1 <= spec_bpp colors bpc <= spec_rowbytes colors bpc columns.
Proof.
  intros Hc Hb Hn. unfold spec_bpp, spec_rowbytes.
  assert (H1 : 1 <= colors * bpc) by nia.
  assert (H2 : colors * bpc <= colors * bpc * columns) by nia.
  rewrite !ceil8_eq by lia. split.
  - apply Z.div_le_lower_bound; lia.
  - apply Z.div_le_mono; lia.
Qed.

(* ---------- the row loop ---------- *)
Lemma rowsLoop_S f m p colors bppZ pr data out :
  rowsLoop (S f) m p colors bppZ pr data out =
  let n := Nat.min m (length data) in
  if (n =? 0)%nat then Some out
  else if negb (n =? m)%nat then None
  else
    let cr := firstn m data in
    match processRow pr cr p colors bppZ with
    | None => None
    | Some d =>
      let cr' := if p =? 2 then d else get cr 0 :: d in
      rowsLoop f m p colors bppZ cr' (skipn m data) (out ++ d)
    end.
Proof. reflexivity. Qed.

Lemma firstn_app_exact (A : Type) (l1 l2 : list A) : firstn (length l1) (l1 ++ l2) = l1.
Proof.
  rewrite firstn_app, firstn_all, Nat.sub_diag. simpl. apply app_nil_r.
Qed.

Lemma skipn_app_exact (A : Type) (l1 l2 : list A) : skipn (length l1) (l1 ++ l2) = l2.
Proof.
  rewrite skipn_app, skipn_all, Nat.sub_diag. reflexivity.
Qed.

Definition row_ok (n : nat) (r : list N) : Prop := length r = n /\ wf r.

Lemma rowsLoop_png p colors bppZ n :
  p <> 2 -> 1 <= bppZ -> (Z.to_nat bppZ <= n)%nat ->
  forall rows fuel pr out,
    Forall (row_ok (S n)) rows ->
    (length (concat rows) < fuel)%nat -> length pr = S n -> wf pr ->
    rowsLoop fuel (S n) p colors bppZ pr (concat rows) out =
    match unfilter_rows (Z.to_nat bppZ) (tl pr) rows with
    | Some o => Some (out ++ o)
    | None => None
    end.
Proof.
  intros Hp Hb Hbn. induction rows as [|r rest IH]; intros fuel pr out Hrows Hfuel Hpr Hwp.
  - destruct fuel as [|f]; [simpl in Hfuel; lia|]. simpl. now rewrite app_nil_r.
  - destruct fuel as [|f]; [lia|].
    inversion Hrows as [|r' rest' [Hrl Hrw] Hrest]; subst r' rest'.
    destruct r as [|ft filt]; [simpl in Hrl; lia|].
    simpl in Hrl. assert (Hfl : length filt = n) by lia.
    rewrite rowsLoop_S. cbv zeta.
    change (concat ((ft :: filt) :: rest)) with ((ft :: filt) ++ concat rest) in *.
    rewrite app_length in *. simpl length in *.
    assert (Hmin : Nat.min (S n) (S (length filt) + length (concat rest)) = S n) by lia.
    rewrite Hmin.
    change (S n =? 0)%nat with false. cbv iota. rewrite Nat.eqb_refl. simpl negb. cbv iota.
    assert (Hfn : firstn (S n) ((ft :: filt) ++ concat rest) = ft :: filt).
    { rewrite <- Hrl. apply (firstn_app_exact N (ft :: filt) (concat rest)). }
    assert (Hsn : skipn (S n) ((ft :: filt) ++ concat rest) = concat rest).
    { rewrite <- Hrl. apply (skipn_app_exact N (ft :: filt) (concat rest)). }
    rewrite Hfn, Hsn.
    assert (Hwfilt : wf filt) by (now inversion Hrw).
    assert (Hft : (ft < 256)%N) by (now inversion Hrw).
    rewrite processRow_png by (try assumption; lia).
    replace (p =? 2) with false by (symmetry; apply Z.eqb_neq; exact Hp).
    simpl unfilter_rows.
    destruct (ft <=? 4)%N; [|reflexivity].
    change (get (ft :: filt) 0) with ft.
    rewrite IH.
    + simpl tl. destruct (unfilter_rows _ _ rest) as [o|]; [|reflexivity].
      now rewrite app_assoc.
    + exact Hrest.
    + lia.
    + simpl. rewrite unfilter_row_length. lia.
    + constructor; [exact Hft|]. apply unfilter_row_wf.
Qed.

Lemma unfilter_rows_length bpp n : forall rows prior o,
  Forall (row_ok (S n)) rows -> unfilter_rows bpp prior rows = Some o ->
  length o = (length rows * n)%nat.
Proof.
  induction rows as [|r rest IH]; intros prior o Hrows Ho.
  - simpl in Ho. inversion Ho. reflexivity.
  - inversion Hrows as [|r' rest' [Hrl Hrw] Hrest]; subst r' rest'.
    destruct r as [|ft filt]; [simpl in Hrl; lia|]. simpl in Ho, Hrl.
    destruct (ft <=? 4)%N; [|discriminate].
    destruct (unfilter_rows bpp _ rest) as [o'|] eqn:E; [|discriminate].
    inversion Ho; subst o. rewrite app_length, unfilter_row_length.
    rewrite (IH _ _ Hrest E). simpl. lia.
Qed.

Lemma unfilter_rows_invalid bpp : forall rows prior,
  Exists (fun r => (4 < hd 0 r)%N) rows -> unfilter_rows bpp prior rows = None.
Proof.
  induction rows as [|r rest IH]; intros prior Hex; [inversion Hex|].
  destruct r as [|ft filt]; [reflexivity|]. simpl.
  inversion Hex as [r' rest' Hhd|r' rest' Htl]; subst.
  - simpl in Hhd. replace (ft <=? 4)%N with false by (symmetry; apply N.leb_gt; exact Hhd). reflexivity.
  - destruct (ft <=? 4)%N; [|reflexivity]. now rewrite IH.
Qed.

Lemma validPredictor_png p : 10 <= p <= 15 -> validPredictor p = true.
Proof. intros Hp. unfold validPredictor. simpl. lia. Qed.

Lemma parameters_ok colors bpc columns :
  1 <= colors -> In bpc [1; 2; 4; 8; 16] -> 1 <= columns ->
  parameters (Some colors) (Some bpc) (Some columns) = Some (colors, bpc, columns).
Proof.
  intros Hc Hb Hn. unfold parameters.
  replace (colors <=? 0) with false by lia. replace (columns <=? 0) with false by lia.
  simpl in Hb. destruct Hb as [<-|[<-|[<-|[<-|[<-|[]]]]]]; reflexivity.
Qed.

Lemma png_decode_ok predictor colors bpc columns rows :
  10 <= predictor <= 15 -> 1 <= colors -> In bpc [1; 2; 4; 8; 16] -> 1 <= columns ->
  colors * bpc * columns + 8 <= maxInt ->
  Forall (row_ok (S (Z.to_nat (spec_rowbytes colors bpc columns)))) rows ->
  decode (Some predictor) (Some colors) (Some bpc) (Some columns) (concat rows) =
  spec_png colors bpc columns rows.
Proof.
  intros Hp Hc Hb Hn Hmax Hrows. unfold decode.
  replace (predictor =? 1) with false by lia.
  rewrite validPredictor_png by exact Hp. simpl negb. cbv iota.
  rewrite parameters_ok by assumption.
  assert (Hb1 : 1 <= bpc) by (simpl in Hb; lia).
  rewrite rowparams_ok by assumption.
  replace (predictor =? 2) with false by lia.
  pose proof (row_params_facts colors bpc columns Hc Hb1 Hn) as [Hf1 Hf2].
  set (rb := spec_rowbytes colors bpc columns) in *.
  set (bp := spec_bpp colors bpc) in *.
  replace (Z.to_nat (rb + 1)) with (S (Z.to_nat rb)) by lia.
  rewrite (rowsLoop_png predictor colors bp (Z.to_nat rb)); try assumption; try lia.
  - unfold spec_png. fold rb. fold bp. simpl tl. simpl app.
    destruct (unfilter_rows (Z.to_nat bp) (repeat 0%N (Z.to_nat rb)) rows) as [o|] eqn:E; [|reflexivity].
    rewrite (unfilter_rows_length _ _ _ _ _ Hrows E).
    rewrite Nat2Z.inj_mul, Z2Nat.id by lia. rewrite Z.mod_mul by lia. reflexivity.
  - now rewrite repeat_length.
  - apply wf_repeat0.
Qed.

Lemma unfilter_rows_none_iff bpp n : forall rows prior,
  Forall (row_ok (S n)) rows ->
  (unfilter_rows bpp prior rows = None <-> Exists (fun r => (4 < hd 0 r)%N) rows).
Proof.
  induction rows as [|r rest IH]; intros prior Hrows.
  - simpl. split; [discriminate|]. intros Hex. inversion Hex.
  - inversion Hrows as [|r' rest' [Hrl Hrw] Hrest]; subst r' rest'.
    destruct r as [|ft filt]; [simpl in Hrl; lia|].
    split.
    + simpl. destruct (ft <=? 4)%N eqn:E.
      * destruct (unfilter_rows bpp _ rest) as [o|] eqn:E2; [discriminate|].
        intros _. apply Exists_cons_tl. apply (proj1 (IH (unfilter_row ft bpp filt prior) Hrest)). exact E2.
      * intros _. apply Exists_cons_hd. simpl. apply N.leb_gt. exact E.
    + apply unfilter_rows_invalid.
Qed.

Lemma png_error_iff predictor colors bpc columns rows :
  10 <= predictor <= 15 -> 1 <= colors -> In bpc [1; 2; 4; 8; 16] -> 1 <= columns ->
  colors * bpc * columns + 8 <= maxInt ->
  Forall (row_ok (S (Z.to_nat (spec_rowbytes colors bpc columns)))) rows ->
  (decode (Some predictor) (Some colors) (Some bpc) (Some columns) (concat rows) = None
   <-> Exists (fun r => (4 < hd 0 r)%N) rows).
Proof.
  intros Hp Hc Hb Hn Hmax Hrows. rewrite png_decode_ok by assumption.
  unfold spec_png. apply (unfilter_rows_none_iff _ _ _ _ Hrows).
Qed.
