(* C25 — lemmas.  See Property.v for the statements that count. *)
From Coq Require Import NArith ZArith List Bool Lia.
Import ListNotations.
From PV Require Import C25.Model.
Open Scope N_scope.
Arguments pad32 : simpl never.
Arguments trunc127 : simpl never.

Lemma beq_eq a b : beq a b = true <-> a = b.
Proof.
  revert b. induction a as [|x a IH]; intros [|y b]; cbn; split; intros H; try congruence; try reflexivity.
  - apply andb_true_iff in H. destruct H as [Hx Hab]. apply N.eqb_eq in Hx. apply IH in Hab. congruence.
  - inversion H; subst. apply andb_true_iff. split; [apply N.eqb_refl | apply IH; reflexivity].
Qed.

Lemma beq_refl a : beq a a = true.
Proof. apply beq_eq. reflexivity. Qed.

Lemma is_empty_nil a : is_empty a = true <-> a = [].
Proof. destruct a; cbn; split; congruence. Qed.

Lemma eff_owner_nonempty a b : a <> [] -> eff_owner a b = a.
Proof. destruct a; cbn; congruence. Qed.

Lemma eff_owner_self a : eff_owner a [] = a.
Proof. destruct a; reflexivity. Qed.

Lemma eR_write_enc r o u p : eR (write_enc r o u p) = r.
Proof. unfold write_enc. destruct (aes256 r); reflexivity. Qed.

Section P.
Variable prep : bytes -> option bytes.

(* reading side: the form in which a candidate is compared; writing side: the form that is stored *)
Definition rprep (r : N) (x : bytes) : option bytes :=
  if aes256 r then option_map trunc127 (prep x) else Some (pad32 x).
Definition wstore (r : N) (c : bytes) : bytes := if aes256 r then c else pad32 c.

(* candidate x is accepted for a document whose password is c *)
Definition accepts (r : N) (c x : bytes) : Prop := rprep r x = Some (wstore r c).

(* a password that the reader's preparation leaves alone (the negation of finding aes256-password-prep-asymmetric) *)
Definition wp (x : bytes) : Prop := prep x = Some x /\ (length x <= 127)%nat.

Lemma wp_accepts r c : (aes256 r = true -> wp c) -> accepts r c c.
Proof.
  intros H. unfold accepts, rprep, wstore. destruct (aes256 r); [|reflexivity].
  destruct (H eq_refl) as [Hp Hl]. rewrite Hp. unfold option_map, trunc127. rewrite firstn_all2 by lia. reflexivity.
Qed.

Lemma validate_user_ok e x : validate_user prep e x = VOk <-> rprep (eR e) x = Some (eU e).
Proof.
  unfold validate_user, rprep. destruct (aes256 (eR e)).
  - destruct (prep x) as [p|]; unfold option_map; [|split; congruence].
    destruct (beq (trunc127 p) (eU e)) eqn:E.
    + apply beq_eq in E. split; congruence.
    + split; [congruence|]. intros H. inversion H as [H1]. rewrite H1, beq_refl in E. congruence.
  - destruct (beq (pad32 x) (eU e)) eqn:E.
    + apply beq_eq in E. split; congruence.
    + split; [congruence|]. intros H. inversion H as [H1]. rewrite H1, beq_refl in E. congruence.
Qed.

Definition owner_ok (e : enc) (a b : bytes) : Prop :=
  if aes256 (eR e) then a <> [] /\ rprep (eR e) a = Some (eO e)
  else rprep (eR e) (eff_owner a b) = Some (eO e).

Lemma validate_owner_ok e a b : validate_owner prep e a b = VOk <-> owner_ok e a b.
Proof.
  unfold validate_owner, owner_ok, rprep. destruct (aes256 (eR e)).
  - destruct a as [|a0 a']; cbn [is_empty].
    + split; [congruence|]. intros [H _]. congruence.
    + destruct (prep (a0 :: a')) as [p|]; unfold option_map; [|split; [congruence|intros [_ H]; congruence]].
      destruct (beq (trunc127 p) (eO e)) eqn:E.
      * apply beq_eq in E. split; [intros _; split; congruence|reflexivity].
      * split; [congruence|]. intros [_ H]. inversion H as [H1]. rewrite H1, beq_refl in E. congruence.
  - destruct (beq (pad32 (eff_owner a b)) (eO e)) eqn:E.
    + apply beq_eq in E. split; congruence.
    + split; [congruence|]. intros H. inversion H as [H1]. rewrite H1, beq_refl in E. congruence.
Qed.

(* the owner slot holds a password the reader's preparation rejects: setupEncryptionKey stops with that error *)
Definition slot_err (r : N) (a : bytes) : Prop := aes256 r = true /\ a <> [] /\ prep a = None.

Lemma validate_owner_err e a b : validate_owner prep e a b = VErr <-> slot_err (eR e) a.
Proof.
  unfold validate_owner, slot_err. destruct (aes256 (eR e)).
  - destruct a as [|a0 a']; cbn [is_empty].
    + split; [congruence|]. intros (_ & H & _). congruence.
    + destruct (prep (a0 :: a')) as [p|].
      * destruct (beq (trunc127 p) (eO e)); split; try congruence; intros (_ & _ & H); congruence.
      * split; [intros _; repeat split; congruence|reflexivity].
  - destruct (beq (pad32 (eff_owner a b)) (eO e)); split; try congruence; intros (H & _); congruence.
Qed.

(* ---- the decision function ---- *)

Lemma setup_key_neither nb ow us pk be hp :
  ow <> VOk -> us <> VOk -> opened (setup_key nb ow us pk be hp) = false.
Proof. destruct ow, us, nb, pk, be, hp; cbn; congruence. Qed.

Lemma setup_key_wrong ow us pk be hp :
  ow = VNo -> us = VNo -> setup_key false ow us pk be hp = EWrongPassword.
Proof. intros -> ->. reflexivity. Qed.

Lemma setup_key_opened_inv nb ow us pk be hp :
  opened (setup_key nb ow us pk be hp) = true ->
  if nb then ow = VOk /\ us = VOk else ow = VOk \/ us = VOk.
Proof. destruct ow, us, nb, pk, be, hp; cbn; intros H; try congruence; auto. Qed.

Lemma access_opened_iff nb e a b :
  opened (access prep nb e a b) = true <->
  if nb then validate_owner prep e a b = VOk /\ validate_user prep e b = VOk
  else validate_owner prep e a b = VOk \/ (validate_owner prep e a b <> VErr /\ validate_user prep e b = VOk).
Proof.
  unfold access. destruct (validate_owner prep e a b), (validate_user prep e b), nb,
    (is_empty a && is_empty b); cbn; intuition congruence.
Qed.

Lemma access_not_opened_class e a b :
  validate_owner prep e a b <> VOk -> validate_user prep e b <> VOk ->
  access prep false e a b = EWrongPassword \/ access prep false e a b = EValidate.
Proof.
  unfold access. destruct (validate_owner prep e a b), (validate_user prep e b); cbn; intros; try congruence; auto.
Qed.

(* ---- errors write nothing ---- *)

Lemma step_err_unchanged d o x d' : step prep d o = (RErr x, d') -> d' = d.
Proof.
  destruct o as [r opw upw p|opw upw|opw uo un|upw oo on|opw upw p]; cbn.
  - destruct d; [destruct (is_empty opw)|]; intros H; inversion H; reflexivity.
  - destruct d as [|e]; [intros H; inversion H; reflexivity|].
    destruct (opened (access prep false e opw upw)); intros H; inversion H; reflexivity.
  - destruct d as [|e]; [intros H; inversion H; reflexivity|].
    destruct (opened (access prep true e opw uo)); intros H; inversion H; reflexivity.
  - destruct (is_empty on); [intros H; inversion H; reflexivity|].
    destruct d as [|e]; [intros H; inversion H; reflexivity|].
    destruct (opened (access prep true e oo upw)); intros H; inversion H; reflexivity.
  - destruct d as [|e]; [intros H; inversion H; reflexivity|].
    destruct (opened (access prep true e opw upw)); intros H; inversion H; reflexivity.
Qed.

(* ---- changes need the owner password (and the user password) ---- *)

Definition is_change (o : op) : bool :=
  match o with OpChangeUser _ _ _ | OpChangeOwner _ _ _ | OpSetPerms _ _ _ => true | _ => false end.
(* the credentials an operation presents: (owner slot, user slot) *)
Definition slots (o : op) : bytes * bytes :=
  match o with
  | OpEncrypt _ opw upw _ => (opw, upw)
  | OpDecrypt opw upw => (opw, upw)
  | OpChangeUser opw uo _ => (opw, uo)
  | OpChangeOwner upw oo _ => (oo, upw)
  | OpSetPerms opw upw _ => (opw, upw)
  end.

Lemma change_requires_owner d o d' :
  is_change o = true -> step prep d o = (ROk, d') ->
  exists e, d = Encrypted e /\ validate_owner prep e (fst (slots o)) (snd (slots o)) = VOk
            /\ validate_user prep e (snd (slots o)) = VOk.
Proof.
  destruct o as [r opw upw p|opw upw|opw uo un|upw oo on|opw upw p]; cbn; try congruence; intros _.
  - destruct d as [|e]; [congruence|]. destruct (opened (access prep true e opw uo)) eqn:E; [|congruence].
    intros _. exists e. split; [reflexivity|]. apply (access_opened_iff true) in E. exact E.
  - destruct (is_empty on); [congruence|].
    destruct d as [|e]; [congruence|]. destruct (opened (access prep true e oo upw)) eqn:E; [|congruence].
    intros _. exists e. split; [reflexivity|]. apply (access_opened_iff true) in E. exact E.
  - destruct d as [|e]; [congruence|]. destruct (opened (access prep true e opw upw)) eqn:E; [|congruence].
    intros _. exists e. split; [reflexivity|]. apply (access_opened_iff true) in E. exact E.
Qed.

Lemma change_without_owner_refused d o e :
  is_change o = true -> d = Encrypted e ->
  validate_owner prep e (fst (slots o)) (snd (slots o)) <> VOk ->
  exists x, step prep d o = (RErr x, d) /\ x <> OpenOwner /\ x <> OpenUser.
Proof.
  intros Hc -> Hno. destruct (step prep (Encrypted e) o) as [r d'] eqn:E. destruct r as [|x].
  - destruct (change_requires_owner _ _ _ Hc E) as [e' [He [Ho _]]]. inversion He; subst. contradiction.
  - pose proof (step_err_unchanged _ _ _ _ E) as ->. exists x. split; [reflexivity|].
    destruct o as [r opw upw p|opw upw|opw uo un|upw oo on|opw upw p]; cbn in Hc, E, Hno; try congruence.
    + destruct (opened (access prep true e opw uo)) eqn:Eo; [congruence|]. inversion E; subst.
      split; intros Hx; rewrite Hx in Eo; cbn in Eo; congruence.
    + destruct (is_empty on); [inversion E; split; congruence|].
      destruct (opened (access prep true e oo upw)) eqn:Eo; [congruence|]. inversion E; subst.
      split; intros Hx; rewrite Hx in Eo; cbn in Eo; congruence.
    + destruct (opened (access prep true e opw upw)) eqn:Eo; [congruence|]. inversion E; subst.
      split; intros Hx; rewrite Hx in Eo; cbn in Eo; congruence.
Qed.

(* ---- histories: the current passwords, as the person who ran the operations understands them ---- *)

Record creds := mkCreds { cR : N; cO : bytes; cU : bytes }.

(* effect of a SUCCESSFUL operation on the current passwords *)
Definition cur_step (g : option creds) (o : op) : option creds :=
  match o with
  | OpEncrypt r opw upw _ => Some (mkCreds r opw upw)
  | OpDecrypt _ _ => None
  | OpChangeUser opw _ un =>
    (* the user password becomes un; when the owner slot was left empty (possible only for R<=4 and
       owner password = user password, see key()), the owner password follows the user password *)
    option_map (fun c => mkCreds (cR c) (if is_empty opw then un else cO c) un) g
  | OpChangeOwner _ _ on => option_map (fun c => mkCreds (cR c) on (cU c)) g
  | OpSetPerms _ _ _ => g
  end.

Definition is_ok (r : result) : bool := match r with ROk => true | _ => false end.

Fixpoint cur (g : option creds) (d : doc) (h : list op) : option creds :=
  match h with
  | [] => g
  | o :: h' =>
    let '(r, d') := step prep d o in
    cur (if is_ok r then cur_step g o else g) d' h'
  end.

(* the passwords an operation writes into the document *)
Definition written (o : op) : list bytes :=
  match o with
  | OpEncrypt _ opw upw _ => [opw; upw]
  | OpDecrypt _ _ => []
  | OpChangeUser opw _ un => [opw; un]
  | OpChangeOwner upw _ on => [on; upw]
  | OpSetPerms opw upw _ => [opw; upw]
  end.

(* every password written into an AES-256 document is one the reader's preparation leaves alone *)
Fixpoint hist_wp (d : doc) (h : list op) : Prop :=
  match h with
  | [] => True
  | o :: h' =>
    let '(r, d') := step prep d o in
    match r, d' with
    | ROk, Encrypted e => aes256 (eR e) = true -> Forall wp (written o)
    | _, _ => True
    end /\ hist_wp d' h'
  end.

Definition rel (d : doc) (g : option creds) : Prop :=
  match d, g with
  | Plain, None => True
  | Encrypted e, Some c =>
    eR e = cR c /\ eO e = wstore (cR c) (cO c) /\ eU e = wstore (cR c) (cU c)
    /\ (aes256 (cR c) = true -> cO c <> [] /\ wp (cO c) /\ wp (cU c))
  | _, _ => False
  end.

Lemma rprep_pad r x y : aes256 r = false -> rprep r x = Some (wstore r y) -> pad32 x = pad32 y.
Proof. unfold rprep, wstore. intros ->. congruence. Qed.

Lemma rprep_wp r x y : aes256 r = true -> wp x -> rprep r x = Some y -> x = y.
Proof.
  unfold rprep. intros -> [Hp Hl]. rewrite Hp. unfold option_map, trunc127. rewrite firstn_all2 by lia. congruence.
Qed.

Lemma step_rel d g o r d' :
  rel d g -> step prep d o = (r, d') ->
  match r, d' with
  | ROk, Encrypted e => aes256 (eR e) = true -> Forall wp (written o)
  | _, _ => True
  end ->
  rel d' (if is_ok r then cur_step g o else g).
Proof.
  intros Hrel Hstep Hwp.
  destruct r as [|x]; cbn [is_ok].
  2:{ apply step_err_unchanged in Hstep. subst. exact Hrel. }
  destruct o as [r opw upw p|opw upw|opw uo un|upw oo on|opw upw p]; cbn in Hstep.
  - (* encrypt *)
    destruct d as [|e]; [|congruence]. destruct (is_empty opw) eqn:Eo; [congruence|].
    inversion Hstep; subst d'. cbn [cur_step]. unfold rel, write_enc, wstore in *.
    assert (Hne : opw <> []) by (intros ->; cbn in Eo; congruence).
    destruct (aes256 r) eqn:Ea; cbn; rewrite ?Ea.
    + cbn in Hwp. rewrite Ea in Hwp. specialize (Hwp eq_refl).
      inversion Hwp as [|? ? Hw1 Hw2]; subst. inversion Hw2 as [|? ? Hw3 _]; subst.
      refine (conj eq_refl (conj eq_refl (conj eq_refl _))). intros _.
      exact (conj Hne (conj Hw1 Hw3)).
    + rewrite eff_owner_nonempty by assumption.
      refine (conj eq_refl (conj eq_refl (conj eq_refl _))). congruence.
  - (* decrypt *)
    destruct d as [|e]; [congruence|]. destruct (opened (access prep false e opw upw)); [|congruence].
    inversion Hstep; subst. destruct g; cbn; exact I.
  - (* change user *)
    destruct d as [|e]; [congruence|]. destruct (opened (access prep true e opw uo)) eqn:Eacc; [|congruence].
    inversion Hstep; subst d'. destruct g as [c|]; [|contradiction].
    destruct Hrel as (HR & HO & HU & HA).
    apply (access_opened_iff true) in Eacc. destruct Eacc as [Hown Husr].
    apply validate_owner_ok in Hown. unfold owner_ok in Hown.
    cbn [cur_step option_map]. unfold rel, write_enc. rewrite HR in *.
    destruct (aes256 (cR c)) eqn:Ea; cbn; unfold wstore; rewrite ?Ea.
    + destruct Hown as [Hne Hacc]. cbn in Hwp. rewrite eR_write_enc, Ea in Hwp. specialize (Hwp eq_refl).
      inversion Hwp as [|? ? Hw1 Hw2]; subst. inversion Hw2 as [|? ? Hw3 _]; subst.
      assert (Hie : is_empty opw = false) by (destruct opw; cbn; congruence). rewrite Hie.
      pose proof (rprep_wp _ _ _ Ea Hw1 Hacc) as Heq.
      rewrite HO in Heq. unfold wstore in Heq. rewrite Ea in Heq.
      refine (conj eq_refl (conj Heq (conj eq_refl _))). intros _.
      destruct (HA eq_refl) as (Hn & Hwo & Hwu). exact (conj Hn (conj Hwo Hw3)).
    + repeat split; try reflexivity; try congruence.
      destruct (is_empty opw) eqn:Hie.
      * apply is_empty_nil in Hie. subst opw. reflexivity.
      * assert (Hne : opw <> []) by (intros ->; cbn in Hie; congruence).
        rewrite eff_owner_nonempty in * by assumption.
        unfold rprep in Hown. rewrite Ea in Hown. rewrite HO in Hown. unfold wstore in Hown. rewrite Ea in Hown.
        congruence.
  - (* change owner *)
    destruct (is_empty on) eqn:Eon; [congruence|].
    destruct d as [|e]; [congruence|]. destruct (opened (access prep true e oo upw)) eqn:Eacc; [|congruence].
    inversion Hstep; subst d'. destruct g as [c|]; [|contradiction].
    destruct Hrel as (HR & HO & HU & HA).
    apply (access_opened_iff true) in Eacc. destruct Eacc as [Hown Husr].
    apply validate_user_ok in Husr.
    assert (Hne : on <> []) by (intros ->; cbn in Eon; congruence).
    cbn [cur_step option_map]. unfold rel, write_enc. rewrite HR in *.
    destruct (aes256 (cR c)) eqn:Ea; cbn; unfold wstore; rewrite ?Ea.
    + cbn in Hwp. rewrite eR_write_enc, Ea in Hwp. specialize (Hwp eq_refl).
      inversion Hwp as [|? ? Hw1 Hw2]; subst. inversion Hw2 as [|? ? Hw3 _]; subst.
      pose proof (rprep_wp _ _ _ Ea Hw3 Husr) as Heq.
      rewrite HU in Heq. unfold wstore in Heq. rewrite Ea in Heq.
      refine (conj eq_refl (conj eq_refl (conj Heq _))). intros _.
      destruct (HA eq_refl) as (Hn & Hwo & Hwu). exact (conj Hne (conj Hw1 Hwu)).
    + rewrite eff_owner_nonempty by assumption.
      repeat split; try reflexivity; try congruence.
      unfold rprep in Husr. rewrite Ea in Husr. rewrite HU in Husr. unfold wstore in Husr. rewrite Ea in Husr.
      congruence.
  - (* set permissions *)
    destruct d as [|e]; [congruence|]. destruct (opened (access prep true e opw upw)) eqn:Eacc; [|congruence].
    inversion Hstep; subst d'. destruct g as [c|]; [|contradiction].
    destruct Hrel as (HR & HO & HU & HA).
    apply (access_opened_iff true) in Eacc. destruct Eacc as [Hown Husr].
    apply validate_owner_ok in Hown. unfold owner_ok in Hown. apply validate_user_ok in Husr.
    cbn [cur_step]. unfold rel, write_enc. rewrite HR in *.
    destruct (aes256 (cR c)) eqn:Ea; cbn; unfold wstore; rewrite ?Ea.
    + destruct Hown as [Hne Hacc]. cbn in Hwp. rewrite eR_write_enc, Ea in Hwp. specialize (Hwp eq_refl).
      inversion Hwp as [|? ? Hw1 Hw2]; subst. inversion Hw2 as [|? ? Hw3 _]; subst.
      pose proof (rprep_wp _ _ _ Ea Hw1 Hacc) as Heq1. pose proof (rprep_wp _ _ _ Ea Hw3 Husr) as Heq2.
      rewrite HO in Heq1. rewrite HU in Heq2. unfold wstore in Heq1, Heq2. rewrite Ea in Heq1, Heq2.
      refine (conj eq_refl (conj Heq1 (conj Heq2 _))). intros _. exact (HA eq_refl).
    + unfold rprep in Hown, Husr. rewrite Ea in Hown, Husr. rewrite HO in Hown. rewrite HU in Husr.
      unfold wstore in Hown, Husr. rewrite Ea in Hown, Husr.
      repeat split; try reflexivity; try congruence.
Qed.

Lemma history_rel h : forall d g, rel d g -> hist_wp d h -> rel (run prep d h) (cur g d h).
Proof.
  induction h as [|o h IH]; intros d g Hrel Hwp; cbn in *; [exact Hrel|].
  destruct (step prep d o) as [r d'] eqn:E. cbn [snd]. destruct Hwp as [Hw Hrest].
  apply IH; [|exact Hrest]. eapply step_rel; eassumption.
Qed.

(* which credentials open a document whose current passwords are c *)
Definition owner_accepts (c : creds) (a b : bytes) : Prop :=
  if aes256 (cR c) then a <> [] /\ accepts (cR c) (cO c) a
  else accepts (cR c) (cO c) (eff_owner a b).

Lemma opens_iff e c a b :
  rel (Encrypted e) (Some c) ->
  (opens prep e a b = true <-> owner_accepts c a b \/ (~ slot_err (cR c) a /\ accepts (cR c) (cU c) b)).
Proof.
  intros (HR & HO & HU & _). unfold opens. rewrite (access_opened_iff false).
  rewrite validate_owner_ok, validate_user_ok, validate_owner_err. unfold owner_ok, owner_accepts, accepts.
  rewrite HR, HO, HU. reflexivity.
Qed.

Lemma current_open e c :
  rel (Encrypted e) (Some c) ->
  opens prep e (cO c) [] = true /\ opens prep e [] (cU c) = true
  /\ (cO c <> [] -> opened (access prep true e (cO c) (cU c)) = true).
Proof.
  intros Hrel. pose proof Hrel as (HR & HO & HU & HA).
  assert (HaccO : accepts (cR c) (cO c) (cO c)) by (apply wp_accepts; intros Ha; apply (HA Ha)).
  assert (HaccU : accepts (cR c) (cU c) (cU c)) by (apply wp_accepts; intros Ha; apply (HA Ha)).
  split; [|split].
  - apply (opens_iff _ _ _ _ Hrel). left. unfold owner_accepts. destruct (aes256 (cR c)) eqn:Ea.
    + split; [apply (HA eq_refl)|exact HaccO].
    + rewrite eff_owner_self. exact HaccO.
  - apply (opens_iff _ _ _ _ Hrel). right. split; [|exact HaccU]. intros (_ & H & _). congruence.
  - intros Hne. apply (access_opened_iff true). rewrite validate_owner_ok, validate_user_ok. unfold owner_ok.
    rewrite HR, HO, HU. split; [|exact HaccU].
    destruct (aes256 (cR c)) eqn:Ea.
    + split; [exact Hne|exact HaccO].
    + rewrite eff_owner_nonempty by exact Hne. exact HaccO.
Qed.

(* a candidate that is accepted neither for the current owner nor for the current user password *)
Lemma stale_rejected e c x :
  rel (Encrypted e) (Some c) ->
  ~ accepts (cR c) (cO c) x -> ~ accepts (cR c) (cU c) x ->
  opens prep e [] x = false /\ (~ accepts (cR c) (cU c) [] -> opens prep e x [] = false).
Proof.
  intros Hrel HnO HnU. split.
  - destruct (opens prep e [] x) eqn:E; [|reflexivity]. exfalso.
    apply (opens_iff _ _ _ _ Hrel) in E. destruct E as [E|[_ E]]; [|contradiction].
    unfold owner_accepts in E. destruct (aes256 (cR c)); [destruct E as [E _]; congruence|].
    cbn in E. contradiction.
  - intros HnE. destruct (opens prep e x []) eqn:E; [|reflexivity]. exfalso.
    apply (opens_iff _ _ _ _ Hrel) in E. destruct E as [E|[_ E]]; [|contradiction].
    unfold owner_accepts in E. destruct (aes256 (cR c)); [destruct E as [_ E]; contradiction|].
    rewrite eff_owner_self in E. contradiction.
Qed.

End P.

(* ---- assembled statements ---- *)

Lemma neither_password_rejected prep e a b :
  validate_owner prep e a b <> VOk -> validate_user prep e b <> VOk ->
  opens prep e a b = false
  /\ (access prep false e a b = EWrongPassword \/ access prep false e a b = EValidate)
  /\ (validate_owner prep e a b = VNo -> validate_user prep e b = VNo -> access prep false e a b = EWrongPassword)
  /\ (exists x, step prep (Encrypted e) (OpDecrypt a b) = (RErr x, Encrypted e))
  /\ forall nb pk be hp, opened (setup_key nb (validate_owner prep e a b) (validate_user prep e b) pk be hp) = false.
Proof.
  intros Ho Hu.
  assert (Hop : opens prep e a b = false).
  { unfold opens, access. apply setup_key_neither; assumption. }
  split; [exact Hop|]. split; [apply access_not_opened_class; assumption|].
  split; [intros H1 H2; unfold access; rewrite H1, H2; reflexivity|].
  split.
  - cbn. unfold opens in Hop. rewrite Hop. eexists; reflexivity.
  - intros. apply setup_key_neither; assumption.
Qed.

Lemma history_current prep h :
  hist_wp prep Plain h ->
  match run prep Plain h, cur prep None Plain h with
  | Plain, None => True
  | Encrypted e, Some c =>
    (forall a b, opens prep e a b = true <->
       owner_accepts prep c a b \/ (~ slot_err prep (cR c) a /\ accepts prep (cR c) (cU c) b))
    /\ opens prep e (cO c) [] = true /\ opens prep e [] (cU c) = true
    /\ (forall x, ~ accepts prep (cR c) (cO c) x -> ~ accepts prep (cR c) (cU c) x ->
          opens prep e [] x = false /\ (~ accepts prep (cR c) (cU c) [] -> opens prep e x [] = false))
  | _, _ => False
  end.
Proof.
  intros Hwp. pose proof (history_rel prep h Plain None I Hwp) as Hrel.
  destruct (run prep Plain h) as [|e]; destruct (cur prep None Plain h) as [c|]; try exact Hrel; try exact I.
  split; [intros a b; apply opens_iff; exact Hrel|].
  destruct (current_open prep e c Hrel) as (H1 & H2 & _).
  split; [exact H1|]. split; [exact H2|].
  intros x. apply stale_rejected. exact Hrel.
Qed.
