// Harness for C14: types.DateString / types.DateTime(s, false) against the
// Gallina model (coq/C14/Model.v), plus the direct oracle: every in-scope time
// (year 0..9999, whole-minute offset, |offset| < 24h) is written as a valid
// ISO 32000 date string and strictly parsed back to the same instant and offset.
package main

import (
	"fmt"
	"os"
	"regexp"
	"strconv"
	"strings"
	"time"

	"github.com/pdfcpu/pdfcpu/pkg/pdfcpu/types"
	"verif/vh"
)

type civ struct{ y, mo, d, h, mi, s, off int }

func (c civ) time() time.Time {
	return time.Date(c.y, time.Month(c.mo), c.d, c.h, c.mi, c.s, 0, time.FixedZone("", c.off))
}

func (c civ) args() []string {
	return []string{vh.Int(int64(c.y)), vh.Int(int64(c.mo)), vh.Int(int64(c.d)), vh.Int(int64(c.h)),
		vh.Int(int64(c.mi)), vh.Int(int64(c.s)), vh.Int(int64(c.off))}
}

func (c civ) inScope() bool {
	return c.y >= 0 && c.y <= 9999 && c.off%60 == 0 && c.off > -86400 && c.off < 86400
}

func civOf(t time.Time) civ {
	_, off := t.Zone()
	return civ{t.Year(), int(t.Month()), t.Day(), t.Hour(), t.Minute(), t.Second(), off}
}

func isLeap(y int) bool { return y%4 == 0 && (y%100 != 0 || y%400 == 0) }

func dim(y, m int) int {
	switch m {
	case 2:
		if isLeap(y) {
			return 29
		}
		return 28
	case 4, 6, 9, 11:
		return 30
	}
	return 31
}

var isoRe = regexp.MustCompile(`^D:(\d{4})(\d\d)(\d\d)(\d\d)(\d\d)(\d\d)([+-])(\d\d)'(\d\d)'$`)

// isoValid is the harness' own reading of ISO 32000-1 7.9.4 for the full form
// D:YYYYMMDDHHmmSSOHH'mm' (written independently of pdfcpu and of the Coq recogniser).
func isoValid(s string) bool {
	m := isoRe.FindStringSubmatch(s)
	if m == nil {
		return false
	}
	n := func(i int) int { v, _ := strconv.Atoi(m[i]); return v }
	y, mo, d := n(1), n(2), n(3)
	if mo < 1 || mo > 12 || d < 1 || d > dim(y, mo) {
		return false
	}
	return n(4) <= 23 && n(5) <= 59 && n(6) <= 59 && n(8) <= 23 && n(9) <= 59
}

var r *vh.Run

func dateString(t time.Time) (s string, panicked bool) {
	defer func() {
		if e := recover(); e != nil {
			s, panicked = fmt.Sprint("panic:", e), true
		}
	}()
	return types.DateString(t), false
}

func dateTime(s string) (t time.Time, ok, panicked bool) {
	defer func() {
		if e := recover(); e != nil {
			ok, panicked = false, true
		}
	}()
	t, ok = types.DateTime(s, false)
	return t, ok, false
}

// canonical result of the strict parser as (unix seconds, zone offset)
func parseRes(s string) string {
	if strings.HasPrefix(s, "\xFE\xFF") {
		return "utf16" // UTF-16 decoding is outside the model; class decided syntactically on both sides
	}
	t, ok, p := dateTime(s)
	if p {
		r.OracleFail("datetime-panic", map[string]any{"s": vh.Hex([]byte(s))}, "DateTime(s,false) panicked")
		return "panic"
	}
	if !ok {
		return "err"
	}
	_, off := t.Zone()
	return "ok:" + vh.Int(t.Unix()) + "," + vh.Int(int64(off))
}

func tag(c civ) string {
	a, b := "y>=1000", "off>=0"
	if c.y < 1000 {
		a = "y<1000"
	}
	if c.off < 0 {
		b = "off<0"
	}
	return ":" + a + ":" + b
}

// one time value through DateString (correspondence) and, when in scope, the oracle
func checkOne(c civ) string {
	t := c.time()
	if civOf(t) != c {
		panic(fmt.Sprint("generator produced a non-normalised civil time ", c))
	}
	s, p := dateString(t)
	in := map[string]any{"y": c.y, "mo": c.mo, "d": c.d, "h": c.h, "mi": c.mi, "s": c.s, "offset_seconds": c.off}
	if p {
		r.OracleFail("datestring-panic", in, s)
		return ""
	}
	r.Case("DateString", c.args(), vh.Hex([]byte(s)))
	if !c.inScope() {
		r.Count("class:out-of-scope-time")
		r.Case("DateTime", []string{vh.Hex([]byte(s))}, parseRes(s))
		return s
	}
	r.Count("class:in-scope-time")
	if c.off < 0 {
		r.Count("class:negative-offset")
	}
	if c.y < 1000 {
		r.Count("class:year-below-1000")
	}
	// correspondence: parsed civil fields
	t2, ok, pp := dateTime(s)
	res := "err"
	if pp {
		res = "panic"
	} else if ok {
		c2 := civOf(t2)
		res = "ok:" + strings.Join(c2.args(), ",")
	}
	r.Case("DateTimeFields", []string{vh.Hex([]byte(s))}, res)
	r.Case("IsoFull", []string{vh.Hex([]byte(s))}, vh.Bool(isoValid(s)))
	// oracle
	in["written"] = s
	switch {
	case !isoValid(s):
		r.OracleFail("datestring-not-iso"+tag(c), in, "DateString output is not D:YYYYMMDDHHmmSSOHH'mm' with fields in range")
	case pp:
		r.OracleFail("roundtrip-panic"+tag(c), in, "DateTime(DateString(t), false) panicked")
	case !ok:
		r.OracleFail("roundtrip-rejected"+tag(c), in, "DateTime(DateString(t), false) is not ok")
	case !t2.Equal(t):
		r.OracleFail("roundtrip-instant"+tag(c), in, "parsed "+t2.Format(time.RFC3339)+" want "+t.Format(time.RFC3339))
	case civOf(t2).off != c.off:
		r.OracleFail("roundtrip-offset"+tag(c), in, fmt.Sprintf("parsed offset %d want %d", civOf(t2).off, c.off))
	default:
		r.OracleOK()
	}
	return s
}

func mutCase(s string) {
	r.Case("DateTime", []string{vh.Hex([]byte(s))}, parseRes(s))
	r.Case("IsoFull", []string{vh.Hex([]byte(s))}, vh.Bool(isoValid(s)))
	r.Count("class:mutated-string")
}

const alphabet = "0123456789+-Z' \x00D:."

func randByte() byte {
	if r.Rand.Intn(6) == 0 {
		return byte(r.Rand.Intn(256))
	}
	return alphabet[r.Rand.Intn(len(alphabet))]
}

func mutate(s string) string {
	b := []byte(s)
	n := 1 + r.Rand.Intn(2)
	for i := 0; i < n; i++ {
		if len(b) == 0 {
			b = append(b, randByte())
			continue
		}
		p := r.Rand.Intn(len(b))
		switch r.Rand.Intn(5) {
		case 0, 1:
			b[p] = randByte()
		case 2:
			b = append(b[:p], append([]byte{randByte()}, b[p:]...)...)
		case 3:
			b = append(b[:p], b[p+1:]...)
		case 4:
			q := r.Rand.Intn(len(b))
			b[p], b[q] = b[q], b[p]
		}
	}
	return string(b)
}

func pick(l []string) string { return l[r.Rand.Intn(len(l))] }

// strings assembled field by field with boundary / malformed field texts
func fieldString() string {
	y := pick([]string{"2024", "2023", "1900", "2000", "0000", "9999", "0004", "0100", "0400", "-004", "+400", "-100", "20 4", "202", "2O24"})
	mo := pick([]string{"01", "02", "02", "03", "04", "06", "09", "11", "12", "00", "13", "+1", "-1", " 1", "1"})
	d := pick([]string{"01", "28", "29", "30", "31", "32", "00", "+9", "-1", "15"})
	h := pick([]string{"00", "12", "23", "24", "-1", "-5", "+5", "99", " 5"})
	mi := pick([]string{"00", "30", "59", "60", "-1", "+7", "99"})
	se := pick([]string{"00", "30", "59", "60", "-1", "+7", "5", "99", "5"})
	sg := pick([]string{"+", "-", "Z", "+", "-", "", "z", "+-", "--", "-+", "Z-"})
	tzh := pick([]string{"00", "01", "05", "12", "23", "24", "25", "47", "48", "99", "5", "-5", "+5", " 5", "5 ", "005", "",
		"00000000000000000000005", "9223372036854775807", "9223372036854775808", "-9223372036854775808", "0x5", "1_0"})
	ap := pick([]string{"'", "'", "'", "", "''", ":"})
	tzm := pick([]string{"00", "30", "59", "60", "45", "-30", "+30", " 5", "5", "", "99", "-99999", "000000000000000000000030", "-0"})
	tail := pick([]string{"'", "'", "", "'x", "''", "'00", "\x00", "'\x00\x00", " "})
	if strings.HasPrefix(sg, "Z") && r.Rand.Intn(2) == 0 {
		// Z forms are only accepted with zero fields: keep them frequent
		tzh = pick([]string{"00", "0", "24", "48", " 0", "000"})
		tzm = pick([]string{"00", "0", "", "-0", "01"})
	}
	parts := []string{"D:", y, mo, d, h, mi, se, sg, tzh, ap, tzm, tail}
	// cut after a random number of parts now and then (short forms)
	if r.Rand.Intn(3) == 0 {
		k := 1 + r.Rand.Intn(len(parts))
		parts = parts[:k]
		if r.Rand.Intn(4) == 0 {
			parts = append(parts, pick([]string{"\x00", "'", "Z", "+", "0"}))
		}
	}
	s := strings.Join(parts, "")
	switch r.Rand.Intn(24) {
	case 0:
		s = "\xEF\xBB\xBF" + s
	case 1:
		s = "\xFE\xFF" + s
	case 2:
		s = s[2:]
	case 3:
		s = "d:" + s[2:]
	}
	return s
}

func main() {
	if os.Getenv(childEnv) != "" { // re-executed with TZ=<zone>: see local.go
		childMain()
		return
	}
	r = vh.Start("C14")
	defer r.Finish()
	runLocalZones()

	var offs []int // all whole-minute offsets with |off| < 24h
	for k := -1439; k <= 1439; k++ {
		offs = append(offs, 60*k)
	}
	edgeOffs := []int{0, 60, -60, 1800, -1800, 3600, -3600, 19800, -19800, 86340, -86340, 82800, -82800, 3540, -3540, 43200, -43200}
	someOff := func() int {
		if r.Rand.Intn(3) == 0 {
			return edgeOffs[r.Rand.Intn(len(edgeOffs))]
		}
		return offs[r.Rand.Intn(len(offs))]
	}
	tods := [][3]int{{0, 0, 0}, {23, 59, 59}, {12, 0, 0}, {9, 5, 7}, {0, 0, 1}, {23, 0, 0}}
	someTod := func() [3]int {
		if r.Rand.Intn(2) == 0 {
			return tods[r.Rand.Intn(len(tods))]
		}
		return [3]int{r.Rand.Intn(24), r.Rand.Intn(60), r.Rand.Intn(60)}
	}
	days := func(y int) [][2]int {
		l := [][2]int{{1, 1}, {1, 31}, {2, 1}, {2, 28}, {3, 1}, {12, 31}}
		if isLeap(y) {
			l = append(l, [2]int{2, 29})
		}
		for m := 3; m <= 11; m++ {
			l = append(l, [2]int{m, dim(y, m)})
		}
		return l
	}
	var pool []string // written strings kept as mutation seeds
	keep := func(s string) {
		if s != "" && (len(pool) < 4000 || r.Rand.Intn(50) == 0) {
			if len(pool) < 4000 {
				pool = append(pool, s)
			} else {
				pool[r.Rand.Intn(len(pool))] = s
			}
		}
	}

	// A. every whole-minute offset x fixed dates
	fixed := []civ{{2024, 2, 29, 23, 59, 59, 0}, {0, 1, 1, 0, 0, 0, 0}, {9999, 12, 31, 23, 59, 59, 0}}
	if r.Thorough() {
		fixed = append(fixed, civ{1, 1, 1, 0, 0, 0, 0}, civ{999, 12, 31, 23, 59, 59, 0}, civ{1000, 1, 1, 0, 0, 0, 0},
			civ{1970, 1, 1, 0, 0, 0, 0}, civ{2000, 2, 29, 12, 30, 30, 0}, civ{1900, 2, 28, 23, 59, 59, 0},
			civ{2038, 1, 19, 3, 14, 7, 0}, civ{4, 2, 29, 1, 2, 3, 0}, civ{100, 3, 1, 0, 0, 0, 0}, civ{400, 2, 29, 0, 0, 0, 0})
	}
	for _, f := range fixed {
		for _, o := range offs {
			f.off = o
			keep(checkOne(f))
		}
	}

	// B. years x boundary days x sampled offsets
	var years []int
	if r.Thorough() {
		for y := 0; y <= 9999; y++ {
			years = append(years, y)
		}
	} else {
		years = []int{0, 1, 3, 4, 5, 9, 10, 11, 99, 100, 101, 399, 400, 401, 999, 1000, 1001, 1582, 1600, 1699, 1700, 1800, 1899, 1900,
			1901, 1969, 1970, 1999, 2000, 2001, 2023, 2024, 2025, 2037, 2038, 2100, 2400, 5000, 9996, 9998, 9999}
		for i := 0; i < 160; i++ {
			if i%2 == 0 {
				years = append(years, r.Rand.Intn(1000))
			} else {
				years = append(years, r.Rand.Intn(10000))
			}
		}
	}
	nOff := r.Pick(4, 5)
	for _, y := range years {
		for _, md := range days(y) {
			for k := 0; k < nOff; k++ {
				td := someTod()
				keep(checkOne(civ{y, md[0], md[1], td[0], td[1], td[2], someOff()}))
			}
		}
	}

	// C. random in-scope times
	n := r.Pick(6000, 200000)
	for i := 0; i < n; i++ {
		y := r.Rand.Intn(10000)
		m := 1 + r.Rand.Intn(12)
		d := 1 + r.Rand.Intn(dim(y, m))
		td := someTod()
		keep(checkOne(civ{y, m, d, td[0], td[1], td[2], someOff()}))
	}

	// D. times outside the property's scope (model must still agree): negative / 5+-digit years,
	// offsets with seconds, |offset| >= 24h
	n = r.Pick(3000, 60000)
	for i := 0; i < n; i++ {
		y := r.Rand.Intn(10000)
		switch r.Rand.Intn(5) {
		case 0:
			y = -1 - r.Rand.Intn(12000)
		case 1:
			y = 10000 + r.Rand.Intn(200000)
		}
		m := 1 + r.Rand.Intn(12)
		d := 1 + r.Rand.Intn(28)
		td := someTod()
		off := someOff()
		switch r.Rand.Intn(4) {
		case 0:
			off += r.Rand.Intn(119) - 59
		case 1:
			off = r.Rand.Intn(2*400000) - 400000
		case 2:
			off = []int{86400, -86400, 86399, -86399, 86460, -86460, 59, -59, 1, -1, 30, -30, 90, -90, 360000, -360000}[r.Rand.Intn(16)]
		}
		c := civ{y, m, d, td[0], td[1], td[2], off}
		if c.inScope() {
			continue
		}
		checkOne(c)
	}

	// E. malformed / short / mutated strings through the strict parser
	for _, s := range []string{"", "D", "D:", "D:2", "D:20", "D:202", "D:2024", "D:20240", "D:202402", "D:2024022", "D:20240229",
		"D:20230229", "D:19000229", "D:20000229", "D:2024022923", "D:202402292359", "D:20240229235", "D:20240229235958",
		"D:20240229235958Z", "D:20240229235958Z00'00'", "D:20240229235958Z00'00", "D:20240229235958Z01'00'", "D:20240229235958Z00'01'",
		"D:20240229235958+", "D:20240229235958-", "D:20240229235958+05", "D:20240229235958+05'", "D:20240229235958+05'30",
		"D:20240229235958+05'30'", "D:20240229235958-05'30'", "D:20240229235958-00'30'", "D:20240229235958+-05'30'",
		"D:20240229235958+24'00'", "D:20240229235958+29'00'", "D:20240229235958-47'59'", "D:20240229235958+05'60'",
		"D:20240229235958+05'-30'", "D:20240229235958-05'-30'", "D:20240229235958+05''", "D:20240229235958+05'30'junk",
		"D:2024022923595+05'30'", "D:2024022923595Z", "D:2024022923595-", "D:20240229-50000", "D:20240229-5",
		"20240229235958+05'30'", "D:20240229235958+05'30'\x00\x00", "\xEF\xBB\xBFD:20240229235958+05'30'",
		"\xFE\xFF\x00D\x00:\x002\x000\x002\x004", "D:Mon Jan 2 15:04:05 200", "D:+024", "D:-024", "D:-0240229", "D:20240431", "D:20240430"} {
		mutCase(s)
	}
	n = r.Pick(12000, 300000)
	for i := 0; i < n; i++ {
		base := pool[r.Rand.Intn(len(pool))]
		switch r.Rand.Intn(4) {
		case 0:
			mutCase(base[:r.Rand.Intn(len(base)+1)])
		case 1, 2:
			mutCase(mutate(base))
		case 3:
			mutCase(mutate(base[:r.Rand.Intn(len(base)+1)]))
		}
	}
	n = r.Pick(12000, 300000)
	for i := 0; i < n; i++ {
		s := fieldString()
		if r.Rand.Intn(8) == 0 {
			s = mutate(s)
		}
		mutCase(s)
	}
}
