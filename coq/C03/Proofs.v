(* C03 — proofs over the inode-level model (C03/Model.v). *)
From stdpp Require Import gmap.
From Coq Require Import NArith Lia.
From PV Require Import C01.FS C01.FSFacts C03.Model.

(* ---------- the concrete supplies ---------- *)
Lemma fresh_key_spec {A} (m : gmap positive A) : m !! fresh_key m = None.
Proof.
  destruct (m !! fresh_key m) as [f|] eqn:E; [|reflexivity]. exfalso.
  apply elem_of_map_to_list in E. apply elem_of_list_In in E.
  apply (in_map fst) in E. cbn in E. apply pmax_list_ge in E. unfold fresh_key in E. lia.
Qed.
Lemma fresh_key_above {A} (m : gmap positive A) p : (fresh_key m <= p)%positive -> m !! p = None.
Proof.
  intros Hle. destruct (m !! p) as [f|] eqn:E; [|reflexivity]. exfalso.
  apply elem_of_map_to_list in E. apply elem_of_list_In in E.
  apply (in_map fst) in E. cbn in E. apply pmax_list_ge in E. unfold fresh_key in Hle. lia.
Qed.
Lemma fresh_ent_hi_spec d : d !! fresh_ent_hi d = None.
Proof. apply fresh_key_above. unfold fresh_ent_hi. lia. Qed.
Lemma fresh_ino_hi_spec m : m !! fresh_ino_hi m = None.
Proof. apply fresh_key_above. unfold fresh_ino_hi. lia. Qed.

Lemma sp_eqb_eq a b : sp_eqb a b = true -> a = b.
Proof.
  destruct a as [e1 v1], b as [e2 v2]. unfold sp_eqb. cbn. intros H.
  apply andb_true_iff in H. destruct H as [H1 H2]. apply Pos.eqb_eq in H1. apply N.eqb_eq in H2. subst. reflexivity.
Qed.

Lemma resolve_entry_exists d e i : resolve d e = Some i -> is_Some (d !! e).
Proof. unfold resolve. cbn [follow]. destruct (d !! e); [eauto|discriminate]. Qed.

Lemma repeat_snoc_app {A} (x : A) k l : repeat x k ++ x :: l = repeat x (S k) ++ l.
Proof. cbn [repeat]. rewrite repeat_cons, <- app_assoc. reflexivity. Qed.

Section Proofs.
Variable fresh_ent : gmap positive dent -> positive.
Variable fresh_ino : gmap positive file -> positive.
Variable umask : N.
Hypothesis Hfe : forall d, d !! fresh_ent d = None.
Hypothesis Hfi : forall m, m !! fresh_ino m = None.

Notation open_tmp := (open_tmp fresh_ent fresh_ino umask).
Notation open_staged := (open_staged fresh_ent fresh_ino umask).
Notation api_i := (api_i fresh_ent fresh_ino umask).
Notation copy_file_i := (copy_file_i fresh_ent fresh_ino umask).
Notation write_reader_i := (write_reader_i fresh_ent fresh_ino umask).
Notation perm_new := (perm_new umask).
Notation multi_image_i := (multi_image_i fresh_ent fresh_ino umask).
Notation import_images_i := (import_images_i fresh_ent fresh_ino umask).
Notation incr_api_i := (incr_api_i fresh_ent fresh_ino umask).

(* ---------- the body ---------- *)
Lemma run_body_spec fd ofd b : forall s f,
  inos s !! ofd = Some f -> fd <> Some ofd ->
  idir (run_body fd ofd b s) = idir s /\
  inos (run_body fd ofd b s) = <[ofd := File (fdata f ++ output_of b) (fmode f)]> (inos s) /\
  (exists n, wlog (run_body fd ofd b s) = repeat ofd n ++ wlog s) /\
  (exists k, reads (run_body fd ofd b s) =
             repeat (match fd with Some i => fdata <$> (inos s !! i) | None => None end) k ++ reads s).
Proof.
  induction b as [|st r IH]; intros s f Hf Hne; cbn [run_body output_of].
  - split; [reflexivity|]. split.
    + rewrite app_nil_r. destruct f as [dd mm]. cbn. rewrite insert_id; [reflexivity|exact Hf].
    + split; [exists 0|exists 0]; reflexivity.
  - destruct st as [|c].
    + destruct fd as [i|].
      * destruct (IH (read i s) f Hf Hne) as (H1 & H2 & (n & H3) & (k & H4)). cbn [read idir inos wlog reads] in *.
        split; [exact H1|]. split; [exact H2|]. split; [exists n; exact H3|].
        exists (S k). rewrite H4. apply repeat_snoc_app.
      * apply IH; assumption.
    + assert (Hw : write ofd c s = IS (idir s) (<[ofd := File (fdata f ++ c) (fmode f)]> (inos s)) (ofd :: wlog s) (reads s))
        by (unfold write; rewrite Hf; reflexivity).
      rewrite Hw.
      assert (Hf1 : inos (IS (idir s) (<[ofd := File (fdata f ++ c) (fmode f)]> (inos s)) (ofd :: wlog s) (reads s)) !! ofd
                    = Some (File (fdata f ++ c) (fmode f))) by (cbn; apply lookup_insert).
      destruct (IH _ _ Hf1 Hne) as (H1 & H2 & (n & H3) & (k & H4)). cbn [idir inos wlog reads fdata fmode] in *.
      split; [exact H1|]. split.
      * rewrite H2. rewrite insert_insert, <- app_assoc. reflexivity.
      * split.
        -- exists (S n). rewrite H3. apply repeat_snoc_app.
        -- exists k. rewrite H4. destruct fd as [i|]; [|reflexivity].
           rewrite lookup_insert_ne; [reflexivity|]. intros ->. apply Hne. reflexivity.
Qed.

(* ---------- openStagedOutput ---------- *)
Lemma open_tmp_spec tg s ofd t dest s1 :
  open_tmp (Some tg) s = ROk (ofd, t, dest) s1 ->
  exists i f, resolve (idir s) (sp_ent tg) = Some i /\ inos s !! i = Some f /\
    ofd = fresh_ino (inos s) /\ t = fresh_ent (idir s) /\ dest = Some (sp_ent tg) /\
    idir s1 = <[t := DFile ofd]> (idir s) /\ inos s1 = <[ofd := File [] (fmode f)]> (inos s) /\
    wlog s1 = ofd :: wlog s /\ reads s1 = reads s.
Proof.
  unfold open_tmp, stat, create_temp, fchmod.
  destruct (resolve (idir s) (sp_ent tg)) as [i|] eqn:Er; [|discriminate].
  destruct (inos s !! i) as [f|] eqn:Ei; [|discriminate].
  cbn [inos idir wlog reads]. rewrite lookup_insert. cbn [fdata].
  intros [= <- <- <- <-]. exists i, f. cbn [idir inos wlog reads].
  split; [reflexivity|]. split; [exact Ei|]. repeat split; try reflexivity. apply insert_insert.
Qed.

(* the two ways openStagedOutput succeeds *)
Definition opened_new (o : sp) (s s1 : ist) (ofd t : positive) (dest : option positive) : Prop :=
  idir s !! sp_ent o = None /\ dest = None /\ t = sp_ent o /\ ofd = fresh_ino (inos s) /\
  idir s1 = <[sp_ent o := DFile ofd]> (idir s) /\ inos s1 = <[ofd := File [] perm_new]> (inos s) /\
  wlog s1 = wlog s /\ reads s1 = reads s.
Definition opened_replace (tg : sp) (s s1 : ist) (ofd t : positive) (dest : option positive) : Prop :=
  exists i f, resolve (idir s) (sp_ent tg) = Some i /\ inos s !! i = Some f /\
    ofd = fresh_ino (inos s) /\ t = fresh_ent (idir s) /\ dest = Some (sp_ent tg) /\
    idir s1 = <[t := DFile ofd]> (idir s) /\ inos s1 = <[ofd := File [] (fmode f)]> (inos s) /\
    wlog s1 = ofd :: wlog s /\ reads s1 = reads s.

Lemma open_staged_spec inF outF s ofd t dest s1 :
  open_staged inF (match outF with
                   | Some _ => if negb (opt_sp_eqb inF outF) then outF else None
                   | None => None end) s = ROk (ofd, t, dest) s1 ->
  exists d, api_dest inF outF = Some d /\
            (opened_new d s s1 ofd t dest \/ opened_replace d s s1 ofd t dest).
Proof.
  unfold open_staged, api_dest.
  destruct outF as [o|].
  - destruct (opt_sp_eqb inF (Some o)) eqn:Eeq; cbn [negb].
    + destruct inF as [x|]; [|discriminate Eeq]. intros H. exists x. split; [reflexivity|]. right.
      apply open_tmp_spec in H. exact H.
    + rewrite Eeq. cbn [negb]. unfold open_excl.
      destruct (idir s !! sp_ent o) as [de|] eqn:Eo.
      * intros H. exists o. split; [reflexivity|]. right. apply open_tmp_spec in H. exact H.
      * intros [= <- <- <- <-]. exists o. split; [reflexivity|]. left.
        unfold opened_new. cbn [idir inos wlog reads]. repeat split; try reflexivity. exact Eo.
  - destruct inF as [x|]; [|discriminate]. intros H. exists x. split; [reflexivity|]. right.
    apply open_tmp_spec in H. exact H.
Qed.

(* ---------- the master specification of a successful run ---------- *)
Definition mode_rule (s0 : ist) (d : sp) (md : N) : Prop :=
  (is_Some (idir s0 !! sp_ent d) ->
     exists i f, resolve (idir s0) (sp_ent d) = Some i /\ inos s0 !! i = Some f /\ md = fmode f) /\
  (idir s0 !! sp_ent d = None -> md = perm_new).

Definition input_snap (s0 : ist) (rd : option sp) (snap : option bytes) : Prop :=
  forall x, rd = Some x ->
  exists i fin, resolve (idir s0) (sp_ent x) = Some i /\ inos s0 !! i = Some fin /\ snap = Some (fdata fin).

Lemma api_i_spec rd inF outF b s0 s' :
  api_i rd inF outF b s0 = ROk tt s' ->
  exists d md, api_dest inF outF = Some d /\ mode_rule s0 d md /\
    idir s' = <[sp_ent d := DFile (fresh_ino (inos s0))]> (idir s0) /\
    inos s' = <[fresh_ino (inos s0) := File (output_of b) md]> (inos s0) /\
    (exists n, wlog s' = repeat (fresh_ino (inos s0)) n ++ wlog s0) /\
    (exists k snap, reads s' = repeat snap k ++ reads s0 /\ input_snap s0 rd snap).
Proof.
  unfold api_i.
  destruct (match rd with Some x => _ | None => ROk None s0 end) as [fd s1|e s1] eqn:Erd; [|discriminate].
  assert (Hrd : s1 = s0 /\ (forall j, fd = Some j -> is_Some (inos s0 !! j)) /\
                forall x, rd = Some x -> exists i fin, fd = Some i /\
                  resolve (idir s0) (sp_ent x) = Some i /\ inos s0 !! i = Some fin).
  { destruct rd as [x|].
    - unfold open_rd in Erd. destruct (resolve (idir s0) (sp_ent x)) as [i|] eqn:Er; [|discriminate].
      destruct (inos s0 !! i) as [fin|] eqn:Ei; [|discriminate]. injection Erd as <- <-.
      split; [reflexivity|]. split; [intros j [= <-]; eauto|].
      intros x' [= <-]. exists i, fin. repeat split; assumption.
    - injection Erd as <- <-. split; [reflexivity|]. split; [intros j H; discriminate H|].
      intros x' H. discriminate H. }
  destruct Hrd as (-> & Hfdex & Hfd). clear Erd.
  destruct (open_staged inF _ s0) as [[[ofd t] dest] s2|e s2] eqn:Eop; [|discriminate].
  apply open_staged_spec in Eop. destruct Eop as (d & Hd & Hop).
  (* the input descriptor is a pre-existing inode, the output descriptor a fresh one *)
  assert (Hne : ofd = fresh_ino (inos s0) -> fd <> Some ofd).
  { intros -> Hfd'. destruct (Hfdex _ Hfd') as [x Hx]. rewrite Hfi in Hx. discriminate. }
  assert (Hsnap : forall (k : nat) snap0, snap0 = match fd with Some i => fdata <$> (inos s0 !! i) | None => None end ->
            input_snap s0 rd snap0).
  { intros _ snap0 -> x Hx. destruct (Hfd x Hx) as (i & fin & -> & Hr & Hi).
    exists i, fin. split; [exact Hr|]. split; [exact Hi|]. rewrite Hi. reflexivity. }
  destruct Hop as [Hnew|Hrep].
  - destruct Hnew as (Hnone & -> & -> & Hofd & Hdir & Hino & Hwl & Hrds).
    intros [= <-]. exists d, perm_new. split; [exact Hd|]. split.
    { split; [intros [x Hx]; rewrite Hnone in Hx; discriminate|reflexivity]. }
    assert (Hf2 : inos s2 !! ofd = Some (File [] perm_new)) by (rewrite Hino; apply lookup_insert).
    destruct (run_body_spec fd ofd b s2 _ Hf2 (Hne Hofd)) as (H1 & H2 & (n & H3) & (k & H4)).
    cbn [fdata fmode app] in H2. subst ofd.
    split; [rewrite H1; exact Hdir|]. split; [rewrite H2, Hino; apply insert_insert|].
    split; [exists n; rewrite H3, Hwl; reflexivity|].
    exists k. eexists. split; [rewrite H4, Hrds; reflexivity|].
    apply (Hsnap 0). rewrite Hino. destruct fd as [i|]; [|reflexivity].
    rewrite lookup_insert_ne; [reflexivity|]. intros <-. apply (Hne eq_refl). reflexivity.
  - destruct Hrep as (i & f & Hr & Hi & Hofd & Ht & -> & Hdir & Hino & Hwl & Hrds).
    assert (Hf2 : inos s2 !! ofd = Some (File [] (fmode f))) by (rewrite Hino; apply lookup_insert).
    destruct (run_body_spec fd ofd b s2 _ Hf2 (Hne Hofd)) as (H1 & H2 & (n & H3) & (k & H4)).
    cbn [fdata fmode app] in H2.
    unfold rename. rewrite H1, Hdir, lookup_insert.
    intros [= <-]. cbn [idir inos wlog reads].
    exists d, (fmode f). split; [exact Hd|]. split.
    { split; [intros _; exists i, f; repeat split; assumption|].
      intros Hn. destruct (resolve_entry_exists _ _ _ Hr) as [x Hx]. rewrite Hn in Hx. discriminate. }
    subst ofd t.
    split; [rewrite delete_insert; [reflexivity|apply Hfe]|].
    split; [rewrite H2, Hino; apply insert_insert|].
    split; [exists (S n); rewrite H3, Hwl; apply repeat_snoc_app|].
    exists k. eexists. split; [rewrite H4, Hrds; reflexivity|].
    apply (Hsnap 0). rewrite Hino. destruct fd as [j|]; [|reflexivity].
    rewrite lookup_insert_ne; [reflexivity|]. intros <-. apply (Hne eq_refl). reflexivity.
Qed.

(* ---------- the property ---------- *)
Lemma success_publishes_proof rd inF outF b s0 s' :
  api_i rd inF outF b s0 = ROk tt s' ->
  exists d md inew, api_dest inF outF = Some d /\ mode_rule s0 d md /\
    idir s' !! sp_ent d = Some (DFile inew) /\ inos s' !! inew = Some (File (output_of b) md) /\
    (forall e, e <> sp_ent d -> idir s' !! e = idir s0 !! e).
Proof.
  intros H. destruct (api_i_spec _ _ _ _ _ _ H) as (d & md & Hd & Hm & Hdir & Hino & _ & _).
  exists d, md, (fresh_ino (inos s0)). split; [exact Hd|]. split; [exact Hm|].
  split; [rewrite Hdir; apply lookup_insert|]. split; [rewrite Hino; apply lookup_insert|].
  intros e Hne. rewrite Hdir. apply lookup_insert_ne. intros Heq. apply Hne. symmetry. exact Heq.
Qed.

Lemma preexisting_inodes_never_written_proof rd inF outF b s0 s' :
  wlog s0 = [] ->
  api_i rd inF outF b s0 = ROk tt s' ->
  (forall i, In i (wlog s') -> inos s0 !! i = None) /\
  (forall i f, inos s0 !! i = Some f -> inos s' !! i = Some f).
Proof.
  intros Hw0 H. destruct (api_i_spec _ _ _ _ _ _ H) as (d & md & _ & _ & _ & Hino & (n & Hwl) & _).
  split.
  - intros i Hin. rewrite Hwl, Hw0, app_nil_r in Hin. apply repeat_spec in Hin. subst i. apply Hfi.
  - intros i f Hi. rewrite Hino. rewrite lookup_insert_ne; [exact Hi|].
    intros <-. rewrite Hfi in Hi. discriminate.
Qed.

Lemma distinct_input_unchanged_proof x inF outF b s0 s' d i f :
  wlog s0 = [] ->
  api_i (Some x) inF outF b s0 = ROk tt s' ->
  api_dest inF outF = Some d -> sp_ent x <> sp_ent d ->
  idir s0 !! sp_ent x = Some (DFile i) -> inos s0 !! i = Some f ->
  idir s' !! sp_ent x = Some (DFile i) /\ inos s' !! i = Some f.
Proof.
  intros Hw0 H Hd Hne Hx Hi.
  destruct (success_publishes_proof _ _ _ _ _ _ H) as (d' & md & inew & Hd' & _ & _ & _ & Hothers).
  rewrite Hd in Hd'. injection Hd' as <-.
  split; [rewrite Hothers; [exact Hx|exact Hne]|].
  destruct (preexisting_inodes_never_written_proof _ _ _ _ _ _ Hw0 H) as [_ Hkeep]. apply Hkeep. exact Hi.
Qed.

Lemma alias_never_corrupts_read_proof x inF outF b s0 s' :
  reads s0 = [] ->
  api_i (Some x) inF outF b s0 = ROk tt s' ->
  exists i fin, resolve (idir s0) (sp_ent x) = Some i /\ inos s0 !! i = Some fin /\
    forall r, In r (reads s') -> r = Some (fdata fin).
Proof.
  intros Hr0 H. destruct (api_i_spec _ _ _ _ _ _ H) as (d & md & _ & _ & _ & _ & _ & (k & snap & Hrd & Hsnap)).
  destruct (Hsnap x eq_refl) as (i & fin & Hres & Hi & ->).
  exists i, fin. split; [exact Hres|]. split; [exact Hi|].
  intros r Hin. rewrite Hrd, Hr0, app_nil_r in Hin. apply repeat_spec in Hin. exact Hin.
Qed.

(* functions of a path string depend on the entry only *)
Lemma open_tmp_ent a c s : sp_ent a = sp_ent c -> open_tmp (Some a) s = open_tmp (Some c) s.
Proof. intros He. unfold open_tmp, stat. rewrite He. reflexivity. Qed.

(* output = another name of the input's inode (other spelling, hard link, symlink): the run is the
   in-place update of the OUTPUT name *)
Lemma alias_is_inplace_proof x o b s i :
  resolve (idir s) (sp_ent x) = Some i -> resolve (idir s) (sp_ent o) = Some i ->
  api_i (Some x) (Some x) (Some o) b s = api_i (Some o) (Some o) None b s.
Proof.
  intros Hx Ho. unfold api_i, open_rd. rewrite Hx, Ho.
  destruct (inos s !! i) as [fin|]; [|reflexivity].
  cbn [opt_sp_eqb]. destruct (sp_eqb x o) eqn:Eeq; cbn [negb].
  - apply sp_eqb_eq in Eeq. subst o. reflexivity.
  - unfold open_staged. cbn [opt_sp_eqb]. rewrite Eeq. cbn [negb]. unfold open_excl.
    destruct (resolve_entry_exists _ _ _ Ho) as [de ->]. reflexivity.
Qed.

(* … and when the output is another spelling of the input's own entry, that is the in-place update of the input *)
Lemma alias_spelling_is_inplace_proof x o b s i :
  sp_ent o = sp_ent x -> resolve (idir s) (sp_ent x) = Some i ->
  api_i (Some x) (Some x) (Some o) b s = api_i (Some x) (Some x) None b s.
Proof.
  intros He Hx. rewrite (alias_is_inplace_proof x o b s i Hx) by (rewrite He; exact Hx).
  unfold api_i, open_rd. rewrite He.
  destruct (resolve (idir s) (sp_ent x)) as [j|]; [|reflexivity].
  destruct (inos s !! j); [|reflexivity].
  unfold open_staged. rewrite (open_tmp_ent o x s He). reflexivity.
Qed.

(* outputAliasesInput answers true exactly when both strings denote the same entry or both resolve to the same inode *)
Lemma output_aliases_input_spec_proof x o s :
  output_aliases_input x o s = true <->
  (sp_ent x = sp_ent o \/
   exists i fi fo, resolve (idir s) (sp_ent x) = Some i /\ resolve (idir s) (sp_ent o) = Some i /\
                   inos s !! i = Some fi /\ inos s !! i = Some fo).
Proof.
  unfold output_aliases_input, abs_eqb, stat.
  destruct (Pos.eqb_spec (sp_ent x) (sp_ent o)) as [He|Hne].
  - split; [intros _; left; exact He|reflexivity].
  - split.
    + destruct (resolve (idir s) (sp_ent o)) as [io|] eqn:Eo; [|discriminate].
      destruct (inos s !! io) as [fo|] eqn:Efo; [|discriminate].
      destruct (resolve (idir s) (sp_ent x)) as [ii|] eqn:Ei; [|discriminate].
      destruct (inos s !! ii) as [fi|] eqn:Efi; [|discriminate].
      intros Heq. apply Pos.eqb_eq in Heq. subst ii. right. exists io, fi, fo. repeat split; assumption.
    + intros [He|(i & fi & fo & Hx & Ho & Hli & Hlo)]; [contradiction|].
      rewrite Ho, Hlo, Hx, Hli. apply Pos.eqb_refl.
Qed.

(* CopyFile onto another name of the same file does nothing *)
Lemma copy_same_file_noop_proof src dst s i f :
  resolve (idir s) (sp_ent src) = Some i -> resolve (idir s) (sp_ent dst) = Some i -> inos s !! i = Some f ->
  copy_file_i src dst s = ROk tt s.
Proof.
  intros Hs Hd Hi. unfold copy_file_i, open_rd, stat. rewrite Hs, Hi, Hd, Hi, Pos.eqb_refl. reflexivity.
Qed.

(* ---------- several inputs: the alias check runs over the LIST of inputs ---------- *)
Lemma reject_alias_spec_proof ins o s :
  reject_alias ins o s = true <->
  exists x, In x ins /\
    (sp_ent x = sp_ent o \/
     exists i fi fo, resolve (idir s) (sp_ent x) = Some i /\ resolve (idir s) (sp_ent o) = Some i /\
                     inos s !! i = Some fi /\ inos s !! i = Some fo).
Proof.
  unfold reject_alias. rewrite existsb_exists. split.
  - intros (x & Hin & Hal). exists x. split; [exact Hin|]. apply output_aliases_input_spec_proof. exact Hal.
  - intros (x & Hin & Hal). exists x. split; [exact Hin|]. apply output_aliases_input_spec_proof. exact Hal.
Qed.

(* a refused alias leaves everything as it was *)
Lemma multi_alias_refused_proof ins o b s :
  reject_alias ins o s = true ->
  multi_image_i ins o b s = RErr EEXIST s /\ import_images_i ins o b s = RErr EEXIST s.
Proof. intros H. unfold Model.multi_image_i, Model.import_images_i. rewrite H. split; reflexivity. Qed.

Lemma not_rejected_distinct ins o s x :
  reject_alias ins o s = false -> In x ins -> sp_ent x <> sp_ent o.
Proof.
  intros Hr Hin He. assert (reject_alias ins o s = true); [|congruence].
  apply reject_alias_spec_proof. exists x. split; [exact Hin|left; exact He].
Qed.

(* the destination of the runs below is the output name *)
Lemma api_dest_out inF o : (forall x, inF = Some x -> sp_ent x <> sp_ent o) -> api_dest inF (Some o) = Some o.
Proof.
  intros H. unfold api_dest. destruct inF as [x|]; cbn [opt_sp_eqb]; [|reflexivity].
  destruct (sp_eqb x o) eqn:E; [|reflexivity]. apply sp_eqb_eq in E. subst x. exfalso. apply (H o eq_refl). reflexivity.
Qed.

Lemma others_unchanged rd inF o b s0 s' x i f :
  wlog s0 = [] ->
  api_i rd inF (Some o) b s0 = ROk tt s' ->
  api_dest inF (Some o) = Some o -> sp_ent x <> sp_ent o ->
  idir s0 !! sp_ent x = Some (DFile i) -> inos s0 !! i = Some f ->
  idir s' !! sp_ent x = Some (DFile i) /\ inos s' !! i = Some f.
Proof.
  intros Hw0 H Hd Hne Hx Hi.
  destruct (success_publishes_proof _ _ _ _ _ _ H) as (d' & md & inew & Hd' & _ & _ & _ & Hothers).
  rewrite Hd in Hd'. injection Hd' as <-.
  split; [rewrite Hothers; [exact Hx|exact Hne]|].
  destruct (preexisting_inodes_never_written_proof _ _ _ _ _ _ Hw0 H) as [_ Hkeep]. apply Hkeep. exact Hi.
Qed.

(* a run that is not refused and succeeds leaves EVERY input (whatever its position) bound to the same inode
   with the same bytes and mode *)
Lemma multi_inputs_unchanged_proof ins o b s0 s' :
  wlog s0 = [] ->
  (multi_image_i ins o b s0 = ROk tt s' \/ import_images_i ins o b s0 = ROk tt s') ->
  forall x i f, In x ins -> idir s0 !! sp_ent x = Some (DFile i) -> inos s0 !! i = Some f ->
  idir s' !! sp_ent x = Some (DFile i) /\ inos s' !! i = Some f.
Proof.
  intros Hw0 Hrun x i f Hin Hx Hi.
  unfold Model.multi_image_i, Model.import_images_i in Hrun.
  destruct (reject_alias ins o s0) eqn:Hr; [destruct Hrun as [Hrun|Hrun]; discriminate Hrun|].
  pose proof (not_rejected_distinct ins o s0 x Hr Hin) as Hne.
  destruct Hrun as [Hrun|Hrun].
  - eapply others_unchanged; eauto. apply api_dest_out. intros h Hh.
    destruct ins as [|h' t]; [discriminate Hh|]. cbn in Hh. injection Hh as <-.
    apply (not_rejected_distinct _ _ _ _ Hr). left. reflexivity.
  - destruct (open_rd o s0) as [j sj|e sj].
    + eapply others_unchanged; eauto. unfold api_dest. cbn [opt_sp_eqb].
      replace (sp_eqb o o) with true; [reflexivity|]. unfold sp_eqb. rewrite Pos.eqb_refl, N.eqb_refl. reflexivity.
    + eapply others_unchanged; eauto.
Qed.

(* ---------- incremental writing (incr = true) ---------- *)
(* a distinctly spelled output: incr is ignored, the run IS the staged-output run *)
Lemma incr_distinct_out_proof x o b s :
  sp_eqb x o = false -> incr_api_i x (Some o) b s = api_i (Some x) (Some x) (Some o) b s.
Proof. intros H. unfold Model.incr_api_i. rewrite H. reflexivity. Qed.

(* hence the output is published and the distinctly named input is untouched *)
Lemma incr_distinct_input_unchanged_proof x o b s0 s' i f :
  wlog s0 = [] -> sp_ent x <> sp_ent o ->
  incr_api_i x (Some o) b s0 = ROk tt s' ->
  idir s0 !! sp_ent x = Some (DFile i) -> inos s0 !! i = Some f ->
  (idir s' !! sp_ent x = Some (DFile i) /\ inos s' !! i = Some f) /\
  exists md inew, idir s' !! sp_ent o = Some (DFile inew) /\ inos s' !! inew = Some (File (output_of b) md).
Proof.
  intros Hw0 Hne Hrun Hx Hi.
  assert (Hneq : sp_eqb x o = false).
  { destruct (sp_eqb x o) eqn:E; [|reflexivity]. apply sp_eqb_eq in E. subst o. exfalso. apply Hne. reflexivity. }
  rewrite (incr_distinct_out_proof x o b s0 Hneq) in Hrun.
  assert (Hd : api_dest (Some x) (Some o) = Some o) by (unfold api_dest; cbn [opt_sp_eqb]; rewrite Hneq; reflexivity).
  split.
  - eapply others_unchanged; eauto.
  - destruct (success_publishes_proof _ _ _ _ _ _ Hrun) as (d' & md & inew & Hd' & _ & H1 & H2 & _).
    rewrite Hd in Hd'. injection Hd' as <-. exists md, inew. split; assumption.
Qed.

(* outFile "" or the same string: the increment is appended to the input's own inode; names and modes stay *)
Lemma incr_inplace_appends_proof x outF b s0 s' :
  (outF = None \/ outF = Some x) ->
  incr_api_i x outF b s0 = ROk tt s' ->
  exists i f, resolve (idir s0) (sp_ent x) = Some i /\ inos s0 !! i = Some f /\
    idir s' = idir s0 /\ inos s' = <[i := File (fdata f ++ output_of b) (fmode f)]> (inos s0).
Proof.
  intros Hout. unfold Model.incr_api_i.
  replace (match outF with None => true | Some o => sp_eqb x o end) with true.
  2: { destruct Hout as [->| ->]; [reflexivity|]. unfold sp_eqb. rewrite Pos.eqb_refl, N.eqb_refl. reflexivity. }
  unfold open_rd. destruct (resolve (idir s0) (sp_ent x)) as [i|] eqn:Er; [|discriminate].
  destruct (inos s0 !! i) as [f|] eqn:Ei; [|discriminate].
  intros [= <-]. exists i, f. unfold write. rewrite Ei. cbn [idir inos]. repeat split; reflexivity.
Qed.

(* pdfcpu.WriteReader / WriteContext's file path (createStagedFile + finishStagedFile): on Ok the name is
   bound to a new inode with exactly the output; an existing regular destination keeps its mode whatever
   the umask (explicit chmod after the create), a new one gets 0666 &^ umask *)
Lemma write_reader_publishes_proof path b s0 s' :
  sp_ent path <> fresh_ent (idir s0) ->
  write_reader_i path b s0 = ROk tt s' ->
  exists md, idir s' = <[sp_ent path := DFile (fresh_ino (inos s0))]> (idir s0) /\
    inos s' = <[fresh_ino (inos s0) := File (output_of b) md]> (inos s0) /\
    (forall i f, idir s0 !! sp_ent path = Some (DFile i) -> inos s0 !! i = Some f -> md = fmode f) /\
    (idir s0 !! sp_ent path = None -> md = perm_new).
Proof.
  intros Hnt. unfold Model.write_reader_i, create_staged_file, create_temp.
  set (t := fresh_ent (idir s0)). set (inew := fresh_ino (inos s0)).
  set (s1 := IS (<[t := DFile inew]> (idir s0)) (<[inew := File [] perm_new]> (inos s0)) (wlog s0) (reads s0)).
  assert (Hres_file : forall i f, idir s0 !! sp_ent path = Some (DFile i) -> inos s0 !! i = Some f ->
            stat path s1 = ROk (i, f) s1).
  { intros i f Hp Hi. unfold stat, resolve. cbn [follow]. unfold s1 at 1. cbn [idir].
    rewrite lookup_insert_ne by (intros Heq; apply Hnt; symmetry; exact Heq). rewrite Hp.
    unfold s1 at 1. cbn [inos]. rewrite lookup_insert_ne by (intros <-; unfold inew in Hi; rewrite Hfi in Hi; discriminate).
    rewrite Hi. reflexivity. }
  assert (Hres_none : idir s0 !! sp_ent path = None -> exists e, stat path s1 = RErr e s1).
  { intros Hp. unfold stat, resolve. cbn [follow]. unfold s1 at 1. cbn [idir].
    rewrite lookup_insert_ne by (intros Heq; apply Hnt; symmetry; exact Heq). rewrite Hp. eauto. }
  assert (Hst : (exists j fi, stat path s1 = ROk (j, fi) s1) \/ (exists e, stat path s1 = RErr e s1)).
  { unfold stat. destruct (resolve (idir s1) (sp_ent path)) as [j|]; [|right; eauto].
    destruct (inos s1 !! j) as [fi|]; [left; eauto|right; eauto]. }
  assert (Hfin : forall md s2, idir s2 = idir s1 -> inos s2 = <[inew := File [] md]> (inos s0) ->
            rename t (sp_ent path) (run_body None inew b s2) = ROk tt s' ->
            idir s' = <[sp_ent path := DFile inew]> (idir s0) /\ inos s' = <[inew := File (output_of b) md]> (inos s0)).
  { intros md s2 Hd2 Hi2.
    assert (Hf2 : inos s2 !! inew = Some (File [] md)) by (rewrite Hi2; apply lookup_insert).
    destruct (run_body_spec None inew b s2 _ Hf2) as (H1 & H2 & _ & _); [discriminate|].
    cbn [fdata fmode app] in H2. unfold rename. rewrite H1, Hd2. unfold s1. cbn [idir]. rewrite lookup_insert.
    intros [= <-]. cbn [idir inos]. split.
    - rewrite delete_insert; [reflexivity|apply Hfe].
    - rewrite H2, Hi2. apply insert_insert. }
  destruct Hst as [(j & fi & Est)|(e & Est)]; rewrite Est.
  - unfold fchmod. unfold s1 at 1. cbn [inos]. rewrite lookup_insert. cbn [fdata].
    intros Hrun. exists (fmode fi).
    apply (Hfin (fmode fi)) in Hrun; [|reflexivity|cbn [inos]; unfold s1; cbn [inos]; apply insert_insert].
    destruct Hrun as [Hd Hi].
    split; [exact Hd|]. split; [exact Hi|]. split.
    + intros i f Hp Hif. rewrite (Hres_file i f Hp Hif) in Est. injection Est as <- <-. reflexivity.
    + intros Hp. destruct (Hres_none Hp) as [e Hs]. rewrite Hs in Est. discriminate.
  - intros Hrun. exists perm_new.
    destruct (Hfin perm_new s1 eq_refl eq_refl Hrun) as [Hd Hi].
    split; [exact Hd|]. split; [exact Hi|]. split.
    + intros i f Hp Hif. rewrite (Hres_file i f Hp Hif) in Est. discriminate.
    + intros _. reflexivity.
Qed.
End Proofs.
