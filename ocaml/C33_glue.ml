(* C33 glue: page-tree documents in the prefix encoding written by go/cmd/c33/pgdoc
     P id rot media crop res trim bleed art
     N rot media crop res k <k kids>
   rot = "-" | hex int; boxes = "-" | a,b,c,d (hex ints); res = 0|1. *)
open Model
open Common

let opt_z s = if s = "-" then None else Some (z_of_hex s)
let opt_rect s =
  if s = "-" then None else
  match String.split_on_char ',' s with
  | [a; b; c; d] -> Some (((z_of_hex a, z_of_hex b), z_of_hex c), z_of_hex d)
  | _ -> failwith "bad rect"

let rec sum_counts = function [] -> Z0 | k :: r -> ext_base_z (count_of k) (sum_counts r)

(* returns (tree, remaining tokens) *)
let rec parse_tree toks = match toks with
  | "P" :: id :: rot :: media :: crop :: res :: trim :: bleed :: art :: rest ->
    (Leaf { pg_id = z_of_hex id;
            pg_attrs = { a_rot = opt_z rot; a_media = opt_rect media; a_crop = opt_rect crop; a_res = (res = "1") };
            pg_trim = opt_rect trim; pg_bleed = opt_rect bleed; pg_art = opt_rect art }, rest)
  | "N" :: rot :: media :: crop :: res :: k :: rest ->
    let n = int_of_z (z_of_hex k) in
    let rec kids i toks acc = if i = 0 then (List.rev acc, toks) else
        let (t, toks') = parse_tree toks in kids (i - 1) toks' (t :: acc) in
    let (ks, rest') = kids n rest [] in
    (Node ({ a_rot = opt_z rot; a_media = opt_rect media; a_crop = opt_rect crop; a_res = (res = "1") },
           sum_counts ks, ks), rest')
  | _ -> failwith "bad tree encoding"

let tree_of_string s =
  let toks = List.filter (fun x -> x <> "") (String.split_on_char ' ' s) in
  match parse_tree toks with (t, []) -> t | _ -> failwith "trailing tokens"

let str_rect = function
  | None -> "-"
  | Some (((a, b), c), d) -> String.concat "," [hex_of_z a; hex_of_z b; hex_of_z c; hex_of_z d]

let str_vpage star v =
  if star && v.v_id = Z0 then "0:*" else
  String.concat ":" [hex_of_z v.v_id; hex_of_z v.v_rot; str_rect v.v_media; str_rect v.v_crop;
                     str_rect v.v_trim; str_rect v.v_bleed; str_rect v.v_art]

let str_pages star t = String.concat ";" (List.map (str_vpage star) (pages_of t))

let str_parts = function
  | Err -> "err"
  | Ok l -> "ok:" ^ String.concat "," (List.map (fun (f, t) -> hex_of_z f ^ "-" ^ hex_of_z t) l)

let str_docs = function
  | Err -> "err"
  | Ok l -> "ok:" ^ String.concat "|" (List.map (str_pages false) l)

let str_doc star = function
  | Err -> "err"
  | Ok t -> "ok:" ^ (if wf_count t then "" else "BADCOUNT:") ^ str_pages star t

let dispatch fn args = match fn, args with
  | "pages", [t] -> str_pages false (tree_of_string t)
  | "span_parts", [n; s] -> str_parts (span_parts (z_of_hex n) (z_of_hex s))
  | "along_parts", [n; l] -> str_parts (along_parts (z_of_hex n) (zlist_of_string l))
  | "split_span", [t; s] -> str_docs (split_span (tree_of_string t) (z_of_hex s))
  | "split_along", [t; l] -> str_docs (split_along (tree_of_string t) (zlist_of_string l))
  | "merge", d :: docs -> str_doc true (merge_create (List.map tree_of_string docs) (bool_of_str d))
  | "renumber", [dsize; nsrc] ->
    (* the fresh numbers handed to nsrc source objects for a destination of the given Size: min-max-count *)
    let n = int_of_z (z_of_hex nsrc) in
    let keys = List.init n (fun i -> z_of_int (i + 1)) in
    let nn = List.map int_of_z (new_numbers keys (z_of_hex dsize)) in
    if nn = [] then "none" else
      Printf.sprintf "%x-%x-%x" (List.fold_left min max_int nn) (List.fold_left max min_int nn)
        (List.length (List.sort_uniq compare nn))
  | "zip", [a; b] -> str_doc false (zip_merge (tree_of_string a) (tree_of_string b))
  | _ -> failwith ("unknown function " ^ fn)
let () = main dispatch
