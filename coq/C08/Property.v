(* C08 — Malformed input never crashes, overflows the stack or hangs  (PARTIAL: the guards).
   Property theorems only; each is closed by an exact lemma and followed by Print Assumptions.

   What is proved: the guards that bound recursion and iteration over attacker-controlled structure
   do bound it, on ALL inputs:  the page tree walk (PageTreeVisit + CheckRecursionDepth), the xref
   /Prev chain loop, the outline sibling scan, every depth-guarded descent, and the object parser.
   What is NOT proved (only searched by the harness): absence of nil dereferences, slice-bound and
   type-assertion panics in the code outside these guards, and traversals that have no guard. *)
From Coq Require Import NArith ZArith List Bool.
From PV Require Import C08.Model C08.ParseModel C08.ProofsWalk C08.ProofsChain C08.ProofsParse.
Import ListNotations.
Open Scope N_scope.

(* ---- page tree walk (XRefTable.PageNumber -> processPageTreeForPageNumberDepth) ---- *)

(* On ANY finite object table in which object 0 is free, fuel |objects|+1 is never exhausted:
   the ancestors/seen sets alone bound the recursion, whatever the depth limit is configured to. *)
Theorem page_tree_walk_terminates : forall fuel g maxd target root seen count,
  lookup g 0 = None -> (length g < fuel)%nat -> walk fuel g maxd target 0 root [] seen count <> WOOF.
Proof. exact walk_terminates_visit. Qed.
Print Assumptions page_tree_walk_terminates.

(* On any table at all (object 0 may be a page node, which Enter does not track) the depth check
   alone bounds the recursion by the effective limit + 2 frames. *)
Theorem page_tree_walk_terminates_by_depth : forall fuel g maxd target root anc seen count,
  (eff_depth maxd + 1 < Z.of_nat fuel)%Z -> walk fuel g maxd target 0 root anc seen count <> WOOF.
Proof. exact walk_terminates_depth. Qed.
Print Assumptions page_tree_walk_terminates_by_depth.

(* Hence XRefTable.PageNumber as modelled (fuel = max of the two bounds) is total on every table. *)
Theorem page_number_never_out_of_fuel : forall g maxd target root, page_number g maxd target root <> WOOF.
Proof. exact page_number_total. Qed.
Print Assumptions page_number_never_out_of_fuel.

(* The walk (looking for a page that is not there) comes back without error EXACTLY when the /Pages
   nodes reachable from the root unfold to a finite tree (no cycle) in which no node occurs twice
   (no duplicate), no kid is dangling or malformed, and the nesting is within the depth limit. *)
Theorem page_tree_walk_ok_iff : forall g maxd target root,
  (target < 0)%Z -> lookup g 0 = None -> root <> 0 ->
  ((exists s c, page_number g maxd target root = WNone s c) <->
   (exists t, Unfold g root t /\ NoDup (pre t) /\ (Z.of_nat (hgt t) <= eff_depth maxd + 1)%Z)).
Proof. exact walk_ok_iff. Qed.
Print Assumptions page_tree_walk_ok_iff.

(* ... and then it has entered each node once: at most |objects|+1 visits. *)
Theorem page_tree_walk_visits : forall g maxd target root s c,
  (target < 0)%Z -> lookup g 0 = None -> root <> 0 ->
  page_number g maxd target root = WNone s c -> NoDup s /\ (length s <= S (length g))%nat.
Proof. exact walk_visits_bound. Qed.
Print Assumptions page_tree_walk_visits.

(* `defer visit.Leave` restores the ancestors set (justifies the functional threading in Model.walk) *)
Theorem page_tree_leave_undoes_enter : forall n anc seen anc1 seen1,
  enter n anc seen = inr (anc1, seen1) -> leave n anc1 = anc.
Proof. exact leave_enter. Qed.
Print Assumptions page_tree_leave_undoes_enter.

(* ---- xref /Prev chain (buildXRefTableStartingAt) ---- *)

(* For ANY section reader and ANY fallback function: if the offsets at which a section with a /Prev
   can be read lie in a finite list D (they are positions in the file), the loop ends within |D|+1
   rounds, never re-reads an offset, and reads at most |D|+1 sections. *)
Theorem prev_chain_terminates : forall next alt D,
  (forall z p, next z = SNext p -> In z D) ->
  forall start,
  match prev_loop (S (length D)) next alt [] start with
  | COOF => False
  | CErr => True
  | CDone l | CCycle l => NoDup l /\ (length l <= S (length D))%nat
  end.
Proof. exact prev_loop_terminates. Qed.
Print Assumptions prev_chain_terminates.

(* ---- outline sibling list (scanAndFixOutlineItems) ---- *)

Theorem outline_sibling_scan_terminates : forall t seen first, sibling_list t seen first <> SOOF.
Proof. exact sibling_list_no_oof. Qed.
Print Assumptions outline_sibling_scan_terminates.

(* ---- any depth-guarded descent (name tree, number tree, outline children, structure tree, ...) ---- *)

(* Whatever the nesting of the input, no call is made with depth > effective limit + 1. *)
Theorem depth_guard_bounds_descent : forall t maxd depth,
  (depth <= eff_depth maxd + 1)%Z ->
  (depth <= fst (guarded_descent maxd depth t) <= eff_depth maxd + 1)%Z.
Proof. exact guarded_descent_bound. Qed.
Print Assumptions depth_guard_bounds_descent.

(* Non-vacuity of the guard: a nesting within the limit is not rejected. *)
Theorem depth_guard_accepts_within_limit : forall t maxd depth,
  (depth + rdepth t <= eff_depth maxd + 1)%Z -> snd (guarded_descent maxd depth t) = true.
Proof. exact guarded_descent_accepts. Qed.
Print Assumptions depth_guard_accepts_within_limit.

(* ---- object stream index (ObjectStreamDict.IndexedObject, reached from xref stream type 2 entries) ---- *)

(* The guard accepts exactly the indexes inside [0, len) of a non-nil array ... *)
Theorem indexed_object_guard_exact : forall arr_nil len index,
  indexed_ok arr_nil len index = true <-> arr_nil = false /\ (0 <= index < len)%Z.
Proof. exact indexed_ok_spec. Qed.
Print Assumptions indexed_object_guard_exact.

(* ... so the slice access behind it is in bounds for EVERY int index, including the negative values
   that an 8 byte wide xref stream field with its top bit set decodes to. *)
Theorem indexed_object_in_bounds : forall (A : Type) (arr : list A) index,
  indexed_ok false (Z.of_nat (length arr)) index = true ->
  exists x, nth_error arr (Z.to_nat index) = Some x.
Proof. exact indexed_ok_in_bounds. Qed.
Print Assumptions indexed_object_in_bounds.

Example C08_wide_field_example :
  buf_to_int64 [128; 0; 0; 0; 0; 0; 0; 0]%N = (-9223372036854775808)%Z
  /\ indexed_ok false 4 (buf_to_int64 [128; 0; 0; 0; 0; 0; 0; 0]%N) = false
  /\ buf_to_int64 [255; 255]%N = 65535%Z.
Proof. exact buf_top_bit_negative. Qed.

(* ---- BER length and end-of-contents (pkcs7/ber.go: readLength, isIndefiniteTermination) ---- *)

(* For EVERY byte string and EVERY int offset readLength makes no index or slice access outside
   [0, len); a returned length is >= 0 and the returned cursor lies in (offset, len]. *)
Theorem ber_read_length_in_bounds : forall ber offset, bytes_wf ber ->
  match read_length ber offset with
  | LOOB => False
  | LErr => True
  | LOk len _ next => (0 <= len)%Z /\ (offset < next <= Z.of_nat (length ber))%Z
  end.
Proof. exact read_length_safe. Qed.
Print Assumptions ber_read_length_in_bounds.

(* isIndefiniteTermination never reads outside [0, len) either (it needs BOTH octets to be there). *)
Theorem ber_eoc_check_in_bounds : forall ber offset, is_indef_term ber offset <> IOOB.
Proof. exact is_indef_term_safe. Qed.
Print Assumptions ber_eoc_check_in_bounds.

Example C08_ber_example :
  getb [48; 128; 2; 1; 1; 0]%N 6 = None /\ is_indef_term [48; 128; 2; 1; 1; 0]%N 5 = IErr.
Proof. exact is_indef_term_needs_two. Qed.

(* ---- detectMarker (model/parse.go: where an object's endobj / stream keyword is, in the 1 KiB read buffer) ---- *)

(* With the look-ahead behind "xref" guarded (`j >= 0 && j+4 < len(line)`), detectMarker reads only inside the
   buffer and its loop ends, for EVERY buffer content and both markers. *)
Theorem detect_marker_in_bounds : forall is_endobj line,
  match detect_marker true is_endobj line with DRes _ => True | _ => False end.
Proof. exact detect_marker_safe. Qed.
Print Assumptions detect_marker_in_bounds.

(* The code without that guard (`if j >= 0 { r := rune(line[j+4])`) reads one past the end on "endobjstartxref". *)
Theorem detect_marker_unguarded_refuted :
  detect_marker false true [101;110;100;111;98;106;115;116;97;114;116;120;114;101;102]%N = DOOB
  /\ detect_marker true true [101;110;100;111;98;106;115;116;97;114;116;120;114;101;102]%N = DRes (-1).
Proof. exact detect_marker_unguarded_oob. Qed.
Print Assumptions detect_marker_unguarded_refuted.

(* ---- Flate predictor parameters (filter/flateDecode.go: parameters, validatePredictor, predictorRowParams) ---- *)

(* For ALL /DecodeParms values (absent, negative, zero, huge): parameters accepted by the predictor stage have
   Colors, row size, row length and bytes per pixel >= 1, so every division of the stage (len(row)/colors,
   b.Len()%rowSize) is by a non-zero value and no row buffer is empty. *)
Theorem flate_params_accepted_nonzero : forall predictor colors bpc columns c rs rl bpp,
  post_process_params predictor colors bpc columns = PPRows c rs rl bpp ->
  (1 <= c /\ 1 <= rs /\ 1 <= rl /\ 1 <= bpp)%Z.
Proof. exact post_process_params_pos. Qed.
Print Assumptions flate_params_accepted_nonzero.

Example C08_flate_params_example :
  post_process_params (Some 2%Z) (Some 0%Z) None None = PPErr /\
  post_process_params (Some 2%Z) (Some 1%Z) None None = PPRows 1 1 1 1 /\
  post_process_params (Some 12%Z) (Some 3%Z) (Some 8%Z) (Some 5%Z) = PPRows 3 15 16 3 /\
  post_process_params (Some 1%Z) (Some 0%Z) None None = PPass.
Proof. exact post_process_params_examples. Qed.

(* ---- cmap format 4 segment arrays (font/install.go: prepareCMapFormat4) ---- *)

(* For ALL header values: a layout that prepareCMapFormat4 accepts covers the endCode, startCode, idDelta AND
   idRangeOffset arrays — every 2-byte read for a segment below segCount is inside the declared length, which
   is inside the available data. *)
Theorem cmap4_segment_arrays_in_bounds : forall avail format declared segx2 size n e st d rg,
  (0 <= segx2)%Z ->
  cmap4_layout avail format declared segx2 = Some (size, n, e, st, d, rg) ->
  (size <= avail)%Z /\ (1 <= n)%Z /\
  forall s, (0 <= s < n)%Z ->
    (0 <= e + 2 * s /\ e + 2 * s + 2 <= size)%Z /\ (0 <= st + 2 * s /\ st + 2 * s + 2 <= size)%Z /\
    (0 <= d + 2 * s /\ d + 2 * s + 2 <= size)%Z /\ (0 <= rg + 2 * s /\ rg + 2 * s + 2 <= size)%Z.
Proof. exact cmap4_layout_in_bounds. Qed.
Print Assumptions cmap4_segment_arrays_in_bounds.

Example C08_cmap4_example :
  cmap4_layout 24 4 22 2 = None /\ cmap4_layout 24 4 24 2 = Some (24, 1, 14, 18, 20, 22)%Z.
Proof. exact cmap4_layout_example. Qed.

(* ---- the object parser (ParseObjectContext / parseObjectContext / parseArray / parseDict) ---- *)

(* For ALL byte strings, all limits and start levels, and whatever the token-level readers do: no call
   of parseObjectContext is made at a level above the effective limit + 1 (mx = deepest level entered). *)
Theorem parse_depth_bounded : forall trim tls pname leaf maxd level l,
  (level <= eff_depth maxd + 1)%Z ->
  mx_in (parse_top trim tls pname leaf maxd level l) level (eff_depth maxd + 1).
Proof. exact parse_top_depth. Qed.
Print Assumptions parse_depth_bounded.

(* The parser is total on all byte strings (fuel 2*len+2 is never exhausted: result or error), provided
   the token-level readers return no longer a line than they got and a successful read consumes
   at least one byte (they return Go substrings l[i:]). *)
Theorem parse_total : forall trim tls pname leaf,
  (forall l, (length (trim l) <= length l)%nat) ->
  (forall r l, (length (fst (tls r l)) <= length l)%nat) ->
  (forall l r, l <> [] -> pname l = (true, r) -> (length r < length l)%nat) ->
  (forall l r, pname l = (false, r) -> (length r <= length l)%nat) ->
  (forall l r, leaf l = Some r -> (length r < length l)%nat) ->
  forall maxd level l, parse_top trim tls pname leaf maxd level l <> POOF.
Proof. exact parse_top_total. Qed.
Print Assumptions parse_total.

(* a toy instance (single-byte tokens) showing both outcomes of the guard *)
Definition toy_trim (l : bytes) : bytes := l.
Definition toy_tls (r : bool) (l : bytes) : bytes * bool := (l, false).
Definition toy_pname (l : bytes) : bool * bytes := match l with 47 :: t => (true, t) | _ => (false, l) end.
Definition toy_leaf (l : bytes) : option bytes := match l with _ :: t => Some t | [] => None end.
Example C08_parse_examples :
  parse_top toy_trim toy_tls toy_pname toy_leaf 2 0 [91; 91; 120; 93; 93] = POk [] 2
  /\ parse_top toy_trim toy_tls toy_pname toy_leaf 2 0 [91; 91; 91; 120; 93; 93; 93] = PErr PDepth 3
  /\ parse_top toy_trim toy_tls toy_pname toy_leaf 2 0 [60; 60; 47; 60; 60; 47; 120; 62; 62; 62; 62] = POk [] 2
  /\ parse_top toy_trim toy_tls toy_pname toy_leaf 1 0 [60; 60; 47; 60; 60; 47; 120; 62; 62; 62; 62] = PErr PDepth 2.
Proof. vm_compute. repeat split; reflexivity. Qed.

(* ---- non-vacuity / examples ---- *)
Definition ex_tree_g : graph :=
  [(1, NDict TPages [KRef 2; KNull; KRef 3]); (2, NDict TPage []); (3, NDict TPages [KRef 4]); (4, NDict TPage [])].
Definition ex_cycle_g : graph := [(1, NDict TPages [KRef 2]); (2, NDict TPages [KRef 1])].
Definition ex_dup_g : graph := [(1, NDict TPages [KRef 2; KRef 2]); (2, NDict TPages [])].
Definition ex_zero_g : graph := [(0, NDict TPages [KRef 0])].     (* object 0 in use: only the depth check stops it *)
Example C08_walk_examples :
  page_number ex_tree_g 0 (-1) 1 = WNone [3; 1] 2 /\ page_number ex_tree_g 0 4 1 = WFound 2
  /\ page_number ex_cycle_g 0 (-1) 1 = WErr ECycle /\ page_number ex_dup_g 0 (-1) 1 = WErr EDup
  /\ walk 200 ex_zero_g 5 (-1) 0 0 [] [] 0 = WErr EDepth
  /\ Unfold ex_tree_g 1 (T 1 [T 3 []]) /\ lookup ex_tree_g 0 = None.
Proof.
  repeat split; try (vm_compute; reflexivity); try discriminate.
  - eapply UK_page; [reflexivity|]. apply UK_null. eapply UK_pages; [reflexivity | | apply UK_nil].
    constructor; [discriminate|]. eapply UK_page; [reflexivity | apply UK_nil].
Qed.
Example C08_chain_examples :
  prev_chain [(100, SNext 50); (50, SNext 100)]%Z [(100, 100)]%Z 100 = CCycle [50; 100]%Z
  /\ prev_chain [(100, SNext 50); (50, SEnd)]%Z [] 100 = CDone [50; 100]%Z
  /\ sibling_list [(1, Some 2); (2, Some 1)] [] (Some 1) = SCircular
  /\ guarded_descent 2 0 (Rose [Rose [Rose [Rose [Rose []]]]]) = (3%Z, false)
  /\ guarded_descent 2 0 (Rose [Rose [Rose []]]) = (2%Z, true).
Proof. vm_compute. repeat split; reflexivity. Qed.
