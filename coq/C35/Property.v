(* C35 — Document metadata edits behave like a simple key/value store.
   Property theorems only; each is closed by an exact lemma and followed by Print Assumptions.

   run d h        the persisted document after the API calls of history h (Model.step per call)
   observe d      what Keywords / Properties / PageLayout / PageMode / ViewerPreferences /
                  Attachments list for d (None: the document no longer validates)
   arun s h       the abstract key/value store after the same edits (Model.astep)
   Rel d s        the document d stores exactly s (ProofsSim.Rel); Rel holds for the empty
                  document and is kept by every well-formed step
   wf_op o        the inputs of o are in the domain: keywords without , ; CR and without outer
                  blanks (open defect (i)); property names are byte strings without NUL (open
                  finding) other than Title/Author/Subject/Creator/AAPL:Keywords (own Info
                  entries, not "properties"); viewer preference fields hold values of their
                  enumerations.
   xmp_ok d h     the catalog XMP packet of d contributes no keyword, or h never uses "remove all
                  properties" (which also drops the packet: pdfcpu documents that it removes "all
                  properties and catalog XMP metadata")
   Full statement for keywords (false for pdfcpu today, see C35_keyword_separator_refuted): the
   same without wfk. *)
From Coq Require Import NArith List Bool.
From PV Require Import C35.Model C35.ProofsStr C35.ProofsKw C35.ProofsName C35.ProofsSim C35.Proofs.
Import ListNotations.
Open Scope N_scope.

(* For ANY history of edits, of any length, listing afterwards returns exactly the abstract store. *)
Theorem C35_history_partial : forall h d s, Rel d s ->
  Forall (fun o => wf_op o = true) h -> fresh_adds h s = true -> xmp_ok d h ->
  observe (run d h) = Some (arun s h).
Proof. exact history_refines. Qed.
Print Assumptions C35_history_partial.

Theorem C35_history_from_empty_partial : forall h,
  Forall (fun o => wf_op o = true) h -> fresh_adds h (empty_store 17) = true ->
  observe (run (empty_doc 17) h) = Some (arun (empty_store 17) h).
Proof. exact history_from_empty. Qed.
Print Assumptions C35_history_from_empty_partial.

(* starting from a document whose Info dictionary and catalog XMP packet both carry keywords:
   the store starts with their union, by-name removals of XMP keywords included *)
Theorem C35_history_from_xmp_partial : forall kw x h, let d := init_doc 17 true kw x in
  Forall (fun k => wfk k = true) (kw_read d) ->
  Forall (fun o => wf_op o = true) h -> fresh_adds h (init_store d) = true -> xmp_ok d h ->
  observe (run d h) = Some (arun (init_store d) h).
Proof. exact history_from_xmp. Qed.
Print Assumptions C35_history_from_xmp_partial.

(* one step keeps the representation invariant *)
Theorem C35_step_refines_partial : forall d s o, Rel d s -> wf_op o = true -> fresh_op s o -> safe_op d o ->
  Rel (fst (step d o)) (astep s o).
Proof. exact step_rel. Qed.
Print Assumptions C35_step_refines_partial.

(* an added attachment is extracted byte for byte, whatever other metadata edits follow *)
Theorem C35_extract_returns_added : forall d s id desc data h,
  Rel d s -> m_mem id (s_att s) = false ->
  Forall (fun o => wf_op o = true) h -> forallb (fun o => negb (att_op o)) h = true ->
  xmp_ok d (AAdd id desc data :: h) ->
  extract (run d (AAdd id desc data :: h)) id = Some data.
Proof. exact extract_returns_added. Qed.
Print Assumptions C35_extract_returns_added.

(* attachments are a key/value store: after add(k, v), extracting k returns v regardless of
   the file names and descriptions of all the other entries (the store s is arbitrary) *)
Theorem C35_extract_after_add : forall d s k desc v,
  Rel d s -> m_mem k (s_att s) = false -> extract (fst (step d (AAdd k desc v))) k = Some v.
Proof. exact extract_after_add. Qed.
Print Assumptions C35_extract_after_add.

(* name resolution: the exact name tree key first ... *)
Theorem C35_extract_key_first : forall d s k v, Rel d s -> m_get k (s_att s) = Some v ->
  extract d k = Some (a_data v).
Proof. exact extract_key_wins. Qed.
Print Assumptions C35_extract_key_first.

Theorem C35_lookup_key_first : forall k v (m : atts), m_get k m = Some v -> att_find k m = Some (k, v).
Proof. exact att_find_key_first. Qed.
Print Assumptions C35_lookup_key_first.

(* ... a file name (UF/F) or description only when no key matches *)
Theorem C35_lookup_fallback_only_without_key : forall p (m : atts) k v,
  att_find p m = Some (k, v) -> k <> p -> m_get p m = None /\ (a_fname v = p \/ a_desc v = p).
Proof. exact att_find_fallback. Qed.
Print Assumptions C35_lookup_fallback_only_without_key.

(* a.txt carries the description "b.txt" and sorts before the attachment b.txt: extracting
   "b.txt" returns b.txt's bytes; only after b.txt is removed does the description match *)
Theorem C35_extract_key_before_description :
  let h := [AAdd [97; 46; 116; 120; 116] [98; 46; 116; 120; 116] [1; 1]; AAdd [98; 46; 116; 120; 116] [] [2; 2]] in
  extract (run (empty_doc 17) h) [98; 46; 116; 120; 116] = Some [2; 2]
  /\ extract (run (empty_doc 17) (h ++ [ARemove [[98; 46; 116; 120; 116]]])) [98; 46; 116; 120; 116] = Some [1; 1].
Proof. exact extract_key_before_description. Qed.
Print Assumptions C35_extract_key_before_description.

(* the concrete codecs behind the refinement *)
Theorem C35_keywords_roundtrip : forall ks, ssorted ks -> Forall (fun k => wfk k = true) ks ->
  kw_of_text (join ks) = ks.
Proof. exact kw_of_text_join. Qed.
Print Assumptions C35_keywords_roundtrip.

Theorem C35_name_roundtrip : forall s, Forall byte_nz s -> decode_name (encode_name s) = Some s.
Proof. exact decode_encode_name. Qed.
Print Assumptions C35_name_roundtrip.

(* an operation of one kind does not disturb what the other kinds list *)
Theorem C35_kinds_independent : forall s o,
  (kw_op o = false -> s_kw (astep s o) = s_kw s) /\
  (pr_op o = false -> s_pr (astep s o) = s_pr s) /\
  (pl_op o = false -> s_pl (astep s o) = s_pl s) /\
  (pm_op o = false -> s_pm (astep s o) = s_pm s) /\
  (vp_op o = false -> s_vp (astep s o) = s_vp s) /\
  (att_op o = false -> s_att (astep s o) = s_att s).
Proof. exact astep_independent. Qed.
Print Assumptions C35_kinds_independent.

(* the store is a set / a map: re-adding changes nothing, a removed key is absent *)
Theorem C35_readd_idempotent : forall s ks, ssorted (s_kw s) ->
  astep (astep s (KAdd ks)) (KAdd ks) = astep s (KAdd ks).
Proof. exact kadd_idempotent. Qed.
Print Assumptions C35_readd_idempotent.

Theorem C35_remove_then_absent : forall s ks k, ks <> [] -> no_blank ks = true -> In k ks ->
  ~ In k (s_kw (astep s (KRemove ks))).
Proof. exact kremove_absent. Qed.
Print Assumptions C35_remove_then_absent.

Theorem C35_property_remove_then_absent : forall s k, prem_valid [k] = true ->
  m_get k (s_pr (astep s (PRemove [k]))) = None.
Proof. exact premove_absent. Qed.
Print Assumptions C35_property_remove_then_absent.

Theorem C35_spec_is_set : forall k l x, (In x (set_ins k l) <-> x = k \/ In x l) /\ (ssorted l -> ssorted (set_ins k l)).
Proof. intros k l x. split; [apply set_ins_In|apply set_ins_sorted]. Qed.
Print Assumptions C35_spec_is_set.

(* the keyword hypothesis cannot be dropped: a genuine open defect of pdfcpu, reproduced by the harness *)
Theorem C35_keyword_separator_refuted :
  observe (run (empty_doc 17) [KAdd [[97; 44; 98]]]) = Some (Store 17 [[97]; [98]] [] None None None []).
Proof. exact kw_history_refuted. Qed.
Print Assumptions C35_keyword_separator_refuted.

(* a keyword that only the XMP packet carries stays removed after a by-name removal: the
   packet is scrubbed (finalizeKeywords) *)
Theorem C35_xmp_remove_by_name :
  let d := init_doc 17 true (Some [105; 49]) (Some (Some [120; 49; 59; 32; 120; 50])) in
  kw_read d = [[105; 49]; [120; 49]; [120; 50]]
  /\ observe (run d [KRemove [[120; 49]]]) = Some (Store 17 [[105; 49]; [120; 50]] [] None None None [])
  /\ d_xmp (run d [KRemove [[120; 49]]]) = Some None.
Proof. exact xmp_remove_by_name. Qed.
Print Assumptions C35_xmp_remove_by_name.

(* xmp_ok cannot be dropped; and without an Info dictionary a listed keyword cannot be removed *)
Theorem C35_prall_drops_xmp_keywords_refuted :
  let d := init_doc 17 true None (Some (Some [120; 49])) in
  kw_read d = [[120; 49]]
  /\ observe (run d [PRemove []]) = Some (Store 17 [] [] None None None []).
Proof. exact prall_drops_xmp_keywords. Qed.
Print Assumptions C35_prall_drops_xmp_keywords_refuted.

Theorem C35_remove_without_info_refuted :
  let d := init_doc 17 false None (Some (Some [120; 49])) in
  kw_read d = [[120; 49]]
  /\ last_ok d [KRemove [[120; 49]]] = false
  /\ observe (run d [KRemove [[120; 49]]]) = Some (Store 17 [[120; 49]] [] None None None []).
Proof. exact no_info_remove_refused. Qed.
Print Assumptions C35_remove_without_info_refuted.

(* the three repaired defects stay repaired in the model: '#' in a name, "remove all" with a
   name that needs an escape, NFSPageModeUseOC *)
Theorem C35_repaired_regressions :
  observe (run (empty_doc 17) [PAdd [([65; 35; 66], [118])]])
  = Some (Store 17 [] [([65; 35; 66], [118])] None None None [])
  /\ observe (run (empty_doc 17) [PAdd [([97; 32; 98], [118])]; PRemove []])
     = Some (Store 17 [] [] None None None [])
  /\ observe (run (empty_doc 17) [VSet [None;None;None;None;None;None;Some 4;None;None;None;None;None;None;None;None;None]])
     = Some (Store 17 [] [] None None (Some [None;None;None;None;None;None;Some 4;None;None;None;None;None;None;None;None;None]) []).
Proof. exact repaired_regressions. Qed.
Print Assumptions C35_repaired_regressions.

(* non-vacuity: a well-formed history with Unicode text over every kind, the relation holds
   initially, and the listing is the non-trivial store *)
Definition nv_hist : list op :=
  [ KAdd [[1082; 1083; 1102; 1095]; [105; 110; 32; 110; 101; 114]];       (* "ключ", "in ner" *)
    PAdd [([208; 154; 32; 35; 40], [26085; 26412; 32; 92; 41])];          (* name bytes "К #(" *)
    LSet 3; MSet 4;
    VSet [Some 1;None;None;None;None;None;Some 4;Some 1;None;None;None;None;None;None;None;Some 2];
    AAdd [97; 46; 116] [107] [0; 255; 10];
    KRemove [[1082; 1083; 1102; 1095]];
    PAdd [([107], [118])];
    PAdd [([122; 32; 122], [119])]; PRemove [[107]] ].

Example C35_nonvacuous :
  Rel (empty_doc 17) (empty_store 17)
  /\ Forall (fun o => wf_op o = true) nv_hist
  /\ fresh_adds nv_hist (empty_store 17) = true
  /\ observe (run (empty_doc 17) nv_hist)
     = Some (Store 17 [[105; 110; 32; 110; 101; 114]]
                   [([122; 32; 122], [119]); ([208; 154; 32; 35; 40], [26085; 26412; 32; 92; 41])]
                   (Some 3) (Some 4)
                   (Some [Some 1;None;None;None;None;None;Some 4;Some 1;None;None;None;None;None;None;None;Some 2])
                   [([97; 46; 116], ([97; 46; 116], [107], [0; 255; 10]))])
  /\ extract (run (empty_doc 17) nv_hist) [97; 46; 116] = Some [0; 255; 10]
  /\ observe (run (empty_doc 17) (nv_hist ++ [PRemove []]))
     = Some (Store 17 [[105; 110; 32; 110; 101; 114]] [] (Some 3) (Some 4)
                   (Some [Some 1;None;None;None;None;None;Some 4;Some 1;None;None;None;None;None;None;None;Some 2])
                   [([97; 46; 116], ([97; 46; 116], [107], [0; 255; 10]))])
  /\ Forall (fun o => wf_op o = true) (nv_hist ++ [PRemove []])
  /\ (let d := init_doc 17 true (Some [105; 49; 44; 32; 120; 50]) (Some (Some [120; 49; 59; 32; 120; 50])) in
      Forall (fun k => wfk k = true) (kw_read d) /\ xmp_ok d (KRemove [[120; 49]] :: nv_hist)
      /\ s_kw (arun (init_store d) (KRemove [[120; 49]] :: nv_hist)) = [[105; 49]; [105; 110; 32; 110; 101; 114]; [120; 50]]).
Proof.
  split; [apply rel_empty|].
  split; [repeat constructor|].
  split; [vm_compute; reflexivity|].
  split; [vm_compute; reflexivity|].
  split; [vm_compute; reflexivity|].
  split; [vm_compute; reflexivity|].
  split; [repeat constructor|].
  split; [vm_compute; repeat constructor|]. split; [right; vm_compute; reflexivity|vm_compute; reflexivity].
Qed.
