(* C38: removeArtifacts on a stream that carries one pdfcpu watermark block; fuel; idempotence. *)
From Coq Require Import List NArith Bool Lia.
From PV Require Import C38.Model C38.ProofsIndex.
Import ListNotations.
Open Scope N_scope.

(* ---- character classes ---- *)
Definition digitb (b : N) : bool := (48 <=? b) && (b <=? 57).
(* what fmt "%.5f" can print for a finite number, plus the separating blanks *)
Definition numch (b : N) : bool := digitb b || (b =? 46) || (b =? 45) || (b =? 43) || (b =? 32).

(* the watermark parameters pdfcpu generates: six formatted numbers, resource names GS<digits> / Fm<digits> *)
Definition wm_ok (mtx x y : bytes) : bool :=
  forallb numch mtx && forallb digitb x && forallb digitb y
  && negb (match x with [] => true | _ => false end) && negb (match y with [] => true | _ => false end).

Definition ne (h : N) (b : N) : bool := negb (b =? h).

Lemma forallb_impl (f g : N -> bool) u : (forall b, f b = true -> g b = true) -> forallb f u = true -> forallb g u = true.
Proof.
  intros Hfg. induction u as [|b u IH]; simpl; [reflexivity|]. intros H. apply andb_true_iff in H.
  destruct H as [H1 H2]. rewrite (Hfg b H1), (IH H2). reflexivity.
Qed.

Lemma digit_ne h : digitb h = false -> forall b, digitb b = true -> ne h b = true.
Proof. intros Hh b Hb. unfold ne. destruct (N.eqb_spec b h) as [->|]; [congruence|reflexivity]. Qed.
Lemma numch_ne h : numch h = false -> forall b, numch b = true -> ne h b = true.
Proof. intros Hh b Hb. unfold ne. destruct (N.eqb_spec b h) as [->|]; [congruence|reflexivity]. Qed.

Lemma ne_self h : ne h h = false.
Proof. unfold ne. rewrite N.eqb_refl. reflexivity. Qed.

(* ---- the marker ---- *)
Lemma marker_not_Q : ~ In 81 marker.
Proof. unfold marker. simpl. intuition discriminate. Qed.
Lemma marker_not_end_sp : forall p0, marker <> p0 ++ [32].
Proof.
  intros p0 H. apply (f_equal (fun l => last l 0)) in H. rewrite last_last in H.
  vm_compute in H. discriminate.
Qed.
Lemma marker_cons : marker = 47 :: tl marker.
Proof. reflexivity. Qed.
Lemma emc_cons : emc = 69 :: tl emc.
Proof. reflexivity. Qed.

(* a clean c stays clean between " q " and " Q " + blanks, and the marker cannot start inside it *)
Lemma starts_free_marker_class u w : forallb (ne 47) u = true -> starts_free marker u w.
Proof. intros H. rewrite marker_cons. apply (starts_free_class (ne 47)); [exact H|apply ne_self]. Qed.

Lemma starts_free_marker_clean c w : noocc marker c -> starts_free marker c (s_q_close ++ w).
Proof.
  intros Hc. change (s_q_close ++ w) with (32 :: 81 :: 32 :: w).
  apply starts_free_clean; [exact Hc|exact marker_not_Q|exact marker_not_end_sp].
Qed.

Lemma noocc_marker_class u : forallb (ne 47) u = true -> noocc marker u.
Proof. intros H. rewrite marker_cons. apply (noocc_class (ne 47)); [exact H|apply ne_self]. Qed.

(* ---- resource ids ---- *)
Lemma res_id_eq pre suf idp t a b x r :
  index_split pre t = Some (a, b) -> a <> [] -> index_split suf (skipn 3 b) = Some (x, r) -> x <> [] ->
  res_id pre suf idp t = [idp ++ x].
Proof.
  intros H1 Ha H2 Hx. unfold res_id. rewrite H1. destruct a as [|a0 a]; [contradiction|].
  rewrite H2. destruct x as [|x0 x]; [contradiction|]. reflexivity.
Qed.

Lemma remove_loop_once fuel s s' g f : fuel <> [] -> remove_step s = Some (s', g, f) -> remove_step s' = None ->
  remove_loop fuel s false [] [] = Some {| rm_found := true; rm_content := s'; rm_gs := g; rm_fm := f |}.
Proof.
  intros Hne H1 H2. destruct fuel as [|b fuel]; [contradiction|]. cbn [remove_loop]. rewrite H1.
  destruct fuel; cbn [remove_loop]; rewrite H2; reflexivity.
Qed.

Section Block.
  Variables mtx x y : bytes.
  Hypothesis Hok : wm_ok mtx x y = true.

  Let gs := id_gs ++ x.
  Let xo := id_fm ++ y.

  Lemma ok_mtx : forallb numch mtx = true.
  Proof. pose proof Hok as Hk. unfold wm_ok in Hk. repeat (apply andb_true_iff in Hk; destruct Hk as [Hk ?]). assumption. Qed.
  Lemma ok_x : forallb digitb x = true.
  Proof. pose proof Hok as Hk. unfold wm_ok in Hk. repeat (apply andb_true_iff in Hk; destruct Hk as [Hk ?]). assumption. Qed.
  Lemma ok_y : forallb digitb y = true.
  Proof. pose proof Hok as Hk. unfold wm_ok in Hk. repeat (apply andb_true_iff in Hk; destruct Hk as [Hk ?]). assumption. Qed.
  Lemma ok_xne : x <> [].
  Proof.
    pose proof Hok as Hk. unfold wm_ok in Hk. repeat (apply andb_true_iff in Hk; destruct Hk as [Hk ?]).
    destruct x; [discriminate|discriminate].
  Qed.
  Lemma ok_yne : y <> [].
  Proof.
    pose proof Hok as Hk. unfold wm_ok in Hk. repeat (apply andb_true_iff in Hk; destruct Hk as [Hk ?]).
    destruct y; [discriminate|discriminate].
  Qed.

  Lemma all_ne h : numch h = false -> digitb h = false ->
    forallb (ne h) mtx = true /\ forallb (ne h) x = true /\ forallb (ne h) y = true.
  Proof.
    intros Hn Hd. repeat split.
    - apply (forallb_impl numch); [apply numch_ne; exact Hn|exact ok_mtx].
    - apply (forallb_impl digitb); [apply digit_ne; exact Hd|exact ok_x].
    - apply (forallb_impl digitb); [apply digit_ne; exact Hd|exact ok_y].
  Qed.

  (* no 'E' between the marker and its EMC *)
  Lemma body_no_E : forallb (ne 69) (marker ++ wm_body mtx gs xo) = true.
  Proof.
    destruct (all_ne 69 eq_refl eq_refl) as [H1 [H2 H3]].
    unfold wm_body, gs, xo. repeat rewrite forallb_app. rewrite H1, H2, H3. reflexivity.
  Qed.

  Lemma split_emc w :
    index_split emc (marker ++ wm_body mtx gs xo ++ emc ++ w) = Some (marker ++ wm_body mtx gs xo, emc ++ w).
  Proof.
    rewrite (app_assoc marker). apply index_split_first.
    - rewrite emc_cons. apply (starts_free_class (ne 69)); [exact body_no_E|apply ne_self].
    - apply prefixb_app.
  Qed.

  Definition s_cm0 : bytes := [32; 99; 109; 32].       (* " cm " *)
  Definition s_gs0 : bytes := [32; 103; 115; 32].      (* " gs " *)
  Definition P1 : bytes := marker ++ s_bdc_q ++ mtx ++ s_cm0.
  Definition P2 : bytes := P1 ++ p_gs ++ x ++ s_gs0.

  Lemma body_P1 : marker ++ wm_body mtx gs xo = P1 ++ p_gs ++ x ++ s_gs ++ xo ++ s_do.
  Proof. unfold wm_body, gs, P1. repeat rewrite <- app_assoc. reflexivity. Qed.
  Lemma body_P2 : marker ++ wm_body mtx gs xo = P2 ++ p_fm ++ y ++ s_do.
  Proof. unfold wm_body, gs, xo, P2, P1. repeat rewrite <- app_assoc. reflexivity. Qed.

  Lemma sf_P1 (p : bytes) p' w : p = 47 :: p' -> (length p <= 4)%nat -> sfb p marker s_bdc_q = true ->
    starts_free p P1 w.
  Proof.
    intros Hp Hl Hb. destruct (all_ne 47 eq_refl eq_refl) as [H1 _].
    unfold P1. apply starts_free_app.
    - rewrite <- app_assoc. apply starts_free_compute; [exact Hl|exact Hb].
    - rewrite Hp. apply (starts_free_class (ne 47)); [|apply ne_self].
      repeat rewrite forallb_app. rewrite H1. reflexivity.
  Qed.

  (* the ExtGState name found between "/GS" and " gs" *)
  Lemma gs_id : res_id p_gs suf_gs id_gs (marker ++ wm_body mtx gs xo) = [gs].
  Proof.
    rewrite body_P1.
    apply (res_id_eq _ _ _ _ P1 (p_gs ++ x ++ s_gs ++ xo ++ s_do) x (s_gs ++ xo ++ s_do)).
    - apply index_split_first; [|apply prefixb_app].
      apply (sf_P1 p_gs (tl p_gs)); [reflexivity|simpl; lia|reflexivity].
    - unfold P1, marker. discriminate.
    - change (skipn 3 (p_gs ++ x ++ s_gs ++ xo ++ s_do)) with (x ++ s_gs ++ xo ++ s_do).
      apply index_split_first; [|reflexivity].
      change suf_gs with (32 :: tl suf_gs). apply (starts_free_class (ne 32)); [|apply ne_self].
      apply (forallb_impl digitb); [apply digit_ne; reflexivity|exact ok_x].
    - exact ok_xne.
  Qed.

  Lemma fm_id : res_id p_fm suf_do id_fm (marker ++ wm_body mtx gs xo) = [xo].
  Proof.
    rewrite body_P2. destruct (all_ne 47 eq_refl eq_refl) as [_ [H2 _]].
    apply (res_id_eq _ _ _ _ P2 (p_fm ++ y ++ s_do) y s_do).
    - apply index_split_first; [|apply prefixb_app].
      unfold P2. apply starts_free_app.
      + apply (sf_P1 p_fm (tl p_fm)); [reflexivity|simpl; lia|reflexivity].
      + change (p_gs ++ x ++ s_gs0) with (47 :: [71; 83] ++ x ++ s_gs0).
        apply starts_free_cons; [reflexivity|].
        change p_fm with (47 :: tl p_fm). apply (starts_free_class (ne 47)); [|apply ne_self].
        repeat rewrite forallb_app. rewrite H2. reflexivity.
    - unfold P2, P1, marker. discriminate.
    - change (skipn 3 (p_fm ++ y ++ s_do)) with (y ++ s_do).
      apply index_split_first; [|reflexivity].
      change suf_do with (32 :: tl suf_do). apply (starts_free_class (ne 32)); [|apply ne_self].
      apply (forallb_impl digitb); [apply digit_ne; reflexivity|exact ok_y].
    - exact ok_yne.
  Qed.

  (* one loop iteration on  u ++ <marker ... EMC> ++ w  when the marker cannot start inside u *)
  Lemma remove_step_block u w :
    (forall z, starts_free marker u (marker ++ z)) ->
    remove_step (u ++ marker ++ wm_body mtx gs xo ++ emc ++ w) = Some (u ++ w, [gs], [xo]).
  Proof.
    intros Hu. unfold remove_step.
    rewrite (index_split_first marker u _ (Hu _) (prefixb_app _ _)).
    rewrite split_emc. rewrite gs_id, fm_id. reflexivity.
  Qed.

  Lemma remove_step_clean s : noocc marker s -> remove_step s = None.
  Proof. intros Hn. unfold remove_step. apply index_split_none in Hn. rewrite Hn. reflexivity. Qed.

  Lemma remove_artifacts_block u w :
    (forall z, starts_free marker u (marker ++ z)) -> noocc marker (u ++ w) ->
    remove_artifacts (u ++ marker ++ wm_body mtx gs xo ++ emc ++ w)
    = Some {| rm_found := true; rm_content := u ++ w; rm_gs := [gs]; rm_fm := [xo] |}.
  Proof.
    intros Hu Hn. unfold remove_artifacts.
    apply remove_loop_once.
    - unfold marker. destruct u; discriminate.
    - apply remove_step_block. exact Hu.
    - apply remove_step_clean. exact Hn.
  Qed.
End Block.

Lemma remove_artifacts_clean s : noocc marker s ->
  remove_artifacts s = Some {| rm_found := false; rm_content := s; rm_gs := []; rm_fm := [] |}.
Proof.
  intros Hn. unfold remove_artifacts. apply index_split_none in Hn.
  destruct s; cbn [remove_loop]; unfold remove_step; rewrite Hn; reflexivity.
Qed.

(* ---- fuel: the loop always terminates within the fuel given by remove_artifacts ---- *)
Lemma remove_step_shrinks s s' g f : remove_step s = Some (s', g, f) -> (length s' < length s)%nat.
Proof.
  unfold remove_step. intros H.
  destruct (index_split marker s) as [[a b]|] eqn:H1; [|discriminate].
  destruct (index_split emc b) as [[t r]|] eqn:H2; [|discriminate].
  inversion H; subst. apply index_split_sound in H1. destruct H1 as [H1 _].
  apply index_split_sound in H2. destruct H2 as [H2 H3]. apply prefixb_true in H3. destruct H3 as [r' Hr].
  subst. change (skipn 3 (emc ++ r')) with r'. repeat rewrite app_length. simpl. lia.
Qed.

Lemma remove_loop_fuel fuel : forall s p g f, (length s <= length fuel)%nat -> remove_loop fuel s p g f <> None.
Proof.
  induction fuel as [|b fuel IH]; intros s p g f Hl; cbn [remove_loop].
  - destruct (remove_step s) as [[[s' g'] f']|] eqn:Hs; [|discriminate].
    apply remove_step_shrinks in Hs. simpl in Hl. lia.
  - destruct (remove_step s) as [[[s' g'] f']|] eqn:Hs; [|discriminate].
    apply IH. apply remove_step_shrinks in Hs. simpl in Hl. lia.
Qed.

Lemma remove_artifacts_total s : remove_artifacts s <> None.
Proof. apply remove_loop_fuel. lia. Qed.

(* ---- what is left after removal is stable: a second removal changes nothing ---- *)
Lemma remove_loop_final fuel : forall s p g f r, remove_loop fuel s p g f = Some r -> remove_step (rm_content r) = None.
Proof.
  induction fuel as [|b fuel IH]; intros s p g f r H; cbn [remove_loop] in H.
  - destruct (remove_step s) as [[[s' g'] f']|] eqn:Hs; [discriminate|]. inversion H; subst. exact Hs.
  - destruct (remove_step s) as [[[s' g'] f']|] eqn:Hs.
    + apply (IH _ _ _ _ _ H).
    + inversion H; subst. exact Hs.
Qed.

Lemma remove_artifacts_idem s r : remove_artifacts s = Some r ->
  remove_artifacts (rm_content r) = Some {| rm_found := false; rm_content := rm_content r; rm_gs := []; rm_fm := [] |}.
Proof.
  intros H. apply remove_loop_final in H. unfold remove_artifacts.
  destruct (rm_content r); cbn [remove_loop]; rewrite H; reflexivity.
Qed.

(* after removal, either no marker is left or the remaining marker has no EMC behind it *)
Lemma remove_artifacts_result s r : remove_artifacts s = Some r ->
  noocc marker (rm_content r) \/
  exists a b, rm_content r = a ++ b /\ prefixb marker b = true /\ noocc emc b.
Proof.
  intros H. apply remove_loop_final in H. unfold remove_step in H.
  destruct (index_split marker (rm_content r)) as [[a b]|] eqn:H1.
  - right. exists a, b. destruct (index_split_sound _ _ _ _ H1) as [H2 H3]. split; [exact H2|]. split; [exact H3|].
    apply index_split_none. destruct (index_split emc b) as [[t r']|]; [discriminate|reflexivity].
  - left. apply index_split_none. exact H1.
Qed.
