// C05 harness, part 2: file names derived from document content other than attachment names:
// bookmark titles (split along bookmarks through api.SplitFile(…, 0) and the CLI command),
// image resource names (api.ExtractImagesFile), metadata parent types (WriteMetadataToDisk).
// Oracle: snapshot of a deep jail directory around outDir before/after; every created entry
// must be a regular file directly inside outDir; nothing else may change.
package main

import (
	"bytes"
	"errors"
	"fmt"
	"image"
	"image/jpeg"
	"io/fs"
	"os"
	"path/filepath"
	"sort"
	"strings"
	"syscall"
	"time"
	"unicode/utf16"
	"unicode/utf8"

	"github.com/pdfcpu/pdfcpu/pkg/api"
	"github.com/pdfcpu/pdfcpu/pkg/cli"
	"github.com/pdfcpu/pdfcpu/pkg/pdfcpu"
	"github.com/pdfcpu/pdfcpu/pkg/pdfcpu/model"
	"verif/vh"
)

type snapEntry struct {
	size int64
	mod  time.Time
	dir  bool
}

func snapshot(root string) map[string]snapEntry {
	m := map[string]snapEntry{}
	filepath.WalkDir(root, func(p string, d fs.DirEntry, err error) error {
		if err != nil {
			return nil
		}
		fi, e := d.Info()
		if e != nil {
			return nil
		}
		m[p] = snapEntry{fi.Size(), fi.ModTime(), d.IsDir()}
		return nil
	})
	return m
}

// diffSnap: files created directly inside out (sorted), and every other difference.
func diffSnap(before, after map[string]snapEntry, out string) (created, other []string) {
	for p, a := range after {
		b, ok := before[p]
		switch {
		case !ok && !a.dir && filepath.Dir(p) == out:
			created = append(created, p)
		case !ok:
			other = append(other, "created "+p)
		case p != out && (a.size != b.size || !a.mod.Equal(b.mod)) && !(a.dir && strings.HasPrefix(out, p)):
			other = append(other, "modified "+p)
		}
	}
	for p := range before {
		if _, ok := after[p]; !ok {
			other = append(other, "deleted "+p)
		}
	}
	sort.Strings(created)
	sort.Strings(other)
	return
}

// deepJail: jail/in (inputs) and jail/l1/l2/l3/l4/l5/l6/l7/out, so that up to eight "../" stay observable.
func deepJail() (jail, in, out string) {
	jailNr++
	jail = filepath.Join(scratch, fmt.Sprintf("d%d", jailNr))
	in = filepath.Join(jail, "in")
	out = filepath.Join(jail, "l1", "l2", "l3", "l4", "l5", "l6", "l7", "out")
	if err := os.MkdirAll(in, 0o755); err != nil {
		panic(err)
	}
	if err := os.MkdirAll(out, 0o755); err != nil {
		panic(err)
	}
	return
}

func pdfString(s string, forceRaw bool) string {
	if utf8.ValidString(s) && !forceRaw {
		var b strings.Builder
		b.WriteString("<FEFF")
		for _, u := range utf16.Encode([]rune(s)) {
			fmt.Fprintf(&b, "%04X", u)
		}
		b.WriteString(">")
		return b.String()
	}
	return "<" + strings.ToUpper(vh.Hex([]byte(s))) + ">"
}

func pdfName(s string) string {
	var b strings.Builder
	b.WriteByte('/')
	for i := 0; i < len(s); i++ {
		fmt.Fprintf(&b, "#%02X", s[i])
	}
	return b.String()
}

// buildPDF: one page per title (at least one), level-1 outline items titled titles[i] pointing to
// page i+1; optional image XObject under resource name imgName on page 1.
func buildPDF(titles []string, rawTitles bool, imgName string, jpg []byte) []byte {
	n := len(titles)
	if n == 0 {
		n = 1
	}
	var objs []string
	add := func(s string) { objs = append(objs, s) }
	pageObj := func(i int) int { return 4 + i }
	itemObj := func(i int) int { return 4 + n + i }
	imgObj := 4 + n + len(titles)
	cat := "<< /Type /Catalog /Pages 2 0 R"
	if len(titles) > 0 {
		cat += " /Outlines 3 0 R /PageMode /UseOutlines"
	}
	add(cat + " >>")
	kids := ""
	for i := 0; i < n; i++ {
		kids += fmt.Sprintf("%d 0 R ", pageObj(i))
	}
	add(fmt.Sprintf("<< /Type /Pages /Kids [%s] /Count %d >>", kids, n))
	if len(titles) > 0 {
		add(fmt.Sprintf("<< /Type /Outlines /First %d 0 R /Last %d 0 R /Count %d >>", itemObj(0), itemObj(len(titles)-1), len(titles)))
	} else {
		add("<< >>")
	}
	for i := 0; i < n; i++ {
		res := "<< >>"
		if i == 0 && imgName != "" {
			res = fmt.Sprintf("<< /XObject << %s %d 0 R >> >>", pdfName(imgName), imgObj)
		}
		add(fmt.Sprintf("<< /Type /Page /Parent 2 0 R /MediaBox [0 0 100 100] /Resources %s >>", res))
	}
	for i, t := range titles {
		d := fmt.Sprintf("<< /Title %s /Parent 3 0 R /Dest [%d 0 R /Fit]", pdfString(t, rawTitles), pageObj(i))
		if i > 0 {
			d += fmt.Sprintf(" /Prev %d 0 R", itemObj(i-1))
		}
		if i < len(titles)-1 {
			d += fmt.Sprintf(" /Next %d 0 R", itemObj(i+1))
		}
		add(d + " >>")
	}
	if imgName != "" {
		add(fmt.Sprintf("<< /Type /XObject /Subtype /Image /Width 2 /Height 2 /ColorSpace /DeviceRGB /BitsPerComponent 8 /Filter /DCTDecode /Length %d >>\nstream\n%s\nendstream", len(jpg), jpg))
	}
	var buf bytes.Buffer
	buf.WriteString("%PDF-1.7\n%\xe2\xe3\xcf\xd3\n")
	offs := make([]int, len(objs))
	for i, o := range objs {
		offs[i] = buf.Len()
		fmt.Fprintf(&buf, "%d 0 obj\n%s\nendobj\n", i+1, o)
	}
	x := buf.Len()
	fmt.Fprintf(&buf, "xref\n0 %d\n0000000000 65535 f \n", len(objs)+1)
	for _, o := range offs {
		fmt.Fprintf(&buf, "%010d 00000 n \n", o)
	}
	fmt.Fprintf(&buf, "trailer\n<< /Size %d /Root 1 0 R >>\nstartxref\n%d\n%%%%EOF\n", len(objs)+1, x)
	return buf.Bytes()
}

var hostileParts = []string{"../../pwned_", "/../../../pwned2/", "\\..\\..\\pwned3\\", "\x00", " . ", "/CON/", "∕..∕", "x/../../../../pwned4", "\n../pwned5\t"}

// positionedTitles: total lengths up to 1000 with the hostile part before / at / after bytes 200 and 255.
func positionedTitles() []string {
	var out []string
	for _, h := range hostileParts {
		for _, pos := range []int{0, 1, 199 - len(h), 200 - len(h), 201 - len(h), 199, 200, 201, 254 - len(h), 255 - len(h), 254, 255, 256, 300, 600} {
			if pos < 0 {
				continue
			}
			for _, total := range []int{pos + len(h), pos + len(h) + 1, 200, 201, 230, 255, 256, 312, 1000} {
				if total < pos+len(h) {
					continue
				}
				if !r.Thorough() && r.Rand.Intn(3) != 0 && !(pos == 0 && total == 312) {
					continue
				}
				out = append(out, strings.Repeat("A", pos)+h+strings.Repeat("A", total-pos-len(h)))
			}
		}
	}
	for L := 1; L <= 1000; L++ {
		if r.Thorough() || (L >= 195 && L <= 260) || L%25 == 0 || L < 4 {
			out = append(out, strings.Repeat("B", L))
		}
	}
	return out
}

func splitStatus(err error) string {
	switch {
	case err == nil:
		return "ok"
	case errors.Is(err, syscall.ENAMETOOLONG):
		return "error"
	}
	return "unexpected-" + vh.Hex([]byte(err.Error()))
}

// checkSnap is the file-system oracle shared by the split / image runs.
func checkSnap(class string, in map[string]any, before, after map[string]snapEntry, out string) []string {
	created, other := diffSnap(before, after, out)
	switch {
	case len(other) > 0:
		r.OracleFail(class+"-escapes-outdir", in, fmt.Sprintf("outDir %q; changes outside it: %q", out, other))
	default:
		bad := ""
		for _, p := range created {
			if u := unsafeName(filepath.Base(p)); u != "" {
				bad = u + ": " + fmt.Sprintf("%q", p)
			}
		}
		if bad != "" {
			r.OracleFail(class+"-unsafe-name", in, bad)
		} else {
			r.OracleOK()
		}
	}
	return created
}

func splitBookmarkCases() {
	conf := model.NewDefaultConfiguration()
	var sets [][]string
	for i := 0; i+2 < len(hostile); i += 3 {
		sets = append(sets, hostile[i:i+3])
	}
	for k := 0; k < r.Pick(40, 400); k++ {
		sets = append(sets, pickNames(1+r.Rand.Intn(3)))
	}
	pt := positionedTitles()
	for i := 0; i < len(pt); i += 2 {
		j := i + 2
		if j > len(pt) {
			j = len(pt)
		}
		sets = append(sets, pt[i:j])
	}
	for k, titles := range sets {
		var tt []string
		for _, t := range titles {
			if t != "" {
				tt = append(tt, t)
			}
		}
		if len(tt) == 0 {
			continue
		}
		raw := k%5 == 4
		jail, inDir, out := deepJail()
		inFile := filepath.Join(inDir, "in.pdf")
		if err := os.WriteFile(inFile, buildPDF(tt, raw, "", nil), 0o644); err != nil {
			panic(err)
		}
		// the titles as pdfcpu sees them
		var seen []string
		func() {
			defer func() { recover() }()
			f, err := os.Open(inFile)
			if err != nil {
				return
			}
			defer f.Close()
			c := model.NewDefaultConfiguration()
			c.Cmd = model.SPLIT
			ctx, err := api.ReadValidateAndOptimize(f, c)
			if err != nil {
				return
			}
			bms, err := pdfcpu.Bookmarks(ctx)
			if err != nil {
				return
			}
			for _, bm := range bms {
				seen = append(seen, bm.Title)
			}
		}()
		if len(seen) == 0 {
			r.Count("class:split-unreadable")
			os.RemoveAll(jail)
			continue
		}
		in := map[string]any{"fn": "api.SplitFile(span 0)", "titles_hex": hexList(tt), "raw_pdfdoc_strings": raw}
		viaCLI := k%2 == 1
		before := snapshot(jail)
		var err error
		func() {
			defer func() {
				if p := recover(); p != nil {
					err = fmt.Errorf("panic: %v", p)
				}
			}()
			if viaCLI {
				in["fn"] = "cli.Split(SplitCommand span 0)"
				_, err = cli.Split(cli.SplitCommand(inFile, out, 0, conf))
			} else {
				err = api.SplitFile(inFile, out, 0, conf)
			}
		}()
		created := checkSnap("bookmark-split", in, before, snapshot(jail), out)
		st := splitStatus(err)
		r.Case("splitBookmarks", []string{vh.Hex([]byte(out)), hexList(seen)}, st+":"+hexList(created))
		r.Count("class:split-" + strings.SplitN(st, "-", 2)[0])
		maxLen := 0
		for _, t := range seen {
			if len(t) > maxLen {
				maxLen = len(t)
			}
		}
		if maxLen > 200 {
			r.Count("class:split-title-over-200-" + strings.SplitN(st, "-", 2)[0])
		}
		os.RemoveAll(jail)
	}
}

// imageResourceCases: hostile image resource names through api.ExtractImagesFile.
func imageResourceCases() {
	conf := model.NewDefaultConfiguration()
	var jb bytes.Buffer
	jpeg.Encode(&jb, image.NewRGBA(image.Rect(0, 0, 2, 2)), nil)
	names := append([]string{}, hostile...)
	for _, L := range []int{150, 200, 201, 229, 255, 256, 400} {
		names = append(names, "../../pwned_"+strings.Repeat("A", L-12), strings.Repeat("A", L-12)+"/../../pwned")
	}
	for k, n := range names {
		if n == "" || strings.ContainsRune(n, 0) || (!r.Thorough() && k%2 == 1 && len(n) < 100) {
			continue
		}
		jail, inDir, out := deepJail()
		inFile := filepath.Join(inDir, "in.pdf")
		os.WriteFile(inFile, buildPDF(nil, false, n, jb.Bytes()), 0o644)
		in := map[string]any{"fn": "api.ExtractImagesFile", "resource_name_hex": vh.Hex([]byte(n))}
		before := snapshot(jail)
		var err error
		func() {
			defer func() {
				if p := recover(); p != nil {
					err = fmt.Errorf("panic: %v", p)
				}
			}()
			err = api.ExtractImagesFile(inFile, out, nil, conf)
		}()
		created := checkSnap("extract-images", in, before, snapshot(jail), out)
		switch {
		case err == nil && len(created) == 1:
			// in_<page>_<resource name>.<type>; the type comes from the filter
			base := filepath.Base(created[0])
			ext := strings.TrimPrefix(filepath.Ext(base), ".")
			r.Case("imageFileName", []string{vh.Hex([]byte("in")), vh.Hex([]byte("1")), vh.Hex([]byte(n)), vh.Hex([]byte(ext))}, vh.Hex([]byte(base)))
			r.Count("class:image-e2e-written")
		case err != nil && errors.Is(err, syscall.ENAMETOOLONG):
			r.Count("class:image-e2e-toolong")
		case err != nil:
			r.Count("class:image-e2e-error")
		default:
			r.Count("class:image-e2e-nofile")
		}
		os.RemoveAll(jail)
	}
}

// metadataWriterCases: WriteMetadataToDisk with a hostile container type.
func metadataWriterCases() {
	for k := 0; k < r.Pick(80, 800); k++ {
		nn := pickNames(2)
		jail, _, out := deepJail()
		a, b := r.Rand.Intn(1000), r.Rand.Intn(1000)
		in := map[string]any{"fn": "WriteMetadataToDisk", "names_hex": hexList(nn)}
		before := snapshot(jail)
		err := api.WriteMetadataToDisk(out, nn[0])(pdfcpu.Metadata{Reader: strings.NewReader("m"), ParentType: nn[1], ParentObjNr: a, ObjNr: b})
		created := checkSnap("extract-metadata", in, before, snapshot(jail), out)
		res := "error"
		if err == nil && len(created) == 1 {
			res = vh.Hex([]byte(filepath.Base(created[0])))
		} else if err != nil && !errors.Is(err, syscall.ENAMETOOLONG) {
			res = "unexpected-" + vh.Hex([]byte(err.Error()))
		}
		if res != "error" {
			r.Case("metadataFileName", []string{vh.Hex([]byte(nn[0])), vh.Hex([]byte(nn[1])), vh.Hex([]byte(fmt.Sprint(a))), vh.Hex([]byte(fmt.Sprint(b)))}, res)
		}
		os.RemoveAll(jail)
	}
}
