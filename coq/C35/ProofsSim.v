(* C35 — the persisted document refines the abstract store, step by step. *)
From Coq Require Import NArith List Bool Lia.
From PV Require Import C35.Model C35.ProofsStr C35.ProofsKw C35.ProofsName.
Import ListNotations.
Open Scope N_scope.

Arguments smem : simpl never.
Arguments m_mem : simpl never.
Arguments remove_seq : simpl never.
Arguments att_find : simpl never.

Arguments kw_read3 : simpl never.

Definition enum_rel (tbl : list str) (dn : option str) (sv : option N) : Prop :=
  match sv with
  | None => dn = None
  | Some v => dn = Some (enum_name tbl v) /\ v < 6
  end.

Definition vp_ok (o : option vprefs) : Prop :=
  match o with Some vp => vp_readable vp = true | None => True end.

Record Rel (d : doc) (s : store) : Prop := {
  r_ver : d_ver d = 17 /\ s_ver s = 17;
  r_kw : kw_read d = s_kw s;          (* Info keywords and XMP keywords, merged *)
  r_has : d_hasinfo d = true \/ s_kw s = [];
  r_kws : ssorted (s_kw s);
  r_kww : Forall (fun k => wfk k = true) (s_kw s);
  r_pr : d_info d = s_pr s;
  r_prs : msorted (s_pr s);
  r_prg : Forall good_entry (s_pr s);
  r_pl : enum_rel pl_names (d_pl d) (s_pl s);
  r_pm : enum_rel pm_names (d_pm d) (s_pm s);
  r_vp : d_vp d = s_vp s;
  r_vpo : vp_ok (s_vp s);
  r_att : d_att d = s_att s
}.

Lemma rel_empty : Rel (empty_doc 17) (empty_store 17).
Proof.
  constructor; simpl; auto; try exact I; try constructor; auto.
Qed.

Lemma kw_of_text_sorted : forall t, ssorted (kw_of_text t).
Proof.
  intros t. unfold kw_of_text. rewrite fold_left_map_trim. apply fold_ins_sorted. exact I.
Qed.

Lemma kw_read3_sorted : forall v kw x, ssorted (kw_read3 v kw x).
Proof.
  intros v kw x. unfold kw_read3. rewrite fold_left_map_trim. apply fold_ins_sorted.
  destruct kw; [apply kw_of_text_sorted|exact I].
Qed.

(* a starting document with an Info dictionary and catalog XMP: the store starts with the
   union of the Info keywords and the XMP keywords *)
Lemma rel_init_att : forall kw x a, let d := init_doc_att 17 true kw x a in
  Forall (fun k => wfk k = true) (kw_read d) -> Rel d (init_store d).
Proof.
  intros kw x a d W. constructor; simpl; auto; try exact I; try constructor; auto.
  apply kw_read3_sorted.
Qed.

Lemma rel_init : forall kw x, let d := init_doc 17 true kw x in
  Forall (fun k => wfk k = true) (kw_read d) -> Rel d (init_store d).
Proof.
  intros kw x d W. constructor; simpl; auto; try exact I; try constructor; auto.
  apply kw_read3_sorted.
Qed.

Lemma xmp_text3_scrub : forall v x, xmp_text3 v (fst (xmp_scrub x)) = [].
Proof. intros v [[t|]|]; unfold xmp_text3; simpl; destruct (v <? 14); reflexivity. Qed.

Lemma kw_read3_scrub : forall v kw x,
  kw_read3 v kw (fst (xmp_scrub x)) = match kw with None => [] | Some t => kw_of_text t end.
Proof. intros v kw x. unfold kw_read3. now rewrite xmp_text3_scrub. Qed.

Lemma kw_read3_clean : forall v kw x, xmp_text3 v x = [] ->
  kw_read3 v kw x = match kw with None => [] | Some t => kw_of_text t end.
Proof. intros v kw x H. unfold kw_read3. now rewrite H. Qed.

Lemma kw_read_rel : forall d s, Rel d s -> kw_read d = s_kw s.
Proof. intros d s R. apply (r_kw _ _ R). Qed.

Lemma readable_rel : forall d s, Rel d s -> readable d = true.
Proof.
  intros d s R. unfold readable.
  rewrite (r_vp _ _ R). pose proof (r_vpo _ _ R) as V. destruct (s_vp s); simpl in *; [now rewrite V|reflexivity].
Qed.

Lemma enum_roundtrip_pl : forall v, v < 6 -> enum_for pl_names (enum_name pl_names v) = Some v.
Proof.
  intros v H. assert (E : v = 0 \/ v = 1 \/ v = 2 \/ v = 3 \/ v = 4 \/ v = 5) by lia.
  repeat (destruct E as [->|E]; [reflexivity|]). subst. reflexivity.
Qed.
Lemma enum_roundtrip_pm : forall v, v < 6 -> enum_for pm_names (enum_name pm_names v) = Some v.
Proof.
  intros v H. assert (E : v = 0 \/ v = 1 \/ v = 2 \/ v = 3 \/ v = 4 \/ v = 5) by lia.
  repeat (destruct E as [->|E]; [reflexivity|]). subst. reflexivity.
Qed.

(* listing a related document shows exactly the store *)
Lemma observe_rel : forall d s, Rel d s -> observe d = Some s.
Proof.
  intros d s R. unfold observe. rewrite (readable_rel _ _ R). simpl.
  rewrite (r_pr _ _ R), props_read_id by (apply R).
  rewrite (kw_read_rel _ _ R), (r_vp _ _ R), (r_att _ _ R).
  destruct (r_ver _ _ R) as [V1 V2]. rewrite V1.
  pose proof (r_pl _ _ R) as PL. pose proof (r_pm _ _ R) as PM.
  destruct s as [ver kw pr pl pm vp att]. simpl in *. subst ver.
  assert (X : match d_pl d with Some n => enum_for pl_names n | None => None end = pl).
  { destruct pl as [v|]; simpl in PL; [destruct PL as [-> Hv]; now apply enum_roundtrip_pl|now rewrite PL]. }
  assert (Y : match d_pm d with Some n => enum_for pm_names n | None => None end = pm).
  { destruct pm as [v|]; simpl in PM; [destruct PM as [-> Hv]; now apply enum_roundtrip_pm|now rewrite PM]. }
  now rewrite X, Y.
Qed.

(* ---------------------------------------------------------------- viewer preferences *)
Lemma vp_slot_merge : forall old new i,
  vp_slot (vp_merge old new) i = match vp_slot new i with Some v => Some v | None => vp_slot old i end.
Proof.
  unfold vp_slot. induction old as [|o old IH]; intros new i.
  - destruct new as [|n new]; cbn [vp_merge].
    + destruct i; reflexivity.
    + destruct (nth i (n :: new) None) as [v|] eqn:E; [reflexivity|]. destruct i; reflexivity.
  - destruct new as [|n new]; cbn [vp_merge].
    + destruct i; reflexivity.
    + destruct i as [|i]; cbn [nth]; [destruct n; reflexivity|apply IH].
Qed.

Lemma vp_readable_merge : forall old new, vp_readable old = true -> vp_readable new = true ->
  vp_readable (vp_merge old new) = true.
Proof.
  intros old new Ho Hn. unfold vp_readable in *. rewrite !vp_slot_merge.
  repeat (apply andb_true_iff in Ho as [Ho ?]). repeat (apply andb_true_iff in Hn as [Hn ?]).
  repeat (apply andb_true_iff; split);
    match goal with |- context [vp_slot new ?i] => destruct (vp_slot new i); assumption end.
Qed.

(* ---------------------------------------------------------------- one step *)
Lemma persist_rel_info : forall (d : doc) i, msorted i -> Forall good_entry i ->
  d_info d = i -> d_info (persist d) = i.
Proof. intros d i Hs Hg E. unfold persist. simpl. rewrite E. eapply persist_info_id; eauto. Qed.

Ltac rel_fields R :=
  pose proof (r_ver _ _ R) as Rver; pose proof (r_kw _ _ R) as Rkw; pose proof (r_has _ _ R) as Rhas; pose proof (r_kws _ _ R) as Rkws;
  pose proof (r_kww _ _ R) as Rkww; pose proof (r_pr _ _ R) as Rpr; pose proof (r_prs _ _ R) as Rprs;
  pose proof (r_prg _ _ R) as Rprg; pose proof (r_pl _ _ R) as Rpl; pose proof (r_pm _ _ R) as Rpm;
  pose proof (r_vp _ _ R) as Rvp; pose proof (r_vpo _ _ R) as Rvpo; pose proof (r_att _ _ R) as Ratt.

Lemma ver17 : forall v, v = 17 -> (if v =? 20 then 20 else 17) = 17.
Proof. intros v ->. reflexivity. Qed.

(* the operation does not touch the Info entries: persist keeps the relation *)
Ltac finish_simple :=
  constructor; simpl; try rewrite ver17 by tauto; auto;
  try (erewrite persist_info_id; eauto; congruence).

Lemma padd_good : forall kvs, padd_valid kvs = true ->
  forallb (fun kv => wfname (fst kv)) kvs = true -> Forall good_entry kvs.
Proof.
  intros kvs Hv Hw. apply Forall_forall. intros [k v] Hin.
  unfold padd_valid in Hv. rewrite forallb_forall in Hv, Hw. specialize (Hv _ Hin). specialize (Hw _ Hin). simpl in *.
  split; simpl; [assumption|]. apply andb_true_iff in Hv as [_ Hb]. apply negb_true_iff in Hb.
  intros ->. discriminate.
Qed.

Lemma uniq_id_fresh : forall f id (m : atts), m_mem id m = false -> uniq_id (S f) id m = id.
Proof. intros f id m H. simpl. now rewrite H. Qed.

Lemma filter_none_present : forall ks (cur : list str),
  existsb (fun k => smem k ks) cur = false -> filter (fun k => negb (smem k ks)) cur = cur.
Proof.
  intros ks cur H. apply filter_all_true. intros x Hx.
  destruct (smem x ks) eqn:E; [|reflexivity].
  assert (existsb (fun k => smem k ks) cur = true) by (apply existsb_exists; eauto). congruence.
Qed.

Definition fresh_op (s : store) (o : op) : Prop :=
  match o with AAdd id _ _ => m_mem id (s_att s) = false | _ => True end.

Arguments xmp_scrub : simpl never.

(* "remove all properties" also drops the catalog XMP packet: it keeps the keywords only if
   the packet contributes none at that moment *)
Definition safe_op (d : doc) (o : op) : Prop :=
  match o with PRemove [] => xmp_text3 (d_ver d) (d_xmp d) = [] | _ => True end.

Ltac fin :=
  constructor; simpl; try rewrite ver17 by assumption;
  try solve [ assumption | auto | exact I | constructor | now left | now right
            | (match goal with H : d_info _ = _ |- _ => rewrite H end; eapply persist_info_id; eauto)
            | (unfold kw_read; simpl; try rewrite ver17 by assumption; rewrite ?kw_read3_scrub; assumption) ].

Lemma step_rel : forall d s o, Rel d s -> wf_op o = true -> fresh_op s o -> safe_op d o ->
  Rel (fst (step d o)) (astep s o).
Proof.
  intros d s o R W F SF. unfold step. rewrite (readable_rel _ _ R). simpl.
  rel_fields R.
  destruct s as [ver kw pr pl pm vp att]. simpl in *. destruct Rver as [Vd Vs]. subst ver.
  pose proof Rkw as Rkw3. unfold kw_read in Rkw3. rewrite Vd in Rkw3.
  destruct o as [ks|ks|kvs|ks|v| |v| |new| |id desc data|ids]; simpl in W.
  - (* KAdd *)
    rewrite (wfk_not_blank _ W). simpl.
    rewrite Rkw. simpl. rewrite (fold_ins_trim_wf _ _ W).
    assert (Wf : Forall (fun k => wfk k = true) ks) by (apply Forall_forall; now apply forallb_forall).
    assert (S1 : ssorted (fold_left (fun a k => set_ins k a) ks kw)) by now apply fold_ins_sorted.
    assert (W1 : Forall (fun k => wfk k = true) (fold_left (fun a k => set_ins k a) ks kw)) by now apply fold_ins_Forall.
    fin.
    unfold kw_read; simpl. rewrite kw_read3_scrub. now apply kw_of_text_join.
  - (* KRemove *)
    destruct ks as [|k ks'].
    + destruct (d_hasinfo d) eqn:Hi; simpl.
      * destruct (_ || _ || _) eqn:Rm; simpl.
        -- fin. unfold kw_read; simpl. now rewrite kw_read3_scrub.
        -- apply orb_false_iff in Rm as [_ Rm]. rewrite Rkw in Rm. destruct kw; [|discriminate]. fin.
      * destruct Rhas as [Rhas|Rhas]; [discriminate|]. rewrite Rhas in *. fin.
    + rewrite (wfk_not_blank _ W). rewrite (map_trim_wf _ W). rewrite Rkw.
      cbv beta iota. remember (k :: ks') as ks eqn:Eks.
      destruct (d_hasinfo d) eqn:Hi; simpl.
      * destruct (existsb (fun k0 => smem k0 ks) kw) eqn:Ex; simpl.
        -- assert (S1 : ssorted (filter (fun k0 => negb (smem k0 ks)) kw)) by now apply filter_sorted.
           assert (W1 : Forall (fun k0 => wfk k0 = true) (filter (fun k0 => negb (smem k0 ks)) kw)) by now apply filter_Forall.
           fin. unfold kw_read; simpl. rewrite kw_read3_scrub. now apply kw_of_text_join.
        -- rewrite (filter_none_present _ _ Ex). fin.
      * destruct Rhas as [Rhas|Rhas]; [discriminate|]. rewrite Rhas in *. simpl. fin.
  - (* PAdd *)
    destruct (padd_valid kvs) eqn:Pv; simpl.
    + pose proof (padd_good _ Pv W) as G.
      assert (S1 : msorted (fold_left (fun m kv => m_set (fst kv) (snd kv) m) kvs pr)) by now apply fold_set_sorted.
      assert (G1 : Forall good_entry (fold_left (fun m kv => m_set (fst kv) (snd kv) m) kvs pr)).
      { apply fold_set_Forall; [|assumption]. eapply Forall_impl; [|exact G]. intros [a b] Hab. exact Hab. }
      fin.
    + fin.
  - (* PRemove *)
    destruct ks as [|k ks'].
    + (* remove all *)
      simpl in SF. rewrite Vd in SF.
      rewrite Rpr. rewrite props_read_id by assumption.
      assert (KW : kw_read3 17 (d_kw d) None = kw).
      { rewrite <- Rkw3. rewrite (kw_read3_clean _ _ _ SF). now apply kw_read3_clean. }
      destruct pr as [|e pr'].
      * destruct (d_xmp d) eqn:Ex; fin.
      * cbv beta iota. rewrite remove_all_props. fin.
    + cbv beta iota. remember (k :: ks') as ks eqn:Eks.
      destruct (prem_valid ks) eqn:Pv; simpl; [|fin].
      rewrite Rpr. destruct (existsb (fun k0 => m_mem k0 pr) ks) eqn:Ex; simpl.
      * assert (S1 : msorted (fold_left (fun m k0 => m_del k0 m) ks pr)) by now apply fold_del_sorted.
        assert (G1 : Forall good_entry (fold_left (fun m k0 => m_del k0 m) ks pr)) by now apply fold_del_Forall.
        fin. eapply persist_info_id; eauto.
      * rewrite (fold_del_absent _ _ Ex). fin.
  - (* LSet *)
    destruct (v <? 6) eqn:Hv; simpl; [|fin].
    apply N.ltb_lt in Hv. fin.
  - (* LReset *)
    fin.
  - (* MSet *)
    destruct (v <? 6) eqn:Hv; simpl; [|fin].
    apply N.ltb_lt in Hv. fin.
  - (* MReset *)
    fin.
  - (* VSet *)
    rewrite Vd, Rvp. apply andb_true_iff in W as [Wv _]. unfold wf_vp in Wv.
    destruct (vp_validate 17 new) eqn:Hval; simpl; [|fin].
    fin. destruct vp as [old|]; simpl in *; [now apply vp_readable_merge|assumption].
  - (* VReset *)
    fin.
  - (* AAdd *)
    simpl in F. rewrite Ratt. rewrite F.
    fin.
  - (* ARemove *)
    destruct ids as [|i ids'].
    + rewrite Ratt. destruct att as [|a att']; simpl; fin.
    + cbv beta iota. rewrite Ratt. remember (i :: ids') as ids eqn:Eids.
      destruct (forallb (fun k => negb (blank_b k)) ids) eqn:Hb; simpl; [|fin].
      destruct (remove_seq ids att) as [m|] eqn:Hr; simpl; fin.
Qed.
