open Model
open Common

(* bytes: hex pairs, "-" = empty *)
let by s = if s = "-" then [] else bytes_of_hex s
let hx l = match l with [] -> "-" | _ -> hex_of_bytes l
let ids l = String.concat "," (List.map hx l)

(* contents: N | S:<hex> | A:<hex>,<hex>... *)
let contents_of s =
  if s = "N" then CNone
  else if String.length s >= 2 && s.[0] = 'S' then CStream (by (String.sub s 2 (String.length s - 2)))
  else if String.length s >= 2 && s.[0] = 'A' then
    let r = String.sub s 2 (String.length s - 2) in
    CArray (if r = "" then [] else List.map by (String.split_on_char ',' r))
  else failwith "bad contents"
let str_contents = function
  | CNone -> "N"
  | CStream c -> "S:" ^ hx c
  | CArray a -> "A:" ^ String.concat "," (List.map hx a)

let rot_of s = if s = "-" then None else Some (by (String.sub s 1 (String.length s - 1)))

let str_rm = function
  | None -> "fuel"
  | Some r -> Printf.sprintf "found=%s;c=%s;gs=%s;fm=%s" (str_of_bool r.rm_found) (hx r.rm_content) (ids r.rm_gs) (ids r.rm_fm)

let str_page = function
  | PFuel -> "fuel"
  | PNoContents -> "err:nocontents"
  | POk (f, ct, g, m) -> Printf.sprintf "found=%s;ct=%s;gs=%s;fm=%s" (str_of_bool f) (str_contents ct) (ids g) (ids m)

let mask s = List.init (String.length s) (fun i -> s.[i] = '1')

(* pages: "r|contents" separated by ';' (r = 1 when the page dict has its own /Resources) *)
let pages_of s =
  if s = "" then [] else
  List.map (fun f ->
    let res = f.[0] = '1' in
    { pg_res = res; pg_ct = contents_of (String.sub f 2 (String.length f - 2)) })
    (String.split_on_char ';' s)

let str_err = function
  | ENoOCG -> "noocg" | ENoResources -> "noresources" | ENoContents -> "nocontents"
  | ENoWatermark -> "nowatermark" | EFuel -> "fuel"

let flags d = String.concat "" (List.map (fun p -> if detect_page p.pg_ct then "1" else "0") d.d_pages)
let resflags d = String.concat "" (List.map (fun p -> if p.pg_res then "1" else "0") d.d_pages)

(* page tree shape: "(" kid kid ... ")" where a kid is a page index or a nested "(...)"; the string is the
   kid list of the root, e.g. "((0 1) 2)" *)
let parse_tree (s : string) (pages : page array) : ptree list =
  let n = String.length s in
  let pos = ref 0 in
  let rec skip () = if !pos < n && s.[!pos] = ' ' then (incr pos; skip ()) in
  let rec kids () =
    (* after '(' *)
    skip ();
    if !pos >= n then failwith "bad tree"
    else if s.[!pos] = ')' then (incr pos; [])
    else if s.[!pos] = '(' then (incr pos; let k = kids () in let r = kids () in PNode k :: r)
    else begin
      let st = !pos in
      while !pos < n && s.[!pos] >= '0' && s.[!pos] <= '9' do incr pos done;
      if !pos = st then failwith "bad tree";
      let i = int_of_string (String.sub s st (!pos - st)) in
      let r = kids () in PLeaf pages.(i) :: r
    end in
  skip ();
  if !pos < n && s.[!pos] = '(' then (incr pos; kids ()) else failwith "bad tree"

let dispatch fn args = match fn, args with
  | "remove", [c] -> str_rm (remove_artifacts (by c))
  | "detect", [c] -> str_of_bool (detect_artifacts (by c))
  | "patch", [onTop; rot; wm; c; isLast] ->
      hx (patch_first (bool_of_str onTop) (rot_of rot) (by wm) (by c) (bool_of_str isLast))
  | "newstream", [onTop; rot; wm] -> hx (new_stream (bool_of_str onTop) (rot_of rot) (by wm))
  | "wmcontent", [mtx; gs; xo] -> hx (wm_content (by mtx) (by gs) (by xo))
  | "pageapi", [onTop; mtx; gs; xo; ct] ->
      let wm = wm_content (by mtx) (by gs) (by xo) in
      let added = add_page (bool_of_str onTop) None wm (contents_of ct) in
      let det = detect_page added in
      let rm = remove_page added in
      let rms, det2 = (match rm with
        | POk (_, ct', _, _) -> str_contents ct', str_of_bool (detect_page ct')
        | PFuel -> "fuel", "-" | PNoContents -> "err:nocontents", "-") in
      Printf.sprintf "add=%s|det=%s|rm=%s|det2=%s" (str_contents added) (str_of_bool det) rms det2
  | "pageseq", [seq; ct] ->
      (* seq: onTop:mtx:gs:xo;...  one entry per AddWatermarks call *)
      let adds = List.map (fun e ->
        match String.split_on_char ':' e with
        | [t; m; g; x] -> (bool_of_str t, wm_content (by m) (by g) (by x))
        | _ -> failwith "bad seq") (String.split_on_char ';' seq) in
      let added = add_seq adds (contents_of ct) in
      let det = detect_page added in
      let rm = remove_page added in
      let rms, det2 = (match rm with
        | POk (_, ct', _, _) -> str_contents ct', str_of_bool (detect_page ct')
        | PFuel -> "fuel", "-" | PNoContents -> "err:nocontents", "-") in
      Printf.sprintf "add=%s|det=%s|rm=%s|det2=%s" (str_contents added) (str_of_bool det) rms det2
  | "treedetect", [ocg; shape; pages] ->
      let ps = Array.of_list (pages_of pages) in
      let d = { t_ocg = bool_of_str ocg; t_root = parse_tree shape ps } in
      Printf.sprintf "walk=%s|flat=%s|order=%s" (str_of_bool (detect_tdoc d)) (str_of_bool (detect_doc (flat_doc d)))
        (flags (flat_doc d))
  | "doc", [onTop; ocg; seladd; selrm; pages] ->
      let wm = wm_content (by "31203020302031203020") (by "475330") (by "466d30") in
      let d = { d_ocg = bool_of_str ocg; d_pages = pages_of pages } in
      let d0 = detect_doc d in
      let d1 = add_doc (bool_of_str onTop) wm (mask seladd) d in
      let r = remove_doc (mask selrm) d1 in
      Printf.sprintf "det0=%s|det1=%s:%s|rm=%s" (str_of_bool d0) (str_of_bool (detect_doc d1)) (flags d1)
        (match r with
         | DErr e -> "err:" ^ str_err e
         | DOk d2 -> Printf.sprintf "ok:%s:%s:%s" (str_of_bool (detect_doc d2)) (flags d2) (resflags d2))
  | _ -> failwith ("unknown function " ^ fn)
let () = main dispatch
