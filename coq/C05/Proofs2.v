(* C05 — proofs, part 2: filepath.Clean/Join on one sanitized component, the call sites that
   compose names, and the attachment reservation protocol. *)
From Coq Require Import NArith ZArith List Bool Lia ZifyBool ZifyN.
From PV Require Import Lib.GoInt C05.Model C05.Proofs.
Import ListNotations.
Open Scope N_scope.
Ltac Zify.zify_post_hook ::= Z.div_mod_to_equations.

(* ------------------------------------------------------------------ plain components *)
Definition plain (n : bytes) : Prop :=
  n <> [] /\ Forall (fun b => b <> SL) n /\ n <> DOT /\ n <> DOTDOT.

Lemma name_ok_plain : forall n, name_ok n -> plain n.
Proof.
  intros n [Hne [Hb [Hf Hl]]]. split; [exact Hne|]. split.
  - eapply Forall_impl; [|exact Hb]. intros b Hbo. unfold byte_ok in Hbo. unfold SL. lia.
  - split; intro E; subst n; destruct (Hf 0x2E _ eq_refl) as [_ H]; congruence.
Qed.

Lemma cleanStep_plain : forall r st n, plain n -> cleanStep r st n = n :: st.
Proof.
  intros r st n [Hne [_ [Hd Hdd]]]. unfold cleanStep.
  apply isNil_false in Hne. apply leqb_neq in Hd. apply leqb_neq in Hdd.
  rewrite Hne, Hd, Hdd. reflexivity.
Qed.

Lemma isRooted_app : forall a b, a <> [] -> isRooted (a ++ b) = isRooted a.
Proof. intros [|x a] b H; [congruence | reflexivity]. Qed.

Lemma cleanStack_child : forall a n, a <> [] -> plain n -> cleanStack (a ++ SL :: n) = n :: cleanStack a.
Proof.
  intros a n Ha Hn. unfold cleanStack. rewrite isRooted_app by exact Ha.
  rewrite splitOn_app_sep. rewrite (splitOn_nosep SL n) by apply Hn.
  rewrite fold_left_app. simpl. apply cleanStep_plain. exact Hn.
Qed.

Lemma plain_not_rooted : forall n, plain n -> isRooted n = false.
Proof.
  intros [|b t] [Hne [Hs _]]; [reflexivity|]. inversion Hs; subst. simpl. apply N.eqb_neq. assumption.
Qed.

Lemma cleanStack_plain : forall n, plain n -> cleanStack n = [n].
Proof.
  intros n Hn. unfold cleanStack. rewrite (splitOn_nosep SL n) by apply Hn. simpl.
  apply cleanStep_plain. exact Hn.
Qed.

Lemma clean_unfold : forall p, clean p = render (isRooted p) (cleanStack p).
Proof. intros [|b t]; reflexivity. Qed.

(* filepath.Join(dir, n) for a plain n: the cleaned dir's element stack with n pushed *)
Lemma join2_child : forall d n, plain n -> join2 d n = render (isRooted d) (n :: cleanStack d).
Proof.
  intros d n Hn. unfold join2. destruct d as [|b d].
  - simpl negb. cbv iota. assert (E : isNil n = false) by (apply isNil_false; apply Hn).
    rewrite E. simpl negb. cbv iota. rewrite clean_unfold. rewrite plain_not_rooted by exact Hn.
    rewrite cleanStack_plain by exact Hn. reflexivity.
  - simpl isNil. simpl negb. cbv iota. rewrite clean_unfold.
    rewrite isRooted_app by discriminate. rewrite cleanStack_child; [reflexivity | discriminate | exact Hn].
Qed.

Lemma joinWith_snoc : forall sep l n, l <> [] -> joinWith sep (l ++ [n]) = joinWith sep l ++ sep ++ n.
Proof.
  intros sep l n. induction l as [|x t IH]; intro H; [congruence|].
  destruct t as [|y t]; [reflexivity|].
  change ((x :: y :: t) ++ [n]) with (x :: (y :: t) ++ [n]).
  change (joinWith sep (x :: y :: t)) with (x ++ sep ++ joinWith sep (y :: t)).
  assert (E : joinWith sep (x :: (y :: t) ++ [n]) = x ++ sep ++ joinWith sep ((y :: t) ++ [n])) by reflexivity.
  rewrite E. rewrite IH by discriminate. repeat rewrite <- app_assoc. reflexivity.
Qed.

(* the child path is "clean(dir)/n", except below "/" and "." *)
Lemma render_cons : forall r st n,
  render r (n :: st) = match st with
                       | [] => if r then SL :: n else n
                       | _ => render r st ++ SL :: n
                       end.
Proof.
  intros r st n. unfold render. simpl rev. destruct st as [|top rest].
  - simpl. reflexivity.
  - assert (Hne : rev (top :: rest) <> []).
    { simpl. destruct (rev rest); discriminate. }
    rewrite joinWith_snoc by exact Hne. simpl isNil. destruct r; simpl; reflexivity.
Qed.

(* ------------------------------------------------------------------ Clean is idempotent on its results *)
Definition comp (c : bytes) : Prop := c <> [] /\ Forall (fun b => b <> SL) c /\ c <> DOT.

Fixpoint normalS (r : bool) (st : list bytes) : Prop :=
  match st with
  | [] => True
  | top :: rest => comp top /\ (top = DOTDOT -> r = false /\ Forall (eq DOTDOT) rest) /\ normalS r rest
  end.

Lemma cleanStep_normal : forall r st c, Forall (fun b => b <> SL) c -> normalS r st -> normalS r (cleanStep r st c).
Proof.
  intros r st c Hc Hst. unfold cleanStep.
  destruct (isNil c) eqn:En; [exact Hst|]. apply isNil_false in En.
  destruct (leqb c DOT) eqn:Ed; [exact Hst|]. apply leqb_neq in Ed. simpl orb. cbv iota.
  assert (Hcomp : comp c) by (split; [exact En | split; [exact Hc | exact Ed]]).
  destruct (leqb c DOTDOT) eqn:Edd.
  - apply leqb_eq in Edd. destruct st as [|top rest].
    + destruct r; simpl; [exact I|]. split; [exact Hcomp|]. split; [intros _; split; [reflexivity | constructor] | exact I].
    + destruct (leqb top DOTDOT) eqn:Et.
      * apply leqb_eq in Et. simpl in Hst. destruct Hst as [Htop [Hdd Hrest]].
        destruct (Hdd Et) as [Hr Hall]. simpl. split; [exact Hcomp|]. split.
        -- intros _. split; [exact Hr | constructor; [congruence | exact Hall]].
        -- split; [exact Htop | split; [exact Hdd | exact Hrest]].
      * simpl in Hst. apply Hst.
  - apply leqb_neq in Edd. simpl. split; [exact Hcomp|]. split; [intro E; contradiction | exact Hst].
Qed.

Lemma fold_normal : forall r l st, Forall (Forall (fun b => b <> SL)) l -> normalS r st ->
  normalS r (fold_left (cleanStep r) l st).
Proof.
  intros r l. induction l as [|c t IH]; intros st Hl Hst; simpl; [exact Hst|].
  inversion Hl; subst. apply IH; [assumption | apply cleanStep_normal; assumption].
Qed.

Lemma cleanStack_normal : forall p, normalS (isRooted p) (cleanStack p).
Proof. intros p. unfold cleanStack. apply fold_normal; [apply splitOn_no_sep | exact I]. Qed.

Lemma normalS_comp : forall r st, normalS r st -> Forall comp st.
Proof.
  intros r st. induction st as [|top rest IH]; intro H; [constructor|].
  simpl in H. destruct H as [Ht [_ Hr]]. constructor; [exact Ht | apply IH; exact Hr].
Qed.

Lemma fold_rev_normal : forall r st, normalS r st -> fold_left (cleanStep r) (rev st) [] = st.
Proof.
  intros r st. induction st as [|top rest IH]; intro H; [reflexivity|].
  simpl in H. destruct H as [[Hne [Hs Hd]] [Hdd Hrest]].
  simpl rev. rewrite fold_left_app. rewrite IH by exact Hrest. simpl.
  unfold cleanStep. apply isNil_false in Hne. apply leqb_neq in Hd. rewrite Hne, Hd. simpl orb. cbv iota.
  destruct (leqb top DOTDOT) eqn:Et; [|reflexivity].
  apply leqb_eq in Et. destruct (Hdd Et) as [Hr Hall]. subst r.
  destruct rest as [|t2 rest2]; [reflexivity|].
  inversion Hall as [|a l Ha Hl]. subst. reflexivity.
Qed.

Lemma joinWith_first : forall l, l <> [] -> Forall comp l ->
  exists b t, joinWith [SL] l = b :: t /\ b <> SL.
Proof.
  intros l Hne H. destruct l as [|x rest]; [congruence|]. inversion H as [|x' r' Hx Hr]; subst.
  destruct Hx as [Hxne [Hxs _]]. destruct x as [|b x']; [congruence|]. inversion Hxs; subst.
  destruct rest as [|y rest]; [exists b, x'; split; [reflexivity | assumption]|].
  exists b, (x' ++ [SL] ++ joinWith [SL] (y :: rest)). split; [reflexivity | assumption].
Qed.

Lemma comp_noSL : forall l, Forall comp l -> Forall (Forall (fun b => b <> SL)) l.
Proof. intros l H. eapply Forall_impl; [|exact H]. intros c Hc. apply Hc. Qed.

Lemma clean_render : forall r st, normalS r st -> clean (render r st) = render r st.
Proof.
  intros r st H. pose proof (normalS_comp _ _ H) as Hc.
  assert (Hrc : Forall comp (rev st)) by (apply Forall_rev; exact Hc).
  destruct st as [|top rest].
  - destruct r; reflexivity.
  - assert (Hne : rev (top :: rest) <> []) by (simpl; destruct (rev rest); discriminate).
    destruct r.
    + unfold render at 1. rewrite clean_unfold.
      remember (joinWith [SL] (rev (top :: rest))) as J eqn:EJ.
      assert (E1 : isRooted (SL :: J) = true) by reflexivity.
      assert (E2 : cleanStack (SL :: J) = fold_left (cleanStep true) (splitOn SL J) []).
      { unfold cleanStack. rewrite E1. reflexivity. }
      rewrite E1, E2. subst J.
      rewrite splitOn_joinWith; [|exact Hne | apply comp_noSL; exact Hrc].
      rewrite fold_rev_normal by exact H. reflexivity.
    + unfold render at 1. simpl isNil. cbv iota.
      destruct (joinWith_first _ Hne Hrc) as [b [t [Ej Hb]]].
      rewrite clean_unfold. unfold cleanStack.
      assert (Er : isRooted (joinWith [SL] (rev (top :: rest))) = false).
      { rewrite Ej. simpl. apply N.eqb_neq. exact Hb. }
      rewrite Er. rewrite splitOn_joinWith; [|exact Hne | apply comp_noSL; exact Hrc].
      rewrite fold_rev_normal by exact H. reflexivity.
Qed.

Lemma clean_idempotent : forall p, clean (clean p) = clean p.
Proof. intros p. rewrite (clean_unfold p). apply clean_render. apply cleanStack_normal. Qed.

Lemma plain_comp : forall n, plain n -> comp n.
Proof. intros n [H1 [H2 [H3 _]]]. split; [exact H1 | split; [exact H2 | exact H3]]. Qed.

Lemma normalS_push : forall r st n, plain n -> normalS r st -> normalS r (n :: st).
Proof.
  intros r st n Hn Hst. simpl. split; [apply plain_comp; exact Hn|]. split; [|exact Hst].
  intro E. destruct Hn as [_ [_ [_ Hdd]]]. contradiction.
Qed.

(* ------------------------------------------------------------------ Dir / Base of the child *)
Lemma dropWhile_app_all : forall {A} (f : A -> bool) a b, Forall (fun x => f x = true) a ->
  dropWhile f (a ++ b) = dropWhile f b.
Proof. intros A f a b H. induction H as [|x a Hx Ha IH]; simpl; [reflexivity | rewrite Hx; exact IH]. Qed.

Lemma takeWhile_app_stop : forall {A} (f : A -> bool) a b, Forall (fun x => f x = true) a ->
  (forall x t, b = x :: t -> f x = false) -> takeWhile f (a ++ b) = a.
Proof.
  intros A f a b H Hb. induction H as [|x a Hx Ha IH]; simpl.
  - destruct b as [|y t]; [reflexivity|]. simpl. rewrite (Hb y t eq_refl). reflexivity.
  - rewrite Hx, IH. reflexivity.
Qed.

Lemma clean_trailing_slash : forall a, a <> [] -> clean (a ++ [SL]) = clean a.
Proof.
  intros a Ha. rewrite !clean_unfold. rewrite isRooted_app by exact Ha. f_equal.
  unfold cleanStack. rewrite isRooted_app by exact Ha. rewrite splitOn_app_sep. rewrite fold_left_app.
  reflexivity.
Qed.

Lemma plain_notSL_rev : forall n, plain n -> Forall (fun x => notSL x = true) (rev n).
Proof.
  intros n [_ [Hs _]]. apply Forall_rev. eapply Forall_impl; [|exact Hs].
  intros b Hb. unfold notSL. apply negb_true_iff. apply N.eqb_neq. exact Hb.
Qed.

(* split the child path into its directory prefix and n *)
Lemma child_prefix : forall r st n, normalS r st ->
  exists pre, render r (n :: st) = pre ++ n /\
              (forall x t, rev pre = x :: t -> x = SL) /\
              clean pre = render r st.
Proof.
  intros r st n Hst. rewrite render_cons. destruct st as [|top rest].
  - destruct r.
    + exists [SL]. split; [reflexivity|]. split; [intros x t E; inversion E; reflexivity | reflexivity].
    + exists []. split; [reflexivity|]. split; [intros x t E; discriminate | reflexivity].
  - exists (render r (top :: rest) ++ [SL]). split; [rewrite <- app_assoc; reflexivity|]. split.
    + intros x t E. rewrite rev_app_distr in E. simpl in E. inversion E; reflexivity.
    + rewrite clean_trailing_slash.
      * apply clean_render. exact Hst.
      * unfold render. destruct r; [discriminate|]. simpl isNil. cbv iota.
        assert (Hc : Forall comp (rev (top :: rest))) by (apply Forall_rev; eapply normalS_comp; exact Hst).
        assert (Hne : rev (top :: rest) <> []) by (simpl; destruct (rev rest); discriminate).
        destruct (joinWith_first _ Hne Hc) as [b [t [Ej _]]]. rewrite Ej. discriminate.
Qed.

Lemma dirOf_child : forall r st n, normalS r st -> plain n -> dirOf (render r (n :: st)) = render r st.
Proof.
  intros r st n Hst Hn. destruct (child_prefix r st n Hst) as [pre [E [Hpre Hclean]]].
  unfold dirOf. rewrite E. rewrite rev_app_distr.
  rewrite dropWhile_app_all by (apply plain_notSL_rev; exact Hn).
  assert (Ed : dropWhile notSL (rev pre) = rev pre).
  { destruct (rev pre) as [|x t] eqn:Er; [reflexivity|]. rewrite (Hpre x t eq_refl). reflexivity. }
  rewrite Ed. rewrite rev_involutive. exact Hclean.
Qed.

Lemma baseOf_child : forall r st n, normalS r st -> plain n -> baseOf (render r (n :: st)) = n.
Proof.
  intros r st n Hst Hn. destruct (child_prefix r st n Hst) as [pre [E [Hpre _]]].
  unfold baseOf. rewrite E.
  assert (Hnn : n <> []) by apply Hn.
  assert (Hnil : isNil (pre ++ n) = false).
  { apply isNil_false. intro H0. apply app_eq_nil in H0. destruct H0; contradiction. }
  rewrite Hnil. rewrite rev_app_distr.
  pose proof (plain_notSL_rev n Hn) as Hrev.
  assert (Ed : dropWhile (fun b => b =? SL) (rev n ++ rev pre) = rev n ++ rev pre).
  { destruct (rev n) as [|y t] eqn:Ern.
    - exfalso. apply Hnn. rewrite <- (rev_involutive n), Ern. reflexivity.
    - inversion Hrev as [|y' t' Hy Ht]; subst. simpl. unfold notSL in Hy. apply negb_true_iff in Hy.
      rewrite Hy. reflexivity. }
  rewrite Ed. rewrite rev_app_distr, !rev_involutive. rewrite rev_app_distr.
  rewrite takeWhile_app_stop.
  - rewrite rev_involutive. apply isNil_false in Hnn. rewrite Hnn. reflexivity.
  - exact Hrev.
  - intros x t Ex. rewrite (Hpre x t Ex). reflexivity.
Qed.

(* the directory statement in one place *)
Lemma name_stays_in_dir : forall d n, name_ok n ->
  let p := join2 d n in
  p = match cleanStack d with
      | [] => if isRooted d then SL :: n else n
      | _ => clean d ++ SL :: n
      end
  /\ clean p = p /\ dirOf p = clean d /\ baseOf p = n.
Proof.
  intros d n Hok p. pose proof (name_ok_plain n Hok) as Hn.
  pose proof (cleanStack_normal d) as Hst.
  assert (Ep : p = render (isRooted d) (n :: cleanStack d)) by (apply join2_child; exact Hn).
  split; [|split; [|split]].
  - rewrite Ep, render_cons, (clean_unfold d). reflexivity.
  - rewrite Ep. apply clean_render. apply normalS_push; assumption.
  - rewrite Ep, (clean_unfold d). apply dirOf_child; assumption.
  - rewrite Ep. apply baseOf_child; assumption.
Qed.

(* ------------------------------------------------------------------ fallbacks and composed names *)
Definition byte_okb (b : N) : bool :=
  (0x20 <=? b) && (b <? 0x100) && negb (existsb (N.eqb b) [0x22;0x2A;0x2F;0x3A;0x3C;0x3E;0x3F;0x5C;0x7C;0x7F]).
Definition first_okb (n : list N) : bool := match n with [] => true | x :: _ => negb (spaceOrDot x) end.
Definition name_okb (n : bytes) : bool :=
  negb (isNil n) && forallb byte_okb n && first_okb n && first_okb (rev n).

Lemma byte_okb_ok : forall b, byte_okb b = true -> byte_ok b.
Proof. intros b H. unfold byte_okb in H. simpl in H. unfold byte_ok. lia. Qed.

Lemma name_okb_ok : forall n, name_okb n = true -> name_ok n.
Proof.
  intros n H. unfold name_okb in H. repeat (apply andb_true_iff in H; destruct H as [H ?]).
  rename H0 into Hl, H1 into Hf, H2 into Hb. apply negb_true_iff in H. apply isNil_false in H.
  split; [exact H|]. split; [|split].
  - rewrite forallb_forall in Hb. apply Forall_forall. intros b Hin. apply byte_okb_ok. apply Hb. exact Hin.
  - intros x t E. subst n. simpl in Hf. apply negb_true_iff in Hf. apply spaceOrDot_false. exact Hf.
  - intros t y E. subst n. rewrite rev_app_distr in Hl. simpl in Hl. apply negb_true_iff in Hl.
    apply spaceOrDot_false. exact Hl.
Qed.

(* a suffix that may follow a good name *)
Definition tail_ok (b : bytes) : Prop := b <> [] /\ Forall byte_ok b /\ last_ok b.

Lemma name_ok_tail : forall n, name_ok n -> tail_ok n.
Proof. intros n [H1 [H2 [_ H4]]]. split; [exact H1 | split; [exact H2 | exact H4]]. Qed.

Lemma tail_ok_prepend : forall a b, Forall byte_ok a -> tail_ok b -> tail_ok (a ++ b).
Proof.
  intros a b Ha [Hb1 [Hb2 Hb3]]. split; [|split].
  - intro E. apply app_eq_nil in E. destruct E; contradiction.
  - apply Forall_app. split; assumption.
  - apply last_ok_app; assumption.
Qed.

Lemma name_ok_app : forall a b, name_ok a -> tail_ok b -> name_ok (a ++ b).
Proof.
  intros a b [Ha1 [Ha2 [Ha3 Ha4]]] [Hb1 [Hb2 Hb3]]. split; [|split; [|split]].
  - intro E. apply app_eq_nil in E. destruct E; contradiction.
  - apply Forall_app. split; assumption.
  - apply first_ok_app; assumption.
  - apply last_ok_app; assumption.
Qed.

Definition digit (b : N) : Prop := 0x30 <= b <= 0x39.

Lemma digit_byte_ok : forall b, digit b -> byte_ok b.
Proof. intros b H. unfold digit in H. unfold byte_ok. lia. Qed.

Lemma digits_tail_ok : forall b, b <> [] -> Forall digit b -> tail_ok b.
Proof.
  intros b Hne H. split; [exact Hne|]. split.
  - eapply Forall_impl; [|exact H]. apply digit_byte_ok.
  - intros t y E. subst b. apply Forall_app in H. destruct H as [_ Hy]. inversion Hy; subst.
    unfold digit in *. lia.
Qed.

Lemma decAux_spec : forall fuel n acc, Forall digit acc -> acc <> [] ->
  Forall digit (decAux fuel n acc) /\ decAux fuel n acc <> [].
Proof.
  induction fuel as [|f IH]; intros n acc Ha Hne; simpl; [split; assumption|].
  assert (Hd : digit (0x30 + n mod 10)) by (unfold digit; lia).
  destruct (n / 10 =? 0).
  - split; [constructor; assumption | discriminate].
  - apply IH; [constructor; assumption | discriminate].
Qed.

Lemma dec_spec : forall n, Forall digit (dec n) /\ dec n <> [].
Proof.
  intros n. unfold dec. simpl decAux.
  assert (Hd : digit (0x30 + n mod 10)) by (unfold digit; lia).
  destruct (n / 10 =? 0).
  - split; [constructor; [exact Hd | constructor] | discriminate].
  - apply decAux_spec; [constructor; [exact Hd | constructor] | discriminate].
Qed.

Lemma dec_tail_ok : forall n, tail_ok (dec n).
Proof. intros n. destruct (dec_spec n). apply digits_tail_ok; assumption. Qed.

Lemma PathOr_ok : forall s fb, name_ok fb -> name_ok (PathOr s fb).
Proof.
  intros s fb H. unfold PathOr. destruct (Path s) as [n|] eqn:E; [|exact H].
  apply Path_ok in E. apply E.
Qed.

Lemma attachmentName_ok : forall i s, name_ok (attachmentName i s).
Proof.
  intros i s. unfold attachmentName. destruct (Path s) as [n|] eqn:E.
  - apply Path_ok in E. apply E.
  - apply name_ok_app; [apply name_okb_ok; reflexivity | apply dec_tail_ok].
Qed.

Lemma name_ok_bytes : forall n, name_ok n -> Forall byte_ok n.
Proof. intros n H. apply H. Qed.

Lemma literal_tail : forall l, name_okb l = true -> tail_ok l.
Proof. intros l H. apply name_ok_tail. apply name_okb_ok. exact H. Qed.

Lemma imageFileName_ok : forall a digs b c, Forall byte_ok digs -> name_ok (imageFileName a digs b c).
Proof.
  intros a digs b c Hd. unfold imageFileName.
  apply name_ok_app; [apply PathOr_ok; apply name_okb_ok; reflexivity|].
  apply tail_ok_prepend; [apply name_ok_bytes; apply name_okb_ok; reflexivity|].
  apply tail_ok_prepend; [exact Hd|].
  apply tail_ok_prepend; [apply name_ok_bytes; apply name_okb_ok; reflexivity|].
  apply tail_ok_prepend; [apply name_ok_bytes; apply PathOr_ok; apply name_okb_ok; reflexivity|].
  apply tail_ok_prepend; [repeat constructor; unfold byte_ok; lia|].
  apply name_ok_tail. apply PathOr_ok. apply name_okb_ok. reflexivity.
Qed.

Lemma fontFileName_ok : forall a b c, name_ok (fontFileName a b c).
Proof.
  intros a b c. unfold fontFileName.
  apply name_ok_app; [apply PathOr_ok; apply name_okb_ok; reflexivity|].
  apply tail_ok_prepend; [apply name_ok_bytes; apply name_okb_ok; reflexivity|].
  apply tail_ok_prepend; [apply name_ok_bytes; apply PathOr_ok; apply name_okb_ok; reflexivity|].
  apply tail_ok_prepend; [repeat constructor; unfold byte_ok; lia|].
  apply name_ok_tail. apply PathOr_ok. apply name_okb_ok. reflexivity.
Qed.

Definition tail_okb (l : bytes) : bool := negb (isNil l) && forallb byte_okb l && first_okb (rev l).

Lemma tail_okb_ok : forall l, tail_okb l = true -> tail_ok l.
Proof.
  intros l H. unfold tail_okb in H. repeat (apply andb_true_iff in H; destruct H as [H ?]).
  rename H0 into Hl, H1 into Hb. apply negb_true_iff in H. apply isNil_false in H.
  split; [exact H|]. split.
  - rewrite forallb_forall in Hb. apply Forall_forall. intros b Hin. apply byte_okb_ok. apply Hb. exact Hin.
  - intros t y E. subst l. rewrite rev_app_distr in Hl. simpl in Hl. apply negb_true_iff in Hl.
    apply spaceOrDot_false. exact Hl.
Qed.

Lemma dotpdf_tail : tail_ok str_dotpdf.
Proof. apply tail_okb_ok. reflexivity. Qed.

Lemma bookmarkFileName_ok : forall i t, name_ok (bookmarkFileName i t).
Proof.
  intros i t. unfold bookmarkFileName. apply name_ok_app; [|exact dotpdf_tail].
  destruct (Path t) as [n|] eqn:E.
  - apply Path_ok in E. apply E.
  - apply name_ok_app; [apply name_okb_ok; reflexivity | apply dec_tail_ok].
Qed.

Lemma multiFillCSVName_ok : forall req digs, digs <> [] -> Forall digit digs -> name_ok (multiFillCSVName req digs).
Proof.
  intros req digs Hne Hd. unfold multiFillCSVName. destruct (Path req) as [n|] eqn:E.
  - apply Path_ok in E. apply E.
  - apply name_ok_app; [apply name_okb_ok; reflexivity | apply digits_tail_ok; assumption].
Qed.

Lemma gobFileName_ok : forall ps n, gobFileName ps = Ok n -> name_ok n.
Proof.
  intros ps n H. unfold gobFileName in H. destruct (Path ps) as [fn|] eqn:E; [|discriminate].
  inversion H; subst n. apply Path_ok in E. apply name_ok_app; [apply E|].
  apply tail_okb_ok. reflexivity.
Qed.

(* ------------------------------------------------------------------ attachment output paths *)
Definition insideDir (d p : bytes) : Prop :=
  exists n, name_ok n /\ p = join2 d n /\ clean p = p /\ dirOf p = clean d /\ baseOf p = n.

Lemma attachmentOutputPath_inside : forall d i s, insideDir d (attachmentOutputPath d i s).
Proof.
  intros d i s. unfold attachmentOutputPath. pose proof (attachmentName_ok i s) as Hok.
  destruct (name_stays_in_dir d _ Hok) as [_ [Hc [Hd Hb]]].
  exists (attachmentName i s). rewrite Hc.
  split; [exact Hok | split; [reflexivity | split; [exact Hc | split; [exact Hd | exact Hb]]]].
Qed.

Lemma outputPathsFrom_inside : forall d names i, Forall (insideDir d) (outputPathsFrom d i names).
Proof.
  intros d names. induction names as [|a t IH]; intro i; simpl; constructor.
  - apply attachmentOutputPath_inside.
  - apply IH.
Qed.

Lemma join2_inside : forall d n, name_ok n -> insideDir d (join2 d n).
Proof.
  intros d n Hok. destruct (name_stays_in_dir d n Hok) as [_ [Hc [Hd Hb]]].
  exists n. split; [exact Hok | split; [reflexivity | split; [exact Hc | split; [exact Hd | exact Hb]]]].
Qed.

Lemma metadataFileName_ok : forall a b d1 d2, Forall byte_ok d1 -> Forall byte_ok d2 ->
  name_ok (metadataFileName a b d1 d2).
Proof.
  intros a b d1 d2 H1 H2. unfold metadataFileName.
  apply name_ok_app; [apply PathOr_ok; apply name_okb_ok; reflexivity|].
  apply tail_ok_prepend; [apply name_ok_bytes; apply name_okb_ok; reflexivity|].
  apply tail_ok_prepend; [apply name_ok_bytes; apply PathOr_ok; apply name_okb_ok; reflexivity|].
  apply tail_ok_prepend; [apply name_ok_bytes; apply name_okb_ok; reflexivity|].
  apply tail_ok_prepend; [exact H1|].
  apply tail_ok_prepend; [apply name_ok_bytes; apply name_okb_ok; reflexivity|].
  apply tail_ok_prepend; [exact H2|].
  apply tail_okb_ok. reflexivity.
Qed.

(* split along bookmarks: whatever the titles and whichever writes fail, every part written is
   Join(outDir, sanitize(title)+".pdf") (or bookmark_N.pdf), a direct child of outDir *)
Lemma bookmarkPaths_inside : forall d titles i, Forall (insideDir d) (bookmarkPathsFrom d i titles).
Proof.
  intros d titles. induction titles as [|t rest IH]; intro i; simpl; constructor.
  - apply join2_inside. apply bookmarkFileName_ok.
  - apply IH.
Qed.

Lemma splitBookmarks_prefix : forall fails d titles i,
  let r := splitBookmarksFrom fails d i titles in
  fst r = firstn (length (fst r)) (bookmarkPathsFrom d i titles) /\
  (snd r = true -> fst r = bookmarkPathsFrom d i titles) /\
  Forall (fun p => fails p = false) (fst r).
Proof.
  intros fails d titles. induction titles as [|t rest IH]; intro i; simpl.
  - split; [reflexivity | split; [reflexivity | constructor]].
  - destruct (fails (join2 d (bookmarkFileName i t))) eqn:Ef; simpl.
    + split; [reflexivity | split; [discriminate | constructor]].
    + destruct (IH (i + 1)) as [H1 [H2 H3]]. split; [|split].
      * f_equal. exact H1.
      * intro Hk. f_equal. apply H2. exact Hk.
      * constructor; assumption.
Qed.

Lemma Forall_firstn : forall {A} (P : A -> Prop) k l, Forall P l -> Forall P (firstn k l).
Proof.
  intros A P k. induction k as [|k IH]; intros l H; simpl; [constructor|].
  destruct l as [|x t]; [constructor|]. inversion H; subst. constructor; [assumption | apply IH; assumption].
Qed.

Lemma splitAlongBookmarks_inside : forall fails d titles,
  let r := splitAlongBookmarks fails d titles in
  Forall (insideDir d) (fst r) /\
  fst r = firstn (length (fst r)) (bookmarkPathsFrom d 0 titles) /\
  (snd r = true -> fst r = bookmarkPathsFrom d 0 titles) /\
  Forall (fun p => fails p = false) (fst r).
Proof.
  intros fails d titles r. unfold r, splitAlongBookmarks.
  destruct (splitBookmarks_prefix fails d titles 0) as [H1 [H2 H3]].
  split; [|split; [exact H1 | split; [exact H2 | exact H3]]].
  rewrite H1. apply Forall_firstn. apply bookmarkPaths_inside.
Qed.

(* ------------------------------------------------------------------ reservation protocol *)
Lemma memb_In : forall p fs, memb p fs = true <-> In p fs.
Proof.
  intros p fs. unfold memb. rewrite existsb_exists. split.
  - intros [x [Hx E]]. apply leqb_eq in E. subst x. exact Hx.
  - intro H. exists p. split; [exact H | apply leqb_eq; reflexivity].
Qed.

Lemma memb_false : forall p fs, memb p fs = false <-> ~ In p fs.
Proof.
  intros p fs. split; intro H.
  - intro Hin. apply memb_In in Hin. congruence.
  - destruct (memb p fs) eqn:E; [apply memb_In in E; contradiction | reflexivity].
Qed.

Lemma reserve_spec : forall failsOther token paths fs rr fs' rr' st,
  reserve failsOther fs token paths rr = (fs', rr', st) ->
  exists new, rr' = rr ++ new /\ fs' = rev new ++ fs /\ NoDup new /\ (forall x, In x new -> ~ In x fs)
    /\ (st = 0 -> new = map (fun p => attachmentReservationPath p token) paths
                  /\ Forall (fun p => failsOther (attachmentReservationPath p token) = false) paths)
    /\ (st = 0 \/ st = 1 \/ st = 2)
    /\ (st = 2 -> exists p, In p paths /\ failsOther (attachmentReservationPath p token) = true)
    /\ (st = 1 -> exists p, In p paths /\ In (attachmentReservationPath p token) fs').
Proof.
  intros failsOther token paths. induction paths as [|p t IH]; intros fs rr fs' rr' st H; simpl in H.
  - inversion H; subst. exists []. rewrite app_nil_r.
    split; [reflexivity|]. split; [reflexivity|]. split; [constructor|]. split; [intros x []|].
    split; [intros _; split; [reflexivity | constructor]|]. split; [left; reflexivity|].
    split; intro E; discriminate.
  - destruct (failsOther (attachmentReservationPath p token)) eqn:Ef.
    { inversion H; subst. exists []. rewrite app_nil_r.
      split; [reflexivity|]. split; [reflexivity|]. split; [constructor|]. split; [intros x []|].
      split; [intro E; discriminate|]. split; [right; right; reflexivity|].
      split; [intros _; exists p; split; [left; reflexivity | exact Ef] | intro E; discriminate]. }
    destruct (memb (attachmentReservationPath p token) fs) eqn:Em.
    + inversion H; subst. exists []. rewrite app_nil_r. apply memb_In in Em.
      split; [reflexivity|]. split; [reflexivity|]. split; [constructor|]. split; [intros x []|].
      split; [intro E; discriminate|]. split; [right; left; reflexivity|].
      split; [intro E; discriminate | intros _; exists p; split; [left; reflexivity | exact Em]].
    + apply memb_false in Em. apply IH in H.
      destruct H as [new [Err [Efs [Hnd [Hnot [Hok [Hst [H2 H1]]]]]]]].
      exists (attachmentReservationPath p token :: new).
      split; [rewrite Err; rewrite <- app_assoc; reflexivity|].
      split; [rewrite Efs; simpl; rewrite <- app_assoc; reflexivity|].
      split; [constructor; [intro Hin; apply (Hnot _ Hin); left; reflexivity | exact Hnd]|].
      split; [intros x [Ex|Hx]; [subst x; exact Em | intro Hf; apply (Hnot _ Hx); right; exact Hf]|].
      split; [intro Hk; destruct (Hok Hk) as [Hm Hfa]; split; [simpl; rewrite Hm; reflexivity | constructor; assumption]|].
      split; [exact Hst|].
      split; intro Hk; [destruct (H2 Hk) as [q [Hq Hfq]] | destruct (H1 Hk) as [q [Hq Hfq]]];
        exists q; (split; [right; exact Hq | exact Hfq]).
Qed.

Lemma filter_none : forall {A} (g : A -> bool) l, (forall x, In x l -> g x = false) -> filter g l = [].
Proof.
  intros A g l. induction l as [|x t IH]; intro H; simpl; [reflexivity|].
  rewrite (H x (or_introl eq_refl)). apply IH. intros y Hy. apply H. right. exact Hy.
Qed.

Lemma filter_all : forall {A} (g : A -> bool) l, (forall x, In x l -> g x = true) -> filter g l = l.
Proof.
  intros A g l. induction l as [|x t IH]; intro H; simpl; [reflexivity|].
  rewrite (H x (or_introl eq_refl)). f_equal. apply IH. intros y Hy. apply H. right. exact Hy.
Qed.

Lemma filter_filter' : forall {A} (f g : A -> bool) l, filter g (filter f l) = filter (fun x => f x && g x) l.
Proof.
  intros A f g l. induction l as [|x t IH]; simpl; [reflexivity|].
  destruct (f x); simpl; [destruct (g x); rewrite IH; reflexivity | exact IH].
Qed.

Lemma release_filter : forall rr fs,
  release fs rr = filter (fun q => forallb (fun r => negb (leqb r q)) rr) fs.
Proof.
  unfold release. induction rr as [|r t IH]; intro fs; simpl.
  - symmetry. apply filter_all. reflexivity.
  - rewrite IH. unfold fsRemove. apply filter_filter'.
Qed.

Lemma release_restores : forall new fs, (forall x, In x new -> ~ In x fs) -> release (rev new ++ fs) new = fs.
Proof.
  intros new fs H. rewrite release_filter. rewrite filter_app.
  rewrite filter_none.
  - simpl. apply filter_all. intros q Hq. apply forallb_forall. intros r Hr.
    apply negb_true_iff. apply leqb_neq. intro E. subst r. apply (H q Hr). exact Hq.
  - intros q Hq. apply in_rev in Hq.
    destruct (forallb (fun r => negb (leqb r q)) new) eqn:E; [|reflexivity].
    rewrite forallb_forall in E. specialize (E q Hq). apply negb_true_iff in E. apply leqb_neq in E. congruence.
Qed.

Lemma NoDup_map_inv' : forall {A B} (f : A -> B) l, NoDup (map f l) -> NoDup l.
Proof.
  intros A B f l. induction l as [|x t IH]; intro H; [constructor|].
  simpl in H. inversion H as [|y l' Hnin Hnd]; subst. constructor; [|apply IH; exact Hnd].
  intro Hin. apply Hnin. apply in_map. exact Hin.
Qed.

Lemma collision_before_write : forall failsOther fs d names tok fs' written st,
  writeAttachments failsOther fs d names tok = (fs', written, st) ->
  (st <> 0 -> written = [] /\ fs' = fs) /\
  (st = 0 -> written = attachmentOutputPaths d names /\ NoDup written /\ Forall (insideDir d) written
             /\ Forall (fun p => failsOther (attachmentReservationPath p tok) = false) written) /\
  (st = 0 \/ st = 1 \/ st = 2) /\
  (st = 2 -> exists p, In p (attachmentOutputPaths d names) /\ failsOther (attachmentReservationPath p tok) = true).
Proof.
  intros failsOther fs d names tok fs' written st H. unfold writeAttachments in H.
  destruct (reserve failsOther fs tok (attachmentOutputPaths d names) []) as [[fs1 rr] st1] eqn:Er.
  apply reserve_spec in Er. destruct Er as [new [Err [Efs [Hnd [Hnot [Hok [Hst [H2 _]]]]]]]].
  simpl in Err. subst rr.
  destruct st1 as [|pp].
  - inversion H; subst. destruct (Hok eq_refl) as [Hm Hfa].
    split; [intro Hk; congruence|]. split; [|split; [left; reflexivity | intro E; discriminate]].
    intros _. split; [reflexivity|]. split; [|split; [apply outputPathsFrom_inside | exact Hfa]].
    eapply NoDup_map_inv'. rewrite <- Hm. exact Hnd.
  - inversion H; subst. split; [|split; [intro E; discriminate | split; [exact Hst | exact H2]]].
    intros _. split; [reflexivity | apply release_restores; exact Hnot].
Qed.
