(* C16 — Decode limits are exact and bounded decoding yields prefixes.
   Property theorems only.  Vocabulary (C16/Model.v, C16/Proofs.v):
     d inp maxLen mdb   Filter.DecodeLength(inp, maxLen) of a filter built with maxDecodeBytes = mdb;
                        maxLen = -1 is Filter.Decode;  mdb = -1 means "no limit"
     decode_limit (-1) mdb = L   the effective limit (mdb = 0 selects the 512 MiB default)
     full               the result of the unlimited decoding d inp (-1) (-1)
     fits l             len l < 2^63 - 1 (a Go slice)
     prefix a b         b = a ++ _ ;   too_short e  <->  e is io.EOF or io.ErrUnexpectedEOF *)
From Coq Require Import ZArith NArith List Bool.
From PV Require Import C16.Model C16.Proofs.
Import ListNotations.
Open Scope Z_scope.

(* ---- copyDecoded (shared by ASCII85, LZW, Flate without predictor), for every decoder stream ---- *)
Theorem C16_copy_limit_exact : forall data st mdb,
  0 <= decode_limit (-1) mdb -> fits data ->
  copy_decoded (data, st) (-1) mdb =
  if len data <=? decode_limit (-1) mdb then (data, st_err st) else ([], Some ELimit).
Proof. exact copy_limit_exact. Qed.
Print Assumptions C16_copy_limit_exact.

Theorem C16_copy_bounded : forall data st n mdb, 0 <= n ->
  copy_decoded (data, st) n mdb =
  if n <=? len data then (take n data, None)
  else (data, Some (match st with REof => EEOF | RUnexp => EUnexpEOF | RErr => EOther end)).
Proof. exact copy_bounded. Qed.
Print Assumptions C16_copy_bounded.

Theorem C16_copy_never_more : forall s mdb b,
  0 <= decode_limit (-1) mdb -> decode_limit (-1) mdb <> max_int64 ->
  copy_decoded s (-1) mdb = (b, None) -> len b <= decode_limit (-1) mdb.
Proof. exact copy_never_more. Qed.
Print Assumptions C16_copy_never_more.

(* ---- ASCIIHex ---- *)
Theorem C16_ahx_limit_exact : forall bb full mdb,
  ahx_decode_length bb (-1) (-1) = DOk full -> 0 <= decode_limit (-1) mdb ->
  ahx_decode_length bb (-1) mdb = if len full <=? decode_limit (-1) mdb then DOk full else DErr ELimit.
Proof. exact ahx_limit_exact. Qed.
Print Assumptions C16_ahx_limit_exact.

Theorem C16_ahx_bounded : forall bb full n mdb,
  ahx_decode_length bb (-1) (-1) = DOk full -> 0 <= n ->
  ahx_decode_length bb n mdb = if n <=? len full then DOk (take n full) else DErr EUnexpEOF.
Proof. exact ahx_bounded. Qed.
Print Assumptions C16_ahx_bounded.

(* ---- RunLength ---- *)
Theorem C16_rl_limit_exact : forall src full mdb,
  rl_decode_length src (-1) (-1) = DOk full -> 0 <= decode_limit (-1) mdb ->
  rl_decode_length src (-1) mdb = if len full <=? decode_limit (-1) mdb then DOk full else DErr ELimit.
Proof. exact rl_limit_exact. Qed.
Print Assumptions C16_rl_limit_exact.

(* RunLength never reports "too short": the result has min(n, |full|) bytes *)
Theorem C16_rl_bounded : forall src full n mdb,
  rl_decode_length src (-1) (-1) = DOk full -> 0 <= n ->
  rl_decode_length src n mdb = DOk (take n full).
Proof. exact rl_bounded. Qed.
Print Assumptions C16_rl_bounded.

(* for every input, also one whose unlimited decoding fails *)
Theorem C16_rl_never_more : forall src mdb out,
  0 <= decode_limit (-1) mdb -> rl_decode_length src (-1) mdb = DOk out -> len out <= decode_limit (-1) mdb.
Proof. exact rl_never_more. Qed.
Print Assumptions C16_rl_never_more.

(* ---- Flate (any inflated stream raw/st, any row function procf), incl. predictor rows ----
   Full statement: as below without the hypothesis pm_row_len pm <= L.  That statement is FALSE for the
   code (C16_flate_rowlen_refuted): decodePostProcess rejects when the row length, which counts the PNG
   filter byte, exceeds the limit, even if the decoded data fits. *)
Theorem C16_flate_limit_exact_partial : forall procf pm raw st mdb full,
  0 <= decode_limit (-1) mdb -> pm_row_len pm <= decode_limit (-1) mdb -> fits full ->
  flate_post_with procf pm (raw, st) (-1) (-1) = DOk full ->
  flate_post_with procf pm (raw, st) (-1) mdb = if len full <=? decode_limit (-1) mdb then DOk full else DErr ELimit.
Proof. exact flate_post_limit_exact. Qed.
Print Assumptions C16_flate_limit_exact_partial.

Theorem C16_flate_rowlen_refuted : exists pm raw mdb full,
  flate_post pm (raw, REof) (-1) (-1) = DOk full /\ len full <= decode_limit (-1) mdb /\
  flate_post pm (raw, REof) (-1) mdb = DErr ELimit.
Proof.
  exists (Build_parms (Some 12) None None (Some 4) None), [0;1;2;3;4]%N, 4, [1;2;3;4]%N.
  vm_compute. repeat split; congruence.
Qed.
Print Assumptions C16_flate_rowlen_refuted.

(* Filter.DecodeLength of Flate with a predictor returns whole rows: a prefix of at least n bytes
   ("will decode at least maxLen bytes"); without predictor exactly n bytes or too-short. *)
Theorem C16_flate_bounded_prefix : forall procf pm raw st n mdb full,
  0 <= n -> decode_limit (-1) mdb < 0 \/ pm_row_len pm <= decode_limit (-1) mdb ->
  flate_post_with procf pm (raw, st) (-1) (-1) = DOk full ->
  (exists out, flate_post_with procf pm (raw, st) n mdb = DOk out /\ prefix out full /\ (n <= len out \/ out = full))
  \/ (len full < n /\ exists e, flate_post_with procf pm (raw, st) n mdb = DErr e /\ too_short e).
Proof. exact flate_post_bounded. Qed.
Print Assumptions C16_flate_bounded_prefix.

(* the row loop never runs out of fuel *)
Theorem C16_flate_rows_fuel : forall proc fuel raw st pd blen maxLen mdb m,
  (1 <= m)%nat -> (length raw < fuel)%nat ->
  flate_rows proc fuel raw st pd blen maxLen mdb m <> DErr EFuel.
Proof. exact flate_rows_fuel. Qed.
Print Assumptions C16_flate_rows_fuel.

(* ---- every filter satisfies the stage law (limit exactness + bounded prefix) ---- *)
Theorem C16_stage_ok_filters :
  stage_ok ahx_decode_length 0 /\ stage_ok rl_decode_length 0 /\
  (forall a85open, stage_ok (a85_decode_length a85open) 0) /\
  (forall lzwopen pm, stage_ok (lzw_decode_length lzwopen pm) 0) /\
  (forall zopen pm, stage_ok (flate_decode_length zopen pm) (pm_row_len pm)).
Proof. exact stage_ok_filters. Qed.
Print Assumptions C16_stage_ok_filters.

(* ---- pipelines of any length (StreamDict.DecodeLengthWithLimit) ----
   The limit applies to the output of every stage: decoding succeeds with the full data iff every
   stage output of the unlimited decoding has at most L bytes, and fails with the limit error otherwise. *)
Theorem C16_pipeline_limit_exact : forall minL mdb sts raw full,
  (forall s, In s sts -> stage_ok (s_dec s) minL) ->
  0 <= decode_limit (-1) mdb -> minL <= decode_limit (-1) mdb ->
  pipe_max sts raw < max_int64 ->
  pipe_decode sts raw (-1) (-1) = DOk full ->
  pipe_decode sts raw (-1) mdb = if pipe_max sts raw <=? decode_limit (-1) mdb then DOk full else DErr ELimit.
Proof. exact pipeline_limit_exact. Qed.
Print Assumptions C16_pipeline_limit_exact.

Theorem C16_pipeline_never_more : forall minL mdb sts raw full out,
  (forall s, In s sts -> stage_ok (s_dec s) minL) -> sts <> [] ->
  0 <= decode_limit (-1) mdb -> minL <= decode_limit (-1) mdb ->
  pipe_max sts raw < max_int64 ->
  pipe_decode sts raw (-1) (-1) = DOk full ->
  pipe_decode sts raw (-1) mdb = DOk out -> out = full /\ len out <= decode_limit (-1) mdb.
Proof. exact pipeline_never_more. Qed.
Print Assumptions C16_pipeline_never_more.

(* StreamDict.DecodeLength n: exactly the first n bytes, or "too short" *)
Theorem C16_pipeline_bounded : forall minL n sts raw full,
  (forall s, In s sts -> stage_ok (s_dec s) minL) -> 0 <= n ->
  pipe_decode sts raw (-1) (-1) = DOk full ->
  (n <= len full /\ pipe_decode sts raw n (-1) = DOk (take n full))
  \/ (len full < n /\ exists e, pipe_decode sts raw n (-1) = DErr e /\ too_short e).
Proof. exact pipeline_bounded. Qed.
Print Assumptions C16_pipeline_bounded.

(* non-vacuity: both branches of the limit theorems occur, bounded decoding of a 2-stage pipeline *)
Example C16_nonvacuous :
  rl_decode_length [2;1;2;3;254;7;128]%N (-1) (-1) = DOk [1;2;3;7;7;7]%N /\
  rl_decode_length [2;1;2;3;254;7;128]%N (-1) 6 = DOk [1;2;3;7;7;7]%N /\
  rl_decode_length [2;1;2;3;254;7;128]%N (-1) 5 = DErr ELimit /\
  rl_decode_length [2;1;2;3;254;7;128]%N 4 0 = DOk [1;2;3;7]%N /\
  ahx_decode_length [52;49;32;52;50;52;62]%N (-1) 3 = DOk [65;66;64]%N /\
  ahx_decode_length [52;49;32;52;50;52;62]%N (-1) 2 = DErr ELimit /\
  ahx_decode_length [52;49;32;52;50;52;62]%N 4 (-1) = DErr EUnexpEOF /\
  pipe_decode [ahx_stage; rl_stage] [48;50;48;49;48;50;48;51;102;101;48;55;56;48;62]%N 5 (-1) = DOk [1;2;3;7;7]%N /\
  pipe_decode [ahx_stage; rl_stage] [48;50;48;49;48;50;48;51;102;101;48;55;56;48;62]%N (-1) 6 = DErr ELimit /\
  pipe_decode [ahx_stage; rl_stage] [48;50;48;49;48;50;48;51;102;101;48;55;56;48;62]%N (-1) 7 = DOk [1;2;3;7;7;7]%N /\
  pipe_max [ahx_stage; rl_stage] [48;50;48;49;48;50;48;51;102;101;48;55;56;48;62]%N = 7.
Proof. vm_compute. repeat split; congruence. Qed.
