(* C10 — generic facts about run: what guard / tight / lc / lb mean. *)
From Coq Require Import NArith List Bool Lia ZifyBool ZifyNat ZifyN.
From PV Require Import Lib.GoInt C10.Model.
Import ListNotations.
Open Scope N_scope.

(* context.Context contract: "After Err returns a non-nil error, successive calls
   to Err return the same error." *)
Definition mono (poll : N -> option N) : Prop :=
  forall i j e, i <= j -> poll i = Some e -> poll j = Some e.

Definition cancelled (poll : N -> option N) (s : state) : Prop := poll (polls s) <> None.

Lemma cancelled_dec : forall poll s, {cancelled poll s} + {poll (polls s) = None}.
Proof.
  intros poll s. unfold cancelled. destruct (poll (polls s)) as [e|].
  - left. discriminate.
  - right. reflexivity.
Qed.

Lemma is_done_true : forall o, is_done o = true -> o = Done.
Proof. intros o H. destruct o; simpl in H; congruence. Qed.

Ltac run_step poll p s o s1 E :=
  destruct (run poll p s) as [o s1] eqn:E.

(* counters only grow *)
Lemma run_grows : forall poll p s o s',
  run poll p s = (o, s') -> polls s <= polls s' /\ late s <= late s'.
Proof.
  intros poll p. induction p as [| | |p IHp q IHq|p IHp q IHq r IHr|p IHp q IHq r IHr];
    intros s o s' H; simpl in H.
  - inversion H; subst. lia.
  - destruct (poll (polls s)); inversion H; subst; simpl; lia.
  - inversion H; subst. lia.
  - run_step poll p s o1 s1 E1. apply IHp in E1.
    destruct (is_done o1).
    + apply IHq in H. lia.
    + inversion H; subst. lia.
  - run_step poll p s o1 s1 E1. apply IHp in E1.
    destruct (is_done o1).
    + apply IHr in H. lia.
    + apply IHq in H. lia.
  - run_step poll p s o1 s1 E1. apply IHp in E1.
    destruct (is_done o1).
    + apply IHr in H. lia.
    + destruct (poll (polls s1)).
      * inversion H; subst. simpl. lia.
      * apply IHq in H. simpl in H. lia.
Qed.

Lemma cancelled_stays : forall poll s s', mono poll ->
  polls s <= polls s' -> cancelled poll s -> cancelled poll s'.
Proof.
  intros poll s s' Hm Hle Hc. unfold cancelled in *.
  destruct (poll (polls s)) as [e|] eqn:E; [|congruence].
  rewrite (Hm _ _ _ Hle E). discriminate.
Qed.

Lemma run_keeps_cancelled : forall poll p s o s', mono poll ->
  run poll p s = (o, s') -> cancelled poll s -> cancelled poll s'.
Proof.
  intros poll p s o s' Hm H Hc. apply run_grows in H.
  apply (cancelled_stays poll s s' Hm); tauto.
Qed.

(* a late poll inside p means the context is cancelled when p returns *)
Lemma late_means_cancelled : forall poll p s o s', mono poll ->
  run poll p s = (o, s') -> late s' <> late s -> cancelled poll s'.
Proof.
  intros poll p. induction p as [| | |p IHp q IHq|p IHp q IHq r IHr|p IHp q IHq r IHr];
    intros s o s' Hm H Hl; simpl in H.
  - inversion H; subst. congruence.
  - destruct (poll (polls s)) as [e|] eqn:E; inversion H; subst; simpl in *.
    + unfold cancelled. simpl. rewrite (Hm (polls s) (polls s + 1) e); [discriminate|lia|exact E].
    + congruence.
  - inversion H; subst. congruence.
  - run_step poll p s o1 s1 E1.
    destruct (N.eq_dec (late s1) (late s)) as [Heq|Hne].
    + destruct (is_done o1).
      * apply (IHq s1 o s' Hm H). congruence.
      * inversion H; subst. congruence.
    + pose proof (IHp s o1 s1 Hm E1 Hne) as Hc1.
      destruct (is_done o1).
      * apply (run_keeps_cancelled poll q s1 o s' Hm H Hc1).
      * inversion H; subst. exact Hc1.
  - run_step poll p s o1 s1 E1.
    destruct (N.eq_dec (late s1) (late s)) as [Heq|Hne].
    + destruct (is_done o1).
      * apply (IHr s1 o s' Hm H). congruence.
      * apply (IHq s1 o s' Hm H). congruence.
    + pose proof (IHp s o1 s1 Hm E1 Hne) as Hc1.
      destruct (is_done o1).
      * apply (run_keeps_cancelled poll r s1 o s' Hm H Hc1).
      * apply (run_keeps_cancelled poll q s1 o s' Hm H Hc1).
  - run_step poll p s o1 s1 E1.
    destruct (is_done o1).
    + destruct (N.eq_dec (late s1) (late s)) as [Heq|Hne].
      * apply (IHr s1 o s' Hm H). congruence.
      * pose proof (IHp s o1 s1 Hm E1 Hne) as Hc1.
        apply (run_keeps_cancelled poll r s1 o s' Hm H Hc1).
    + destruct (poll (polls s1)) as [e|] eqn:E.
      * inversion H; subst. unfold cancelled. simpl.
        rewrite (Hm (polls s1) (polls s1 + 1) e); [discriminate|lia|exact E].
      * destruct (N.eq_dec (late s1) (late s)) as [Heq|Hne].
        -- apply (IHq (tick s1) o s' Hm H). simpl. congruence.
        -- pose proof (IHp s o1 s1 Hm E1 Hne) as Hc1. unfold cancelled in Hc1. congruence.
Qed.

Lemma nopoll_same : forall poll p s o s', nopoll p = true -> run poll p s = (o, s') -> s' = s.
Proof.
  intros poll p. induction p as [| | |p IHp q IHq|p IHp q IHq r IHr|p IHp q IHq r IHr];
    intros s o s' Hn H; simpl in H, Hn; try discriminate.
  - inversion H; reflexivity.
  - inversion H; reflexivity.
  - apply andb_prop in Hn. destruct Hn as [Hp Hq].
    run_step poll p s o1 s1 E1. apply (IHp _ _ _ Hp) in E1. subst s1.
    destruct (is_done o1).
    + apply (IHq _ _ _ Hq H).
    + inversion H; reflexivity.
  - apply andb_prop in Hn. destruct Hn as [Hn Hr]. apply andb_prop in Hn. destruct Hn as [Hp Hq].
    run_step poll p s o1 s1 E1. apply (IHp _ _ _ Hp) in E1. subst s1.
    destruct (is_done o1).
    + apply (IHr _ _ _ Hr H).
    + apply (IHq _ _ _ Hq H).
Qed.

Lemma nofail_done : forall poll p s o s', nofail p = true -> run poll p s = (o, s') -> o = Done.
Proof.
  intros poll p. induction p as [| | |p IHp q IHq|p IHp q IHq r IHr|p IHp q IHq r IHr];
    intros s o s' Hn H; simpl in H, Hn; try discriminate.
  - inversion H; reflexivity.
  - apply andb_prop in Hn. destruct Hn as [Hp Hq].
    run_step poll p s o1 s1 E1. apply (IHp _ _ _ Hp) in E1. subst o1. simpl in H.
    apply (IHq _ _ _ Hq H).
  - apply andb_prop in Hn. destruct Hn as [Hq Hr].
    run_step poll p s o1 s1 E1.
    destruct (is_done o1).
    + apply (IHr _ _ _ Hr H).
    + apply (IHq _ _ _ Hq H).
  - apply andb_prop in Hn. destruct Hn as [Hp Hr].
    run_step poll p s o1 s1 E1. apply (IHp _ _ _ Hp) in E1. subst o1. simpl in H.
    apply (IHr _ _ _ Hr H).
Qed.

(* guard: started cancelled, p does not return Done *)
Lemma guard_sound : forall poll p s o s', mono poll -> guard p = true ->
  cancelled poll s -> run poll p s = (o, s') -> o <> Done.
Proof.
  intros poll p. induction p as [| | |p IHp q IHq|p IHp q IHq r IHr|p IHp q IHq r IHr];
    intros s o s' Hm Hg Hc H; simpl in H, Hg; try discriminate.
  - unfold cancelled in Hc. destruct (poll (polls s)); [|congruence].
    inversion H; subst. discriminate.
  - inversion H; subst. discriminate.
  - run_step poll p s o1 s1 E1.
    pose proof (run_keeps_cancelled poll p s o1 s1 Hm E1 Hc) as Hc1.
    destruct (is_done o1) eqn:Ed.
    + apply is_done_true in Ed. subst o1.
      apply orb_prop in Hg. destruct Hg as [Hg|Hg].
      * exfalso. apply (IHp s Done s1 Hm Hg Hc E1). reflexivity.
      * apply (IHq s1 o s' Hm Hg Hc1 H).
    + inversion H; subst. intro Hd. subst. discriminate.
  - apply andb_prop in Hg. destruct Hg as [Hgq Hgpr].
    run_step poll p s o1 s1 E1.
    pose proof (run_keeps_cancelled poll p s o1 s1 Hm E1 Hc) as Hc1.
    destruct (is_done o1) eqn:Ed.
    + apply is_done_true in Ed. subst o1.
      apply orb_prop in Hgpr. destruct Hgpr as [Hg|Hg].
      * exfalso. apply (IHp s Done s1 Hm Hg Hc E1). reflexivity.
      * apply (IHr s1 o s' Hm Hg Hc1 H).
    + apply (IHq s1 o s' Hm Hgq Hc1 H).
  - run_step poll p s o1 s1 E1.
    pose proof (run_keeps_cancelled poll p s o1 s1 Hm E1 Hc) as Hc1.
    destruct (is_done o1) eqn:Ed.
    + apply is_done_true in Ed. subst o1.
      apply orb_prop in Hg. destruct Hg as [Hg|Hg].
      * exfalso. apply (IHp s Done s1 Hm Hg Hc E1). reflexivity.
      * apply (IHr s1 o s' Hm Hg Hc1 H).
    + unfold cancelled in Hc1. destruct (poll (polls s1)); [|congruence].
      inversion H; subst. intro Hd. subst. discriminate.
Qed.

(* tight: Done means no poll of p was late *)
Lemma tight_sound : forall poll p s s', mono poll -> tight p = true ->
  run poll p s = (Done, s') -> late s' = late s.
Proof.
  intros poll p. induction p as [| | |p IHp q IHq|p IHp q IHq r IHr|p IHp q IHq r IHr];
    intros s s' Hm Ht H; simpl in H, Ht.
  - inversion H; reflexivity.
  - destruct (poll (polls s)); inversion H; subst. reflexivity.
  - discriminate.
  - apply andb_prop in Ht. destruct Ht as [Htq Htp].
    run_step poll p s o1 s1 E1.
    destruct (is_done o1) eqn:Ed; [|inversion H; subst; discriminate].
    apply is_done_true in Ed. subst o1.
    destruct (N.eq_dec (late s1) (late s)) as [Heq|Hne].
    + rewrite <- Heq. apply (IHq s1 s' Hm Htq H).
    + apply orb_prop in Htp. destruct Htp as [Htp|Hgq].
      * exfalso. apply Hne. apply (IHp s s1 Hm Htp E1).
      * exfalso. pose proof (late_means_cancelled poll p s Done s1 Hm E1 Hne) as Hc1.
        apply (guard_sound poll q s1 Done s' Hm Hgq Hc1 H). reflexivity.
  - apply andb_prop in Ht. destruct Ht as [Ht Hnq]. apply andb_prop in Ht. destruct Ht as [Ht Htq].
    apply andb_prop in Ht. destruct Ht as [Htr Htp].
    run_step poll p s o1 s1 E1.
    destruct (N.eq_dec (late s1) (late s)) as [Heq|Hne].
    + rewrite <- Heq. destruct (is_done o1).
      * apply (IHr s1 s' Hm Htr H).
      * apply (IHq s1 s' Hm Htq H).
    + pose proof (late_means_cancelled poll p s o1 s1 Hm E1 Hne) as Hc1.
      destruct (is_done o1) eqn:Ed.
      * apply is_done_true in Ed. subst o1.
        apply orb_prop in Htp. destruct Htp as [Htp|Hgr].
        -- exfalso. apply Hne. apply (IHp s s1 Hm Htp E1).
        -- exfalso. apply (guard_sound poll r s1 Done s' Hm Hgr Hc1 H). reflexivity.
      * apply orb_prop in Hnq. destruct Hnq as [Hnp|Hgq].
        -- exfalso. apply Hne. rewrite (nopoll_same poll p s o1 s1 Hnp E1). reflexivity.
        -- exfalso. apply (guard_sound poll q s1 Done s' Hm Hgq Hc1 H). reflexivity.
  - apply andb_prop in Ht. destruct Ht as [Ht Htq]. apply andb_prop in Ht. destruct Ht as [Htr Htp].
    run_step poll p s o1 s1 E1.
    destruct (is_done o1) eqn:Ed.
    + apply is_done_true in Ed. subst o1.
      destruct (N.eq_dec (late s1) (late s)) as [Heq|Hne].
      * rewrite <- Heq. apply (IHr s1 s' Hm Htr H).
      * apply orb_prop in Htp. destruct Htp as [Htp|Hgr].
        -- exfalso. apply Hne. apply (IHp s s1 Hm Htp E1).
        -- exfalso. pose proof (late_means_cancelled poll p s Done s1 Hm E1 Hne) as Hc1.
           apply (guard_sound poll r s1 Done s' Hm Hgr Hc1 H). reflexivity.
    + destruct (poll (polls s1)) as [e|] eqn:E.
      * discriminate H.
      * destruct (N.eq_dec (late s1) (late s)) as [Heq|Hne].
        -- rewrite <- Heq. apply (IHq (tick s1) s' Hm Htq H).
        -- pose proof (late_means_cancelled poll p s o1 s1 Hm E1 Hne) as Hc1.
           unfold cancelled in Hc1. congruence.
Qed.

(* every context error a run returns is an error the context returned *)
Lemma ctxerr_from_poll : forall poll p s e s',
  run poll p s = (CtxErr e, s') -> exists i, poll i = Some e.
Proof.
  intros poll p. induction p as [| | |p IHp q IHq|p IHp q IHq r IHr|p IHp q IHq r IHr];
    intros s e s' H; simpl in H.
  - discriminate.
  - destruct (poll (polls s)) as [e'|] eqn:E; inversion H; subst. exists (polls s). exact E.
  - discriminate.
  - run_step poll p s o1 s1 E1. destruct (is_done o1) eqn:Ed.
    + apply (IHq _ _ _ H).
    + inversion H; subst. apply (IHp _ _ _ E1).
  - run_step poll p s o1 s1 E1. destruct (is_done o1).
    + apply (IHr _ _ _ H).
    + apply (IHq _ _ _ H).
  - run_step poll p s o1 s1 E1. destruct (is_done o1) eqn:Ed.
    + apply (IHr _ _ _ H).
    + destruct (poll (polls s1)) as [e'|] eqn:E.
      * inversion H; subst. exists (polls s1). exact E.
      * apply (IHq _ _ _ H).
Qed.

(* a context error is only ever returned after a late poll *)
Lemma ctxerr_late : forall poll p s e s',
  run poll p s = (CtxErr e, s') -> late s < late s'.
Proof.
  intros poll p. induction p as [| | |p IHp q IHq|p IHp q IHq r IHr|p IHp q IHq r IHr];
    intros s e s' H; simpl in H.
  - discriminate.
  - destruct (poll (polls s)); inversion H; subst. simpl. lia.
  - discriminate.
  - run_step poll p s o1 s1 E1. pose proof (run_grows _ _ _ _ _ E1) as G.
    destruct (is_done o1).
    + apply IHq in H. lia.
    + inversion H; subst. apply (IHp _ _ _ E1).
  - run_step poll p s o1 s1 E1. pose proof (run_grows _ _ _ _ _ E1) as G.
    destruct (is_done o1).
    + apply IHr in H. lia.
    + apply IHq in H. lia.
  - run_step poll p s o1 s1 E1. pose proof (run_grows _ _ _ _ _ E1) as G.
    destruct (is_done o1).
    + apply IHr in H. lia.
    + destruct (poll (polls s1)).
      * inversion H; subst. simpl. lia.
      * apply IHq in H. simpl in H. lia.
Qed.

(* the late-poll bounds *)
Lemma late_bounds : forall poll p s o s', mono poll -> run poll p s = (o, s') ->
  (cancelled poll s -> late s' <= late s + lc p) /\
  (poll (polls s) = None -> late s' <= late s + lb p).
Proof.
  intros poll p.
  induction p as [| | |p IHp q IHq|p IHp q IHq r IHr|p IHp q IHq r IHr];
    intros s o s' Hm H; simpl in H.
  - inversion H; subst. simpl. lia.
  - destruct (poll (polls s)); inversion H; subst; simpl; lia.
  - inversion H; subst. simpl. lia.
  - (* Seq *)
    run_step poll p s o1 s1 E1.
    destruct (IHp s o1 s1 Hm E1) as [IHpc IHpb].
    assert (Hq : is_done o1 = true -> (cancelled poll s1 -> late s' <= late s1 + lc q) /\
                                      late s' <= late s1 + N.max (lb q) (lc q)).
    { intro Ed. rewrite Ed in H. destruct (IHq s1 o s' Hm H) as [Hqc Hqb].
      split; [exact Hqc|]. destruct (cancelled_dec poll s1) as [Hc1|Hn1].
      - specialize (Hqc Hc1). lia.
      - specialize (Hqb Hn1). lia. }
    split.
    + intro Hc. specialize (IHpc Hc). simpl.
      pose proof (run_keeps_cancelled poll p s o1 s1 Hm E1 Hc) as Hc1.
      destruct (is_done o1) eqn:Ed.
      * destruct (Hq eq_refl) as [Hqc _]. specialize (Hqc Hc1).
        destruct (guard p) eqn:Eg.
        -- exfalso. apply is_done_true in Ed. subst o1.
           apply (guard_sound poll p s Done s1 Hm Eg Hc E1). reflexivity.
        -- lia.
      * inversion H; subst. destruct (guard p); lia.
    + intro Hnc. specialize (IHpb Hnc). simpl.
      destruct (is_done o1) eqn:Ed.
      * destruct (Hq eq_refl) as [Hqc Hqb].
        destruct (N.eq_dec (late s1) (late s)) as [Heq|Hne].
        -- destruct (tight p); lia.
        -- pose proof (late_means_cancelled poll p s o1 s1 Hm E1 Hne) as Hc1.
           specialize (Hqc Hc1).
           destruct (tight p) eqn:Et.
           ++ exfalso. apply Hne. apply is_done_true in Ed. subst o1.
              apply (tight_sound poll p s s1 Hm Et E1).
           ++ lia.
      * inversion H; subst. destruct (tight p); lia.
  - (* Try *)
    run_step poll p s o1 s1 E1.
    destruct (IHp s o1 s1 Hm E1) as [IHpc IHpb].
    assert (Hr : is_done o1 = true -> (cancelled poll s1 -> late s' <= late s1 + lc r) /\
                                      late s' <= late s1 + N.max (lb r) (lc r)).
    { intro Ed. rewrite Ed in H. destruct (IHr s1 o s' Hm H) as [Hrc Hrb].
      split; [exact Hrc|]. destruct (cancelled_dec poll s1) as [Hc1|Hn1].
      - specialize (Hrc Hc1). lia.
      - specialize (Hrb Hn1). lia. }
    assert (Hq : is_done o1 = false -> (cancelled poll s1 -> late s' <= late s1 + lc q) /\
                                      late s' <= late s1 + N.max (lb q) (lc q)).
    { intro Ed. rewrite Ed in H. destruct (IHq s1 o s' Hm H) as [Hqc Hqb].
      split; [exact Hqc|]. destruct (cancelled_dec poll s1) as [Hc1|Hn1].
      - specialize (Hqc Hc1). lia.
      - specialize (Hqb Hn1). lia. }
    split.
    + intro Hc. specialize (IHpc Hc). simpl.
      pose proof (run_keeps_cancelled poll p s o1 s1 Hm E1 Hc) as Hc1.
      destruct (is_done o1) eqn:Ed.
      * destruct (Hr eq_refl) as [Hrc _]. specialize (Hrc Hc1).
        destruct (guard p) eqn:Eg.
        -- exfalso. apply is_done_true in Ed. subst o1.
           apply (guard_sound poll p s Done s1 Hm Eg Hc E1). reflexivity.
        -- lia.
      * destruct (Hq eq_refl) as [Hqc _]. specialize (Hqc Hc1).
        destruct (guard p); lia.
    + intro Hnc. specialize (IHpb Hnc). simpl.
      destruct (N.eq_dec (late s1) (late s)) as [Heq|Hne].
      * destruct (is_done o1) eqn:Ed.
        -- destruct (Hr eq_refl) as [_ Hrb]. destruct (tight p); lia.
        -- destruct (Hq eq_refl) as [_ Hqb]. destruct (tight p); lia.
      * pose proof (late_means_cancelled poll p s o1 s1 Hm E1 Hne) as Hc1.
        destruct (is_done o1) eqn:Ed.
        -- destruct (Hr eq_refl) as [Hrc _]. specialize (Hrc Hc1).
           destruct (tight p) eqn:Et.
           ++ exfalso. apply Hne. apply is_done_true in Ed. subst o1.
              apply (tight_sound poll p s s1 Hm Et E1).
           ++ lia.
        -- destruct (Hq eq_refl) as [Hqc _]. specialize (Hqc Hc1).
           destruct (tight p); lia.
  - (* Retry *)
    run_step poll p s o1 s1 E1.
    destruct (IHp s o1 s1 Hm E1) as [IHpc IHpb].
    assert (Hr : is_done o1 = true -> (cancelled poll s1 -> late s' <= late s1 + lc r) /\
                                      late s' <= late s1 + N.max (lb r) (lc r)).
    { intro Ed. rewrite Ed in H. destruct (IHr s1 o s' Hm H) as [Hrc Hrb].
      split; [exact Hrc|]. destruct (cancelled_dec poll s1) as [Hc1|Hn1].
      - specialize (Hrc Hc1). lia.
      - specialize (Hrb Hn1). lia. }
    assert (Hnf : nofail p = true -> is_done o1 = true).
    { intro En. rewrite (nofail_done poll p s o1 s1 En E1). reflexivity. }
    split.
    + intro Hc. specialize (IHpc Hc). simpl.
      pose proof (run_keeps_cancelled poll p s o1 s1 Hm E1 Hc) as Hc1.
      destruct (is_done o1) eqn:Ed.
      * destruct (Hr eq_refl) as [Hrc _]. specialize (Hrc Hc1).
        destruct (guard p) eqn:Eg.
        -- exfalso. apply is_done_true in Ed. subst o1.
           apply (guard_sound poll p s Done s1 Hm Eg Hc E1). reflexivity.
        -- destruct (nofail p); lia.
      * destruct (nofail p) eqn:En; [specialize (Hnf eq_refl); discriminate|].
        unfold cancelled in Hc1. destruct (poll (polls s1)); [|congruence].
        inversion H; subst. simpl. destruct (guard p); lia.
    + intro Hnc. specialize (IHpb Hnc). simpl.
      destruct (is_done o1) eqn:Ed.
      * destruct (Hr eq_refl) as [Hrc Hrb].
        destruct (N.eq_dec (late s1) (late s)) as [Heq|Hne].
        -- destruct (nofail p); destruct (tight p); lia.
        -- pose proof (late_means_cancelled poll p s o1 s1 Hm E1 Hne) as Hc1.
           specialize (Hrc Hc1).
           destruct (tight p) eqn:Et.
           ++ exfalso. apply Hne. apply is_done_true in Ed. subst o1.
              apply (tight_sound poll p s s1 Hm Et E1).
           ++ destruct (nofail p); lia.
      * destruct (nofail p) eqn:En; [specialize (Hnf eq_refl); discriminate|].
        destruct (poll (polls s1)) as [e|] eqn:E.
        -- inversion H; subst. simpl. destruct (tight p); lia.
        -- assert (Heq : late s1 = late s).
           { destruct (N.eq_dec (late s1) (late s)) as [Heq|Hne]; [exact Heq|].
             pose proof (late_means_cancelled poll p s o1 s1 Hm E1 Hne) as Hc1.
             unfold cancelled in Hc1. congruence. }
           destruct (IHq (tick s1) o s' Hm H) as [IHqc IHqb]. simpl in IHqc, IHqb.
           destruct (cancelled_dec poll (tick s1)) as [Hc2|Hn2].
           ++ specialize (IHqc Hc2). destruct (tight p); lia.
           ++ specialize (IHqb Hn2). destruct (tight p); lia.
Qed.

Lemma late_bound_lbc : forall poll p s o s', mono poll -> run poll p s = (o, s') ->
  late s' <= late s + lbc p.
Proof.
  intros poll p s o s' Hm H. destruct (late_bounds poll p s o s' Hm H) as [Hc Hb].
  unfold lbc. destruct (cancelled_dec poll s) as [Hc1|Hn1].
  - specialize (Hc Hc1). lia.
  - specialize (Hb Hn1). lia.
Qed.
