package main

// Abstraction of a real PDF form into the model's field states (coq/C37/Model.v pfield) and of
// form.Form into the model's JSON entries (jfield), plus the wire encoding shared with ocaml/C37_glue.ml.

import (
	"bytes"
	"errors"
	"fmt"
	"sort"
	"strconv"
	"strings"

	"github.com/pdfcpu/pdfcpu/pkg/api"
	"github.com/pdfcpu/pdfcpu/pkg/pdfcpu/form"
	"github.com/pdfcpu/pdfcpu/pkg/pdfcpu/model"
	"github.com/pdfcpu/pdfcpu/pkg/pdfcpu/primitives"
	"github.com/pdfcpu/pdfcpu/pkg/pdfcpu/types"
)

var errUnsupported = errors.New("unsupported form structure")

func unsupported(format string, a ...any) error {
	return fmt.Errorf("%w: %s", errUnsupported, fmt.Sprintf(format, a...))
}

// ---- wire encoding ----

func wStr(s string) string {
	rr := []rune(s)
	p := make([]string, len(rr))
	for i, r := range rr {
		p[i] = strconv.FormatInt(int64(r), 16)
	}
	return strings.Join(p, ".")
}
func wList(l []string) string {
	p := make([]string, len(l))
	for i, s := range l {
		p[i] = wStr(s)
	}
	return strconv.Itoa(len(l)) + ":" + strings.Join(p, ",")
}
func wOpt(o *string) string {
	if o == nil {
		return "~"
	}
	return "=" + wStr(*o)
}
func wBool(b bool) string {
	if b {
		return "1"
	}
	return "0"
}
func wInt(i int) string {
	if i < 0 {
		return "-" + strconv.FormatInt(int64(-i), 16)
	}
	return strconv.FormatInt(int64(i), 16)
}

// ---- model field states ----

type lbv struct {
	kind int // 0 none, 1 string, 2 array
	s    string
	l    []string
}

func (v lbv) w() string {
	switch v.kind {
	case 1:
		return "=" + wStr(v.s)
	case 2:
		return "@" + wList(v.l)
	}
	return "~"
}

type pfield struct {
	tag       byte // T C R O L
	id, name  string
	locked    bool
	multiline bool
	multi     bool
	maxlen    int
	jsfmt     *string
	v, dv     *string
	asn       string // "~", "!", "=<yes>"
	rawopts   []string
	kids      []*string
	lv, ldv   lbv
}

func (f pfield) w() string {
	switch f.tag {
	case 'T':
		return strings.Join([]string{"T", wStr(f.id), wStr(f.name), wBool(f.locked), wBool(f.multiline), wInt(f.maxlen), wOpt(f.jsfmt), wOpt(f.v), wOpt(f.dv)}, ";")
	case 'C':
		return strings.Join([]string{"C", wStr(f.id), wStr(f.name), wBool(f.locked), wOpt(f.v), wOpt(f.dv), f.asn}, ";")
	case 'R':
		k := make([]string, len(f.kids))
		for i, s := range f.kids {
			k[i] = wOpt(s)
		}
		return strings.Join([]string{"R", wStr(f.id), wStr(f.name), wBool(f.locked), wList(f.rawopts), strconv.Itoa(len(k)) + ":" + strings.Join(k, ","), wOpt(f.v), wOpt(f.dv)}, ";")
	case 'O':
		return strings.Join([]string{"O", wStr(f.id), wStr(f.name), wBool(f.locked), wList(f.rawopts), wOpt(f.v), wOpt(f.dv)}, ";")
	case 'L':
		return strings.Join([]string{"L", wStr(f.id), wStr(f.name), wBool(f.locked), wBool(f.multi), wList(f.rawopts), f.lv.w(), f.ldv.w()}, ";")
	}
	panic("tag")
}

func wPForm(fs []pfield) string {
	p := make([]string, len(fs))
	for i, f := range fs {
		p[i] = f.w()
	}
	return strings.Join(p, "|")
}

func idNum(id string) int {
	n, err := strconv.Atoi(id)
	if err != nil {
		return 1 << 30
	}
	return n
}

// rawOptions decodes an /Opt array without the trimming/dropping that parseOptions applies.
func rawOptions(ctx *model.Context, d types.Dict, key string) ([]string, error) {
	o, ok := d.Find(key)
	if !ok {
		return nil, nil
	}
	a, err := ctx.DereferenceArray(o)
	if err != nil {
		return nil, unsupported("%s: %v", key, err)
	}
	return rawStrings(a)
}

func rawStrings(a types.Array) ([]string, error) {
	var ss []string
	for _, o := range a {
		if sl, ok := o.(types.StringLiteral); ok {
			s, err := types.StringLiteralToString(sl)
			if err != nil {
				return nil, unsupported("string: %v", err)
			}
			ss = append(ss, s)
			continue
		}
		arr, ok := o.(types.Array)
		if !ok || len(arr) != 2 {
			return nil, unsupported("choice entry %T", o)
		}
		sl, ok := arr[1].(types.StringLiteral)
		if !ok {
			return nil, unsupported("choice pair %T", arr[1])
		}
		s, err := types.StringLiteralToString(sl)
		if err != nil {
			return nil, unsupported("string: %v", err)
		}
		ss = append(ss, s)
	}
	return ss, nil
}

func strOrHex(ctx *model.Context, d types.Dict, key string) (*string, error) {
	o, found := d.Find(key)
	if !found {
		return nil, nil
	}
	o, err := ctx.Dereference(o)
	if err != nil {
		return nil, unsupported("%s: %v", key, err)
	}
	s, err := types.StringOrHexLiteral(o)
	if err != nil {
		return nil, unsupported("%s: %v", key, err)
	}
	return s, nil
}

func strLit(d types.Dict, key string) (*string, error) {
	sl := d.StringLiteralEntry(key)
	if sl == nil {
		if _, found := d.Find(key); found {
			return nil, unsupported("%s is not a direct string literal", key)
		}
		return nil, nil
	}
	s, err := types.StringLiteralToString(*sl)
	if err != nil {
		return nil, unsupported("%s: %v", key, err)
	}
	return &s, nil
}

func nameEntry(d types.Dict, key string, decode bool) (*string, error) {
	o, found := d.Find(key)
	if !found {
		return nil, nil
	}
	n, ok := o.(types.Name)
	if !ok {
		return nil, unsupported("%s: %T", key, o)
	}
	s := string(n)
	if decode {
		var err error
		if s, err = types.DecodeName(s); err != nil {
			return nil, unsupported("%s: %v", key, err)
		}
	}
	return &s, nil
}

func listValue(ctx *model.Context, d types.Dict, key string) (lbv, error) {
	o, found := d.Find(key)
	if !found {
		return lbv{}, nil
	}
	switch o := o.(type) {
	case types.StringLiteral:
		s, err := types.StringLiteralToString(o)
		if err != nil {
			return lbv{}, unsupported("%s: %v", key, err)
		}
		return lbv{kind: 1, s: s}, nil
	case types.Array:
		l, err := rawStrings(o)
		if err != nil {
			return lbv{}, err
		}
		return lbv{kind: 2, l: l}, nil
	}
	return lbv{}, unsupported("%s: %T", key, o)
}

// jsFormat mirrors export.go dateFormatFromJSAction with public functions only.
func jsFormat(d types.Dict) *string {
	d1 := d.DictEntry("AA")
	if len(d1) == 0 {
		return nil
	}
	d2 := d1.DictEntry("F")
	if len(d2) == 0 {
		return nil
	}
	sl := d2.StringLiteralEntry("JS")
	if sl == nil {
		return nil
	}
	s, err := types.StringLiteralToString(*sl)
	if err != nil {
		return nil
	}
	if i := strings.Index(s, "AFDate_FormatEx(\""); i >= 0 {
		from := i + len("AFDate_FormatEx(\"")
		to := strings.IndexByte(s[from:], '"')
		if to < 0 {
			return nil
		}
		s = s[from : from+to]
	}
	df, err := primitives.DateFormatForFmtExt(s)
	if err != nil {
		return nil
	}
	return &df.Ext
}

func onState(ctx *model.Context, kid types.Dict) (*string, error) {
	o, ok := kid.Find("AP")
	if !ok {
		return nil, unsupported("kid without AP")
	}
	ap, err := ctx.DereferenceDict(o)
	if err != nil || len(ap) == 0 {
		return nil, unsupported("kid AP")
	}
	o, ok = ap.Find("N")
	if !ok {
		return nil, unsupported("kid AP without N")
	}
	o, err = ctx.Dereference(o)
	if err != nil {
		return nil, unsupported("kid AP/N")
	}
	n, ok := o.(types.Dict)
	if !ok {
		return nil, nil // single appearance stream: no states
	}
	var on *string
	for k := range n {
		k, err := types.DecodeName(k)
		if err != nil {
			return nil, unsupported("state name")
		}
		if k != "Off" {
			if on != nil {
				return nil, unsupported("kid with several on states")
			}
			kk := k
			on = &kk
		}
	}
	return on, nil
}

const (
	ffReadOnly    = 1
	ffMultiline   = 1 << 12
	ffPushbutton  = 1 << 16
	ffCombo       = 1 << 17
	ffMultiselect = 1 << 21
)

// abstractCtx reads the field states off a context.
func abstractCtx(ctx *model.Context) ([]pfield, error) {
	fields, err := form.Fields(ctx.XRefTable)
	if err != nil {
		return nil, unsupported("fields: %v", err)
	}
	var fs []pfield
	for _, o := range fields {
		ir, ok := o.(types.IndirectRef)
		if !ok {
			return nil, unsupported("direct field")
		}
		d, err := ctx.DereferenceDict(ir)
		if err != nil || len(d) == 0 {
			return nil, unsupported("field dict")
		}
		if d.IndirectRefEntry("Parent") != nil {
			return nil, unsupported("top level field with Parent")
		}
		ft := d.NameEntry("FT")
		if ft == nil {
			return nil, unsupported("non-terminal field without FT")
		}
		f := pfield{id: ir.ObjectNumber.String()}
		if s, err := d.StringOrHexLiteralEntry("T"); err != nil {
			return nil, unsupported("T: %v", err)
		} else if s != nil {
			f.name = *s
		}
		ff := 0
		if i := d.IntEntry("Ff"); i != nil {
			ff = *i
		}
		f.locked = ff&ffReadOnly != 0
		kids := d.ArrayEntry("Kids")
		var kidDicts []types.Dict
		for _, k := range kids {
			kd, err := ctx.DereferenceDict(k)
			if err != nil || len(kd) == 0 {
				return nil, unsupported("kid")
			}
			if _, has := kd.Find("T"); has {
				return nil, unsupported("named kid")
			}
			if _, has := kd.Find("Kids"); has {
				return nil, unsupported("nested kids")
			}
			kidDicts = append(kidDicts, kd)
		}
		switch *ft {
		case "Tx":
			f.tag = 'T'
			f.multiline = ff&ffMultiline != 0
			if i := d.IntEntry("MaxLen"); i != nil {
				f.maxlen = *i
			}
			f.jsfmt = jsFormat(d)
			if f.v, err = strOrHex(ctx, d, "V"); err != nil {
				return nil, err
			}
			if f.dv, err = strOrHex(ctx, d, "DV"); err != nil {
				return nil, err
			}
		case "Btn":
			if ff&ffPushbutton != 0 {
				return nil, unsupported("push button")
			}
			if len(kids) > 1 {
				f.tag = 'R'
				if f.rawopts, err = rawOptions(ctx, d, "Opt"); err != nil {
					return nil, err
				}
				for _, kd := range kidDicts {
					on, err := onState(ctx, kd)
					if err != nil {
						return nil, err
					}
					f.kids = append(f.kids, on)
				}
				if f.v, err = nameEntry(d, "V", true); err != nil {
					return nil, err
				}
				if f.dv, err = nameEntry(d, "DV", true); err != nil {
					return nil, err
				}
			} else {
				f.tag = 'C'
				if f.v, err = nameEntry(d, "V", false); err != nil {
					return nil, err
				}
				if f.dv, err = nameEntry(d, "DV", false); err != nil {
					return nil, err
				}
				d1 := d
				if len(kidDicts) == 1 {
					d1 = kidDicts[0]
				}
				f.asn = "~"
				if _, found := d1.Find("AS"); found {
					_, yes, err := primitives.CalcCheckBoxASNames(ctx, d1)
					if err != nil {
						f.asn = "!"
					} else {
						f.asn = "=" + wStr(string(yes))
					}
				}
			}
		case "Ch":
			if len(kids) > 0 {
				return nil, unsupported("choice field with kids")
			}
			if f.rawopts, err = rawOptions(ctx, d, "Opt"); err != nil {
				return nil, err
			}
			if ff&ffCombo != 0 {
				f.tag = 'O'
				if f.v, err = strLit(d, "V"); err != nil {
					return nil, err
				}
				if f.dv, err = strLit(d, "DV"); err != nil {
					return nil, err
				}
			} else {
				f.tag = 'L'
				f.multi = ff&ffMultiselect != 0
				if f.lv, err = listValue(ctx, d, "V"); err != nil {
					return nil, err
				}
				if f.ldv, err = listValue(ctx, d, "DV"); err != nil {
					return nil, err
				}
			}
		default:
			return nil, unsupported("field type %s", *ft)
		}
		fs = append(fs, f)
	}
	sort.SliceStable(fs, func(i, j int) bool { return idNum(fs[i].id) < idNum(fs[j].id) })
	return fs, nil
}

func readCtx(pdf []byte) (*model.Context, error) {
	conf := model.NewDefaultConfiguration()
	conf.Cmd = model.EXPORTFORMFIELDS
	return api.ReadValidateAndOptimize(bytes.NewReader(pdf), conf)
}

func abstractPDF(pdf []byte) ([]pfield, error) {
	ctx, err := readCtx(pdf)
	if err != nil {
		return nil, unsupported("read: %v", err)
	}
	return abstractCtx(ctx)
}

// ---- JSON entries ----

type jentry struct {
	tag   byte // T D C R O L
	id    string
	w     string
	value string // canonical value for the oracle
	lock  bool
}

func canonList(l []string) string { return wList(l) }

// jEntries flattens a form.Form in the order the lookup functions see it (type by type, list order).
func jEntries(f *form.Form) []jentry {
	var es []jentry
	for _, t := range f.TextFields {
		es = append(es, jentry{'T', t.ID, strings.Join([]string{"T", wStr(t.ID), wStr(t.Name), wStr(t.Default), wStr(t.Value), wInt(t.MaxLen), wBool(t.Multiline), wBool(t.Locked)}, ";"), "s" + wStr(t.Value), t.Locked})
	}
	for _, t := range f.DateFields {
		es = append(es, jentry{'D', t.ID, strings.Join([]string{"D", wStr(t.ID), wStr(t.Name), wStr(t.Format), wStr(t.Default), wStr(t.Value), wBool(t.Locked)}, ";"), "s" + wStr(t.Value), t.Locked})
	}
	for _, t := range f.CheckBoxes {
		es = append(es, jentry{'C', t.ID, strings.Join([]string{"C", wStr(t.ID), wStr(t.Name), wBool(t.Default), wBool(t.Value), wBool(t.Locked)}, ";"), "b" + wBool(t.Value), t.Locked})
	}
	for _, t := range f.RadioButtonGroups {
		es = append(es, jentry{'R', t.ID, strings.Join([]string{"R", wStr(t.ID), wStr(t.Name), wList(t.Options), wStr(t.Default), wStr(t.Value), wBool(t.Locked)}, ";"), "s" + wStr(t.Value), t.Locked})
	}
	for _, t := range f.ComboBoxes {
		es = append(es, jentry{'O', t.ID, strings.Join([]string{"O", wStr(t.ID), wStr(t.Name), wBool(t.Editable), wList(t.Options), wStr(t.Default), wStr(t.Value), wBool(t.Locked)}, ";"), "s" + wStr(t.Value), t.Locked})
	}
	for _, t := range f.ListBoxes {
		es = append(es, jentry{'L', t.ID, strings.Join([]string{"L", wStr(t.ID), wStr(t.Name), wBool(t.Multi), wList(t.Options), wList(t.Defaults), wList(t.Values), wBool(t.Locked)}, ";"), "l" + canonList(t.Values), t.Locked})
	}
	return es
}

func wJForm(es []jentry) string {
	p := make([]string, len(es))
	for i, e := range es {
		p[i] = e.w
	}
	return strings.Join(p, "|")
}

// wJFormSorted: entries by numeric id (the order of abstractCtx), for comparing exports.
func wJFormSorted(es []jentry) string {
	c := append([]jentry(nil), es...)
	sort.SliceStable(c, func(i, j int) bool { return idNum(c[i].id) < idNum(c[j].id) })
	return wJForm(c)
}

// dateTable lists the date format primitives.DateFormatForDate assigns to each candidate string.
func dateTable(cands map[string]bool) string {
	keys := make([]string, 0, len(cands))
	for k := range cands {
		keys = append(keys, k)
	}
	sort.Strings(keys)
	var p []string
	for _, k := range keys {
		if df, err := primitives.DateFormatForDate(k); err == nil {
			p = append(p, wStr(k)+"="+wStr(df.Ext))
		}
	}
	return strings.Join(p, ",")
}
