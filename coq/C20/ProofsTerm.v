(* C20 — termination of EqualObjects: the recursion depth check bounds every descent, so a
   fuel that depends only on the limit always suffices (mixed direct/indirect cycles
   included: they end in the error outcome). *)
From Coq Require Import List ZArith NArith Bool Lia.
From PV Require Import C20.Model C20.Spec C20.Proofs.
Import ListNotations.
Open Scope Z_scope.

Lemma join_nf : forall a b, a <> CFuel -> b <> CFuel -> join a b <> CFuel.
Proof. intros a b Ha Hb. destruct a, b; simpl; congruence. Qed.

Section NoFuel.
  Variable g : graph.
  Variable rec : obj -> obj -> list Z -> cmp.
  Hypothesis Hrec : forall x y p, rec x y p <> CFuel.

  Lemma equalArrayElems_nf : forall a1 a2 p, equalArrayElems rec a1 a2 p <> CFuel.
  Proof.
    induction a1 as [|x t1 IH]; destruct a2 as [|y t2]; intro p; simpl; try discriminate.
    pose proof (Hrec x y p) as Hx. destruct (rec x y p); try congruence; try apply IH.
  Qed.
  Lemma equalArrays_nf : forall a1 a2 p, equalArrays rec a1 a2 p <> CFuel.
  Proof. intros a1 a2 p. unfold equalArrays. destruct (negb _). discriminate. apply equalArrayElems_nf. Qed.

  Lemma equalFontNames_nf : forall v1 v2, equalFontNames g v1 v2 <> CFuel.
  Proof.
    intros v1 v2. unfold equalFontNames.
    destruct (deref g v1); try discriminate. destruct (deref g v2); try discriminate.
    destruct (beqb _ _); discriminate.
  Qed.

  Lemma dictEntry_nf : forall fd d2 p kv, dictEntry g rec fd d2 p kv <> CFuel.
  Proof.
    intros fd d2 p kv. unfold dictEntry. destruct (lookup (fst kv) d2). 2: discriminate.
    destruct (fd && special (fst kv)). apply equalFontNames_nf. apply Hrec.
  Qed.

  Lemma equalDicts_nf : forall d1 d2 p, equalDicts g rec d1 d2 p <> CFuel.
  Proof.
    intros d1 d2 p. unfold equalDicts. destruct (negb _). discriminate.
    generalize (typeIsFontDirect d1 && typeIsFontDirect d2). intro fd.
    induction d1 as [|kv t IH]; simpl. discriminate.
    apply join_nf. apply dictEntry_nf. exact IH.
  Qed.

  Lemma equalStreamDicts_nf : forall d1 r1 d2 r2 p, equalStreamDicts g rec d1 r1 d2 r2 p <> CFuel.
  Proof.
    intros d1 r1 d2 r2 p. unfold equalStreamDicts.
    pose proof (equalDicts_nf d1 d2 p) as H.
    destruct (equalDicts g rec d1 d2 p); try congruence.
    destruct r1. destruct (beqb _ _); discriminate. discriminate.
  Qed.

  Lemma compareDeref_nf : forall o1 o2 p, compareDeref g rec o1 o2 p <> CFuel.
  Proof.
    intros o1 o2 p. unfold compareDeref.
    destruct (deref g o1), (deref g o2); try discriminate;
      try (match goal with |- (if ?c then _ else _) <> _ => destruct c; discriminate end).
    - apply equalArrays_nf.
    - apply equalDicts_nf.
    - apply equalStreamDicts_nf.
  Qed.
End NoFuel.

Lemma equalObjectsD_terminates : forall limit g fuel depth o1 o2 pairs,
  (Z.to_nat (limit + 1 - depth) + 1 <= fuel)%nat ->
  equalObjectsD fuel limit g o1 o2 pairs depth <> CFuel.
Proof.
  intros limit g fuel. induction fuel as [|f IH]; intros depth o1 o2 pairs L. lia.
  simpl. destruct (limit <? depth) eqn:EL. discriminate.
  apply Z.ltb_ge in EL.
  assert (forall x y p, equalObjectsD f limit g x y p (depth + 1) <> CFuel) as Hrec.
  { intros x y p. apply IH. replace (limit + 1 - depth) with (Z.succ (limit + 1 - (depth + 1))) in L by lia.
    rewrite Z2Nat.inj_succ in L by lia. lia. }
  destruct o1; try (apply compareDeref_nf; exact Hrec).
  destruct o2; try (apply compareDeref_nf; exact Hrec).
  destruct ((nr =? nr0) && (gen =? gen0)). discriminate.
  destruct (containsPair pairs nr nr0). discriminate.
  apply compareDeref_nf. exact Hrec.
Qed.

(* for every graph (mixed cycles included), every limit, every pair of objects and every
   caller-supplied pairs slice: the fuel enoughFuel limit (a function of the limit only)
   suffices, and so does any larger one *)
Theorem equal_objects_terminates : forall limit g o1 o2 pairs fuel,
  (enoughFuel limit <= fuel)%nat -> EqualObjects fuel limit g o1 o2 pairs <> CFuel.
Proof.
  intros limit g o1 o2 pairs fuel L. unfold EqualObjects. apply equalObjectsD_terminates.
  unfold enoughFuel in L. replace (limit + 1 - 0) with (limit + 1) by lia. exact L.
Qed.

(* the former non-termination witness:  1 0 obj [[1 0 R]]   2 0 obj [1 0 R]  now ends in the
   error outcome *)
Definition mixed_g : graph := fun nr =>
  match nr with
  | 1 => OArr [OArr [ORef 1 0]]
  | 2 => OArr [ORef 1 0]
  | _ => ONull
  end.
Lemma mixed_cycle_errors :
  EqualObjects (enoughFuel 100) 100 mixed_g (ORef 1 0) (ORef 2 0) [] = CE /\
  EqualObjects (enoughFuel 3) 3 mixed_g (ORef 1 0) (ORef 2 0) [] = CE.
Proof. split; vm_compute; reflexivity. Qed.
