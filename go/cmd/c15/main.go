// Harness for C15: stream filters round-trip for every accepted filter pipeline.
//
// K (correspondence): ASCIIHex / RunLength Encode and Decode, AHx/RL pipelines through
// StreamDict.Encode / StreamDict.Decode, and what flate.Decode makes of flate.Encode's output under
// predictor parameters are compared byte-for-byte with the extracted model.
// O (oracle): decode(encode(x)) == x on the real code for every encodable filter with every accepted
// decode-parameter combination (LZW EarlyChange, Flate/LZW Predictor/Colors/BitsPerComponent/Columns)
// and for StreamDict pipelines of length 1..3, including decode -> modify -> re-encode -> decode.
package main

import (
	"bytes"
	"errors"
	"fmt"
	"io"
	"sort"
	"strconv"
	"strings"

	"github.com/pdfcpu/pdfcpu/pkg/filter"
	"github.com/pdfcpu/pdfcpu/pkg/pdfcpu/types"
	"verif/vh"
)

var r *vh.Run

func cls(err error) string {
	switch {
	case err == nil:
		return ""
	case errors.Is(err, filter.ErrDecodeLimitExceeded):
		return "limit"
	case errors.Is(err, io.ErrUnexpectedEOF):
		return "unexpeof"
	case errors.Is(err, io.EOF):
		return "eof"
	}
	return "other"
}

func res(b []byte, err error) string {
	if err != nil {
		return "err:" + cls(err)
	}
	return "ok:" + vh.Hex(b)
}

func guard(f func() ([]byte, error)) (b []byte, err error) {
	defer func() {
		if x := recover(); x != nil {
			b, err = nil, fmt.Errorf("panic: %v", x)
		}
	}()
	return f()
}

func decodeWith(name string, parms map[string]int, in []byte) ([]byte, error) {
	return guard(func() ([]byte, error) {
		f, err := filter.NewFilter(name, parms, -1)
		if err != nil {
			return nil, err
		}
		rd, err := f.Decode(bytes.NewReader(in))
		if err != nil {
			return nil, err
		}
		return io.ReadAll(rd)
	})
}

func encodeWith(name string, parms map[string]int, in []byte) ([]byte, error) {
	return guard(func() ([]byte, error) {
		f, err := filter.NewFilter(name, parms)
		if err != nil {
			return nil, err
		}
		rd, err := f.Encode(bytes.NewReader(in))
		if err != nil {
			return nil, err
		}
		return io.ReadAll(rd)
	})
}

// ---------------------------------------------------------------- generators

func rnd(n int) []byte {
	b := make([]byte, n)
	for i := range b {
		b[i] = byte(r.Rand.Intn(256))
	}
	return b
}

func rep(x byte, n int) []byte { return bytes.Repeat([]byte{x}, n) }

func nonrun(n int) []byte {
	b := make([]byte, n)
	for i := range b {
		b[i] = byte(r.Rand.Intn(256))
		for i > 0 && b[i] == b[i-1] {
			b[i] = byte(r.Rand.Intn(256))
		}
	}
	return b
}

func cat(bs ...[]byte) []byte { return bytes.Join(bs, nil) }

func genData() [][]byte {
	var out [][]byte
	out = append(out, []byte{}, []byte{0}, []byte{0x80}, []byte{0x80, 0x80}, []byte{1, 1, 2}, []byte{1, 2, 2}, []byte{1, 2, 2, 3}, []byte{'~', '>'}, []byte{'>', '>'}, []byte("z\r\n"))
	for _, n := range []int{2, 3, 4, 5, 126, 127, 128, 129, 130, 255, 256, 257, 258, 384, 385, 511, 512, 513} {
		out = append(out, rep(byte(r.Rand.Intn(256)), n))
		out = append(out, nonrun(n))
		out = append(out, rep(0, n)) // ASCII85 'z' groups
		alt := make([]byte, n)
		for i := range alt {
			alt[i] = byte(i % 2)
		}
		out = append(out, alt)
	}
	for _, n := range []int{126, 127, 128, 129} {
		x := byte(r.Rand.Intn(256))
		out = append(out, cat(nonrun(n), rep(x, 3)))
		out = append(out, cat(rep(x, n), nonrun(5)))
		nr := nonrun(n)
		out = append(out, cat(nr, []byte{nr[n-1]}))
		out = append(out, cat(nr, []byte{nr[n-1], nr[n-1]}))
		out = append(out, cat(rep(x, n), rep(x+1, n)))
		out = append(out, cat(nonrun(n-1), rep(x, 2), nonrun(n)))
	}
	// lengths around LZW code-width boundaries (codes 511 / 1023 / 2047 / 4095): incompressible data
	for _, n := range []int{250, 254, 255, 256, 257, 760, 766, 767, 768, 1790, 1791, 1792, 3838, 3839, 3840, 3841, 4200} {
		if n > 1000 && !r.Thorough() && r.Rand.Intn(2) == 0 {
			continue
		}
		out = append(out, nonrun(n))
	}
	n := r.Pick(40, 400)
	for i := 0; i < n; i++ {
		l := r.Rand.Intn(r.Pick(80, 600))
		b := make([]byte, l)
		a := 1 + r.Rand.Intn(3)
		for j := range b {
			b[j] = byte(r.Rand.Intn(a + 1))
		}
		out = append(out, b)
		out = append(out, rnd(r.Rand.Intn(r.Pick(80, 500))))
		var m []byte
		for k := r.Rand.Intn(5); k >= 0; k-- {
			switch r.Rand.Intn(3) {
			case 0:
				m = append(m, rep(byte(r.Rand.Intn(4)), 1+r.Rand.Intn(140))...)
			case 1:
				m = append(m, nonrun(1+r.Rand.Intn(140))...)
			default:
				m = append(m, rnd(r.Rand.Intn(10))...)
			}
		}
		out = append(out, m)
	}
	return out
}

// ---------------------------------------------------------------- parameters

type pset struct {
	name  string
	parms map[string]int
}

func (p pset) pred() int {
	if v, ok := p.parms["Predictor"]; ok {
		return v
	}
	return 1
}

func (p pset) String() string {
	if len(p.parms) == 0 {
		return p.name
	}
	keys := make([]string, 0, len(p.parms))
	for k := range p.parms {
		keys = append(keys, k)
	}
	sort.Strings(keys)
	var s []string
	for _, k := range keys {
		s = append(s, k+"="+strconv.Itoa(p.parms[k]))
	}
	return p.name + "{" + strings.Join(s, " ") + "}"
}

func optInt(m map[string]int, k string) string {
	if v, ok := m[k]; ok {
		return vh.Int(int64(v))
	}
	return ""
}

// every parameter combination of the grid that the decoder accepts for Flate / LZW
func predictorGrid() []map[string]int {
	var out []map[string]int
	for _, pred := range []int{1, 2, 10, 11, 12, 13, 14, 15} {
		for _, colors := range []int{0, 1, 3, 4} {
			for _, bpc := range []int{0, 1, 2, 4, 8, 16} {
				for _, cols := range []int{0, 1, 2, 5} {
					m := map[string]int{"Predictor": pred}
					if colors > 0 {
						m["Colors"] = colors
					}
					if bpc > 0 {
						m["BitsPerComponent"] = bpc
					}
					if cols > 0 {
						m["Columns"] = cols
					}
					out = append(out, m)
				}
			}
		}
	}
	return out
}

func withEC(m map[string]int, ec int) map[string]int {
	o := map[string]int{}
	for k, v := range m {
		o[k] = v
	}
	if ec >= 0 {
		o["EarlyChange"] = ec
	}
	return o
}

// failure class of a configuration
func classOf(ps []pset, generic string) string {
	for _, p := range ps {
		if p.name == filter.LZW && p.pred() > 1 {
			return "lzw-predictor-rejected"
		}
	}
	for _, p := range ps {
		if p.name == filter.Flate && p.pred() > 1 {
			return "flate-encode-ignores-predictor"
		}
	}
	return generic
}

// fail reports an oracle failure; the two known predictor classes are written at most 40 times
// each (vh keeps the first 2000 failures only; further ones are counted in the distribution).
var knownSeen = map[string]int{}

func fail(class string, input any, detail string) {
	if class == "lzw-predictor-rejected" || class == "flate-encode-ignores-predictor" {
		knownSeen[class]++
		if knownSeen[class] > 40 {
			r.Count("further-failures:" + class)
			return
		}
	}
	r.OracleFail(class, input, detail)
}

// roundtrip evaluates decode(encode(d)) == d on the real filter and returns what decode produced.
func roundtrip(p pset, d []byte) (got []byte, err error) {
	e, err := encodeWith(p.name, p.parms, d)
	if err != nil {
		r.OracleFail("encode-fails:"+p.name, map[string]any{"filter": p.String(), "data": vh.Hex(d)}, err.Error())
		return nil, err
	}
	got, err = decodeWith(p.name, p.parms, e)
	r.Count("filter:" + p.name + ":pred" + strconv.Itoa(p.pred()))
	if err == nil && bytes.Equal(got, d) {
		r.OracleOK()
		return
	}
	fail(classOf([]pset{p}, "roundtrip:"+p.name), map[string]any{"filter": p.String(), "data": vh.Hex(d), "encoded": vh.Hex(e)},
		"decode(encode(x)) = "+trunc(res(got, err)))
	return
}

func trunc(s string) string {
	if len(s) > 120 {
		return s[:120] + "..."
	}
	return s
}

func sectionFilters(data [][]byte) {
	grid := predictorGrid()
	for i, d := range data {
		// correspondence for the concretely modelled codecs
		e, err := encodeWith(filter.ASCIIHex, nil, d)
		r.Case("ahx_encode", []string{vh.Hex(d)}, res(e, err))
		dd, derr := decodeWith(filter.ASCIIHex, nil, e)
		r.Case("ahx_decode", []string{vh.Hex(e)}, res(dd, derr))
		e, err = encodeWith(filter.RunLength, nil, d)
		r.Case("rl_encode", []string{vh.Hex(d)}, res(e, err))
		dd, derr = decodeWith(filter.RunLength, nil, e)
		r.Case("rl_decode", []string{vh.Hex(e)}, res(dd, derr))

		roundtrip(pset{filter.ASCIIHex, nil}, d)
		roundtrip(pset{filter.RunLength, nil}, d)
		roundtrip(pset{filter.ASCII85, nil}, d)
		for _, ec := range []int{-1, 0, 1} {
			roundtrip(pset{filter.LZW, withEC(nil, ec)}, d)
		}
		roundtrip(pset{filter.Flate, nil}, d)
		// decode parameters: the whole grid on short data, a sample of it on the rest
		for j, m := range grid {
			if len(d) > 40 && (i+j)%r.Pick(97, 13) != 0 {
				continue
			}
			if len(d) <= 40 && !r.Thorough() && (i+j)%11 != 0 && i > 7 {
				continue
			}
			fp := pset{filter.Flate, m}
			got, gerr := roundtrip(fp, d)
			roundtrip(pset{filter.LZW, withEC(m, []int{-1, 0, 1}[(i+j)%3])}, d)
			if len(d) <= 64 {
				// model of flate.Decode applied to the deflated input itself
				r.Case("flate_reencode", []string{vh.Hex(d), optInt(m, "Predictor"), optInt(m, "Colors"), optInt(m, "BitsPerComponent"), optInt(m, "Columns")}, res(got, gerr))
			}
		}
	}
}

// ---------------------------------------------------------------- pipelines through StreamDict

func mkDict(m map[string]int) types.Dict {
	if len(m) == 0 {
		return nil
	}
	d := types.Dict{}
	for k, v := range m {
		d[k] = types.Integer(v)
	}
	return d
}

func genStage(grid []map[string]int) (pset, string) {
	switch k := r.Rand.Intn(8); k {
	case 0:
		return pset{filter.ASCIIHex, nil}, "AHx"
	case 1:
		return pset{filter.RunLength, nil}, "RL"
	case 2:
		return pset{filter.ASCII85, nil}, ""
	case 3:
		return pset{filter.LZW, withEC(nil, r.Rand.Intn(3)-1)}, ""
	case 4:
		return pset{filter.Flate, nil}, ""
	case 5:
		return pset{filter.Flate, map[string]int{"Predictor": 1, "Columns": 1 + r.Rand.Intn(4)}}, ""
	case 6:
		return pset{filter.Flate, grid[r.Rand.Intn(len(grid))]}, ""
	default:
		return pset{filter.LZW, withEC(grid[r.Rand.Intn(len(grid))], r.Rand.Intn(3)-1)}, ""
	}
}

func sdEncode(pl []types.PDFFilter, content []byte) ([]byte, error) {
	return guard(func() ([]byte, error) {
		sd := types.NewStreamDict(types.NewDict(), 0, nil, nil, pl)
		sd.Content = content
		if err := sd.Encode(); err != nil {
			return nil, err
		}
		if sd.StreamLength == nil || *sd.StreamLength != int64(len(sd.Raw)) {
			return nil, errors.New("StreamLength not updated")
		}
		return sd.Raw, nil
	})
}

func sdDecode(pl []types.PDFFilter, raw []byte) ([]byte, error) {
	return guard(func() ([]byte, error) {
		sd := types.NewStreamDict(types.NewDict(), 0, nil, nil, pl)
		sd.Raw = raw
		if err := sd.Decode(); err != nil {
			return nil, err
		}
		return sd.Content, nil
	})
}

func sectionPipelines(data [][]byte) {
	grid := predictorGrid()
	n := r.Pick(400, 6000)
	for i := 0; i < n; i++ {
		d := data[r.Rand.Intn(len(data))]
		if len(d) > r.Pick(200, 600) {
			d = d[:r.Pick(200, 600)]
		}
		k := 1 + r.Rand.Intn(3)
		var ps []pset
		var pl []types.PDFFilter
		var names, mnames []string
		allModel := true
		for j := 0; j < k; j++ {
			var p pset
			var mn string
			if i%4 == 0 {
				p, mn = []pset{{filter.ASCIIHex, nil}, {filter.RunLength, nil}}[r.Rand.Intn(2)], ""
				mn = map[string]string{filter.ASCIIHex: "AHx", filter.RunLength: "RL"}[p.name]
			} else {
				p, mn = genStage(grid)
			}
			ps = append(ps, p)
			pl = append(pl, types.PDFFilter{Name: p.name, DecodeParms: mkDict(p.parms)})
			names = append(names, p.String())
			mnames = append(mnames, mn)
			if mn == "" {
				allModel = false
			}
		}
		pname := strings.Join(names, ",")
		r.Count("pipeline-len:" + strconv.Itoa(k))
		raw, err := sdEncode(pl, d)
		if allModel {
			r.Case("pipe_encode", []string{strings.Join(mnames, ","), vh.Hex(d)}, res(raw, err))
		}
		if err != nil {
			r.OracleFail("pipeline-encode-fails", map[string]any{"pipeline": pname, "data": vh.Hex(d)}, err.Error())
			continue
		}
		got, derr := sdDecode(pl, raw)
		if allModel {
			r.Case("pipe_decode", []string{strings.Join(mnames, ","), vh.Hex(raw)}, res(got, derr))
			r.Case("rt_pipe", []string{strings.Join(mnames, ","), vh.Hex(d)}, "ok:"+vh.Hex(d))
		}
		if derr == nil && bytes.Equal(got, d) {
			r.OracleOK()
		} else {
			fail(classOf(ps, "pipeline-roundtrip"), map[string]any{"pipeline": pname, "data": vh.Hex(d), "raw": vh.Hex(raw)},
				"StreamDict.Decode(StreamDict.Encode(x)) = "+trunc(res(got, derr)))
			continue
		}
		// decode, modify, re-encode, decode (what optimize / write do with a stream object)
		y, yerr := guard(func() ([]byte, error) {
			sd := types.NewStreamDict(types.NewDict(), 0, nil, nil, pl)
			sd.Raw = raw
			if err := sd.Decode(); err != nil {
				return nil, err
			}
			mod := append([]byte(nil), sd.Content...)
			switch r.Rand.Intn(3) {
			case 0:
				mod = append(mod, rnd(1+r.Rand.Intn(5))...)
			case 1:
				if len(mod) > 0 {
					mod[r.Rand.Intn(len(mod))] ^= 0x55
				}
			default:
				mod = mod[:len(mod)/2]
			}
			sd.Content = mod
			if err := sd.Encode(); err != nil {
				return nil, err
			}
			back, err := sdDecode(pl, sd.Raw)
			if err != nil {
				return nil, err
			}
			if !bytes.Equal(back, mod) {
				return nil, fmt.Errorf("re-encoded stream decodes to %s, want %s", trunc(vh.Hex(back)), trunc(vh.Hex(mod)))
			}
			return back, nil
		})
		_ = y
		if yerr == nil {
			r.OracleOK()
		} else {
			fail(classOf(ps, "pipeline-reencode"), map[string]any{"pipeline": pname, "data": vh.Hex(d)}, yerr.Error())
		}
	}
}

// ---------------------------------------------------------------- repeated filter names, per-stage parameters

// manualEncode folds Filter.Encode over the pipeline from the last stage to the first, every stage
// with a filter constructed from its OWN parameters (the model's spec_encode); inter[j] is the input
// of decode stage j, inter[len] the content.
func manualEncode(ps []pset, content []byte) ([][]byte, error) {
	inter := make([][]byte, len(ps)+1)
	inter[len(ps)] = content
	for j := len(ps) - 1; j >= 0; j-- {
		e, err := encodeWith(ps[j].name, ps[j].parms, inter[j+1])
		if err != nil {
			return nil, err
		}
		inter[j] = e
	}
	return inter, nil
}

func lzwParms() map[string]int {
	m := withEC(nil, r.Rand.Intn(3)-1)
	switch r.Rand.Intn(12) {
	case 0:
		m["Predictor"] = []int{2, 10, 11, 12, 13, 14, 15}[r.Rand.Intn(7)]
		m["Columns"] = 1 + r.Rand.Intn(5)
	case 1, 2:
		m["Predictor"] = 1
		m["Columns"] = 1 + r.Rand.Intn(5)
	}
	return m
}

func flateParms() map[string]int {
	m := map[string]int{}
	switch r.Rand.Intn(6) {
	case 0:
		m["Predictor"] = []int{2, 10, 11, 12, 13, 14, 15}[r.Rand.Intn(7)]
	case 1, 2, 3:
		m["Predictor"] = 1
	}
	if len(m) > 0 {
		if r.Rand.Intn(2) == 0 {
			m["Columns"] = 1 + r.Rand.Intn(6)
		}
		if r.Rand.Intn(2) == 0 {
			m["Colors"] = 1 + r.Rand.Intn(4)
		}
		if r.Rand.Intn(2) == 0 {
			m["BitsPerComponent"] = []int{1, 2, 4, 8, 16}[r.Rand.Intn(5)]
		}
	}
	return m
}

func stageOf(name string) pset {
	switch name {
	case filter.LZW:
		return pset{name, lzwParms()}
	case filter.Flate:
		return pset{name, flateParms()}
	}
	return pset{name, nil}
}

// content with lengths across the LZW code-width boundaries (9->10, 10->11, 11->12 bits, table reset)
func widthData() [][]byte {
	var out [][]byte
	ranges := [][2]int{{250, 300}, {500, 520}, {1020, 1050}, {2040, 2060}, {4090, 4100}}
	for _, rg := range ranges {
		reps := r.Pick(2, 8)
		for i := 0; i < reps; i++ {
			n := rg[0] + r.Rand.Intn(rg[1]-rg[0]+1)
			out = append(out, rnd(n), nonrun(n)) // incompressible
			c := make([]byte, n)                 // compressible
			for j := range c {
				c[j] = "etaoin shrdlu\n"[r.Rand.Intn(14)]
			}
			out = append(out, c)
			out = append(out, cat(rep(byte(i), n/2), rnd(n-n/2)))
		}
	}
	return out
}

func checkSpecPipeline(ps []pset, d []byte) {
	var pl []types.PDFFilter
	var names []string
	for _, p := range ps {
		pl = append(pl, types.PDFFilter{Name: p.name, DecodeParms: mkDict(p.parms)})
		names = append(names, p.String())
	}
	pname := strings.Join(names, ",")
	in := map[string]any{"pipeline": pname, "data": vh.Hex(d)}
	r.Count("repeated-names-pipeline-len:" + strconv.Itoa(len(ps)))
	raw, err := sdEncode(pl, d)
	if err != nil {
		r.OracleFail("pipeline-encode-fails", in, err.Error())
		return
	}
	// which parameters was each stage encoded with?  StreamDict.Encode must equal the stage-wise fold
	// of Filter.Encode with each stage's own parameters (spec_encode of the model) ...
	inter, merr := manualEncode(ps, d)
	if merr != nil {
		r.OracleFail("pipeline-encode-fails", in, merr.Error())
		return
	}
	if bytes.Equal(raw, inter[0]) {
		r.OracleOK()
	} else {
		r.OracleFail("pipeline-encode-not-stagewise", in, "StreamDict.Encode differs from encoding every stage with its own DecodeParms: "+trunc(vh.Hex(raw))+" vs "+trunc(vh.Hex(inter[0])))
	}
	// ... and decoding each stage of StreamDict's output separately with its own parameters must
	// reproduce the stage inputs
	known := classOf(ps, "") != ""
	cur := raw
	for j, p := range ps {
		if p.pred() > 1 && (p.name == filter.LZW || p.name == filter.Flate) {
			break // known predictor findings: this stage does not invert its encoder
		}
		dec, derr := decodeWith(p.name, p.parms, cur)
		if derr != nil || !bytes.Equal(dec, inter[j+1]) {
			r.OracleFail("pipeline-stage-decode-mismatch", map[string]any{"pipeline": pname, "data": vh.Hex(d), "stage": j},
				"decoding stage "+strconv.Itoa(j)+" of StreamDict.Encode's output with the stage's own parameters gives "+trunc(res(dec, derr)))
			break
		}
		r.OracleOK()
		cur = dec
	}
	got, derr := sdDecode(pl, raw)
	if derr == nil && bytes.Equal(got, d) {
		r.OracleOK()
	} else if known {
		fail(classOf(ps, ""), in, "StreamDict.Decode(StreamDict.Encode(x)) = "+trunc(res(got, derr)))
	} else {
		r.OracleFail("pipeline-roundtrip", map[string]any{"pipeline": pname, "data": vh.Hex(d), "raw": vh.Hex(raw)},
			"StreamDict.Decode(StreamDict.Encode(x)) = "+trunc(res(got, derr)))
	}
}

func sectionRepeatedNames() {
	data := widthData()
	ec0 := pset{filter.LZW, map[string]int{"EarlyChange": 0}}
	ec1 := pset{filter.LZW, map[string]int{"EarlyChange": 1}}
	lzw := pset{filter.LZW, nil}
	ahx := pset{filter.ASCIIHex, nil}
	fixed := [][]pset{{ec0, lzw}, {lzw, ec0}, {lzw, ahx, ec0}, {ec0, ahx, ec1}, {ec1, ec0, lzw, ec0},
		{{filter.Flate, map[string]int{"Predictor": 1, "Columns": 3}}, {filter.Flate, nil}},
		{{filter.Flate, nil}, ec0, {filter.Flate, map[string]int{"Predictor": 1, "Colors": 3, "BitsPerComponent": 16}}, lzw}}
	others := []string{filter.ASCIIHex, filter.ASCII85, filter.RunLength, filter.LZW, filter.Flate}
	for i, d := range data {
		for j, ps := range fixed {
			if r.Thorough() || (i+j)%3 == 0 {
				checkSpecPipeline(ps, d)
			}
		}
		for t := 0; t < r.Pick(2, 8); t++ {
			k := 2 + r.Rand.Intn(3)
			base := []string{filter.LZW, filter.LZW, filter.Flate}[r.Rand.Intn(3)]
			ps := make([]pset, k)
			a := r.Rand.Intn(k)
			b := (a + 1 + r.Rand.Intn(k-1)) % k
			for j := range ps {
				if j == a || j == b {
					ps[j] = stageOf(base)
				} else {
					ps[j] = stageOf(others[r.Rand.Intn(len(others))])
				}
			}
			checkSpecPipeline(ps, d)
		}
	}
}

func main() {
	r = vh.Start("C15")
	defer r.Finish()
	data := genData()
	sectionFilters(data)
	sectionPipelines(data)
	sectionRepeatedNames()
}
