// Child (worker) side of the C08 search: runs pdfcpu entry points on input files, one job per
// stdin line, and reports begin/end markers on stdout so that the parent can attribute a fatal
// error (stack overflow, out of memory) or a hang to the exact (input, entry point).
package main

import (
	"bufio"
	"bytes"
	"fmt"
	"io"
	"os"
	"os/signal"
	"path/filepath"
	"regexp"
	"runtime"
	"runtime/debug"
	"strings"
	"syscall"
	"time"

	"github.com/pdfcpu/pdfcpu/pkg/api"
	"github.com/pdfcpu/pdfcpu/pkg/font"
	"github.com/pdfcpu/pdfcpu/pkg/pdfcpu"
	"github.com/pdfcpu/pdfcpu/pkg/pdfcpu/model"
)

var allOps = []string{"read", "vstrict", "vrelaxed", "optimize", "info", "images", "pages", "bookmarks", "form", "annots", "attach", "props"}

func childConf(relaxed bool) *model.Configuration {
	conf := model.NewDefaultConfiguration()
	conf.Offline = true
	if relaxed {
		conf.ValidationMode = model.ValidationRelaxed
	} else {
		conf.ValidationMode = model.ValidationStrict
	}
	// configured limits (the property is relative to them): keep the children small
	const MB = 1 << 20
	conf.Limits.MaxStreamBytes = 64 * MB
	conf.Limits.MaxDecodeBytes = 64 * MB
	conf.Limits.MaxImageBytes = 64 * MB
	conf.Limits.MaxImagePixels = 16 * MB
	conf.Limits.MaxObjectCount = 2_000_000
	conf.Limits.MaxXRefEntries = 2_000_000
	return conf
}

var frameRe = regexp.MustCompile(`(?m)^(github\.com/pdfcpu/pdfcpu/[^\s(]+(?:\([^)]*\))?[^\s(]*)\(`)

// topFrame returns the innermost pdfcpu function of a Go stack trace (below panic/runtime frames).
func topFrame(stack string) string {
	if i := strings.Index(stack, "panic("); i >= 0 {
		stack = stack[i:]
	}
	for _, m := range frameRe.FindAllStringSubmatch(stack, -1) {
		f := m[1]
		if strings.Contains(f, "/fault.") || strings.Contains(f, "font.table.") {
			continue // recover plumbing and the byte accessors: name the function that asked for the bytes
		}
		f = strings.TrimPrefix(f, "github.com/pdfcpu/pdfcpu/pkg/")
		return f
	}
	return "unknown"
}

func runOp(op string, data []byte, path string) (class, detail string) {
	defer func() {
		if r := recover(); r != nil {
			st := string(debug.Stack())
			class = "panic:" + topFrame(st)
			detail = fmt.Sprintf("%v", r)
			if len(detail) > 300 {
				detail = detail[:300]
			}
		}
	}()
	rs := func() io.ReadSeeker { return bytes.NewReader(data) }
	var err error
	switch op {
	case "read":
		_, err = api.ReadContext(rs(), childConf(true))
	case "vstrict":
		err = api.Validate(rs(), childConf(false))
	case "vrelaxed":
		err = api.Validate(rs(), childConf(true))
	case "optimize":
		err = api.Optimize(rs(), io.Discard, childConf(true))
	case "info":
		_, err = api.PDFInfo(rs(), "x.pdf", nil, true, childConf(true))
	case "images":
		_, err = api.ExtractImagesRaw(rs(), nil, childConf(true))
	case "pages":
		err = api.ExtractPages(rs(), nil, func(r io.Reader, _ int) error { _, e := io.Copy(io.Discard, r); return e }, childConf(true))
	case "bookmarks":
		_, err = api.Bookmarks(rs(), childConf(true))
	case "form":
		_, err = api.FormFields(rs(), childConf(true))
	case "annots":
		_, err = api.Annotations(rs(), nil, childConf(true))
	case "attach":
		_, err = api.Attachments(rs(), childConf(true))
	case "props":
		_, err = api.Properties(rs(), childConf(true))
		if err == nil {
			_, err = api.Keywords(rs(), childConf(true))
		}
	case "sig":
		_, err = api.ValidateSignatures(path, false, childConf(true))
	case "sigall":
		_, err = api.ValidateSignatures(path, true, childConf(true))
	case "sigfile":
		_, err = api.ValidateSignaturesFile(path, true, true, childConf(true))
	case "font":
		dir, e := os.MkdirTemp("", "c08-font-")
		if e != nil {
			return "err", e.Error()
		}
		defer os.RemoveAll(dir)
		if bytes.HasPrefix(data, []byte("ttcf")) {
			fn := filepath.Join(dir, "in.ttc")
			os.WriteFile(fn, data, 0o644)
			os.MkdirAll(filepath.Join(dir, "out"), 0o755)
			_, err = font.InstallTrueTypeCollection(filepath.Join(dir, "out"), fn)
			break
		}
		err = font.InstallFontFromBytesQuiet(dir, "x.ttf", data)
		e2 := font.InstallFontFromBytes(dir, "y.ttf", data)
		fn := filepath.Join(dir, "z.ttf")
		os.WriteFile(fn, data, 0o644)
		os.MkdirAll(filepath.Join(dir, "out"), 0o755)
		_, e3 := font.InstallTrueTypeFont(filepath.Join(dir, "out"), fn)
		if err == nil {
			err = e2
		}
		if err == nil {
			err = e3
		}
	case "fonts":
		err = api.ExtractFonts(rs(), nil, func(pdfcpu.Font) error { return nil }, childConf(true))
	default:
		return "badop", op
	}
	if err != nil {
		s := err.Error()
		if len(s) > 160 {
			s = s[:160]
		}
		return "err", s
	}
	return "ok", ""
}

func clean1(s string) string {
	s = strings.ReplaceAll(s, "\t", " ")
	s = strings.ReplaceAll(s, "\n", " ")
	s = strings.ReplaceAll(s, "\r", " ")
	return s
}

// hangProfile answers SIGUSR1: it samples the stack of the goroutine running the entry point n times and
// prints, for every pdfcpu function (innermost first, in the order of the first sample), in how many
// samples it was on the stack. The function whose loop does not end is on the stack in ALL samples,
// what it calls is not.
func hangProfile() {
	ch := make(chan os.Signal, 1)
	signal.Notify(ch, syscall.SIGUSR1)
	for range ch {
		const n = 150
		cnt := map[string]int{}
		var order []string
		buf := make([]byte, 4<<20)
		for i := 0; i < n; i++ {
			st := string(buf[:runtime.Stack(buf, true)])
			seen := map[string]bool{}
			for _, blk := range strings.Split(st, "\n\ngoroutine ") {
				if !strings.Contains(blk, "main.runOp") {
					continue
				}
				for _, m := range frameRe.FindAllStringSubmatch(blk, -1) {
					f := strings.TrimPrefix(m[1], "github.com/pdfcpu/pdfcpu/pkg/")
					if !seen[f] {
						seen[f] = true
						cnt[f]++
						if i == 0 {
							order = append(order, f)
						}
					}
				}
				break
			}
			time.Sleep(4 * time.Millisecond)
		}
		var sb strings.Builder
		fmt.Fprintf(&sb, "HANGPROFILE\t%d\t", n)
		for _, f := range order {
			fmt.Fprintf(&sb, "%s=%d;", f, cnt[f])
		}
		fmt.Fprintln(os.Stderr, sb.String())
	}
}

func childMain() {
	go hangProfile()
	api.DisableConfigDir()
	// signature validation needs a trust store directory: an empty one, made by the parent
	if d := os.Getenv("C08_CERTDIR"); d != "" {
		model.TrustedCertDir = d
	}
	// a runaway recursion should die quickly instead of eating 1 GB first
	debug.SetMaxStack(64 << 20)
	lim := syscall.Rlimit{Cur: 8 << 30, Max: 8 << 30}
	_ = syscall.Setrlimit(syscall.RLIMIT_AS, &lim)
	in := bufio.NewScanner(os.Stdin)
	in.Buffer(make([]byte, 1<<20), 1<<20)
	out := bufio.NewWriter(os.Stdout)
	for in.Scan() {
		f := strings.Split(in.Text(), "\t")
		if len(f) != 3 {
			continue
		}
		id, path, ops := f[0], f[1], strings.Split(f[2], ",")
		data, err := os.ReadFile(path)
		if err != nil {
			fmt.Fprintf(out, "X\t%s\tioerr\n", id)
			out.Flush()
			continue
		}
		for _, op := range ops {
			fmt.Fprintf(out, "B\t%s\t%s\n", id, op)
			out.Flush()
			class, detail := runOp(op, data, path)
			fmt.Fprintf(out, "E\t%s\t%s\t%s\t%s\n", id, op, clean1(class), clean1(detail))
			out.Flush()
		}
		fmt.Fprintf(out, "D\t%s\n", id)
		out.Flush()
	}
}
