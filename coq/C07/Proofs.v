(* C07 — lemmas of the durable layer: the acceptance check keeps the font directory safe, a safe font
   directory satisfies the power-loss trichotomy, the canonical writeGob trace makes the font durable. *)
From stdpp Require Import gmap.
From Coq Require Import NArith Lia.
From PV Require Import C01.FS C06.Model C07.Model.

(* ---------- pending entry operations ---------- *)
Lemma apply_eops_app m l l' : apply_eops m (l ++ l') = apply_eops (apply_eops m l) l'.
Proof. unfold apply_eops. apply fold_left_app. Qed.

Lemma apply_eops_lookup l : forall m n i,
  apply_eops m l !! n = Some i -> m !! n = Some i \/ In (ELink n i) l.
Proof.
  unfold apply_eops. induction l as [|o l IH]; intros m n i H; [left; exact H|]. cbn [fold_left] in H.
  destruct (IH _ _ _ H) as [H1|H1]; [|right; right; exact H1].
  destruct o as [n' i'|n']; cbn in H1.
  - destruct (decide (n' = n)) as [->|Hne].
    + rewrite lookup_insert in H1. injection H1 as ->. right. left. reflexivity.
    + rewrite lookup_insert_ne in H1 by exact Hne. left. exact H1.
  - destruct (decide (n' = n)) as [->|Hne].
    + rewrite lookup_delete in H1. discriminate.
    + rewrite lookup_delete_ne in H1 by exact Hne. left. exact H1.
Qed.

Definition touches (n : positive) (o : eop) : bool := match o with ELink m _ | EUnlink m => Pos.eqb m n end.
Lemma apply_eops_untouched l : forall m n,
  forallb (fun o => negb (touches n o)) l = true -> apply_eops m l !! n = m !! n.
Proof.
  unfold apply_eops. induction l as [|o l IH]; intros m n H; [reflexivity|].
  cbn [forallb] in H. apply andb_true_iff in H. destruct H as (Ho & Hl). cbn [fold_left]. rewrite (IH _ _ Hl).
  apply negb_true_iff in Ho. destruct o as [n' i'|n']; cbn in *; apply Pos.eqb_neq in Ho.
  - apply lookup_insert_ne. exact Ho.
  - apply lookup_delete_ne. exact Ho.
Qed.
Lemma forallb_firstn {A} (p : A -> bool) l k : forallb p l = true -> forallb p (firstn k l) = true.
Proof.
  revert k. induction l as [|a l IH]; intros k H; destruct k; cbn in *; try reflexivity.
  apply andb_true_iff in H. destruct H as (Ha & Hl). rewrite Ha, (IH _ Hl). reflexivity.
Qed.
Lemma forallb_ext' {A} (p q : A -> bool) l : (forall x, p x = q x) -> forallb p l = forallb q l.
Proof. intros H. induction l as [|a l IH]; cbn; [reflexivity|]. rewrite H, IH. reflexivity. Qed.
Lemma In_firstn {A} (x : A) l k : In x (firstn k l) -> In x l.
Proof.
  revert k. induction l as [|a l IH]; intros k H; destruct k; cbn in *; try tauto.
  destruct H as [H|H]; [left; exact H|right; eapply IH; exact H].
Qed.

Lemma links_of_dur dd n i : d_dur dd !! n = Some i -> In (n, i) (links_of dd).
Proof.
  intros H. unfold links_of. apply in_or_app. left. apply elem_of_list_In. apply elem_of_map_to_list. exact H.
Qed.
Lemma links_of_pend dd n i : In (ELink n i) (d_pend dd) -> In (n, i) (links_of dd).
Proof.
  intros H. unfold links_of. apply in_or_app. right. apply in_flat_map. exists (ELink n i). split; [exact H|left; reflexivity].
Qed.
Lemma links_of_inv dd n i : In (n, i) (links_of dd) -> d_dur dd !! n = Some i \/ In (ELink n i) (d_pend dd).
Proof.
  unfold links_of. intros H. apply in_app_or in H. destruct H as [H|H].
  - left. apply elem_of_map_to_list. apply elem_of_list_In. exact H.
  - right. apply in_flat_map in H. destruct H as (o & Ho & Hin). destruct o as [n' i'|n']; cbn in Hin; [|tauto].
    destruct Hin as [[= -> ->]|[]]. exact Ho.
Qed.
Lemma vol_links dd n i : vol_entries dd !! n = Some i -> In (n, i) (links_of dd).
Proof.
  unfold vol_entries. intros H. destruct (apply_eops_lookup _ _ _ _ H) as [H1|H1];
    [apply links_of_dur|apply links_of_pend]; exact H1.
Qed.

Section Safe.
Variable F : list positive.
Variable isfont : positive -> bool.
Variables old new : positive -> option bytes.

Notation good := (good old new).
Notation in_F := (in_F F isfont).
Notation ev_safe := (ev_safe F isfont old new).
Notation accepts := (accepts F isfont old new).

Definition linked (st : dst) (n i : positive) : Prop :=
  exists dd, s_dir st !! F = Some dd /\ In (n, i) (links_of dd).

(* the font directory is safe: every font-name link, durable or pending, points to an inode that is completely
   on disk and holds the previous or the new representation of that name *)
Definition Inv (st : dst) : Prop :=
  (forall n i, isfont n = true -> linked st n i -> good st n i = true) /\
  (forall i, is_Some (s_ino st !! i) -> (i < s_next st)%positive).

Lemma good_dom st n i : good st n i = true -> is_Some (s_ino st !! i).
Proof. unfold Model.good. destruct (s_ino st !! i); [eauto|discriminate]. Qed.

Lemma in_F_false st i n i' : in_F st i = false -> isfont n = true -> linked st n i' -> i' <> i.
Proof.
  unfold Model.in_F. intros H Hf (dd & Hd & Hin) ->. rewrite Hd in H.
  assert (existsb (fun l => isfont (fst l) && Pos.eqb (snd l) i) (links_of dd) = true) as E; [|congruence].
  apply existsb_exists. exists (n, i). split; [exact Hin|]. cbn. rewrite Hf, Pos.eqb_refl. reflexivity.
Qed.

(* appending entry operations to one directory *)
Lemma pend_ino st d ops : s_ino (pend st d ops) = s_ino st /\ s_next (pend st d ops) = s_next st.
Proof. unfold pend. destruct (s_dir st !! d); split; reflexivity. Qed.
Lemma pend_dir_ne st d ops x : x <> d -> s_dir (pend st d ops) !! x = s_dir st !! x.
Proof. intros Hx. unfold pend. destruct (s_dir st !! d); [|reflexivity]. cbn. apply lookup_insert_ne. congruence. Qed.
Lemma pend_dir_eq st d ops dd : s_dir st !! d = Some dd ->
  s_dir (pend st d ops) !! d = Some (DD (d_dur dd) (d_pend dd ++ ops)).
Proof. intros H. unfold pend. rewrite H. cbn. apply lookup_insert. Qed.
Lemma pend_dir_none st d ops : s_dir st !! d = None -> pend st d ops = st.
Proof. intros H. unfold pend. rewrite H. reflexivity. Qed.

(* links after appending: the old ones plus the ELinks of ops *)
Lemma pend_linked st d ops n i :
  linked (pend st d ops) n i -> linked st n i \/ (d = F /\ In (ELink n i) ops).
Proof.
  intros (dd' & Hd' & Hin). destruct (decide (F = d)) as [<-|Hne].
  - destruct (s_dir st !! F) as [dd|] eqn:Hd.
    + rewrite (pend_dir_eq _ _ _ _ Hd) in Hd'. injection Hd' as <-.
      apply links_of_inv in Hin. cbn in Hin. destruct Hin as [Hin|Hin].
      * left. exists dd. split; [exact Hd|apply links_of_dur; exact Hin].
      * apply in_app_or in Hin. destruct Hin as [Hin|Hin]; [|right; split; [reflexivity|exact Hin]].
        left. exists dd. split; [exact Hd|apply links_of_pend; exact Hin].
    + rewrite (pend_dir_none _ _ _ Hd) in Hd'. congruence.
  - rewrite pend_dir_ne in Hd' by exact Hne. left. exists dd'. split; assumption.
Qed.

Lemma good_same_ino st st' n i : s_ino st' !! i = s_ino st !! i -> good st' n i = good st n i.
Proof. intros H. unfold Model.good. rewrite H. reflexivity. Qed.

(* the acceptance condition preserves the safety of the font directory *)
Lemma step_inv st e : Inv st -> ev_safe st e = true -> Inv (dstep st e).
Proof.
  intros (HI & HJ) Hs. unfold Model.ev_safe in Hs. unfold dstep.
  destruct (de_op e) eqn:Eop, (de_p e) as [d|d n] eqn:Ep, (de_q e) as [d2|d2 n2] eqn:Eq;
    try (split; [exact HI|exact HJ]).
  all: try (destruct (ok_ev e) eqn:Eok; [|split; [exact HI|exact HJ]]).
  all: cbn [negb orb] in Hs.
  - (* mkdirtemp d d2 *)
    apply negb_true_iff, bool_decide_eq_false in Hs. split; [|exact HJ].
    intros n i Hf (dd & Hd & Hin). cbn in Hd. rewrite lookup_insert_ne in Hd by congruence.
    rewrite (good_same_ino st) by reflexivity. apply HI; [exact Hf|exists dd; split; assumption].
  - apply negb_true_iff, bool_decide_eq_false in Hs. split; [|exact HJ].
    intros n i Hf (dd & Hd & Hin). cbn in Hd. rewrite lookup_insert_ne in Hd by congruence.
    rewrite (good_same_ino st) by reflexivity. apply HI; [exact Hf|exists dd; split; assumption].
  - (* createtemp *)
    set (st1 := DS (<[s_next st := Ino [] 0]> (s_ino st)) (s_dir st) (Pos.succ (s_next st))).
    destruct (pend_ino st1 d [ELink n (s_next st)]) as (Pi & Pn). split.
    + intros n' i' Hf Hl. apply pend_linked in Hl. destruct Hl as [Hl|(-> & [Hin|[]])].
      * assert (Hg : good st n' i' = true) by (apply HI; [exact Hf|exact Hl]).
        rewrite <- Hg. apply good_same_ino. rewrite Pi. unfold st1; cbn. apply lookup_insert_ne.
        intros E. apply good_dom, HJ in Hg. lia.
      * injection Hin as -> ->. rewrite bool_decide_eq_true_2 in Hs by reflexivity. cbn in Hs. rewrite Hf in Hs. discriminate.
    + intros i Hi. rewrite Pi in Hi. rewrite Pn. unfold st1 in *; cbn in *.
      destruct (decide (i = s_next st)) as [->|Hne]; [lia|]. rewrite lookup_insert_ne in Hi by congruence.
      apply HJ in Hi. lia.
  - set (st1 := DS (<[s_next st := Ino [] 0]> (s_ino st)) (s_dir st) (Pos.succ (s_next st))).
    destruct (pend_ino st1 d [ELink n (s_next st)]) as (Pi & Pn). split.
    + intros n' i' Hf Hl. apply pend_linked in Hl. destruct Hl as [Hl|(-> & [Hin|[]])].
      * assert (Hg : good st n' i' = true) by (apply HI; [exact Hf|exact Hl]).
        rewrite <- Hg. apply good_same_ino. rewrite Pi. unfold st1; cbn. apply lookup_insert_ne.
        intros E. apply good_dom, HJ in Hg. lia.
      * injection Hin as -> ->. rewrite bool_decide_eq_true_2 in Hs by reflexivity. cbn in Hs. rewrite Hf in Hs. discriminate.
    + intros i Hi. rewrite Pi in Hi. rewrite Pn. unfold st1 in *; cbn in *.
      destruct (decide (i = s_next st)) as [->|Hne]; [lia|]. rewrite lookup_insert_ne in Hi by congruence.
      apply HJ in Hi. lia.
  - (* encode *)
    destruct (resolve st d n) as [i|] eqn:Er; [|split; [exact HI|exact HJ]].
    apply negb_true_iff in Hs. destruct (s_ino st !! i) as [ino|] eqn:Ei; [|split; [exact HI|exact HJ]]. split.
    + intros n' i' Hf Hl. assert (Hl0 : linked st n' i') by exact Hl.
      rewrite (good_same_ino st); [apply HI; assumption|]. cbn. apply lookup_insert_ne.
      intros ->. exact (in_F_false _ _ _ _ Hs Hf Hl0 eq_refl).
    + intros i' Hi'. cbn in *. destruct (decide (i' = i)) as [->|Hne]; [apply HJ; rewrite Ei; eauto|].
      rewrite lookup_insert_ne in Hi' by congruence. apply HJ. exact Hi'.
  - destruct (resolve st d n) as [i|] eqn:Er; [|split; [exact HI|exact HJ]].
    apply negb_true_iff in Hs. destruct (s_ino st !! i) as [ino|] eqn:Ei; [|split; [exact HI|exact HJ]]. split.
    + intros n' i' Hf Hl. assert (Hl0 : linked st n' i') by exact Hl.
      rewrite (good_same_ino st); [apply HI; assumption|]. cbn. apply lookup_insert_ne.
      intros ->. exact (in_F_false _ _ _ _ Hs Hf Hl0 eq_refl).
    + intros i' Hi'. cbn in *. destruct (decide (i' = i)) as [->|Hne]; [apply HJ; rewrite Ei; eauto|].
      rewrite lookup_insert_ne in Hi' by congruence. apply HJ. exact Hi'.
  - (* sync *)
    destruct (resolve st d n) as [i|] eqn:Er; [|split; [exact HI|exact HJ]].
    destruct (s_ino st !! i) as [ino|] eqn:Ei; [|split; [exact HI|exact HJ]]. split.
    + intros n' i' Hf Hl. assert (Hg : good st n' i' = true) by (apply HI; assumption).
      destruct (decide (i' = i)) as [->|Hne].
      * unfold Model.good in *. cbn. rewrite lookup_insert. rewrite Ei in Hg. cbn.
        apply andb_true_iff in Hg. destruct Hg as (_ & Hr). rewrite Hr, Nat.eqb_refl. reflexivity.
      * rewrite <- Hg. apply good_same_ino. cbn. apply lookup_insert_ne. congruence.
    + intros i' Hi'. cbn in *. destruct (decide (i' = i)) as [->|Hne]; [apply HJ; rewrite Ei; eauto|].
      rewrite lookup_insert_ne in Hi' by congruence. apply HJ. exact Hi'.
  - destruct (resolve st d n) as [i|] eqn:Er; [|split; [exact HI|exact HJ]].
    destruct (s_ino st !! i) as [ino|] eqn:Ei; [|split; [exact HI|exact HJ]]. split.
    + intros n' i' Hf Hl. assert (Hg : good st n' i' = true) by (apply HI; assumption).
      destruct (decide (i' = i)) as [->|Hne].
      * unfold Model.good in *. cbn. rewrite lookup_insert. rewrite Ei in Hg. cbn.
        apply andb_true_iff in Hg. destruct Hg as (_ & Hr). rewrite Hr, Nat.eqb_refl. reflexivity.
      * rewrite <- Hg. apply good_same_ino. cbn. apply lookup_insert_ne. congruence.
    + intros i' Hi'. cbn in *. destruct (decide (i' = i)) as [->|Hne]; [apply HJ; rewrite Ei; eauto|].
      rewrite lookup_insert_ne in Hi' by congruence. apply HJ. exact Hi'.
  - (* rename (d,n) -> (d2,n2) *)
    destruct (resolve st d n) as [i|] eqn:Er; [|split; [exact HI|exact HJ]].
    assert (Hnew : d2 = F -> isfont n2 = true -> good st n2 i = true).
    { intros -> Hf. rewrite bool_decide_eq_true_2 in Hs by reflexivity. rewrite Hf in Hs. cbn in Hs. exact Hs. }
    destruct (bool_decide (d = d2)) eqn:Edd.
    + apply bool_decide_eq_true in Edd. subst d2.
      destruct (pend_ino st d [ELink n2 i; EUnlink n]) as (Pi & Pn). split.
      * intros n' i' Hf Hl. rewrite (good_same_ino st) by (rewrite Pi; reflexivity).
        apply pend_linked in Hl. destruct Hl as [Hl|(-> & [Hin|[Hin|[]]])]; [apply HI; assumption| |discriminate].
        injection Hin as -> ->. apply Hnew; [reflexivity|exact Hf].
      * intros i' Hi'. rewrite Pi in Hi'. rewrite Pn. apply HJ. exact Hi'.
    + destruct (pend_ino (pend st d2 [ELink n2 i]) d [EUnlink n]) as (Pi & Pn).
      destruct (pend_ino st d2 [ELink n2 i]) as (Pi2 & Pn2). split.
      * intros n' i' Hf Hl. rewrite (good_same_ino st) by (rewrite Pi, Pi2; reflexivity).
        apply pend_linked in Hl. destruct Hl as [Hl|(-> & [Hin|[]])]; [|discriminate].
        apply pend_linked in Hl. destruct Hl as [Hl|(-> & [Hin|[]])]; [apply HI; assumption|].
        injection Hin as -> ->. apply Hnew; [reflexivity|exact Hf].
      * intros i' Hi'. rewrite Pi, Pi2 in Hi'. rewrite Pn, Pn2. apply HJ. exact Hi'.
  - (* remove *)
    destruct (pend_ino st d [EUnlink n]) as (Pi & Pn). split.
    + intros n' i' Hf Hl. rewrite (good_same_ino st) by (rewrite Pi; reflexivity).
      apply pend_linked in Hl. destruct Hl as [Hl|(-> & [Hin|[]])]; [apply HI; assumption|discriminate].
    + intros i' Hi'. rewrite Pi in Hi'. rewrite Pn. apply HJ. exact Hi'.
  - destruct (pend_ino st d [EUnlink n]) as (Pi & Pn). split.
    + intros n' i' Hf Hl. rewrite (good_same_ino st) by (rewrite Pi; reflexivity).
      apply pend_linked in Hl. destruct Hl as [Hl|(-> & [Hin|[]])]; [apply HI; assumption|discriminate].
    + intros i' Hi'. rewrite Pi in Hi'. rewrite Pn. apply HJ. exact Hi'.
  - (* removeall *)
    split; [|exact HJ]. intros n i Hf (dd & Hd & Hin). cbn in Hd.
    apply map_filter_lookup_Some in Hd. destruct Hd as (Hd & _).
    rewrite (good_same_ino st) by reflexivity. apply HI; [exact Hf|exists dd; split; assumption].
  - split; [|exact HJ]. intros n i Hf (dd & Hd & Hin). cbn in Hd.
    apply map_filter_lookup_Some in Hd. destruct Hd as (Hd & _).
    rewrite (good_same_ino st) by reflexivity. apply HI; [exact Hf|exists dd; split; assumption].
  - (* syncdir *)
    destruct (s_dir st !! d) as [dd0|] eqn:Ed; [|split; [exact HI|exact HJ]]. split; [|exact HJ].
    intros n i Hf (dd & Hd & Hin). cbn in Hd. rewrite (good_same_ino st) by reflexivity.
    apply HI; [exact Hf|]. destruct (decide (d = F)) as [->|Hne].
    + rewrite lookup_insert in Hd. injection Hd as <-. exists dd0. split; [exact Ed|].
      apply links_of_inv in Hin. cbn in Hin. destruct Hin as [Hin|[]]. apply vol_links. exact Hin.
    + rewrite lookup_insert_ne in Hd by exact Hne. exists dd. split; assumption.
  - destruct (s_dir st !! d) as [dd0|] eqn:Ed; [|split; [exact HI|exact HJ]]. split; [|exact HJ].
    intros n i Hf (dd & Hd & Hin). cbn in Hd. rewrite (good_same_ino st) by reflexivity.
    apply HI; [exact Hf|]. destruct (decide (d = F)) as [->|Hne].
    + rewrite lookup_insert in Hd. injection Hd as <-. exists dd0. split; [exact Ed|].
      apply links_of_inv in Hin. cbn in Hin. destruct Hin as [Hin|[]]. apply vol_links. exact Hin.
    + rewrite lookup_insert_ne in Hd by exact Hne. exists dd. split; assumption.
Qed.

Lemma accepts_inv tr : forall st, Inv st -> accepts st tr = true -> Inv (dexec st tr).
Proof.
  induction tr as [|e tr IH]; intros st Hi Ha; cbn in *; [exact Hi|].
  apply andb_true_iff in Ha. destruct Ha as (He & Ha). apply IH; [apply step_inv; assumption|exact Ha].
Qed.
Lemma accepts_prefix tr : forall st c, accepts st tr = true -> accepts st (firstn c tr) = true.
Proof.
  induction tr as [|e tr IH]; intros st c Ha; destruct c; cbn in *; try reflexivity.
  apply andb_true_iff in Ha. destruct Ha as (He & Ha). rewrite He, (IH _ _ Ha). reflexivity.
Qed.

(* a safe font directory after a power loss: every font name is absent or bound to a complete representation *)
Lemma inv_trichotomy st k n i j b :
  Inv st -> isfont n = true -> crash_entries F st k !! n = Some i -> crash_bytes st i j = Some b ->
  old n = Some b \/ new n = Some b.
Proof.
  intros (HI & _) Hf Hc Hb. unfold crash_entries in Hc. destruct (s_dir st !! F) as [dd|] eqn:Hd;
    [|rewrite lookup_empty in Hc; discriminate].
  assert (Hl : linked st n i).
  { exists dd. split; [exact Hd|]. destruct (apply_eops_lookup _ _ _ _ Hc) as [H|H];
      [apply links_of_dur; exact H|apply links_of_pend; eapply In_firstn; exact H]. }
  specialize (HI n i Hf Hl). unfold Model.good in HI. unfold crash_bytes in Hb.
  destruct (s_ino st !! i) as [ino|]; [|discriminate].
  apply andb_true_iff in HI. destruct HI as (Hd1 & Hr). apply Nat.eqb_eq in Hd1.
  destruct (Nat.leb (i_dur ino) j) eqn:El; [|discriminate]. apply Nat.leb_le in El.
  injection Hb as <-. rewrite firstn_all2 by lia.
  unfold is_rep in Hr. apply orb_true_iff in Hr. destruct Hr as [Hr|Hr]; [left|right].
  - destruct (old n); [|discriminate]. apply bool_decide_eq_true in Hr. congruence.
  - destruct (new n); [|discriminate]. apply bool_decide_eq_true in Hr. congruence.
Qed.

(* durable_now: whatever part of the pending operations and of the file data survives, n is bound to data *)
Lemma durable_now_crash st n data k :
  durable_now F st n data = true ->
  exists i, crash_entries F st k !! n = Some i /\
            (exists b, crash_bytes st i (length data) = Some b) /\
            forall j b, crash_bytes st i j = Some b -> b = data.
Proof.
  unfold durable_now, crash_entries. destruct (s_dir st !! F) as [dd|]; [|discriminate].
  intros H. apply andb_true_iff in H. destruct H as (Hp & H).
  destruct (d_dur dd !! n) as [i|] eqn:Hn; [|discriminate]. exists i. split.
  - rewrite apply_eops_untouched; [exact Hn|]. apply forallb_firstn.
    erewrite forallb_ext'; [exact Hp|]. intros [m i'|m]; reflexivity.
  - unfold crash_bytes. destruct (s_ino st !! i) as [ino|]; [|discriminate].
    apply andb_true_iff in H. destruct H as (H1 & H2). apply Nat.eqb_eq in H1. apply bool_decide_eq_true in H2.
    split.
    + rewrite <- H2, <- H1, Nat.leb_refl. eauto.
    + intros j b Hb. destruct (Nat.leb (i_dur ino) j) eqn:El; [|discriminate]. apply Nat.leb_le in El.
      injection Hb as <-. rewrite firstn_all2 by lia. exact H2.
Qed.
End Safe.

(* ---------- the canonical writeGob trace ---------- *)
Section Gob.
Variable F : list positive.
Variable isfont : positive -> bool.
Variables old new : positive -> option bytes.

Lemma resolve_last st d dd t i :
  s_dir st !! d = Some dd -> d_pend dd = d_pend dd -> forall pre, d_pend dd = pre ++ [ELink t i] -> resolve st d t = Some i.
Proof.
  intros Hd _ pre Hp. unfold resolve. rewrite Hd. unfold vol_entries. rewrite Hp, apply_eops_app. cbn.
  apply lookup_insert.
Qed.

Lemma gob_trace_durable st dd t n data :
  Inv F isfont old new st -> s_dir st !! F = Some dd ->
  isfont t = false -> isfont n = true -> t <> n -> new n = Some data ->
  accepts F isfont old new st (gob_trace F t n data) = true /\
  durable_now F (dexec st (gob_trace F t n data)) n data = true.
Proof.
  intros (HI & HJ) Hd Hft Hfn Htn Hnew.
  set (i0 := s_next st).
  set (dd1 := DD (d_dur dd) (d_pend dd ++ [ELink t i0])).
  set (st1 := DS (<[i0 := Ino [] 0]> (s_ino st)) (<[F := dd1]> (s_dir st)) (Pos.succ i0)).
  set (st2 := DS (<[i0 := Ino data 0]> (s_ino st1)) (s_dir st1) (s_next st1)).
  set (st4 := DS (<[i0 := Ino data (length data)]> (s_ino st2)) (s_dir st2) (s_next st2)).
  set (dd7 := DD (d_dur dd) ((d_pend dd ++ [ELink t i0]) ++ [ELink n i0; EUnlink t])).
  set (st7 := DS (s_ino st4) (<[F := dd7]> (s_dir st4)) (s_next st4)).
  set (st8 := DS (s_ino st7) (<[F := DD (vol_entries dd7) []]> (s_dir st7)) (s_next st7)).
  assert (E1 : dstep st (DEv DCreateTemp (PFile F t) (PFile F t) None []) = st1).
  { unfold dstep, pend. cbn. rewrite Hd. reflexivity. }
  assert (R1 : resolve st1 F t = Some i0).
  { eapply (resolve_last st1 F dd1); [apply lookup_insert|reflexivity|reflexivity]. }
  assert (E2 : dstep st1 (DEv DEncode (PFile F t) (PFile F t) None data) = st2).
  { unfold dstep. cbn [de_op de_p de_q de_data]. rewrite R1. unfold st1 at 1. cbn [s_ino]. rewrite lookup_insert. reflexivity. }
  assert (R2 : resolve st2 F t = Some i0) by exact R1.
  assert (E4 : dstep st2 (DEv DSync (PFile F t) (PFile F t) None []) = st4).
  { unfold dstep. cbn [de_op de_p de_q ok_ev de_res]. rewrite R2. unfold st2 at 1. cbn [s_ino]. rewrite lookup_insert. reflexivity. }
  assert (R4 : resolve st4 F t = Some i0) by exact R1.
  assert (E7 : dstep st4 (DEv DRename (PFile F t) (PFile F n) None []) = st7).
  { unfold dstep. cbn [de_op de_p de_q ok_ev de_res]. rewrite R4. rewrite bool_decide_eq_true_2 by reflexivity.
    unfold pend. assert (Hd4 : s_dir st4 !! F = Some dd1) by apply lookup_insert. rewrite Hd4. reflexivity. }
  assert (E8 : dstep st7 (DEv DSyncDir (PDir F) (PDir F) None []) = st8).
  { unfold dstep. cbn [de_op de_p de_q ok_ev de_res].
    assert (Hd7 : s_dir st7 !! F = Some dd7) by apply lookup_insert. rewrite Hd7. reflexivity. }
  assert (Ex : dexec st (gob_trace F t n data) = st8).
  { unfold dexec, gob_trace. cbn [fold_left]. rewrite E1, E2.
    change (dstep st2 (DEv DChmod (PFile F t) (PFile F t) None [])) with st2. rewrite E4.
    change (dstep st4 (DEv DClose (PFile F t) (PFile F t) None [])) with st4.
    change (dstep st4 (DEv DVerify (PFile F t) (PFile F t) None [])) with st4. rewrite E7, E8. reflexivity. }
  assert (Hi4 : s_ino st4 !! i0 = Some (Ino data (length data))) by apply lookup_insert.
  split.
  - unfold gob_trace. cbn [accepts]. rewrite E1, E2.
    change (dstep st2 (DEv DChmod (PFile F t) (PFile F t) None [])) with st2. rewrite E4.
    change (dstep st4 (DEv DClose (PFile F t) (PFile F t) None [])) with st4.
    change (dstep st4 (DEv DVerify (PFile F t) (PFile F t) None [])) with st4. rewrite E7.
    (* createtemp *)
    assert (S1 : ev_safe F isfont old new st (DEv DCreateTemp (PFile F t) (PFile F t) None []) = true).
    { unfold ev_safe. cbn. rewrite Hft. apply orb_true_r. }
    (* encode: the new inode is not reachable from a font name *)
    assert (S2 : ev_safe F isfont old new st1 (DEv DEncode (PFile F t) (PFile F t) None data) = true).
    { unfold ev_safe. cbn [de_op de_p de_q]. rewrite R1. apply negb_true_iff. unfold in_F.
      assert (Hd1 : s_dir st1 !! F = Some dd1) by apply lookup_insert. rewrite Hd1.
      destruct (existsb _ (links_of dd1)) eqn:Ee; [|reflexivity]. exfalso.
      apply existsb_exists in Ee. destruct Ee as ([n' i'] & Hin & Hc). cbn in Hc.
      apply andb_true_iff in Hc. destruct Hc as (Hf' & Hi'). apply Pos.eqb_eq in Hi'. subst i'.
      apply links_of_inv in Hin. cbn in Hin. destruct Hin as [Hin|Hin].
      - assert (Hg : good old new st n' i0 = true).
        { apply HI; [exact Hf'|]. exists dd. split; [exact Hd|apply links_of_dur; exact Hin]. }
        apply good_dom, HJ in Hg. unfold i0 in Hg. lia.
      - apply in_app_or in Hin. destruct Hin as [Hin|[Hin|[]]].
        + assert (Hg : good old new st n' i0 = true).
          { apply HI; [exact Hf'|]. exists dd. split; [exact Hd|apply links_of_pend; exact Hin]. }
          apply good_dom, HJ in Hg. unfold i0 in Hg. lia.
        + injection Hin as ->. congruence. }
    assert (S7 : ev_safe F isfont old new st4 (DEv DRename (PFile F t) (PFile F n) None []) = true).
    { unfold ev_safe. cbn [de_op de_p de_q ok_ev de_res]. rewrite R4. rewrite bool_decide_eq_true_2 by reflexivity.
      rewrite Hfn. cbn [negb orb]. unfold good. rewrite Hi4. cbn [i_dur i_vol]. rewrite Nat.eqb_refl.
      unfold is_rep. rewrite Hnew. unfold bytes_eqb. rewrite (bool_decide_eq_true_2 (data = data)) by reflexivity.
      rewrite orb_true_r. reflexivity. }
    rewrite S1, S2, S7. reflexivity.
  - rewrite Ex. unfold durable_now. assert (Hd8 : s_dir st8 !! F = Some (DD (vol_entries dd7) [])) by apply lookup_insert.
    rewrite Hd8. cbn [d_pend d_dur forallb andb].
    assert (Hv : vol_entries dd7 !! n = Some i0).
    { unfold vol_entries, dd7. cbn [d_dur d_pend]. rewrite apply_eops_app. cbn.
      rewrite lookup_delete_ne by exact Htn. apply lookup_insert. }
    rewrite Hv. change (s_ino st8) with (s_ino st4). rewrite Hi4. cbn [i_dur i_vol]. rewrite Nat.eqb_refl.
    unfold bytes_eqb. rewrite bool_decide_eq_true_2 by reflexivity. reflexivity.
Qed.
End Gob.

(* ---------- tie to the C06 program model: without a failure writeGobWithOperations emits the canonical trace ---------- *)
Lemma gob_body_nofault kp (d : list positive) t n data w1 c1 md :
  wt w1 !! d = Some c1 -> c1 !! t = Some (File [] md) ->
  exists w8, gob_body nofault kp d t n data w1 = (None, true, true, w8) /\
             dtr w8 = rev (tl (gob_trace d t n data)) ++ dtr w1.
Proof.
  intros H1 H1t. unfold gob_body.
  unfold encode, dcalld. cbn [nofault]. unfold update_file at 1. rewrite H1, H1t.
  set (w2 := DW _ _ _).
  assert (H2 : wt w2 !! d = Some (<[t := File ([] ++ data) md]> c1)) by apply lookup_insert.
  unfold chmod, dcall, dcallm, dcalld. cbn [nofault]. unfold update_file at 1. rewrite H2, lookup_insert.
  set (w3 := DW _ _ _).
  unfold fsync, close, dcall, dcallm, dcalld. cbn [nofault].
  set (w5 := DW _ _ _).
  assert (H5 : exists c5 f5, wt w5 !! d = Some c5 /\ c5 !! t = Some f5).
  { eexists _, _. split; [apply lookup_insert|apply lookup_insert]. }
  destruct H5 as (c5 & f5 & H5 & H5t).
  unfold verify, dcall, dcallm, dcalld. cbn [nofault]. unfold lookup_file. rewrite H5, H5t.
  set (w6 := DW _ _ _).
  unfold rename, dcall, dcallm, dcalld. cbn [nofault]. unfold rename_tree.
  change (wt w6) with (wt w5). rewrite H5, H5t. cbv zeta. rewrite lookup_insert.
  set (w7 := DW _ _ _).
  unfold sync_dir, dcall, dcallm, dcalld. cbn [nofault].
  assert (H7 : is_Some (wt w7 !! d)) by (unfold w7; cbn [wt]; rewrite lookup_insert; eauto).
  destruct H7 as [c7 H7]. rewrite H7. eexists. split; [reflexivity|]. reflexivity.
Qed.

Lemma write_gob_emits_gob_trace freshn kp (d : list positive) n data w c :
  wt w !! d = Some c ->
  dtr (snd (write_gob nofault freshn kp d n data w)) = rev (gob_trace d (freshn c) n data) ++ dtr w /\
  fst (write_gob nofault freshn kp d n data w) = (None, true).
Proof.
  intros Hd. unfold write_gob, create_temp, dcallm, dcalld. cbn [nofault]. rewrite Hd.
  set (t := freshn c). set (w1 := DW _ _ _).
  destruct (gob_body_nofault kp d t n data w1 (<[t := File [] mode_tmp]> c) mode_tmp) as (w8 & -> & Htr).
  { apply lookup_insert. } { apply lookup_insert. }
  cbn. rewrite Htr. unfold w1; cbn. split; [|reflexivity].
  reflexivity.
Qed.

(* ---------- a LIST of members: staging by the per-file protocol, then the commit of every member ---------- *)
Lemma accepts_app F isfont old new tr1 : forall st tr2,
  accepts F isfont old new st (tr1 ++ tr2) =
  accepts F isfont old new st tr1 && accepts F isfont old new (dexec st tr1) tr2.
Proof.
  induction tr1 as [|e tr1 IH]; intros st tr2; cbn; [reflexivity|]. rewrite IH, andb_assoc. reflexivity.
Qed.
Lemma dexec_app tr1 st tr2 : dexec st (tr1 ++ tr2) = dexec (dexec st tr1) tr2.
Proof. unfold dexec. apply fold_left_app. Qed.

Section Coll.
Variable F : list positive.
Variable isfont : positive -> bool.
Variables old new : positive -> option bytes.
Notation Inv' := (Inv F isfont old new).
Notation accepts' := (accepts F isfont old new).

(* n is staged in G: bound there to an inode that holds exactly data, all of it flushed *)
Definition staged (st : dst) (G : list positive) (n : positive) (data : bytes) : Prop :=
  exists i, resolve st G n = Some i /\ s_ino st !! i = Some (Ino data (length data)).

Lemma stage_member st ddG (G : list positive) t n data :
  Inv' st -> G <> F -> s_dir st !! G = Some ddG -> t <> n ->
  accepts' st (gob_trace G t n data) = true /\
  staged (dexec st (gob_trace G t n data)) G n data /\
  s_dir (dexec st (gob_trace G t n data)) !! F = s_dir st !! F /\
  (forall i, (i < s_next st)%positive -> s_ino (dexec st (gob_trace G t n data)) !! i = s_ino st !! i) /\
  is_Some (s_dir (dexec st (gob_trace G t n data)) !! G) /\
  (forall n', n' <> n -> n' <> t -> resolve (dexec st (gob_trace G t n data)) G n' = resolve st G n') /\
  s_next (dexec st (gob_trace G t n data)) = Pos.succ (s_next st).
Proof.
  intros (HI & HJ) HGF Hd Htn.
  set (i0 := s_next st).
  set (dd1 := DD (d_dur ddG) (d_pend ddG ++ [ELink t i0])).
  set (st1 := DS (<[i0 := Ino [] 0]> (s_ino st)) (<[G := dd1]> (s_dir st)) (Pos.succ i0)).
  set (st2 := DS (<[i0 := Ino data 0]> (s_ino st1)) (s_dir st1) (s_next st1)).
  set (st4 := DS (<[i0 := Ino data (length data)]> (s_ino st2)) (s_dir st2) (s_next st2)).
  set (dd7 := DD (d_dur ddG) ((d_pend ddG ++ [ELink t i0]) ++ [ELink n i0; EUnlink t])).
  set (st7 := DS (s_ino st4) (<[G := dd7]> (s_dir st4)) (s_next st4)).
  set (st8 := DS (s_ino st7) (<[G := DD (vol_entries dd7) []]> (s_dir st7)) (s_next st7)).
  assert (E1 : dstep st (DEv DCreateTemp (PFile G t) (PFile G t) None []) = st1).
  { unfold dstep, pend. cbn. rewrite Hd. reflexivity. }
  assert (R1 : resolve st1 G t = Some i0).
  { eapply (resolve_last st1 G dd1); [apply lookup_insert|reflexivity|reflexivity]. }
  assert (E2 : dstep st1 (DEv DEncode (PFile G t) (PFile G t) None data) = st2).
  { unfold dstep. cbn [de_op de_p de_q de_data]. rewrite R1. unfold st1 at 1. cbn [s_ino]. rewrite lookup_insert. reflexivity. }
  assert (R2 : resolve st2 G t = Some i0) by exact R1.
  assert (E4 : dstep st2 (DEv DSync (PFile G t) (PFile G t) None []) = st4).
  { unfold dstep. cbn [de_op de_p de_q ok_ev de_res]. rewrite R2. unfold st2 at 1. cbn [s_ino]. rewrite lookup_insert. reflexivity. }
  assert (R4 : resolve st4 G t = Some i0) by exact R1.
  assert (E7 : dstep st4 (DEv DRename (PFile G t) (PFile G n) None []) = st7).
  { unfold dstep. cbn [de_op de_p de_q ok_ev de_res]. rewrite R4. rewrite bool_decide_eq_true_2 by reflexivity.
    unfold pend. assert (Hd4 : s_dir st4 !! G = Some dd1) by apply lookup_insert. rewrite Hd4. reflexivity. }
  assert (E8 : dstep st7 (DEv DSyncDir (PDir G) (PDir G) None []) = st8).
  { unfold dstep. cbn [de_op de_p de_q ok_ev de_res].
    assert (Hd7 : s_dir st7 !! G = Some dd7) by apply lookup_insert. rewrite Hd7. reflexivity. }
  assert (Ex : dexec st (gob_trace G t n data) = st8).
  { unfold dexec, gob_trace. cbn [fold_left]. rewrite E1, E2.
    change (dstep st2 (DEv DChmod (PFile G t) (PFile G t) None [])) with st2. rewrite E4.
    change (dstep st4 (DEv DClose (PFile G t) (PFile G t) None [])) with st4.
    change (dstep st4 (DEv DVerify (PFile G t) (PFile G t) None [])) with st4. rewrite E7, E8. reflexivity. }
  assert (Hi4 : s_ino st4 !! i0 = Some (Ino data (length data))) by apply lookup_insert.
  rewrite Ex. split; [|split; [|split; [|split; [|split; [|split; [|reflexivity]]]]]].
  - unfold gob_trace. cbn [accepts]. rewrite E1, E2.
    change (dstep st2 (DEv DChmod (PFile G t) (PFile G t) None [])) with st2. rewrite E4.
    change (dstep st4 (DEv DClose (PFile G t) (PFile G t) None [])) with st4.
    change (dstep st4 (DEv DVerify (PFile G t) (PFile G t) None [])) with st4. rewrite E7.
    assert (S1 : ev_safe F isfont old new st (DEv DCreateTemp (PFile G t) (PFile G t) None []) = true).
    { unfold ev_safe. cbn. rewrite (bool_decide_eq_false_2 (G = F)) by exact HGF. reflexivity. }
    assert (S2 : ev_safe F isfont old new st1 (DEv DEncode (PFile G t) (PFile G t) None data) = true).
    { unfold ev_safe. cbn [de_op de_p de_q]. rewrite R1. apply negb_true_iff. unfold in_F.
      assert (HF1 : s_dir st1 !! F = s_dir st !! F) by (unfold st1; cbn [s_dir]; apply lookup_insert_ne; exact HGF).
      rewrite HF1. destruct (s_dir st !! F) as [ddF|] eqn:HdF; [|reflexivity].
      destruct (existsb _ (links_of ddF)) eqn:Ee; [|reflexivity]. exfalso.
      apply existsb_exists in Ee. destruct Ee as ([n' i'] & Hin & Hc). cbn in Hc.
      apply andb_true_iff in Hc. destruct Hc as (Hf' & Hi'). apply Pos.eqb_eq in Hi'. subst i'.
      assert (Hg : good old new st n' i0 = true).
      { apply HI; [exact Hf'|]. exists ddF. split; [exact HdF|exact Hin]. }
      apply good_dom, HJ in Hg. unfold i0 in Hg. lia. }
    assert (S7 : ev_safe F isfont old new st4 (DEv DRename (PFile G t) (PFile G n) None []) = true).
    { unfold ev_safe. cbn [de_op de_p de_q ok_ev de_res]. rewrite (bool_decide_eq_false_2 (G = F)) by exact HGF. reflexivity. }
    rewrite S1, S2, S7. reflexivity.
  - exists i0. split.
    + unfold resolve. assert (Hd8 : s_dir st8 !! G = Some (DD (vol_entries dd7) [])) by apply lookup_insert.
      rewrite Hd8. unfold vol_entries at 1. cbn [d_dur d_pend apply_eops fold_left].
      unfold vol_entries, dd7. cbn [d_dur d_pend]. rewrite apply_eops_app. cbn.
      rewrite lookup_delete_ne by exact Htn. apply lookup_insert.
    + exact Hi4.
  - unfold st8, st7, st4, st2, st1. cbn [s_dir]. rewrite !lookup_insert_ne by exact HGF. reflexivity.
  - intros i Hi. assert (i <> i0) by (unfold i0; lia).
    unfold st8, st7, st4, st2, st1. cbn [s_ino]. rewrite !lookup_insert_ne by congruence. reflexivity.
  - assert (Hd8 : s_dir st8 !! G = Some (DD (vol_entries dd7) [])) by apply lookup_insert. rewrite Hd8. eauto.
  - intros n' Hn Ht. unfold resolve. assert (Hd8 : s_dir st8 !! G = Some (DD (vol_entries dd7) [])) by apply lookup_insert.
    rewrite Hd8, Hd. unfold vol_entries at 1. cbn [d_dur d_pend apply_eops fold_left].
    unfold vol_entries, dd7. cbn [d_dur d_pend]. rewrite !apply_eops_app. cbn.
    rewrite lookup_delete_ne by congruence. rewrite !lookup_insert_ne by congruence. reflexivity.
Qed.

Lemma vol_entries_nil m : vol_entries (DD m []) = m.
Proof. reflexivity. Qed.

Lemma durable_now_untouched (st st' : dst) ddF ddF' m dm :
  s_dir st !! F = Some ddF -> s_dir st' !! F = Some ddF' -> s_ino st' = s_ino st ->
  d_pend ddF' = [] ->
  (forallb (fun o => negb (touches m o)) (d_pend ddF) = true -> d_dur ddF' !! m = d_dur ddF !! m) ->
  durable_now F st m dm = true -> durable_now F st' m dm = true.
Proof.
  intros Hd Hd' Hino Hp Hdur H. unfold durable_now in *. rewrite Hd in H. rewrite Hd', Hp, Hino. cbn [forallb andb].
  apply andb_true_iff in H. destruct H as (H1 & H2). rewrite Hdur; [exact H2|].
  erewrite forallb_ext'; [exact H1|]. intros [k i'|k]; reflexivity.
Qed.

(* committing one staged member: rename staging -> font directory ; fsync(staging) ; fsync(font directory) *)
Lemma commit_member st ddF ddG (G : list positive) n data :
  Inv' st -> G <> F -> s_dir st !! F = Some ddF -> s_dir st !! G = Some ddG ->
  staged st G n data -> isfont n = true -> new n = Some data ->
  accepts' st (commit_trace G F n) = true /\
  durable_now F (dexec st (commit_trace G F n)) n data = true /\
  (forall m dm, m <> n -> durable_now F st m dm = true -> durable_now F (dexec st (commit_trace G F n)) m dm = true) /\
  (forall m dm, m <> n -> staged st G m dm -> staged (dexec st (commit_trace G F n)) G m dm) /\
  is_Some (s_dir (dexec st (commit_trace G F n)) !! F) /\ is_Some (s_dir (dexec st (commit_trace G F n)) !! G).
Proof.
  intros (HI & HJ) HGF HdF HdG (i & Hr & Hi) Hfn Hnew.
  set (ddF1 := DD (d_dur ddF) (d_pend ddF ++ [ELink n i])).
  set (ddG1 := DD (d_dur ddG) (d_pend ddG ++ [EUnlink n])).
  set (stA := DS (s_ino st) (<[F := ddF1]> (s_dir st)) (s_next st)).
  set (stB := DS (s_ino st) (<[G := ddG1]> (s_dir stA)) (s_next st)).
  set (stC := DS (s_ino st) (<[G := DD (vol_entries ddG1) []]> (s_dir stB)) (s_next st)).
  set (stD := DS (s_ino st) (<[F := DD (vol_entries ddF1) []]> (s_dir stC)) (s_next st)).
  assert (HFG : F <> G) by congruence.
  assert (E1 : dstep st (DEv DRename (PFile G n) (PFile F n) None []) = stB).
  { unfold dstep. cbn [de_op de_p de_q ok_ev de_res]. rewrite Hr. rewrite (bool_decide_eq_false_2 (G = F)) by exact HGF.
    unfold pend at 2. rewrite HdF. fold ddF1. fold stA. unfold pend.
    assert (HA : s_dir stA !! G = Some ddG) by (unfold stA; cbn [s_dir]; rewrite lookup_insert_ne by exact HFG; exact HdG).
    rewrite HA. reflexivity. }
  assert (E2 : dstep stB (DEv DSyncDir (PDir G) (PDir G) None []) = stC).
  { unfold dstep. cbn [de_op de_p de_q ok_ev de_res].
    assert (HB : s_dir stB !! G = Some ddG1) by apply lookup_insert. rewrite HB. reflexivity. }
  assert (E3 : dstep stC (DEv DSyncDir (PDir F) (PDir F) None []) = stD).
  { unfold dstep. cbn [de_op de_p de_q ok_ev de_res].
    assert (HC : s_dir stC !! F = Some ddF1).
    { unfold stC, stB, stA. cbn [s_dir]. rewrite !lookup_insert_ne by exact HGF. apply lookup_insert. }
    rewrite HC. reflexivity. }
  assert (Ex : dexec st (commit_trace G F n) = stD).
  { unfold dexec, commit_trace. cbn [fold_left]. rewrite E1, E2, E3. reflexivity. }
  assert (HdFD : s_dir stD !! F = Some (DD (vol_entries ddF1) [])) by apply lookup_insert.
  assert (HdGD : s_dir stD !! G = Some (DD (vol_entries ddG1) [])).
  { unfold stD. cbn [s_dir]. rewrite lookup_insert_ne by exact HFG. apply lookup_insert. }
  rewrite Ex. split; [|split; [|split; [|split; [|split]]]].
  - unfold commit_trace. cbn [accepts]. rewrite E1, E2.
    assert (S1 : ev_safe F isfont old new st (DEv DRename (PFile G n) (PFile F n) None []) = true).
    { unfold ev_safe. cbn [de_op de_p de_q ok_ev de_res]. rewrite Hr. rewrite bool_decide_eq_true_2 by reflexivity.
      rewrite Hfn. cbn [negb orb]. unfold good. rewrite Hi. cbn [i_dur i_vol]. rewrite Nat.eqb_refl.
      unfold is_rep. rewrite Hnew. unfold bytes_eqb. rewrite (bool_decide_eq_true_2 (data = data)) by reflexivity.
      rewrite orb_true_r. reflexivity. }
    rewrite S1. reflexivity.
  - unfold durable_now. rewrite HdFD. cbn [d_pend d_dur forallb andb].
    assert (Hv : vol_entries ddF1 !! n = Some i).
    { unfold vol_entries, ddF1. cbn [d_dur d_pend]. rewrite apply_eops_app. cbn. apply lookup_insert. }
    rewrite Hv. change (s_ino stD) with (s_ino st). rewrite Hi. cbn [i_dur i_vol]. rewrite Nat.eqb_refl.
    unfold bytes_eqb. rewrite bool_decide_eq_true_2 by reflexivity. reflexivity.
  - intros m dm Hmn Hdur. eapply (durable_now_untouched st stD ddF _ m dm HdF HdFD); [reflexivity|reflexivity| |exact Hdur].
    intros Hp. cbn [d_dur]. unfold vol_entries, ddF1. cbn [d_dur d_pend]. rewrite apply_eops_app. cbn.
    rewrite lookup_insert_ne by congruence. apply apply_eops_untouched. exact Hp.
  - intros m dm Hmn (j & Hrj & Hij). exists j. split; [|exact Hij].
    unfold resolve in *. rewrite HdGD. rewrite HdG in Hrj. rewrite vol_entries_nil.
    unfold vol_entries, ddG1. cbn [d_dur d_pend]. rewrite apply_eops_app. cbn.
    rewrite lookup_delete_ne by congruence. exact Hrj.
  - rewrite HdFD. eauto.
  - rewrite HdGD. eauto.
Qed.

Lemma staged_dom st (data : bytes) i :
  Inv' st -> s_ino st !! i = Some (Ino data (length data)) -> (i < s_next st)%positive.
Proof. intros (_ & HJ) Hi. apply HJ. rewrite Hi. eauto. Qed.

(* staging a list of members *)
Lemma stage_all (G : list positive) ms : forall st,
  Inv' st -> G <> F -> is_Some (s_dir st !! G) ->
  (forall m, In m ms -> cm_tmp m <> cm_name m) ->
  NoDup (map cm_name ms) ->
  (forall m m', In m ms -> In m' ms -> cm_tmp m <> cm_name m') ->
  accepts' st (stage_trace G ms) = true /\
  (forall m, In m ms -> staged (dexec st (stage_trace G ms)) G (cm_name m) (cm_data m)) /\
  s_dir (dexec st (stage_trace G ms)) !! F = s_dir st !! F /\
  (forall i, (i < s_next st)%positive -> s_ino (dexec st (stage_trace G ms)) !! i = s_ino st !! i) /\
  is_Some (s_dir (dexec st (stage_trace G ms)) !! G) /\
  (forall n0 d0, staged st G n0 d0 -> ~ In n0 (map cm_name ms) -> ~ In n0 (map cm_tmp ms) ->
     staged (dexec st (stage_trace G ms)) G n0 d0).
Proof.
  induction ms as [|m ms IH]; intros st Hinv HGF HG Htn Hnd Hdisj.
  - cbn. split; [reflexivity|]. split; [intros m []|]. split; [reflexivity|]. split; [reflexivity|]. split; [exact HG|].
    intros n0 d0 H _ _. exact H.
  - destruct HG as [ddG HdG]. cbn [stage_trace flat_map]. fold (stage_trace G ms).
    cbn [map] in Hnd. apply NoDup_cons in Hnd. destruct Hnd as (Hm & Hnd). rewrite elem_of_list_In in Hm.
    destruct (stage_member st ddG G (cm_tmp m) (cm_name m) (cm_data m) Hinv HGF HdG) as (A1 & A2 & A3 & A4 & A5 & A6 & A7).
    { apply Htn. left. reflexivity. }
    set (st1 := dexec st (gob_trace G (cm_tmp m) (cm_name m) (cm_data m))) in *.
    assert (Hinv1 : Inv' st1) by (apply accepts_inv; assumption).
    assert (Hnext : (s_next st <= s_next st1)%positive) by (rewrite A7; lia).
    destruct (IH st1 Hinv1 HGF A5) as (B1 & B2 & B3 & B4 & B5 & B6).
    { intros m' Hm'. apply Htn. right. exact Hm'. }
    { exact Hnd. }
    { intros a b Ha Hb. apply Hdisj; right; assumption. }
    rewrite accepts_app, dexec_app. fold st1. rewrite A1, B1. split; [reflexivity|]. split; [|split; [|split; [|split]]].
    + intros m' [<-|Hm']; [|apply B2; exact Hm'].
      apply B6; [exact A2|exact Hm|].
      intros Hin. apply in_map_iff in Hin. destruct Hin as (m' & Ht & Hm').
      apply (Hdisj m' m); [right; exact Hm'|left; reflexivity|exact Ht].
    + rewrite B3. exact A3.
    + intros i Hi. rewrite B4 by lia. apply A4. exact Hi.
    + exact B5.
    + intros n0 d0 (i & Hr & Hi) Hn0 Ht0. cbn [map] in Hn0, Ht0. apply B6.
      * exists i. split.
        -- rewrite A6; [exact Hr| |]; intros ->; [apply Hn0|apply Ht0]; left; reflexivity.
        -- rewrite A4; [exact Hi|]. eapply staged_dom; [exact Hinv|exact Hi].
      * intros H. apply Hn0. right. exact H.
      * intros H. apply Ht0. right. exact H.
Qed.

(* committing a list of staged members *)
Lemma commit_all (G : list positive) ms : forall st,
  Inv' st -> G <> F -> is_Some (s_dir st !! F) -> is_Some (s_dir st !! G) ->
  (forall m, In m ms -> staged st G (cm_name m) (cm_data m) /\ isfont (cm_name m) = true /\ new (cm_name m) = Some (cm_data m)) ->
  NoDup (map cm_name ms) ->
  accepts' st (commit_all_trace G F ms) = true /\
  (forall m, In m ms -> durable_now F (dexec st (commit_all_trace G F ms)) (cm_name m) (cm_data m) = true) /\
  (forall n0 d0, ~ In n0 (map cm_name ms) -> durable_now F st n0 d0 = true ->
     durable_now F (dexec st (commit_all_trace G F ms)) n0 d0 = true).
Proof.
  induction ms as [|m ms IH]; intros st Hinv HGF HF HG Hst Hnd.
  - cbn. split; [reflexivity|]. split; [intros m []|]. intros n0 d0 _ H. exact H.
  - destruct HF as [ddF HdF]. destruct HG as [ddG HdG]. cbn [commit_all_trace flat_map]. fold (commit_all_trace G F ms).
    cbn [map] in Hnd. apply NoDup_cons in Hnd. destruct Hnd as (Hm & Hnd). rewrite elem_of_list_In in Hm.
    destruct (Hst m (or_introl eq_refl)) as (Hs & Hf & Hn).
    destruct (commit_member st ddF ddG G (cm_name m) (cm_data m) Hinv HGF HdF HdG Hs Hf Hn) as (A1 & A2 & A3 & A4 & A5 & A6).
    set (st1 := dexec st (commit_trace G F (cm_name m))) in *.
    assert (Hinv1 : Inv' st1) by (apply accepts_inv; assumption).
    destruct (IH st1 Hinv1 HGF A5 A6) as (B1 & B2 & B3).
    { intros m' Hm'. destruct (Hst m' (or_intror Hm')) as (Hs' & Hf' & Hn'). split; [|split; assumption].
      apply A4; [|exact Hs']. intros E. apply Hm. rewrite <- E. apply in_map. exact Hm'. }
    { exact Hnd. }
    rewrite accepts_app, dexec_app. fold st1. rewrite A1, B1. split; [reflexivity|]. split.
    + intros m' [<-|Hm']; [|apply B2; exact Hm']. apply B3; [exact Hm|exact A2].
    + intros n0 d0 Hn0 Hd. cbn [map] in Hn0. apply B3; [intros H; apply Hn0; right; exact H|].
      apply A3; [|exact Hd]. intros ->. apply Hn0. left. reflexivity.
Qed.

(* the whole collection: stage every member by the per-file protocol, then commit every member *)
Lemma collection_durable (G : list positive) ms st :
  Inv' st -> G <> F -> is_Some (s_dir st !! F) -> is_Some (s_dir st !! G) ->
  (forall m, In m ms -> cm_tmp m <> cm_name m /\ isfont (cm_name m) = true /\ new (cm_name m) = Some (cm_data m)) ->
  NoDup (map cm_name ms) ->
  (forall m m', In m ms -> In m' ms -> cm_tmp m <> cm_name m') ->
  accepts' st (collection_trace G F ms) = true /\
  forall m, In m ms -> durable_now F (dexec st (collection_trace G F ms)) (cm_name m) (cm_data m) = true.
Proof.
  intros Hinv HGF HF HG Hms Hnd Hdisj. unfold collection_trace.
  destruct (stage_all G ms st Hinv HGF HG) as (A1 & A2 & A3 & A4 & A5 & _).
  { intros m Hm. apply Hms. exact Hm. } { exact Hnd. } { exact Hdisj. }
  set (st1 := dexec st (stage_trace G ms)) in *.
  assert (Hinv1 : Inv' st1) by (apply accepts_inv; assumption).
  destruct (commit_all G ms st1 Hinv1 HGF) as (B1 & B2 & _).
  { rewrite A3. exact HF. } { exact A5. }
  { intros m Hm. destruct (Hms m Hm) as (_ & Hf & Hn). split; [apply A2; exact Hm|split; assumption]. }
  { exact Hnd. }
  rewrite accepts_app, dexec_app. fold st1. rewrite A1, B1. split; [reflexivity|exact B2].
Qed.
End Coll.
