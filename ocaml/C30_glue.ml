open Model
open Common

(* wire: ip / host / scheme = hex bytes; list items are prefixed with one letter and joined by ',' *)
let items (s : string) : string list =
  if s = "" then [] else List.map (fun it -> String.sub it 1 (String.length it - 1)) (String.split_on_char ',' s)
let iplist s = List.map bytes_of_hex (items s)
let show_iplist l = String.concat "," (List.map (fun a -> "x" ^ hex_of_bytes a) l)
let answer s = if s = "E" then None else Some (iplist (String.sub s 1 (String.length s - 1)))
let lookups s = if s = "" then [] else List.map answer (String.split_on_char '|' s)
let script s = List.init (String.length s) (fun i -> s.[i] = '1')
let b = str_of_bool
let outcome = function
  | DResolveErr -> "resolveerr"
  | DRejected -> "rejected"
  | DDialled (ts, c) -> "dialled:" ^ show_iplist ts ^ ":" ^ b c
let purl scheme user host hostip =
  { uScheme = bytes_of_hex scheme; uHasUser = bool_of_str user; uHostname = bytes_of_hex host;
    uHostIP = (if hostip = "nil" then None else Some (bytes_of_hex hostip)) }
let opt_url = function
  | ["nil"] -> None
  | [scheme; user; host; hostip] -> Some (purl scheme user host hostip)
  | _ -> failwith "url fields"

let chain s = List.map (fun u -> opt_url (String.split_on_char ';' u)) (String.split_on_char '|' s)

let dispatch fn args = match fn, args with
  | "classify", [a] ->
    let a = bytes_of_hex a in
    String.concat "," [
      "rev=" ^ b (revocationBlockedIP a); "img=" ^ b (imageBoxBlockedIP a); "spec=" ^ b (private_or_local a);
      "lo=" ^ b (isLoopback a); "pr=" ^ b (isPrivate a); "llu=" ^ b (isLinkLocalUnicast a);
      "llm=" ^ b (isLinkLocalMulticast a); "ilm=" ^ b (isInterfaceLocalMulticast a);
      "mc=" ^ b (isMulticast a); "un=" ^ b (isUnspecified a);
      "to4=" ^ (match to4 a with None -> "nil" | Some v -> hex_of_bytes v);
      "target=" ^ hex_of_bytes (dialTarget a) ]
  | "normalize", [h] -> hex_of_bytes (normalizeRevocationHost (bytes_of_hex h))
  | "allowed", [hosts; h] ->
    b (allowedLookup (allowedRevocationHostSet (iplist hosts)) (normalizeRevocationHost (bytes_of_hex h)))
  | "validateIPs", [hosts; h; ips] ->
    b (validateRevocationIPs (bytes_of_hex h) (iplist ips) (allowedRevocationHostSet (iplist hosts)))
  | "revdial", [hosts; h; ans; sc] ->
    outcome (revocationClientDial (iplist hosts) (bytes_of_hex h) (answer ans) (script sc))
  | "imgreject", [ips] -> b (rejectImageBoxIPs (iplist ips))
  | "imgdial", [ans; sc] -> outcome (imageBoxDial (answer ans) (script sc))
  (* check-then-use: scripted resolver = answers to the 1st, 2nd ... lookup, separated by '|' *)
  | "imgconn", [lk; sc] ->
    let ((o, calls), rest) = imageBoxConnect (lookups lk) (script sc) in
    outcome o ^ ";lookups=" ^ hex_of_n calls ^ ";unconsumed=" ^ string_of_int (List.length rest)
    ^ ";decision=" ^ (match imageBoxDialDecision (nextAnswer (lookups lk)) with None -> "none" | Some a -> hex_of_bytes a)
  | "revconn", [hosts; h; lk; sc] ->
    let allowed = allowedRevocationHostSet (iplist hosts) in
    let ((o, calls), rest) = revocationConnect allowed (bytes_of_hex h) (lookups lk) (script sc) in
    outcome o ^ ";lookups=" ^ hex_of_n calls ^ ";unconsumed=" ^ string_of_int (List.length rest)
    ^ ";candidates=" ^ show_iplist (revocationDialCandidates allowed (bytes_of_hex h) (nextAnswer (lookups lk)))
  (* redirect chains: URLs separated by '|', fields of one URL by ';' ; reply = how many URLs are requested *)
  | "revchain", [c] ->
    (match chain c with
     | first :: targets -> string_of_int (List.length (revocationFetchChain first targets))
     | [] -> failwith "empty chain")
  | "imgchain", [c] ->
    (match List.map (function Some u -> u | None -> failwith "imgchain: unparsable") (chain c) with
     | first :: targets -> string_of_int (List.length (imageBoxFetchChain first targets))
     | [] -> failwith "empty chain")
  | "revurl", u -> b (validateRevocationURL (opt_url u))
  | "revredirect", n :: u -> b (revocationRedirect (n_of_hex n) (opt_url u))
  | "imgurl", u -> let (r, ok) = imageBoxRemoteURL (opt_url u) in "remote=" ^ b r ^ ",ok=" ^ b ok
  | "imgredirect", [scheme; user; host; hostip] -> b (imageBoxRedirect (purl scheme user host hostip))
  | _ -> failwith ("unknown function " ^ fn)
let () = main dispatch
