(* C08 glue.
   graph  : entries separated by ';' :  <hexN>:X  (not a dict)  |  <hexN>:<P|p|o|n>:<kids>
            P = /Pages, p = /Page, o = other /Type, n = no /Type; kids comma separated: n (null) | b (not a ref) | r<hexN>
   tables : "k:v;k:v"  (prev: v = E | N | P<hexZ>;  alt: v = hexZ;  sibling: v = - | <hexN>)
   rose   : parenthesis string, "(" kid* ")"  *)
open Model
open Common

let split_nonempty c s = if s = "" then [] else String.split_on_char c s

let kid_of s = match s.[0] with
  | 'n' -> KNull | 'b' -> KBad
  | 'r' -> KRef (n_of_hex (String.sub s 1 (String.length s - 1)))
  | _ -> failwith "kid"
let ntype_of s = match s with "P" -> TPages | "p" -> TPage | "o" -> TOther | "n" -> TNone | _ -> failwith "ntype"
let entry_of s = match String.split_on_char ':' s with
  | [k; "X"] -> (n_of_hex k, NNotDict)
  | [k; t; kids] -> (n_of_hex k, NDict (ntype_of t, List.map kid_of (split_nonempty ',' kids)))
  | _ -> failwith "entry"
let graph_of s = List.map entry_of (split_nonempty ';' s)

let werr_s = function ECycle -> "cycle" | EDup -> "dup" | EDepth -> "depth" | EOther -> "other"
let wres_s = function
  | WNone (_, _) -> "none"
  | WFound nr -> "found:" ^ hex_of_z nr
  | WErr e -> "err:" ^ werr_s e
  | WOOF -> "OUT-OF-FUEL"

let step_of s = match s.[0] with
  | 'E' -> SErr | 'N' -> SEnd
  | 'P' -> SNext (z_of_hex (String.sub s 1 (String.length s - 1)))
  | _ -> failwith "step"
let pair_of f g s = match String.split_on_char ':' s with [k; v] -> (f k, g v) | _ -> failwith "pair"
let cres_s = function
  | CDone l -> "done:" ^ string_of_zlist (List.rev l)
  | CCycle l -> "cycle:" ^ string_of_zlist (List.rev l)
  | CErr -> "err" | COOF -> "OUT-OF-FUEL"
let optn_of s = if s = "-" then None else Some (n_of_hex s)
let sres_s = function
  | SOk _ -> "ok" | SCircular -> "circular" | SDup n -> "dup:" ^ hex_of_n n | SCorrupt -> "corrupt" | SOOF -> "OUT-OF-FUEL"

let rose_of (s : string) : rose =
  (* iterative, so that very deep inputs do not overflow the glue's own stack *)
  let stack = ref [] and cur = ref [] and result = ref None in
  String.iter (fun c -> match c with
    | '(' -> stack := !cur :: !stack; cur := []
    | ')' -> (match !stack with
              | parent :: rest -> let node = Rose (List.rev !cur) in
                                  stack := rest;
                                  if rest = [] && parent = [] then (result := Some node; cur := []) else cur := node :: parent
              | [] -> failwith "rose")
    | _ -> failwith "rose char") s;
  match !result with Some r -> r | None -> failwith "rose: empty"

let dispatch fn args = match fn, args with
  | "depth_exceeded", [maxd; depth] -> str_of_bool (depth_exceeded (z_of_hex maxd) (z_of_hex depth))
  | "page_number", [g; maxd; target; root] ->
    wres_s (page_number (graph_of g) (z_of_hex maxd) (z_of_hex target) (n_of_hex root))
  | "prev_chain", [tn; ta; start] ->
    cres_s (prev_chain (List.map (pair_of z_of_hex step_of) (split_nonempty ';' tn))
                       (List.map (pair_of z_of_hex z_of_hex) (split_nonempty ';' ta)) (z_of_hex start))
  | "sibling_list", [t; seen; first] ->
    sres_s (sibling_list (List.map (pair_of n_of_hex optn_of) (split_nonempty ';' t)) (nlist_of_string seen) (optn_of first))
  | "guarded_descent", [maxd; depth; t] ->
    let (m, ok) = guarded_descent (z_of_hex maxd) (z_of_hex depth) (rose_of t) in
    hex_of_z m ^ ":" ^ str_of_bool ok
  | "indexed_object", [nil; len; index] ->
    if indexed_ok (bool_of_str nil) (z_of_hex len) (z_of_hex index) then "ok" else "err"
  | "read_length", [b; off] ->
    (match read_length (bytes_of_hex b) (z_of_hex off) with
     | LOk (l, ind, nx) -> "ok:" ^ hex_of_z l ^ ":" ^ str_of_bool ind ^ ":" ^ hex_of_z nx
     | LErr -> "err" | LOOB -> "OUT-OF-BOUNDS")
  | "is_indef_term", [b; off] ->
    (match is_indef_term (bytes_of_hex b) (z_of_hex off) with
     | IOk t -> "ok:" ^ str_of_bool t | IErr -> "err" | IOOB -> "OUT-OF-BOUNDS")
  | "detect_marker", [endobj; l] ->
    (match detect_marker true (bool_of_str endobj) (bytes_of_hex l) with
     | DRes i -> hex_of_z i | DOOB -> "OUT-OF-BOUNDS" | DOOF -> "OUT-OF-FUEL")
  | "post_process_params", [p; c; b; k] ->
    let o s = if s = "-" || s = "" then None else Some (z_of_hex s) in
    (match post_process_params (o p) (o c) (o b) (o k) with
     | PPass -> "ok" | PPErr -> "err"
     | PPRows (c, rs, rl, bpp) -> "ok")
  | "predictor_row_params", [p; c; b; k] ->
    (match predictor_row_params (z_of_hex p) (z_of_hex c) (z_of_hex b) (z_of_hex k) with
     | None -> "err"
     | Some ((rs, rl), bpp) -> "ok:" ^ hex_of_z rs ^ ":" ^ hex_of_z rl ^ ":" ^ hex_of_z bpp)
  | "cmap4_layout", [avail; format; declared; segx2] ->
    (match cmap4_layout (z_of_hex avail) (z_of_hex format) (z_of_hex declared) (z_of_hex segx2) with
     | None -> "err"
     | Some (((((size, n), e), st), d), rg) ->
       "ok:" ^ String.concat ":" (List.map hex_of_z [size; n; e; st; d; rg]))
  | "buf_to_int64", [b] -> hex_of_z (buf_to_int64 (bytes_of_hex b))
  | _ -> failwith ("unknown function " ^ fn)
let () = main dispatch
