open Model
open Common

(* shape wire format (decimal ints):
   sections : "T<keys>" | "X<passes>.<ok>.<op>"  comma separated, newest first
   ostreams : "<passes>.<ok>.<op>.<n>"           comma separated
   entries  : "F" | "C" | "P<passes>.<ok>.<op>", each optionally "*<count>", comma separated
   passes   : "<d0>+<d1>+..."  DetectKeywordsWithContext iterations per pass of buffer() *)
let nat s = nat_of_int (int_of_string s)
let split_nonempty c s = if s = "" then [] else String.split_on_char c s
(* object: "<d0>+<d1>+...": scanner iterations of each buffer pass, then dict-key polls, then post polls *)
let mkobj b k p = match List.map nat (String.split_on_char '+' b) with
  | d0 :: rest -> { od0 = d0; odrest = rest; ok_ = nat k; op = nat p; obig = false }
  | [] -> failwith "passes"
let fobj_of s = match String.split_on_char '.' s with
  | [b; k; p] -> mkobj b k p
  | _ -> failwith "fobj"
let section_of s =
  let body = String.sub s 1 (String.length s - 1) in
  match s.[0] with
  | 'T' -> STable (nat body)
  | 'X' -> SStream (fobj_of body)
  | _ -> failwith "section"
let ostream_of s = match String.split_on_char '.' s with
  | [b; k; p; n] -> { os_obj = mkobj b k p; os_n = nat n }
  | _ -> failwith "ostream"
let entries_of s =
  List.concat_map (fun tok ->
    let item, cnt = match String.split_on_char '*' tok with
      | [i] -> i, 1 | [i; c] -> i, int_of_string c | _ -> failwith "entry" in
    let e = match item.[0] with
      | 'F' -> EFree | 'C' -> ECached
      | 'P' -> EParse (fobj_of (String.sub item 1 (String.length item - 1)))
      | _ -> failwith "entry kind" in
    List.init cnt (fun _ -> e)) (split_nonempty ',' s)
let o1 = { od0 = O; odrest = []; ok_ = O; op = O; obig = false }

let dispatch fn args = match fn, args with
  | "read", [relaxed; repoff; prefail; sections; nfile; enc; ostreams; entries; k] ->
    let s = { s_relaxed = bool_of_str relaxed; s_repoff = bool_of_str repoff; s_prefail = bool_of_str prefail;
              s_sections = List.map section_of (split_nonempty ',' sections);
              s_file = List.init (int_of_string nfile) (fun _ -> FObj o1);
              s_enc = nat enc;
              s_ostreams = List.map ostream_of (split_nonempty ',' ostreams);
              s_entries = entries_of entries } in
    let kk = if k = "-" then None else Some (n_of_int (int_of_string k)) in
    let (o, st) = read (flip_at kk (n_of_int 1)) s in
    let cls = match o with Done -> "ok" | CtxErr _ -> "ctx" | InErr -> "inerr" in
    Printf.sprintf "%s:%d:%d" cls (int_of_n st.late) (int_of_n st.polls)
  | "shapes", [] -> "ok"
  | "stage_bound", [] -> string_of_int (int_of_n stage_bound)
  | _ -> failwith ("unknown function " ^ fn)
let () = main dispatch
