open Model
open Common
let w64 = z_of_int 64
let dispatch fn args = match fn, args with
  | "AddInt", [a; b] -> res_z (addInt w64 (z_of_hex a) (z_of_hex b))
  | "MultiplyInt", [a; b] -> res_z (multiplyInt w64 (z_of_hex a) (z_of_hex b))
  | "MultiplyInt64", [a; b] -> res_z (multiplyInt64 w64 (z_of_hex a) (z_of_hex b))
  | _ -> failwith ("unknown function " ^ fn)
let () = main dispatch
