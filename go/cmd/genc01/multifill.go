package main

import (
	"go/ast"
	"go/token"
)

// Form multi-fill (pkg/api/form.go): a multi-output transaction.
//
//	func multiFillFormJSONWith / multiFillFormCSVWith(…, merge bool, …) (err error) {
//	    …
//	    var outFiles []string
//	    if merge {
//	        defer func() { …; err = errors.Join(err, rollbackMultiFillOutputs(outFiles)) }()
//	    }
//	    for … {
//	        outFile, fillErr := <record writer>(…)
//	        if outFile != "" { outFiles = append(outFiles, outFile) }
//	        if fillErr != nil { return fillErr }
//	    }
//	    if merge { return mergeForms(…, outFiles, …) }
//	    return nil
//	}
//
// Row `FRow "api" <name> HMultiRollback DRollbackFirst ""` iff
//   - `outFiles` is declared by a top-level `var outFiles []string`;
//   - the rollback is registered by a top-level `if merge { defer func() {…}() }` (condition the bare
//     identifier merge, no else, the defer its only statement) that comes BEFORE the record loop;
//   - inside the deferred function the call rollbackMultiFillOutputs(outFiles) is in a statement of the
//     function's own statement list (not under an if / for / switch): it runs on every exit;
//   - the record loop is the only top-level loop, records the output (`outFiles = append(outFiles, …)`)
//     before it returns the record's error;
//   - rollbackMultiFillOutputs is called nowhere else in pkg/api, and its body is a single range loop
//     over its parameter that calls removeFile for every element without return/break.
//
// Anything else fails.  In addition the record writer writeMultiFillOutputWith gets an ordinary
// single-output row (rule 1 of the *File functions).
func (g *gen) multiFillRows() []row {
	var rows []row
	for _, name := range []string{"multiFillFormCSVWith", "multiFillFormJSONWith"} {
		fn := g.api[name]
		if fn == nil {
			fail(name, "not declared in pkg/api (form multi-fill transaction)")
		}
		g.checkMultiFillTx(fn)
		rows = append(rows, row{"api", name, "HMultiRollback", "DRollbackFirst", ""})
	}
	g.checkRollbackHelper()
	// every call of rollbackMultiFillOutputs belongs to one of the two transactions
	for n, fn := range g.api {
		if n == "multiFillFormCSVWith" || n == "multiFillFormJSONWith" {
			continue
		}
		if hasCall(fn.Body, callsIdent("rollbackMultiFillOutputs")) {
			fail(n, "calls rollbackMultiFillOutputs; only the deferred functions of multiFillFormJSONWith / multiFillFormCSVWith are understood")
		}
	}
	w := g.api["writeMultiFillOutputWith"]
	if w == nil {
		fail("writeMultiFillOutputWith", "not declared in pkg/api")
	}
	c := g.classifyDirect(w)
	if c == nil {
		fail("writeMultiFillOutputWith", "does not call openStagedOutput")
	}
	rows = append(rows, row{"api", "writeMultiFillOutputWith", c.helper, c.key, c.via})
	return rows
}

func (g *gen) checkMultiFillTx(fn *ast.FuncDecl) {
	name := fn.Name.Name
	if !hasNamedErrResult(fn) {
		fail(name, "has no named result `err error`")
	}
	isRollback := callsIdent("rollbackMultiFillOutputs")
	declIdx, deferIdx, loopIdx := -1, -1, -1
	for i, s := range fn.Body.List {
		switch s := s.(type) {
		case *ast.DeclStmt:
			if gd, ok := s.Decl.(*ast.GenDecl); ok && gd.Tok == token.VAR && len(gd.Specs) == 1 {
				if vs, ok := gd.Specs[0].(*ast.ValueSpec); ok && len(vs.Names) == 1 && vs.Names[0].Name == "outFiles" && len(vs.Values) == 0 {
					if declIdx >= 0 {
						fail(name, "outFiles is declared twice")
					}
					declIdx = i
				}
			}
		case *ast.IfStmt:
			if !hasCall(s, isRollback) {
				continue
			}
			if deferIdx >= 0 {
				fail(name, "rollbackMultiFillOutputs is reached from two top-level statements")
			}
			if s.Init != nil || s.Else != nil || !isIdent(s.Cond, "merge") || len(s.Body.List) != 1 {
				fail(name, "the statement at %s that reaches rollbackMultiFillOutputs is not `if merge { defer func() {...}() }`", g.at(s))
			}
			d, ok := s.Body.List[0].(*ast.DeferStmt)
			if !ok {
				fail(name, "the statement at %s that reaches rollbackMultiFillOutputs is not `if merge { defer func() {...}() }`", g.at(s))
			}
			lit := plainDeferredFuncLit(d)
			if lit == nil {
				fail(name, "deferred call at %s is not of the form `defer func() {...}()`", g.at(d))
			}
			found := 0
			for _, ls := range lit.Body.List {
				if !hasCall(ls, isRollback) {
					continue
				}
				as, ok := ls.(*ast.AssignStmt)
				if !ok || as.Tok != token.ASSIGN || len(as.Lhs) != 1 || !isIdent(as.Lhs[0], "err") {
					fail(name, "deferred function at %s: rollbackMultiFillOutputs is not called by a plain statement `err = errors.Join(err, rollbackMultiFillOutputs(outFiles))` of the function's own statement list", g.at(d))
				}
				for _, c := range calls(ls, false, isRollback) {
					if len(c.Args) != 1 || !isIdent(c.Args[0], "outFiles") {
						fail(name, "deferred function at %s: rollbackMultiFillOutputs is not applied to outFiles", g.at(d))
					}
				}
				found++
			}
			if found != 1 {
				fail(name, "deferred function at %s: rollbackMultiFillOutputs must be called by exactly one unconditional statement (found %d)", g.at(d), found)
			}
			if g.requireResultErr(fn, d) != "DErr" {
				fail(name, "deferred function at %s assigns a shadowed err", g.at(d))
			}
			deferIdx = i
		case *ast.RangeStmt, *ast.ForStmt:
			if loopIdx >= 0 {
				fail(name, "more than one top-level loop (second at %s)", g.at(s))
			}
			loopIdx = i
		default:
			if hasCall(s, isRollback) {
				fail(name, "rollbackMultiFillOutputs is called at %s outside `if merge { defer ... }`", g.at(s))
			}
		}
	}
	if declIdx < 0 {
		fail(name, "no top-level `var outFiles []string`")
	}
	if deferIdx < 0 {
		fail(name, "no top-level `if merge { defer func() { ... rollbackMultiFillOutputs(outFiles) ... }() }`: the intermediate files of a failed merge-mode run are not rolled back by this function")
	}
	if loopIdx < 0 {
		fail(name, "no top-level record loop")
	}
	if !(declIdx < deferIdx && deferIdx < loopIdx) {
		fail(name, "the rollback must be registered after the declaration of outFiles and BEFORE the record loop (declaration %s, defer %s, loop %s)",
			g.at(fn.Body.List[declIdx]), g.at(fn.Body.List[deferIdx]), g.at(fn.Body.List[loopIdx]))
	}
	// the loop records the output before it returns the record's error
	var body *ast.BlockStmt
	switch l := fn.Body.List[loopIdx].(type) {
	case *ast.RangeStmt:
		body = l.Body
	case *ast.ForStmt:
		body = l.Body
	}
	appendIdx, returnIdx := -1, -1
	for i, s := range body.List {
		isAppend := false
		ast.Inspect(s, func(n ast.Node) bool {
			if as, ok := n.(*ast.AssignStmt); ok && as.Tok == token.ASSIGN && len(as.Lhs) == 1 && isIdent(as.Lhs[0], "outFiles") {
				if c, ok := as.Rhs[0].(*ast.CallExpr); ok && identCall(c) == "append" && len(c.Args) >= 2 && isIdent(c.Args[0], "outFiles") {
					isAppend = true
				} else {
					fail(name, "outFiles is assigned at %s by something else than `append(outFiles, ...)`", g.at(as))
				}
			}
			return true
		})
		if isAppend && appendIdx < 0 {
			appendIdx = i
		}
		hasReturn := false
		ast.Inspect(s, func(n ast.Node) bool {
			if _, ok := n.(*ast.FuncLit); ok {
				return false
			}
			if _, ok := n.(*ast.ReturnStmt); ok {
				hasReturn = true
			}
			return true
		})
		if hasReturn && returnIdx < 0 {
			returnIdx = i
		}
	}
	if appendIdx < 0 {
		fail(name, "the record loop never appends to outFiles")
	}
	if returnIdx >= 0 && returnIdx <= appendIdx {
		fail(name, "the record loop returns (at %s) before it records the output in outFiles", g.at(body.List[returnIdx]))
	}
	// outFiles is assigned nowhere outside the loop
	for i, s := range fn.Body.List {
		if i == loopIdx {
			continue
		}
		ast.Inspect(s, func(n ast.Node) bool {
			if as, ok := n.(*ast.AssignStmt); ok {
				for _, l := range as.Lhs {
					if isIdent(l, "outFiles") {
						fail(name, "outFiles is assigned at %s outside the record loop", g.at(as))
					}
				}
			}
			return true
		})
	}
}

func (g *gen) checkRollbackHelper() {
	fn := g.api["rollbackMultiFillOutputs"]
	name := "rollbackMultiFillOutputs"
	if fn == nil {
		fail(name, "not declared in pkg/api")
	}
	if fn.Type.Params == nil || len(fn.Type.Params.List) != 1 || len(fn.Type.Params.List[0].Names) != 1 {
		fail(name, "expected exactly one parameter")
	}
	param := fn.Type.Params.List[0].Names[0].Name
	nloops := 0
	for _, s := range fn.Body.List {
		rs, ok := s.(*ast.RangeStmt)
		if !ok {
			if _, isFor := s.(*ast.ForStmt); isFor {
				fail(name, "unexpected for loop at %s", g.at(s))
			}
			continue
		}
		nloops++
		if !isIdent(rs.X, param) {
			fail(name, "the loop at %s does not range over the parameter %s", g.at(rs), param)
		}
		if !hasCall(rs.Body, callsIdent("removeFile")) {
			fail(name, "the loop at %s does not call removeFile", g.at(rs))
		}
		ast.Inspect(rs.Body, func(n ast.Node) bool {
			switch n := n.(type) {
			case *ast.ReturnStmt:
				fail(name, "return inside the removal loop at %s", g.at(n))
			case *ast.BranchStmt:
				fail(name, "%s inside the removal loop at %s", n.Tok, g.at(n))
			}
			return true
		})
	}
	if nloops != 1 {
		fail(name, "expected exactly one range loop over the files, found %d", nloops)
	}
}
