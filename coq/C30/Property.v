(* C30 — Network fetches never reach private or local addresses.
   Property theorems only; each is closed by lemmas of ProofsIP/ProofsDial and followed by
   Print Assumptions.  Model: C30/Model.v (hand transcription of Go net.IP + pdfcpu);  the notion of
   "loopback, private, link-local, multicast or unspecified" is C30/Spec.v (CIDR blocks over the address
   as one number, from the RFCs; shares nothing with the model). *)
From Coq Require Import ZArith NArith List Bool Lia.
From PV Require Import C30.Model C30.Spec C30.ProofsIP C30.ProofsDial.
Import ListNotations.
Open Scope N_scope.

Definition wf_ips (ips : list ip) : Prop := Forall (fun a => bytesb a = true) ips.

Lemma wf_bytes ips : wf_ips ips -> Forall bytes ips.
Proof. unfold wf_ips. rewrite !Forall_forall. intros H a Ha. apply bytesb_bytes. apply H. exact Ha. Qed.

(* 1. For EVERY byte string (4 bytes, 16 bytes, or any other length) both blocked predicates are exactly
      the RFC notion; 2^32 + 2^128 addresses, no enumeration. *)
Theorem C30_blocked_iff_spec : forall a, bytesb a = true ->
  revocationBlockedIP a = private_or_local a /\ imageBoxBlockedIP a = private_or_local a.
Proof.
  intros a H. apply bytesb_bytes in H. split; [|rewrite imageBox_is_revocation]; apply blocked_iff_spec; exact H.
Qed.
Print Assumptions C30_blocked_iff_spec.

(* 2. The IPv4-mapped IPv6 form ::ffff:a.b.c.d is judged exactly like a.b.c.d, by code and by spec. *)
Theorem C30_mapped_blocked : forall b0 b1 b2 b3, bytesb [b0;b1;b2;b3] = true ->
  revocationBlockedIP (IPv4 b0 b1 b2 b3) = revocationBlockedIP [b0;b1;b2;b3] /\
  private_or_local (IPv4 b0 b1 b2 b3) = private_or_local [b0;b1;b2;b3].
Proof.
  intros b0 b1 b2 b3 H. split; [apply blocked_mapped|].
  apply bytesb_bytes in H.
  rewrite <- !blocked_iff_spec; [apply blocked_mapped|exact H|].
  unfold IPv4, bytes. apply Forall_app. split; [repeat constructor|exact H].
Qed.
Print Assumptions C30_mapped_blocked.

(* 3. Revocation (CRL/OCSP) dial context, any resolver answer of any length, any dialer behaviour:
      the addresses handed to the dialer are a prefix, in order, of the answer; and unless the host is
      allow-listed, NO address of the answer and NO dialled address is private/local. *)
Theorem C30_dial_targets_validated : forall allowed host ips script ts c,
  wf_ips ips ->
  revocationDial allowed host (Some ips) script = DDialled ts c ->
  ips <> [] /\
  (exists n, ts = firstn n (map dialTarget ips)) /\
  (forall t, In t ts -> exists a, In a ips /\ t = dialTarget a) /\
  (allowedLookup allowed (normalizeRevocationHost host) = false ->
     (forall a, In a ips -> private_or_local a = false) /\
     (forall t, In t ts -> private_or_local t = false)).
Proof. intros allowed host ips script ts c W. apply revocationDial_sound. apply wf_bytes. exact W. Qed.
Print Assumptions C30_dial_targets_validated.

(* 4. All-or-nothing: one private/local address anywhere in the answer of a host that is not
      allow-listed => nothing is dialled; nor on a resolver error or an empty answer. *)
Theorem C30_dial_all_or_nothing : forall allowed host ips script,
  wf_ips ips ->
  allowedLookup allowed (normalizeRevocationHost host) = false ->
  (exists a, In a ips /\ private_or_local a = true) ->
  revocationDial allowed host (Some ips) script = DRejected.
Proof. intros allowed host ips script W. apply revocationDial_all_or_nothing. apply wf_bytes. exact W. Qed.
Print Assumptions C30_dial_all_or_nothing.

Theorem C30_dial_nothing_without_answer : forall allowed host script,
  revocationDial allowed host None script = DResolveErr /\
  revocationDial allowed host (Some []) script = DRejected.
Proof. exact revocationDial_nothing. Qed.
Print Assumptions C30_dial_nothing_without_answer.

(* 5. The dial loop stops right after the first successful dial and otherwise tries every address once. *)
Theorem C30_dial_loop_shape : forall ips script ts,
  (dialLoop ips script = (ts, true) ->
     exists k, nth k script false = true /\ (forall j, (j < k)%nat -> nth j script false = false)
               /\ ts = firstn (S k) (map dialTarget ips) /\ (k < length ips)%nat) /\
  (dialLoop ips script = (ts, false) -> ts = map dialTarget ips).
Proof. intros ips script ts. split; [apply dialLoop_connected|apply dialLoop_all_fail]. Qed.
Print Assumptions C30_dial_loop_shape.

(* 6. Remote-image dial context: every answer validated, exactly the first address dialled; no allow-list. *)
Theorem C30_imagebox_dial_targets_validated : forall ips script,
  wf_ips ips ->
  (forall ts c, imageBoxDial (Some ips) script = DDialled ts c ->
     exists a0 rest, ips = a0 :: rest /\ ts = [dialTarget a0] /\
       (forall a, In a ips -> private_or_local a = false) /\
       (forall t, In t ts -> private_or_local t = false)) /\
  ((exists a, In a ips /\ private_or_local a = true) -> imageBoxDial (Some ips) script = DRejected) /\
  imageBoxDial None script = DResolveErr /\ imageBoxDial (Some []) script = DRejected.
Proof.
  intros ips script W. apply wf_bytes in W. split; [|split; [|split; reflexivity]].
  - intros ts c. apply imageBoxDial_sound. exact W.
  - apply imageBoxDial_all_or_nothing. exact W.
Qed.
Print Assumptions C30_imagebox_dial_targets_validated.

(* 7. Allow-list: a host is exempt iff its normal form is non-empty and equals the normal form of a
      configured entry; and the normal form of a name differs from the name only by ASCII case,
      surrounding ASCII white space and at most one trailing dot. *)
Theorem C30_allowlist_exact : forall hosts host,
  (allowedLookup (allowedRevocationHostSet hosts) (normalizeRevocationHost host) = true <->
   normalizeRevocationHost host <> [] /\
   exists h, In h hosts /\ normalizeRevocationHost h = normalizeRevocationHost host) /\
  (exists pre dot post,
     map toLowerAscii host = pre ++ normalizeRevocationHost host ++ dot ++ post /\
     spaces pre /\ spaces post /\ (dot = [] \/ dot = [46])).
Proof. intros hosts host. split; [apply allowed_iff|apply normalize_shape]. Qed.
Print Assumptions C30_allowlist_exact.

(* 8. Redirect targets are held to the same URL rules as the first URL (the connection itself goes
      through the same transport, hence the same dial context: theorems 3-6), at most 10 hops for
      revocation; accepted URLs are http/https, without credentials, with a host. *)
Theorem C30_redirect_same_rules : forall n u,
  (revocationRedirect n u = true ->
     n < 10 /\ validateRevocationURL u = true /\
     exists p, u = Some p /\ (uScheme p = s_http \/ uScheme p = s_https) /\ uHasUser p = false
               /\ uHostname p <> []) /\
  (forall p, imageBoxRedirect p = validateImageBoxRemoteURL p) /\
  (forall p, validateImageBoxRemoteURL p = true ->
     uHasUser p = false /\ uHostname p <> [] /\
     (forall a, uHostIP p = Some a -> bytesb a = true -> private_or_local a = false)) /\
  (imageBoxRemoteURL u = (true, true) ->
     exists p, u = Some p /\ (uScheme p = s_http \/ uScheme p = s_https) /\ validateImageBoxRemoteURL p = true).
Proof.
  intros n u. split; [|split; [|split]].
  - intros H. destruct (revocationRedirect_sound n u H) as [Hn Hv].
    split; [exact Hn|]. split; [exact Hv|]. apply validateRevocationURL_sound. exact Hv.
  - reflexivity.
  - intros p H. destruct (validateImageBoxRemoteURL_sound p H) as (A & B & C).
    split; [exact A|]. split; [exact B|]. intros a Ea Ba. apply (C a Ea). apply bytesb_bytes. exact Ba.
  - apply imageBoxRemoteURL_sound.
Qed.
Print Assumptions C30_redirect_same_rules.

(* 9. Lifetime of a client: for ANY list of dial requests served by one dial context (same host again
      on another port, a refused host retried, answers that change between attempts, redirect hops ...),
      every single request gets the per-dial guarantee of theorems 3/4/6 -- judged against THAT request's
      resolver answer.  This rests on the dial context being stateless (the history is the request-wise
      map of the one-dial function); that the real closures are stateless is what the harness's sequence
      streams check (one dial context / client instance, 2-4 dials, each compared with the model). *)
Definition wf_req (q : dialReq) : Prop :=
  match rqAnswer q with Some ips => wf_ips ips | None => True end.

Theorem C30_dial_history_validated : forall allowed reqs,
  Forall wf_req reqs ->
  (forall q o, In (q, o) (combine reqs (revocationDialHistory allowed reqs)) ->
     per_dial_guarantee (allowedLookup allowed (normalizeRevocationHost (rqHost q))) q o) /\
  (forall q o, In (q, o) (combine reqs (imageBoxDialHistory reqs)) -> per_dial_guarantee false q o) /\
  length (revocationDialHistory allowed reqs) = length reqs /\
  length (imageBoxDialHistory reqs) = length reqs.
Proof.
  intros allowed reqs W.
  assert (HB : Forall answer_bytes reqs).
  { rewrite Forall_forall in *. intros q Hq. specialize (W q Hq). unfold wf_req, answer_bytes in *.
    destruct (rqAnswer q); [apply wf_bytes; exact W|exact I]. }
  split; [apply revocationDialHistory_sound; exact HB|].
  split; [apply imageBoxDialHistory_sound; exact HB|].
  unfold revocationDialHistory, imageBoxDialHistory. rewrite !map_length. split; reflexivity.
Qed.
Print Assumptions C30_dial_history_validated.

(* 10. Check-then-use.  The address handed to the dialer is an explicit output of the decision: it is
       a member of the ONE answer that was vetted, it passes the policy, the dialled text is that
       address (never the host name), one connection makes exactly one resolver call, and whatever a
       rebinding resolver would answer to later lookups has no influence. *)
Theorem C30_dial_target_vetted :
  (forall answer a, imageBoxDialDecision answer = Some a ->
     exists ips, answer = Some ips /\ In a ips /\ rejectImageBoxIPs ips = true /\ imageBoxBlockedIP a = false /\
       (wf_ips ips -> private_or_local a = false /\ forall b, In b ips -> private_or_local b = false)) /\
  (forall answer script, imageBoxDial answer script =
     match answer with
     | None => DResolveErr
     | Some _ => match imageBoxDialDecision answer with
                 | Some a => DDialled [dialTarget a] (hd false script)
                 | None => DRejected
                 end
     end) /\
  (forall allowed host answer a, In a (revocationDialCandidates allowed host answer) ->
     exists ips, answer = Some ips /\ In a ips /\ validateRevocationIPs host ips allowed = true /\
       (allowedLookup allowed (normalizeRevocationHost host) = false ->
          revocationBlockedIP a = false /\
          (wf_ips ips -> private_or_local a = false /\ forall b, In b ips -> private_or_local b = false))) /\
  (forall allowed host answer script, revocationDial allowed host answer script =
     match answer with
     | None => DResolveErr
     | Some ips => if validateRevocationIPs host ips allowed
                   then let (ts, c) := dialLoop (revocationDialCandidates allowed host answer) script in DDialled ts c
                   else DRejected
     end) /\
  (forall allowed host first later later' script,
     fst (fst (imageBoxConnect (first :: later) script)) = fst (fst (imageBoxConnect (first :: later') script)) /\
     fst (fst (revocationConnect allowed host (first :: later) script)) =
     fst (fst (revocationConnect allowed host (first :: later') script)) /\
     snd (fst (imageBoxConnect (first :: later) script)) = 1 /\
     snd (fst (revocationConnect allowed host (first :: later) script)) = 1 /\
     snd (imageBoxConnect (first :: later) script) = later /\
     snd (revocationConnect allowed host (first :: later) script) = later).
Proof.
  split; [|split; [|split; [|split]]].
  - intros answer a H. destruct (imageBoxDialDecision_sound answer a H) as (ips & E & I1 & V & NB & P).
    exists ips. split; [exact E|]. split; [exact I1|]. split; [exact V|]. split; [exact NB|].
    intros W. apply P. apply wf_bytes. exact W.
  - exact imageBoxDial_decision.
  - intros allowed host answer a H.
    destruct (revocationDialCandidates_sound allowed host answer a H) as (ips & E & I1 & V & P).
    exists ips. split; [exact E|]. split; [exact I1|]. split; [exact V|].
    intros NA. destruct (P NA) as [NB Q]. split; [exact NB|]. intros W. apply Q. apply wf_bytes. exact W.
  - exact revocationDial_candidates.
  - exact connect_first_answer_only.
Qed.
Print Assumptions C30_dial_target_vetted.

(* 11. Redirect chains.  The redirect decision is  validate target && len via < max  with the SAME
       validate as for an initial URL and no dependence on where the redirect comes from; by induction
       over the chain every URL that is requested -- the initial one and every followed hop -- is
       http/https, carries NO userinfo and names a host (image box: no userinfo, a host, no private
       literal); a revocation fetch requests at most 10 URLs; what is requested is a prefix of the chain. *)
Theorem C30_redirect_chain_validated :
  (forall nvia u, revocationRedirect nvia u = (validateRevocationURL u && (nvia <? maxRevocationRedirects))) /\
  (forall first targets u, In u (revocationFetchChain first targets) ->
     validateRevocationURL u = true /\
     exists p, u = Some p /\ (uScheme p = s_http \/ uScheme p = s_https) /\ uHasUser p = false /\ uHostname p <> []) /\
  (forall first targets, (length (revocationFetchChain first targets) <= 10)%nat /\
     exists k, revocationFetchChain first targets = firstn k (first :: targets)) /\
  (forall first targets u, In u (imageBoxFetchChain first targets) ->
     validateImageBoxRemoteURL u = true /\ uHasUser u = false /\ uHostname u <> [] /\
     (forall a, uHostIP u = Some a -> bytesb a = true -> private_or_local a = false)).
Proof.
  split; [|split; [|split]].
  - intros nvia u. unfold revocationRedirect, maxRevocationRedirects.
    destruct (10 <=? nvia) eqn:E; destruct (nvia <? 10) eqn:F; try lia;
      destruct (validateRevocationURL u); reflexivity.
  - intros first targets u H. pose proof (revocationFetchChain_valid _ _ _ H) as V.
    split; [exact V|apply validateRevocationURL_sound; exact V].
  - intros first targets. split; [apply revocationFetchChain_length|].
    unfold revocationFetchChain. destruct (validateRevocationURL first); [|exists 0%nat; reflexivity].
    destruct (revocationFollow_prefix targets 1) as [k Hk]. exists (S k). cbn [firstn]. rewrite Hk. reflexivity.
  - intros first targets u H. pose proof (imageBoxFetchChain_valid _ _ _ H) as V.
    split; [exact V|]. destruct (validateImageBoxRemoteURL_sound u V) as (A & B & C).
    split; [exact A|]. split; [exact B|]. intros a Ea Ba. apply (C a Ea). apply bytesb_bytes. exact Ba.
Qed.
Print Assumptions C30_redirect_chain_validated.

(* ---- non-vacuity: hypotheses satisfiable, both outcomes occur *)
Definition pub1 : ip := [93;184;216;34].
Definition pub6 : ip := [0x20;0x01;0x0d;0xb8;0;0;0;0;0;0;0;0;0;0;0;1].
Definition host_a : bstr := [97].
Example C30_nonvacuous :
  wf_ips [pub1; IPv4 10 0 0 1] /\
  revocationDial [] host_a (Some [pub6; pub1]) [false; true] = DDialled [pub6; pub1] true /\
  revocationDial [] host_a (Some [pub1; IPv4 10 0 0 1]) [true] = DRejected /\
  revocationDial (allowedRevocationHostSet [[32;65;46]]) host_a (Some [IPv4 10 0 0 1]) [true]
    = DDialled [[10;0;0;1]] true /\
  imageBoxDial (Some [IPv4 93 184 216 34; pub6]) [true] = DDialled [pub1] true /\
  imageBoxDial (Some [pub1; [127;0;0;1]]) [true] = DRejected /\
  private_or_local [172;31;255;255] = true /\ private_or_local [172;32;0;0] = false /\
  private_or_local [172;15;255;255] = false /\
  revocationRedirect 9 (Some (mkURL s_http false host_a None)) = true /\
  revocationRedirect 10 (Some (mkURL s_http false host_a None)) = false.
Proof. split; [repeat constructor|vm_compute; repeat split; congruence]. Qed.

(* a refused host retried, then the same host with a clean answer, then again with a poisoned one *)
Example C30_history_nonvacuous :
  let reqs := [mkReq host_a (Some [pub1; IPv4 10 0 0 1]) [true];
               mkReq host_a (Some [pub1]) [true];
               mkReq host_a (Some [IPv4 127 0 0 1; pub1]) [true; true];
               mkReq host_a None []] in
  Forall wf_req reqs /\
  revocationDialHistory [] reqs = [DRejected; DDialled [pub1] true; DRejected; DResolveErr] /\
  imageBoxDialHistory reqs = [DRejected; DDialled [pub1] true; DRejected; DResolveErr].
Proof. split; [repeat constructor|vm_compute; split; reflexivity]. Qed.

(* ---- observations (not part of the property's five classes; recorded so that a reader sees what
   the code does for neighbouring special-purpose ranges): none of these is blocked by pdfcpu *)
Example C30_outside_scope_not_blocked :
  revocationBlockedIP [100;64;0;1] = false           (* RFC 6598 shared address space (CGNAT) *)
  /\ revocationBlockedIP [255;255;255;255] = false   (* limited broadcast *)
  /\ revocationBlockedIP [0;0;0;1] = false           (* 0.0.0.0/8 other than 0.0.0.0 *)
  /\ revocationBlockedIP [240;0;0;1] = false         (* 240/4 reserved *)
  /\ revocationBlockedIP [0;0;0;0;0;0;0;0;0;0;0;0;127;0;0;1] = false            (* ::127.0.0.1 IPv4-compatible (deprecated) *)
  /\ revocationBlockedIP [0;0x64;0xff;0x9b;0;0;0;0;0;0;0;0;127;0;0;1] = false   (* 64:ff9b::127.0.0.1 NAT64 *)
  /\ revocationBlockedIP [0x20;0x02;10;0;0;1;0;0;0;0;0;0;0;0;0;1] = false       (* 2002:0a00:0001:: 6to4 of 10.0.0.1 *)
  /\ revocationBlockedIP [0xfe;0xc0;0;0;0;0;0;0;0;0;0;0;0;0;0;1] = false.       (* fec0::/10 site-local (deprecated) *)
Proof. vm_compute. repeat split. Qed.

(* DNS rebinding script: first answer public, second answer loopback -- the connection dials the public
   address, calls the resolver once, and leaves the poisoned answer unconsumed *)
Example C30_rebinding_nonvacuous :
  imageBoxConnect [Some [pub1; pub6]; Some [[127;0;0;1]]] [true] = (DDialled [pub1] true, 1, [Some [[127;0;0;1]]]) /\
  imageBoxDialDecision (Some [pub1; pub6]) = Some pub1 /\
  imageBoxDialDecision (Some [pub1; [169;254;169;254]]) = None /\
  revocationConnect [] host_a [Some [pub6; pub1]; Some [[127;0;0;1]]] [false; true]
    = (DDialled [pub6; pub1] true, 1, [Some [[127;0;0;1]]]) /\
  revocationDialCandidates [] host_a (Some [pub6; pub1]) = [pub6; pub1] /\
  revocationDialCandidates [] host_a (Some [pub6; [10;0;0;1]]) = [].
Proof. vm_compute. repeat split; reflexivity. Qed.

(* a responder redirecting to its own origin with credentials: the hop is refused, nothing after it is requested *)
Example C30_redirect_chain_nonvacuous :
  let u := Some (mkURL s_http false host_a None) in
  let u_creds := Some (mkURL s_http true host_a None) in
  revocationFetchChain u [u; u_creds; u] = [u; u] /\
  revocationFetchChain u_creds [u] = [] /\
  length (revocationFetchChain u (repeat u 20)) = 10%nat /\
  imageBoxFetchChain (mkURL s_https false host_a None)
     [mkURL s_https false host_a None; mkURL s_https true host_a None; mkURL s_https false host_a None]
   = [mkURL s_https false host_a None; mkURL s_https false host_a None].
Proof. vm_compute. repeat split; reflexivity. Qed.
