// genc40 regenerates coq/C40/Generated.v from the pdfcpu source (go/ast only, no pdfcpu
// import): the LOCK-DISCIPLINE TABLE of the package-level shared state of property C40.
//
//	genc40 -repo <pdfcpu tree> -out <Generated.v>
//
// Tracked variables and the lock that is supposed to guard each of them:
//
//	pkg/font            userFontMetrics                          userFontMetricsLock (RWMutex)
//	pkg/font            loadUserFontsOnce, loadUserFontsErr      loadUserFontsMutex  (Mutex)
//	pkg/pdfcpu          trustedCertificatePool.{dir,loaded,pool,storeRevision}, model.UserCertPool
//	                                                             trustedCertificatePool (embedded RWMutex)
//	pkg/api             model.ConfigPath                         mutexDisableConfigDir (Mutex)
//	every other package under pkg/   model.ConfigPath, model.UserCertPool (in pkg/pdfcpu/model: the bare
//	                    identifiers)                             no lock is available there: LNone
//
// Every non-test, non-verif_export_* file of every package under <repo>/pkg is parsed.  A function
// (FuncLit bodies are analysed inline as part of the enclosing function: sync.Once.Do runs its
// argument synchronously) that mentions a tracked variable or a tracked lock is walked statement by
// statement with the set of held locks:
//
//	L.Lock() / L.RLock()            as an expression statement: L becomes held (write / read mode)
//	L.Unlock() / L.RUnlock()        as an expression statement: L is released
//	defer L.Unlock() / RUnlock()    L stays held until the function returns
//	if / for / range / switch       bodies are walked with a copy of the held set; a body that does not
//	                                end in return/panic must leave the held set as it found it
//
// and every occurrence of a tracked variable is recorded as an access
// (variable, function, read|write, mode in which its guarding lock is held, line).  Writes are:
// assignment / op-assignment / ++ / -- whose left side is the variable (possibly indexed),
// clear(v), delete(v, k), and a method call on a tracked sync.Once (v.Do).  Everything else is a read.
//
// Also emitted:
//
//   - lock_extents: for every function and tracked lock, the maximum number of separate critical
//     sections of that lock along one path through the function (the model gives each accessor
//     exactly one atomic section per lock);
//
//   - font_readers: every function other than doLoadUserFonts that reads userFontMetrics, and whether,
//     before taking the lock, it executes `if err := LoadUserFonts(); err != nil { return ... }`.
//
//   - pkg_vars: EVERY package-level `var` of every package under pkg/ as
//     (name, immutable-type?, written?, method-called?):
//     immutable-type = declared type is a basic type (string, bool, integer, float, byte, rune), or the
//     initialiser is a basic literal, errors.New(..), fmt.Errorf(..), regexp.MustCompile(..), a
//     *regexp.Regexp, or (name starts with Err/err) an alias of another error variable;
//     written = some function other than a receiver-less init() assigns / op-assigns / ++ / -- it, one
//     of its elements or fields, passes it as first argument to clear / delete / copy, or takes its
//     address (in its own package: the bare identifier, not shadowed; elsewhere: <pkgname>.<Name>);
//     method-called = a method is called on it (or on one of its elements / fields), the way a shared
//     hash.Hash, *bytes.Buffer, sync.Pool ... is mutated.
//
//   - addr_escaping: the package-level variables whose address is taken outside init();
//     addr_flows: where each such address goes, syntactically: "field:<F>" (composite literal `F: &v`
//     or `x.F = &v`), "return:<func>", "arg:<callee>", "other:<func>";
//     deref_writes: every EXPLICIT write through a pointer dereference (`*E = ..`, `*E op= ..`, `*E++`,
//     `*E--`) under pkg/ whose target E ends in a field that receives such an address or is called
//     Offset / Generation (the *int64 fields of cross-reference entries), or is a bare identifier
//     whose name starts with "off" or "gen", as (function, target field or *ident, count).
//     Audit.v must list exactly these sets (C40_escaping_pointees_audited): a new write through such
//     a pointer, a new escaping address or a new flow breaks the proof.  (Implicit dereferences
//     `p.f = ..` through struct pointers are NOT seen; the sentinel oracle of the harness covers them.)
//     The audit lists in coq/C40/Audit.v must cover every non-immutable-typed variable and every
//     written / method-called one, so that a NEW piece of package-level state breaks the proof.
//
// The tool FAILS (exit 1) on anything it does not understand: a tracked variable whose address is
// taken, shadowed, captured by a go statement or touched in a defer; a lock operation that is not a
// plain statement; lock state that differs between the ends of branches; select / type switch / goto
// inside an analysed function; an unknown field of trustedCertificatePool; a tracked lock or variable
// that is not found at all.
package main

import (
	"flag"
	"fmt"
	"go/ast"
	"go/parser"
	"go/token"
	"os"
	"path/filepath"
	"sort"
	"strings"
)

func die(format string, a ...any) {
	fmt.Fprintf(os.Stderr, "genc40: "+format+"\n", a...)
	os.Exit(1)
}

var fset = token.NewFileSet()

func pos(n ast.Node) string {
	p := fset.Position(n.Pos())
	return fmt.Sprintf("%s:%d", p.Filename, p.Line)
}

const (
	lNone = iota
	lRead
	lWrite
)

// a tracked variable as it appears in one package
type tvar struct {
	name string // output name
	x    string // "" = bare identifier sel; otherwise selector x.sel
	sel  string
	lock string // output name of guarding lock ("" = none available in this package)
	once bool   // sync.Once: method calls are writes
}

// a tracked lock as it appears in one package: bare identifier
type tlock struct {
	name  string // output name
	ident string
}

type pkgSpec struct {
	vars  []tvar
	locks []tlock
	// identifiers that may only appear as x in a tracked selector or lock call
	strict map[string][]string // ident -> allowed selectors besides tracked fields / lock methods
}

var varOrder = []string{
	"font.userFontMetrics", "font.loadUserFontsOnce", "font.loadUserFontsErr",
	"pdfcpu.trustedCertificatePool.dir", "pdfcpu.trustedCertificatePool.loaded",
	"pdfcpu.trustedCertificatePool.pool", "pdfcpu.trustedCertificatePool.storeRevision",
	"model.UserCertPool", "model.ConfigPath",
}
var lockOrder = []string{"font.userFontMetricsLock", "font.loadUserFontsMutex", "pdfcpu.trustedCertificatePool", "api.mutexDisableConfigDir"}

func specFor(rel string) pkgSpec {
	sp := pkgSpec{strict: map[string][]string{}}
	switch rel {
	case "pkg/font":
		sp.vars = []tvar{
			{name: "font.userFontMetrics", sel: "userFontMetrics", lock: "font.userFontMetricsLock"},
			{name: "font.loadUserFontsOnce", sel: "loadUserFontsOnce", lock: "font.loadUserFontsMutex", once: true},
			{name: "font.loadUserFontsErr", sel: "loadUserFontsErr", lock: "font.loadUserFontsMutex"},
		}
		sp.locks = []tlock{{"font.userFontMetricsLock", "userFontMetricsLock"}, {"font.loadUserFontsMutex", "loadUserFontsMutex"}}
	case "pkg/pdfcpu":
		for _, f := range []string{"dir", "loaded", "pool", "storeRevision"} {
			sp.vars = append(sp.vars, tvar{name: "pdfcpu.trustedCertificatePool." + f, x: "trustedCertificatePool", sel: f, lock: "pdfcpu.trustedCertificatePool"})
		}
		sp.vars = append(sp.vars,
			tvar{name: "model.UserCertPool", x: "model", sel: "UserCertPool", lock: "pdfcpu.trustedCertificatePool"},
			tvar{name: "model.ConfigPath", x: "model", sel: "ConfigPath"})
		sp.locks = []tlock{{"pdfcpu.trustedCertificatePool", "trustedCertificatePool"}}
		sp.strict["trustedCertificatePool"] = nil
	case "pkg/api":
		sp.vars = []tvar{
			{name: "model.ConfigPath", x: "model", sel: "ConfigPath", lock: "api.mutexDisableConfigDir"},
			{name: "model.UserCertPool", x: "model", sel: "UserCertPool"},
		}
		sp.locks = []tlock{{"api.mutexDisableConfigDir", "mutexDisableConfigDir"}}
	case "pkg/pdfcpu/model":
		sp.vars = []tvar{
			{name: "model.ConfigPath", sel: "ConfigPath"},
			{name: "model.UserCertPool", sel: "UserCertPool"},
		}
	default:
		sp.vars = []tvar{
			{name: "model.ConfigPath", x: "model", sel: "ConfigPath"},
			{name: "model.UserCertPool", x: "model", sel: "UserCertPool"},
		}
	}
	return sp
}

type access struct {
	v, fn string
	write bool
	mode  int
	line  int
	file  string
}

type extent struct {
	fn, lock string
	n        int
}

type reader struct {
	fn        string
	loadFirst bool
}

var (
	accesses   []access
	extents    []extent
	readers    []reader
	seenVar    = map[string]bool{}
	seenLock   = map[string]bool{}
	funcsFound = map[string]bool{}
)

// ---------------------------------------------------------------- analysis of one function

type held map[string]int // lock output name -> mode

func (h held) clone() held {
	c := held{}
	for k, v := range h {
		c[k] = v
	}
	return c
}
func (h held) equal(o held) bool {
	if len(h) != len(o) {
		return false
	}
	for k, v := range h {
		if o[k] != v {
			return false
		}
	}
	return true
}

type fa struct {
	sp      pkgSpec
	pkg     string
	fn      string
	decl    *ast.FuncDecl
	h       held
	deferd  map[string]bool
	cur     map[string]int // extents so far on the current path, per lock
	pathMax map[string]int
}

func (a *fa) lockOf(e ast.Expr) *tlock {
	id, ok := e.(*ast.Ident)
	if !ok {
		return nil
	}
	for i := range a.sp.locks {
		if a.sp.locks[i].ident == id.Name {
			a.checkNotLocal(id)
			return &a.sp.locks[i]
		}
	}
	return nil
}

func (a *fa) checkNotLocal(id *ast.Ident) {
	if id.Obj != nil && id.Obj.Pos() >= a.decl.Pos() && id.Obj.Pos() <= a.decl.End() {
		die("%s: %s is shadowed by a local declaration in %s", pos(id), id.Name, a.fn)
	}
}

// lockCall recognises L.Lock() etc.
func (a *fa) lockCall(c *ast.CallExpr) (*tlock, string) {
	se, ok := c.Fun.(*ast.SelectorExpr)
	if !ok {
		return nil, ""
	}
	switch se.Sel.Name {
	case "Lock", "RLock", "Unlock", "RUnlock", "TryLock", "TryRLock":
	default:
		return nil, ""
	}
	l := a.lockOf(se.X)
	if l == nil {
		return nil, ""
	}
	if len(c.Args) != 0 || strings.HasPrefix(se.Sel.Name, "Try") {
		die("%s: unsupported lock operation %s.%s", pos(c), l.ident, se.Sel.Name)
	}
	return l, se.Sel.Name
}

// varOf: does expression e denote a tracked variable (exactly)?
func (a *fa) varOf(e ast.Expr) *tvar {
	switch x := e.(type) {
	case *ast.Ident:
		for i := range a.sp.vars {
			v := &a.sp.vars[i]
			if v.x == "" && v.sel == x.Name {
				a.checkNotLocal(x)
				return v
			}
		}
	case *ast.SelectorExpr:
		id, ok := x.X.(*ast.Ident)
		if !ok {
			return nil
		}
		for i := range a.sp.vars {
			v := &a.sp.vars[i]
			if v.x != "" && v.x == id.Name && v.sel == x.Sel.Name {
				a.checkNotLocal(id)
				return v
			}
		}
	}
	return nil
}

func (a *fa) record(v *tvar, write bool, n ast.Node) {
	mode := lNone
	if v.lock != "" {
		mode = a.h[v.lock]
	}
	p := fset.Position(n.Pos())
	accesses = append(accesses, access{v: v.name, fn: a.fn, write: write, mode: mode, line: p.Line, file: p.Filename})
	seenVar[v.name] = true
}

// base strips index / paren / star from an assignable expression
func base(e ast.Expr) (ast.Expr, []ast.Expr) {
	var idx []ast.Expr
	for {
		switch x := e.(type) {
		case *ast.IndexExpr:
			idx = append(idx, x.Index)
			e = x.X
		case *ast.ParenExpr:
			e = x.X
		default:
			return e, idx
		}
	}
}

// reads scans an expression: every tracked variable in it is a read.
func (a *fa) reads(e ast.Node) {
	if e == nil {
		return
	}
	ast.Inspect(e, func(n ast.Node) bool {
		switch x := n.(type) {
		case *ast.FuncLit:
			a.block(x.Body.List)
			return false
		case *ast.UnaryExpr:
			if x.Op == token.AND {
				b, _ := base(x.X)
				if v := a.varOf(b); v != nil {
					die("%s: address of tracked variable %s taken in %s", pos(x), v.name, a.fn)
				}
				if a.lockOf(b) != nil {
					die("%s: address of tracked lock taken in %s", pos(x), a.fn)
				}
			}
		case *ast.CallExpr:
			if l, m := a.lockCall(x); l != nil {
				die("%s: lock operation %s.%s is not a plain statement in %s", pos(x), l.ident, m, a.fn)
			}
			// method call on a tracked sync.Once / builtin mutators
			if se, ok := x.Fun.(*ast.SelectorExpr); ok {
				if v := a.varOf(se.X); v != nil && v.once {
					a.record(v, true, x)
					for _, arg := range x.Args {
						a.reads(arg)
					}
					return false
				}
			}
			if id, ok := x.Fun.(*ast.Ident); ok && (id.Name == "clear" || id.Name == "delete") && len(x.Args) >= 1 {
				b, idx := base(x.Args[0])
				if v := a.varOf(b); v != nil {
					a.record(v, true, x)
					for _, i := range idx {
						a.reads(i)
					}
					for _, arg := range x.Args[1:] {
						a.reads(arg)
					}
					return false
				}
			}
		case *ast.SelectorExpr:
			if v := a.varOf(x); v != nil {
				a.record(v, false, x)
				return false
			}
			if id, ok := x.X.(*ast.Ident); ok {
				if _, strict := a.sp.strict[id.Name]; strict {
					a.checkNotLocal(id)
					die("%s: unknown member %s.%s in %s", pos(x), id.Name, x.Sel.Name, a.fn)
				}
			}
			// x.Sel is a field/method name, never a variable: only descend into x.X
			a.reads(x.X)
			return false
		case *ast.KeyValueExpr:
			// struct literal keys are field names
			if _, ok := x.Key.(*ast.Ident); ok {
				a.reads(x.Value)
				return false
			}
		case *ast.Ident:
			if v := a.varOf(x); v != nil {
				a.record(v, false, x)
			} else if _, strict := a.sp.strict[x.Name]; strict {
				a.checkNotLocal(x)
				die("%s: tracked struct %s used as a whole in %s", pos(x), x.Name, a.fn)
			} else if l := a.lockOf(x); l != nil {
				die("%s: tracked lock %s used as a value in %s", pos(x), l.ident, a.fn)
			}
		}
		return true
	})
}

func (a *fa) writeTarget(e ast.Expr, n ast.Node) {
	b, idx := base(e)
	if v := a.varOf(b); v != nil {
		a.record(v, true, n)
		for _, i := range idx {
			a.reads(i)
		}
		return
	}
	a.reads(e)
}

func terminates(list []ast.Stmt) bool {
	if len(list) == 0 {
		return false
	}
	switch s := list[len(list)-1].(type) {
	case *ast.ReturnStmt:
		return true
	case *ast.ExprStmt:
		if c, ok := s.X.(*ast.CallExpr); ok {
			if id, ok := c.Fun.(*ast.Ident); ok && id.Name == "panic" {
				return true
			}
		}
	}
	return false
}

// branch walks a nested body with a copy of the lock state; returns extents added on that path.
func (a *fa) branch(list []ast.Stmt, n ast.Node, loop bool) {
	h0 := a.h.clone()
	cur0 := map[string]int{}
	for k, v := range a.cur {
		cur0[k] = v
	}
	a.block(list)
	if terminates(list) {
		for k, v := range a.cur {
			if v > a.pathMax[k] {
				a.pathMax[k] = v
			}
		}
	} else {
		if !a.h.equal(h0) {
			die("%s: lock state at the end of a branch differs from its entry in %s", pos(n), a.fn)
		}
		for k, v := range a.cur {
			if v != cur0[k] {
				if loop {
					die("%s: critical section inside a loop in %s", pos(n), a.fn)
				}
				// a non-terminating branch with its own critical section: count it on the main path
				if v > a.pathMax[k] {
					a.pathMax[k] = v
				}
				cur0[k] = v
			}
		}
	}
	a.h = h0
	a.cur = cur0
}

func (a *fa) block(list []ast.Stmt) {
	for _, s := range list {
		a.stmt(s)
	}
}

func (a *fa) stmt(s ast.Stmt) {
	switch x := s.(type) {
	case nil:
	case *ast.ExprStmt:
		if c, ok := x.X.(*ast.CallExpr); ok {
			if l, m := a.lockCall(c); l != nil {
				seenLock[l.name] = true
				switch m {
				case "Lock", "RLock":
					if a.h[l.name] != lNone {
						die("%s: %s locked while already held in %s", pos(c), l.ident, a.fn)
					}
					if m == "Lock" {
						a.h[l.name] = lWrite
					} else {
						a.h[l.name] = lRead
					}
					a.cur[l.name]++
				case "Unlock", "RUnlock":
					want := lWrite
					if m == "RUnlock" {
						want = lRead
					}
					if a.h[l.name] != want || a.deferd[l.name] {
						die("%s: %s.%s does not match the held mode in %s", pos(c), l.ident, m, a.fn)
					}
					delete(a.h, l.name)
				}
				return
			}
		}
		a.reads(x.X)
	case *ast.DeferStmt:
		if l, m := a.lockCall(x.Call); l != nil {
			want := lWrite
			if m == "RUnlock" {
				want = lRead
			}
			if (m != "Unlock" && m != "RUnlock") || a.h[l.name] != want {
				die("%s: defer %s.%s does not match the held mode in %s", pos(x), l.ident, m, a.fn)
			}
			a.deferd[l.name] = true
			return
		}
		n0 := len(accesses)
		a.reads(x.Call)
		if len(accesses) != n0 {
			die("%s: tracked variable touched in a defer in %s", pos(x), a.fn)
		}
	case *ast.GoStmt:
		n0 := len(accesses)
		a.reads(x.Call)
		if len(accesses) != n0 {
			die("%s: tracked variable captured by a go statement in %s", pos(x), a.fn)
		}
	case *ast.AssignStmt:
		for _, r := range x.Rhs {
			a.reads(r)
		}
		for _, l := range x.Lhs {
			if x.Tok == token.DEFINE {
				if id, ok := l.(*ast.Ident); ok {
					for _, v := range a.sp.vars {
						if v.x == "" && v.sel == id.Name {
							die("%s: %s shadowed by := in %s", pos(id), id.Name, a.fn)
						}
					}
					continue
				}
			}
			a.writeTarget(l, x)
			if x.Tok != token.ASSIGN && x.Tok != token.DEFINE {
				// op-assignment also reads (recorded as the write only)
			}
		}
	case *ast.IncDecStmt:
		a.writeTarget(x.X, x)
	case *ast.ReturnStmt:
		for _, r := range x.Results {
			a.reads(r)
		}
	case *ast.DeclStmt:
		gd, ok := x.Decl.(*ast.GenDecl)
		if !ok {
			die("%s: unsupported declaration", pos(x))
		}
		for _, sp := range gd.Specs {
			if vs, ok := sp.(*ast.ValueSpec); ok {
				for _, id := range vs.Names {
					for _, v := range a.sp.vars {
						if v.x == "" && v.sel == id.Name {
							die("%s: %s shadowed by a local declaration in %s", pos(id), id.Name, a.fn)
						}
					}
				}
				for _, v := range vs.Values {
					a.reads(v)
				}
			}
		}
	case *ast.BlockStmt:
		a.block(x.List)
	case *ast.IfStmt:
		a.stmt(x.Init)
		a.reads(x.Cond)
		a.branch(x.Body.List, x, false)
		switch e := x.Else.(type) {
		case nil:
		case *ast.BlockStmt:
			a.branch(e.List, e, false)
		case *ast.IfStmt:
			a.branch([]ast.Stmt{e}, e, false)
		}
	case *ast.ForStmt:
		a.stmt(x.Init)
		a.reads(x.Cond)
		a.stmt(x.Post)
		a.branch(x.Body.List, x, true)
	case *ast.RangeStmt:
		a.reads(x.X)
		if x.Tok == token.ASSIGN {
			if x.Key != nil {
				a.writeTarget(x.Key, x)
			}
			if x.Value != nil {
				a.writeTarget(x.Value, x)
			}
		}
		a.branch(x.Body.List, x, true)
	case *ast.SwitchStmt:
		a.stmt(x.Init)
		a.reads(x.Tag)
		for _, c := range x.Body.List {
			cc := c.(*ast.CaseClause)
			for _, e := range cc.List {
				a.reads(e)
			}
			a.branch(cc.Body, cc, false)
		}
	case *ast.LabeledStmt:
		a.stmt(x.Stmt)
	case *ast.BranchStmt:
		if x.Tok == token.GOTO {
			die("%s: goto in analysed function %s", pos(x), a.fn)
		}
	case *ast.SendStmt:
		a.reads(x.Chan)
		a.reads(x.Value)
	case *ast.EmptyStmt:
	default:
		die("%s: unsupported statement %T in analysed function %s", pos(s), s, a.fn)
	}
}

// loadFirst: among the top-level statements before the first lock operation there is
// `if err := LoadUserFonts(); err != nil { ...; return ... }`.
func loadFirst(fd *ast.FuncDecl, a *fa) bool {
	for _, s := range fd.Body.List {
		if es, ok := s.(*ast.ExprStmt); ok {
			if c, ok := es.X.(*ast.CallExpr); ok {
				if l, _ := a.lockCall(c); l != nil {
					return false
				}
			}
		}
		ifs, ok := s.(*ast.IfStmt)
		if !ok || ifs.Init == nil || ifs.Else != nil {
			continue
		}
		as, ok := ifs.Init.(*ast.AssignStmt)
		if !ok || len(as.Lhs) != 1 || len(as.Rhs) != 1 || as.Tok != token.DEFINE {
			continue
		}
		c, ok := as.Rhs[0].(*ast.CallExpr)
		if !ok {
			continue
		}
		id, ok := c.Fun.(*ast.Ident)
		if !ok || id.Name != "LoadUserFonts" || len(c.Args) != 0 {
			continue
		}
		errName := as.Lhs[0].(*ast.Ident).Name
		be, ok := ifs.Cond.(*ast.BinaryExpr)
		if !ok || be.Op != token.NEQ {
			continue
		}
		l, lok := be.X.(*ast.Ident)
		r, rok := be.Y.(*ast.Ident)
		if !lok || !rok || l.Name != errName || r.Name != "nil" {
			continue
		}
		if !terminates(ifs.Body.List) {
			continue
		}
		return true
	}
	return false
}

func mentions(fd *ast.FuncDecl, names map[string]bool) bool {
	found := false
	ast.Inspect(fd.Body, func(n ast.Node) bool {
		if id, ok := n.(*ast.Ident); ok && names[id.Name] {
			found = true
		}
		return !found
	})
	return found
}

func analysePkg(dir, rel string) {
	ents, err := os.ReadDir(dir)
	if err != nil {
		die("read %s: %v", dir, err)
	}
	sp := specFor(rel)
	names := map[string]bool{}
	for _, v := range sp.vars {
		names[v.sel] = true
	}
	for _, l := range sp.locks {
		names[l.ident] = true
	}
	pkg := filepath.Base(rel)
	for _, e := range ents {
		n := e.Name()
		if e.IsDir() || !strings.HasSuffix(n, ".go") || strings.HasSuffix(n, "_test.go") || strings.HasPrefix(n, "verif_export_") {
			continue
		}
		f, err := parser.ParseFile(fset, filepath.Join(dir, n), nil, parser.ParseComments)
		if err != nil {
			die("parse %s: %v", filepath.Join(dir, n), err)
		}
		// package-level initialisers must not touch tracked variables other than declaring them
		for _, d := range f.Decls {
			fd, ok := d.(*ast.FuncDecl)
			if !ok || fd.Body == nil || !mentions(fd, names) {
				continue
			}
			fn := pkg + "." + fd.Name.Name
			if fd.Recv != nil && len(fd.Recv.List) == 1 {
				t := fd.Recv.List[0].Type
				if st, ok := t.(*ast.StarExpr); ok {
					t = st.X
				}
				if id, ok := t.(*ast.Ident); ok {
					fn = pkg + "." + id.Name + "." + fd.Name.Name
				}
			}
			a := &fa{sp: sp, pkg: pkg, fn: fn, decl: fd, h: held{}, deferd: map[string]bool{}, cur: map[string]int{}, pathMax: map[string]int{}}
			n0 := len(accesses)
			a.block(fd.Body.List)
			for l, m := range a.h {
				if m != lNone && !a.deferd[l] {
					die("%s: %s still held at the end of %s without a deferred unlock", pos(fd), l, fn)
				}
			}
			for k, v := range a.cur {
				if v > a.pathMax[k] {
					a.pathMax[k] = v
				}
			}
			if len(accesses) == n0 && len(a.pathMax) == 0 {
				continue // only a field / unrelated identifier of the same name
			}
			funcsFound[fn] = true
			for _, l := range lockOrder {
				if c := a.pathMax[l]; c > 0 {
					extents = append(extents, extent{fn, l, c})
				}
			}
			if rel == "pkg/font" && fd.Name.Name != "doLoadUserFonts" {
				rd := false
				for _, ac := range accesses[n0:] {
					if ac.v == "font.userFontMetrics" && !ac.write {
						rd = true
					}
				}
				if rd {
					readers = append(readers, reader{fn, loadFirst(fd, a)})
				}
			}
		}
	}
}

// ---------------------------------------------------------------- package-level variable inventory

type pvar struct {
	pkg, name        string
	spec             *ast.ValueSpec
	immutable        bool
	written, methodc bool
	addr             bool
	file             string
	line             int
}

var basicTypes = map[string]bool{"string": true, "bool": true, "int": true, "int8": true, "int16": true, "int32": true, "int64": true,
	"uint": true, "uint8": true, "uint16": true, "uint32": true, "uint64": true, "float32": true, "float64": true, "byte": true, "rune": true, "uintptr": true}

func selName(e ast.Expr) string {
	switch x := e.(type) {
	case *ast.Ident:
		return x.Name
	case *ast.SelectorExpr:
		if id, ok := x.X.(*ast.Ident); ok {
			return id.Name + "." + x.Sel.Name
		}
	}
	return ""
}

func immutableDecl(name string, typ ast.Expr, val ast.Expr) bool {
	if typ != nil {
		if id, ok := typ.(*ast.Ident); ok && basicTypes[id.Name] {
			return true
		}
		if st, ok := typ.(*ast.StarExpr); ok && selName(st.X) == "regexp.Regexp" {
			return true
		}
		if id, ok := typ.(*ast.Ident); ok && id.Name == "error" && val != nil {
			// typed error with an initialiser that is a constructor
			if c, ok := val.(*ast.CallExpr); ok {
				switch selName(c.Fun) {
				case "errors.New", "fmt.Errorf":
					return true
				}
			}
		}
		return false
	}
	switch v := val.(type) {
	case *ast.BasicLit:
		return true
	case *ast.CallExpr:
		switch selName(v.Fun) {
		case "errors.New", "fmt.Errorf", "regexp.MustCompile":
			return true
		}
	case *ast.Ident, *ast.SelectorExpr:
		if strings.HasPrefix(name, "Err") || strings.HasPrefix(name, "err") {
			n := selName(v)
			if i := strings.LastIndex(n, "."); i >= 0 {
				n = n[i+1:]
			}
			return strings.HasPrefix(n, "Err") || strings.HasPrefix(n, "err")
		}
		if id, ok := v.(*ast.Ident); ok && (id.Name == "true" || id.Name == "false") {
			return true
		}
	}
	return false
}

// root strips index / field / paren / star / slice expressions: the variable an lvalue or receiver lives in.
func root(e ast.Expr) ast.Expr {
	for {
		switch x := e.(type) {
		case *ast.IndexExpr:
			e = x.X
		case *ast.SliceExpr:
			e = x.X
		case *ast.ParenExpr:
			e = x.X
		case *ast.StarExpr:
			e = x.X
		case *ast.SelectorExpr:
			if id, ok := x.X.(*ast.Ident); ok && id.Obj == nil {
				// could be <pkgname>.<Var>: keep the selector, the caller resolves it
				return x
			}
			e = x.X
		default:
			return e
		}
	}
}

type derefKey struct{ fn, target string }

type inventory struct {
	flows    map[[2]string]bool
	derefs   map[derefKey]int
	allDeref []struct {
		fn, field string
		bare      bool
	}
	vars   []*pvar
	byPkg  map[string]map[string]*pvar // package name -> var name -> var
	bySpec map[*ast.ValueSpec][]*pvar
}

func (inv *inventory) resolve(curPkg string, e ast.Expr) *pvar {
	switch x := root(e).(type) {
	case *ast.Ident:
		v := inv.byPkg[curPkg][x.Name]
		if v == nil {
			return nil
		}
		if x.Obj != nil {
			if sp, ok := x.Obj.Decl.(*ast.ValueSpec); !ok || sp != v.spec {
				return nil // a local of the same name
			}
		}
		return v
	case *ast.SelectorExpr:
		id := x.X.(*ast.Ident)
		if id.Name == curPkg {
			return nil
		}
		if m := inv.byPkg[id.Name]; m != nil {
			if v := m[x.Sel.Name]; v != nil && ast.IsExported(v.name) {
				return v
			}
		}
		// field of a package variable: <var>.<field>
		if v := inv.byPkg[curPkg][id.Name]; v != nil && id.Obj == nil {
			return v
		}
	}
	return nil
}

func buildInventory(repo string, dirs []string) *inventory {
	inv := &inventory{byPkg: map[string]map[string]*pvar{}, flows: map[[2]string]bool{}, derefs: map[derefKey]int{}}
	type pf struct {
		pkg string
		f   *ast.File
	}
	var files []pf
	for _, d := range dirs {
		ents, _ := os.ReadDir(d)
		for _, e := range ents {
			n := e.Name()
			if e.IsDir() || !strings.HasSuffix(n, ".go") || strings.HasSuffix(n, "_test.go") || strings.HasPrefix(n, "verif_export_") {
				continue
			}
			f, err := parser.ParseFile(fset, filepath.Join(d, n), nil, 0)
			if err != nil {
				die("parse %s: %v", filepath.Join(d, n), err)
			}
			pkg := f.Name.Name
			files = append(files, pf{pkg, f})
			for _, dc := range f.Decls {
				gd, ok := dc.(*ast.GenDecl)
				if !ok || gd.Tok != token.VAR {
					continue
				}
				for _, sp := range gd.Specs {
					vs := sp.(*ast.ValueSpec)
					for i, nm := range vs.Names {
						if nm.Name == "_" {
							continue
						}
						var val ast.Expr
						if i < len(vs.Values) {
							val = vs.Values[i]
						}
						p := fset.Position(nm.Pos())
						rel, _ := filepath.Rel(repo, p.Filename)
						v := &pvar{pkg: pkg, name: nm.Name, spec: vs, immutable: immutableDecl(nm.Name, vs.Type, val), file: rel, line: p.Line}
						if inv.byPkg[pkg] == nil {
							inv.byPkg[pkg] = map[string]*pvar{}
						}
						if inv.byPkg[pkg][nm.Name] != nil {
							die("%s: two packages named %s declare a variable %s: the inventory keys on package name", pos(nm), pkg, nm.Name)
						}
						inv.byPkg[pkg][nm.Name] = v
						inv.vars = append(inv.vars, v)
					}
				}
			}
		}
	}
	for _, x := range files {
		for _, dc := range x.f.Decls {
			fd, ok := dc.(*ast.FuncDecl)
			if !ok || fd.Body == nil || (fd.Recv == nil && fd.Name.Name == "init") {
				continue
			}
			mark := func(e ast.Expr, method bool) {
				if v := inv.resolve(x.pkg, e); v != nil {
					if method {
						v.methodc = true
					} else {
						v.written = true
					}
				}
			}
			fn := x.pkg + "." + fd.Name.Name
			if fd.Recv != nil && len(fd.Recv.List) == 1 {
				t := fd.Recv.List[0].Type
				if st, ok := t.(*ast.StarExpr); ok {
					t = st.X
				}
				if id, ok := t.(*ast.Ident); ok {
					fn = x.pkg + "." + id.Name + "." + fd.Name.Name
				}
			}
			deref := func(e ast.Expr) {
				// explicit write through a dereference: *E ...
				for {
					if p, ok := e.(*ast.ParenExpr); ok {
						e = p.X
						continue
					}
					break
				}
				st, ok := e.(*ast.StarExpr)
				if !ok {
					return
				}
				t := st.X
				for {
					if p, ok := t.(*ast.ParenExpr); ok {
						t = p.X
						continue
					}
					break
				}
				switch y := t.(type) {
				case *ast.SelectorExpr:
					inv.allDeref = append(inv.allDeref, struct {
						fn, field string
						bare      bool
					}{fn, y.Sel.Name, false})
				case *ast.Ident:
					inv.allDeref = append(inv.allDeref, struct {
						fn, field string
						bare      bool
					}{fn, y.Name, true})
				}
			}
			var stack []ast.Node
			ast.Inspect(fd.Body, func(n ast.Node) bool {
				if n == nil {
					stack = stack[:len(stack)-1]
					return true
				}
				stack = append(stack, n)
				switch s := n.(type) {
				case *ast.AssignStmt:
					if s.Tok != token.DEFINE {
						for _, l := range s.Lhs {
							mark(l, false)
							deref(l)
						}
					}
				case *ast.IncDecStmt:
					mark(s.X, false)
					deref(s.X)
				case *ast.RangeStmt:
					if s.Tok == token.ASSIGN {
						if s.Key != nil {
							mark(s.Key, false)
						}
						if s.Value != nil {
							mark(s.Value, false)
						}
					}
				case *ast.UnaryExpr:
					if s.Op == token.AND {
						if _, lit := s.X.(*ast.CompositeLit); !lit {
							mark(s.X, false)
							if v := inv.resolve(x.pkg, s.X); v != nil {
								v.addr = true
								ctx := "other:" + fn
								if len(stack) >= 2 {
									switch par := stack[len(stack)-2].(type) {
									case *ast.KeyValueExpr:
										if k, ok := par.Key.(*ast.Ident); ok && par.Value == ast.Expr(s) {
											ctx = "field:" + k.Name
										}
									case *ast.AssignStmt:
										for i, r := range par.Rhs {
											if r == ast.Expr(s) && i < len(par.Lhs) {
												if se, ok := par.Lhs[i].(*ast.SelectorExpr); ok {
													ctx = "field:" + se.Sel.Name
												}
											}
										}
									case *ast.ReturnStmt:
										ctx = "return:" + fn
									case *ast.CallExpr:
										ctx = "arg:" + selName(par.Fun)
									}
								}
								inv.flows[[2]string{v.pkg + "." + v.name, ctx}] = true
							}
						}
					}
				case *ast.CallExpr:
					if id, ok := s.Fun.(*ast.Ident); ok && (id.Name == "clear" || id.Name == "delete" || id.Name == "copy") && len(s.Args) > 0 {
						mark(s.Args[0], false)
					}
					if se, ok := s.Fun.(*ast.SelectorExpr); ok {
						// receiver of a method call; <pkg>.<Func>(...) resolves to nothing
						if v := inv.resolve(x.pkg, se.X); v != nil {
							v.methodc = true
						}
					}
				}
				return true
			})
		}
	}
	// the deref writes that matter: fields that receive a package-level address, Offset / Generation, *off.. / *gen..
	fields := map[string]bool{"Offset": true, "Generation": true}
	for k := range inv.flows {
		if strings.HasPrefix(k[1], "field:") {
			fields[strings.TrimPrefix(k[1], "field:")] = true
		}
	}
	for _, d := range inv.allDeref {
		if d.bare {
			l := strings.ToLower(d.field)
			if strings.HasPrefix(l, "off") || strings.HasPrefix(l, "gen") {
				inv.derefs[derefKey{d.fn, "*" + d.field}]++
			}
		} else if fields[d.field] {
			inv.derefs[derefKey{d.fn, d.field}]++
		}
	}
	sort.SliceStable(inv.vars, func(i, j int) bool {
		a, b := inv.vars[i], inv.vars[j]
		if a.pkg != b.pkg {
			return a.pkg < b.pkg
		}
		return a.name < b.name
	})
	return inv
}

func main() {
	repo := flag.String("repo", "/repo", "pdfcpu source tree")
	out := flag.String("out", "", "output .v file")
	flag.Parse()
	if *out == "" {
		die("-out required")
	}
	root := filepath.Join(*repo, "pkg")
	var dirs []string
	err := filepath.WalkDir(root, func(p string, d os.DirEntry, err error) error {
		if err != nil {
			return err
		}
		if d.IsDir() {
			if d.Name() == "testdata" || d.Name() == "samples" {
				return filepath.SkipDir
			}
			dirs = append(dirs, p)
		}
		return nil
	})
	if err != nil {
		die("walk %s: %v", root, err)
	}
	sort.Strings(dirs)
	for _, d := range dirs {
		rel, _ := filepath.Rel(*repo, d)
		analysePkg(d, filepath.ToSlash(rel))
	}
	for _, v := range varOrder {
		if !seenVar[v] {
			die("tracked variable %s is not accessed anywhere under %s (renamed or removed?)", v, root)
		}
	}
	for _, l := range lockOrder {
		if !seenLock[l] {
			die("tracked lock %s is never taken under %s (renamed or removed?)", l, root)
		}
	}

	var fnames []string
	for f := range funcsFound {
		fnames = append(fnames, f)
	}
	sort.Strings(fnames)
	fidx := map[string]int{}
	for i, f := range fnames {
		fidx[f] = i
	}
	vidx := map[string]int{}
	for i, v := range varOrder {
		vidx[v] = i
	}
	lidx := map[string]int{}
	for i, l := range lockOrder {
		lidx[l] = i
	}
	sort.SliceStable(accesses, func(i, j int) bool {
		a, b := accesses[i], accesses[j]
		if vidx[a.v] != vidx[b.v] {
			return vidx[a.v] < vidx[b.v]
		}
		if a.file != b.file {
			return a.file < b.file
		}
		return a.line < b.line
	})

	var b strings.Builder
	w := func(format string, a ...any) { fmt.Fprintf(&b, format, a...) }
	w("(* GENERATED by genc40 from the pdfcpu source tree (pkg/...) -- do not edit; regenerated on every check run *)\n")
	w("From Coq Require Import NArith List String.\nFrom PV Require Import C40.Model.\nImport ListNotations.\nOpen Scope N_scope.\n\n")
	strs := func(l []string) string {
		q := make([]string, len(l))
		for i, s := range l {
			q[i] = fmt.Sprintf("%q%%string", s)
		}
		return "[" + strings.Join(q, "; ") + "]"
	}
	w("Definition var_names : list string := %s.\n", strs(varOrder))
	w("Definition lock_names : list string := %s.\n", strs(lockOrder))
	w("Definition func_names : list string := %s.\n\n", strs(fnames))
	for i, v := range varOrder {
		w("Definition V_%s : N := %d.\n", strings.NewReplacer(".", "_").Replace(v), i)
	}
	w("\n(* mkAccess variable function kind lock-mode-held line *)\nDefinition accesses : list access := [\n")
	modes := []string{"LNone", "LRead", "LWrite"}
	for i, ac := range accesses {
		k := "ARead"
		if ac.write {
			k = "AWrite"
		}
		sep := ";"
		if i == len(accesses)-1 {
			sep = ""
		}
		rel, _ := filepath.Rel(*repo, ac.file)
		w("  mkAccess %d %d %s %s %d%s   (* %s %s in %s, %s:%d *)\n", vidx[ac.v], fidx[ac.fn], k, modes[ac.mode], ac.line, sep,
			map[bool]string{false: "read of", true: "write of"}[ac.write], ac.v, ac.fn, rel, ac.line)
	}
	w("].\n\n(* (function, lock, max number of separate critical sections of that lock on one path) *)\nDefinition lock_extents : list (N * N * N) := [\n")
	for i, e := range extents {
		sep := ";"
		if i == len(extents)-1 {
			sep = ""
		}
		w("  (%d, %d, %d)%s   (* %s / %s *)\n", fidx[e.fn], lidx[e.lock], e.n, sep, e.fn, e.lock)
	}
	w("].\n\n(* (function reading font.userFontMetrics other than doLoadUserFonts, runs `if err := LoadUserFonts(); err != nil { return }` before its lock) *)\nDefinition font_readers : list (N * bool) := [\n")
	for i, r := range readers {
		sep := ";"
		if i == len(readers)-1 {
			sep = ""
		}
		w("  (%d, %v)%s   (* %s *)\n", fidx[r.fn], r.loadFirst, sep, r.fn)
	}
	w("].\n\n")
	inv := buildInventory(*repo, dirs)
	w("(* every package-level variable under pkg/: (name, (immutable type, (written outside init, method called on it))) *)\n")
	w("Definition pkg_vars : list (string * (bool * (bool * bool))) := [\n")
	for i, v := range inv.vars {
		sep := ";"
		if i == len(inv.vars)-1 {
			sep = ""
		}
		w("  (%q%%string, (%v, (%v, %v)))%s   (* %s:%d *)\n", v.pkg+"."+v.name, v.immutable, v.written, v.methodc, sep, v.file, v.line)
	}
	w("].\n\n")
	var esc []string
	for _, v := range inv.vars {
		if v.addr {
			esc = append(esc, v.pkg+"."+v.name)
		}
	}
	w("(* package-level variables whose address is taken outside init() *)\nDefinition addr_escaping : list string := %s.\n\n", strs(esc))
	var fl [][2]string
	for k := range inv.flows {
		fl = append(fl, k)
	}
	sort.Slice(fl, func(i, j int) bool { return fl[i][0]+"\x00"+fl[i][1] < fl[j][0]+"\x00"+fl[j][1] })
	w("(* where those addresses go *)\nDefinition addr_flows : list (string * string) := [\n")
	for i, k := range fl {
		sep := ";"
		if i == len(fl)-1 {
			sep = ""
		}
		w("  (%q%%string, %q%%string)%s\n", k[0], k[1], sep)
	}
	w("].\n\n(* explicit writes through pointer dereferences that could reach such a pointee: (function, (field or *ident, count)) *)\n")
	var dk []derefKey
	for k := range inv.derefs {
		dk = append(dk, k)
	}
	sort.Slice(dk, func(i, j int) bool { return dk[i].fn+"\x00"+dk[i].target < dk[j].fn+"\x00"+dk[j].target })
	w("Definition deref_writes : list (string * (string * N)) := [\n")
	for i, k := range dk {
		sep := ";"
		if i == len(dk)-1 {
			sep = ""
		}
		w("  (%q%%string, (%q%%string, %d))%s\n", k.fn, k.target, inv.derefs[k], sep)
	}
	w("].\n")
	if err := os.WriteFile(*out, []byte(b.String()), 0o644); err != nil {
		die("write %s: %v", *out, err)
	}
}
