(* C21 — Every output produced from a valid input validates (structural core; partial).
   Property theorems only.

   Full statement: for every operation of pkg/api and every valid input, the written output passes
   pdfcpu's relaxed validation (about 30 kloc).  Proved here: each modelled graph transformation
   preserves a structural core of validation — page tree node types, /Count = number of leaves
   below every node, an effective MediaBox for every leaf; Info entries typed; catalog /Pages,
   /PageMode, /PageLayout typed; name-tree leaf keys strictly ascending.  Everything else
   (content of the other ~300 dictionary types, all operations as implemented) is covered by the
   oracle of the harness only. *)
From Coq Require Import List ZArith NArith Bool.
From PV Require Import C19.Model C21.Model C21.Proofs.
Import ListNotations.

(* the writer's page tree rewrite (writeKids / writePagesDict; the plain write keeps every page)
   produces a valid page tree from any tree of the right shape — whatever /Count said before *)
Theorem C21_page_tree_rewrite_validates :
  forall keep t inh, shape_ok inh t = true -> tree_ok inh (select keep t) = true.
Proof. exact select_shape. Qed.
Print Assumptions C21_page_tree_rewrite_validates.

(* and keeps exactly the selected pages, in order *)
Theorem C21_page_tree_rewrite_pages :
  forall keep d kids,
  leaves (select keep (PNode d kids)) = filter (fun p => keep (fst p)) (leaves (PNode d kids)).
Proof. intros keep d kids. exact (select_leaves keep (PNode d kids) d kids eq_refl). Qed.
Print Assumptions C21_page_tree_rewrite_pages.

(* ExtractPages (trim, remove pages, collect, split): valid for any list of requested pages, and
   the pages of the result are the requested ones, in the requested order *)
Theorem C21_extract_pages_validates :
  forall sel t, shape_ok false t = true -> tree_ok false (extract sel t) = true.
Proof. exact extract_ok. Qed.
Print Assumptions C21_extract_pages_validates.

Theorem C21_extract_pages_sequence :
  forall sel t, NoDup (map fst (eff_leaves None t)) -> incl sel (map fst (eff_leaves None t)) ->
  map fst (leaves (extract sel t)) = sel.
Proof. exact extract_ids. Qed.
Print Assumptions C21_extract_pages_sequence.

Theorem C21_insert_blank_pages_validates :
  forall before sel box t inh, shape_ok inh t = true -> tree_ok inh (insert_blank before sel box t) = true.
Proof. exact insert_shape. Qed.
Print Assumptions C21_insert_blank_pages_validates.

Theorem C21_insert_blank_pages_keeps_pages :
  forall before sel box d kids,
  filter (fun p => negb (N.eqb (fst p) 0)) (leaves (insert_blank before sel box (PNode d kids))) =
  filter (fun p => negb (N.eqb (fst p) 0)) (leaves (PNode d kids)).
Proof. intros. exact (insert_leaves before sel box (PNode d kids) d kids eq_refl). Qed.
Print Assumptions C21_insert_blank_pages_keeps_pages.

(* rotate, boxes, ...: setting any entry other than /Type and /MediaBox in selected pages *)
Theorem C21_set_page_entry_validates :
  forall sel k v, beqb k kType = false -> beqb kType k = false ->
  beqb k kMediaBox = false -> beqb kMediaBox k = false ->
  forall t inh, tree_ok inh t = true -> tree_ok inh (set_leaf sel k v t) = true.
Proof. exact set_leaf_ok. Qed.
Print Assumptions C21_set_page_entry_validates.

(* ensureInfoDict (Producer, CreationDate, ModDate), keywords, properties *)
Theorem C21_info_update_validates :
  forall d, info_ok d = true ->
  (forall k v, info_ok (info_set k v d) = true) /\ (forall k, info_ok (info_del k d) = true).
Proof. intros d H. split; [intros k v; exact (info_set_ok k v d H)|intros k; exact (info_del_ok k d H)]. Qed.
Print Assumptions C21_info_update_validates.

Theorem C21_catalog_name_update_validates :
  forall k v d, (k = kPageMode \/ k = kPageLayout) ->
  catalog_ok d = true -> catalog_ok (catalog_set_name k v d) = true.
Proof. exact catalog_set_name_ok. Qed.
Print Assumptions C21_catalog_name_update_validates.

(* attachments, named destinations: adding to / removing from a name-tree leaf *)
Theorem C21_name_tree_update_sorted :
  forall l, sorted l = true ->
  (forall k v, sorted (nt_insert k v l) = true) /\ (forall k, sorted (nt_remove k l) = true).
Proof. intros l H. split; [intros k v; exact (nt_insert_sorted k v l H)|intros k; exact (nt_remove_sorted k l H)]. Qed.
Print Assumptions C21_name_tree_update_sorted.

(* the version of a written document: no catalog /Version survives, the header (1.7, or 2.0 for a
   PDF 2.0 document) is the effective version, it covers every feature introduced up to 1.7 —
   whatever header and catalog version the input had — and is never lower than the input's *)
Theorem C21_written_version_covers_features :
  forall ensured h r,
  snd (write_versions ensured h r) = None /\
  (forall since, (since <= 17)%N ->
     (since <= effective (fst (write_versions ensured h r)) (snd (write_versions ensured h r)))%N) /\
  (valid_version (effective h r) = true ->
     (effective h r <= effective (fst (write_versions false h r)) (snd (write_versions false h r)))%N).
Proof.
  intros ensured h r. split; [reflexivity|]. split.
  - intros since Hs. exact (write_versions_covers ensured h r since Hs).
  - exact (write_versions_monotone h r).
Qed.
Print Assumptions C21_written_version_covers_features.

(* non-vacuity: a tree with a wrong /Count has the right shape, is not valid, and is valid after
   the writer's rewrite; removing page 2 leaves pages 1 and 3 *)
Definition ex_leaf (id : N) : ptree := PLeaf id [(kType, OName kPage)].
Definition ex_tree : ptree :=
  PNode [(kType, OName kPages); (kCount, OInt 7); (kMediaBox, OArr [])]
        [ex_leaf 1; PNode [(kType, OName kPages)] [ex_leaf 2; ex_leaf 3]].
Example C21_nonvacuous :
  shape_ok false ex_tree = true /\ tree_ok false ex_tree = false /\
  tree_ok false (op_write ex_tree) = true /\ ids (op_remove [2%N] ex_tree) = [1%N; 3%N] /\
  tree_ok false (op_remove [2%N] ex_tree) = true /\ ids (op_collect [3;1;3]%N ex_tree) = [3;1;3]%N /\
  root_count (op_remove [2%N] ex_tree) = 2%Z /\
  info_ok [(kTitle, OAtom 3 []); (kTrapped, OName [])] = true /\ info_ok [(kTitle, OInt 1)] = false.
Proof. vm_compute. repeat split; reflexivity. Qed.
