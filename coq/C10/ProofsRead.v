(* C10 — structural facts about read_prog, for every shape. *)
From Coq Require Import NArith List Bool Lia ZifyBool ZifyNat ZifyN.
From PV Require Import Lib.GoInt C10.Model C10.Proofs.
Import ListNotations.
Open Scope N_scope.

(* "exit-like" programs: tight, late polls bounded by a (started cancelled) / b *)
Record ex (a b : N) (p : prog) : Prop := mkex {
  ex_t : tight p = true;
  ex_c : lc p <= a;
  ex_b : lb p <= b;
  ex_g : guard p = true \/ lc p = 0 }.

Lemma ex_weaken : forall a b a' b' p, ex a b p -> a <= a' -> b <= b' -> ex a' b' p.
Proof. intros a b a' b' p [Ht Hc Hb Hg] Ha Hbb. constructor; [assumption|lia|lia|assumption]. Qed.

Lemma ex_skip : ex 0 0 Skip.
Proof. constructor; simpl; [reflexivity|lia|lia|right; reflexivity]. Qed.
Lemma ex_poll : ex 1 1 Poll.
Proof. constructor; simpl; [reflexivity|lia|lia|left; reflexivity]. Qed.

Lemma ex_seq : forall a b a' b' p q, ex a b p -> ex a' b' q ->
  ex (N.max a a') (N.max b (N.max b' a')) (Seq p q).
Proof.
  intros a b a' b' p q [Ht Hc Hb Hg] [Ht' Hc' Hb' Hg'].
  constructor; simpl.
  - rewrite Ht, Ht'. reflexivity.
  - destruct (guard p) eqn:Eg.
    + lia.
    + destruct Hg as [Hg|Hg]; [discriminate|]. lia.
  - rewrite Ht. lia.
  - destruct (guard p) eqn:Eg.
    + left. reflexivity.
    + destruct Hg as [Hg|Hg]; [discriminate|].
      destruct Hg' as [Hg'|Hg'].
      * left. exact Hg'.
      * right. lia.
Qed.

Lemma ex_seqs : forall a b l, a <= b -> (forall p, In p l -> ex a b p) -> ex a b (seqs l).
Proof.
  intros a b l Hab. induction l as [|p l IH]; intros Hall.
  - simpl. apply (ex_weaken 0 0); [exact ex_skip|lia|lia].
  - simpl. apply (ex_weaken (N.max a a) (N.max b (N.max b a))); [|lia|lia].
    apply ex_seq.
    + apply Hall. left. reflexivity.
    + apply IH. intros q Hq. apply Hall. right. exact Hq.
Qed.

Lemma guard_seqs_cons : forall p l, guard p = true -> guard (seqs (p :: l)) = true.
Proof. intros p l H. simpl. rewrite H. reflexivity. Qed.

Lemma ex_pollsN : forall n, ex 1 1 (pollsN n).
Proof.
  intro n. unfold pollsN. apply ex_seqs; [lia|].
  intros p Hp. apply repeat_spec in Hp. subst p. exact ex_poll.
Qed.

Lemma pollsN_guard_or_nofail : forall n, guard (pollsN n) = true \/ nofail (pollsN n) = true.
Proof. intro n. destruct n as [|n]; [right|left]; reflexivity. Qed.

Lemma ex_retry : forall a b a' b' p q, ex a b p -> ex a' b' q ->
  (guard p = true \/ nofail p = true) ->
  ex (a + 1) (N.max (b + 1) (N.max b' a')) (Retry p q).
Proof.
  intros a b a' b' p q [Ht Hc Hb Hg] [Ht' Hc' Hb' Hg'] Hgn.
  constructor; simpl.
  - rewrite Ht, Ht'. reflexivity.
  - destruct (nofail p); lia.
  - destruct (nofail p); lia.
  - destruct (guard p) eqn:Eg.
    + left. reflexivity.
    + destruct Hgn as [Hgn|Hgn]; [discriminate|]. rewrite Hgn.
      destruct Hg as [Hg|Hg]; [discriminate|]. right. exact Hg.
Qed.

Lemma ex_retry_polls : forall k, ex 2 2 (Retry (pollsN k) (pollsN k)).
Proof.
  intro k. apply (ex_weaken (1 + 1) (N.max (1 + 1) (N.max 1 1))); [|lia|lia].
  apply ex_retry; [apply ex_pollsN|apply ex_pollsN|apply pollsN_guard_or_nofail].
Qed.

Lemma ex_buffer : forall o, ex 1 1 (buffer_polls o).
Proof.
  intro o. unfold buffer_polls.
  apply (ex_weaken (N.max 1 1) (N.max 1 (N.max 1 1))); [|lia|lia].
  apply ex_seq; [exact ex_poll|apply ex_pollsN].
Qed.

Lemma ex_parse_obj : forall o, ex 2 2 (parse_obj o).
Proof.
  intro o. unfold parse_obj.
  apply (ex_weaken (N.max 1 2) (N.max 1 (N.max 2 2))); [|lia|lia].
  apply ex_seq; [apply ex_buffer|apply ex_retry_polls].
Qed.
Lemma guard_parse_obj : forall o, guard (parse_obj o) = true.
Proof. reflexivity. Qed.

Lemma ex_pal : forall o, ex 2 2 (parse_and_load o).
Proof.
  intro o. unfold parse_and_load.
  apply (ex_weaken (N.max 2 1) (N.max 2 (N.max 1 1))); [|lia|lia].
  apply ex_seq; [apply ex_parse_obj|apply ex_pollsN].
Qed.
Lemma guard_pal : forall o, guard (parse_and_load o) = true.
Proof. reflexivity. Qed.

Lemma ex_ostream : forall x, ex 2 2 (ostream_prog x).
Proof.
  intro x. unfold ostream_prog.
  apply (ex_weaken (N.max 1 2) (N.max 1 (N.max 2 2))); [|lia|lia].
  apply ex_seq; [exact ex_poll|].
  apply (ex_weaken (N.max 2 1) (N.max 2 (N.max 1 1))); [|lia|lia].
  apply ex_seq; [apply ex_pal|apply ex_pollsN].
Qed.

Lemma ex_ostreams : forall l, ex 2 2 (seqs (map ostream_prog l)).
Proof.
  intro l. apply ex_seqs; [lia|]. intros p Hp. apply in_map_iff in Hp.
  destruct Hp as [x [Hx _]]. subst p. apply ex_ostream.
Qed.

(* second loop of dereferenceObjects* *)
Lemma ex_loop2 : forall es, ex 1 1 (seqs (map entry_poll2 es)).
Proof.
  intro es. apply ex_seqs; [lia|]. intros p Hp. apply in_map_iff in Hp.
  destruct Hp as [e [He _]]. subst p. destruct e; simpl.
  - apply (ex_weaken 0 0); [exact ex_skip|lia|lia].
  - exact ex_poll.
  - exact ex_poll.
Qed.

(* strict first loop *)
Lemma ex_entry_strict : forall ro e, ex 2 2 (entry_prog false ro e).
Proof.
  intros ro e. destruct e as [| |o]; simpl.
  - apply (ex_weaken 1 1); [exact ex_poll|lia|lia].
  - apply (ex_weaken 1 1); [exact ex_poll|lia|lia].
  - apply (ex_weaken (N.max 1 2) (N.max 1 (N.max 2 2))); [|lia|lia].
    apply ex_seq; [exact ex_poll|apply ex_pal].
Qed.

(* relaxed first loop: every entry program is guarded, lc <= 1, lb <= 2 *)
Lemma swallow_entry_facts : forall p q (ro : bool), ex 2 2 p -> guard p = true -> ex 1 1 q ->
  let e := Seq Poll (Try p (if ro then Try p Skip q else Skip) q) in
  guard e = true /\ lc e <= 1 /\ lb e <= 4.
Proof.
  intros p q ro [Ht Hc Hb _] Hg [Ht' Hc' Hb' _]. destruct ro; simpl; rewrite Ht, Hg;
    (split; [reflexivity|split; lia]).
Qed.

Lemma entry_relaxed_facts : forall ro e,
  guard (entry_prog true ro e) = true /\ lc (entry_prog true ro e) <= 1
  /\ lb (entry_prog true ro e) <= 4.
Proof.
  intros ro e. destruct e as [| |o].
  - simpl. split; [reflexivity|split; lia].
  - simpl. split; [reflexivity|split; lia].
  - apply swallow_entry_facts; [apply ex_parse_obj|apply guard_parse_obj|apply ex_pollsN].
Qed.

Lemma loop1_relaxed_facts : forall ro es,
  lc (seqs (map (entry_prog true ro) es)) <= 1 /\ lb (seqs (map (entry_prog true ro) es)) <= 5.
Proof.
  intro ro. induction es as [|e es IH].
  - simpl. lia.
  - destruct IH as [IHc IHb]. destruct (entry_relaxed_facts ro e) as [Hg [Hc Hb]].
    change (seqs (map (entry_prog true ro) (e :: es)))
      with (Seq (entry_prog true ro e) (seqs (map (entry_prog true ro) es))).
    remember (entry_prog true ro e) as p. remember (seqs (map (entry_prog true ro) es)) as rest.
    simpl. rewrite Hg. destruct (tight p); lia.
Qed.

Lemma loop1_tight_or_loop2_guard : forall ro es,
  tight (seqs (map (entry_prog true ro) es)) = true \/ guard (seqs (map entry_poll2 es)) = true.
Proof.
  intro ro. induction es as [|e es IH].
  - left. reflexivity.
  - destruct e as [| |o].
    + destruct IH as [IH|IH].
      * left. simpl. simpl in IH. rewrite IH. reflexivity.
      * right. simpl. exact IH.
    + right. reflexivity.
    + right. reflexivity.
Qed.

Lemma guard_loop1 : forall rx ro e es, guard (seqs (map (entry_prog rx ro) (e :: es))) = true.
Proof. intros rx ro e es. destruct e; destruct rx; reflexivity. Qed.

Lemma ex_deref : forall rx ro es, ex 2 6 (deref rx ro es).
Proof.
  intros rx ro es. unfold deref. destruct rx.
  - destruct (ex_loop2 es) as [Ht2 Hc2 Hb2 Hg2].
    destruct (loop1_relaxed_facts ro es) as [Hc1 Hb1].
    remember (seqs (map (entry_prog true ro) es)) as l1 eqn:E1.
    remember (seqs (map entry_poll2 es)) as l2 eqn:E2.
    constructor; simpl.
    + rewrite Ht2. simpl.
      destruct (loop1_tight_or_loop2_guard ro es) as [H|H]; rewrite <- ?E1, <- ?E2 in H; rewrite H.
      * reflexivity.
      * apply orb_true_r.
    + destruct (guard l1); lia.
    + destruct (tight l1); lia.
    + destruct es as [|e es].
      * right. subst l1 l2. reflexivity.
      * left. pose proof (guard_loop1 true ro e es) as Hg1. rewrite <- E1 in Hg1. rewrite Hg1. reflexivity.
  - apply (ex_weaken (N.max 2 1) (N.max 2 (N.max 1 1))); [|lia|lia].
    apply ex_seq; [|apply ex_loop2].
    apply ex_seqs; [lia|]. intros p Hp. apply in_map_iff in Hp.
    destruct Hp as [e [He _]]. subst p. apply ex_entry_strict.
Qed.

Lemma guard_deref : forall rx ro e es, guard (deref rx ro (e :: es)) = true.
Proof.
  intros rx ro e es. unfold deref. pose proof (guard_loop1 rx ro e es) as H.
  remember (seqs (map (entry_prog rx ro) (e :: es))) as l1. simpl. rewrite H. reflexivity.
Qed.

Definition tail_prog (s : shape) : prog :=
  Seq (pollsN (s_enc s)) (Seq (seqs (map ostream_prog (s_ostreams s))) (deref (s_relaxed s) (s_repoff s) (s_entries s))).

Lemma ex_tail : forall s, ex 2 6 (tail_prog s).
Proof.
  intro s. unfold tail_prog.
  apply (ex_weaken (N.max 1 2) (N.max 1 (N.max 6 2))); [|lia|lia].
  apply ex_seq; [apply ex_pollsN|].
  apply (ex_weaken (N.max 2 2) (N.max 2 (N.max 6 2))); [|lia|lia].
  apply ex_seq; [apply ex_ostreams|apply ex_deref].
Qed.

Lemma guard_tail : forall s, s_entries s <> [] -> guard (tail_prog s) = true.
Proof.
  intros s Hne. unfold tail_prog. destruct (s_entries s) as [|e es]; [congruence|].
  pose proof (guard_deref (s_relaxed s) (s_repoff s) e es) as H.
  remember (deref (s_relaxed s) (s_repoff s) (e :: es)) as d. simpl. rewrite H. rewrite !orb_true_r. reflexivity.
Qed.

Lemma read_prog_eq : forall s,
  read_prog s = Seq (if s_prefail s then Fail else Skip)
                    (Seq (chain (s_relaxed s) (s_file s) (s_sections s)) (tail_prog s)).
Proof. reflexivity. Qed.

Lemma tight_read : forall s, s_entries s <> [] -> tight (read_prog s) = true.
Proof.
  intros s Hne. rewrite read_prog_eq. destruct (ex_tail s) as [Ht _ _ _].
  pose proof (guard_tail s Hne) as Hg.
  remember (tail_prog s) as t. remember (chain (s_relaxed s) (s_file s) (s_sections s)) as c.
  simpl. rewrite Ht, Hg. rewrite orb_true_r. simpl.
  destruct (s_prefail s); reflexivity.
Qed.

(* Fail-free programs never report an input error *)
Fixpoint failfree (p : prog) : bool :=
  match p with
  | Skip | Poll => true | Fail => false
  | Seq p q => failfree p && failfree q
  | Try p q r => failfree p && failfree q && failfree r
  | Retry p q => failfree p && failfree q
  end.

Lemma failfree_no_inerr : forall poll p s o s', failfree p = true ->
  run poll p s = (o, s') -> o <> InErr.
Proof.
  intros poll p. induction p as [| | |p IHp q IHq|p IHp q IHq r IHr|p IHp q IHq];
    intros s o s' Hf H; simpl in H, Hf; try discriminate.
  - inversion H; subst. discriminate.
  - destruct (poll (polls s)); inversion H; subst; discriminate.
  - apply andb_prop in Hf. destruct Hf as [Hp Hq].
    destruct (run poll p s) as [o1 s1] eqn:E1. destruct (is_done o1).
    + apply (IHq _ _ _ Hq H).
    + inversion H; subst. apply (IHp _ _ _ Hp E1).
  - apply andb_prop in Hf. destruct Hf as [Hf Hr]. apply andb_prop in Hf. destruct Hf as [Hp Hq].
    destruct (run poll p s) as [o1 s1] eqn:E1. destruct (is_done o1).
    + apply (IHr _ _ _ Hr H).
    + apply (IHq _ _ _ Hq H).
  - apply andb_prop in Hf. destruct Hf as [Hp Hq].
    destruct (run poll p s) as [o1 s1] eqn:E1. destruct (is_done o1).
    + inversion H; subst. discriminate.
    + destruct (poll (polls s1)).
      * inversion H; subst. apply (IHp _ _ _ Hp E1).
      * apply (IHq _ _ _ Hq H).
Qed.

Lemma failfree_seqs : forall l, (forall p, In p l -> failfree p = true) -> failfree (seqs l) = true.
Proof.
  induction l as [|p l IH]; intro H; [reflexivity|]. simpl.
  rewrite (H p (or_introl eq_refl)). rewrite IH; [reflexivity|].
  intros q Hq. apply H. right. exact Hq.
Qed.
Lemma failfree_pollsN : forall n, failfree (pollsN n) = true.
Proof. intro n. apply failfree_seqs. intros p Hp. apply repeat_spec in Hp. subst. reflexivity. Qed.
Lemma ff_seq : forall p q, failfree p = true -> failfree q = true -> failfree (Seq p q) = true.
Proof. intros p q Hp Hq. simpl. rewrite Hp, Hq. reflexivity. Qed.
Lemma ff_try : forall p q r, failfree p = true -> failfree q = true -> failfree r = true ->
  failfree (Try p q r) = true.
Proof. intros p q r Hp Hq Hr. simpl. rewrite Hp, Hq, Hr. reflexivity. Qed.
Lemma ff_retry : forall p q, failfree p = true -> failfree q = true -> failfree (Retry p q) = true.
Proof. intros p q Hp Hq. simpl. rewrite Hp, Hq. reflexivity. Qed.

Lemma failfree_pal : forall o, failfree (parse_and_load o) = true.
Proof.
  intro o. unfold parse_and_load, parse_obj, buffer_polls.
  apply ff_seq; [|apply failfree_pollsN]. apply ff_seq.
  - apply ff_seq; [reflexivity|apply failfree_pollsN].
  - apply ff_retry; apply failfree_pollsN.
Qed.
Lemma failfree_process_object : forall rx o, failfree (process_object rx o) = true.
Proof.
  intros rx o. unfold process_object. destruct rx; [|apply failfree_pal].
  assert (Hr : failfree (Seq (Retry (pollsN (ok_ o)) (pollsN (ok_ o))) (pollsN (op o))) = true).
  { apply ff_seq; [apply ff_retry; apply failfree_pollsN|apply failfree_pollsN]. }
  apply ff_try; [unfold buffer_polls; apply ff_seq; [reflexivity|apply failfree_pollsN]|reflexivity|].
  destruct (obig o); [exact Hr|]. unfold Swallow. apply ff_try; [exact Hr|reflexivity|reflexivity].
Qed.
Lemma failfree_bypass : forall rx f, failfree (bypass rx f) = true.
Proof.
  intros rx f. apply failfree_seqs. intros p Hp. apply in_map_iff in Hp.
  destruct Hp as [i [Hi _]]. subst p. destruct i as [o|k]; simpl.
  - apply failfree_process_object.
  - rewrite failfree_pollsN. reflexivity.
Qed.
Lemma failfree_chain : forall rx f l, failfree (chain rx f l) = true.
Proof.
  intros rx f l. induction l as [|x l IH]; [reflexivity|].
  destruct x as [k|o].
  - change (chain rx f (STable k :: l))
      with (Seq Poll (Seq (Retry (pollsN k) (pollsN k)) (chain rx f l))).
    apply ff_seq; [reflexivity|]. apply ff_seq; [|exact IH].
    apply ff_retry; apply failfree_pollsN.
  - change (chain rx f (SStream o :: l))
      with (Seq Poll (Try (parse_and_load o) (bypass rx f) (chain rx f l))).
    apply ff_seq; [reflexivity|]. apply ff_try; [apply failfree_pal|apply failfree_bypass|exact IH].
Qed.
Lemma failfree_tail : forall s, failfree (tail_prog s) = true.
Proof.
  intro s. unfold tail_prog, deref.
  apply ff_seq; [apply failfree_pollsN|]. apply ff_seq; [|apply ff_seq].
  - apply failfree_seqs. intros p Hp. apply in_map_iff in Hp. destruct Hp as [x [Hx _]]. subst p.
    unfold ostream_prog. apply ff_seq; [reflexivity|].
    apply ff_seq; [apply failfree_pal|apply failfree_pollsN].
  - apply failfree_seqs. intros p Hp. apply in_map_iff in Hp. destruct Hp as [e [He _]]. subst p.
    destruct e as [| |o]; try reflexivity. unfold entry_prog.
    assert (Hpo : failfree (parse_obj o) = true).
    { unfold parse_obj, buffer_polls. apply ff_seq.
      - apply ff_seq; [reflexivity|apply failfree_pollsN].
      - apply ff_retry; apply failfree_pollsN. }
    apply ff_seq; [reflexivity|]. destruct (s_relaxed s).
    + apply ff_try; [exact Hpo| |apply failfree_pollsN].
      destruct (s_repoff s); [|reflexivity].
      apply ff_try; [exact Hpo|reflexivity|apply failfree_pollsN].
    + apply failfree_pal.
  - apply failfree_seqs. intros p Hp. apply in_map_iff in Hp. destruct Hp as [e [He _]]. subst p.
    destruct e; reflexivity.
Qed.

Lemma failfree_read : forall s, s_prefail s = false -> failfree (read_prog s) = true.
Proof.
  intros s Hp. rewrite read_prog_eq. rewrite Hp.
  apply ff_seq; [reflexivity|]. apply ff_seq; [apply failfree_chain|apply failfree_tail].
Qed.

(* ---- the late-poll bound outside the defect class ---- *)

Lemma ex_bypass_strict : forall f, ex 2 2 (bypass false f).
Proof.
  intro f. unfold bypass. apply ex_seqs; [lia|]. intros p Hp. apply in_map_iff in Hp.
  destruct Hp as [i [Hi _]]. subst p. destruct i as [o|k]; simpl.
  - apply ex_pal.
  - apply ex_retry_polls.
Qed.

Lemma chain_lc : forall rx f l, lc (chain rx f l) <= 1.
Proof. intros rx f l. destruct l as [|x l]; [simpl; lia|]. destruct x; simpl; lia. Qed.

Lemma chain_lb : forall rx f l, rx && has_stream l = false -> lb (chain rx f l) <= 4.
Proof.
  intros rx f l. induction l as [|x l IH]; intro Hd.
  - simpl. lia.
  - pose proof (chain_lc rx f l) as Hcl.
    destruct x as [k|o].
    + assert (Hd' : rx && has_stream l = false) by exact Hd.
      specialize (IH Hd').
      destruct (ex_retry_polls k) as [Ht Hc Hb Hg].
      change (chain rx f (STable k :: l))
        with (Seq Poll (Seq (Retry (pollsN k) (pollsN k)) (chain rx f l))).
      remember (Retry (pollsN k) (pollsN k)) as r. remember (chain rx f l) as c.
      simpl. rewrite Ht. destruct (guard r); lia.
    + destruct rx; [simpl in Hd; discriminate|].
      assert (Hd' : false && has_stream l = false) by reflexivity.
      specialize (IH Hd').
      destruct (ex_pal o) as [Ht Hc Hb _]. pose proof (guard_pal o) as Hgp.
      destruct (ex_bypass_strict f) as [Htb Hcb Hbb _].
      change (chain false f (SStream o :: l))
        with (Seq Poll (Try (parse_and_load o) (bypass false f) (chain false f l))).
      remember (parse_and_load o) as p. remember (bypass false f) as b. remember (chain false f l) as c.
      simpl. rewrite Ht, Hgp. lia.
Qed.

Lemma read_lbc : forall s, repair_swallows s = false -> lbc (read_prog s) <= stage_bound.
Proof.
  intros s Hd. rewrite read_prog_eq. unfold repair_swallows in Hd.
  pose proof (chain_lb (s_relaxed s) (s_file s) (s_sections s) Hd) as Hb.
  pose proof (chain_lc (s_relaxed s) (s_file s) (s_sections s)) as Hc.
  destruct (ex_tail s) as [Htt Htc Htb _].
  remember (tail_prog s) as t. remember (chain (s_relaxed s) (s_file s) (s_sections s)) as c.
  unfold lbc, stage_bound. destruct (s_prefail s); simpl.
  - destruct (tight c); destruct (guard c); lia.
  - destruct (tight c); destruct (guard c); lia.
Qed.

(* ---- the defect: the relaxed repair path swallows the context error once per object ---- *)

Definition o1 : fobj := mkfo 0 0 0 false.

Lemma bypass_swallows : forall e n a b, 1 <= a ->
  run (flip_at (Some 1) e) (bypass true (repeat (FObj o1) n)) (mkst a b)
  = (Done, mkst (a + N.of_nat n) (b + N.of_nat n)).
Proof.
  intros e n. induction n as [|n IH]; intros a b Ha.
  - simpl. f_equal. f_equal; lia.
  - change (bypass true (repeat (FObj o1) (S n)))
      with (Seq (process_object true o1) (bypass true (repeat (FObj o1) n))).
    remember (bypass true (repeat (FObj o1) n)) as rest.
    simpl. assert (Hle : (1 <=? a) = true) by (apply N.leb_le; exact Ha).
    rewrite Hle. simpl. subst rest. unfold tick_late. simpl.
    rewrite IH; [|lia]. f_equal. f_equal; lia.
Qed.

Definition bad_shape (n : nat) : shape :=
  mkshape true false false [SStream o1] (repeat (FObj o1) n) 0 [] [EFree].

Lemma run_Seq : forall poll p q s, run poll (Seq p q) s =
  let (o, s1) := run poll p s in if is_done o then run poll q s1 else (o, s1).
Proof. reflexivity. Qed.
Lemma run_Try : forall poll p q r s, run poll (Try p q r) s =
  let (o, s1) := run poll p s in if is_done o then run poll r s1 else run poll q s1.
Proof. reflexivity. Qed.

Lemma bad_pal : forall e a b, 1 <= a ->
  run (flip_at (Some 1) e) (parse_and_load o1) (mkst a b) = (CtxErr e, mkst (a + 1) (b + 1)).
Proof.
  intros e a b Ha. simpl. assert (Hle : (1 <=? a) = true) by (apply N.leb_le; exact Ha).
  rewrite Hle. reflexivity.
Qed.

Lemma bad_tail : forall e n a b, 1 <= a ->
  run (flip_at (Some 1) e) (tail_prog (bad_shape n)) (mkst a b) = (CtxErr e, mkst (a + 1) (b + 1)).
Proof.
  intros e n a b Ha. simpl. assert (Hle : (1 <=? a) = true) by (apply N.leb_le; exact Ha).
  rewrite Hle. reflexivity.
Qed.

Lemma bad_shape_late : forall e n,
  read (flip_at (Some 1) e) (bad_shape n) = (CtxErr e, mkst (N.of_nat n + 3) (N.of_nat n + 2)).
Proof.
  intros e n. unfold read. rewrite read_prog_eq.
  change (s_prefail (bad_shape n)) with false.
  change (chain (s_relaxed (bad_shape n)) (s_file (bad_shape n)) (s_sections (bad_shape n)))
    with (Seq Poll (Try (parse_and_load o1) (bypass true (repeat (FObj o1) n)) Skip)).
  rewrite run_Seq. change (run (flip_at (Some 1) e) Skip st0) with (Done, st0).
  cbv iota beta. change (is_done Done) with true. cbv iota.
  rewrite run_Seq. rewrite run_Seq.
  change (run (flip_at (Some 1) e) Poll st0) with (Done, mkst 1 0).
  cbv iota beta. change (is_done Done) with true. cbv iota.
  rewrite run_Try. rewrite bad_pal; [|lia].
  cbv iota beta. change (is_done (CtxErr e)) with false. cbv iota.
  rewrite bypass_swallows; [|lia].
  cbv iota beta. change (is_done Done) with true. cbv iota.
  rewrite bad_tail; [|lia]. f_equal. f_equal; lia.
Qed.

(* ---- the property-level statements ---- *)

Lemma flip_at_mono : forall k e, mono (flip_at k e).
Proof.
  intros k e i j e' Hij H. unfold flip_at in *. destruct k as [k|]; [|discriminate].
  destruct (k <=? i) eqn:E; [|discriminate]. apply N.leb_le in E.
  assert (E' : (k <=? j) = true) by (apply N.leb_le; lia). rewrite E'. exact H.
Qed.

Lemma precancelled_fails : forall s poll e, s_sections s <> [] -> poll 0 = Some e ->
  read poll s = if s_prefail s then (InErr, st0) else (CtxErr e, mkst 1 1).
Proof.
  intros s poll e Hne H0. unfold read. rewrite read_prog_eq.
  destruct (s_prefail s); [reflexivity|].
  destruct (s_sections s) as [|x l]; [congruence|].
  destruct x as [k|o]; simpl; rewrite H0; reflexivity.
Qed.

Lemma cancel_any_time : forall s poll e, mono poll ->
  (forall i e', poll i = Some e' -> e' = e) -> s_entries s <> [] ->
  forall o st, read poll s = (o, st) ->
  (o = Done /\ late st = 0) \/ o = CtxErr e \/ (o = InErr /\ s_prefail s = true).
Proof.
  intros s poll e Hm Hone Hne o st H. unfold read in H. destruct o as [|e'|].
  - left. split; [reflexivity|].
    apply (tight_sound poll (read_prog s) st0 st Hm (tight_read s Hne) H).
  - right. left. destruct (ctxerr_from_poll poll _ _ _ _ H) as [i Hi].
    rewrite (Hone i e' Hi). reflexivity.
  - right. right. split; [reflexivity|].
    destruct (s_prefail s) eqn:Ep; [reflexivity|]. exfalso.
    apply (failfree_no_inerr poll (read_prog s) st0 InErr st (failfree_read s Ep) H). reflexivity.
Qed.

Lemma late_polls_bounded_partial : forall s poll, mono poll -> repair_swallows s = false ->
  late (snd (read poll s)) <= stage_bound.
Proof.
  intros s poll Hm Hd. unfold read. destruct (run poll (read_prog s) st0) as [o st] eqn:E.
  pose proof (late_bound_lbc poll (read_prog s) st0 o st Hm E) as H.
  pose proof (read_lbc s Hd) as Hb. simpl in *. lia.
Qed.

Lemma late_polls_refuted : forall e n, exists s k,
  repair_swallows s = true /\ mono (flip_at (Some k) e) /\
  N.of_nat n < late (snd (read (flip_at (Some k) e) s)).
Proof.
  intros e n. exists (bad_shape n), 1. split; [reflexivity|]. split; [apply flip_at_mono|].
  rewrite bad_shape_late. simpl. lia.
Qed.
