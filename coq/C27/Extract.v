From Coq Require Import Extraction ExtrOcamlBasic.
From PV Require Import Lib.ExtBase C28.Generated C28.Model C27.Model.
Extraction "model.ml" ext_base_z ext_base_n ext_base_nat ext_base_res ext_base_list
  byteRangeEnd byteRangeValues validateByteRange contentsGapMatches bytesForByteRange
  signedData boundaryOK applyHistorical docModifiedWith docModifiedP7With docModifiedP1With p7StatusOf.
