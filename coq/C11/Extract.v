From Coq Require Import Extraction ExtrOcamlBasic.
From PV Require Import Lib.ExtBase C11.Model.
Extraction "model.ml" ext_base_z ext_base_n ext_base_nat ext_base_res ext_base_list
  print_S print_A parse_top escape utoa wf norm depth residue follow encode_name decode_name.
