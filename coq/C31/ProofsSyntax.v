(* C31 — lemmas.  Part 4: the syntax: tokenisation, the regular expression accepts the syntax,
   the recogniser in_syntax is exactly the syntax. *)
From Coq Require Import ZArith NArith Bool List Lia ZifyBool ZifyNat ZifyN.
From PV Require Import Lib.GoInt C31.Model C31.Spec C31.Proofs C31.ProofsHandlers.
Import ListNotations.
Open Scope Z_scope.

(* ------------------------------------------------------------ split / join *)
Lemma nochar_app c a b : nochar c (a ++ b) = nochar c a && nochar c b.
Proof. apply forallb_app. Qed.

Lemma nochar_cons c x a : nochar c (x :: a) = negb (N.eqb x c) && nochar c a.
Proof. reflexivity. Qed.

Lemma num_nocomma a : is_num a = true -> nochar cComma a = true.
Proof. intros H. apply num_nochar; [apply is_num_digits, H|reflexivity]. Qed.

Lemma render_term_nocomma t : wf t = true -> nochar cComma (render_term t) = true.
Proof.
  intros Hwf. destruct t as [| |k r]; [reflexivity|reflexivity|]. cbn [wf] in Hwf.
  assert (H : nochar cComma (render_r r) = true).
  { destruct r; cbn [wf_r] in Hwf; cbn [render_r];
      try (apply andb_true_iff in Hwf as [Hwf Hb]);
      rewrite ?nochar_app, ?nochar_cons, ?nochar_app, ?nochar_cons;
      rewrite ?(num_nocomma _ Hwf); try rewrite (num_nocomma _ Hb); reflexivity. }
  destruct k; cbn [render_term]; try assumption; rewrite nochar_cons, H; reflexivity.
Qed.

Lemma split_join c l : l <> [] -> forallb (nochar c) l = true -> split_on c (join c l) = l.
Proof.
  induction l as [|x l IH]; intros Hne H; [contradiction|].
  cbn [forallb] in H. apply andb_true_iff in H as [Hx Hl].
  destruct l as [|y l].
  - cbn [join]. apply split_on_none, Hx.
  - cbn [join]. rewrite split_on_app by assumption. f_equal. apply IH; [discriminate|assumption].
Qed.

Lemma join_split c s : join c (split_on c s) = s.
Proof.
  induction s as [|x s IH]; [reflexivity|]. cbn [split_on].
  destruct (N.eqb x c) eqn:E.
  - apply N.eqb_eq in E. subst x. pose proof (split_on_nonempty c s) as Hne.
    destruct (split_on c s) as [|h t] eqn:Es; [contradiction|].
    cbn [join app]. cbn [join] in IH. rewrite IH. reflexivity.
  - pose proof (split_on_nonempty c s) as Hne.
    destruct (split_on c s) as [|h t] eqn:Es; [contradiction|].
    destruct t as [|h' t]; cbn [join] in *; rewrite <- IH; reflexivity.
Qed.

Lemma split_render e : e <> [] -> forallb wf e = true -> split_on cComma (render e) = map render_term e.
Proof.
  intros Hne Hwf. unfold render. apply split_join.
  - destruct e; [contradiction|discriminate].
  - rewrite forallb_forall in *. intros x Hx. apply in_map_iff in Hx as (t & <- & Ht).
    apply render_term_nocomma, Hwf, Ht.
Qed.

(* ------------------------------------------------------------ matcher combinators *)
Lemma m_cat_intro (a b : matcher) s mid r : In mid (a s) -> In r (b mid) -> In r (m_cat a b s).
Proof. intros H1 H2. unfold m_cat. apply in_flat_map. eauto. Qed.
Lemma m_alt_l (a b : matcher) s r : In r (a s) -> In r (m_alt a b s).
Proof. intros H. unfold m_alt. apply in_or_app. auto. Qed.
Lemma m_alt_r (a b : matcher) s r : In r (b s) -> In r (m_alt a b s).
Proof. intros H. unfold m_alt. apply in_or_app. auto. Qed.
Lemma m_opt_skip (m : matcher) s : In s (m_opt m s).
Proof. left. reflexivity. Qed.
Lemma m_opt_take (m : matcher) s r : In r (m s) -> In r (m_opt m s).
Proof. intros H. right. assumption. Qed.
Lemma m_lit_1 c x : In x (m_lit [c] (c :: x)).
Proof. unfold m_lit. cbn [has_prefix]. rewrite N.eqb_refl. left. reflexivity. Qed.
Lemma m_lit_2 c1 c2 x : In x (m_lit [c1; c2] (c1 :: c2 :: x)).
Proof. unfold m_lit. cbn [has_prefix]. rewrite !N.eqb_refl. left. reflexivity. Qed.
Lemma m_digits1_complete a rest : is_num a = true -> In rest (m_digits1 (a ++ rest)).
Proof.
  intros H. destruct (is_num_cons a H) as (d & a' & -> & Hd & Ha'). clear H.
  revert d Hd. induction a' as [|e a' IH]; intros d Hd; cbn [app m_digits1]; rewrite Hd.
  - left. reflexivity.
  - right. cbn [forallb] in Ha'. apply andb_true_iff in Ha' as [He Ha']. apply IH; assumption.
Qed.

Ltac mm :=
  multimatch goal with
  | |- In _ (m_alt _ _ _) => (apply m_alt_l; mm) + (apply m_alt_r; mm)
  | |- In _ (m_cat _ _ _) => eapply m_cat_intro; [mm|mm]
  | |- In _ (m_opt _ _) => (apply m_opt_take; mm) + (apply m_opt_skip)
  | |- In _ (m_lit sMinus _) => apply m_lit_1
  | |- In _ (m_lit sL _) => apply m_lit_1
  | |- In _ (m_lit sMinusL _) => apply m_lit_2
  | |- In _ (m_digits1 _) => apply m_digits1_complete; assumption
  end.

Lemma reT_complete r rest : wf_r r = true -> In rest (reT (render_r r ++ rest)).
Proof.
  intros Hwf. unfold reT.
  destruct r as [a|a|a|a b| |a|a| |a|a|a b]; cbn [wf_r] in Hwf; cbn [render_r];
    try (apply andb_true_iff in Hwf as [Hwf Hb]);
    cbn [app]; rewrite <- ?app_assoc; cbn [app]; mm.
Qed.

Lemma reNT_complete k r rest : wf_r r = true -> In rest (reNT (render_term (TR k r) ++ rest)).
Proof.
  intros Hwf. unfold reNT. destruct k; cbn [render_term].
  - eapply m_cat_intro; [apply m_opt_skip|apply reT_complete, Hwf].
  - eapply m_cat_intro; [apply m_opt_take; left; reflexivity|apply reT_complete, Hwf].
  - eapply m_cat_intro; [apply m_opt_take; left; reflexivity|apply reT_complete, Hwf].
Qed.

(* ------------------------------------------------------------ the star table and the search *)
Lemma star_tab_app g y : forall r, exists pre, length pre = length y /\ star_tab g (y ++ r) = pre ++ star_tab g r.
Proof.
  induction y as [|c y IH]; intros r.
  - exists []. split; reflexivity.
  - destruct (IH r) as (pre & Hl & Hp). cbn [app star_tab]. rewrite Hp.
    eexists (_ :: pre). split; [cbn [length]; rewrite Hl; reflexivity|reflexivity].
Qed.

Lemma star_tab_nth g y r : nth (length (y ++ r) - length r) (star_tab g (y ++ r)) false = hd false (star_tab g r).
Proof.
  destruct (star_tab_app g y r) as (pre & Hl & Hp). rewrite Hp, app_length.
  replace (length y + length r - length r)%nat with (length pre) by lia.
  rewrite app_nth2 by lia. rewrite Nat.sub_diag. destruct (star_tab g r); reflexivity.
Qed.

Fixpoint rep (j : nat) : str := match j with O => [] | S j' => sCommaEven ++ rep j' end.

Lemma star_rep j : hd false (star_tab reG (rep j)) = true.
Proof.
  induction j as [|j IH]; [reflexivity|].
  change (rep (S j)) with (cComma :: (sEven ++ rep j)). cbn [star_tab hd].
  apply existsb_exists. exists (rep j). split.
  - unfold reG. apply m_alt_l. unfold m_lit.
    change (has_prefix sCommaEven (cComma :: sEven ++ rep j)) with true. left. reflexivity.
  - apply andb_true_iff. split.
    + rewrite app_length. apply Nat.leb_le. lia.
    + rewrite star_tab_nth. exact IH.
Qed.

Lemma search_app p pre : forall t, p t = true -> search p (pre ++ t) = true.
Proof.
  induction pre as [|c pre IH]; intros t H; cbn [app].
  - destruct t; cbn [search]; rewrite H; reflexivity.
  - cbn [search]. rewrite (IH t H). apply orb_true_r.
Qed.

(* ------------------------------------------------------------ shape of a rendered expression *)
Lemma render_cons t t' e : render (t :: t' :: e) = render_term t ++ cComma :: render (t' :: e).
Proof. reflexivity. Qed.

Lemma shape e : e <> [] -> forallb wf e = true ->
  (exists pre post, render e = pre ++ sOdd ++ post)
  \/ (exists j, render e = sEven ++ rep j)
  \/ (exists pre k r j, wf_r r = true /\ render e = pre ++ render_term (TR k r) ++ rep j).
Proof.
  induction e as [|t e IH]; intros Hne Hwf; [contradiction|].
  cbn [forallb] in Hwf. apply andb_true_iff in Hwf as [Ht He].
  destruct e as [|t' e].
  - unfold render. cbn [map join]. destruct t as [| |k r].
    + right. left. exists O. cbn [rep]. rewrite app_nil_r. reflexivity.
    + left. exists [], []. reflexivity.
    + right. right. exists [], k, r, O. split; [exact Ht|]. cbn [rep app]. rewrite app_nil_r. reflexivity.
  - rewrite render_cons. destruct (IH ltac:(discriminate) He) as [(pre & post & Hr)|[(j & Hr)|(pre & k & r & j & Hw & Hr)]].
    + left. exists (render_term t ++ cComma :: pre), post. rewrite Hr.
      rewrite <- app_assoc. reflexivity.
    + rewrite Hr. destruct t as [| |k r].
      * right. left. exists (S j). reflexivity.
      * left. exists [], (cComma :: sEven ++ rep j). reflexivity.
      * right. right. exists [], k, r, (S j). split; [exact Ht|]. reflexivity.
    + right. right. exists (render_term t ++ cComma :: pre), k, r, j. split; [exact Hw|].
      rewrite Hr, <- app_assoc. reflexivity.
Qed.

Lemma re_match_complete e : e <> [] -> forallb wf e = true -> re_match (render e) = true.
Proof.
  intros Hne Hwf. unfold re_match.
  destruct (shape e Hne Hwf) as [(pre & post & Hr)|[(j & Hr)|(pre & k & r & j & Hw & Hr)]]; rewrite Hr.
  - rewrite search_app; [apply orb_true_r|]. reflexivity.
  - reflexivity.
  - rewrite search_app; [apply orb_true_r|].
    apply orb_true_iff. right. unfold alt3_at. apply existsb_exists. exists (rep j). split.
    + apply reNT_complete, Hw.
    + rewrite app_assoc. rewrite star_tab_nth. apply star_rep.
Qed.

Lemma render_nonempty e : e <> [] -> forallb wf e = true -> render e <> [].
Proof.
  intros Hne Hwf E. pose proof (split_render e Hne Hwf) as Hs. rewrite E in Hs.
  destruct e as [|t e]; [contradiction|]. cbn in Hs. destruct e; [|discriminate].
  cbn [forallb] in Hwf. apply andb_true_iff in Hwf as [Ht _].
  inversion Hs as [Hs']. destruct t as [| |k r]; try discriminate.
  cbn [wf] in Ht. destruct (render_r_head r Ht) as (c & w & Hr & _).
  destruct k; cbn [render_term] in Hs'; [rewrite Hr in Hs'|..]; discriminate.
Qed.

Lemma parse_complete e : e <> [] -> forallb wf e = true ->
  ParsePageSelection (render e) = Some (map render_term e).
Proof.
  intros Hne Hwf. unfold ParsePageSelection.
  pose proof (render_nonempty e Hne Hwf) as Hn.
  destruct (render e) eqn:E; [contradiction|]. rewrite <- E.
  rewrite (re_match_complete e Hne Hwf), (split_render e Hne Hwf). reflexivity.
Qed.

(* ------------------------------------------------------------ the recogniser is exactly the syntax *)
Lemma is_nil_true (a : str) : is_nil a = true -> a = [].
Proof. destruct a; [reflexivity|discriminate]. Qed.
Lemma num_not_nil a : is_num a = true -> is_nil a = false.
Proof. destruct a; [discriminate|reflexivity]. Qed.
Lemma is_num_sL : is_num sL = false. Proof. reflexivity. Qed.
Lemma is_nil_sL : is_nil sL = false. Proof. reflexivity. Qed.
Lemma is_num_nil : is_num [] = false. Proof. reflexivity. Qed.
Lemma is_nil_nil : is_nil (@nil N) = true. Proof. reflexivity. Qed.
Lemma str_eqb_sL : str_eqb sL sL = true. Proof. reflexivity. Qed.
Lemma str_eqb_nil_sL : str_eqb [] sL = false. Proof. reflexivity. Qed.

Lemma split1 a : is_num a = true -> split_on cMinus a = [a].
Proof. intros H. apply split_on_none, num_nodash, H. Qed.
Lemma split_nil_dash w : split_on cMinus (cMinus :: w) = [] :: split_on cMinus w.
Proof. apply (split_on_app cMinus [] w eq_refl). Qed.
Lemma split_l_dash w : split_on cMinus (cL :: cMinus :: w) = sL :: split_on cMinus w.
Proof. apply (split_on_app cMinus [cL] w eq_refl). Qed.
Lemma split_num_dash a w : is_num a = true -> split_on cMinus (a ++ cMinus :: w) = a :: split_on cMinus w.
Proof. intros H. apply split_on_app, num_nodash, H. Qed.
Lemma split_l : split_on cMinus [cL] = [sL]. Proof. reflexivity. Qed.
Lemma split_nil : split_on cMinus [] = [[]]. Proof. reflexivity. Qed.

Ltac facts :=
  repeat first
    [ rewrite is_num_sL | rewrite is_nil_sL | rewrite is_num_nil | rewrite is_nil_nil
    | rewrite str_eqb_sL | rewrite str_eqb_nil_sL
    | match goal with H : is_num ?a = true |- _ => first [rewrite H | rewrite (num_not_nil a H) | rewrite (num_not_l a H)] end
    | progress cbv iota | progress cbn [andb] ].

Lemma parse_rterm_complete r : wf_r r = true -> parse_rterm (render_r r) = Some r.
Proof.
  intros Hwf. unfold parse_rterm.
  destruct r as [a|a|a|a b| |a|a| |a|a|a b]; cbn [wf_r] in Hwf; cbn [render_r];
    try (apply andb_true_iff in Hwf as [Hwf Hb]).
  - rewrite (split1 a Hwf). facts. reflexivity.
  - rewrite split_nil_dash, (split1 a Hwf). facts. reflexivity.
  - rewrite (split_num_dash a [] Hwf), split_nil. facts. reflexivity.
  - rewrite (split_num_dash a b Hwf), (split1 b Hb). facts. reflexivity.
  - rewrite split_l. facts. reflexivity.
  - rewrite split_l_dash, (split1 a Hwf). facts. reflexivity.
  - rewrite split_l_dash, (split_num_dash a [] Hwf), split_nil. facts. reflexivity.
  - rewrite split_nil_dash, split_l. facts. reflexivity.
  - rewrite split_nil_dash, split_l_dash, (split1 a Hwf). facts. reflexivity.
  - change (a ++ [cMinus; cL]) with (a ++ cMinus :: [cL]).
    rewrite (split_num_dash a [cL] Hwf), split_l. facts. reflexivity.
  - rewrite (split_num_dash a _ Hwf), split_l_dash, (split1 b Hb). facts. reflexivity.
Qed.

Lemma parse_term_complete t : wf t = true -> parse_term (render_term t) = Some t.
Proof.
  intros Hwf. destruct t as [| |k r]; [reflexivity|reflexivity|]. cbn [wf] in Hwf.
  destruct (render_r_head r Hwf) as (c & w & Hr & H1 & H2 & H3).
  unfold negation in H3. apply orb_false_iff in H3 as [H3 H4].
  pose proof (parse_rterm_complete r Hwf) as Hp.
  unfold parse_term. destruct k; cbn [render_term].
  - rewrite Hr in *. cbn [str_eqb sEven sOdd]. rewrite H1, H2, H3, H4. cbn [andb]. rewrite Hp. reflexivity.
  - change (str_eqb (cBang :: render_r r) sEven) with false.
    change (str_eqb (cBang :: render_r r) sOdd) with false. cbv iota.
    rewrite N.eqb_refl, Hp. reflexivity.
  - change (str_eqb (cN :: render_r r) sEven) with false.
    change (str_eqb (cN :: render_r r) sOdd) with false. cbv iota.
    change (N.eqb cN cBang) with false. rewrite N.eqb_refl, Hp. reflexivity.
Qed.

Lemma in_syntax_complete e : e <> [] -> forallb wf e = true -> in_syntax (render e) = true.
Proof.
  intros Hne Hwf. unfold in_syntax. pose proof (render_nonempty e Hne Hwf) as Hn.
  destruct (render e) eqn:E; [contradiction|]. rewrite <- E. rewrite (split_render e Hne Hwf).
  rewrite forallb_forall in *. intros x Hx. apply in_map_iff in Hx as (t & <- & Ht).
  rewrite (parse_term_complete t (Hwf t Ht)). reflexivity.
Qed.

Ltac cleanup :=
  repeat match goal with
    | H : is_nil ?a = true |- _ => apply is_nil_true in H; subst a
    | H : str_eqb ?a sL = true |- _ => apply str_eqb_eq in H; subst a
    | H : (_ && _) = true |- _ => apply andb_true_iff in H as [? ?]
    end.

Lemma parse_rterm_sound v r : parse_rterm v = Some r -> wf_r r = true /\ render_r r = v.
Proof.
  unfold parse_rterm. pose proof (join_split cMinus v) as J.
  destruct (split_on cMinus v) as [|a [|b [|c [|d l]]]]; try discriminate; cbn [join] in J; subst v;
    repeat match goal with |- context [if ?c then _ else _] => destruct c eqn:? end; try discriminate;
    intros H; inversion H; subst r; clear H; cleanup; cbn [wf_r];
    (split; [repeat match goal with H : is_num _ = true |- _ => rewrite H; clear H end; reflexivity
            | rewrite ?app_nil_r; reflexivity]).
Qed.

Lemma parse_term_sound tok t : parse_term tok = Some t -> wf t = true /\ render_term t = tok.
Proof.
  unfold parse_term.
  destruct (str_eqb tok sEven) eqn:E1.
  { intros H. inversion H. apply str_eqb_eq in E1. subst. split; reflexivity. }
  destruct (str_eqb tok sOdd) eqn:E2.
  { intros H. inversion H. apply str_eqb_eq in E2. subst. split; reflexivity. }
  destruct tok as [|c rest]; [discriminate|].
  destruct (N.eqb c cBang) eqn:E3.
  { apply N.eqb_eq in E3. subst c. destruct (parse_rterm rest) eqn:Ep; [|discriminate].
    intros H. inversion H. subst t. destruct (parse_rterm_sound rest r Ep) as [Hw Hr].
    split; [exact Hw|]. cbn [render_term]. rewrite Hr. reflexivity. }
  destruct (N.eqb c cN) eqn:E4.
  { apply N.eqb_eq in E4. subst c. destruct (parse_rterm rest) eqn:Ep; [|discriminate].
    intros H. inversion H. subst t. destruct (parse_rterm_sound rest r Ep) as [Hw Hr].
    split; [exact Hw|]. cbn [render_term]. rewrite Hr. reflexivity. }
  destruct (parse_rterm (c :: rest)) eqn:Ep; [|discriminate].
  intros H. inversion H. subst t. destruct (parse_rterm_sound (c :: rest) r Ep) as [Hw Hr].
  split; [exact Hw|]. exact Hr.
Qed.

Lemma parse_all_sound l : forallb (fun t => is_some (parse_term t)) l = true ->
  exists e, forallb wf e = true /\ map render_term e = l.
Proof.
  induction l as [|x l IH]; intros H.
  - exists []. split; reflexivity.
  - cbn [forallb] in H. apply andb_true_iff in H as [Hx Hl].
    destruct (IH Hl) as (e & He & Hm).
    destruct (parse_term x) as [t|] eqn:Ep; [|discriminate].
    destruct (parse_term_sound x t Ep) as [Hw Hr].
    exists (t :: e). split; [cbn [forallb]; rewrite Hw, He; reflexivity|].
    cbn [map]. rewrite Hr, Hm. reflexivity.
Qed.

Lemma in_syntax_sound s : in_syntax s = true ->
  exists e, e <> [] /\ forallb wf e = true /\ render e = s.
Proof.
  unfold in_syntax. destruct s as [|c s]; [discriminate|]. intros H.
  destruct (parse_all_sound _ H) as (e & He & Hm).
  exists e. split; [|split; [exact He|]].
  - intros ->. cbn [map] in Hm. symmetry in Hm. exact (split_on_nonempty cComma (c :: s) Hm).
  - unfold render. rewrite Hm. apply join_split.
Qed.

Lemma in_syntax_exact s :
  in_syntax s = true <-> exists e, e <> [] /\ forallb wf e = true /\ render e = s.
Proof.
  split; [apply in_syntax_sound|]. intros (e & Hne & Hwf & <-). apply in_syntax_complete; assumption.
Qed.
