(* C24 — lemmas for revisions 5 and 6: the code model against Algorithms 2.A, 2.B, 8-13.
   SHA-2, AES, the reader's password preparation and SASLprep are Section variables. *)
From Coq Require Import NArith ZArith List Bool Lia ZifyBool ZifyNat ZifyN.
Import ListNotations.
From PV Require Import C24.Prims C24.Model C24.Spec C24.Proofs.
Open Scope N_scope.
Local Arguments firstn : simpl never.
Local Arguments skipn : simpl never.

Lemma take_firstn n b : take n b = firstn (N.to_nat n) b.
Proof. reflexivity. Qed.
Lemma drop_skipn n b : drop n b = skipn (N.to_nat n) b.
Proof. reflexivity. Qed.

Lemma be_value_eq b : forall acc, fold_left (fun a x => a * 256 + x) b acc = big_endian acc b.
Proof. induction b as [|x r IH]; intros acc; cbn; [reflexivity|apply IH]. Qed.

Lemma repeat_bytes_eq n b : repeat_bytes n b = concat_n n b.
Proof. induction n as [|n IH]; cbn; [reflexivity|]. rewrite IH. reflexivity. Qed.

Lemma trunc127_eq pw : c_trunc127 pw = firstn 127 pw.
Proof.
  unfold c_trunc127, take, len. change (N.to_nat 127) with 127%nat.
  assert (Hc : 127 < N.of_nat (length pw) \/ N.of_nat (length pw) <= 127) by lia.
  destruct Hc as [E|E].
  - rewrite (proj2 (N.ltb_lt _ _) E). reflexivity.
  - rewrite (proj2 (N.ltb_ge _ _) E). symmetry. apply firstn_all2. lia.
Qed.

Lemma last_bound (l : bytes) : Forall (fun b => b < 256) l -> last l 0 < 256.
Proof.
  induction l as [|x r IH]; intros H; [cbn; lia|].
  inversion H as [|? ? Hx Hr]; subst. destruct r as [|y r']; [exact Hx|]. apply IH. exact Hr.
Qed.

Section AES.
Variable sha256 sha384 sha512 : bytes -> bytes.
Variable aes_cbc_enc aes_cbc_dec : bytes -> bytes -> bytes -> bytes.
Variable aes_ecb_enc aes_ecb_dec : bytes -> bytes -> bytes.
Variable prep saslprep : bytes -> option bytes.

(* what is assumed of the unmodelled primitives: digest lengths, and that a cipher text is a byte string *)
Hypothesis Hsha256 : forall x, length (sha256 x) = 32%nat.
Hypothesis Hsha384 : forall x, length (sha384 x) = 48%nat.
Hypothesis Hsha512 : forall x, length (sha512 x) = 64%nat.
Hypothesis Hcbc_bytes : forall k iv d, Forall (fun b => b < 256) (aes_cbc_enc k iv d).

Notation c_round := (c_hash6_round sha256 sha384 sha512 aes_cbc_enc).
Notation c_loop := (c_hash6_loop sha256 sha384 sha512 aes_cbc_enc).
Notation s_round := (alg2B_round sha256 sha384 sha512 aes_cbc_enc).
Notation s_rounds := (alg2B_rounds sha256 sha384 sha512 aes_cbc_enc).
Notation c_hash' := (c_hash sha256 sha384 sha512 aes_cbc_enc).
Notation s_hash := (hash_r sha256 sha384 sha512 aes_cbc_enc).

Lemma round_eq pw u k : c_round pw u k = s_round pw u k.
Proof.
  unfold c_hash6_round, alg2B_round.
  rewrite repeat_bytes_eq. unfold be_value. rewrite be_value_eq.
  rewrite !take_firstn, !drop_skipn. change (N.to_nat 16) with 16%nat.
  destruct u as [|x r]; reflexivity.
Qed.

Lemma round_props pw u k : let '(k', e') := s_round pw u k in (32 <= length k')%nat /\ last e' 0 < 256.
Proof.
  unfold alg2B_round. split.
  - destruct (big_endian 0 _ mod 3) as [|[ | | ]]; rewrite ?Hsha256, ?Hsha384, ?Hsha512; lia.
  - apply last_bound. apply Hcbc_bytes.
Qed.

Lemma loop_eq pw u : forall fuel j k e, j <= 287 -> last e 0 < 256 ->
  c_loop fuel j pw u k e = s_rounds fuel j pw u k e.
Proof.
  induction fuel as [|f IH]; intros j k e Hj He.
  - cbn. unfold last_byte.
    destruct (N.ltb_spec j 64) as [H64|H64]; cbn [orb]; [reflexivity|].
    assert (Hl : N.land (j - 32) 255 = j - 32).
    { change 255 with (N.ones 8). rewrite N.land_ones. apply N.mod_small. change (2 ^ 8) with 256. lia. }
    rewrite Hl. reflexivity.
  - cbn [c_hash6_loop alg2B_rounds]. unfold last_byte.
    assert (Hcond : ((j <? 64) || (N.land (j - 32) 255 <? last e 0)) = (if j <? 64 then true else j - 32 <? last e 0)).
    { destruct (N.ltb_spec j 64) as [H64|H64]; cbn [orb]; [reflexivity|].
      change 255 with (N.ones 8). rewrite N.land_ones, N.mod_small; [reflexivity|]. change (2 ^ 8) with 256. lia. }
    rewrite Hcond.
    destruct (if j <? 64 then true else j - 32 <? last e 0) eqn:Eagain; [|rewrite !take_firstn; reflexivity].
    assert (Hj' : j + 1 <= 287).
    { destruct (N.ltb_spec j 64) as [H64|H64]; [lia|]. apply N.ltb_lt in Eagain. lia. }
    rewrite round_eq. pose proof (round_props pw u k) as Hp.
    destruct (s_round pw u k) as [k' e']. apply IH; [exact Hj'|apply Hp].
Qed.

Lemma loop_some_length pw u : forall fuel j k e h, (32 <= length k)%nat ->
  s_rounds fuel j pw u k e = Some h -> length h = 32%nat.
Proof.
  induction fuel as [|f IH]; intros j k e h Hk; cbn [alg2B_rounds].
  - destruct (if j <? 64 then true else j - 32 <? last e 0); [congruence|].
    intros [= <-]. rewrite firstn_length. lia.
  - destruct (if j <? 64 then true else j - 32 <? last e 0).
    + pose proof (round_props pw u k) as Hp. destruct (s_round pw u k) as [k' e'].
      apply IH. apply Hp.
    + intros [= <-]. rewrite firstn_length. lia.
Qed.

(* the fuel suffices: Algorithm 2.B stops at round 287 at the latest *)
Lemma loop_terminates pw u : forall fuel j k e, j <= 287 -> last e 0 < 256 -> (288 <= fuel + N.to_nat j)%nat ->
  s_rounds fuel j pw u k e <> None.
Proof.
  induction fuel as [|f IH]; intros j k e Hj He Hf; cbn [alg2B_rounds].
  - lia.
  - destruct (if j <? 64 then true else j - 32 <? last e 0) eqn:Eagain; [|congruence].
    assert (Hj' : j + 1 <= 287).
    { destruct (N.ltb_spec j 64) as [H64|H64]; [lia|]. apply N.ltb_lt in Eagain. lia. }
    pose proof (round_props pw u k) as Hp. destruct (s_round pw u k) as [k' e'].
    apply IH; [exact Hj'|apply Hp|lia].
Qed.

Lemma hashRev6_eq input pw u :
  c_hashRev6 sha256 sha384 sha512 aes_cbc_enc input pw u = alg2B sha256 sha384 sha512 aes_cbc_enc input pw u.
Proof. unfold c_hashRev6, alg2B, hash6_fuel. apply loop_eq; cbn; lia. Qed.

Lemma alg2B_total input pw u : alg2B sha256 sha384 sha512 aes_cbc_enc input pw u <> None.
Proof. unfold alg2B. apply loop_terminates; cbn; lia. Qed.

Lemma hash_eq r input pw u : c_hash' r input pw u = s_hash r input pw u.
Proof. unfold c_hash, hash_r. destruct (r =? 6); [apply hashRev6_eq|reflexivity]. Qed.

Lemma hash_length r input pw u h : s_hash r input pw u = Some h -> length h = 32%nat.
Proof.
  unfold hash_r. destruct (r =? 6).
  - unfold alg2B. apply loop_some_length. rewrite Hsha256. lia.
  - intros H. inversion H. apply Hsha256.
Qed.

Lemma hash_total r input pw u : s_hash r input pw u <> None.
Proof. unfold hash_r. destruct (r =? 6); [apply alg2B_total|congruence]. Qed.

Lemma prefix_equal_eq U s : length s = 32%nat -> c_hash_prefix_equal U s = beq s (hash_part U).
Proof.
  intros Hs. unfold c_hash_prefix_equal, c_hash_equal, hash_part, len, take. rewrite Hs.
  change (N.to_nat (N.of_nat 32)) with 32%nat.
  destruct (N.ltb_spec (N.of_nat (length U)) (N.of_nat 32)) as [Hlt|Hge].
  - symmetry. apply beq_length. rewrite firstn_length. lia.
  - apply beq_sym.
Qed.

Lemma salts_eq U : c_validation_salt U = validation_salt_of U /\ c_key_salt U = key_salt_of U.
Proof. split; reflexivity. Qed.

(* Algorithms 11 / 12 as a function with the result type of the code *)
Definition spec_validate_user (r : N) (pw U UE : bytes) : vres * bytes :=
  match alg11 sha256 sha384 sha512 aes_cbc_enc aes_cbc_dec saslprep r pw U UE with
  | None => (VErr, [])
  | Some (true, k) => (VOk, k)
  | Some (false, _) => (VNo, [])
  end.

Definition spec_validate_owner (r : N) (pw O OE U : bytes) : vres * bytes :=
  match alg12 sha256 sha384 sha512 aes_cbc_enc aes_cbc_dec saslprep r pw O OE U with
  | None => (VErr, [])
  | Some (true, k) => (VOk, k)
  | Some (false, _) => (VNo, [])
  end.

Lemma validate_user_aes_eq pw e :
  prep pw = saslprep pw ->
  (eR e = 6 -> length (eUE e) = 32%nat) ->
  c_validate_user_aes sha256 sha384 sha512 aes_cbc_enc aes_cbc_dec prep pw e
  = spec_validate_user (eR e) pw (eU e) (eUE e).
Proof.
  intros Hprep HUE. unfold c_validate_user_aes, spec_validate_user, alg11, prepare_password.
  assert (Hchk : ((eR e =? 6) && negb (len (eUE e) =? 32)) = false).
  { destruct (N.eqb_spec (eR e) 6) as [H6|H6]; [|reflexivity]. cbn [andb]. unfold len. rewrite (HUE H6). reflexivity. }
  rewrite Hchk, Hprep. destruct (saslprep pw) as [p|]; cbn [option_map]; [|reflexivity].
  rewrite trunc127_eq. set (q := firstn 127 p). rewrite !hash_eq.
  destruct (salts_eq (eU e)) as [-> ->].
  destruct (s_hash (eR e) (q ++ validation_salt_of (eU e)) q []) as [s|] eqn:Es; [|reflexivity].
  rewrite (prefix_equal_eq _ _ (hash_length _ _ _ _ _ Es)).
  destruct (beq s (hash_part (eU e))); cbn [negb]; [|reflexivity].
  destruct (s_hash (eR e) (q ++ key_salt_of (eU e)) q []) as [k|]; reflexivity.
Qed.

Lemma validate_owner_aes_eq pw e :
  pw <> [] -> prep pw = saslprep pw ->
  c_validate_owner_aes sha256 sha384 sha512 aes_cbc_enc aes_cbc_dec prep pw e
  = spec_validate_owner (eR e) pw (eO e) (eOE e) (eU e).
Proof.
  intros Hne Hprep. unfold c_validate_owner_aes, spec_validate_owner, alg12, prepare_password.
  assert (Hl : (len pw =? 0) = false).
  { destruct pw as [|x r]; [congruence|]. unfold len. cbn [length]. apply N.eqb_neq. lia. }
  rewrite Hl, Hprep. destruct (saslprep pw) as [p|]; cbn [option_map]; [|reflexivity].
  rewrite trunc127_eq. set (q := firstn 127 p). rewrite !hash_eq.
  destruct (salts_eq (eO e)) as [-> ->].
  destruct (s_hash (eR e) (q ++ validation_salt_of (eO e) ++ eU e) q (eU e)) as [s|] eqn:Es; [|reflexivity].
  rewrite (prefix_equal_eq _ _ (hash_length _ _ _ _ _ Es)).
  destruct (beq s (hash_part (eO e))); cbn [negb]; [|reflexivity].
  destruct (s_hash (eR e) (q ++ key_salt_of (eO e) ++ eU e) q (eU e)) as [k|]; reflexivity.
Qed.

Definition spec_calc (r : N) (upw opw vsu ksu vso kso fk : bytes) : option (bytes * bytes * bytes * bytes) :=
  match alg8 sha256 sha384 sha512 aes_cbc_enc saslprep r upw vsu ksu fk with
  | None => None
  | Some (u_entry, ue_entry) =>
    match alg9 sha256 sha384 sha512 aes_cbc_enc saslprep r opw vso kso u_entry fk with
    | None => None
    | Some (o_entry, oe_entry) => Some (u_entry, o_entry, ue_entry, oe_entry)
    end
  end.

Lemma salt_split vs ks : length vs = 8%nat -> length ks = 8%nat ->
  c_validation_salt (zeros 32 ++ vs ++ ks) = vs /\ c_key_salt (zeros 32 ++ vs ++ ks) = ks.
Proof.
  intros Hv Hk. unfold c_validation_salt, c_key_salt, take, drop.
  change (N.to_nat 8) with 8%nat. change (N.to_nat 32) with 32%nat. change (N.to_nat 40) with 40%nat.
  assert (Hz : length (zeros 32) = 32%nat) by reflexivity.
  split.
  - rewrite skipn_app, Hz. replace (32 - 32)%nat with 0%nat by lia.
    rewrite (skipn_all2 (n:=32) (zeros 32)) by (rewrite Hz; lia). rewrite skipn_O. cbn [app].
    rewrite firstn_app, Hv. replace (8 - 8)%nat with 0%nat by lia. rewrite firstn_O, app_nil_r.
    apply firstn_all2. lia.
  - rewrite skipn_app, Hz. replace (40 - 32)%nat with 8%nat by lia.
    rewrite (skipn_all2 (n:=40) (zeros 32)) by (rewrite Hz; lia). cbn [app].
    rewrite skipn_app, Hv. replace (8 - 8)%nat with 0%nat by lia.
    rewrite (skipn_all2 (n:=8) vs) by lia. rewrite skipn_O. cbn [app]. apply firstn_all2. lia.
Qed.

Lemma calc_eq r upw opw vsu ksu vso kso fk :
  prep upw = saslprep upw -> prep opw = saslprep opw ->
  length vsu = 8%nat -> length ksu = 8%nat -> length vso = 8%nat -> length kso = 8%nat ->
  c_calc_ou_aes sha256 sha384 sha512 aes_cbc_enc prep r upw opw (vsu ++ ksu) (vso ++ kso) fk
  = spec_calc r upw opw vsu ksu vso kso fk.
Proof.
  intros Hu Ho H1 H2 H3 H4.
  unfold c_calc_ou_aes, c_prepared_password, spec_calc, alg8, alg9, prepare_password.
  rewrite Hu, Ho.
  destruct (salt_split vsu ksu H1 H2) as [-> ->]. destruct (salt_split vso kso H3 H4) as [-> ->].
  destruct (saslprep upw) as [pu|]; cbn [option_map]; [|reflexivity].
  rewrite trunc127_eq. set (qu := firstn 127 pu).
  rewrite hash_eq. destruct (s_hash r (qu ++ vsu) qu []) as [hu|]; [|reflexivity].
  cbn beta iota.
  destruct (saslprep opw) as [po|]; cbn [option_map].
  2:{ destruct (s_hash r (qu ++ ksu) qu []) as [ku|]; reflexivity. }
  rewrite trunc127_eq. set (qo := firstn 127 po).
  rewrite <- !app_assoc. rewrite hash_eq.
  (* the code computes the hash of O before the key of UE: case analysis in the order of the code *)
  destruct (s_hash r (qo ++ vso ++ hu ++ vsu ++ ksu) qo (hu ++ vsu ++ ksu)) as [ho|] eqn:Eo.
  - rewrite hash_eq. destruct (s_hash r (qu ++ ksu) qu []) as [ku|] eqn:Ek; [|reflexivity].
    cbn beta iota. rewrite <- ?app_assoc. rewrite hash_eq, ?Eo.
    destruct (s_hash r (qo ++ kso ++ hu ++ vsu ++ ksu) qo (hu ++ vsu ++ ksu)) as [ko|] eqn:Eko;
      cbn beta iota; rewrite ?Eo, ?Eko; reflexivity.
  - destruct (s_hash r (qu ++ ksu) qu []) as [ku|] eqn:Ek; [|reflexivity].
    cbn beta iota. rewrite ?Eo. reflexivity.
Qed.

(* ---- Perms ---- *)
Definition p_in_range (p : Z) : Prop := (-2147483648 <= p <= 2147483647)%Z.

Lemma permission_bytes_eq p : p_in_range p -> c_permission_bytes p = Some (p_low_order_first p).
Proof.
  intros [H1 H2]. unfold c_permission_bytes.
  rewrite (proj2 (Z.leb_le _ _) H1), (proj2 (Z.leb_le _ _) H2). cbn [andb]. rewrite p_bytes_eq. reflexivity.
Qed.

Lemma write_perms_eq p emd fk : p_in_range p ->
  c_write_perms aes_ecb_enc p emd fk = Some (alg10 aes_ecb_enc p emd (zeros 4) fk).
Proof.
  intros Hp. unfold c_write_perms, c_perms_block, alg10. rewrite (permission_bytes_eq _ Hp). cbn [option_map].
  unfold p_low_order_first. reflexivity.
Qed.

Lemma validate_perms_eq e fk : p_in_range (eP e) ->
  (c_validate_perms aes_ecb_dec e fk = VOk <-> alg13 aes_ecb_dec (ePerms e) fk (eP e) (eEmd e) = true)
  /\ c_validate_perms aes_ecb_dec e fk <> VErr.
Proof.
  intros Hp. unfold c_validate_perms, alg13. rewrite (permission_bytes_eq _ Hp).
  set (d := aes_ecb_dec fk (ePerms e)).
  rewrite !take_firstn, !drop_skipn. change (N.to_nat 3) with 3%nat. change (N.to_nat 9) with 9%nat.
  change (N.to_nat 4) with 4%nat. unfold nthN. change (N.to_nat 8) with 8%nat.
  unfold p_low_order_first.
  set (b4 := beq (firstn 4 d) _). set (adb := beq (firstn 3 (skipn 9 d)) [97; 100; 98]).
  destruct (eEmd e); cbn [Bool.eqb];
  destruct (N.eqb_spec (nth 8 d 0) 84) as [E84|E84]; destruct (N.eqb_spec (nth 8 d 0) 70) as [E70|E70];
    try (exfalso; rewrite E84 in E70; discriminate);
    destruct adb, b4; cbn; intuition congruence.
Qed.

End AES.

(* ---- packaging for Property.v ---- *)
(* the lemmas of the section are generalised over all its variables; the ones a lemma does not mention are arbitrary *)
Ltac section_args := first [eassumption | exact (fun _ _ x => x) | exact (fun _ x => x) | exact (fun _ => None)].

Definition prims_ok (sha256 sha384 sha512 : bytes -> bytes) (aes_cbc_enc : bytes -> bytes -> bytes -> bytes) : Prop :=
  (forall x, length (sha256 x) = 32%nat) /\ (forall x, length (sha384 x) = 48%nat) /\
  (forall x, length (sha512 x) = 64%nat) /\ (forall k iv d, Forall (fun b => b < 256) (aes_cbc_enc k iv d)).

(* ---- witnesses: toy primitives that satisfy prims_ok (they are NOT SHA-2/AES; they only show that the
   hypotheses of the _partial theorems cannot be dropped, whatever the primitives are) ---- *)
Definition toy_hash (n : nat) (x : bytes) : bytes := firstn n (x ++ repeat 0 n) ++ [N.of_nat (length x) mod 256].
Definition toy_cbc (k iv d : bytes) : bytes := map (fun b => b mod 256) d.

Lemma toy_hash_length n x : length (toy_hash n x) = S n.
Proof.
  unfold toy_hash. rewrite app_length, firstn_length, app_length, repeat_length. cbn [length]. lia.
Qed.

Lemma toy_prims_ok : prims_ok (toy_hash 31) (toy_hash 47) (toy_hash 63) toy_cbc.
Proof.
  repeat split; try (intros x; apply toy_hash_length).
  intros k iv d. unfold toy_cbc. apply Forall_forall. intros b Hb. apply in_map_iff in Hb.
  destruct Hb as [a [<- _]]. apply N.mod_lt. lia.
Qed.

Definition salt_a : bytes := [1; 2; 3; 4; 5; 6; 7; 8].
Definition salt_b : bytes := [9; 10; 11; 12; 13; 14; 15; 16].

(* the writer: a password SASLprep accepts unchanged, a preparation that rejects it (as the PRECIS identifier profile
   behind processInput rejects the space): nothing is written where Algorithm 8 defines U and UE *)
Lemma calc_prep_witness :
  let saslprep := fun x : bytes => Some x in
  let prep := fun x : bytes => if existsb (N.eqb 32) x then None else Some x in
  let pw := [109; 121; 32; 112; 97; 115; 115] in
  c_calc_ou_aes (toy_hash 31) (toy_hash 47) (toy_hash 63) toy_cbc prep 5 pw [111] (salt_a ++ salt_b) (salt_a ++ salt_b) (repeat 7 32) = None /\
  spec_calc (toy_hash 31) (toy_hash 47) (toy_hash 63) toy_cbc saslprep 5 pw [111] salt_a salt_b salt_a salt_b (repeat 7 32) <> None.
Proof. vm_compute. split; [reflexivity|discriminate]. Qed.

(* positive: a 130-byte password and one the preparation rewrites are written as Algorithm 8 prescribes and then accepted *)
Lemma calc_long_witness :
  let prep := fun x : bytes => Some (map (fun b => if b =? 170 then 97 else b) x) in
  forall pw, pw = repeat 120 130 \/ pw = [170; 98] ->
  match c_calc_ou_aes (toy_hash 31) (toy_hash 47) (toy_hash 63) toy_cbc prep 5 pw [111] (salt_a ++ salt_b) (salt_a ++ salt_b) (repeat 7 32) with
  | Some (u, o, ue, oe) =>
    fst (c_validate_user_aes (toy_hash 31) (toy_hash 47) (toy_hash 63) toy_cbc toy_cbc prep pw
           (mkEnc o u oe ue [] 256 0%Z 5 true [])) = VOk
  | None => False
  end.
Proof. intros prep pw [-> | ->]; vm_compute; reflexivity. Qed.

(* the reader: a password SASLprep accepts unchanged, a preparation that rejects it *)
Definition toy_enc_user (pw : bytes) : enc :=
  mkEnc [] (toy_hash 31 (pw ++ salt_a) ++ salt_a ++ salt_b) [] (repeat 0 32) [] 256 0%Z 5 true [].

Lemma prep_witness :
  let saslprep := fun x : bytes => Some x in
  let prep := fun x : bytes => if existsb (N.eqb 32) x then None else Some x in
  let pw := [109; 121; 32; 112; 97; 115; 115] in
  saslprep pw = Some pw /\
  fst (spec_validate_user (toy_hash 31) (toy_hash 47) (toy_hash 63) toy_cbc toy_cbc saslprep 5 pw (eU (toy_enc_user pw)) (eUE (toy_enc_user pw))) = VOk /\
  fst (c_validate_user_aes (toy_hash 31) (toy_hash 47) (toy_hash 63) toy_cbc toy_cbc prep pw (toy_enc_user pw)) = VErr.
Proof. vm_compute. repeat split. Qed.

(* the reader: the empty owner password of a document whose owner password is empty *)
Definition toy_enc_owner_empty : enc :=
  let U := repeat 1 48 in
  mkEnc (toy_hash 31 ([] ++ salt_a ++ U) ++ salt_a ++ salt_b) U (repeat 0 32) [] [] 256 0%Z 5 true [].

Lemma empty_owner_witness :
  let saslprep := fun x : bytes => Some x in
  fst (spec_validate_owner (toy_hash 31) (toy_hash 47) (toy_hash 63) toy_cbc toy_cbc saslprep 5 []
         (eO toy_enc_owner_empty) (eOE toy_enc_owner_empty) (eU toy_enc_owner_empty)) = VOk /\
  fst (c_validate_owner_aes (toy_hash 31) (toy_hash 47) (toy_hash 63) toy_cbc toy_cbc saslprep [] toy_enc_owner_empty) = VNo.
Proof. vm_compute. split; reflexivity. Qed.

(* ---- the password bytes of revisions 5/6: prepare first, then truncate the PREPARED string to 127 bytes ---- *)

Lemma prepared_password_eq prep pw : c_prepared_password prep pw = option_map (firstn 127) (prep pw).
Proof. unfold c_prepared_password. destruct (prep pw) as [p|]; cbn; [rewrite trunc127_eq|]; reflexivity. Qed.

(* the validation functions look at the password only through these bytes (the owner one also at its being empty) *)
Lemma validate_user_aes_bytes sha256 sha384 sha512 cbc_enc cbc_dec prep pw1 pw2 e :
  c_prepared_password prep pw1 = c_prepared_password prep pw2 ->
  c_validate_user_aes sha256 sha384 sha512 cbc_enc cbc_dec prep pw1 e
  = c_validate_user_aes sha256 sha384 sha512 cbc_enc cbc_dec prep pw2 e.
Proof.
  unfold c_prepared_password, c_validate_user_aes. intros H.
  destruct (prep pw1) as [p1|], (prep pw2) as [p2|]; cbn in H; try congruence.
  injection H as H. rewrite H. reflexivity.
Qed.

Lemma validate_owner_aes_bytes sha256 sha384 sha512 cbc_enc cbc_dec prep pw1 pw2 e :
  pw1 <> [] -> pw2 <> [] ->
  c_prepared_password prep pw1 = c_prepared_password prep pw2 ->
  c_validate_owner_aes sha256 sha384 sha512 cbc_enc cbc_dec prep pw1 e
  = c_validate_owner_aes sha256 sha384 sha512 cbc_enc cbc_dec prep pw2 e.
Proof.
  unfold c_prepared_password, c_validate_owner_aes. intros H1 H2 H.
  assert (L1 : (len pw1 =? 0) = false) by (destruct pw1; [congruence|reflexivity]).
  assert (L2 : (len pw2 =? 0) = false) by (destruct pw2; [congruence|reflexivity]).
  rewrite L1, L2.
  destruct (prep pw1) as [p1|], (prep pw2) as [p2|]; cbn in H; try congruence.
  injection H as H. rewrite H. reflexivity.
Qed.

(* a toy normalisation that shortens: every pair 1,2 becomes 3 (as e + U+0301 becomes e-acute) *)
Fixpoint toy_norm (l : bytes) : bytes :=
  match l with
  | 1 :: 2 :: r => 3 :: toy_norm r
  | x :: r => x :: toy_norm r
  | [] => []
  end.

Definition toy_long : bytes := 9 :: concat (repeat [1; 2] 64).     (* 129 bytes, 65 after normalisation; cut at 127: 64 *)

(* preparing and then truncating is not truncating and then preparing *)
Lemma order_witness :
  let prep := fun x => Some (toy_norm x) in
  option_map (firstn 127) (prep toy_long) <> prep (firstn 127 toy_long).
Proof. vm_compute. intros H. discriminate H. Qed.

(* ... and the two orders decide differently: the document of password toy_long accepts toy_long under the code model,
   and rejects it under a model that cuts the raw input to 127 bytes before the preparation *)
Definition toy_enc_long : enc :=
  mkEnc [] (toy_hash 31 (toy_norm toy_long ++ salt_a) ++ salt_a ++ salt_b) [] (repeat 0 32) [] 256 0%Z 5 true [].

Lemma order_decision_witness :
  let prep := fun x => Some (toy_norm x) in
  let prep_cut_first := fun x => prep (firstn 127 x) in
  fst (c_validate_user_aes (toy_hash 31) (toy_hash 47) (toy_hash 63) toy_cbc toy_cbc prep toy_long toy_enc_long) = VOk /\
  fst (c_validate_user_aes (toy_hash 31) (toy_hash 47) (toy_hash 63) toy_cbc toy_cbc prep_cut_first toy_long toy_enc_long) = VNo.
Proof. vm_compute. split; reflexivity. Qed.
