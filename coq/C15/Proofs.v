(* C15 — lemmas: stream filters round-trip. *)
From Coq Require Import ZArith NArith List Bool Lia ZifyBool ZifyNat ZifyN.
From PV Require Import C16.Model C16.Proofs C15.Model.
Import ListNotations.
Open Scope Z_scope.

Lemma bytes_app : forall a b, bytes a -> bytes b -> bytes (a ++ b).
Proof. intros a b Ha Hb. unfold bytes in *. apply Forall_app. split; assumption. Qed.

Lemma In_firstn : forall (n : nat) (l : list N) x, In x (firstn n l) -> In x l.
Proof.
  induction n as [|n IH]; intros l x H; [destruct H|].
  destruct l as [|y l]; [exact H|]. destruct H as [H|H]; [left; exact H|right; apply IH; exact H].
Qed.

Lemma bytes_firstn : forall n l, bytes l -> bytes (firstn n l).
Proof.
  intros n l H. unfold bytes in *. rewrite Forall_forall in *. intros x Hx. apply H.
  eapply In_firstn. exact Hx.
Qed.

Lemma In_skipn : forall (n : nat) (l : list N) x, In x (skipn n l) -> In x l.
Proof.
  induction n as [|n IH]; intros l x H; [exact H|].
  destruct l as [|y l]; [exact H|]. right. apply IH. exact H.
Qed.

Lemma bytes_skipn : forall n l, bytes l -> bytes (skipn n l).
Proof.
  intros n l H. unfold bytes in *. rewrite Forall_forall in *. intros x Hx. apply H.
  eapply In_skipn. exact Hx.
Qed.

(* ------------------------------------------------------------------ RunLength: decoder on blocks *)

Lemma rl_dec_literal : forall lit rest w,
  rl_dec (lit ++ rest) (length lit) w (-1) (-1) = dapp lit (rl_dec rest O (w + len lit) (-1) (-1)).
Proof.
  induction lit as [|b lit IH]; intros rest w.
  - simpl app. simpl length. rewrite len_nil. rewrite Z.add_0_r.
    destruct (rl_dec rest 0 w (-1) (-1)); reflexivity.
  - simpl app. simpl length. cbn [rl_dec].
    change (0 <=? -1) with false. simpl andb. cbv iota.
    rewrite IH. rewrite len_cons. replace (w + 1 + len lit) with (w + (1 + len lit)) by lia.
    destruct (rl_dec rest 0 (w + (1 + len lit)) (-1) (-1)); reflexivity.
Qed.

Lemma rl_dec_literal_block : forall lit rest w,
  (1 <= length lit <= 128)%nat ->
  rl_dec (N.of_nat (length lit - 1) :: lit ++ rest) O w (-1) (-1) = dapp lit (rl_dec rest O (w + len lit) (-1) (-1)).
Proof.
  intros lit rest w Hc. cbn [rl_dec].
  destruct (N.of_nat (length lit - 1) =? 128)%N eqn:E1; [lia|].
  destruct (N.of_nat (length lit - 1) <? 128)%N eqn:E2; [|lia].
  replace (S (N.to_nat (N.of_nat (length lit - 1)))) with (length lit) by lia.
  destruct (length (lit ++ rest) <? length lit)%nat eqn:E3.
  { rewrite app_length in E3. lia. }
  apply rl_dec_literal.
Qed.

Lemma rl_dec_run_block : forall c x rest w,
  (2 <= c <= 128)%nat ->
  rl_dec (N.of_nat (257 - c) :: x :: rest) O w (-1) (-1) = dapp (repeat x c) (rl_dec rest O (w + Z.of_nat c) (-1) (-1)).
Proof.
  intros c x rest w Hc. cbn [rl_dec].
  destruct (N.of_nat (257 - c) =? 128)%N eqn:E1; [lia|].
  destruct (N.of_nat (257 - c) <? 128)%N eqn:E2; [lia|].
  replace (257 - N.to_nat (N.of_nat (257 - c)))%nat with c by lia.
  rewrite rl_rep_unlimited. rewrite len_repeat. reflexivity.
Qed.

Lemma rl_dec_eod : forall rest w, rl_dec (128%N :: rest) O w (-1) (-1) = DOk [].
Proof. reflexivity. Qed.

(* ------------------------------------------------------------------ RunLength: run detection *)

Lemma detect_spec : forall b l cnt, (cnt <= 128)%nat ->
  (cnt <= detect b l cnt <= 128)%nat /\ (detect b l cnt - cnt <= length l)%nat /\
  firstn (detect b l cnt - cnt) l = repeat b (detect b l cnt - cnt).
Proof.
  intros b. induction l as [|x r IH]; intros cnt Hc.
  - simpl. replace (cnt - cnt)%nat with 0%nat by lia. repeat split; lia.
  - cbn [detect]. destruct ((x =? b)%N && (cnt <? 128)%nat) eqn:E.
    + destruct (IH (S cnt)) as [H1 [H2 H3]]; [lia|].
      split; [lia|]. split; [simpl length; lia|].
      replace (detect b r (S cnt) - cnt)%nat with (S (detect b r (S cnt) - S cnt)) by lia.
      cbn [firstn repeat]. rewrite H3. f_equal. lia.
    + replace (cnt - cnt)%nat with 0%nat by lia. repeat split; simpl; lia.
Qed.

Lemma varscan_spec : forall l b cnt, (cnt <= 128)%nat ->
  (cnt <= varscan b l cnt <= 128)%nat /\ (varscan b l cnt - cnt <= length l)%nat.
Proof.
  induction l as [|x r IH]; intros b cnt Hc.
  - simpl. lia.
  - cbn [varscan]. destruct (negb (x =? b)%N && (cnt <? 128)%nat) eqn:E.
    + destruct (IH x (S cnt)) as [H1 H2]; [lia|]. simpl length. lia.
    + simpl length. lia.
Qed.

Lemma dapp_DOk : forall a b, dapp a (DOk b) = DOk (a ++ b).
Proof. reflexivity. Qed.

(* ------------------------------------------------------------------ RunLength: the encoder loop *)

Lemma rl_enc_loop_roundtrip : forall fuel l,
  l <> [] -> (length l <= fuel)%nat ->
  exists e, rl_enc_loop fuel l = Some e /\ (bytes l -> bytes e) /\ forall w, rl_dec e O w (-1) (-1) = DOk l.
Proof.
  induction fuel as [|fuel IH]; intros l Hne Hf.
  - destruct l; [congruence|simpl in Hf; lia].
  - destruct l as [|b tl_l]; [congruence|]. cbn [rl_enc_loop].
    set (l := b :: tl_l) in *.
    destruct (detect_spec b l 0) as [Hd1 [Hd2 Hd3]]; [lia|].
    rewrite Nat.sub_0_r in Hd2, Hd3.
    set (c := detect b l 0) in *.
    assert (Hc1 : (1 <= c)%nat).
    { subst c l. cbn [detect]. rewrite N.eqb_refl. change (0 <? 128)%nat with true. simpl andb. cbv iota.
      destruct (detect_spec b tl_l 1) as [H _]; lia. }
    (* what to do with the remainder of the input, common to all branches *)
    assert (Hrest : forall blk lit n, (1 <= n <= length l)%nat -> lit = firstn n l ->
              (bytes l -> bytes blk) ->
              (forall rest w, rl_dec (blk ++ rest) O w (-1) (-1) = dapp lit (rl_dec rest O (w + len lit) (-1) (-1))) ->
              exists e,
                match skipn n l with
                | [] => Some (blk ++ [128%N])
                | y :: r => option_map (app blk) (rl_enc_loop fuel (y :: r))
                end = Some e /\ (bytes l -> bytes e) /\ forall w, rl_dec e O w (-1) (-1) = DOk l).
    { intros blk lit n Hn Hlit Hb Hdec.
      destruct (skipn n l) as [|y rest'] eqn:Es.
      - exists (blk ++ [128%N]). split; [reflexivity|]. split.
        + intros Hl. apply bytes_app; [auto|]. repeat constructor.
        + intros w. rewrite Hdec. rewrite rl_dec_eod. rewrite dapp_DOk. f_equal.
          rewrite <- (firstn_skipn n l). rewrite Es. subst lit. reflexivity.
      - destruct (IH (y :: rest')) as [e' [He' [Hbe' Hd']]]; [discriminate| |].
        { rewrite <- Es. rewrite skipn_length. subst l. simpl length in *. lia. }
        exists (blk ++ e'). rewrite He'. split; [reflexivity|]. split.
        + intros Hl. apply bytes_app; [auto|]. apply Hbe'. rewrite <- Es. apply bytes_skipn. exact Hl.
        + intros w. rewrite Hdec. rewrite Hd'. rewrite dapp_DOk. f_equal.
          rewrite <- (firstn_skipn n l). rewrite Es. subst lit. reflexivity. }
    destruct (1 <? c)%nat eqn:Ec.
    + (* constant run *)
      apply (Hrest [N.of_nat (257 - c); b] (firstn c l) c); [lia|reflexivity| |].
      * intros Hl. constructor; [lia|]. constructor; [|constructor]. inversion Hl; assumption.
      * intros rest w. rewrite Hd3. change ([N.of_nat (257 - c); b] ++ rest) with (N.of_nat (257 - c) :: b :: rest). rewrite rl_dec_run_block by lia. rewrite len_repeat. reflexivity.
    + (* variable run *)
      assert (c = 1%nat) by lia.
      destruct (varscan_spec tl_l b 1) as [Hv1 Hv2]; [lia|].
      set (k := varscan b tl_l 1) in *.
      assert (Hkl : (k <= length l)%nat) by (subst l; simpl length; lia).
      destruct ((k =? length l)%nat || (k =? 128)%nat) eqn:Ek.
      * apply (Hrest (N.of_nat (k - 1) :: firstn k l) (firstn k l) k); [lia|reflexivity| |].
        -- intros Hl. constructor; [lia|]. apply bytes_firstn. exact Hl.
        -- intros rest w. rewrite <- app_comm_cons.
           assert (Hlen : length (firstn k l) = k) by (rewrite firstn_length; lia).
           rewrite <- Hlen at 1. apply rl_dec_literal_block. lia.
      * (* two equal bytes found: the literal run ends before them *)
        assert (Hk2 : (2 <= k)%nat).
        { destruct tl_l as [|x r].
          - subst k l. simpl in *. lia.
          - assert (Hxb : (x =? b)%N = false).
            { destruct (x =? b)%N eqn:Exb; [|reflexivity]. exfalso.
              subst c l. cbn [detect] in H. rewrite N.eqb_refl in H. change (0 <? 128)%nat with true in H.
              simpl andb in H. cbv iota in H.
              rewrite Exb in H. change (1 <? 128)%nat with true in H. simpl andb in H. cbv iota in H.
              destruct (detect_spec b r 2) as [Hq _]; lia. }
            subst k. cbn [varscan]. rewrite Hxb. change (1 <? 128)%nat with true. simpl negb. simpl andb. cbv iota. destruct (varscan_spec r x 2) as [Hq _]; lia. }
        assert (Hsk : skipn (k - 1) l <> []).
        { intros Hnil. apply (f_equal (@length N)) in Hnil. rewrite skipn_length in Hnil. change (length (@nil N)) with 0%nat in Hnil. lia. }
        destruct (Hrest (N.of_nat (k - 2) :: firstn (k - 1) l) (firstn (k - 1) l) (k - 1)%nat) as [e [He Hrt]];
          [lia|reflexivity| | |].
        -- intros Hl. constructor; [lia|]. apply bytes_firstn. exact Hl.
        -- intros rest w. rewrite <- app_comm_cons.
           assert (Hlen : length (firstn (k - 1) l) = (k - 1)%nat) by (rewrite firstn_length; lia).
           replace (k - 2)%nat with (length (firstn (k - 1) l) - 1)%nat by lia.
           apply rl_dec_literal_block. lia.
        -- exists e. split; [|exact Hrt].
           destruct (skipn (k - 1) l) as [|y r] eqn:Es; [congruence|]. exact He.
Qed.

Lemma rl_roundtrip : forall x,
  exists e, rl_encode x = Some e /\ (bytes x -> bytes e) /\ rl_decode_length e (-1) (-1) = DOk x.
Proof.
  intros x. unfold rl_encode, rl_decode_length. rewrite decode_limit_unlimited.
  destruct x as [|b r].
  - exists [128%N]. split; [reflexivity|]. split; [intros _; repeat constructor|reflexivity].
  - destruct (rl_enc_loop_roundtrip (length (b :: r)) (b :: r)) as [e [He [Hb Hd]]]; [discriminate|lia|].
    exists e. split; [exact He|]. split; [exact Hb|apply Hd].
Qed.

(* ------------------------------------------------------------------ ASCIIHex *)

Lemma nibble_cases : forall d, (d < 16)%N ->
  d = 0%N \/ d = 1%N \/ d = 2%N \/ d = 3%N \/ d = 4%N \/ d = 5%N \/ d = 6%N \/ d = 7%N \/
  d = 8%N \/ d = 9%N \/ d = 10%N \/ d = 11%N \/ d = 12%N \/ d = 13%N \/ d = 14%N \/ d = 15%N.
Proof. intros d H. lia. Qed.

Lemma hexdigit_facts : forall d, (d < 16)%N ->
  hexval (hexdigit d) = Some d /\ (hexdigit d =? 62)%N = false /\ is_ws (hexdigit d) = false /\ (hexdigit d < 256)%N.
Proof.
  intros d H. destruct (nibble_cases d H) as [E|[E|[E|[E|[E|[E|[E|[E|[E|[E|[E|[E|[E|[E|[E|E]]]]]]]]]]]]]]];
    subst d; vm_compute; repeat split; reflexivity.
Qed.

Lemma ahx_strip_encode : forall x rest, bytes x ->
  ahx_strip (hex_encode x ++ 62%N :: rest) = hex_encode x.
Proof.
  induction x as [|b r IH]; intros rest Hb.
  - reflexivity.
  - inversion Hb as [|b' r' Hlt Hr]; subst.
    destruct (hexdigit_facts (b / 16)) as [_ [H1 [H2 _]]].
    { apply N.div_lt_upper_bound; lia. }
    destruct (hexdigit_facts (b mod 16)) as [_ [H3 [H4 _]]].
    { apply N.mod_lt. lia. }
    cbn [hex_encode app ahx_strip]. rewrite H1, H2, H3, H4. rewrite IH by exact Hr. reflexivity.
Qed.

Lemma hex_decode_encode : forall x, bytes x -> hex_decode (hex_encode x) = Some x.
Proof.
  induction x as [|b r IH]; intros Hb.
  - reflexivity.
  - inversion Hb as [|b' r' Hlt Hr]; subst.
    destruct (hexdigit_facts (b / 16)) as [H1 _].
    { apply N.div_lt_upper_bound; lia. }
    destruct (hexdigit_facts (b mod 16)) as [H2 _].
    { apply N.mod_lt. lia. }
    cbn [hex_encode hex_decode]. rewrite H1, H2. rewrite IH by exact Hr.
    f_equal. f_equal. rewrite N.mul_comm. symmetry. apply N.div_mod. lia.
Qed.

Lemma hex_encode_length : forall x, length (hex_encode x) = (2 * length x)%nat.
Proof. induction x as [|b r IH]; [reflexivity|]. cbn [hex_encode length]. rewrite IH. lia. Qed.

Lemma hex_encode_bytes : forall x, bytes x -> bytes (hex_encode x).
Proof.
  induction x as [|b r IH]; intros Hb; [constructor|].
  inversion Hb as [|b' r' Hlt Hr]; subst.
  destruct (hexdigit_facts (b / 16)) as [_ [_ [_ H1]]].
  { apply N.div_lt_upper_bound; lia. }
  destruct (hexdigit_facts (b mod 16)) as [_ [_ [_ H2]]].
  { apply N.mod_lt. lia. }
  cbn [hex_encode]. constructor; [exact H1|]. constructor; [exact H2|]. apply IH. exact Hr.
Qed.

Lemma ahx_roundtrip : forall x, bytes x ->
  bytes (ahx_encode x) /\ ahx_decode_length (ahx_encode x) (-1) (-1) = DOk x.
Proof.
  intros x Hb. split.
  - unfold ahx_encode. apply bytes_app; [apply hex_encode_bytes; exact Hb|]. repeat constructor.
  - rewrite ahx_unfold. unfold ahx_p, ahx_encode. rewrite ahx_strip_encode by exact Hb.
    assert (Hlen : len (hex_encode x) = 2 * len x).
    { unfold len. rewrite hex_encode_length. lia. }
    rewrite Hlen. replace (Z.odd (2 * len x)) with false.
    2:{ symmetry. rewrite Z.odd_mul. reflexivity. }
    cbv zeta. change (-1 <? 0) with true. cbv iota. rewrite decode_limit_unlimited.
    change (0 <=? -1) with false. simpl andb. cbv iota.
    rewrite Hlen. replace (2 * len x / 2) with (len x).
    2:{ rewrite Z.mul_comm. rewrite Z.div_mul; lia. }
    rewrite (ahx_finish_take _ _ _ (hex_decode_encode x Hb) (len_nonneg x)).
    rewrite take_all by lia. reflexivity.
Qed.

Lemma stage_rt_ahx : stage_rt ahx_stage.
Proof.
  intros x Hb. exists (ahx_encode x). destruct (ahx_roundtrip x Hb) as [H1 H2].
  split; [reflexivity|]. split; assumption.
Qed.

Lemma stage_rt_rl : stage_rt rl_stage.
Proof.
  intros x Hb. destruct (rl_roundtrip x) as [e [He [Hbe Hd]]].
  exists e. split; [exact He|]. split; [apply Hbe; exact Hb|exact Hd].
Qed.

(* ------------------------------------------------------------------ external codecs *)

(* LZW with a predictor > 1: Decode always fails, so nothing round-trips *)
Lemma lzw_predictor_rejected : forall lzwopen pm p bb maxLen mdb, p_pred pm = Some p -> 1 < p ->
  lzw_decode_length lzwopen pm bb maxLen mdb = DErr EOther.
Proof.
  intros lzwopen pm p bb maxLen mdb Hp Hgt. unfold lzw_decode_length. rewrite Hp.
  destruct (1 <? p) eqn:E; [reflexivity|lia].
Qed.

Section Codecs.
(* Go encoding/ascii85 *)
Variable a85enc : list N -> list N.
Variable a85open : list N -> rstream.
Hypothesis a85_codec : forall x, bytes x -> bytes (a85enc x) /\ a85open (a85enc x) = (x, REof).
(* internal/filter/lzw, per EarlyChange setting *)
Variable lzwenc : bool -> list N -> list N.
Variable lzwopen : bool -> list N -> rstream.
Hypothesis lzw_codec : forall ec x, bytes x -> bytes (lzwenc ec x) /\ lzwopen ec (lzwenc ec x) = (x, REof).
(* compress/zlib *)
Variable zenc : list N -> list N.
Variable zopen : list N -> option rstream.
Hypothesis zlib_codec : forall x, bytes x -> bytes (zenc x) /\ zopen (zenc x) = Some (x, REof).

Lemma rev_trim_eod : forall body, trim_right_crlf (body ++ [126%N; 62%N]) = body ++ [126%N; 62%N].
Proof.
  intros body. unfold trim_right_crlf. rewrite rev_app_distr. cbn [rev app drop_crlf].
  change (is_crlf 62%N) with false. cbv iota. change (62%N :: 126%N :: rev body) with (rev [126%N; 62%N] ++ rev body).
  rewrite <- rev_app_distr. apply rev_involutive.
Qed.

Lemma a85_roundtrip : forall x, bytes x ->
  bytes (a85_encode a85enc x) /\ a85_decode_length a85open (a85_encode a85enc x) (-1) (-1) = DOk x.
Proof.
  intros x Hb. destruct (a85_codec x Hb) as [H1 H2]. split.
  - unfold a85_encode. apply bytes_app; [exact H1|]. repeat constructor.
  - unfold a85_decode_length, a85_encode. rewrite rev_trim_eod. rewrite rev_app_distr. cbn [rev app].
    change ((62 =? 62)%N && (126 =? 126)%N) with true. cbv iota.
    rewrite rev_involutive. rewrite H2. reflexivity.
Qed.

Lemma lzw_roundtrip : forall pm x, bytes x -> no_predictor pm ->
  bytes (lzw_encode lzwenc pm x) /\ lzw_decode_length lzwopen pm (lzw_encode lzwenc pm x) (-1) (-1) = DOk x.
Proof.
  intros pm x Hb Hp. destruct (lzw_codec (lzw_early pm) x Hb) as [H1 H2]. split; [exact H1|].
  unfold lzw_decode_length, lzw_encode. destruct Hp as [Hp|Hp]; rewrite Hp.
  - rewrite H2. reflexivity.
  - change (1 <? 1) with false. cbv iota. rewrite H2. reflexivity.
Qed.

Lemma flate_roundtrip : forall pm x, bytes x -> no_predictor pm ->
  bytes (flate_encode zenc pm x) /\ flate_decode_length zopen pm (flate_encode zenc pm x) (-1) (-1) = DOk x.
Proof.
  intros pm x Hb Hp. destruct (zlib_codec x Hb) as [H1 H2]. split; [exact H1|].
  unfold flate_decode_length, flate_encode. rewrite H2. unfold flate_post, flate_post_with.
  destruct Hp as [Hp|Hp]; rewrite Hp.
  - reflexivity.
  - change (1 =? 1) with true. reflexivity.
Qed.

(* Flate with a predictor: Encode ignores the predictor, Decode applies it *)
Lemma flate_predictor_refuted : exists pm x, bytes x /\
  flate_decode_length zopen pm (flate_encode zenc pm x) (-1) (-1) <> DOk x.
Proof.
  exists (Build_parms (Some 12) None None (Some 1) None), [1%N; 2%N].
  assert (Hb : bytes [1%N; 2%N]) by (repeat constructor).
  split; [exact Hb|].
  destruct (zlib_codec _ Hb) as [_ H2].
  unfold flate_decode_length, flate_encode. rewrite H2. vm_compute. discriminate.
Qed.

Lemma stage_rt_a85 : stage_rt (a85_stage a85enc a85open).
Proof.
  intros x Hb. exists (a85_encode a85enc x). destruct (a85_roundtrip x Hb) as [H1 H2].
  split; [reflexivity|]. split; assumption.
Qed.

Lemma stage_rt_lzw : forall pm, no_predictor pm -> stage_rt (lzw_stage lzwenc lzwopen pm).
Proof.
  intros pm Hp x Hb. exists (lzw_encode lzwenc pm x). destruct (lzw_roundtrip pm x Hb Hp) as [H1 H2].
  split; [reflexivity|]. split; assumption.
Qed.

Lemma stage_rt_flate : forall pm, no_predictor pm -> stage_rt (flate_stage zenc zopen pm).
Proof.
  intros pm Hp x Hb. exists (flate_encode zenc pm x). destruct (flate_roundtrip pm x Hb Hp) as [H1 H2].
  split; [reflexivity|]. split; assumption.
Qed.
End Codecs.

(* ------------------------------------------------------------------ pipelines *)

Lemma pipe_stages_roundtrip : forall sts x,
  (forall s, In s sts -> stage_rt s) -> bytes x ->
  exists raw, pipe_encode sts x = Some raw /\ bytes raw /\ pipe_stages sts raw (-1) (-1) = DOk x.
Proof.
  induction sts as [|s rest IH]; intros x Hok Hb.
  - exists x. split; [reflexivity|]. split; [exact Hb|reflexivity].
  - destruct (IH x) as [c [Hc [Hbc Hd]]]; [intros s' Hin; apply Hok; right; exact Hin|exact Hb|].
    destruct (Hok s (or_introl eq_refl) c Hbc) as [e [He [Hbe Hde]]].
    exists e. cbn [pipe_encode pipe_stages]. rewrite Hc. split; [exact He|]. split; [exact Hbe|].
    rewrite ml_unbounded. rewrite Hde. exact Hd.
Qed.

Lemma pipeline_roundtrip : forall sts x,
  (forall s, In s sts -> stage_rt s) -> bytes x ->
  exists raw, pipe_encode sts x = Some raw /\ pipe_decode sts raw (-1) (-1) = DOk x.
Proof.
  intros sts x Hok Hb. destruct (pipe_stages_roundtrip sts x Hok Hb) as [raw [He [_ Hd]]].
  exists raw. split; [exact He|]. unfold pipe_decode. rewrite Hd. reflexivity.
Qed.

(* under a decode limit (StreamDict.Decode uses DefaultMaxDecodeBytes): combine with C16 *)
Lemma pipeline_roundtrip_limited : forall minL mdb sts x,
  (forall s, In s sts -> stage_rt s) -> (forall s, In s sts -> stage_ok (s_dec s) minL) -> bytes x ->
  0 <= decode_limit (-1) mdb -> minL <= decode_limit (-1) mdb ->
  exists raw, pipe_encode sts x = Some raw /\
    (pipe_max sts raw < max_int64 -> pipe_max sts raw <= decode_limit (-1) mdb ->
     pipe_decode sts raw (-1) mdb = DOk x).
Proof.
  intros minL mdb sts x Hrt Hok Hb H0 Hm. destruct (pipeline_roundtrip sts x Hrt Hb) as [raw [He Hd]].
  exists raw. split; [exact He|]. intros Hfit Hmax.
  rewrite (pipeline_limit_exact minL mdb sts raw x Hok H0 Hm Hfit Hd).
  destruct (pipe_max sts raw <=? decode_limit (-1) mdb) eqn:E; [reflexivity|lia].
Qed.

(* re-encoding a decoded (and possibly modified) stream: decode, replace the content, encode, decode *)
Lemma streamdict_reencode_roundtrip : forall sts raw0 old new,
  (forall s, In s sts -> stage_rt s) ->
  pipe_decode sts raw0 (-1) (-1) = DOk old -> bytes new ->
  exists raw1, pipe_encode sts new = Some raw1 /\ pipe_decode sts raw1 (-1) (-1) = DOk new.
Proof.
  intros sts raw0 old new Hok _ Hb. apply pipeline_roundtrip; assumption.
Qed.

Lemma stages_roundtrip : forall a85enc a85open lzwenc lzwopen zenc zopen,
  (forall x, bytes x -> bytes (a85enc x) /\ a85open (a85enc x) = (x, REof)) ->
  (forall ec x, bytes x -> bytes (lzwenc ec x) /\ lzwopen ec (lzwenc ec x) = (x, REof)) ->
  (forall x, bytes x -> bytes (zenc x) /\ zopen (zenc x) = Some (x, REof)) ->
  stage_rt ahx_stage /\ stage_rt rl_stage /\ stage_rt (a85_stage a85enc a85open) /\
  (forall pm, no_predictor pm -> stage_rt (lzw_stage lzwenc lzwopen pm)) /\
  (forall pm, no_predictor pm -> stage_rt (flate_stage zenc zopen pm)).
Proof.
  intros a85enc a85open lzwenc lzwopen zenc zopen Ha Hl Hz.
  split; [exact stage_rt_ahx|]. split; [exact stage_rt_rl|].
  split; [exact (stage_rt_a85 a85enc a85open Ha)|].
  split; [exact (stage_rt_lzw lzwenc lzwopen Hl)|exact (stage_rt_flate zenc zopen Hz)].
Qed.

(* ------------------------------------------------------------------ (name, parms) pipelines *)

Lemma spec_stage_rt : forall c f, codecs_ok c -> spec_accepted f -> stage_rt (spec_stage c f).
Proof.
  intros c [n pm] [Ha [Hl Hz]] Hacc. unfold spec_stage, spec_accepted in *. simpl fst in *. simpl snd in *.
  destruct n.
  - exact stage_rt_ahx.
  - exact stage_rt_rl.
  - apply stage_rt_a85. exact Ha.
  - intros x Hb. exists (lzw_encode (c_lzwenc c) pm x).
    destruct (Hl pm x Hb) as [H1 H2]. split; [reflexivity|]. split; [exact H1|].
    simpl s_dec. unfold lzw_decode_length, lzw_encode. destruct Hacc as [Hp|Hp]; rewrite Hp.
    + rewrite H2. reflexivity.
    + change (1 <? 1) with false. cbv iota. rewrite H2. reflexivity.
  - apply stage_rt_flate; assumption.
Qed.

Lemma spec_pipeline_roundtrip : forall c specs x,
  codecs_ok c -> (forall f, In f specs -> spec_accepted f) -> bytes x ->
  exists raw, spec_encode c specs x = Some raw /\ spec_decode c specs raw (-1) (-1) = DOk x.
Proof.
  intros c specs x Hc Hacc Hb. unfold spec_encode, spec_decode. apply pipeline_roundtrip; [|exact Hb].
  intros s Hin. apply in_map_iff in Hin. destruct Hin as [f [<- Hf]].
  apply spec_stage_rt; [exact Hc|apply Hacc; exact Hf].
Qed.

(* each stage is encoded by the filter constructed from its own (name, parms) *)
Lemma spec_encode_cons : forall c f rest x,
  spec_encode c (f :: rest) x =
  match spec_encode c rest x with Some y => s_enc (spec_stage c f) y | None => None end.
Proof. reflexivity. Qed.

Lemma spec_decode_stagewise : forall c f rest raw y x,
  s_dec (spec_stage c f) raw (-1) (-1) = DOk y -> spec_decode c rest y (-1) (-1) = DOk x ->
  spec_decode c (f :: rest) raw (-1) (-1) = DOk x.
Proof.
  intros c f rest raw y x H1 H2. unfold spec_decode, pipe_decode in *. cbn [map pipe_stages].
  rewrite ml_unbounded. rewrite H1. exact H2.
Qed.

(* toy codecs satisfying the contracts: the LZW stream records the EarlyChange setting it was written with *)
Definition toy_lzwenc (ec : bool) (x : list N) : list N := (if ec then 1%N else 0%N) :: x.
Definition toy_lzwopen (ec : bool) (e : list N) : rstream :=
  match e with
  | b :: x => if N.eqb b (if ec then 1%N else 0%N) then (x, REof) else ([], RErr)
  | [] => ([], RErr)
  end.
Definition toy_codecs : codecs :=
  Build_codecs (fun x => x) (fun e => (e, REof)) toy_lzwenc toy_lzwopen (fun x => x) (fun e => Some (e, REof)).

Lemma toy_codecs_ok : codecs_ok toy_codecs.
Proof.
  split; [|split].
  - intros x Hb. split; [exact Hb|reflexivity].
  - intros pm x Hb. simpl. unfold toy_lzwenc, toy_lzwopen. split.
    + constructor; [destruct (lzw_early pm); reflexivity|exact Hb].
    + rewrite N.eqb_refl. reflexivity.
  - intros x Hb. split; [exact Hb|reflexivity].
Qed.

(* An encoder that builds one filter per NAME does not round-trip a pipeline in which LZWDecode occurs
   twice with different EarlyChange, although every stage is accepted and the codecs meet their contracts. *)
Lemma name_cached_encoder_refuted : exists c specs x raw,
  codecs_ok c /\ (forall f, In f specs -> spec_accepted f) /\ bytes x /\
  spec_encode_cached c specs x = Some raw /\ spec_decode c specs raw (-1) (-1) <> DOk x /\
  (exists raw', spec_encode c specs x = Some raw' /\ spec_decode c specs raw' (-1) (-1) = DOk x).
Proof.
  exists toy_codecs,
         [(FLZW, Build_parms None None None None (Some 0)); (FLZW, no_parms)],
         [7%N], [1%N; 1%N; 7%N].
  split; [exact toy_codecs_ok|]. split.
  { intros f [<-|[<-|[]]]; left; reflexivity. }
  split; [repeat constructor|]. split; [reflexivity|]. split; [vm_compute; discriminate|].
  exists [0%N; 1%N; 7%N]. split; vm_compute; reflexivity.
Qed.
