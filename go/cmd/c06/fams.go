package main

import (
	"crypto/ecdsa"
	"crypto/elliptic"
	"crypto/rand"
	"crypto/x509"
	"crypto/x509/pkix"
	"encoding/binary"
	"errors"
	"fmt"
	"math/big"
	"os"
	"path/filepath"
	"regexp"
	"sort"
	"strings"
	"time"

	"github.com/pdfcpu/pdfcpu/pkg/api"
	"github.com/pdfcpu/pdfcpu/pkg/font"
	"verif/vh"
)

// ---------- inputs ----------

var (
	robotoBytes []byte
	proto       font.VerifTTF
)

func repoDir() string {
	if d := os.Getenv("VERIF_REPO"); d != "" {
		return d
	}
	return "/repo"
}

func loadProto() error {
	bb, err := os.ReadFile(filepath.Join(repoDir(), "pkg/testdata/fonts/Roboto-Regular.ttf"))
	if err != nil {
		return err
	}
	robotoBytes = bb
	proto, err = font.VerifBuildTTF(bb)
	return err
}

// fontName is the 14 character PostScript name standing for the model name p.
func fontName(p int) string {
	return fmt.Sprintf("n%x", p) + strings.Repeat("x", 14-len(fmt.Sprintf("n%x", p)))
}

// patchedRoboto returns Roboto-Regular with its PostScript name (nameID 6) replaced by name (14 chars).
func patchedRoboto(name string) []byte {
	bb := append([]byte(nil), robotoBytes...)
	n := int(binary.BigEndian.Uint16(bb[4:]))
	for i := 0; i < n; i++ {
		e := bb[12+i*16 : 28+i*16]
		if string(e[:4]) != "name" {
			continue
		}
		off := int(binary.BigEndian.Uint32(e[8:]))
		cnt := int(binary.BigEndian.Uint16(bb[off+2:]))
		so := int(binary.BigEndian.Uint16(bb[off+4:]))
		for j := 0; j < cnt; j++ {
			rec := bb[off+6+j*12:]
			if binary.BigEndian.Uint16(rec[6:]) != 6 {
				continue
			}
			l := int(binary.BigEndian.Uint16(rec[8:]))
			o := int(binary.BigEndian.Uint16(rec[10:]))
			s := bb[off+so+o : off+so+o+l]
			if binary.BigEndian.Uint16(rec[0:]) == 3 {
				for k := 0; k < len(name) && 2*k+1 < l; k++ {
					s[2*k], s[2*k+1] = 0, name[k]
				}
			} else {
				copy(s, name)
			}
		}
	}
	return bb
}

// buildTTC concatenates fonts into a TrueType collection (table offsets made absolute).
func buildTTC(fonts [][]byte) []byte {
	hdr := 12 + 4*len(fonts)
	out := make([]byte, hdr)
	copy(out, "ttcf")
	binary.BigEndian.PutUint32(out[4:], 0x00010000)
	binary.BigEndian.PutUint32(out[8:], uint32(len(fonts)))
	for i, f := range fonts {
		for len(out)%4 != 0 {
			out = append(out, 0)
		}
		base := len(out)
		binary.BigEndian.PutUint32(out[12+4*i:], uint32(base))
		g := append([]byte(nil), f...)
		n := int(binary.BigEndian.Uint16(g[4:]))
		for j := 0; j < n; j++ {
			e := g[12+j*16:]
			binary.BigEndian.PutUint32(e[8:], binary.BigEndian.Uint32(e[8:])+uint32(base))
		}
		out = append(out, g...)
	}
	return out
}

func nm(p int) string     { return fmt.Sprintf("n%x", p) }
func newTok(p int) []byte { return []byte{0xC0, byte(p)} }
func oldTok(p int) []byte { return []byte{0xA0, byte(p)} }

func fstr(f int) string {
	if f < 0 {
		return "-"
	}
	return fmt.Sprintf("%x", f)
}

func wfile(p string, bb []byte, mode os.FileMode) {
	must(os.WriteFile(p, bb, mode))
	must(os.Chmod(p, mode))
}

// gobCanon maps installed representations to the model's 2-byte tokens.
func gobCanon(r *rec) func(string, []byte) string {
	return func(p string, bb []byte) string {
		lab := r.label(p, true)
		lab = lab[strings.LastIndexByte(lab, '/')+1:]
		if b := filepath.Base(p); len(bb) <= 8 && strings.Contains(b, ".gob.tmp-") {
			// a truncated temporary representation: the same number of bytes of the model token
			var v int
			fmt.Sscanf(stripName(strings.TrimPrefix(b[:strings.Index(b, ".gob.tmp-")], ".")), "%x", &v)
			tok := newTok(v)
			if len(bb) < len(tok) {
				tok = tok[:len(bb)]
			}
			return fmt.Sprintf("%x", tok)
		}
		if len(bb) <= 8 {
			return fmt.Sprintf("%x", bb)
		}
		if strings.HasSuffix(p, ".gob") || strings.Contains(filepath.Base(p), ".gob.tmp-") {
			if name, err := font.VerifReadGob(p); err == nil {
				var v int
				fmt.Sscanf(stripName(name), "%x", &v)
				return fmt.Sprintf("%x", newTok(v))
			}
		}
		return "ff" + fmt.Sprintf("%x", len(bb))
	}
}

func nfaults(f1, f2 int) int {
	n := 0
	if f1 >= 0 {
		n++
	}
	if f2 >= 0 {
		n++
	}
	return n
}

// sweep runs one scenario without fault, with every single fault, and (if double) with every
// second fault after the first.
func sweep(double bool, run func(f1, f2 int) int) {
	c0 := run(-1, -1)
	for f := 0; f < c0; f++ {
		c1 := run(f, -1)
		if double {
			for g := f + 1; g < c1; g++ {
				run(f, g)
			}
		}
	}
}

// ---------- the direct oracle ----------

type outcome struct {
	fam      string
	input    map[string]any
	err      error
	warns    []error
	causes   int  // injected faults + natural failures (invalid member, reload failure, ...)
	wrapper  bool // the whole tree (not only [1]) must be restored
	before   snap
	after    snap
	want     map[string]string // target label -> "mode:data" when published
	rec      *rec
	pubError bool // the operation documents "error after complete publication" (cleanup / directory sync)
}

func oracle(r *vh.Run, o outcome) {
	fail := func(kind, detail string) {
		o.input["family"] = o.fam
		r.OracleFail("c06:"+o.fam+":"+kind, o.input, detail+" | before="+o.before.String()+" after="+o.after.String()+fmt.Sprintf(" err=%v", o.err))
	}
	F0, F1 := o.before["1"], o.after["1"]
	allNew := true
	for t, v := range o.want {
		if F1[t] != v {
			allNew = false
		}
	}
	for n, v := range F0 {
		if _, tgt := o.want[n]; !tgt && F1[n] != v {
			allNew = false
		}
	}
	F1p := map[string]string{} // without the run's own temporary files (they are the leftovers)
	for n, v := range F1 {
		if strings.HasPrefix(n, "T") {
			continue
		}
		F1p[n] = v
		if _, tgt := o.want[n]; !tgt {
			if _, was := F0[n]; !was {
				allNew = false
			}
		}
	}
	allOld := sameFiles(F0, F1p)
	left := o.rec.leftovers()
	restored := allOld && len(left) == 0
	if o.wrapper {
		restored = o.before.String() == o.after.String()
	}
	named := func(text string) string {
		for _, p := range left {
			if !mentionsPath(text, p) {
				return p
			}
		}
		return ""
	}
	switch {
	case o.err == nil:
		if !allNew {
			fail("success-without-full-publication", "nil error but not every target published")
			return
		}
		wt := ""
		for _, w := range o.warns {
			wt += w.Error() + "\n"
		}
		if p := named(wt); p != "" {
			fail("silent-leftover-after-success", "leftover "+p+" not named by any warning")
			return
		}
	case o.causes <= 1:
		if restored {
			break
		}
		if allNew && len(o.want) > 0 {
			if p := named(o.err.Error()); p != "" {
				fail("leftover-not-named", "published, error does not name leftover "+p)
				return
			}
			if !o.pubError {
				fail("error-after-publication", "every target published but an error is returned")
				return
			}
			r.Count("class:error-after-complete-publication")
			break
		}
		if allOld {
			fail("leftover-after-rollback", fmt.Sprintf("targets restored but %v remain", left))
			return
		}
		fail("not-restored-after-single-failure", "directory neither restored nor fully published")
		return
	default:
		// a rollback step failed as well: whatever remains must be named by the error
		if p := named(o.err.Error()); p != "" {
			fail("leftover-not-named", "rollback failed, error does not name "+p)
			return
		}
		// an original that is neither in place nor replaced by the new file must survive in a backup
		for n, v := range F0 {
			if F1[n] != v && F1[n] != o.want[n] && len(left) == 0 {
				fail("original-lost-without-backup", "previous file "+n+" is gone and no backup is left")
				return
			}
		}
		r.Count("class:rollback-step-failed")
	}
	r.OracleOK()
}

// ---------- (a) writeGobWithOperations ----------

func famGob(r *vh.Run) {
	for _, pre := range []bool{false, true} {
		for _, trunc := range []int{0, 1} {
			pre, trunc := pre, trunc
			sweep(trunc == 0 || r.Thorough(), func(f1, f2 int) int {
				base := newBase()
				F := filepath.Join(base, "1")
				init := "3f:1a4:ee"
				wfile(filepath.Join(F, nm(0x3f)+".gob"), []byte{0xee}, 0o644)
				if pre {
					wfile(filepath.Join(F, nm(0x10)+".gob"), oldTok(0x10), 0o644)
					init = "10:1a4:a010," + init
				}
				rc := newRec(base, f1, f2)
				rc.trunc = trunc
				rc.canon = gobCanon(rc)
				before := rc.snapshot()
				err := font.VerifWriteGob(filepath.Join(F, nm(0x10)+".gob"), proto.VerifRename(nm(0x10)), rc.gobOps())
				r.Case("gob", []string{fstr(f1), fstr(f2), fmt.Sprintf("%x", trunc), "ff", "1=" + init, "1", "10", "c010"}, rc.result(err, 0))
				oracle(r, outcome{fam: "writeGob", input: map[string]any{"pre": pre, "f1": f1, "f2": f2, "trunc": trunc}, err: err,
					causes: nfaults(f1, f2), before: before, after: rc.snapshot(), want: map[string]string{"10": "1a4:c010"}, rec: rc, pubError: true})
				r.Count("class:gob")
				return rc.cnt
			})
		}
	}
}

// ---------- (b, c) commitCollectionFonts / publishCheatSheets on a given staging directory ----------

func famCommit(r *vh.Run, kind string) {
	ext := ".gob"
	if kind == "cheat" {
		ext = "_BMP.pdf"
	}
	maxN := r.Pick(3, 4)
	for n := 1; n <= maxN; n++ {
		for mask := 0; mask < 1<<n; mask++ {
			n, mask := n, mask
			double := n <= r.Pick(1, 3) || (n == 2 && (mask == 1 || mask == 3))
			sweep(double, func(f1, f2 int) int {
				base := newBase()
				F := filepath.Join(base, "1")
				S := filepath.Join(F, "2")
				must(os.Mkdir(S, 0o755))
				fi := []string{}
				si := []string{}
				want := map[string]string{}
				var names []string
				var results []font.InstallResult
				for i := 0; i < n; i++ {
					p := 0x10 + i
					wfile(filepath.Join(S, nm(p)+ext), newTok(p), 0o644)
					si = append(si, fmt.Sprintf("%x:1a4:%x", p, newTok(p)))
					if mask>>i&1 == 1 {
						wfile(filepath.Join(F, nm(p)+ext), oldTok(p), 0o600)
						fi = append(fi, fmt.Sprintf("%x:180:%x", p, oldTok(p)))
					}
					want[fmt.Sprintf("%x", p)] = fmt.Sprintf("1a4:%x", newTok(p))
					names = append(names, fmt.Sprintf("%x", p))
					results = append(results, font.InstallResult{PostScriptName: nm(p)})
				}
				wfile(filepath.Join(F, nm(0x3f)+ext), []byte{0xee}, 0o644)
				fi = append(fi, "3f:1a4:ee")
				rc := newRec(base, f1, f2)
				before := rc.snapshot()
				var err error
				pubErr := false
				if kind == "coll" {
					err = font.VerifCommitCollectionFonts(F, S, results, rc.collOps())
				} else {
					fn := make([]string, n)
					for i := range fn {
						fn[i] = nm(0x10+i) + ext
					}
					_, err = api.VerifPublishCheatSheets(F, S, fn, rc.txOps())
					pubErr = true
				}
				r.Case("commit", []string{kind, fstr(f1), fstr(f2), "1=" + strings.Join(fi, ",") + ";1.2=" + strings.Join(si, ","), "1", "1.2", strings.Join(names, ",")},
					rc.result(err, len(rc.warns)))
				oracle(r, outcome{fam: "commit-" + kind, input: map[string]any{"n": n, "preexisting_mask": mask, "f1": f1, "f2": f2}, err: err, warns: rc.warns,
					causes: nfaults(f1, f2), before: before, after: rc.snapshot(), want: want, rec: rc, pubError: pubErr})
				r.Count(fmt.Sprintf("class:commit-%s-n%d", kind, n))
				return rc.cnt
			})
		}
	}
}

// ---------- (d) installTrueTypeCollectionResults ----------

type memberSpec struct {
	p     int // 0 = invalid member
	valid bool
}

func famCollection(r *vh.Run) {
	shapes := [][]memberSpec{
		{{0x10, true}},
		{{0x10, true}, {0x11, true}},
		{{0x10, true}, {0, false}},
		{{0x10, true}, {0x10, true}},
		{{0x10, true}, {0x11, true}, {0x12, true}},
		{{0x10, true}, {0, false}, {0x12, true}},
	}
	if r.Thorough() {
		shapes = append(shapes, []memberSpec{{0x10, true}, {0x11, true}, {0x12, true}, {0x13, true}},
			[]memberSpec{{0x10, true}, {0x11, true}, {0x11, true}, {0x13, true}})
	}
	hdr := make([]byte, 28)
	copy(hdr, "ttcf")
	binary.BigEndian.PutUint32(hdr[4:], 0x00010000)
	binary.BigEndian.PutUint32(hdr[8:], 1)
	binary.BigEndian.PutUint32(hdr[12:], 16)
	for si, shape := range shapes {
		masks := []int{0, 1, 3}
		if len(shape) >= 3 {
			masks = []int{0, 5, 7}
		}
		for _, mask := range masks {
			shape, mask := shape, mask
			sweep(r.Thorough() && len(shape) <= 2, func(f1, f2 int) int {
				base := newBase()
				F := filepath.Join(base, "1")
				src := filepath.Join(base, "src.ttc")
				wfile(src, hdr, 0o644)
				fi := []string{"3f:1a4:ee"}
				wfile(filepath.Join(F, nm(0x3f)+".gob"), []byte{0xee}, 0o644)
				want := map[string]string{}
				var ms []string
				natural := 0
				seen := map[int]bool{}
				for i, m := range shape {
					if !m.valid {
						ms = append(ms, "i")
						natural = 1
						continue
					}
					ms = append(ms, fmt.Sprintf("v:%x:%x:%x", m.p, m.p, newTok(m.p)))
					if seen[m.p] {
						natural = 1
					}
					if !seen[m.p] && mask>>i&1 == 1 {
						wfile(filepath.Join(F, nm(m.p)+".gob"), oldTok(m.p), 0o644)
						fi = append(fi, fmt.Sprintf("%x:1a4:%x", m.p, oldTok(m.p)))
					}
					seen[m.p] = true
					want[fmt.Sprintf("%x", m.p)] = fmt.Sprintf("1a4:%x", newTok(m.p))
				}
				rc := newRec(base, f1, f2)
				rc.canon = gobCanon(rc)
				ops := rc.collOps()
				// the member loop of installTrueTypeCollectionMembers with the parse results given
				ops.StageMembers = func(_ *os.File, stagingDir, _ string, _ int64, _ uint32, _ int64) ([]font.InstallResult, error) {
					var res []font.InstallResult
					done := map[int]bool{}
					for i, m := range shape {
						if !m.valid {
							return nil, fmt.Errorf("member %d: parse tables: invalid", i+1)
						}
						if done[m.p] {
							return nil, fmt.Errorf("member %d: %w", i+1, font.ErrDuplicatePostScriptName)
						}
						done[m.p] = true
						if err := font.VerifWriteGob(filepath.Join(stagingDir, nm(m.p)+".gob"), proto.VerifRename(nm(m.p)), rc.gobOps()); err != nil {
							return nil, err
						}
						res = append(res, font.InstallResult{PostScriptName: nm(m.p), Member: i + 1})
					}
					return res, nil
				}
				before := rc.snapshot()
				rep, err := font.VerifInstallCollection(F, src, ops)
				warns := append(append([]error(nil), rc.warns...), rep.Warnings...)
				r.Case("collection", []string{fstr(f1), fstr(f2), "0", "ff", "1=" + strings.Join(fi, ","), "1", strings.Join(ms, ",")},
					rc.result(err, len(rep.Warnings)))
				oracle(r, outcome{fam: "collection", input: map[string]any{"shape": si, "preexisting_mask": mask, "f1": f1, "f2": f2}, err: err, warns: warns,
					causes: nfaults(f1, f2) + natural, wrapper: true, before: before, after: rc.snapshot(), want: want, rec: rc})
				r.Count(fmt.Sprintf("class:collection-shape%d", si))
				return rc.cnt
			})
		}
	}
}

// ---------- (e) api.installFonts ----------

func snapDir(rc *rec, S string) (sc string, junk string, names []string) {
	ents, _ := os.ReadDir(S)
	var fl, jl []string
	j := 0
	for _, e := range ents {
		p := filepath.Join(S, e.Name())
		if e.IsDir() {
			comp := fmt.Sprintf("%x", 0x50+j)
			j++
			rc.alias[p] = comp
			sub, _ := os.ReadDir(p)
			var l []string
			for _, s := range sub {
				q := filepath.Join(p, s.Name())
				bb, _ := os.ReadFile(q)
				fi, _ := os.Lstat(q)
				l = append(l, fmt.Sprintf("%s:%x:%s", stripName(s.Name()), uint32(fi.Mode().Perm()), rc.canonData(q, bb)))
			}
			jl = append(jl, comp+"="+strings.Join(l, ","))
			continue
		}
		bb, _ := os.ReadFile(p)
		fi, _ := os.Lstat(p)
		fl = append(fl, fmt.Sprintf("%s:%x:%s", stripName(e.Name()), uint32(fi.Mode().Perm()), rc.canonData(p, bb)))
		names = append(names, stripName(e.Name()))
	}
	sort.Strings(names)
	return strings.Join(fl, ","), strings.Join(jl, ";"), names
}

func (r *rec) canonData(p string, bb []byte) string {
	if r.canon != nil {
		return r.canon(p, bb)
	}
	return fmt.Sprintf("%x", bb)
}

func famFonts(r *vh.Run) {
	type in struct {
		p     int
		valid bool
	}
	shapes := [][]in{
		{{0x10, true}},
		{{0x10, true}, {0x11, true}},
		{{0x10, true}, {0, false}},
		{{0x10, true}, {0x10, true}},
	}
	if r.Thorough() {
		shapes = append(shapes, []in{{0x10, true}, {0x11, true}, {0x12, true}}, []in{{0x10, true}, {0, false}, {0x12, true}})
	}
	for si, shape := range shapes {
		for _, mask := range []int{0, 1, 3} {
			for _, reloadOK := range []bool{true, false} {
				shape, mask, reloadOK := shape, mask, reloadOK
				if !reloadOK && mask == 1 {
					continue
				}
				sweep(r.Thorough() && len(shape) == 1, func(f1, f2 int) int {
					base := newBase()
					F := filepath.Join(base, "1")
					inDir := filepath.Join(base, "in")
					must(os.Mkdir(inDir, 0o755))
					fi := []string{"3f:1a4:ee"}
					wfile(filepath.Join(F, nm(0x3f)+".gob"), []byte{0xee}, 0o644)
					want := map[string]string{}
					natural := 0
					seen := map[int]bool{}
					var files []string
					for i, m := range shape {
						fn := filepath.Join(inDir, fmt.Sprintf("in%d.ttf", i))
						files = append(files, fn)
						if !m.valid {
							wfile(fn, []byte("not a font at all"), 0o644)
							natural = 1
							continue
						}
						wfile(fn, patchedRoboto(fontName(m.p)), 0o644)
						if seen[m.p] {
							natural = 1
						}
						if !seen[m.p] && mask>>i&1 == 1 {
							wfile(filepath.Join(F, fontName(m.p)+".gob"), oldTok(m.p), 0o644)
							fi = append(fi, fmt.Sprintf("%x:1a4:%x", m.p, oldTok(m.p)))
						}
						seen[m.p] = true
						want[fmt.Sprintf("%x", m.p)] = fmt.Sprintf("1a4:%x", newTok(m.p))
					}
					if !reloadOK && natural == 0 {
						natural = 1
					}
					rc := newRec(base, f1, f2)
					rc.canon = gobCanon(rc)
					var staging, sc, junk string
					var names []string
					snapped, stageOK := false, false
					tx := rc.txOps()
					mk := tx.MkdirTemp
					tx.MkdirTemp = func(d, pat string) (string, error) {
						if !snapped {
							sc, junk, names = snapDir(rc, staging)
							snapped, stageOK = true, true
						}
						return mk(d, pat)
					}
					var warns []error
					ops := api.VerifFontAPIOps{
						UserFontDir: F,
						ReloadUserFonts: func() error {
							if reloadOK {
								return nil
							}
							return errors.New("reload failed")
						},
						CreateStagingDir: func(d string) (string, error) {
							s, err := rc.mkdirTemp(os.MkdirTemp)(d, ".pdfcpu-font-install-")
							staging = s
							return s, err
						},
						Tx: tx,
						RemoveAll: func(p string) error {
							if p != staging {
								return os.RemoveAll(p)
							}
							if !snapped {
								sc, junk, names = snapDir(rc, staging)
								snapped = true
							}
							return rc.dir1("removeall", p, func() error { return os.RemoveAll(p) })
						},
						ReportCleanupWarning: func(e error) { warns = append(warns, e) },
					}
					before := rc.snapshot()
					err := api.VerifInstallFonts(files, ops)
					r.Case("fonts", []string{fstr(f1), fstr(f2), "1=" + strings.Join(fi, ","), "1", sc, junk, vh.Bool(stageOK), strings.Join(names, ","), vh.Bool(reloadOK)},
						rc.result(err, len(warns)))
					oracle(r, outcome{fam: "installFonts", input: map[string]any{"shape": si, "preexisting_mask": mask, "reload_ok": reloadOK, "f1": f1, "f2": f2}, err: err, warns: warns,
						causes: nfaults(f1, f2) + natural, wrapper: true, before: before, after: rc.snapshot(), want: want, rec: rc})
					r.Count(fmt.Sprintf("class:installFonts-shape%d", si))
					return rc.cnt
				})
			}
		}
	}
}

// ---------- (f) createUserFontDemoBatch ----------

func famCheat(r *vh.Run) {
	maxN := r.Pick(2, 3)
	for n := 1; n <= maxN; n++ {
		for mask := 0; mask < 1<<n; mask++ {
			for failAt := -1; failAt < n; failAt++ {
				if failAt >= 0 && mask != 0 && mask != 1<<n-1 {
					continue
				}
				n, mask, failAt := n, mask, failAt
				sweep(r.Thorough() && n == 1, func(f1, f2 int) int {
					base := newBase()
					F := filepath.Join(base, "1")
					fi := []string{"3f:1a4:ee"}
					wfile(filepath.Join(F, nm(0x3f)+"_BMP.pdf"), []byte{0xee}, 0o644)
					want := map[string]string{}
					var fonts []string
					for i := 0; i < n; i++ {
						p := 0x10 + i
						fonts = append(fonts, nm(p))
						if mask>>i&1 == 1 {
							wfile(filepath.Join(F, nm(p)+"_BMP.pdf"), oldTok(p), 0o644)
							fi = append(fi, fmt.Sprintf("%x:1a4:%x", p, oldTok(p)))
						}
						want[fmt.Sprintf("%x", p)] = fmt.Sprintf("1a4:%x", newTok(p))
					}
					natural := 0
					if failAt >= 0 {
						natural = 1
					}
					rc := newRec(base, f1, f2)
					var staging, sc string
					var names []string
					snapped, stageOK := false, false
					tx := rc.txOps()
					mk := tx.MkdirTemp
					calls := 0
					tx.MkdirTemp = func(d, pat string) (string, error) {
						calls++
						if calls == 2 && !snapped {
							sc, _, names = snapDir(rc, staging)
							snapped, stageOK = true, true
						}
						s, err := mk(d, pat)
						if calls == 1 {
							staging = s
						}
						return s, err
					}
					ra := tx.RemoveAll
					tx.RemoveAll = func(p string) error {
						if p == staging && !snapped {
							sc, _, names = snapDir(rc, staging)
							snapped = true
						}
						return ra(p)
					}
					k := 0
					createPDF := func(fn string) error {
						defer func() { k++ }()
						if k == failAt {
							return errors.New("generation failed")
						}
						var v int
						fmt.Sscanf(stripName(filepath.Base(fn)), "%x", &v)
						return os.WriteFile(fn, newTok(v), 0o644)
					}
					before := rc.snapshot()
					err := api.VerifCheatBatch(F, fonts, createPDF, tx)
					r.Case("cheat", []string{fstr(f1), fstr(f2), "1=" + strings.Join(fi, ","), "1", sc, vh.Bool(stageOK), strings.Join(names, ",")},
						rc.result(err, 0))
					oracle(r, outcome{fam: "cheatBatch", input: map[string]any{"n": n, "preexisting_mask": mask, "fail_at": failAt, "f1": f1, "f2": f2}, err: err,
						causes: nfaults(f1, f2) + natural, wrapper: true, before: before, after: rc.snapshot(), want: want, rec: rc, pubError: true})
					r.Count(fmt.Sprintf("class:cheat-n%d", n))
					return rc.cnt
				})
			}
		}
	}
}

// ---------- (g) publishCertificateImports ----------

func famCerts(r *vh.Run) {
	maxN := r.Pick(2, 3)
	for n := 1; n <= maxN; n++ {
		for mask := 0; mask < 1<<n; mask++ {
			for bad := -1; bad < n; bad++ {
				if bad >= 0 && mask != 0 && mask != 1<<n-1 {
					continue
				}
				n, mask, bad := n, mask, bad
				sweep(n == 1 || (r.Thorough() && n == 2 && bad < 0), func(f1, f2 int) int {
					base := newBase()
					C := filepath.Join(base, "1")
					fi := []string{"3f:1a4:ee"}
					wfile(filepath.Join(C, nm(0x3f)+".p7c"), []byte{0xee}, 0o644)
					want := map[string]string{}
					var imps []api.VerifCertImport
					var wire []string
					for i := 0; i < n; i++ {
						p := 0x10 + i
						out := filepath.Join(C, nm(p)+".p7c")
						imps = append(imps, api.VerifCertImport{InFile: fmt.Sprintf("in%d.pem", i), OutFile: out})
						if mask>>i&1 == 1 {
							wfile(out, oldTok(p), 0o644)
							fi = append(fi, fmt.Sprintf("%x:1a4:%x", p, oldTok(p)))
						}
						want[fmt.Sprintf("%x", p)] = fmt.Sprintf("180:%x", newTok(p))
						wire = append(wire, fmt.Sprintf("%x:%x:%s", p, newTok(p), b01(i != bad)))
					}
					natural := 0
					if bad >= 0 {
						natural = 1
					}
					rc := newRec(base, f1, f2)
					save := func(_ []*x509.Certificate, stage string) error {
						b := filepath.Base(stage) // .n10.p7c.stage-123
						var v int
						fmt.Sscanf(strings.TrimPrefix(b, ".n"), "%x", &v)
						lab := rc.label(stage, true)
						if rc.step() {
							rc.log("save", lab, "eio")
							return eio("write", stage)
						}
						if v-0x10 == bad {
							rc.log("save", lab, "nat")
							return errors.New("certificate 1: missing certificate")
						}
						err := os.WriteFile(stage, newTok(v), 0o600)
						rc.log("save", lab, resOf("save", err))
						return err
					}
					before := rc.snapshot()
					err := api.VerifPublishCertificateImports(imps, save, rc.fileOps())
					r.Case("certs", []string{fstr(f1), fstr(f2), "ff", "1=" + strings.Join(fi, ","), "1", strings.Join(wire, ",")}, rc.result(err, 0))
					oracle(r, outcome{fam: "certificates", input: map[string]any{"n": n, "preexisting_mask": mask, "invalid": bad, "f1": f1, "f2": f2}, err: err,
						causes: nfaults(f1, f2) + natural, wrapper: true, before: before, after: rc.snapshot(), want: want, rec: rc, pubError: true})
					r.Count(fmt.Sprintf("class:certs-n%d", n))
					return rc.cnt
				})
			}
		}
	}
}

// ---------- (h) whole public operations with the production tables (oracle only) ----------

func selfSigned(cn string) *x509.Certificate {
	key, err := ecdsa.GenerateKey(elliptic.P256(), rand.Reader)
	must(err)
	tpl := &x509.Certificate{SerialNumber: big.NewInt(time.Now().UnixNano()), Subject: pkix.Name{CommonName: cn},
		NotBefore: time.Now().Add(-time.Hour), NotAfter: time.Now().Add(time.Hour), IsCA: true, BasicConstraintsValid: true}
	der, err := x509.CreateCertificate(rand.Reader, tpl, tpl, &key.PublicKey, key)
	must(err)
	c, err := x509.ParseCertificate(der)
	must(err)
	return c
}

func famReal(r *vh.Run) {
	// real TrueType collections through font.InstallTrueTypeCollectionResults
	type tc struct {
		names []int
		cut   bool // truncate the last member: invalid input discovered mid-batch
	}
	cases := []tc{{[]int{0x10}, false}, {[]int{0x10, 0x11}, false}, {[]int{0x10, 0x11, 0x12}, false},
		{[]int{0x10, 0x10}, false}, {[]int{0x10, 0x11}, true}, {[]int{0x10, 0x11, 0x11}, false}}
	for ci, c := range cases {
		for _, mask := range []int{0, 1, 7} {
			base := newBase()
			F := filepath.Join(base, "1")
			var fonts [][]byte
			want := map[string]string{}
			natural := 0
			seen := map[int]bool{}
			for i, p := range c.names {
				fonts = append(fonts, patchedRoboto(fontName(p)))
				if seen[p] {
					natural = 1
				}
				if !seen[p] && mask>>i&1 == 1 {
					wfile(filepath.Join(F, fontName(p)+".gob"), oldTok(p), 0o644)
				}
				seen[p] = true
				want[fmt.Sprintf("%x", p)] = fmt.Sprintf("1a4:%x", newTok(p))
			}
			ttc := buildTTC(fonts)
			if c.cut {
				ttc = ttc[:len(ttc)-60000]
				natural = 1
			}
			src := filepath.Join(base, "c.ttc")
			wfile(src, ttc, 0o644)
			rc := newRec(base)
			rc.canon = gobCanon(rc)
			before := rc.snapshot()
			rep, err := font.InstallTrueTypeCollectionResults(F, src)
			if natural == 1 && err == nil {
				r.OracleFail("c06:real-collection:invalid-accepted", map[string]any{"case": ci}, "invalid collection installed")
				continue
			}
			if natural == 0 && err != nil {
				panic(fmt.Sprintf("harness: valid collection rejected: %v", err))
			}
			after := rc.snapshot()
			for p := range globTemps(F) {
				rc.tdirs[p] = len(rc.tdirs) + 1
			}
			oracle(r, outcome{fam: "real-collection", input: map[string]any{"case": ci, "preexisting_mask": mask}, err: err, warns: rep.Warnings,
				causes: natural, wrapper: true, before: before, after: after, want: want, rec: rc})
			r.Count("class:real-collection")
		}
	}
	// real certificates through pdfcpu.SaveCertificates
	certs := []*x509.Certificate{selfSigned("a"), selfSigned("b")}
	for _, bad := range []int{-1, 0, 1} {
		for _, mask := range []int{0, 3} {
			base := newBase()
			C := filepath.Join(base, "1")
			var imps []api.VerifCertImport
			for i := 0; i < 2; i++ {
				out := filepath.Join(C, nm(0x10+i)+".p7c")
				cs := []*x509.Certificate{certs[i]}
				if i == bad {
					cs = []*x509.Certificate{nil}
				}
				imps = append(imps, api.VerifCertImport{InFile: fmt.Sprintf("in%d", i), OutFile: out, Certificates: cs})
				if mask>>i&1 == 1 {
					wfile(out, oldTok(0x10+i), 0o644)
				}
			}
			rc := newRec(base)
			rc.canon = func(p string, bb []byte) string {
				if len(bb) <= 8 {
					return fmt.Sprintf("%x", bb)
				}
				return "new"
			}
			before := rc.snapshot()
			err := api.VerifPublishCertificateImports(imps, nil, api.VerifDefaultFileOps())
			after := rc.snapshot()
			want := map[string]string{}
			for n, v := range after["1"] {
				if strings.HasSuffix(v, ":new") {
					want[n] = v
				}
			}
			if bad < 0 {
				want = map[string]string{"10": after["1"]["10"], "11": after["1"]["11"]}
				if !strings.HasSuffix(want["10"], ":new") || !strings.HasSuffix(want["11"], ":new") {
					want = map[string]string{"10": "missing", "11": "missing"}
				}
			} else {
				want = map[string]string{"10": "x", "11": "x"}
			}
			for p := range globTemps(C) {
				rc.tfiles[p] = len(rc.tfiles) + 1
			}
			nat := 0
			if bad >= 0 {
				nat = 1
			}
			oracle(r, outcome{fam: "real-certificates", input: map[string]any{"invalid": bad, "preexisting_mask": mask}, err: err,
				causes: nat, wrapper: true, before: before, after: after, want: want, rec: rc})
			r.Count("class:real-certificates")
		}
	}
}

// globTemps lists dot-entries (staging / backup / temporary names) directly in dir.
func globTemps(dir string) map[string]bool {
	m := map[string]bool{}
	ents, _ := os.ReadDir(dir)
	for _, e := range ents {
		if strings.HasPrefix(e.Name(), ".") {
			m[filepath.Join(dir, e.Name())] = true
		}
	}
	return m
}

// ---------- (i) collections whose members collide only after name sanitisation (production path, no faults) ----------

// sanitised mirrors what sanitize.Path does to the raw names used here (':' and '/' become '_').
func sanitised(raw string) string {
	return strings.NewReplacer(":", "_", "/", "_").Replace(raw)
}

func famSanitise(r *vh.Run) {
	reMember := regexp.MustCompile(`member (\d+) conflicts`)
	pad := func(s string) string { return s + strings.Repeat("x", 14-len(s)) }
	colls := [][]string{
		{pad("n10"), pad("n11")},                             // ordinary distinct names
		{pad("n10"), pad("n10")},                             // identical names
		{pad("n10x:"), pad("n10x_")},                         // raw-different, sanitise-equal (':' -> '_')
		{pad("n10x_"), pad("n10x/")},                         // the same through the path separator
		{pad("n11"), pad("n10x:"), pad("n10x_")},             // collision after an accepted member
		{pad("n10x:"), pad("n11"), pad("n12"), pad("n10x_")}, // collision at the end of a longer batch
	}
	entries := []string{"InstallTrueTypeCollection", "InstallTrueTypeCollectionResults", "api.InstallFonts"}
	for ci, raws := range colls {
		var fonts [][]byte
		var wire []string
		rawID := map[string]int{}
		want := map[string]string{}
		expect := "accept"
		seen := map[string]bool{}
		for i, raw := range raws {
			fonts = append(fonts, patchedRoboto(raw))
			if _, ok := rawID[raw]; !ok {
				rawID[raw] = 0x40 + len(rawID)
			}
			var v int
			fmt.Sscanf(stripName(sanitised(raw)), "%x", &v)
			wire = append(wire, fmt.Sprintf("v:%x:%x:%x", rawID[raw], v, newTok(v)))
			if seen[sanitised(raw)] && expect == "accept" {
				expect = fmt.Sprintf("dup:%d", i+1)
			}
			seen[sanitised(raw)] = true
			want[fmt.Sprintf("%x", v)] = fmt.Sprintf("1a4:%x", newTok(v))
		}
		ttc := buildTTC(fonts)
		for _, populated := range []bool{false, true} {
			for _, entry := range entries {
				base := newBase()
				F := filepath.Join(base, "1")
				src := filepath.Join(base, "c.ttc")
				wfile(src, ttc, 0o644)
				if populated {
					wfile(filepath.Join(F, pad("n3f")+".gob"), []byte{0xee}, 0o644)
					for s := range seen {
						var v int
						fmt.Sscanf(stripName(s), "%x", &v)
						wfile(filepath.Join(F, s+".gob"), oldTok(v), 0o644)
					}
				}
				rc := newRec(base)
				rc.canon = gobCanon(rc)
				before := rc.snapshot()
				var err error
				var warns []error
				switch entry {
				case "InstallTrueTypeCollection":
					var rep font.InstallReport
					rep, err = font.InstallTrueTypeCollection(F, src)
					warns = rep.Warnings
				case "InstallTrueTypeCollectionResults":
					var rep font.InstallReport
					rep, err = font.InstallTrueTypeCollectionResults(F, src)
					warns = rep.Warnings
				default:
					err = api.VerifInstallFonts([]string{src}, api.VerifFontAPIOps{UserFontDir: F, ReloadUserFonts: func() error { return nil },
						Tx: api.VerifDefaultTxOps(), ReportCleanupWarning: func(e error) { warns = append(warns, e) }})
				}
				after := rc.snapshot()
				for p := range globTemps(F) {
					rc.tdirs[p] = len(rc.tdirs) + 1
				}
				// K: the staging decision (accept / reject + which member) against the model
				got := "accept"
				if err != nil {
					got = "error"
					if m := reMember.FindStringSubmatch(err.Error()); m != nil && errors.Is(err, font.ErrDuplicatePostScriptName) {
						got = "dup:" + m[1]
					}
				}
				r.Case("decide", []string{strings.Join(wire, ",")}, got)
				in := map[string]any{"collection": raws, "populated": populated, "entry": entry}
				// O: byte-exact directory equality after any failure (no leftover), all-or-nothing after success
				if err != nil && before.String() != after.String() {
					in["family"] = "sanitised-collision"
					r.OracleFail("c06:collection-sanitised-names:directory-changed-by-failed-install", in,
						fmt.Sprintf("before=%s after=%s err=%v", before, after, err))
				} else {
					causes := 0
					if expect != "accept" {
						causes = 1
					}
					oracle(r, outcome{fam: "collection-sanitised-names", input: in, err: err, warns: warns, causes: causes, wrapper: true,
						before: before, after: after, want: want, rec: rc})
				}
				if (expect == "accept") != (err == nil) {
					r.Count("class:sanitise-decision-unexpected")
				}
				r.Count(fmt.Sprintf("class:sanitise-coll%d", ci))
			}
		}
	}
}

// ---------- (j) kinds of pre-existing targets: absent, regular file, dangling symlink, live symlink, directory ----------

var targetKinds = []string{"absent", "regular", "dangling-symlink", "live-symlink", "directory"}

// makeTarget creates a pre-existing entry of the given kind at path p (elsewhere = a directory outside the tree).
func makeTarget(kind, p, elsewhere string, tok []byte) {
	switch kind {
	case "regular":
		wfile(p, tok, 0o644)
	case "dangling-symlink":
		must(os.Symlink(filepath.Join(elsewhere, "missing-"+filepath.Base(p)), p))
	case "live-symlink":
		live := filepath.Join(elsewhere, "live-"+filepath.Base(p))
		wfile(live, tok, 0o644)
		must(os.Symlink(live, p))
	case "directory":
		must(os.Mkdir(p, 0o755))
		wfile(filepath.Join(p, "inner"), tok, 0o644)
	}
}

func famTargetKinds(r *vh.Run) {
	// the probe of the production operation tables must see an entry that is a dangling symbolic link (lstat flavour)
	{
		base := newBase()
		link := filepath.Join(base, "1", "dangling.gob")
		must(os.Symlink(filepath.Join(base, "nowhere"), link))
		probes := map[string]func(string) (os.FileInfo, error){
			"api.defaultFontInstallFileOperations.lstat":        api.VerifDefaultTxOps().Lstat,
			"api.defaultCheatSheetFileOperations.lstat":         api.VerifDefaultCheatSheetOps().Lstat,
			"font.defaultCollectionInstallFileOperations.lstat": font.VerifDefaultCollectionOps().Lstat,
		}
		for name, probe := range probes {
			if _, err := probe(link); err != nil {
				r.OracleFail("c06:default-operations:target-probe-follows-symlinks", map[string]any{"table": name, "target": "dangling symbolic link"},
					fmt.Sprintf("%s does not see a pre-existing target that is a dangling symbolic link (%v): it will be replaced without a backup", name, err))
			} else {
				r.OracleOK()
			}
		}
	}
	for _, kind := range targetKinds {
		// (1) api.installFonts with the production transaction table; the post-commit reload fails (or not)
		for _, reloadOK := range []bool{false, true} {
			base := newBase()
			F := filepath.Join(base, "1")
			out := filepath.Join(base, "elsewhere")
			must(os.Mkdir(out, 0o755))
			in := filepath.Join(base, "in.ttf")
			wfile(in, patchedRoboto(fontName(0x10)), 0o644)
			wfile(filepath.Join(F, fontName(0x3f)+".gob"), []byte{0xee}, 0o644)
			makeTarget(kind, filepath.Join(F, fontName(0x10)+".gob"), out, oldTok(0x10))
			rc := newRec(base)
			rc.canon = gobCanon(rc)
			before := rc.snapshot()
			var warns []error
			err := api.VerifInstallFonts([]string{in}, api.VerifFontAPIOps{UserFontDir: F,
				ReloadUserFonts: func() error {
					if reloadOK {
						return nil
					}
					return errors.New("reload failed: another representation in the directory is corrupt")
				},
				Tx: api.VerifDefaultTxOps(), ReportCleanupWarning: func(e error) { warns = append(warns, e) }})
			after := rc.snapshot()
			for p := range globTemps(F) {
				rc.tdirs[p] = len(rc.tdirs) + 1
			}
			causes := 0
			if !reloadOK {
				causes = 1
			}
			oracle(r, outcome{fam: "installFonts-target-" + kind, input: map[string]any{"target_kind": kind, "reload_ok": reloadOK}, err: err, warns: warns,
				causes: causes, wrapper: true, before: before, after: after, want: map[string]string{"10": "1a4:c010"}, rec: rc})
			r.Count("class:target-kind-" + kind)
		}
		if kind == "directory" {
			continue // the commit-only runs below compare the files of the target directory only
		}
		// (2) commitCollectionFonts / publishCheatSheets / commitStagedFonts' table: every single fault
		for _, table := range []string{"coll", "cheat", "api"} {
			kind, table := kind, table
			sweep(false, func(f1, f2 int) int {
				base := newBase()
				F := filepath.Join(base, "1")
				S := filepath.Join(F, "2")
				out := filepath.Join(base, "elsewhere")
				must(os.Mkdir(S, 0o755))
				must(os.Mkdir(out, 0o755))
				ext := ".gob"
				if table == "cheat" {
					ext = "_BMP.pdf"
				}
				for _, p := range []int{0x10, 0x11} {
					wfile(filepath.Join(S, nm(p)+ext), newTok(p), 0o644)
				}
				makeTarget(kind, filepath.Join(F, nm(0x10)+ext), out, oldTok(0x10))
				wfile(filepath.Join(F, nm(0x11)+ext), oldTok(0x11), 0o644)
				rc := newRec(base, f1, f2)
				before := rc.snapshot()
				var err error
				switch table {
				case "coll":
					err = font.VerifCommitCollectionFonts(F, S, []font.InstallResult{{PostScriptName: nm(0x10)}, {PostScriptName: nm(0x11)}}, rc.collOps())
				case "cheat":
					_, err = api.VerifPublishCheatSheets(F, S, []string{nm(0x10) + ext, nm(0x11) + ext}, rc.txOpsFrom(api.VerifDefaultCheatSheetOps()))
				default:
					_, err = api.VerifPublishCheatSheets(F, S, []string{nm(0x10) + ext, nm(0x11) + ext}, rc.txOps())
				}
				oracle(r, outcome{fam: "commit-" + table + "-target-" + kind, input: map[string]any{"target_kind": kind, "f1": f1}, err: err, warns: rc.warns,
					causes: nfaults(f1, f2), before: before, after: rc.snapshot(), want: map[string]string{"10": "1a4:c010", "11": "1a4:c011"}, rec: rc, pubError: table != "coll"})
				return rc.cnt
			})
		}
		// (3) certificates: production file table under the recorder, every single fault
		kind := kind
		sweep(false, func(f1, f2 int) int {
			base := newBase()
			C := filepath.Join(base, "1")
			out := filepath.Join(base, "elsewhere")
			must(os.Mkdir(out, 0o755))
			var imps []api.VerifCertImport
			for _, p := range []int{0x10, 0x11} {
				imps = append(imps, api.VerifCertImport{InFile: fmt.Sprintf("in%x.pem", p), OutFile: filepath.Join(C, nm(p)+".p7c")})
			}
			makeTarget(kind, filepath.Join(C, nm(0x10)+".p7c"), out, oldTok(0x10))
			rc := newRec(base, f1, f2)
			save := func(_ []*x509.Certificate, stage string) error {
				var v int
				fmt.Sscanf(strings.TrimPrefix(filepath.Base(stage), ".n"), "%x", &v)
				if rc.step() {
					return eio("write", stage)
				}
				return os.WriteFile(stage, newTok(v), 0o600)
			}
			before := rc.snapshot()
			err := api.VerifPublishCertificateImports(imps, save, rc.fileOps())
			oracle(r, outcome{fam: "certificates-target-" + kind, input: map[string]any{"target_kind": kind, "f1": f1}, err: err,
				causes: nfaults(f1, f2), wrapper: true, before: before, after: rc.snapshot(),
				want: map[string]string{"10": "180:c010", "11": "180:c011"}, rec: rc, pubError: true})
			return rc.cnt
		})
	}
}
