(* C15 — Stream filters round-trip for every accepted filter pipeline.
   Property theorems only.  Models: coq/C16/Model.v (shared with C16), vocabulary: coq/C15/Model.v.
   bytes x: every element < 256.  Decoding is Filter.Decode / StreamDict.Decode (maxLen = -1) without
   decode limit (mdb = -1); C15_pipeline_roundtrip_limited adds the limit using the C16 theorems. *)
From Coq Require Import ZArith NArith List Bool.
From PV Require Import C16.Model C16.Proofs C15.Model C15.Proofs.
Import ListNotations.
Open Scope Z_scope.

(* ASCIIHex: for all byte strings *)
Theorem C15_ahx_roundtrip : forall x, bytes x ->
  bytes (ahx_encode x) /\ ahx_decode_length (ahx_encode x) (-1) (-1) = DOk x.
Proof. exact ahx_roundtrip. Qed.
Print Assumptions C15_ahx_roundtrip.

(* RunLength: for all lists (the encoder loop never runs out of fuel, the result decodes to x) *)
Theorem C15_rl_roundtrip : forall x,
  exists e, rl_encode x = Some e /\ (bytes x -> bytes e) /\ rl_decode_length e (-1) (-1) = DOk x.
Proof. exact rl_roundtrip. Qed.
Print Assumptions C15_rl_roundtrip.

(* ASCII85 / LZW / Flate: the framing and parameter handling of pdfcpu around an external codec
   that round-trips (hypotheses = the codec contracts of Go's encoding/ascii85, pdfcpu's lzw fork,
   compress/zlib). *)
Theorem C15_a85_roundtrip : forall a85enc a85open,
  (forall x, bytes x -> bytes (a85enc x) /\ a85open (a85enc x) = (x, REof)) ->
  forall x, bytes x ->
  bytes (a85_encode a85enc x) /\ a85_decode_length a85open (a85_encode a85enc x) (-1) (-1) = DOk x.
Proof. exact a85_roundtrip. Qed.
Print Assumptions C15_a85_roundtrip.

(* Full statement: for every pm that the reader accepts.  Proved for pm without predictor (> 1);
   for predictors > 1 the decoder rejects every input (C15_lzw_predictor_rejected). *)
Theorem C15_lzw_roundtrip_partial : forall lzwenc lzwopen,
  (forall ec x, bytes x -> bytes (lzwenc ec x) /\ lzwopen ec (lzwenc ec x) = (x, REof)) ->
  forall pm x, bytes x -> no_predictor pm ->
  bytes (lzw_encode lzwenc pm x) /\ lzw_decode_length lzwopen pm (lzw_encode lzwenc pm x) (-1) (-1) = DOk x.
Proof. exact lzw_roundtrip. Qed.
Print Assumptions C15_lzw_roundtrip_partial.

Theorem C15_lzw_predictor_rejected : forall lzwopen pm p bb maxLen mdb, p_pred pm = Some p -> 1 < p ->
  lzw_decode_length lzwopen pm bb maxLen mdb = DErr EOther.
Proof. exact lzw_predictor_rejected. Qed.
Print Assumptions C15_lzw_predictor_rejected.

(* Full statement: for every pm.  Proved without predictor; refuted with one (C15_flate_predictor_refuted):
   flate.Encode ignores Predictor, flate.Decode applies it. *)
Theorem C15_flate_roundtrip_partial : forall zenc zopen,
  (forall x, bytes x -> bytes (zenc x) /\ zopen (zenc x) = Some (x, REof)) ->
  forall pm x, bytes x -> no_predictor pm ->
  bytes (flate_encode zenc pm x) /\ flate_decode_length zopen pm (flate_encode zenc pm x) (-1) (-1) = DOk x.
Proof. exact flate_roundtrip. Qed.
Print Assumptions C15_flate_roundtrip_partial.

Theorem C15_flate_predictor_refuted : forall zenc zopen,
  (forall x, bytes x -> bytes (zenc x) /\ zopen (zenc x) = Some (x, REof)) ->
  exists pm x, bytes x /\ flate_decode_length zopen pm (flate_encode zenc pm x) (-1) (-1) <> DOk x.
Proof. exact flate_predictor_refuted. Qed.
Print Assumptions C15_flate_predictor_refuted.

(* every encodable filter is a round-tripping stage *)
Theorem C15_stages_roundtrip : forall a85enc a85open lzwenc lzwopen zenc zopen,
  (forall x, bytes x -> bytes (a85enc x) /\ a85open (a85enc x) = (x, REof)) ->
  (forall ec x, bytes x -> bytes (lzwenc ec x) /\ lzwopen ec (lzwenc ec x) = (x, REof)) ->
  (forall x, bytes x -> bytes (zenc x) /\ zopen (zenc x) = Some (x, REof)) ->
  stage_rt ahx_stage /\ stage_rt rl_stage /\ stage_rt (a85_stage a85enc a85open) /\
  (forall pm, no_predictor pm -> stage_rt (lzw_stage lzwenc lzwopen pm)) /\
  (forall pm, no_predictor pm -> stage_rt (flate_stage zenc zopen pm)).
Proof. exact stages_roundtrip. Qed.
Print Assumptions C15_stages_roundtrip.

(* pipelines of any length (StreamDict.Encode then StreamDict.Decode) *)
Theorem C15_pipeline_roundtrip : forall sts x,
  (forall s, In s sts -> stage_rt s) -> bytes x ->
  exists raw, pipe_encode sts x = Some raw /\ pipe_decode sts raw (-1) (-1) = DOk x.
Proof. exact pipeline_roundtrip. Qed.
Print Assumptions C15_pipeline_roundtrip.

Theorem C15_pipeline_roundtrip_limited : forall minL mdb sts x,
  (forall s, In s sts -> stage_rt s) -> (forall s, In s sts -> stage_ok (s_dec s) minL) -> bytes x ->
  0 <= decode_limit (-1) mdb -> minL <= decode_limit (-1) mdb ->
  exists raw, pipe_encode sts x = Some raw /\
    (pipe_max sts raw < max_int64 -> pipe_max sts raw <= decode_limit (-1) mdb ->
     pipe_decode sts raw (-1) mdb = DOk x).
Proof. exact pipeline_roundtrip_limited. Qed.
Print Assumptions C15_pipeline_roundtrip_limited.

(* a stream that was decoded, modified and is re-encoded decodes to the modified content *)
Theorem C15_streamdict_reencode_roundtrip : forall sts raw0 old new,
  (forall s, In s sts -> stage_rt s) ->
  pipe_decode sts raw0 (-1) (-1) = DOk old -> bytes new ->
  exists raw1, pipe_encode sts new = Some raw1 /\ pipe_decode sts raw1 (-1) (-1) = DOk new.
Proof. exact streamdict_reencode_roundtrip. Qed.
Print Assumptions C15_streamdict_reencode_roundtrip.

(* Pipelines as lists of (filter name, decode parameters), names possibly repeated with different
   parameters: StreamDict.Encode / Decode build every stage from that stage's OWN parameters, and then
   encode-decode is the identity for every list of accepted stages. *)
Theorem C15_spec_pipeline_roundtrip : forall c specs x,
  codecs_ok c -> (forall f, In f specs -> spec_accepted f) -> bytes x ->
  exists raw, spec_encode c specs x = Some raw /\ spec_decode c specs raw (-1) (-1) = DOk x.
Proof. exact spec_pipeline_roundtrip. Qed.
Print Assumptions C15_spec_pipeline_roundtrip.

Theorem C15_spec_encode_stagewise : forall c f rest x,
  spec_encode c (f :: rest) x =
  match spec_encode c rest x with Some y => s_enc (spec_stage c f) y | None => None end.
Proof. exact spec_encode_cons. Qed.
Print Assumptions C15_spec_encode_stagewise.

(* per-stage parameters matter: an encoder constructing one filter per NAME breaks the round trip *)
Theorem C15_name_cached_encoder_refuted : exists c specs x raw,
  codecs_ok c /\ (forall f, In f specs -> spec_accepted f) /\ bytes x /\
  spec_encode_cached c specs x = Some raw /\ spec_decode c specs raw (-1) (-1) <> DOk x /\
  (exists raw', spec_encode c specs x = Some raw' /\ spec_decode c specs raw' (-1) (-1) = DOk x).
Proof. exact name_cached_encoder_refuted. Qed.
Print Assumptions C15_name_cached_encoder_refuted.

(* non-vacuity: concrete encodings, a 3-stage pipeline; the stage hypotheses are inhabited *)
Example C15_nonvacuous :
  rl_encode [7;7;7;1;2;3;3]%N = Some [254;7;1;1;2;255;3;128]%N /\
  rl_decode_length [254;7;1;1;2;255;3;128]%N (-1) (-1) = DOk [7;7;7;1;2;3;3]%N /\
  ahx_encode [0;171;255]%N = [48;48;97;98;102;102;62]%N /\
  (exists raw, pipe_encode [ahx_stage; rl_stage; ahx_stage] [7;7;7]%N = Some raw /\
               pipe_decode [ahx_stage; rl_stage; ahx_stage] raw (-1) (-1) = DOk [7;7;7]%N) /\
  (forall s, In s [ahx_stage; rl_stage] -> stage_rt s).
Proof.
  split; [vm_compute; reflexivity|]. split; [vm_compute; reflexivity|]. split; [vm_compute; reflexivity|].
  split; [eexists; split; vm_compute; reflexivity|].
  intros s [H|[H|[]]]; subst s; [exact stage_rt_ahx|exact stage_rt_rl].
Qed.
