(* C20 — executable model of the content-stream scanner that decides which resource names a
   page USES (pkg/pdfcpu/model/parseContent.go: parseContent, nextContentToken,
   positionToNextContentToken, skipStringLiteral, skipHexStringLiteral, skipTJ, skipDict,
   resourceNameAtPos1/2; pkg/pdfcpu/model/parse.go: positionToNextWhitespaceOrChar,
   positionToNextEOL).  Reached by OptimizeXRefTable -> optimizeResourceDicts ->
   ConsolidatePageResources -> consolidateResourcesWithContent -> parseContent.
   Hand-transcribed; NO proofs in this file.

   Domain: ASCII content (every byte < 128): Go iterates over runes and unicode.IsSpace
   knows U+0085 / U+00A0; for bytes < 128 a rune is a byte and IsSpace is {9..13, 32}.
   Inline images (BI ... ID ... EI) are outside the model: SUnsupported. *)
From Coq Require Import List NArith Bool Arith.
From PV Require Import C20.Model.
Import ListNotations.
Open Scope N_scope.

(* whitespaceOrEOL; also the stop set of positionToNextWhitespaceOrChar: IsSpace or 0x00 *)
Definition isws (c : N) : bool :=
  (c =? 0) || (c =? 9) || (c =? 10) || (c =? 11) || (c =? 12) || (c =? 13) || (c =? 32).
Fixpoint trimws (l : bytes) : bytes :=
  match l with
  | c :: r => if isws c then trimws r else l
  | [] => []
  end.
Definition memN (c : N) (chars : bytes) : bool := existsb (N.eqb c) chars.

(* positionToNextWhitespaceOrChar(s, chars) followed by t = s[:i], s = s[i:]; None = -1 *)
Fixpoint splitAt (chars : bytes) (l : bytes) : option (bytes * bytes) :=
  match l with
  | [] => None
  | c :: r =>
      if memN c chars || isws c then Some ([], l)
      else match splitAt chars r with
           | Some (t, rest) => Some (c :: t, rest)
           | None => None
           end
  end.

Fixpoint hasPrefix (p l : bytes) : bool :=
  match p, l with
  | [], _ => true
  | x :: p', y :: l' => (x =? y) && hasPrefix p' l'
  | _ :: _, [] => false
  end.

(* skipStringLiteral, second part (the fallback; the only part before fix 896a0b77), forward form.  Go: find
   the next ')', count the backslashes right in front of it inside the current s; an even
   count (0 included) closes, an odd one skips the ')' and restarts with s = s[i+1:] (so the
   count restarts there). k = length of the run of backslashes immediately before the
   current byte since the last restart. *)
Fixpoint skipStrOld (k : nat) (s : bytes) : option bytes :=
  match s with
  | [] => None                                           (* errStringLiteralCorrupt *)
  | c :: r =>
      if c =? 41 then (if Nat.even k then Some r else skipStrOld 0 r)
      else if c =? 92 then skipStrOld (S k) r
      else skipStrOld 0 r
  end.

(* skipStringLiteral, first part (fixes 896a0b77 + b5e38ac0): `for i := 1; i < len(s); i++`
   -- s[0] is the opening parenthesis -- with a depth counter: a backslash skips the next byte,
   '(' is depth++, ')' closes when depth == 0, else depth--.  None = the loop ran to the end
   of the input without closing (unbalanced string). *)
Fixpoint fwdScan (depth : nat) (s : bytes) : option bytes :=
  match s with
  | [] => None
  | c :: r =>
      if c =? 92 then match r with [] => None | _ :: r2 => fwdScan depth r2 end
      else if c =? 40 then fwdScan (S depth) r
      else if c =? 41 then match depth with O => Some r | S d => fwdScan d r end
      else fwdScan depth r
  end.

(* skipStringLiteral(l), l[0] == '(' *)
Definition skipStr (s : bytes) : option bytes :=
  match fwdScan 0 (tl s) with
  | Some r => Some r
  | None => skipStrOld 0 s                               (* "Unbalanced: fall back ..." *)
  end.

(* skipHexStringLiteral: up to and including the first '>' *)
Fixpoint skipHex (s : bytes) : option bytes :=
  match s with
  | [] => None
  | c :: r => if c =? 62 then Some r else skipHex r
  end.

(* positionToNextEOL: s[i:] at the first LF / CR, "" when there is none *)
Fixpoint toEOL (s : bytes) : bytes :=
  match s with
  | [] => []
  | c :: r => if (c =? 10) || (c =? 13) then s else toEOL r
  end.

(* skipTJ *)
Fixpoint skipTJ (fuel : nat) (s : bytes) : option bytes :=
  match fuel with
  | O => None
  | S f =>
      match trimws s with
      | [] => None                                        (* errTJExpressionCorrupt *)
      | c :: r =>
          if c =? 93 then Some r
          else if c =? 40 then match skipStr (c :: r) with Some s' => skipTJ f s' | None => None end
          else if c =? 60 then match skipHex (c :: r) with Some s' => skipTJ f s' | None => None end
          else match splitAt [60; 40; 93] (c :: r) with
               | Some (_, s') => skipTJ f s'
               | None => None
               end
      end
  end.

(* skipDict after the leading "<<": j = nesting level *)
Fixpoint skipDictR (j : nat) (s : bytes) : option bytes :=
  match s with
  | [] => None
  | c :: r =>
      if c =? 60 then
        match r with
        | [] => None
        | c2 :: r2 => if c2 =? 60 then skipDictR (S j) r2 else skipDictR j r
        end
      else if c =? 62 then
        match r with
        | [] => None
        | c2 :: r2 =>
            if c2 =? 62 then match j with O => Some r2 | S j' => skipDictR j' r2 end
            else skipDictR j r
        end
      else skipDictR j r
  end.
Definition skipDict (l : bytes) : option bytes :=
  match l with 60 :: 60 :: r => skipDictR 0 r | _ => None end.

Inductive ptok := PDone | PErr | PUnsupported | PAt (l : bytes).

(* positionToNextContentToken *)
Fixpoint positionToNext (fuel : nat) (l : bytes) : ptok :=
  match fuel with
  | O => PErr
  | S f =>
      match trimws l with
      | [] => PDone
      | c :: r =>
          if c =? 37 then positionToNext f (toEOL (c :: r))
          else if c =? 91 then match skipTJ (S (length r)) (c :: r) with Some l' => positionToNext f l' | None => PErr end
          else if c =? 40 then match skipStr (c :: r) with Some l' => positionToNext f l' | None => PErr end
          else if c =? 60 then match skipHex (c :: r) with Some l' => positionToNext f l' | None => PErr end
          else if hasPrefix [66; 73] (c :: r) then           (* skipInlineImage *)
            match r with
            | [_] => PErr                                      (* "BI" alone: errBIExpressionCorrupt *)
            | _ :: c3 :: _ => if (c3 =? 47) || isws c3 then PUnsupported else PAt (c :: r)
            | [] => PAt (c :: r)
            end
          else PAt (c :: r)
      end
  end.

Inductive tok := TEnd | TErr | TUnsupported | TName (t : bytes) | TOther (t : bytes).

(* nextContentToken(pre, line): token and the new *line *)
Definition nextToken (pre line : bytes) : tok * bytes :=
  match line with
  | [] => (TEnd, [])                                        (* noBuf(line) *)
  | _ =>
      let l := pre ++ line in
      match positionToNext (S (length l)) l with
      | PDone => (TEnd, line)
      | PErr => (TErr, line)
      | PUnsupported => (TUnsupported, line)
      | PAt [] => (TEnd, line)
      | PAt (c :: r) =>
          if c =? 47 then
            match splitAt [47; 91; 40; 60] r with
            | None | Some ([], _) => (TErr, [])              (* i <= 0: errPageContentCorrupt *)
            | Some (t, l1) =>
                let l1' := trimws l1 in
                if hasPrefix [60; 60] l1' then
                  match skipDict l1' with Some l2 => (TOther t, l2) | None => (TErr, line) end
                else (TName t, l1')
            end
          else
            match splitAt [47; 91; 40; 60] (c :: r) with
            | None | Some ([], _) => (TOther (c :: r), [])   (* i <= 0: the rest is the token *)
            | Some (t, l') =>
                if hasPrefix [60; 60] l' then
                  match skipDict l' with Some l2 => (TOther t, l2) | None => (TErr, line) end
                else (TOther t, l')
            end
      end
  end.

(* resource categories *)
Inductive rcat := CFont | CXObject | CExtGState | CColorSpace | CPattern | CShading | CProperties.

Definition sDeviceGray : bytes := [68;101;118;105;99;101;71;114;97;121].
Definition sDeviceRGB : bytes := [68;101;118;105;99;101;82;71;66].
Definition sDeviceCMYK : bytes := [68;101;118;105;99;101;67;77;89;75].
Definition sPattern : bytes := [80;97;116;116;101;114;110].
Definition builtinCS (name : bytes) : bool :=
  beqb name sDeviceGray || beqb name sDeviceRGB || beqb name sDeviceCMYK || beqb name sPattern.

(* resourceNameAtPos1(s, name): (registered category, pushed-back rest of the token) *)
Definition atPos1 (s name : bytes) : option (option rcat * bytes) :=
  if hasPrefix [99;115] s || hasPrefix [67;83] s then            (* cs CS *)
    Some ((if builtinCS name then None else Some CColorSpace), skipn 2 s)
  else if hasPrefix [103;115] s then Some (Some CExtGState, skipn 2 s)   (* gs *)
  else if hasPrefix [68;111] s then Some (Some CXObject, skipn 2 s)      (* Do *)
  else if hasPrefix [115;104] s then Some (Some CShading, skipn 2 s)     (* sh *)
  else if hasPrefix [115;99;110] s || hasPrefix [83;67;78] s then Some (Some CPattern, skipn 3 s)  (* scn SCN *)
  else if hasPrefix [114;105] s || hasPrefix [77;80] s then Some (None, skipn 2 s)   (* ri MP *)
  else if hasPrefix [66;77;67] s then Some (None, skipn 3 s)             (* BMC *)
  else None.

(* resourceNameAtPos2 *)
Definition atPos2 (s : bytes) : option rcat :=
  if beqb s [84;102] then Some CFont                                      (* Tf *)
  else if beqb s [66;68;67] || beqb s [68;80] then Some CProperties       (* BDC DP *)
  else None.

Inductive scanres := SOk (used : list (rcat * bytes)) | SErr | SUnsupported | SFuel.

Definition reg (acc : list (rcat * bytes)) (c : option rcat) (name : bytes) : list (rcat * bytes) :=
  match c with Some c' => acc ++ [(c', name)] | None => acc end.

(* parseContent: n = "a name is pending", pos = tokens since that name *)
Fixpoint scan (fuel : nat) (pre line : bytes) (n : bool) (pos : nat) (name : bytes)
              (acc : list (rcat * bytes)) : scanres :=
  match fuel with
  | O => SFuel
  | S f =>
      match nextToken pre line with
      | (TEnd, _) => SOk acc
      | (TErr, _) => SErr
      | (TUnsupported, _) => SUnsupported
      | (TName t, line') => scan f [] line' true (if n then S pos else O) t acc
      | (TOther t, line') =>
          if negb n then scan f [] line' false pos name acc
          else
            match pos with
            | O =>                                              (* pos becomes 1 *)
                match atPos1 t name with
                | Some (c, pre') => scan f pre' line' false 1 name (reg acc c name)
                | None => scan f [] line' true 1 name acc
                end
            | S O =>                                            (* pos becomes 2 *)
                match atPos2 t with
                | Some c => scan f [] line' false 2 name (reg acc (Some c) name)
                | None => scan f [] line' true 2 name acc
                end
            | S (S p) => scan f [] line' false (S (S (S p))) name acc   (* "corrupt page content": n = false *)
            end
      end
  end.

(* the names a page uses, in the order they are registered *)
Definition used_names (s : bytes) : scanres :=
  scan (2 * length s + 2) [] s false O [] [].
