(* C13 glue: byte strings are hex pairs, rune / uint16 lists are comma separated hex numbers *)
open Model
open Common
let res_b r = match r with Ok l -> "ok:" ^ hex_of_bytes l | Err -> "err"
let res_n r = match r with Ok l -> "ok:" ^ string_of_nlist l | Err -> "err"
(* the whole store / read-back path for one Go string s *)
let rt s =
  let enc = encodeUTF16String s in
  let dec = decodeUTF16String enc in
  let esc = escapedUTF16String s in
  let lit = (match esc with Ok e -> stringLiteralToString e | Err -> Err) in
  let hx = hexLiteralToString (newHexLiteral enc) in
  String.concat "|" [hex_of_bytes enc; res_b dec; res_b esc; res_b lit; res_b hx]
let dispatch fn args = match fn, args with
  | "RT", [s] -> rt (bytes_of_hex s)
  | "EncodeUTF16String", [s] -> hex_of_bytes (encodeUTF16String (bytes_of_hex s))
  | "DecodeUTF16String", [b] -> res_b (decodeUTF16String (bytes_of_hex b))
  | "DecodeUTF16Runes", [b] -> res_n (decodeUTF16Runes (bytes_of_hex b))
  | "EscapedUTF16String", [s] -> res_b (escapedUTF16String (bytes_of_hex s))
  | "Escape", [s] -> hex_of_bytes (escape (bytes_of_hex s))
  | "Unescape", [s] -> res_b (unescape (bytes_of_hex s))
  | "StringLiteralToString", [s] -> res_b (stringLiteralToString (bytes_of_hex s))
  | "HexLiteralToString", [s] -> res_b (hexLiteralToString (bytes_of_hex s))
  | "NewHexLiteral", [s] -> hex_of_bytes (newHexLiteral (bytes_of_hex s))
  | "HexDecode", [s] -> res_b (hex_decode (bytes_of_hex s))
  | "IsUTF16BE", [s] -> str_of_bool (isUTF16BE (bytes_of_hex s))
  | "IsStringUTF16BE", [s] -> str_of_bool (isStringUTF16BE (bytes_of_hex s))
  | "Runes", [s] -> string_of_nlist (runes_of_string (bytes_of_hex s))
  | "ValidString", [s] -> str_of_bool (utf8_valid (bytes_of_hex s))
  | "StringOfRunes", [l] -> hex_of_bytes (utf8_of_runes (nlist_of_string l))
  | "Utf16Encode", [l] -> string_of_nlist (utf16_Encode (nlist_of_string l))
  | "Utf16Decode", [l] -> string_of_nlist (utf16_Decode (nlist_of_string l))
  | "PdfDocRune", [b] -> hex_of_n (pdfDocEncodingRune (n_of_hex b))
  | "ByteForOctalString", [s] -> hex_of_n (byteForOctalString (bytes_of_hex s))
  | _ -> failwith ("unknown function " ^ fn)
let () = main dispatch
